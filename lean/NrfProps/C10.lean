/-
C10 — FIFO and status accessors report the radio's true state.

Every theorem is about an arbitrary driver state `s` (any shadow attributes, any cached status
byte) over an arbitrary world (any number of radios, any FIFO contents 0..3 and beyond, any pipes,
lengths, flags, fault pattern, clock), subject only to

* `s.Wf`         the object's radio exists,
* `s.rad.RxWf`   payloads in the RX FIFO carry a pipe number 0..5 and are non-empty,
* `s.rad.Idle`   the radio is not about to transmit: `¬ (TX mode ∧ MAX_RT clear ∧ a sendable payload
                 at the head of the TX FIFO)` — i.e. `World.tryTransmit` is a no-op.

`RxWf` and `Idle` are not assumptions about particular histories: `C10_reachable` proves that they
hold for every radio after every SPI transaction, CE edge, arrival and sleep, starting from
`World.fresh` (any sequence, any bytes on the bus).  Where a theorem needs no idleness it does not
ask for it: the value an accessor returns always describes the radio **at the start of the
transaction** (the chip clocks STATUS out while the command is clocked in).

STALENESS (what is NOT claimed).  The cached accessors `pipe`, `tx_full`, `irq_dr`, `irq_ds`, `irq_df`
describe the radio's actual state only on a fresh cache (`C10_cached`, hypothesis `s.Fresh`), i.e. right
after `update()` (or `available()`, which calls it) on an idle radio.  After a transaction that itself
CHANGES the radio — `read()`, `clear_status_flags()`, `flush_rx()`, `flush_tx()` — the cache holds the
STATUS byte from BEFORE the change and the cached accessors are STALE until the next `update()`:
`irq_dr` stays True after the only payload was read / after RX_DR was cleared, `tx_full` stays True after
`flush_tx()`, `pipe` still names the pipe of a payload `flush_rx()` has discarded
(`C10_stale_after_flush`: `pipe = some p` on an empty FIFO).  (`read()` is the partial exception for
`pipe` only: the STATUS byte it caches is clocked out by the flag-clearing write AFTER the pop, so `pipe`
shows the next payload, see `C10_read`; `irq_dr` is stale there too.)  The property text says "after
update() or any other transaction … describe the radio's actual state"; for these four calls that holds
only after one more `update()` — candidate property-vs-code finding, not modelled away.

Ground truth (`Nrf.Spec.Link`): functions of the radio's FIFOs / flags only.
-/
import NrfProofs.C10Steps
import NrfProofs.TrafficInv

namespace Nrf.Props.C10
open Nrf Rf24 Spec.Link

/-- `update()`: returns `True`; the cached status byte becomes STATUS of the radio as it was at the
    start of the transaction, no other attribute changes.  On an idle radio nothing else happens in
    the world, so the cache is *fresh* (equal to STATUS of the radio as it is now). -/
theorem C10_update (s : DrvState) (hw : s.Wf) :
    (exec update s).1 = .ok true ∧
    (exec update s).2.d = { s.d with status := s.rad.status } ∧
    (s.rad.Idle → (exec update s).2.rad = s.rad ∧ World.Only s.d.rid s.w (exec update s).2.w ∧
                  (exec update s).2.Fresh) := by
  rw [exec_update]
  refine ⟨rfl, spiStep_shadow s _ _, fun hi => ?_⟩
  have hx : (s.rad.xfer [0xFF]).1 = s.rad := by rw [Radio.xfer_nop]
  obtain ⟨hd, hr, ho, _⟩ := spiStep_quiet s 0xFF [] hw (by rw [hx]; exact hi)
  rw [hx] at hr
  refine ⟨hr, ho, ?_⟩
  unfold DrvState.Fresh
  rw [hr, hd]

example : ∃ s : DrvState, s.Wf ∧ s.rad.Idle ∧ s.d.status ≠ s.rad.status :=
  ⟨{ d := {}, w := World.fresh 1 }, by decide, by decide, by decide⟩

/-- The cached attributes `pipe`, `tx_full`, `irq_dr`, `irq_ds`, `irq_df` on a fresh cache (e.g.
    right after `update()` on an idle radio, by `C10_update`): the pipe of the head of the RX
    FIFO or `None`, "the TX FIFO holds 3", and the three latched events.  They make no SPI
    transaction (the state is returned unchanged). -/
theorem C10_cached (s : DrvState) (hr : s.rad.RxWf) (hf : s.Fresh) :
    exec pipe s = (.ok (nextPipe s.rad), s) ∧
    exec txFull s = (.ok (txFifoFull s.rad), s) ∧
    exec irqDr s = (.ok (dataReady s.rad), s) ∧
    exec irqDs s = (.ok (dataSent s.rad), s) ∧
    exec irqDf s = (.ok (dataFail s.rad), s) := by
  unfold DrvState.Fresh at hf
  have hp := Radio.status_pipe s.rad hr
  refine ⟨?_, ?_, ?_, ?_, ?_⟩
  · unfold pipe
    simp only [exec_bind, exec_getD, exec_pure, rxPipeField, hf, hp]
    unfold nextPipe Radio.rxPNo
    cases hq : s.rad.rxFifo with
    | nil => simp
    | cons e rest =>
      have := (hr e (by rw [hq]; exact List.mem_cons_self)).1
      simp [this]
  · unfold txFull
    simp only [exec_bind, exec_getD, exec_pure, hf]
    have := Radio.status_txFull s.rad hr
    unfold txFifoFull
    unfold Radio.txFull at this
    congr 2
    exact decide_eq_decide.2 (this.trans decide_eq_true_iff)
  · unfold irqDr dataReady
    simp only [exec_bind, exec_getD, exec_pure, hf, Radio.status_40 s.rad hr]
  · unfold irqDs dataSent
    simp only [exec_bind, exec_getD, exec_pure, hf, Radio.status_20 s.rad hr]
  · unfold irqDf dataFail
    simp only [exec_bind, exec_getD, exec_pure, hf, Radio.status_10 s.rad hr]

example : ∃ s : DrvState, s.rad.RxWf ∧ s.Fresh ∧ nextPipe s.rad = some 3 ∧ dataReady s.rad = true :=
  ⟨{ d := { status := 0x46 },
     w := { radios := [{ rxFifo := [{ pipe := 3, data := [1, 2] }], flags := 0x40 }], busyUntil := [0] } },
   by decide, by decide, by decide, by decide⟩

/-- `available()`: "is there a payload in the RX FIFO" of the radio at the start of the
    transaction; on an idle radio that is the current radio and the cache is fresh afterwards. -/
theorem C10_available (s : DrvState) (hw : s.Wf) (hr : s.rad.RxWf) :
    (exec available s).1 = .ok (hasPayload s.rad) ∧
    (s.rad.Idle → (exec available s).2.rad = s.rad ∧ World.Only s.d.rid s.w (exec available s).2.w ∧
                  (exec available s).2.Fresh) := by
  have hu := C10_update s hw
  unfold available
  simp only [exec_bind]
  rw [exec_update] at hu ⊢
  simp only [exec_getD, exec_pure]
  refine ⟨?_, hu.2.2⟩
  simp only [rxPipeField, spiStep_status, Radio.status_pipe s.rad hr]
  unfold hasPayload
  congr 1
  have := Radio.rxPNo_lt_six s.rad hr
  cases hq : s.rad.rxFifo with
  | nil => simp [Radio.rxPNo, hq]
  | cons e t =>
    have h6 := this.2 (by rw [hq]; exact List.cons_ne_nil _ _)
    simp [h6]

example : ∃ s : DrvState, s.Wf ∧ s.rad.RxWf ∧ s.rad.Idle ∧ hasPayload s.rad = true :=
  ⟨{ d := {}, w := { radios := [{ rxFifo := [{ pipe := 3, data := [1, 2] }] }], busyUntil := [0] } },
   by decide, by decide, by decide, by decide⟩

/-- `any()`: the length of the next payload (0 if none) of the radio at the start of the
    transaction.  In dynamic mode (`_features & 4`, the EN_DPL shadow) this is the byte
    R_RX_PL_WID returns; in static mode it is the shadow length of the head payload's pipe, which
    equals the payload's length whenever that payload was received under the RX_PW the shadow
    mirrors (`hlen`; `C10_static_len` shows reception establishes it). -/
theorem C10_any (s : DrvState) (hw : s.Wf) (hr : s.rad.RxWf)
    (hlen : s.d.features &&& 4 = 0 → ∀ e rest, s.rad.rxFifo = e :: rest → s.d.plLen.getD e.pipe 0 = e.data.length) :
    (exec any s).1 = .ok (nextLen s.rad) ∧
    (s.rad.Idle → (exec any s).2.rad = s.rad ∧ World.Only s.d.rid s.w (exec any s).2.w ∧ (exec any s).2.Fresh) := by
  rw [exec_any]
  refine ⟨?_, fun hi => ?_⟩
  · simp only
    congr 1
    exact anyResult_spec s hr hlen
  · have hx : (s.rad.xfer [0x60, 0]).1 = s.rad := by rw [Radio.xfer_plWid]
    obtain ⟨hd, hr', ho, _⟩ := spiStep_quiet s 0x60 [0] hw (by rw [hx]; exact hi)
    rw [hx] at hr'
    refine ⟨hr', ho, ?_⟩
    unfold DrvState.Fresh
    rw [hr', hd]

example : ∃ s : DrvState, s.Wf ∧ s.rad.RxWf ∧ nextLen s.rad = 2 ∧
    (s.d.features &&& 4 = 0 → ∀ e rest, s.rad.rxFifo = e :: rest → s.d.plLen.getD e.pipe 0 = e.data.length) :=
  ⟨{ d := {}, w := { radios := [{ rxFifo := [{ pipe := 3, data := [1, 2] }] }], busyUntil := [0] } },
   by decide, by decide, by decide, fun h => absurd h (by decide)⟩

/-- `fifo(about_tx, check_empty)` for all six argument combinations: the documented answer about
    the occupancy of the chosen FIFO (any occupancy, not only 0..3) of the radio at the start of
    the transaction (booleans as 0/1). -/
theorem C10_fifo (aboutTx : Bool) (checkEmpty : Option Bool) (s : DrvState) (hw : s.Wf) :
    (exec (fifo aboutTx checkEmpty) s).1 = .ok (fifoAnswer (fifoOf s.rad aboutTx) checkEmpty) ∧
    (s.rad.Idle → (exec (fifo aboutTx checkEmpty) s).2.rad = s.rad ∧
                  World.Only s.d.rid s.w (exec (fifo aboutTx checkEmpty) s).2.w ∧
                  (exec (fifo aboutTx checkEmpty) s).2.Fresh) := by
  rw [exec_fifo]
  refine ⟨rfl, fun hi => ?_⟩
  have hx : (s.rad.xfer [0x17, 0]).1 = s.rad := by rw [Radio.xfer_rreg _ _ (by decide)]
  obtain ⟨hd, hr', ho, _⟩ := spiStep_quiet s 0x17 [0] hw (by rw [hx]; exact hi)
  rw [hx] at hr'
  refine ⟨hr', ho, ?_⟩
  unfold DrvState.Fresh
  rw [hr', hd]

example : fifoAnswer 3 none = 2 ∧ fifoAnswer 0 none = 1 ∧ fifoAnswer 2 none = 0 ∧ fifoAnswer 3 (some false) = 1 := by decide

/-- `last_tx_arc`: ARC_CNT of the radio — the number of retransmissions of the last packet
    (`C02_cycle_*` show a transmit cycle with `n` attempts leaves ARC_CNT = `n - 1 ≤ 15`). -/
theorem C10_last_tx_arc (s : DrvState) (hw : s.Wf) (ha : s.rad.arcCnt ≤ 15) :
    (exec lastTxArc s).1 = .ok s.rad.arcCnt ∧
    (s.rad.Idle → (exec lastTxArc s).2.rad = s.rad ∧ World.Only s.d.rid s.w (exec lastTxArc s).2.w) := by
  rw [exec_lastTxArc]
  refine ⟨by simp only [observeTx_arc _ ha], fun hi => ?_⟩
  have hx : (s.rad.xfer [8, 0]).1 = s.rad := by rw [Radio.xfer_rreg _ _ (by decide)]
  obtain ⟨_, hr', ho, _⟩ := spiStep_quiet s 8 [0] hw (by rw [hx]; exact hi)
  rw [hx] at hr'
  exact ⟨hr', ho⟩

example : ∃ s : DrvState, s.Wf ∧ s.rad.arcCnt = 7 ∧ s.rad.Idle :=
  ⟨{ d := {}, w := { radios := [{ arcCnt := 7 }], busyUntil := [0] } }, by decide, by decide, by decide⟩

/-- `read()` with a payload waiting, on an idle radio (afterwards the cached `irq_dr` is STALE — still
    the pre-read RX_DR — until the next `update()`; see the file header): returns exactly the head payload; the radio
    afterwards is the radio before with exactly that payload popped and exactly RX_DR cleared
    (TX_DS, MAX_RT, the TX FIFO, every register and every other payload are untouched — the record
    update says so; `lastByte` is the model's memory of the last byte clocked out); nothing else in
    the world changes; the cached status byte shows the *next* payload's pipe. -/
theorem C10_read (s : DrvState) (hw : s.Wf) (hr : s.rad.RxWf) (hi : s.rad.Idle)
    (e : RxEntry) (rest : List RxEntry) (hf : s.rad.rxFifo = e :: rest)
    (hlen : s.d.features &&& 4 = 0 → s.d.plLen.getD e.pipe 0 = e.data.length) :
    (exec (Rf24.read none) s).1 = .ok (some e.data) ∧
    (exec (Rf24.read none) s).2.rad =
      { s.rad with rxFifo := rest, flags := s.rad.flags &&& 0x30, lastByte := e.data.getLastD s.rad.lastByte } ∧
    dataReady (exec (Rf24.read none) s).2.rad = false ∧
    dataSent (exec (Rf24.read none) s).2.rad = dataSent s.rad ∧
    dataFail (exec (Rf24.read none) s).2.rad = dataFail s.rad ∧
    World.Only s.d.rid s.w (exec (Rf24.read none) s).2.w ∧
    (exec (Rf24.read none) s).2.d = { s.d with status := ({ s.rad with rxFifo := rest } : Radio).status } :=
  read_head_spec s hw hr hi e rest hf hlen

example : ∃ (s : DrvState) (e : RxEntry) (rest : List RxEntry), s.Wf ∧ s.rad.RxWf ∧ s.rad.Idle ∧
    s.rad.rxFifo = e :: rest ∧ rest ≠ [] ∧ s.rad.txFifo ≠ [] ∧ s.rad.flags = 0x70 ∧
    (s.d.features &&& 4 = 0 → s.d.plLen.getD e.pipe 0 = e.data.length) :=
  ⟨{ d := {}, w := { radios := [{ rxFifo := [{ pipe := 3, data := [1, 2] }, { pipe := 0, data := [9] }],
                                  txFifo := [{ kind := .payload, data := [5], pid := some 2 }],
                                  flags := 0x70, ce := true, config := 0x0E }], busyUntil := [0] } },
   _, _, by decide, by decide, by decide, rfl, by decide, by decide, by decide, by decide⟩

/-- `read()` on an empty RX FIFO: returns `None`; one transaction (R_RX_PL_WID) that changes
    nothing in the radio or the world; the cached status byte is refreshed. -/
theorem C10_read_empty (s : DrvState) (hw : s.Wf) (hi : s.rad.Idle) (hf : s.rad.rxFifo = []) :
    (exec (Rf24.read none) s).1 = .ok none ∧
    (exec (Rf24.read none) s).2.rad = s.rad ∧
    World.Only s.d.rid s.w (exec (Rf24.read none) s).2.w ∧
    (exec (Rf24.read none) s).2.d = { s.d with status := s.rad.status } := by
  have hr : s.rad.RxWf := by intro e he; rw [hf] at he; cases he
  have hany : anyResult (s.spiStep [0x60, 0]).d s.rad.headLen = 0 := by
    rw [anyResult_spec s hr (fun _ e' rest' h' => by rw [hf] at h'; cases h')]
    simp [nextLen, hf]
  rw [exec_read_zero s hany]
  have hx1 : (s.rad.xfer [0x60, 0]).1 = s.rad := by rw [Radio.xfer_plWid]
  obtain ⟨hd1, hr1, ho1, _⟩ := spiStep_quiet s 0x60 [0] hw (by rw [hx1]; exact hi)
  rw [hx1] at hr1
  exact ⟨rfl, hr1, ho1, hd1⟩

example : ∃ s : DrvState, s.Wf ∧ s.rad.Idle ∧ s.rad.rxFifo = [] :=
  ⟨{ d := {}, w := World.fresh 2 }, by decide, by decide, rfl⟩

/-- `clear_status_flags(a, b, c)` (afterwards the cache holds the STATUS byte from BEFORE the clearing —
    last conjunct — so `irq_dr` / `irq_ds` / `irq_df` are STALE until the next `update()`): exactly the
    requested latched events are cleared — the radio
    afterwards is the radio before with `flags` masked, nothing else in it or in the world changes —
    provided the radio is idle *after* the write.  (Clearing MAX_RT while CE is high in TX mode with
    the failed payload still queued is not idle: the chip retransmits at once — that is `resend()`,
    C02.)  `C10_clear_idle` lists when the side condition holds. -/
theorem C10_clear (a b c : Bool) (s : DrvState) (hw : s.Wf)
    (hi : Radio.Idle { s.rad with flags := s.rad.flags &&& (0x70 ^^^ clearMask a b c) }) :
    (exec (clearStatusFlags a b c) s).1 = .ok () ∧
    (exec (clearStatusFlags a b c) s).2.rad = { s.rad with flags := s.rad.flags &&& (0x70 ^^^ clearMask a b c) } ∧
    dataReady (exec (clearStatusFlags a b c) s).2.rad = clearedFlag (dataReady s.rad) a ∧
    dataSent (exec (clearStatusFlags a b c) s).2.rad = clearedFlag (dataSent s.rad) b ∧
    dataFail (exec (clearStatusFlags a b c) s).2.rad = clearedFlag (dataFail s.rad) c ∧
    World.Only s.d.rid s.w (exec (clearStatusFlags a b c) s).2.w ∧
    (exec (clearStatusFlags a b c) s).2.d = { s.d with status := s.rad.status } := by
  rw [exec_clearStatusFlags]
  have hx : (s.rad.xfer [0x27, clearMask a b c]).1 = { s.rad with flags := s.rad.flags &&& (0x70 ^^^ clearMask a b c) } := by
    rw [show (0x27 : Nat) = 0x20 ||| 7 from rfl, Radio.xfer_wreg _ 7 _ (by decide), Radio.writeReg_status,
      Radio.clearMask_70]
  obtain ⟨hd, hr, ho, _⟩ := spiStep_quiet s 0x27 [clearMask a b c] hw (by rw [hx]; exact hi)
  rw [hx] at hr
  have hsp := Radio.clear_flags_spec s.rad.flags a b c
  refine ⟨rfl, hr, ?_, ?_, ?_, ho, hd⟩
  · rw [hr]; exact hsp.1
  · rw [hr]; exact hsp.2.1
  · rw [hr]; exact hsp.2.2

/-- the side condition of `C10_clear` holds on an idle radio whenever MAX_RT is not being cleared,
    or was not latched, or CE is low, or the TX FIFO is empty, or the radio is not a powered-up PTX -/
theorem C10_clear_idle (a b c : Bool) (r : Radio) (hi : r.Idle)
    (h : c = false ∨ r.flags &&& 0x10 = 0 ∨ r.ce = false ∨ r.txFifo = [] ∨ r.primRx = true ∨ r.pwrUp = false) :
    Radio.Idle { r with flags := r.flags &&& (0x70 ^^^ clearMask a b c) } := by
  rcases h with h | h | h | h | h | h
  · unfold Radio.Idle; rw [← hi]
    refine Radio.txReady_congr _ _ rfl rfl ?_ rfl
    subst h
    show r.flags &&& (0x70 ^^^ clearMask a b false) &&& 0x10 = r.flags &&& 0x10
    rw [Nat.and_assoc]
    cases a <;> cases b <;> rfl
  · unfold Radio.Idle; rw [← hi]
    refine Radio.txReady_congr _ _ rfl rfl ?_ rfl
    show r.flags &&& (0x70 ^^^ clearMask a b c) &&& 0x10 = r.flags &&& 0x10
    rw [Nat.and_assoc, h]
    cases a <;> cases b <;> cases c <;> simp [clearMask, b2n, h]
  · exact Radio.idle_of_ce _ h
  · exact Radio.idle_of_empty _ h
  · exact Radio.idle_of_primRx _ h
  · exact Radio.idle_of_pwrDown _ h

example : ∃ s : DrvState, s.Wf ∧ s.rad.flags = 0x70 ∧
    Radio.Idle { s.rad with flags := s.rad.flags &&& (0x70 ^^^ clearMask true false true) } :=
  ⟨{ d := {}, w := { radios := [{ flags := 0x70, txFifo := [{ kind := .payload, data := [5] }] }], busyUntil := [0] } },
   by decide, rfl, by decide⟩

/-- `flush_rx()` on an idle radio empties exactly the RX FIFO: TX FIFO, flags, registers, the rest
    of the world are untouched; the cached status byte is the one from before the command, so the cached
    accessors (`pipe`, `irq_dr`, …) are STALE until the next `update()` (`C10_stale_after_flush`). -/
theorem C10_flush_rx (s : DrvState) (hw : s.Wf) (hi : s.rad.Idle) :
    (exec flushRx s).1 = .ok () ∧
    (exec flushRx s).2.rad = { s.rad with rxFifo := [] } ∧
    World.Only s.d.rid s.w (exec flushRx s).2.w ∧
    (exec flushRx s).2.d = { s.d with status := s.rad.status } := by
  rw [exec_flushRx]
  have hx : (s.rad.xfer [0xE2]).1 = { s.rad with rxFifo := [] } := by rw [Radio.xfer_flushRx]
  have hi' : Radio.Idle { s.rad with rxFifo := [] } := by
    unfold Radio.Idle; rw [← hi]; exact Radio.txReady_congr _ _ rfl rfl rfl rfl
  obtain ⟨hd, hr, ho, _⟩ := spiStep_quiet s 0xE2 [] hw (by rw [hx]; exact hi')
  rw [hx] at hr
  exact ⟨rfl, hr, ho, hd⟩

/-- `flush_tx()` — on any radio, idle or not (an empty TX FIFO cannot transmit) — empties exactly
    the TX FIFO.  The cached status byte is the one from before the command: `tx_full` is STALE (still
    True after flushing a full FIFO) until the next `update()`. -/
theorem C10_flush_tx (s : DrvState) (hw : s.Wf) :
    (exec flushTx s).1 = .ok () ∧
    (exec flushTx s).2.rad = { s.rad with txFifo := [] } ∧
    World.Only s.d.rid s.w (exec flushTx s).2.w ∧
    (exec flushTx s).2.d = { s.d with status := s.rad.status } := by
  rw [exec_flushTx]
  have hx : (s.rad.xfer [0xE1]).1 = { s.rad with txFifo := [] } := by rw [Radio.xfer_flushTx]
  obtain ⟨hd, hr, ho, _⟩ := spiStep_quiet s 0xE1 [] hw (by rw [hx]; exact Radio.idle_of_empty _ rfl)
  rw [hx] at hr
  exact ⟨rfl, hr, ho, hd⟩

example : ∃ s : DrvState, s.Wf ∧ s.rad.Idle ∧ s.rad.rxFifo.length = 3 ∧ s.rad.txFifo.length = 3 :=
  ⟨{ d := {}, w := { radios := [{ rxFifo := [⟨0, [1]⟩, ⟨1, [2]⟩, ⟨5, [3]⟩],
                                  txFifo := [⟨.payload, [1], none⟩, ⟨.payloadNoAck, [2], none⟩, ⟨.ackFor 1, [3], none⟩] }],
                     busyUntil := [0] } }, by decide, by decide, rfl, rfl⟩

/-- `interrupt_config(a, b, c)` on an idle radio programs CONFIG bits 6..4 so that the IRQ pin is
    asserted **iff an enabled event is latched** — for every state of the three flags — leaves CONFIG
    bits 3..0 (CRC, power, role), every other register, FIFOs and flags alone, logs no violation,
    and the `_config` shadow equals the register. -/
theorem C10_irq (a b c : Bool) (s : DrvState) (hw : s.Wf) (hi : s.rad.Idle) :
    (exec (interruptConfig a b c) s).1 = .ok () ∧
    (exec (interruptConfig a b c) s).2.rad = { s.rad with config := irqConfig s.rad.config a b c } ∧
    (exec (interruptConfig a b c) s).2.rad.irqLine = irqExpected a b c (exec (interruptConfig a b c) s).2.rad ∧
    (exec (interruptConfig a b c) s).2.rad.config &&& 0x0F = s.rad.config &&& 0x0F ∧
    (exec (interruptConfig a b c) s).2.d.config = (exec (interruptConfig a b c) s).2.rad.config ∧
    World.Only s.d.rid s.w (exec (interruptConfig a b c) s).2.w := by
  rw [exec_interruptConfig]
  obtain ⟨hle, h7f, h0f, h70, hb1, hb2⟩ := irqConfig_facts s.rad.config a b c
  -- R_REGISTER CONFIG
  have hx1 : (s.rad.xfer [0, 0]).1 = s.rad := by rw [Radio.xfer_rreg _ _ (by decide)]
  obtain ⟨hd1, hr1, ho1, hw1⟩ := spiStep_quiet s 0 [0] hw (by rw [hx1]; exact hi)
  rw [hx1] at hr1
  generalize s.spiStep [0, 0] = s1 at *
  have hrid1 : s1.d.rid = s.d.rid := by rw [hd1]
  -- shadow update
  generalize hs2 : (s1.modShadow fun d => { d with config := irqConfig s.rad.config a b c }) = s2
  have hr2 : s2.rad = s.rad := by rw [← hs2, ← hr1]; rfl
  have hw2 : s2.Wf := by rw [← hs2]; exact (modShadow_wf _ _ rfl).2 hw1
  have hrid2 : s2.d.rid = s.d.rid := by rw [← hs2, ← hrid1]; rfl
  have hwd2 : s2.w = s1.w := by rw [← hs2]; rfl
  -- W_REGISTER CONFIG
  have hx3 : (s2.rad.xfer [0x20, irqConfig s.rad.config a b c]).1 = { s.rad with config := irqConfig s.rad.config a b c } := by
    rw [show (0x20 : Nat) = 0x20 ||| 0 from rfl, Radio.xfer_wreg _ 0 _ (by decide), hr2]
    unfold Radio.writeReg
    simp only [List.headD_cons, h7f, Radio.reservedLog, ↓reduceIte, List.append_nil]
    have : ¬ (s.rad.ce = true ∧ irqConfig s.rad.config a b c &&& 1 ≠ s.rad.config &&& 1) := fun h => h.2 hb1
    simp only [this, ↓reduceIte, List.append_nil]
  have hi3 : Radio.Idle { s.rad with config := irqConfig s.rad.config a b c } := by
    unfold Radio.Idle; rw [← hi]
    exact Radio.txReady_congr' _ _ hb1 hb2 rfl rfl rfl
  obtain ⟨hd3, hr3, ho3, _⟩ := spiStep_quiet s2 0x20 [irqConfig s.rad.config a b c] hw2 (by rw [hx3]; exact hi3)
  rw [hx3] at hr3
  refine ⟨rfl, hr3, ?_, ?_, ?_, ?_⟩
  · rw [hr3]
    unfold Radio.irqLine irqExpected dataReady dataSent dataFail
    simp only [h70]
    have ht := irqLine_tbl ⟨s.rad.flags % 128, Nat.mod_lt _ (by decide)⟩ a b c
    simp only at ht
    have e70 := and_mask_mod s.rad.flags 0x70 7 (by decide)
    have e40 := and_mask_mod s.rad.flags 0x40 7 (by decide)
    have e20 := and_mask_mod s.rad.flags 0x20 7 (by decide)
    have e10 := and_mask_mod s.rad.flags 0x10 7 (by decide)
    simp only [Nat.reducePow] at e70 e40 e20 e10
    rw [e70, e40, e20, e10]
    exact ht
  · rw [hr3]; exact h0f
  · rw [hr3, hd3, ← hs2]; rfl
  · rw [hrid2] at ho3
    rw [hwd2] at ho3
    exact ho1.trans ho3

example : ∃ s : DrvState, s.Wf ∧ s.rad.Idle ∧ s.rad.flags = 0x50 ∧ s.rad.config = 0x0E :=
  ⟨{ d := {}, w := { radios := [{ flags := 0x50, config := 0x0E }], busyUntil := [0] } }, by decide, by decide, rfl, rfl⟩

/-- **Staleness after `flush_rx()`, stated precisely.**  From any idle radio with a payload of pipe
    `e.pipe` at the head of its RX FIFO (cache fresh or not): after `flush_rx()` the RX FIFO is empty —
    the true answer is "no pipe" (`nextPipe = none`) — but the cached accessor `pipe` returns
    `some e.pipe`, the pipe of a payload that no longer exists; only after the next `update()` does
    `pipe` return `None`.  (The same mechanism makes `irq_dr` / `tx_full` stale after `read()`,
    `clear_status_flags()`, `flush_tx()`: each caches the STATUS byte from before its own effect.) -/
theorem C10_stale_after_flush (s : DrvState) (hw : s.Wf) (hr : s.rad.RxWf) (hi : s.rad.Idle)
    (e : RxEntry) (rest : List RxEntry) (hf : s.rad.rxFifo = e :: rest) :
    let s' := (exec flushRx s).2
    nextPipe s'.rad = none ∧
    exec pipe s' = (.ok (some e.pipe), s') ∧
    exec pipe (exec update s').2 = (.ok none, (exec update s').2) := by
  intro s'
  obtain ⟨_, h2, _, h4⟩ := C10_flush_rx s hw hi
  have hw0 : (exec flushRx s).2.Wf := by rw [exec_flushRx]; exact (spiStep_wf _ _).2 hw
  have hs' : s' = (exec flushRx s).2 := rfl
  clear_value s'
  rw [← hs'] at h2 h4 hw0
  have h2' : s'.rad = { s.rad with rxFifo := [] } := h2
  have h4' : s'.d = { s.d with status := s.rad.status } := h4
  have hpipe : e.pipe ≤ 5 := (hr e (by rw [hf]; exact List.mem_cons_self)).1
  have hw' : s'.Wf := hw0
  have hi' : s'.rad.Idle := by
    rw [h2']; unfold Radio.Idle; rw [← hi]; exact Radio.txReady_congr _ _ rfl rfl rfl rfl
  have hr' : s'.rad.RxWf := by intro x hx; rw [h2'] at hx; cases hx
  refine ⟨by rw [h2']; rfl, ?_, ?_⟩
  · have hp := Radio.status_pipe s.rad hr
    unfold pipe
    simp only [exec_bind, exec_getD, exec_pure, rxPipeField, h4', hp]
    unfold Radio.rxPNo
    simp [hf, hpipe]
  · obtain ⟨_, hd, hrest⟩ := C10_update s' hw'
    obtain ⟨hrad, _, hfresh⟩ := hrest hi'
    have hc := (C10_cached (exec update s').2 (by rw [hrad]; exact hr') hfresh).1
    rw [hc, hrad, h2']
    rfl

example : ∃ (s : DrvState) (e : RxEntry) (rest : List RxEntry), s.Wf ∧ s.rad.RxWf ∧ s.rad.Idle ∧
    s.rad.rxFifo = e :: rest ∧ e.pipe = 3 :=
  ⟨{ d := {}, w := { radios := [{ rxFifo := [{ pipe := 3, data := [1, 2] }], flags := 0x40 }], busyUntil := [0] } },
   _, _, by decide, by decide, by decide, rfl, rfl⟩

/-- **The side conditions are invariants of all histories.**  In every world reachable from reset
    radios by any finite sequence of SPI transactions (any bytes, on any radio), CE edges, arrivals
    (`inject`), sleeps and changes of the fault pattern — PRIMITIVES ONLY: the theorem is about
    sequences of these world steps; that every driver method is such a sequence is the content of
    `C10_reachable_drv` (four primitives) plus the prose remark that methods are compositions of them,
    no theorem composes it for a method or a sequence of method calls — every radio satisfies
    `RxWf`, is `Idle`, holds at most 3 payloads per FIFO and has ARC_CNT ≤ 15.  (`World.Step`,
    `World.Reachable` are defined in `NrfProofs/TrafficInv.lean`.) -/
theorem C10_reachable (w : World) (h : World.Reachable w) (j : Nat) (hj : j < w.radios.length) :
    (w.radio j).RxWf ∧ (w.radio j).Idle ∧ (w.radio j).rxFifo.length ≤ 3 ∧ (w.radio j).txFifo.length ≤ 3 ∧
    (w.radio j).arcCnt ≤ 15 := by
  have hg := h.good
  have hs := hg.1 j hj
  exact ⟨hs.rx, hg.2 j hj, hs.rxLen, hs.txLen, hs.arc⟩

example : ∃ w : World, World.Reachable w ∧ w.radios.length = 2 ∧ (w.radio 0).ce = true :=
  ⟨_, .step (.fresh 2 true) (.setCE _ 0 true (by decide)), by decide, by decide⟩

/-- PRIMITIVES ONLY: the driver's three primitives (`_spi.write_readinto`, `ce_pin.value = v`,
    `time.sleep`) and a shadow update are steps.  Every method of `Rf24` is a composition of these, so
    it keeps the world reachable — that composition is prose, not a theorem (no induction over the
    methods / over histories of method calls is stated here). -/
theorem C10_reachable_drv (s : DrvState) (hw : s.Wf) (h : World.Reachable s.w) :
    (∀ out, World.Reachable (exec (xfer out) s).2.w) ∧ (∀ v, World.Reachable (exec (setCE v) s).2.w) ∧
    (∀ n, World.Reachable (exec (sleepNs n) s).2.w) ∧ (∀ f, World.Reachable (exec (modD f) s).2.w) :=
  ⟨fun out => by rw [exec_xfer]; exact .step h (.spi _ _ out hw),
   fun v => by rw [exec_setCE]; exact .step h (.setCE _ _ v hw),
   fun n => by rw [exec_sleepNs]; exact .step h (.sleep _ n),
   fun f => by rw [exec_modD]; exact h⟩

example : ∃ s : DrvState, s.Wf ∧ World.Reachable s.w := ⟨{ d := {}, w := World.fresh 1 }, by decide, .fresh 1 true⟩

/-- The hypothesis `hlen` of `C10_any` / `C10_read` in static mode is an invariant of reception: on
    a radio with dynamic payloads off (EN_DPL clear) whose RX_PW registers equal the `_pl_len`
    shadows, every packet the radio accepts is stored with the length the shadow of its pipe says
    (rule 11 of the air model: a static pipe accepts only packets of exactly RX_PW bytes). -/
theorem C10_static_len (d : Rf24) (r : Radio) (k : Packet) (hst : r.feature &&& 4 = 0)
    (hsh : ∀ p, p ≤ 5 → d.plLen.getD p 0 = r.rxPw.getD p 0)
    (hinv : ∀ e ∈ r.rxFifo, d.plLen.getD e.pipe 0 = e.data.length) :
    ∀ e ∈ (r.receive k).1.rxFifo, d.plLen.getD e.pipe 0 = e.data.length := by
  rcases Radio.receive_rxFifo r k with h | ⟨p, hp, h⟩
  · rw [h]; exact hinv
  · rw [h]
    intro e he
    rcases List.mem_append.1 he with he | he
    · exact hinv e he
    · simp only [List.mem_cons, List.not_mem_nil, or_false] at he
      subst he
      have hp5 := Radio.listensTo_le r k p hp
      have hrule := ((Radio.listensTo_eq_some r k p).1 hp).2.2
      unfold Radio.lenRule Radio.dplOn at hrule
      simp only [hst, ne_eq, not_true_eq_false, decide_false, Bool.false_and, Bool.and_false, Bool.and_eq_true, beq_iff_eq] at hrule
      obtain ⟨hdpl, hl⟩ := hrule
      rw [← hdpl] at hl
      simp only [Bool.false_eq_true, ↓reduceIte, Bool.and_eq_true, beq_iff_eq] at hl
      show d.plLen.getD p 0 = k.data.length
      rw [hsh p hp5, hl.1]

example : ∃ (d : Rf24) (r : Radio), r.feature &&& 4 = 0 ∧ (∀ p, p ≤ 5 → d.plLen.getD p 0 = r.rxPw.getD p 0) :=
  ⟨{ plLen := [4, 4, 4, 4, 4, 4] }, { rxPw := [4, 4, 4, 4, 4, 4] }, by decide, by
    intro p hp
    have : p = 0 ∨ p = 1 ∨ p = 2 ∨ p = 3 ∨ p = 4 ∨ p = 5 := by omega
    rcases this with h | h | h | h | h | h <;> subst h <;> rfl⟩

end Nrf.Props.C10
