/-
C11 — "A network header always serialises to exactly 8 bytes - origin, destination and frame id as
little-endian 16-bit values, then the type byte and the reserved byte - and parsing those bytes
yields the same field values; a frame is its header followed by the unmodified message, and
buffers shorter than 8 bytes are refused.  A message longer than 24 bytes is emitted as
ceil(n/24) frames sharing one frame id, typed first/more/last, with a descending fragment counter
in the reserved byte and the original type in the last fragment's reserved byte, such that a
TMRh20-style receiver reassembles exactly the original message.  After sending, the caller's
header shows its original type again."

Model: `NrfModel/Net/Structs.lean`, `NrfModel/Net/Frag.lean`; spec: `NrfModel/Spec/Wire.lean`,
`NrfModel/Spec/Reassembly.lean` (`tmrhReassemble`).

Not covered by a theorem (tie-only): D12 — before its fix, while `_write()` waited for a NETWORK_ACK of
a routed message, `_net_update()` unpacked received frames into `frame_buf`, which `_pre_write` had
aliased to the *caller's* frame, so the caller's header was overwritten (type 193).  The repaired code
works on a private copy; `C11_type_restored` is a tautology of the pure model `netWrite` (it returns
`header := h` by construction) and says nothing about that wait — the correspondence run does.
-/
import NrfProofs.FragSpec

namespace Nrf.Props.C11
open Nrf.Net Nrf.Spec Nrf.Proofs

/-- whatever the attribute values (any naturals, `str` types included): if `pack()` returns, it
    returns exactly 8 bytes -/
theorem C11_pack_len (h : Header) (b : Bytes) (hb : h.pack = .ok b) : b.length = 8 := by
  cases ht : typeCode h.msgType with
  | none => rw [pack_error h ht] at hb; cases hb
  | some t => rw [pack_eq h t ht] at hb; injection hb with hb; subst hb; rfl

example : (Header.pack { fromNode := 0o4444, toNode := 1, frameId := 65535, msgType := .str [84] }).toOption
    = some [0x24, 0x09, 1, 0, 0xFF, 0xFF, 84, 0] := by decide

/-- `pack()` fails only for the empty-string type (Python: `"" & 0xFF` is a TypeError) -/
theorem C11_pack_total (h : Header) (hne : h.msgType ≠ .str []) : ∃ b, h.pack = .ok b := by
  cases ht : typeCode h.msgType with
  | none =>
    exfalso; apply hne
    cases hm : h.msgType with
    | int n => simp [hm, typeCode] at ht
    | str cs => cases cs with
      | nil => rfl
      | cons c r => simp [hm, typeCode] at ht
  | some t => exact ⟨_, pack_eq h t ht⟩

example : (Header.pack { msgType := .str [] }) = .error .typeError := rfl

/-- the layout: for in-range field values the 8 bytes are origin, destination, id (little-endian
    16 bit each), type, reserved -/
theorem C11_layout (h : Header) (t : Nat) (ht : h.msgType = .int t) (hr : (wOf h t []).InRange) :
    h.pack = .ok [h.fromNode % 256, h.fromNode / 256, h.toNode % 256, h.toNode / 256,
                  h.frameId % 256, h.frameId / 256, t, h.reserved] :=
  pack_inrange h t ht hr

example : (wOf { fromNode := 0o4444, toNode := 0o100, frameId := 65535, msgType := .int 255,
                 reserved := 255 } 255 []).InRange := by decide

/-- parsing what `pack()` produced (followed by any message bytes) yields every field reduced to
    its wire width — for **all** attribute values, into **any** header object -/
theorem C11_unpack_pack (h h0 : Header) (t : Nat) (ht : typeCode h.msgType = some t) (b rest : Bytes)
    (hb : h.pack = .ok b) : h0.unpack (b ++ rest) = (maskedHeader h t, true) :=
  unpack_pack h h0 t ht b hb rest

/-- round trip: all 12-bit addresses, all 16-bit ids, all 256 types and reserved values -/
theorem C11_roundtrip (h h0 : Header) (t : Nat) (ht : h.msgType = .int t)
    (hr : (wOf h t []).InRange) :
    ∃ b, h.pack = .ok b ∧ h0.unpack b = (h, true) := by
  obtain ⟨b, hb⟩ := C11_pack_total h (by rw [ht]; simp)
  refine ⟨b, hb, ?_⟩
  have := unpack_pack h h0 t (by simp [ht, typeCode]) b hb []
  rw [List.append_nil] at this
  rw [this]
  obtain ⟨h1, h2, h3, h4, h5⟩ := hr
  simp only [wOf] at h1 h2 h3 h4 h5
  cases h
  simp only at ht h1 h2 h3 h5
  simp [maskedHeader, ht, Nat.mod_eq_of_lt h1, Nat.mod_eq_of_lt h2, Nat.mod_eq_of_lt h3,
    Nat.mod_eq_of_lt h4, Nat.mod_eq_of_lt h5]

example : Header.pack ⟨0o7777, 0o5555, 65535, .int 150, 131⟩ =
    .ok [255, 15, 109, 11, 255, 255, 150, 131] := rfl

/-- the constructor: a one-character string type becomes its code, an int type is taken modulo
    256, the destination modulo 4096 (also for negative arguments), the id is the class counter,
    and the counter advances modulo 2^16 (65535 wraps to 0) -/
theorem C11_init (n : Nat) (to : Option Int) (mt : CtorT) (h : Header) (n' : Nat)
    (hi : Header.init n to mt = .ok (h, n')) :
    h.frameId = n ∧ n' = (n + 1) % 65536 ∧ h.fromNode = 0o7777 ∧ h.reserved = 0 ∧
    h.toNode = (match to with | none => 0 | some t => (t % 4096).toNat) ∧
    h.msgType = .int (match mt with
      | .none => 0 | .int i => (i % 256).toNat | .str cs => cs.head?.getD 0) := by
  unfold Header.init at hi
  cases mt with
  | none =>
    simp only [bind, Except.bind, pure, Except.pure, Except.ok.injEq, Prod.mk.injEq] at hi
    obtain ⟨rfl, rfl⟩ := hi
    refine ⟨rfl, and_ffff _, rfl, rfl, ?_, rfl⟩
    cases to <;> rfl
  | int i =>
    simp only [bind, Except.bind, pure, Except.pure, Except.ok.injEq, Prod.mk.injEq] at hi
    obtain ⟨rfl, rfl⟩ := hi
    refine ⟨rfl, and_ffff _, rfl, rfl, ?_, rfl⟩
    cases to <;> rfl
  | str cs =>
    cases cs with
    | nil => simp [bind, Except.bind, throw, throwThe, MonadExceptOf.throw] at hi
    | cons c r =>
      simp only [bind, Except.bind, pure, Except.pure, Except.ok.injEq, Prod.mk.injEq] at hi
      obtain ⟨rfl, rfl⟩ := hi
      refine ⟨rfl, and_ffff _, rfl, rfl, ?_, rfl⟩
      cases to <;> rfl

example : Header.init 65535 (some 0o4444) (.str [84]) = .ok (⟨0o7777, 0o4444, 65535, .int 84, 0⟩, 0) :=
  rfl

/-- `RF24NetworkHeader(to, "")` raises (`ord(""[0])`) and leaves the counter alone -/
theorem C11_init_empty_str (n : Nat) (to : Option Int) :
    Header.init n to (.str []) = .error .indexError := by
  cases to <;> rfl

/-- buffers shorter than 8 bytes are refused and nothing is touched (header and frame) -/
theorem C11_short (f : Frame) (b : Bytes) (hb : b.length < 8) :
    f.header.unpack b = (f.header, false) ∧ f.unpack b = (f, false) := by
  refine ⟨unpack_short _ b hb, ?_⟩
  unfold Frame.unpack
  rw [unpack_short _ b hb]
  cases f; rfl

example : (Frame.unpack { message := [1, 2] } [1, 2, 3, 4, 5, 6, 7]) = ({ message := [1, 2] }, false) := by
  decide

/-- a frame is its header followed by the unmodified message; its length is 8 + len(message);
    parsing it back (into any frame object) gives the masked header and the same message -/
theorem C11_frame (f f0 : Frame) (t : Nat) (ht : typeCode f.header.msgType = some t) :
    ∃ hb, f.header.pack = .ok hb ∧ f.pack = .ok (hb ++ f.message) ∧
      (hb ++ f.message).length = f.len ∧
      f0.unpack (hb ++ f.message) = ({ header := maskedHeader f.header t, message := f.message }, true) := by
  refine ⟨_, pack_eq f.header t ht, ?_, ?_, ?_⟩
  · simp [Frame.pack, pack_eq f.header t ht, bind, Except.bind, pure, Except.pure]
  · simp [Frame.len]; omega
  · unfold Frame.unpack
    rw [unpack_pack f.header f0.header t ht _ (pack_eq f.header t ht) f.message]
    simp

example : Frame.pack ⟨⟨1, 2, 3, .int 4, 5⟩, [9, 9]⟩ = .ok [1, 0, 2, 0, 3, 0, 4, 5, 9, 9] := rfl

/-- a message of at most 24 bytes goes out as one frame: header followed by the message -/
theorem C11_single (h : Header) (t : Nat) (msg : Bytes) (ht : h.msgType = .int t)
    (hlen : msg.length ≤ 24) :
    ∃ hb, h.pack = .ok hb ∧ writeToPipe h t msg = .ok ([hb ++ msg], h) := by
  refine ⟨_, pack_eq h t (by simp [ht, typeCode]), ?_⟩
  unfold writeToPipe
  have : msg.length ≤ MAX_FRAG_SIZE := hlen
  simp [this, Frame.pack, pack_eq h t (by simp [ht, typeCode] : typeCode h.msgType = some t),
    bind, Except.bind, pure, Except.pure]

/-- **every** message longer than 24 bytes, of any length: `ceil(n/24)` frames, the `k`-th being the
    reference encoder's `k`-th fragment (shared origin/destination/id, typed FIRST, MORE…, LAST,
    counter `total - k` in the reserved byte — as a byte, i.e. modulo 256 —, the original type in
    LAST's reserved byte, body `message[24k : 24k+24]`), each at most 32 bytes, the bodies
    concatenating to the message -/
theorem C11_fragments_all_lengths (h : Header) (t : Nat) (msg : Bytes)
    (hs : h.fromNode < 4096) (hd : h.toNode < 4096) (hi : h.frameId < 65536) (hlen : 24 < msg.length) :
    ∃ frames h', writeToPipe h t msg = .ok (frames, h') ∧
      frames.length = fragCount msg.length ∧
      (∀ k, k < fragCount msg.length → frames[k]? =
        some (fragBytes ⟨h.fromNode, h.toNode, h.frameId, t, msg⟩ (fragCount msg.length) k)) ∧
      (∀ b ∈ frames, b.length ≤ 32) ∧
      (refFrames ⟨h.fromNode, h.toNode, h.frameId, t, msg⟩).flatMap (·.body) = msg := by
  refine ⟨_, _, writeToPipe_long h t msg hs hd hi hlen, by simp, ?_, ?_, refFrames_bodies _⟩
  · intro k hk; simp [hk]
  · intro b hb
    simp only [List.mem_map, List.mem_range] at hb
    obtain ⟨k, _, rfl⟩ := hb
    have := fragment_body_le ⟨h.fromNode, h.toNode, h.frameId, t, msg⟩ (fragCount msg.length) k
    simp [fragBytes, headerBytes]; omega

/-- messages whose fragment count fits the counter byte (up to 255 fragments = 6120 bytes; the
    library's own limit is 144): the emitted payloads are exactly the reference encoder's frames in
    the wire layout, a receiver parses them back to those frames, and the TMRh20-style reference
    reassembler fed with them hands out exactly one message: the original bytes with the original
    type, origin, destination and id -/
theorem C11_fragments (h : Header) (t : Nat) (msg : Bytes) (hr : (wOf h t []).InRange)
    (hlen : 24 < msg.length) (hcnt : fragCount msg.length ≤ 255) :
    ∃ frames h', writeToPipe h t msg = .ok (frames, h') ∧
      frames = (refFrames ⟨h.fromNode, h.toNode, h.frameId, t, msg⟩).map frameBytes ∧
      frames.length = (msg.length + 23) / 24 ∧
      frames.mapM parseFrame = some (refFrames ⟨h.fromNode, h.toNode, h.frameId, t, msg⟩) ∧
      tmrhReassemble (refFrames ⟨h.fromNode, h.toNode, h.frameId, t, msg⟩) =
        [{ src := h.fromNode, dst := h.toNode, id := h.frameId, ty := t, rsv := t, body := msg }] ∧
      h'.msgType = .int t := by
  obtain ⟨h1, h2, h3, h4, _⟩ := hr
  simp only [wOf] at h1 h2 h3 h4
  have hin : ∀ k, (fragment ⟨h.fromNode, h.toNode, h.frameId, t, msg⟩ (fragCount msg.length) k).InRange :=
    fun k => fragment_inRange _ _ k h1 h2 h3 h4 hcnt
  have href : refFrames ⟨h.fromNode, h.toNode, h.frameId, t, msg⟩ =
      (List.range (fragCount msg.length)).map
        (fragment ⟨h.fromNode, h.toNode, h.frameId, t, msg⟩ (fragCount msg.length)) := by
    unfold refFrames
    have : ¬ (msg.length ≤ FRAG_SIZE) := by unfold FRAG_SIZE; omega
    simp [this]
  have hframes : (List.range (fragCount msg.length)).map
        (fragBytes ⟨h.fromNode, h.toNode, h.frameId, t, msg⟩ (fragCount msg.length)) =
      (refFrames ⟨h.fromNode, h.toNode, h.frameId, t, msg⟩).map frameBytes := by
    rw [href, List.map_map]
    apply List.map_congr_left
    intro k _
    exact fragBytes_eq _ _ k (hin k).2.2.2.2
  refine ⟨_, _, writeToPipe_long h t msg h1 h2 h3 hlen, hframes, ?_, ?_, ?_, rfl⟩
  · simp [fragCount, FRAG_SIZE]
  · rw [hframes]
    apply mapM_parse
    intro f hf
    rw [href] at hf
    simp only [List.mem_map, List.mem_range] at hf
    obtain ⟨k, _, rfl⟩ := hf
    exact hin k
  · exact tmrh_refFrames ⟨h.fromNode, h.toNode, h.frameId, t, msg⟩ hlen

/-- non-vacuity and a concrete look: a 49-byte message of type 200 from the master to node 0o1 -/
example : (writeToPipe { fromNode := 0, toNode := 1, frameId := 7, msgType := .int 200 } 200
      (List.replicate 49 0xAB)).toOption.map (fun p => p.1.map (fun b => b.take 8)) =
    some [[0, 0, 1, 0, 7, 0, 148, 3], [0, 0, 1, 0, 7, 0, 149, 2], [0, 0, 1, 0, 7, 0, 150, 200]] := by
  decide

/-- MODEL TAUTOLOGY (`⟨rfl, rfl⟩` in every branch), not evidence for the clause: `netWrite` is a pure
    function that literally returns `header := { h with fromNode := n.addr }`, so "after `write()` the
    caller's header shows the type it had before, and every other field except `from_node`" holds by
    the shape of the model.  That neither the fragment loop nor frames received while waiting for a
    NETWORK_ACK reach the caller's frame (the fix "write() of a routed message let the awaited
    NETWORK_ACK overwrite the caller's frame": the node now works on a private copy) is a MODELLING
    DECISION taken after that fix, not something this theorem proves; the clause is decided by the
    correspondence run (tie-only), which compares the real caller's header object after `write()`,
    including routed messages that wait for a NETWORK_ACK. -/
theorem C11_type_restored (n : NodeAddr) (maxLen : Nat) (fe : Bool) (h : Header) (msg : Bytes)
    (w : WriteOut) (hw : netWrite n maxLen fe h msg = .ok w) :
    w.header.msgType = h.msgType ∧ w.header = { h with fromNode := n.addr } := by
  unfold netWrite at hw
  by_cases hv : (!isValid h.toNode) = true
  · simp [hv, bind, Except.bind, throw, throwThe, MonadExceptOf.throw] at hw
  · cases hl : validateMsgLen maxLen fe msg.length with
    | error e => simp [hv, hl, bind, Except.bind, pure, Except.pure] at hw
    | ok okLen =>
      simp only [hv, hl, bind, Except.bind, pure, Except.pure, Bool.false_eq_true, ↓reduceIte] at hw
      split at hw
      · cases hw
      · split at hw
        · injection hw with hw; subst hw; exact ⟨rfl, rfl⟩
        · split at hw
          · cases hw
          · injection hw with hw; subst hw; exact ⟨rfl, rfl⟩

/-- non-vacuity: the master sends 30 bytes of type 65 to node 0o1: two frames, the caller's header
    is exactly what it was (with `from_node` filled in) -/
example : ((netWrite ⟨0, 0, 0, 0xFFFF, 0, 0⟩ 144 true ⟨0o7777, 1, 3, .int 65, 0⟩
    (List.replicate 30 1)).toOption.map fun w => (w.frames.length, w.header))
    = some (2, ⟨0, 1, 3, .int 65, 0⟩) := by
  have hv : isValid 1 = true := by
    simp [isValid, isValidGo, NETWORK_MULTICAST_ADDR, NETWORK_MULTICAST_ADDR_LVL_2,
      NETWORK_MULTICAST_ADDR_LVL_4, VALID_DIGIT_LIMIT]
  unfold netWrite
  simp only [hv, Bool.not_true, Bool.false_eq_true, ↓reduceIte]
  rfl

end Nrf.Props.C11
