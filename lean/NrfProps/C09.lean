/-
C09 — `with` restores an object's complete radio configuration (statements in progress).
-/
import NrfModel.BleDev

namespace Nrf.Props.C09
open Nrf

/-- a register write that respects the write mask logs no violation and stores the value -/
theorem C09_maskWrite_clean (r : Radio) (name : String) (mask v : Nat) (h : v &&& mask = v) :
    r.maskWrite name mask v = (r, v) := by
  simp [Radio.maskWrite, h]

end Nrf.Props.C09
