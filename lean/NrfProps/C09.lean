/-
C09 — `with` restores an object's complete radio configuration (statements in progress).
-/
import NrfModel.BleDev

namespace Nrf.Props.C09
open Nrf

/-- a register write that respects the write mask logs nothing -/
theorem C09_reservedLog_clean (name : String) (mask v : Nat) (h : v &&& mask = v) :
    Radio.reservedLog name mask v = [] := by
  simp [Radio.reservedLog, h]

end Nrf.Props.C09
