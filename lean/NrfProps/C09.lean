/-
C09 — `with` restores an object's complete radio configuration.

Spec: `NrfModel/Spec/Restore.lean` (`CfgRegs`, `regsOf`, `shadowRegs`, `ShadowEq`, `InRange`,
`RadioShape`, `PoweredDown`, `SameShadows`).  Helper lemmas: `NrfProofs/C08Core.lean`,
`NrfProofs/C09Enter.lean`, `C09History.lean` (blocks of several objects), `C09Init.lean`, `C09Ble.lean`,
`InitDetect.lean` (the variant detection of `__init__`), `C09Construct.lean` (systems of constructed objects).
-/
import NrfProofs.C09Construct

namespace Nrf.Props.C09
open Nrf Nrf.Spec Rf24

/-- the radio an object drives, in a world -/
abbrev radioOf (d : Rf24) (w : World) : Radio := w.radio d.rid

/-- **`__enter__` makes the register file a function of the object's shadows alone.**
For EVERY in-range shadow state `d` and EVERY world `w` — whatever other objects left in the
radio's registers, FIFOs, flags, whatever is on the air — in which the object's radio exists and
its FEATURE/DYNPD registers are accessible (an nRF24L01+, or a non-plus chip in the activated
state): `__enter__` does not raise; afterwards every configuration register equals its shadow
(`ShadowEq`), explicitly `regsOf = shadowRegs {d with config := d.config ||| 2}`; CE is low and
PWR_UP is set; the shadows are unchanged apart from PWR_UP in the CONFIG shadow; the violation log
gains at most the library's documented "2-byte address" entry; the chip variant state is untouched;
no other radio's configuration changes. -/
theorem C09_enter (d : Rf24) (w : World) (hrid : d.rid < w.radios.length) (hr : InRange d)
    (hvis : (radioOf d w).featureVisible = true) (hshape : RadioShape (radioOf d w)) :
    let out := exec enter ⟨d, w⟩
    out.1 = .ok () ∧
    regsOf (radioOf d out.2.w) = shadowRegs { d with config := d.config ||| 2 } ∧
    ShadowEq out.2.d (radioOf d out.2.w) ∧
    SameShadows out.2.d { d with config := d.config ||| 2 } ∧
    (radioOf d out.2.w).ce = false ∧ (radioOf d out.2.w).config &&& 2 = 2 ∧
    (radioOf d out.2.w).plus = (radioOf d w).plus ∧ (radioOf d out.2.w).activated = (radioOf d w).activated ∧
    (radioOf d out.2.w).violations = (radioOf d w).violations ++ enterLog d ∧
    out.2.w.radios.length = w.radios.length ∧
    ∀ j, j ≠ d.rid → (out.2.w.radio j).cfgOf = (w.radio j).cfgOf := by
  intro out
  obtain ⟨s', hex, hd, hrid', hwf, hfr, hlen, hce, hpl, hact, hviol, hvis', _⟩ := enter_spec ⟨d, w⟩ hrid hr hshape
  have hout : out = (.ok (), s') := hex
  rw [hout]
  have hregs := hvis' hvis
  have hc : s'.cfg = (radioOf d s'.w).cfgOf := by
    unfold DrvState.cfg radioOf; rw [hrid']
  rw [hc] at hregs hviol hce hpl hact
  have h1' : regsOf (radioOf d s'.w) = shadowRegs { d with config := d.config ||| 2 } := hregs
  refine ⟨rfl, h1', ?_, ?_, hce, ?_, hpl, hact, hviol, hlen, hfr⟩
  · show regsOf (radioOf d s'.w) = shadowRegs s'.d
    rw [h1', hd]
    rfl
  · show ({ s'.d with status := 0 } : Rf24) = _
    rw [hd]
  · have : (radioOf d s'.w).config = d.config ||| 2 := congrArg CfgRegs.config h1'
    rw [this]
    exact (by decide : ∀ c : Fin 128, (c.val ||| 2) &&& 2 = 2) ⟨d.config, hr.1⟩

example : ∃ d w, d.rid < w.radios.length ∧ InRange d ∧ (radioOf d w).featureVisible = true ∧
    RadioShape (radioOf d w) ∧ ¬ ShadowEq d (radioOf d w) :=
  ⟨{ rid := 1, channel := 40, aa := 3 }, World.fresh 2, by decide⟩

/-- **Non-plus chip with locked feature registers** (what holds when `activated = false`; the
situation of the former known finding K1, which `RF24.__init__` no longer produces — see
`C09_init_detects_variant`, `C09_init_enter`, `C09_history_constructed` below — so this describes
only a chip somebody locked by hand): `__enter__` still restores every register except DYNPD and
FEATURE, which keep whatever they held — the writes are ignored by the chip. -/
theorem C09_enter_locked_partial (d : Rf24) (w : World) (hrid : d.rid < w.radios.length) (hr : InRange d)
    (hvis : (radioOf d w).featureVisible = false) (hshape : RadioShape (radioOf d w)) :
    let out := exec enter ⟨d, w⟩
    out.1 = .ok () ∧
    regsOf (radioOf d out.2.w) =
      { shadowRegs { d with config := d.config ||| 2 } with
        dynpd := (radioOf d w).dynpd, feature := (radioOf d w).feature } ∧
    (radioOf d out.2.w).ce = false := by
  intro out
  obtain ⟨s', hex, hd, hrid', hwf, hfr, hlen, hce, hpl, hact, hviol, _, hhid⟩ := enter_spec ⟨d, w⟩ hrid hr hshape
  have hout : out = (.ok (), s') := hex
  rw [hout]
  have hc : s'.cfg = (radioOf d s'.w).cfgOf := by
    unfold DrvState.cfg radioOf; rw [hrid']
  have hregs := hhid hvis
  rw [hc] at hregs hce
  exact ⟨rfl, hregs, hce⟩

example : ∃ d w, d.rid < w.radios.length ∧ InRange d ∧ (radioOf d w).featureVisible = false ∧
    RadioShape (radioOf d w) :=
  ⟨{ rid := 0, dynPl := 1 }, World.fresh 1 false, by decide⟩

/-- **`__exit__`**: for every object with an in-range CONFIG shadow, in every world: no exception;
CE low and PWR_UP = 0 afterwards; CONFIG = the shadow with PWR_UP cleared and no other register
changes; the CONFIG shadow follows, no other shadow changes; if the shadows equalled the registers
before, they still do; no other radio's configuration changes. -/
theorem C09_exit (d : Rf24) (w : World) (hrid : d.rid < w.radios.length) (hc : d.config < 128) :
    let out := exec Rf24.exit ⟨d, w⟩
    out.1 = .ok () ∧ PoweredDown (radioOf d out.2.w) ∧
    regsOf (radioOf d out.2.w) = { regsOf (radioOf d w) with config := d.config &&& 0x7D } ∧
    SameShadows out.2.d { d with config := d.config &&& 0x7D } ∧
    (ShadowEq d (radioOf d w) → ShadowEq out.2.d (radioOf d out.2.w)) ∧
    (radioOf d out.2.w).violations = (radioOf d w).violations ∧
    (radioOf d out.2.w).plus = (radioOf d w).plus ∧ (radioOf d out.2.w).activated = (radioOf d w).activated ∧
    out.2.w.radios.length = w.radios.length ∧
    ∀ j, j ≠ d.rid → (out.2.w.radio j).cfgOf = (w.radio j).cfgOf := by
  intro out
  obtain ⟨s', hex, hd, hrid', hwf, hfr, hlen, hcfg⟩ := exit_spec ⟨d, w⟩ hrid hc
  have hout : out = (.ok (), s') := hex
  rw [hout]
  have hc' : s'.cfg = (radioOf d s'.w).cfgOf := by
    unfold DrvState.cfg radioOf; rw [hrid']
  have hc0 : (DrvState.mk d w).cfg = (radioOf d w).cfgOf := rfl
  rw [hc', hc0] at hcfg
  have hce : (radioOf d s'.w).cfgOf.ce = false := by rw [hcfg]
  have hcf : (radioOf d s'.w).cfgOf.config = d.config &&& 0x7D := by rw [hcfg]
  have hregs : regsOf (radioOf d s'.w).cfgOf = { regsOf (radioOf d w).cfgOf with config := d.config &&& 0x7D } := by
    rw [hcfg]; rfl
  refine ⟨rfl, ⟨hce, ?_⟩, hregs, ?_, ?_, ?_, ?_, ?_, hlen, hfr⟩
  · show (radioOf d s'.w).cfgOf.config &&& 2 = 0
    rw [hcf]; exact cfg_pwr_down hc
  · show ({ s'.d with status := 0 } : Rf24) = _
    rw [hd]
  · intro heq
    show regsOf (radioOf d s'.w).cfgOf = shadowRegs s'.d
    have heq' : regsOf (radioOf d w).cfgOf = shadowRegs d := heq
    rw [hregs, heq', hd]
    rfl
  · show (radioOf d s'.w).cfgOf.violations = _
    rw [hcfg]; rfl
  · show (radioOf d s'.w).cfgOf.plus = _
    rw [hcfg]; rfl
  · show (radioOf d s'.w).cfgOf.activated = _
    rw [hcfg]; rfl

example : ∃ (d : Rf24) (w : World), d.rid < w.radios.length ∧ d.config < 128 ∧ ¬ PoweredDown (radioOf d w) :=
  ⟨{ rid := 0 }, { World.fresh 1 with radios := [{ config := 0x0F, ce := true }] }, by decide⟩

/-- **C09_restore (the property).**  Let an object end its block with its shadows in range and
equal to the registers of its radio (`ShadowEq d`, C03's invariant, taken as a hypothesis) and leave
it (`__exit__`).  Let then ANYTHING happen to the world — other objects' blocks, any register
contents, FIFOs, flags: an arbitrary world `w'` with the same number of radios in which the radio
still has accessible feature registers and its register shape.  Re-entering the block
(`__enter__` on the shadows `__exit__` left) does not raise and yields a register file equal to the
one at the end of the previous block, except that PWR_UP is set; CE is low. -/
theorem C09_restore (d : Rf24) (w w' : World) (hrid : d.rid < w.radios.length) (hr : InRange d)
    (heq : ShadowEq d (radioOf d w))
    (hlen : w'.radios.length = w.radios.length)
    (hvis : (radioOf d w').featureVisible = true) (hshape : RadioShape (radioOf d w')) :
    let left := exec Rf24.exit ⟨d, w⟩
    let back := exec enter ⟨left.2.d, w'⟩
    left.1 = .ok () ∧ back.1 = .ok () ∧
    regsOf (radioOf d back.2.w) = withPwr (regsOf (radioOf d w)) ∧
    (radioOf d back.2.w).ce = false ∧
    SameShadows back.2.d { d with config := d.config ||| 2 } := by
  intro left back
  obtain ⟨s1, hex1, hd1, hrid1, _, _, _, _⟩ := exit_spec ⟨d, w⟩ hrid hr.1
  have hl : left = (.ok (), s1) := hex1
  have hr1 : InRange s1.d := by rw [hd1]; exact inRange_exit hr _
  have hrid' : s1.d.rid < w'.radios.length := by rw [hrid1, hlen]; exact hrid
  have hvis1 : (radioOf s1.d w').featureVisible = true := by unfold radioOf; rw [hrid1]; exact hvis
  have hshape1 : RadioShape (radioOf s1.d w') := by unfold radioOf; rw [hrid1]; exact hshape
  obtain ⟨b1, b2, _, b4, b5, _⟩ := C09_enter s1.d w' hrid' hr1 hvis1 hshape1
  have hback : back = exec enter ⟨s1.d, w'⟩ := by show exec enter ⟨left.2.d, w'⟩ = _; rw [hl]
  rw [hl, hback]
  have hrr : ∀ w'', radioOf s1.d w'' = radioOf d w'' := by intro w''; unfold radioOf; rw [hrid1]
  rw [hrr] at b2 b5
  refine ⟨rfl, b1, ?_, b5, ?_⟩
  · rw [b2, hd1]
    have heq' : regsOf (radioOf d w) = shadowRegs d := heq
    rw [heq']
    show ({ shadowRegs d with config := (d.config &&& 0x7D) ||| 2 } : CfgRegs) = _
    rw [cfg_pwr_cycle hr.1]
    rfl
  · have : SameShadows (exec enter ⟨s1.d, w'⟩).2.d { s1.d with config := s1.d.config ||| 2 } := b4
    unfold SameShadows at this ⊢
    rw [this, hd1]
    show ({ d with config := (d.config &&& 0x7D) ||| 2, status := 0 } : Rf24) = _
    rw [cfg_pwr_cycle hr.1]

example : ∃ (d : Rf24) (w w' : World), d.rid < w.radios.length ∧ InRange d ∧ ShadowEq d (radioOf d w) ∧
    w'.radios.length = w.radios.length ∧ (radioOf d w').featureVisible = true ∧ RadioShape (radioOf d w') ∧
    regsOf (radioOf d w') ≠ regsOf (radioOf d w) :=
  ⟨{ rid := 0, channel := 2, openPipes := 3, addrLen := 5, plLen := [1, 1, 1, 1, 1, 1], features := 0, dynPl := 0,
     retrySetup := 3, rfSetup := 0x0E, config := 0x0A,
     pipes0 := [0xE7, 0xE7, 0xE7, 0xE7, 0xE7], pipes1 := [0xC2, 0xC2, 0xC2, 0xC2, 0xC2],
     pipesN := [0xC3, 0xC4, 0xC5, 0xC6], txAddress := [0xE7, 0xE7, 0xE7, 0xE7, 0xE7] },
   { World.fresh 1 with radios := [{ config := 0x0A, rxPw := [1, 1, 1, 1, 1, 1] }] },
   { World.fresh 1 with radios := [{ rfCh := 99, enAA := 0, rxAddr0 := [1, 2, 3, 4, 5] }] }, by decide⟩

/-- **C09_history.**  For ANY number of objects sharing a world (each driving any of its radios),
for EVERY history of `with` blocks — any interleaving, each block `__enter__`, then any behaviour
that keeps the block contract `Body.Ok` (shadows in range and equal to the registers at block end:
C03's invariant; the world keeps its radios), then `__exit__` — at every block:
the register file right after `__enter__` equals the one the object had established at the end of
its previous block with PWR_UP set (`est i = some R → entered = withPwr R`), and after `__exit__`
CE is low and the radio powered down. -/
theorem C09_history (n : Nat) (blocks : List (Nat × Body)) (σ : Sys)
    (hw : WorldOk n σ.w)
    (hobjs : ∀ i, i < σ.objs.length → (σ.objs.getD i default).rid < n ∧ InRange (σ.objs.getD i default))
    (hblocks : ∀ ib ∈ blocks, ib.1 < σ.objs.length ∧ ib.2.Ok n) :
    Holds blocks σ (fun _ => none) := by
  refine holds_of_good n blocks σ _ ⟨hw, fun i hi => ⟨(hobjs i hi).1, (hobjs i hi).2, ?_⟩⟩ hblocks
  intro R hR
  cases hR

/-- a body that keeps the contract and changes the configuration: `channel = 40` done right
    (register and shadow) — here simply the identity, and two objects on one radio -/
example : ∃ (n : Nat) (σ : Sys) (b : Body), WorldOk n σ.w ∧ b.Ok n ∧ σ.objs.length = 2 ∧
    (∀ i, i < σ.objs.length → (σ.objs.getD i default).rid < n ∧ InRange (σ.objs.getD i default)) := by
  refine ⟨1, ⟨[{ rid := 0 }, { rid := 0, channel := 40, aa := 0 }], World.fresh 1⟩, ⟨id⟩, ?_, ?_, rfl, ?_⟩
  · refine ⟨rfl, fun j hj => ?_⟩
    have : j = 0 := by omega
    subst this
    decide
  · intro s h1 h2 h3 h4
    exact ⟨rfl, h2, h3, h4⟩
  · intro i hi
    have : i = 0 ∨ i = 1 := by simp at hi; omega
    rcases this with rfl | rfl <;> decide

/-- **No leak.**  In the functional model each object's shadow state is a separate value, so a call
on object A cannot change object B's shadows (there is nothing to prove: `exec m ⟨dA, w⟩` does not
mention `dB`).  What matters is the frame on the *radio* side: `__enter__` and `__exit__` of an
object change the configuration of no radio but its own, keep the number of radios, and — by
`C09_restore` with `w'` := whatever A left — B's next `__enter__` wipes out every register A set.
Stated for the pair enter/exit of A followed by B's `__enter__`: B's registers are B's. -/
theorem C09_no_leak (dA dB : Rf24) (w : World) (hA : dA.rid < w.radios.length) (hB : dB.rid < w.radios.length)
    (hrA : InRange dA) (hrB : InRange dB)
    (hok : ∀ j, j < w.radios.length → (w.radio j).plus = true ∧ RadioShape (w.radio j)) :
    let a1 := exec enter ⟨dA, w⟩
    let a2 := exec Rf24.exit a1.2
    let b1 := exec enter ⟨dB, a2.2.w⟩
    b1.1 = .ok () ∧ regsOf (radioOf dB b1.2.w) = shadowRegs { dB with config := dB.config ||| 2 } ∧
    ∀ j, j ≠ dA.rid → (a2.2.w.radio j).cfgOf = (w.radio j).cfgOf := by
  intro a1 a2 b1
  obtain ⟨hpA, hsA⟩ := hok dA.rid hA
  have hvA : (radioOf dA w).featureVisible = true := by unfold Radio.featureVisible; rw [hpA]; rfl
  obtain ⟨e1, e2, e3, e4, e5, e6, e7, e8, e9, e10, e11⟩ := C09_enter dA w hA hrA hvA hsA
  obtain ⟨s1, hex1, hd1, hrid1, hwf1, _⟩ := enter_spec ⟨dA, w⟩ hA hrA hsA
  have ha1 : a1 = (.ok (), s1) := hex1
  have hr1 : InRange s1.d := by rw [hd1]; exact inRange_enter hrA _
  have hs1 : s1 = ⟨s1.d, s1.w⟩ := rfl
  have hrid1' : s1.d.rid < s1.w.radios.length := hwf1
  obtain ⟨x1, x2, x3, x4, x5, x6, x7, x8, x9, x10⟩ := C09_exit s1.d s1.w hrid1' hr1.1
  have ha2 : a2 = exec Rf24.exit ⟨s1.d, s1.w⟩ := by show exec Rf24.exit a1.2 = _; rw [ha1]
  have hlen1 : s1.w.radios.length = w.radios.length := by
    have := e10; rw [hex1] at this; exact this
  have hlen2 : a2.2.w.radios.length = w.radios.length := by rw [ha2, x9, hlen1]
  have hfr1 : ∀ j, j ≠ dA.rid → (s1.w.radio j).cfgOf = (w.radio j).cfgOf := by
    have := e11; rw [hex1] at this; exact this
  have hfr : ∀ j, j ≠ dA.rid → (a2.2.w.radio j).cfgOf = (w.radio j).cfgOf := by
    intro j hj
    rw [ha2, x10 j (by rw [hrid1]; exact hj)]
    exact hfr1 j hj
  -- B's radio after A's block: plus variant and shape are kept
  have hBok : (radioOf dB a2.2.w).featureVisible = true ∧ RadioShape (radioOf dB a2.2.w) := by
    by_cases hj : dB.rid = dA.rid
    · have hp : (radioOf dB a2.2.w).plus = true := by
        unfold radioOf; rw [hj, ha2, ← hrid1]
        have := x7; unfold radioOf at this; rw [this]
        have := e7; rw [hex1] at this; unfold radioOf at this; rw [hrid1, this]; exact hpA
      refine ⟨by unfold Radio.featureVisible; rw [hp]; rfl, ?_⟩
      have hregs : regsOf (radioOf dB a2.2.w) = shadowRegs { s1.d with config := s1.d.config &&& 0x7D } := by
        unfold radioOf; rw [hj, ha2, ← hrid1]
        have h3 := x3; unfold radioOf at h3; rw [h3]
        have h2 : regsOf (s1.w.radio s1.d.rid) = shadowRegs s1.d := by
          have := e3; rw [hex1] at this; unfold ShadowEq radioOf at this; rw [hrid1]; exact this
        rw [h2]; rfl
      exact radioShape_of_shadowEq hregs (inRange_exit hr1 s1.d.status)
    · have := hfr dB.rid hj
      obtain ⟨hp, hs⟩ := hok dB.rid hB
      refine ⟨?_, ?_⟩
      · rw [← featureVisible_cfgOf]; unfold radioOf; rw [this, featureVisible_cfgOf]
        unfold Radio.featureVisible; rw [hp]; rfl
      · rw [← radioShape_cfgOf]; unfold radioOf; rw [this, radioShape_cfgOf]; exact hs
  obtain ⟨f1, f2, _⟩ := C09_enter dB a2.2.w (by rw [hlen2]; exact hB) hrB hBok.1 hBok.2
  exact ⟨f1, f2, hfr⟩

example : ∃ (dA dB : Rf24) (w : World), dA.rid < w.radios.length ∧ dB.rid < w.radios.length ∧ InRange dA ∧
    InRange dB ∧ dA ≠ dB ∧ dA.rid = dB.rid :=
  ⟨{ rid := 0 }, { rid := 0, channel := 40, aa := 0, dynPl := 0, features := 0 }, World.fresh 1, by decide⟩

/-! ### objects produced by `__init__`: the accessibility hypothesis is established, not assumed

Repair 17d8151 (K1/K2): `RF24.__init__` detects the chip variant for every prior state of the chip and
leaves the feature registers of a non-plus chip unlocked.  The theorems above that assume
`featureVisible` (`C09_enter`, `C09_restore`, `C09_history` via `WorldOk`) therefore apply to every
object the constructor produced, on any chip. -/

/-- **`RF24.__init__` detects the variant and unlocks the feature registers**, for a new object on
ANY radio of ANY world in which that radio answers and holds bytes in RX_ADDR_P2..5 — nRF24L01+ or
non-plus, feature registers locked or unlocked, any content of FEATURE / DYNPD / every other
register, FIFOs, flags, log: no exception; `_is_plus_variant` is the chip's variant; the variant is
untouched; FEATURE/DYNPD are accessible afterwards. -/
theorem C09_init_detects_variant (rid : Nat) (w : World) (hrid : rid < w.radios.length)
    (hb : ∀ x ∈ (w.radio rid).rxAddrN, x < 256) :
    let out := exec init ⟨{ rid := rid }, w⟩
    out.1 = .ok () ∧ out.2.d.isPlus = (w.radio rid).plus ∧ (out.2.w.radio rid).plus = (w.radio rid).plus ∧
    (out.2.w.radio rid).featureVisible = true := by
  intro out
  obtain ⟨s', hex, hre, _, hip, hpl, hvis, _⟩ := init_variant_spec ⟨{ rid := rid }, w⟩ hrid rfl hb
  have hout : out = (.ok (), s') := hex
  rw [hout]
  have hrid1 : s'.d.rid = rid := (hre.frame hrid).1
  have hc : s'.cfg = (s'.w.radio rid).cfgOf := by unfold DrvState.cfg; rw [hrid1]
  rw [hc] at hpl hvis
  exact ⟨rfl, hip, hpl, hvis⟩

example : ∃ (rid : Nat) (w : World), rid < w.radios.length ∧ (∀ x ∈ (w.radio rid).rxAddrN, x < 256) ∧
    (w.radio rid).plus = false ∧ (w.radio rid).featureVisible = true ∧ (w.radio rid).feature = 0 :=
  ⟨0, { World.fresh 1 false with radios := [{ plus := false, activated := true, feature := 0 }] },
    by decide, by decide, rfl, rfl, rfl⟩

/-- **The first block of a constructed object, on any chip** (`C09_enter` without its hypothesis
"FEATURE/DYNPD accessible"; the negation of the former finding K1).  For a new object on ANY radio
of ANY world (as above, the radio having the chip's register shape): after `__init__` every
configuration register equals its shadow (`ShadowEq`); `__enter__` then does not raise and programs
the complete register file from the shadows — DYNPD = 0x3F and FEATURE = 5 included, also on a
non-plus chip found locked. -/
theorem C09_init_enter (rid : Nat) (w : World) (hrid : rid < w.radios.length)
    (hb : ∀ x ∈ (w.radio rid).rxAddrN, x < 256) (hshape : RadioShape (w.radio rid)) :
    let made := exec init ⟨{ rid := rid }, w⟩
    let out := exec enter made.2
    made.1 = .ok () ∧ ShadowEq made.2.d (made.2.w.radio rid) ∧
    out.1 = .ok () ∧
    regsOf (out.2.w.radio rid) = shadowRegs { made.2.d with config := made.2.d.config ||| 2 } ∧
    (out.2.w.radio rid).dynpd = 0x3F ∧ (out.2.w.radio rid).feature = 5 ∧
    ShadowEq out.2.d (out.2.w.radio rid) := by
  intro made out
  obtain ⟨s', hex, hre, hok, _, _, hvis, hregs⟩ := init_variant_spec ⟨{ rid := rid }, w⟩ hrid rfl hb
  have hmade : made = (.ok (), s') := hex
  have hrid1 : s'.d.rid = rid := (hre.frame hrid).1
  have hc : s'.cfg = (s'.w.radio rid).cfgOf := by unfold DrvState.cfg; rw [hrid1]
  have hregs' : regsOf (s'.w.radio rid) = shadowRegs s'.d := by
    have := hregs hshape
    rw [hc] at this
    exact this
  have hvis' : (radioOf s'.d s'.w).featureVisible = true := by
    unfold radioOf; rw [hrid1]; rw [hc] at hvis; exact hvis
  have hsh' : RadioShape (radioOf s'.d s'.w) := by
    unfold radioOf; rw [hrid1]; exact radioShape_of_shadowEq hregs' hok.range
  have hlen : s'.d.rid < s'.w.radios.length := by rw [hrid1, hre.length]; exact hrid
  obtain ⟨e1, e2, e3, _⟩ := C09_enter s'.d s'.w hlen hok.range hvis' hsh'
  have hout : out = exec enter ⟨s'.d, s'.w⟩ := by show exec enter made.2 = _; rw [hmade]
  rw [hmade, hout]
  unfold radioOf at e2 e3
  rw [hrid1] at e2 e3
  refine ⟨rfl, hregs', e1, e2, ?_, ?_, e3⟩
  · have := congrArg CfgRegs.dynpd e2
    exact this.trans hok.dyn
  · have := congrArg CfgRegs.feature e2
    exact this.trans hok.feat

example : ∃ (rid : Nat) (w : World), rid < w.radios.length ∧ (∀ x ∈ (w.radio rid).rxAddrN, x < 256) ∧
    RadioShape (w.radio rid) ∧ (w.radio rid).featureVisible = false :=
  ⟨0, World.fresh 1 false, by decide, by decide, by decide, rfl⟩

/-- **C09_history for constructed objects, on any chips.**  Take ANY world whose `n` radios have the
chip's register shape and bytes in RX_ADDR_P2..5 (`WorldPre`: any variant, feature registers locked or
unlocked, any register contents).  Construct any number of RF24 objects on its radios, in any order
(`construct rids`; every radio gets at least one object or was accessible already).  Then for EVERY
history of `with` blocks of these objects — any interleaving, bodies keeping the block contract
`Body.Ok` — C09 holds at every block: the register file right after `__enter__` equals the one the
object had established at the end of its previous block with PWR_UP set, and `__exit__` leaves CE
low and the radio powered down.  No hypothesis about FEATURE/DYNPD being accessible: the
constructors establish it (K1). -/
theorem C09_history_constructed (n : Nat) (rids : List Nat) (w0 : World) (blocks : List (Nat × Body))
    (hw0 : WorldPre n w0) (hr : ∀ r ∈ rids, r < n)
    (hcov : ∀ j, j < n → j ∈ rids ∨ (w0.radio j).featureVisible = true)
    (hblocks : ∀ ib ∈ blocks, ib.1 < rids.length ∧ ib.2.Ok n) :
    Holds blocks ⟨(construct rids w0).1, (construct rids w0).2⟩ (fun _ => none) := by
  obtain ⟨k1, k2, k3, k4⟩ := construct_spec n rids w0 hw0 hr
  refine C09_history n blocks _ ⟨k1.1, fun j hj => ⟨k4 j hj (hcov j hj), (k1.2 j hj).1⟩⟩ ?_ ?_
  · intro i hi
    have hi' : i < rids.length := by rw [← k2]; exact hi
    obtain ⟨a, b⟩ := k3 i hi'
    refine ⟨?_, b⟩
    rw [a]
    refine hr _ ?_
    rw [List.getD_eq_getElem?_getD, List.getElem?_eq_getElem hi', Option.getD_some]
    exact List.getElem_mem hi'
  · intro ib hib
    obtain ⟨a, b⟩ := hblocks ib hib
    exact ⟨by show ib.1 < (construct rids w0).1.length; rw [k2]; exact a, b⟩

/-- three objects on one non-plus chip found in its reset state (FEATURE = 0, locked): the
    hypotheses hold although the chip is not accessible before the first constructor ran -/
example : WorldPre 1 (World.fresh 1 false) ∧ (∀ r ∈ [0, 0, 0], r < 1) ∧
    (∀ j, j < 1 → j ∈ [0, 0, 0] ∨ ((World.fresh 1 false).radio j).featureVisible = true) ∧
    ((World.fresh 1 false).radio 0).featureVisible = false := by
  refine ⟨⟨rfl, fun j hj => ?_⟩, by decide, fun j hj => ?_, rfl⟩
  · have : j = 0 := by omega
    subst this; exact ⟨by decide, by decide⟩
  · have : j = 0 := by omega
    subst this; exact .inl (by decide)

/-! ### FakeBLE objects and the shadow ranges the constructors establish -/

/-- `FakeBLE.__enter__` is `RF24.__enter__` on the embedded driver object, `FakeBLE.__exit__` is
`RF24.__exit__` after forgetting the advertised name / TX-power flag (not radio configuration): so
`C09_enter`, `C09_exit`, `C09_restore`, `C09_history` apply verbatim to the embedded shadows `b.rf`. -/
theorem C09_ble_enter_exit (s : BleState) :
    execB BleDev.enter s =
      ((exec enter ⟨s.b.rf, s.w⟩).1,
       { b := { s.b with rf := (exec enter ⟨s.b.rf, s.w⟩).2.d }, w := (exec enter ⟨s.b.rf, s.w⟩).2.w }) ∧
    execB BleDev.exit s =
      ((exec Rf24.exit ⟨s.b.rf, s.w⟩).1,
       { b := { s.b with showDbm := false, name := none, rf := (exec Rf24.exit ⟨s.b.rf, s.w⟩).2.d },
         w := (exec Rf24.exit ⟨s.b.rf, s.w⟩).2.w }) :=
  ⟨ble_enter s, ble_exit s⟩

/-- `C09_restore` for a FakeBLE object -/
theorem C09_restore_ble (b : BleDev) (w w' : World) (hrid : b.rf.rid < w.radios.length) (hr : InRange b.rf)
    (heq : ShadowEq b.rf (radioOf b.rf w))
    (hlen : w'.radios.length = w.radios.length)
    (hvis : (radioOf b.rf w').featureVisible = true) (hshape : RadioShape (radioOf b.rf w')) :
    let left := execB BleDev.exit ⟨b, w⟩
    let back := execB BleDev.enter ⟨left.2.b, w'⟩
    left.1 = .ok () ∧ back.1 = .ok () ∧
    regsOf (radioOf b.rf back.2.w) = withPwr (regsOf (radioOf b.rf w)) ∧
    (radioOf b.rf back.2.w).ce = false ∧
    SameShadows back.2.b.rf { b.rf with config := b.rf.config ||| 2 } := by
  intro left back
  have hl : left = ((exec Rf24.exit ⟨b.rf, w⟩).1,
      { b := { b with showDbm := false, name := none, rf := (exec Rf24.exit ⟨b.rf, w⟩).2.d },
        w := (exec Rf24.exit ⟨b.rf, w⟩).2.w }) := ble_exit ⟨b, w⟩
  have hb : back = ((exec enter ⟨(exec Rf24.exit ⟨b.rf, w⟩).2.d, w'⟩).1,
      { b := { left.2.b with rf := (exec enter ⟨(exec Rf24.exit ⟨b.rf, w⟩).2.d, w'⟩).2.d },
        w := (exec enter ⟨(exec Rf24.exit ⟨b.rf, w⟩).2.d, w'⟩).2.w }) := by
    show execB BleDev.enter ⟨left.2.b, w'⟩ = _
    rw [ble_enter, hl]
  obtain ⟨c1, c2, c3, c4, c5⟩ := C09_restore b.rf w w' hrid hr heq hlen hvis hshape
  rw [hb, hl]
  exact ⟨c1, c2, c3, c4, c5⟩

example : ∃ (b : BleDev) (w w' : World), b.rf.rid < w.radios.length ∧ InRange b.rf ∧ ShadowEq b.rf (radioOf b.rf w) ∧
    w'.radios.length = w.radios.length ∧ (radioOf b.rf w').featureVisible = true ∧ RadioShape (radioOf b.rf w') ∧
    regsOf (radioOf b.rf w') ≠ regsOf (radioOf b.rf w) :=
  ⟨{ rf := { rid := 0, channel := 2, openPipes := 3, addrLen := 5, plLen := [1, 1, 1, 1, 1, 1], features := 0,
             dynPl := 0, aa := 0, retrySetup := 3, rfSetup := 0x0E, config := 0x0A,
             pipes0 := [0xE7, 0xE7, 0xE7, 0xE7, 0xE7], pipes1 := [0xC2, 0xC2, 0xC2, 0xC2, 0xC2],
             pipesN := [0xC3, 0xC4, 0xC5, 0xC6], txAddress := [0xE7, 0xE7, 0xE7, 0xE7, 0xE7] } },
   { World.fresh 1 with radios := [{ config := 0x0A, enAA := 0, rxPw := [1, 1, 1, 1, 1, 1] }] },
   { World.fresh 1 with radios := [{ rfCh := 99, rxAddr0 := [1, 2, 3, 4, 5] }] }, by decide⟩

/-- **`RF24.__init__` establishes in-range shadows** (the hypothesis `InRange` of `C09_enter` /
`C09_restore` for the first block), for a new object on ANY radio of ANY world in which that radio
answers and holds bytes in RX_ADDR_P2..5 — whatever other objects left in it, plus or non-plus:
no exception; the shadows are in range; no reading address for pipe 0; TX role; every pipe closed. -/
theorem C09_init_inrange (rid : Nat) (w : World) (hrid : rid < w.radios.length)
    (hb : ∀ x ∈ (w.radio rid).rxAddrN, x < 256) :
    let out := exec init ⟨{ rid := rid }, w⟩
    out.1 = .ok () ∧ InRange out.2.d ∧ out.2.d.rid = rid ∧ out.2.d.pipe0ReadAddr = none ∧
    out.2.d.config &&& 1 = 0 ∧ out.2.d.openPipes = 0 ∧ out.2.w.radios.length = w.radios.length := by
  intro out
  obtain ⟨s', hex, hre, hok⟩ := init_spec ⟨{ rid := rid }, w⟩ hrid rfl hb
  have : out = (.ok (), s') := hex
  rw [this]
  refine ⟨rfl, hok.range, (hre.frame hrid).1, hok.user, ?_, hok.op, hre.length⟩
  show s'.d.config &&& 1 = 0
  rw [hok.config]; decide

example : ∃ (rid : Nat) (w : World), rid < w.radios.length ∧ (∀ x ∈ (w.radio rid).rxAddrN, x < 256) ∧
    (w.radio rid).rfCh = 99 :=
  ⟨1, { World.fresh 2 false with radios := [{}, { plus := false, rfCh := 99, feature := 0 }] }, by decide, by decide, by decide⟩

/-- **`FakeBLE.__init__` establishes in-range shadows**, likewise; pipe 0 is then the user's (the
BLE access address) and open. -/
theorem C09_ble_init_inrange (rid : Nat) (w : World) (hrid : rid < w.radios.length)
    (hb : ∀ x ∈ (w.radio rid).rxAddrN, x < 256) (hs : RadioShape (w.radio rid)) :
    let out := execB BleDev.init ⟨{ rf := { rid := rid } }, w⟩
    out.1 = .ok () ∧ InRange out.2.b.rf ∧ out.2.b.rf.rid = rid ∧ out.2.w.radios.length = w.radios.length ∧
    out.2.b.rf.pipe0ReadAddr = some BLE_ADDR ∧ out.2.b.rf.openPipes &&& 1 ≠ 0 ∧ out.2.b.rf.config &&& 1 = 0 := by
  intro out
  obtain ⟨s', hex, h1, h2, h3, h4, h5, h6, _⟩ := ble_init_spec { rf := { rid := rid } } w hrid rfl hb hs
  have : out = (.ok (), s') := hex
  rw [this]
  exact ⟨rfl, h1, h2, h3, h4, h5, h6⟩

example : ∃ (rid : Nat) (w : World), rid < w.radios.length ∧ (∀ x ∈ (w.radio rid).rxAddrN, x < 256) ∧
    RadioShape (w.radio rid) :=
  ⟨0, World.fresh 1, by decide, by decide, by decide⟩

/-- **`FakeBLE.__init__` detects the variant and unlocks the feature registers**, likewise (it runs
`RF24.__init__` and then only register writes): on any chip, in any prior state. -/
theorem C09_ble_init_detects_variant (rid : Nat) (w : World) (hrid : rid < w.radios.length)
    (hb : ∀ x ∈ (w.radio rid).rxAddrN, x < 256) (hs : RadioShape (w.radio rid)) :
    let out := execB BleDev.init ⟨{ rf := { rid := rid } }, w⟩
    out.1 = .ok () ∧ out.2.b.rf.isPlus = (w.radio rid).plus ∧ (out.2.w.radio rid).featureVisible = true := by
  intro out
  obtain ⟨s', hex, _, _, _, _, _, _, h7, h8⟩ := ble_init_spec { rf := { rid := rid } } w hrid rfl hb hs
  have : out = (.ok (), s') := hex
  rw [this]
  exact ⟨rfl, h7, h8⟩

example : ∃ (rid : Nat) (w : World), rid < w.radios.length ∧ (∀ x ∈ (w.radio rid).rxAddrN, x < 256) ∧
    RadioShape (w.radio rid) ∧ (w.radio rid).featureVisible = false :=
  ⟨0, World.fresh 1 false, by decide, by decide, by decide, rfl⟩

end Nrf.Props.C09
