/-
C09 — `with` restores an object's complete radio configuration.

Spec: `NrfModel/Spec/Restore.lean` (`CfgRegs`, `regsOf`, `shadowRegs`, `ShadowEq`, `InRange`,
`RadioShape`, `PoweredDown`, `SameShadows`).  Helper lemmas: `NrfProofs/C08Core.lean`,
`NrfProofs/C09Enter.lean`, `C09History.lean` (blocks of several objects), `C09Init.lean`, `C09Ble.lean`,
`InitDetect.lean` (the variant detection of `__init__`), `C09Construct.lean` (systems of constructed objects),
`C09Calls.lean` (the block contract discharged for bodies that are sequences of C03 calls; bridge from
C03's invariant `Inv` to `InRange ∧ ShadowEq`).

What the history theorems cover and what they do not:
* `C09_history_calls` / `C09_history_calls_constructed`: block bodies are finite sequences of calls of
  the C03 configuration alphabet (`Cfg.Call`, all 46 constructors, every argument of `Call.dom`); NO
  assumed contract.  Explicit exception: `start_carrier_wave` / `stop_carrier_wave` on a NON-plus chip
  (outside `Call.dom`): there `start_carrier_wave` rewrites CONFIG / EN_AA / SETUP_RETR / TX_ADDR behind
  the shadows and `stop_carrier_wave` does not repair it, so the next `__enter__` does not restore the
  register file the block ended with.  Bodies that transmit / receive (`send`, `read`, …) are not call
  sequences of this alphabet; for them only the contract-conditional theorems
  `C09_history_contract_partial` / `C09_history_constructed_contract_partial` apply, whose hypothesis
  `Body.Ok` (the body re-establishes `InRange ∧ ShadowEq`) is ASSUMED.
* Objects are separate Lean values (`Sys.objs : List Rf24`): aliasing between Python objects (two
  names for one object, shared mutable attributes) cannot be expressed, so "settings never leak from
  one object to another" on the object side is true by construction of the model and is decided by the
  correspondence runs only (the harness compares the real objects).  What IS proved is the radio side:
  whatever another object left in the chip, `__enter__` overwrites every configuration register.
* Histories are about RF24 objects, blocks strictly one after the other.  `FakeBLE` appears only in the
  single-step theorems (`C09_ble_enter_exit`, `C09_restore_ble`, `C09_ble_init_*`).  The network / mesh
  objects' `RadioMixin.__enter__` / `__exit__` have NO Lean history theorem; the harness runs them
  (block `node-with-interleavings`): tie only.
-/
import NrfProofs.C09Construct
import NrfProofs.C09Calls

namespace Nrf.Props.C09
open Nrf Nrf.Spec Rf24 Nrf.Cfg

/-- the radio an object drives, in a world -/
abbrev radioOf (d : Rf24) (w : World) : Radio := w.radio d.rid

/-- **`__enter__` makes the register file a function of the object's shadows alone.**
For EVERY in-range shadow state `d` and EVERY world `w` — whatever other objects left in the
radio's registers, FIFOs, flags, whatever is on the air — in which the object's radio exists and
its FEATURE/DYNPD registers are accessible (an nRF24L01+, or a non-plus chip in the activated
state): `__enter__` does not raise; afterwards every configuration register equals its shadow
(`ShadowEq`), explicitly `regsOf = shadowRegs {d with config := d.config ||| 2}`; CE is low and
PWR_UP is set; the shadows are unchanged apart from PWR_UP in the CONFIG shadow; the violation log
gains at most the library's documented "2-byte address" entry; the chip variant state is untouched;
no other radio's configuration changes. -/
theorem C09_enter (d : Rf24) (w : World) (hrid : d.rid < w.radios.length) (hr : InRange d)
    (hvis : (radioOf d w).featureVisible = true) (hshape : Spec.RadioShape (radioOf d w)) :
    let out := exec enter ⟨d, w⟩
    out.1 = .ok () ∧
    regsOf (radioOf d out.2.w) = shadowRegs { d with config := d.config ||| 2 } ∧
    ShadowEq out.2.d (radioOf d out.2.w) ∧
    SameShadows out.2.d { d with config := d.config ||| 2 } ∧
    (radioOf d out.2.w).ce = false ∧ (radioOf d out.2.w).config &&& 2 = 2 ∧
    (radioOf d out.2.w).plus = (radioOf d w).plus ∧ (radioOf d out.2.w).activated = (radioOf d w).activated ∧
    (radioOf d out.2.w).violations = (radioOf d w).violations ++ enterLog d ∧
    out.2.w.radios.length = w.radios.length ∧
    ∀ j, j ≠ d.rid → (out.2.w.radio j).cfgOf = (w.radio j).cfgOf := by
  intro out
  obtain ⟨s', hex, hd, hrid', hwf, hfr, hlen, hce, hpl, hact, hviol, hvis', _⟩ := enter_spec ⟨d, w⟩ hrid hr hshape
  have hout : out = (.ok (), s') := hex
  rw [hout]
  have hregs := hvis' hvis
  have hc : s'.cfg = (radioOf d s'.w).cfgOf := by
    unfold DrvState.cfg radioOf; rw [hrid']
  rw [hc] at hregs hviol hce hpl hact
  have h1' : regsOf (radioOf d s'.w) = shadowRegs { d with config := d.config ||| 2 } := hregs
  refine ⟨rfl, h1', ?_, ?_, hce, ?_, hpl, hact, hviol, hlen, hfr⟩
  · show regsOf (radioOf d s'.w) = shadowRegs s'.d
    rw [h1', hd]
    rfl
  · show ({ s'.d with status := 0 } : Rf24) = _
    rw [hd]
  · have : (radioOf d s'.w).config = d.config ||| 2 := congrArg CfgRegs.config h1'
    rw [this]
    exact (by decide : ∀ c : Fin 128, (c.val ||| 2) &&& 2 = 2) ⟨d.config, hr.1⟩

example : ∃ d w, d.rid < w.radios.length ∧ InRange d ∧ (radioOf d w).featureVisible = true ∧
    Spec.RadioShape (radioOf d w) ∧ ¬ ShadowEq d (radioOf d w) :=
  ⟨{ rid := 1, channel := 40, aa := 3 }, World.fresh 2, by decide⟩

/-- **Non-plus chip with locked feature registers** (what holds when `activated = false`; the
situation of the former known finding K1, which `RF24.__init__` no longer produces — see
`C09_init_detects_variant`, `C09_init_enter`, `C09_history_calls_constructed` below — so this describes
only a chip somebody locked by hand): `__enter__` still restores every register except DYNPD and
FEATURE, which keep whatever they held — the writes are ignored by the chip. -/
theorem C09_enter_locked_partial (d : Rf24) (w : World) (hrid : d.rid < w.radios.length) (hr : InRange d)
    (hvis : (radioOf d w).featureVisible = false) (hshape : Spec.RadioShape (radioOf d w)) :
    let out := exec enter ⟨d, w⟩
    out.1 = .ok () ∧
    regsOf (radioOf d out.2.w) =
      { shadowRegs { d with config := d.config ||| 2 } with
        dynpd := (radioOf d w).dynpd, feature := (radioOf d w).feature } ∧
    (radioOf d out.2.w).ce = false := by
  intro out
  obtain ⟨s', hex, hd, hrid', hwf, hfr, hlen, hce, hpl, hact, hviol, _, hhid⟩ := enter_spec ⟨d, w⟩ hrid hr hshape
  have hout : out = (.ok (), s') := hex
  rw [hout]
  have hc : s'.cfg = (radioOf d s'.w).cfgOf := by
    unfold DrvState.cfg radioOf; rw [hrid']
  have hregs := hhid hvis
  rw [hc] at hregs hce
  exact ⟨rfl, hregs, hce⟩

example : ∃ d w, d.rid < w.radios.length ∧ InRange d ∧ (radioOf d w).featureVisible = false ∧
    Spec.RadioShape (radioOf d w) :=
  ⟨{ rid := 0, dynPl := 1 }, World.fresh 1 false, by decide⟩

/-- **`__exit__`**: for every object with an in-range CONFIG shadow, in every world: no exception;
CE low and PWR_UP = 0 afterwards; CONFIG = the shadow with PWR_UP cleared and no other register
changes; the CONFIG shadow follows, no other shadow changes; if the shadows equalled the registers
before, they still do; no other radio's configuration changes. -/
theorem C09_exit (d : Rf24) (w : World) (hrid : d.rid < w.radios.length) (hc : d.config < 128) :
    let out := exec Rf24.exit ⟨d, w⟩
    out.1 = .ok () ∧ PoweredDown (radioOf d out.2.w) ∧
    regsOf (radioOf d out.2.w) = { regsOf (radioOf d w) with config := d.config &&& 0x7D } ∧
    SameShadows out.2.d { d with config := d.config &&& 0x7D } ∧
    (ShadowEq d (radioOf d w) → ShadowEq out.2.d (radioOf d out.2.w)) ∧
    (radioOf d out.2.w).violations = (radioOf d w).violations ∧
    (radioOf d out.2.w).plus = (radioOf d w).plus ∧ (radioOf d out.2.w).activated = (radioOf d w).activated ∧
    out.2.w.radios.length = w.radios.length ∧
    ∀ j, j ≠ d.rid → (out.2.w.radio j).cfgOf = (w.radio j).cfgOf := by
  intro out
  obtain ⟨s', hex, hd, hrid', hwf, hfr, hlen, hcfg⟩ := exit_spec ⟨d, w⟩ hrid hc
  have hout : out = (.ok (), s') := hex
  rw [hout]
  have hc' : s'.cfg = (radioOf d s'.w).cfgOf := by
    unfold DrvState.cfg radioOf; rw [hrid']
  have hc0 : (DrvState.mk d w).cfg = (radioOf d w).cfgOf := rfl
  rw [hc', hc0] at hcfg
  have hce : (radioOf d s'.w).cfgOf.ce = false := by rw [hcfg]
  have hcf : (radioOf d s'.w).cfgOf.config = d.config &&& 0x7D := by rw [hcfg]
  have hregs : regsOf (radioOf d s'.w).cfgOf = { regsOf (radioOf d w).cfgOf with config := d.config &&& 0x7D } := by
    rw [hcfg]; rfl
  refine ⟨rfl, ⟨hce, ?_⟩, hregs, ?_, ?_, ?_, ?_, ?_, hlen, hfr⟩
  · show (radioOf d s'.w).cfgOf.config &&& 2 = 0
    rw [hcf]; exact cfg_pwr_down hc
  · show ({ s'.d with status := 0 } : Rf24) = _
    rw [hd]
  · intro heq
    show regsOf (radioOf d s'.w).cfgOf = shadowRegs s'.d
    have heq' : regsOf (radioOf d w).cfgOf = shadowRegs d := heq
    rw [hregs, heq', hd]
    rfl
  · show (radioOf d s'.w).cfgOf.violations = _
    rw [hcfg]; rfl
  · show (radioOf d s'.w).cfgOf.plus = _
    rw [hcfg]; rfl
  · show (radioOf d s'.w).cfgOf.activated = _
    rw [hcfg]; rfl

example : ∃ (d : Rf24) (w : World), d.rid < w.radios.length ∧ d.config < 128 ∧ ¬ PoweredDown (radioOf d w) :=
  ⟨{ rid := 0 }, { World.fresh 1 with radios := [{ config := 0x0F, ce := true }] }, by decide⟩

/-- **C09_restore (the property).**  Let an object end its block with its shadows in range and
equal to the registers of its radio (`ShadowEq d`, C03's invariant, taken as a hypothesis) and leave
it (`__exit__`).  Let then ANYTHING happen to the world — other objects' blocks, any register
contents, FIFOs, flags: an arbitrary world `w'` with the same number of radios in which the radio
still has accessible feature registers and its register shape.  Re-entering the block
(`__enter__` on the shadows `__exit__` left) does not raise and yields a register file equal to the
one at the end of the previous block, except that PWR_UP is set; CE is low. -/
theorem C09_restore (d : Rf24) (w w' : World) (hrid : d.rid < w.radios.length) (hr : InRange d)
    (heq : ShadowEq d (radioOf d w))
    (hlen : w'.radios.length = w.radios.length)
    (hvis : (radioOf d w').featureVisible = true) (hshape : Spec.RadioShape (radioOf d w')) :
    let left := exec Rf24.exit ⟨d, w⟩
    let back := exec enter ⟨left.2.d, w'⟩
    left.1 = .ok () ∧ back.1 = .ok () ∧
    regsOf (radioOf d back.2.w) = withPwr (regsOf (radioOf d w)) ∧
    (radioOf d back.2.w).ce = false ∧
    SameShadows back.2.d { d with config := d.config ||| 2 } := by
  intro left back
  obtain ⟨s1, hex1, hd1, hrid1, _, _, _, _⟩ := exit_spec ⟨d, w⟩ hrid hr.1
  have hl : left = (.ok (), s1) := hex1
  have hr1 : InRange s1.d := by rw [hd1]; exact inRange_exit hr _
  have hrid' : s1.d.rid < w'.radios.length := by rw [hrid1, hlen]; exact hrid
  have hvis1 : (radioOf s1.d w').featureVisible = true := by unfold radioOf; rw [hrid1]; exact hvis
  have hshape1 : Spec.RadioShape (radioOf s1.d w') := by unfold radioOf; rw [hrid1]; exact hshape
  obtain ⟨b1, b2, _, b4, b5, _⟩ := C09_enter s1.d w' hrid' hr1 hvis1 hshape1
  have hback : back = exec enter ⟨s1.d, w'⟩ := by show exec enter ⟨left.2.d, w'⟩ = _; rw [hl]
  rw [hl, hback]
  have hrr : ∀ w'', radioOf s1.d w'' = radioOf d w'' := by intro w''; unfold radioOf; rw [hrid1]
  rw [hrr] at b2 b5
  refine ⟨rfl, b1, ?_, b5, ?_⟩
  · rw [b2, hd1]
    have heq' : regsOf (radioOf d w) = shadowRegs d := heq
    rw [heq']
    show ({ shadowRegs d with config := (d.config &&& 0x7D) ||| 2 } : CfgRegs) = _
    rw [cfg_pwr_cycle hr.1]
    rfl
  · have : SameShadows (exec enter ⟨s1.d, w'⟩).2.d { s1.d with config := s1.d.config ||| 2 } := b4
    unfold SameShadows at this ⊢
    rw [this, hd1]
    show ({ d with config := (d.config &&& 0x7D) ||| 2, status := 0 } : Rf24) = _
    rw [cfg_pwr_cycle hr.1]

example : ∃ (d : Rf24) (w w' : World), d.rid < w.radios.length ∧ InRange d ∧ ShadowEq d (radioOf d w) ∧
    w'.radios.length = w.radios.length ∧ (radioOf d w').featureVisible = true ∧ Spec.RadioShape (radioOf d w') ∧
    regsOf (radioOf d w') ≠ regsOf (radioOf d w) :=
  ⟨{ rid := 0, channel := 2, openPipes := 3, addrLen := 5, plLen := [1, 1, 1, 1, 1, 1], features := 0, dynPl := 0,
     retrySetup := 3, rfSetup := 0x0E, config := 0x0A,
     pipes0 := [0xE7, 0xE7, 0xE7, 0xE7, 0xE7], pipes1 := [0xC2, 0xC2, 0xC2, 0xC2, 0xC2],
     pipesN := [0xC3, 0xC4, 0xC5, 0xC6], txAddress := [0xE7, 0xE7, 0xE7, 0xE7, 0xE7] },
   { World.fresh 1 with radios := [{ config := 0x0A, rxPw := [1, 1, 1, 1, 1, 1] }] },
   { World.fresh 1 with radios := [{ rfCh := 99, enAA := 0, rxAddr0 := [1, 2, 3, 4, 5] }] }, by decide⟩

/-- **C09_history, contract-conditional (partial).**  The block bodies are ARBITRARY state
transformers `Body.run : DrvState → DrvState` that are ASSUMED to keep the block contract `Body.Ok`
(from shadows in range and equal to the registers they end in such a state, same radio, world in
order).  The assumption is discharged — for bodies that are sequences of C03 calls — by
`C09_history_calls` below; it is FALSE for `start_carrier_wave` / `stop_carrier_wave` on a non-plus
chip; for bodies that transmit / receive nothing discharges it (hence `_partial`).
Full statement wanted: the same for every block body the driver API allows.
Under that assumption: for ANY number of objects sharing a world (each driving any of its radios),
for EVERY history of `with` blocks — any interleaving, each block `__enter__`, then the body, then
`__exit__` — at every block:
the register file right after `__enter__` equals the one the object had established at the end of
its previous block with PWR_UP set (`est i = some R → entered = withPwr R`), and after `__exit__`
CE is low and the radio powered down. -/
theorem C09_history_contract_partial (n : Nat) (blocks : List (Nat × Body)) (σ : Sys)
    (hw : WorldOk n σ.w)
    (hobjs : ∀ i, i < σ.objs.length → (σ.objs.getD i default).rid < n ∧ InRange (σ.objs.getD i default))
    (hblocks : ∀ ib ∈ blocks, ib.1 < σ.objs.length ∧ ib.2.Ok n) :
    Holds blocks σ (fun _ => none) := by
  refine holds_of_good n blocks σ _ ⟨hw, fun i hi => ⟨(hobjs i hi).1, (hobjs i hi).2, ?_⟩⟩ hblocks
  intro R hR
  cases hR

/-- the hypotheses are satisfiable: two objects with different shadows on one radio and a body that
    keeps `Body.Ok` and is not the identity (it changes the cached STATUS byte only — no
    register-changing body is shown to satisfy `Body.Ok` for ALL states with `InRange ∧ ShadowEq`: the
    per-call lemmas of C03 need more than that, which is why `C09_history_calls` below does not go
    through `Body.Ok`; its examples `exSys` / `exBlocks` have bodies that change registers) -/
example : ∃ (n : Nat) (σ : Sys) (b : Body), WorldOk n σ.w ∧ b.Ok n ∧ σ.objs.length = 2 ∧
    (∀ i, i < σ.objs.length → (σ.objs.getD i default).rid < n ∧ InRange (σ.objs.getD i default)) ∧
    (∃ s : DrvState, b.run s ≠ s) := by
  refine ⟨1, ⟨[{ rid := 0 }, { rid := 0, channel := 40, aa := 0 }], World.fresh 1⟩,
    ⟨fun s => { s with d := { s.d with status := s.d.status + 1 } }⟩, ?_, ?_, rfl, ?_, ?_⟩
  · refine ⟨rfl, fun j hj => ?_⟩
    have : j = 0 := by omega
    subst this
    decide
  · intro s h1 h2 h3 h4
    exact ⟨rfl, h2, h3, h4⟩
  · intro i hi
    have : i = 0 ∨ i = 1 := by simp at hi; omega
    rcases this with rfl | rfl <;> decide
  · exact ⟨default, fun h => absurd (congrArg (fun s : DrvState => s.d.status) h) (Nat.succ_ne_self _)⟩

/-! ### the block contract discharged: bodies that are sequences of C03 calls -/

/-- **C09_history_calls.**  No assumed contract.  For ANY number of RF24 objects sharing a world whose
`n` chips are accessible and in shape (`WorldOkC`: FEATURE/DYNPD accessible, address / width registers
of the hardware shape holding bytes, nothing reserved ever logged), each object in the state
`__init__` and the C03 calls leave (`ObjOkC`: shadows in range, address shadows are bytes,
`_is_plus_variant` = the chip's variant — the shadows need NOT equal the registers), for EVERY history of
`with` blocks — any interleaving of the objects, any number of blocks — whose bodies are ARBITRARY
finite sequences of calls of the C03 configuration alphabet (`Cfg.Call`: all 46 attribute setters /
getters / methods — `channel`, `data_rate`, `pa_level`, `crc`, `address_length`, `ard`, `arc`,
`set_auto_retries`, `auto_ack`, `dynamic_payloads`, `payload_length`, `ack`, `allow_ask_no_ack`,
`interrupt_config`, `power`, `listen`, `open_rx_pipe`, `close_rx_pipe`, `open_tx_pipe`, `address`, … —
with ANY argument of `Call.dom`: any `Int`, any bool / int / list form, any pipe number, addresses of
at most 5 bytes; calls that raise included, the block goes on after them), at every block:
the register file right after `__enter__` equals the one the object had established at the end of
its previous block with PWR_UP set, and after `__exit__` CE is low and the radio powered down.
EXCEPTION (hypothesis `hblocks`, second part): `start_carrier_wave` / `stop_carrier_wave` only on a plus
chip; on a non-plus chip they break the restore property (see the file header). -/
theorem C09_history_calls (n : Nat) (blocks : List (Nat × List Call)) (σ : Sys)
    (hw : WorldOkC n σ.w)
    (hobjs : ∀ i, i < σ.objs.length → ObjOkC n (σ.objs.getD i default) σ.w)
    (hblocks : ∀ ib ∈ blocks, ib.1 < σ.objs.length ∧
      ∀ c ∈ ib.2, c.dom (σ.w.radio (σ.objs.getD ib.1 default).rid).plus) :
    Holds (blocks.map fun ib => (ib.1, callsBody ib.2)) σ (fun _ => none) := by
  refine holds_calls n blocks σ _ ⟨hw, fun i hi => ⟨hobjs i hi, ?_⟩⟩ ?_
  · intro R hR
    cases hR
  · intro ib hib
    obtain ⟨a, b⟩ := hblocks ib hib
    refine ⟨a, fun c hc => ?_⟩
    rw [(hobjs ib.1 a).2.2.2.2.2.2]
    exact b c hc

/-- a system the theorem applies to, with register-changing bodies: two objects on one plus chip with
    different shadows; object 0 sets channel 40, PA level −12 dBm and opens pipe 1, object 1 sets
    channel 90, a 3-byte address length and (rejected) channel 300, then object 0 comes back -/
def exSys : Sys :=
  ⟨[{ rid := 0, isPlus := true }, { rid := 0, isPlus := true, channel := 2, aa := 0 }], World.fresh 1⟩

def exBlocks : List (Nat × List Call) :=
  [(0, [.setChannel 40, .setPaLevelLna (-12) false, .openRxPipe 1 [1, 2, 3]]),
   (1, [.setChannel 90, .setAddressLength 3, .setChannel 300]),
   (0, [.getChannel])]

example : WorldOkC 1 exSys.w ∧ (∀ i, i < exSys.objs.length → ObjOkC 1 (exSys.objs.getD i default) exSys.w) ∧
    (∀ ib ∈ exBlocks, ib.1 < exSys.objs.length ∧
      ∀ c ∈ ib.2, c.dom (exSys.w.radio (exSys.objs.getD ib.1 default).rid).plus) := by
  have hlog : LogOk ([] : List String) := by intro e he; cases he
  have hp0 : P0Ok (none : Option Bytes) := by intro ra hra; cases hra
  refine ⟨⟨rfl, fun j hj => ?_⟩, fun i hi => ?_, ?_⟩
  · have : j = 0 := by omega
    subst this
    exact ⟨rfl, by decide, by decide, by decide, by decide, by decide, hlog⟩
  · have : i = 0 ∨ i = 1 := by simp [exSys] at hi; omega
    rcases this with rfl | rfl
    · exact ⟨by decide, by decide, by decide, by decide, by decide, hp0, rfl⟩
    · exact ⟨by decide, by decide, by decide, by decide, by decide, hp0, rfl⟩
  · intro ib hib
    simp only [exBlocks, List.mem_cons, List.not_mem_nil, or_false] at hib
    rcases hib with rfl | rfl | rfl
    · refine ⟨by decide, fun c hc => ?_⟩
      simp only [List.mem_cons, List.not_mem_nil, or_false] at hc
      rcases hc with rfl | rfl | rfl
      · trivial
      · trivial
      · exact ⟨by decide, by decide⟩
    · refine ⟨by decide, fun c hc => ?_⟩
      simp only [List.mem_cons, List.not_mem_nil, or_false] at hc
      rcases hc with rfl | rfl | rfl <;> trivial
    · refine ⟨by decide, fun c hc => ?_⟩
      simp only [List.mem_cons, List.not_mem_nil, or_false] at hc
      subst hc; trivial

/-- … and the bodies do change registers: after object 0's first block the chip holds RF_CH = 40,
    RF_SETUP with PA −12 dBm, pipe 1 open on 01 02 03; after object 1's block RF_CH = 90, SETUP_AW = 1;
    object 0's next `__enter__` brings RF_CH = 40, SETUP_AW = 3 back -/
example :
    ((exSys.block 0 (callsBody exBlocks[0].2)).1.established.rfCh = 40 ∧
     (exSys.block 0 (callsBody exBlocks[0].2)).1.established.enRxAddr = 2 ∧
     (exSys.block 0 (callsBody exBlocks[0].2)).1.established.rxAddr1 = [1, 2, 3, 0, 0]) ∧
    (((exSys.block 0 (callsBody exBlocks[0].2)).2.block 1 (callsBody exBlocks[1].2)).1.established.rfCh = 90 ∧
     ((exSys.block 0 (callsBody exBlocks[0].2)).2.block 1 (callsBody exBlocks[1].2)).1.established.setupAw = 1) ∧
    ((((exSys.block 0 (callsBody exBlocks[0].2)).2.block 1 (callsBody exBlocks[1].2)).2.block 0
        (callsBody exBlocks[2].2)).1.entered.rfCh = 40 ∧
     (((exSys.block 0 (callsBody exBlocks[0].2)).2.block 1 (callsBody exBlocks[1].2)).2.block 0
        (callsBody exBlocks[2].2)).1.entered.setupAw = 3) := by
  decide +kernel

/-- **`__enter__` after another object's block** (formerly `C09_no_leak`).  NOT a proof of the clause
"settings never leak from one object to another" on the object side: in the functional model each
object's shadow state is a separate Lean value, so a call on object A cannot change object B's shadows
by construction (`exec m ⟨dA, w⟩` does not mention `dB`); aliasing between Python objects is
inexpressible here and that half of the clause is decided by the correspondence runs only.
What this theorem states is the frame on the *radio* side: `__enter__` and `__exit__` of an
object change the configuration of no radio but its own, keep the number of radios, and — by
`C09_restore` with `w'` := whatever A left — B's next `__enter__` wipes out every register A set.
Stated for the pair enter/exit of A followed by B's `__enter__`: B's registers are B's. -/
theorem C09_enter_after_other_block (dA dB : Rf24) (w : World) (hA : dA.rid < w.radios.length) (hB : dB.rid < w.radios.length)
    (hrA : InRange dA) (hrB : InRange dB)
    (hok : ∀ j, j < w.radios.length → (w.radio j).plus = true ∧ Spec.RadioShape (w.radio j)) :
    let a1 := exec enter ⟨dA, w⟩
    let a2 := exec Rf24.exit a1.2
    let b1 := exec enter ⟨dB, a2.2.w⟩
    b1.1 = .ok () ∧ regsOf (radioOf dB b1.2.w) = shadowRegs { dB with config := dB.config ||| 2 } ∧
    ∀ j, j ≠ dA.rid → (a2.2.w.radio j).cfgOf = (w.radio j).cfgOf := by
  intro a1 a2 b1
  obtain ⟨hpA, hsA⟩ := hok dA.rid hA
  have hvA : (radioOf dA w).featureVisible = true := by unfold Radio.featureVisible; rw [hpA]; rfl
  obtain ⟨e1, e2, e3, e4, e5, e6, e7, e8, e9, e10, e11⟩ := C09_enter dA w hA hrA hvA hsA
  obtain ⟨s1, hex1, hd1, hrid1, hwf1, _⟩ := enter_spec ⟨dA, w⟩ hA hrA hsA
  have ha1 : a1 = (.ok (), s1) := hex1
  have hr1 : InRange s1.d := by rw [hd1]; exact inRange_enter hrA _
  have hs1 : s1 = ⟨s1.d, s1.w⟩ := rfl
  have hrid1' : s1.d.rid < s1.w.radios.length := hwf1
  obtain ⟨x1, x2, x3, x4, x5, x6, x7, x8, x9, x10⟩ := C09_exit s1.d s1.w hrid1' hr1.1
  have ha2 : a2 = exec Rf24.exit ⟨s1.d, s1.w⟩ := by show exec Rf24.exit a1.2 = _; rw [ha1]
  have hlen1 : s1.w.radios.length = w.radios.length := by
    have := e10; rw [hex1] at this; exact this
  have hlen2 : a2.2.w.radios.length = w.radios.length := by rw [ha2, x9, hlen1]
  have hfr1 : ∀ j, j ≠ dA.rid → (s1.w.radio j).cfgOf = (w.radio j).cfgOf := by
    have := e11; rw [hex1] at this; exact this
  have hfr : ∀ j, j ≠ dA.rid → (a2.2.w.radio j).cfgOf = (w.radio j).cfgOf := by
    intro j hj
    rw [ha2, x10 j (by rw [hrid1]; exact hj)]
    exact hfr1 j hj
  -- B's radio after A's block: plus variant and shape are kept
  have hBok : (radioOf dB a2.2.w).featureVisible = true ∧ Spec.RadioShape (radioOf dB a2.2.w) := by
    by_cases hj : dB.rid = dA.rid
    · have hp : (radioOf dB a2.2.w).plus = true := by
        unfold radioOf; rw [hj, ha2, ← hrid1]
        have := x7; unfold radioOf at this; rw [this]
        have := e7; rw [hex1] at this; unfold radioOf at this; rw [hrid1, this]; exact hpA
      refine ⟨by unfold Radio.featureVisible; rw [hp]; rfl, ?_⟩
      have hregs : regsOf (radioOf dB a2.2.w) = shadowRegs { s1.d with config := s1.d.config &&& 0x7D } := by
        unfold radioOf; rw [hj, ha2, ← hrid1]
        have h3 := x3; unfold radioOf at h3; rw [h3]
        have h2 : regsOf (s1.w.radio s1.d.rid) = shadowRegs s1.d := by
          have := e3; rw [hex1] at this; unfold ShadowEq radioOf at this; rw [hrid1]; exact this
        rw [h2]; rfl
      exact radioShape_of_shadowEq hregs (inRange_exit hr1 s1.d.status)
    · have := hfr dB.rid hj
      obtain ⟨hp, hs⟩ := hok dB.rid hB
      refine ⟨?_, ?_⟩
      · rw [← featureVisible_cfgOf]; unfold radioOf; rw [this, featureVisible_cfgOf]
        unfold Radio.featureVisible; rw [hp]; rfl
      · rw [← radioShape_cfgOf]; unfold radioOf; rw [this, radioShape_cfgOf]; exact hs
  obtain ⟨f1, f2, _⟩ := C09_enter dB a2.2.w (by rw [hlen2]; exact hB) hrB hBok.1 hBok.2
  exact ⟨f1, f2, hfr⟩

example : ∃ (dA dB : Rf24) (w : World), dA.rid < w.radios.length ∧ dB.rid < w.radios.length ∧ InRange dA ∧
    InRange dB ∧ dA ≠ dB ∧ dA.rid = dB.rid :=
  ⟨{ rid := 0 }, { rid := 0, channel := 40, aa := 0, dynPl := 0, features := 0 }, World.fresh 1, by decide⟩

/-! ### objects produced by `__init__`: the accessibility hypothesis is established, not assumed

Repair 17d8151 (K1/K2): `RF24.__init__` detects the chip variant for every prior state of the chip and
leaves the feature registers of a non-plus chip unlocked.  The theorems above that assume
`featureVisible` (`C09_enter`, `C09_restore`, `C09_history_calls` via `WorldOkC`) therefore apply to every
object the constructor produced, on any chip. -/

/-- **`RF24.__init__` detects the variant and unlocks the feature registers**, for a new object on
ANY radio of ANY world in which that radio answers and holds bytes in RX_ADDR_P2..5 — nRF24L01+ or
non-plus, feature registers locked or unlocked, any content of FEATURE / DYNPD / every other
register, FIFOs, flags, log: no exception; `_is_plus_variant` is the chip's variant; the variant is
untouched; FEATURE/DYNPD are accessible afterwards. -/
theorem C09_init_detects_variant (rid : Nat) (w : World) (hrid : rid < w.radios.length)
    (hb : ∀ x ∈ (w.radio rid).rxAddrN, x < 256) :
    let out := exec init ⟨{ rid := rid }, w⟩
    out.1 = .ok () ∧ out.2.d.isPlus = (w.radio rid).plus ∧ (out.2.w.radio rid).plus = (w.radio rid).plus ∧
    (out.2.w.radio rid).featureVisible = true := by
  intro out
  obtain ⟨s', hex, hre, _, hip, hpl, hvis, _⟩ := init_variant_spec ⟨{ rid := rid }, w⟩ hrid rfl hb
  have hout : out = (.ok (), s') := hex
  rw [hout]
  have hrid1 : s'.d.rid = rid := (hre.frame hrid).1
  have hc : s'.cfg = (s'.w.radio rid).cfgOf := by unfold DrvState.cfg; rw [hrid1]
  rw [hc] at hpl hvis
  exact ⟨rfl, hip, hpl, hvis⟩

example : ∃ (rid : Nat) (w : World), rid < w.radios.length ∧ (∀ x ∈ (w.radio rid).rxAddrN, x < 256) ∧
    (w.radio rid).plus = false ∧ (w.radio rid).featureVisible = true ∧ (w.radio rid).feature = 0 :=
  ⟨0, { World.fresh 1 false with radios := [{ plus := false, activated := true, feature := 0 }] },
    by decide, by decide, rfl, rfl, rfl⟩

/-- **The first block of a constructed object, on any chip** (`C09_enter` without its hypothesis
"FEATURE/DYNPD accessible"; the negation of the former finding K1).  For a new object on ANY radio
of ANY world (as above, the radio having the chip's register shape): after `__init__` every
configuration register equals its shadow (`ShadowEq`); `__enter__` then does not raise and programs
the complete register file from the shadows — DYNPD = 0x3F and FEATURE = 5 included, also on a
non-plus chip found locked. -/
theorem C09_init_enter (rid : Nat) (w : World) (hrid : rid < w.radios.length)
    (hb : ∀ x ∈ (w.radio rid).rxAddrN, x < 256) (hshape : Spec.RadioShape (w.radio rid)) :
    let made := exec init ⟨{ rid := rid }, w⟩
    let out := exec enter made.2
    made.1 = .ok () ∧ ShadowEq made.2.d (made.2.w.radio rid) ∧
    out.1 = .ok () ∧
    regsOf (out.2.w.radio rid) = shadowRegs { made.2.d with config := made.2.d.config ||| 2 } ∧
    (out.2.w.radio rid).dynpd = 0x3F ∧ (out.2.w.radio rid).feature = 5 ∧
    ShadowEq out.2.d (out.2.w.radio rid) := by
  intro made out
  obtain ⟨s', hex, hre, hok, _, _, hvis, hregs⟩ := init_variant_spec ⟨{ rid := rid }, w⟩ hrid rfl hb
  have hmade : made = (.ok (), s') := hex
  have hrid1 : s'.d.rid = rid := (hre.frame hrid).1
  have hc : s'.cfg = (s'.w.radio rid).cfgOf := by unfold DrvState.cfg; rw [hrid1]
  have hregs' : regsOf (s'.w.radio rid) = shadowRegs s'.d := by
    have := hregs hshape
    rw [hc] at this
    exact this
  have hvis' : (radioOf s'.d s'.w).featureVisible = true := by
    unfold radioOf; rw [hrid1]; rw [hc] at hvis; exact hvis
  have hsh' : Spec.RadioShape (radioOf s'.d s'.w) := by
    unfold radioOf; rw [hrid1]; exact radioShape_of_shadowEq hregs' hok.range
  have hlen : s'.d.rid < s'.w.radios.length := by rw [hrid1, hre.length]; exact hrid
  obtain ⟨e1, e2, e3, _⟩ := C09_enter s'.d s'.w hlen hok.range hvis' hsh'
  have hout : out = exec enter ⟨s'.d, s'.w⟩ := by show exec enter made.2 = _; rw [hmade]
  rw [hmade, hout]
  unfold radioOf at e2 e3
  rw [hrid1] at e2 e3
  refine ⟨rfl, hregs', e1, e2, ?_, ?_, e3⟩
  · have := congrArg CfgRegs.dynpd e2
    exact this.trans hok.dyn
  · have := congrArg CfgRegs.feature e2
    exact this.trans hok.feat

example : ∃ (rid : Nat) (w : World), rid < w.radios.length ∧ (∀ x ∈ (w.radio rid).rxAddrN, x < 256) ∧
    Spec.RadioShape (w.radio rid) ∧ (w.radio rid).featureVisible = false :=
  ⟨0, World.fresh 1 false, by decide, by decide, by decide, rfl⟩

/-- **C09_history for constructed objects, on any chips — contract-conditional (partial).**  As
`C09_history_contract_partial`: the bodies are arbitrary state transformers ASSUMED to keep `Body.Ok`
(discharged for C03 call sequences by `C09_history_calls_constructed`; false for the carrier-wave calls
on a non-plus chip; undischarged for transmitting / receiving bodies).
Take ANY world whose `n` radios have the
chip's register shape and bytes in RX_ADDR_P2..5 (`WorldPre`: any variant, feature registers locked or
unlocked, any register contents).  Construct any number of RF24 objects on its radios, in any order
(`construct rids`; every radio gets at least one object or was accessible already).  Then for EVERY
history of `with` blocks of these objects — any interleaving, bodies keeping the block contract
`Body.Ok` — C09 holds at every block: the register file right after `__enter__` equals the one the
object had established at the end of its previous block with PWR_UP set, and `__exit__` leaves CE
low and the radio powered down.  No hypothesis about FEATURE/DYNPD being accessible: the
constructors establish it (K1). -/
theorem C09_history_constructed_contract_partial (n : Nat) (rids : List Nat) (w0 : World) (blocks : List (Nat × Body))
    (hw0 : WorldPre n w0) (hr : ∀ r ∈ rids, r < n)
    (hcov : ∀ j, j < n → j ∈ rids ∨ (w0.radio j).featureVisible = true)
    (hblocks : ∀ ib ∈ blocks, ib.1 < rids.length ∧ ib.2.Ok n) :
    Holds blocks ⟨(construct rids w0).1, (construct rids w0).2⟩ (fun _ => none) := by
  obtain ⟨k1, k2, k3, k4⟩ := construct_spec n rids w0 hw0 hr
  refine C09_history_contract_partial n blocks _ ⟨k1.1, fun j hj => ⟨k4 j hj (hcov j hj), (k1.2 j hj).1⟩⟩ ?_ ?_
  · intro i hi
    have hi' : i < rids.length := by rw [← k2]; exact hi
    obtain ⟨a, b⟩ := k3 i hi'
    refine ⟨?_, b⟩
    rw [a]
    refine hr _ ?_
    rw [List.getD_eq_getElem?_getD, List.getElem?_eq_getElem hi', Option.getD_some]
    exact List.getElem_mem hi'
  · intro ib hib
    obtain ⟨a, b⟩ := hblocks ib hib
    exact ⟨by show ib.1 < (construct rids w0).1.length; rw [k2]; exact a, b⟩

/-- three objects on one non-plus chip found in its reset state (FEATURE = 0, locked): the
    hypotheses hold although the chip is not accessible before the first constructor ran -/
example : WorldPre 1 (World.fresh 1 false) ∧ (∀ r ∈ [0, 0, 0], r < 1) ∧
    (∀ j, j < 1 → j ∈ [0, 0, 0] ∨ ((World.fresh 1 false).radio j).featureVisible = true) ∧
    ((World.fresh 1 false).radio 0).featureVisible = false := by
  refine ⟨⟨rfl, fun j hj => ?_⟩, by decide, fun j hj => ?_, rfl⟩
  · have : j = 0 := by omega
    subst this; exact ⟨by decide, by decide⟩
  · have : j = 0 := by omega
    subst this; exact .inl (by decide)

/-- **C09_history_calls for constructed objects, on any chips.**  No assumed contract, no hypothesis
on the objects.  Take ANY world whose `n` radios are chips of ANY variant with the feature registers
locked or unlocked and any register contents of the hardware shape (bytes in the address registers)
and a clean violation log (`WorldPreC`).  Construct any number of RF24 objects on its radios, in any
order (`construct rids`; every radio gets at least one object or was accessible already).  Then for
EVERY history of `with` blocks of these objects — any interleaving — whose bodies are arbitrary finite
sequences of C03 calls (as in `C09_history_calls`; carrier-wave calls only for objects on a plus chip),
C09 holds at every block. -/
theorem C09_history_calls_constructed (n : Nat) (rids : List Nat) (w0 : World) (blocks : List (Nat × List Call))
    (hw0 : WorldPreC n w0) (hr : ∀ r ∈ rids, r < n)
    (hcov : ∀ j, j < n → j ∈ rids ∨ (w0.radio j).featureVisible = true)
    (hblocks : ∀ ib ∈ blocks, ib.1 < rids.length ∧ ∀ c ∈ ib.2, c.dom (w0.radio (rids.getD ib.1 0)).plus) :
    Holds (blocks.map fun ib => (ib.1, callsBody ib.2)) ⟨(construct rids w0).1, (construct rids w0).2⟩
      (fun _ => none) := by
  obtain ⟨k1, k2, k3, k4, k5⟩ := construct_specC n rids w0 hw0 hr
  refine C09_history_calls n blocks _ ⟨k1.1, fun j hj => ⟨k4 j hj (hcov j hj), k1.2 j hj⟩⟩ ?_ ?_
  · intro i hi
    exact (k3 i (by rw [← k2]; exact hi)).2
  · intro ib hib
    obtain ⟨a, b⟩ := hblocks ib hib
    refine ⟨by show ib.1 < (construct rids w0).1.length; rw [k2]; exact a, fun c hc => ?_⟩
    show c.dom (((construct rids w0).2.radio ((construct rids w0).1.getD ib.1 default).rid)).plus
    rw [k5, (k3 ib.1 a).1]
    exact b c hc

/-- three objects on one NON-plus chip found in its reset state (FEATURE = 0, locked), bodies that change
    registers; the carrier-wave calls are not allowed here (`dom` would demand `plus = true`) -/
example : WorldPreC 1 (World.fresh 1 false) ∧ (∀ r ∈ [0, 0, 0], r < 1) ∧
    (∀ j, j < 1 → j ∈ [0, 0, 0] ∨ ((World.fresh 1 false).radio j).featureVisible = true) ∧
    ((World.fresh 1 false).radio 0).featureVisible = false ∧
    (∀ ib ∈ exBlocks, ib.1 < [0, 0, 0].length ∧
      ∀ c ∈ ib.2, c.dom ((World.fresh 1 false).radio (([0, 0, 0] : List Nat).getD ib.1 0)).plus) ∧
    ¬ Call.startCarrierWave.dom ((World.fresh 1 false).radio 0).plus := by
  have hlog : LogOk ([] : List String) := by intro e he; cases he
  refine ⟨⟨rfl, fun j hj => ?_⟩, by decide, fun j hj => ?_, rfl, ?_, by decide⟩
  · have : j = 0 := by omega
    subst this; exact ⟨by decide, by decide, by decide, by decide, by decide, hlog⟩
  · have : j = 0 := by omega
    subst this; exact .inl (by decide)
  · intro ib hib
    simp only [exBlocks, List.mem_cons, List.not_mem_nil, or_false] at hib
    rcases hib with rfl | rfl | rfl
    · refine ⟨by decide, fun c hc => ?_⟩
      simp only [List.mem_cons, List.not_mem_nil, or_false] at hc
      rcases hc with rfl | rfl | rfl
      · trivial
      · trivial
      · exact ⟨by decide, by decide⟩
    · refine ⟨by decide, fun c hc => ?_⟩
      simp only [List.mem_cons, List.not_mem_nil, or_false] at hc
      rcases hc with rfl | rfl | rfl <;> trivial
    · refine ⟨by decide, fun c hc => ?_⟩
      simp only [List.mem_cons, List.not_mem_nil, or_false] at hc
      subst hc; trivial

/-- **the exception is real** (candidate finding, reviewer's `#eval`): one object constructed on a
    non-plus chip; a block `start_carrier_wave(); stop_carrier_wave()` ends with EN_AA = 0, SETUP_RETR = 0,
    TX_ADDR = FF FF FF FF FF in the chip while the shadows still say 0x3F / 0x5F / E7…; the next
    `__enter__` programs the shadows, so the register file it yields is NOT the one the previous block
    established -/
example :
    let σ : Sys := ⟨(construct [0] (World.fresh 1 false)).1, (construct [0] (World.fresh 1 false)).2⟩
    let b1 := σ.block 0 (callsBody [.startCarrierWave, .stopCarrierWave])
    let b2 := b1.2.block 0 (callsBody [])
    b1.1.established.enAA = 0 ∧ b2.1.entered.enAA = 0x3F ∧ b1.1.established.setupRetr = 0 ∧
    b2.1.entered.setupRetr = 0x5F ∧ b2.1.entered ≠ withPwr b1.1.established := by
  decide +kernel

/-! ### FakeBLE objects and the shadow ranges the constructors establish -/

/-- `FakeBLE.__enter__` is `RF24.__enter__` on the embedded driver object, `FakeBLE.__exit__` is
`RF24.__exit__` after forgetting the advertised name / TX-power flag (not radio configuration): so
`C09_enter`, `C09_exit`, `C09_restore` apply verbatim to the embedded shadows `b.rf` (single steps;
no history theorem is stated for FakeBLE objects). -/
theorem C09_ble_enter_exit (s : BleState) :
    execB BleDev.enter s =
      ((exec enter ⟨s.b.rf, s.w⟩).1,
       { b := { s.b with rf := (exec enter ⟨s.b.rf, s.w⟩).2.d }, w := (exec enter ⟨s.b.rf, s.w⟩).2.w }) ∧
    execB BleDev.exit s =
      ((exec Rf24.exit ⟨s.b.rf, s.w⟩).1,
       { b := { s.b with showDbm := false, name := none, rf := (exec Rf24.exit ⟨s.b.rf, s.w⟩).2.d },
         w := (exec Rf24.exit ⟨s.b.rf, s.w⟩).2.w }) :=
  ⟨ble_enter s, ble_exit s⟩

/-- `C09_restore` for a FakeBLE object -/
theorem C09_restore_ble (b : BleDev) (w w' : World) (hrid : b.rf.rid < w.radios.length) (hr : InRange b.rf)
    (heq : ShadowEq b.rf (radioOf b.rf w))
    (hlen : w'.radios.length = w.radios.length)
    (hvis : (radioOf b.rf w').featureVisible = true) (hshape : Spec.RadioShape (radioOf b.rf w')) :
    let left := execB BleDev.exit ⟨b, w⟩
    let back := execB BleDev.enter ⟨left.2.b, w'⟩
    left.1 = .ok () ∧ back.1 = .ok () ∧
    regsOf (radioOf b.rf back.2.w) = withPwr (regsOf (radioOf b.rf w)) ∧
    (radioOf b.rf back.2.w).ce = false ∧
    SameShadows back.2.b.rf { b.rf with config := b.rf.config ||| 2 } := by
  intro left back
  have hl : left = ((exec Rf24.exit ⟨b.rf, w⟩).1,
      { b := { b with showDbm := false, name := none, rf := (exec Rf24.exit ⟨b.rf, w⟩).2.d },
        w := (exec Rf24.exit ⟨b.rf, w⟩).2.w }) := ble_exit ⟨b, w⟩
  have hb : back = ((exec enter ⟨(exec Rf24.exit ⟨b.rf, w⟩).2.d, w'⟩).1,
      { b := { left.2.b with rf := (exec enter ⟨(exec Rf24.exit ⟨b.rf, w⟩).2.d, w'⟩).2.d },
        w := (exec enter ⟨(exec Rf24.exit ⟨b.rf, w⟩).2.d, w'⟩).2.w }) := by
    show execB BleDev.enter ⟨left.2.b, w'⟩ = _
    rw [ble_enter, hl]
  obtain ⟨c1, c2, c3, c4, c5⟩ := C09_restore b.rf w w' hrid hr heq hlen hvis hshape
  rw [hb, hl]
  exact ⟨c1, c2, c3, c4, c5⟩

example : ∃ (b : BleDev) (w w' : World), b.rf.rid < w.radios.length ∧ InRange b.rf ∧ ShadowEq b.rf (radioOf b.rf w) ∧
    w'.radios.length = w.radios.length ∧ (radioOf b.rf w').featureVisible = true ∧ Spec.RadioShape (radioOf b.rf w') ∧
    regsOf (radioOf b.rf w') ≠ regsOf (radioOf b.rf w) :=
  ⟨{ rf := { rid := 0, channel := 2, openPipes := 3, addrLen := 5, plLen := [1, 1, 1, 1, 1, 1], features := 0,
             dynPl := 0, aa := 0, retrySetup := 3, rfSetup := 0x0E, config := 0x0A,
             pipes0 := [0xE7, 0xE7, 0xE7, 0xE7, 0xE7], pipes1 := [0xC2, 0xC2, 0xC2, 0xC2, 0xC2],
             pipesN := [0xC3, 0xC4, 0xC5, 0xC6], txAddress := [0xE7, 0xE7, 0xE7, 0xE7, 0xE7] } },
   { World.fresh 1 with radios := [{ config := 0x0A, enAA := 0, rxPw := [1, 1, 1, 1, 1, 1] }] },
   { World.fresh 1 with radios := [{ rfCh := 99, rxAddr0 := [1, 2, 3, 4, 5] }] }, by decide⟩

/-- **`RF24.__init__` establishes in-range shadows** (the hypothesis `InRange` of `C09_enter` /
`C09_restore` for the first block), for a new object on ANY radio of ANY world in which that radio
answers and holds bytes in RX_ADDR_P2..5 — whatever other objects left in it, plus or non-plus:
no exception; the shadows are in range; no reading address for pipe 0; TX role; every pipe closed. -/
theorem C09_init_inrange (rid : Nat) (w : World) (hrid : rid < w.radios.length)
    (hb : ∀ x ∈ (w.radio rid).rxAddrN, x < 256) :
    let out := exec init ⟨{ rid := rid }, w⟩
    out.1 = .ok () ∧ InRange out.2.d ∧ out.2.d.rid = rid ∧ out.2.d.pipe0ReadAddr = none ∧
    out.2.d.config &&& 1 = 0 ∧ out.2.d.openPipes = 0 ∧ out.2.w.radios.length = w.radios.length := by
  intro out
  obtain ⟨s', hex, hre, hok⟩ := init_spec ⟨{ rid := rid }, w⟩ hrid rfl hb
  have : out = (.ok (), s') := hex
  rw [this]
  refine ⟨rfl, hok.range, (hre.frame hrid).1, hok.user, ?_, hok.op, hre.length⟩
  show s'.d.config &&& 1 = 0
  rw [hok.config]; decide

example : ∃ (rid : Nat) (w : World), rid < w.radios.length ∧ (∀ x ∈ (w.radio rid).rxAddrN, x < 256) ∧
    (w.radio rid).rfCh = 99 :=
  ⟨1, { World.fresh 2 false with radios := [{}, { plus := false, rfCh := 99, feature := 0 }] }, by decide, by decide, by decide⟩

/-- **`FakeBLE.__init__` establishes in-range shadows**, likewise; pipe 0 is then the user's (the
BLE access address) and open. -/
theorem C09_ble_init_inrange (rid : Nat) (w : World) (hrid : rid < w.radios.length)
    (hb : ∀ x ∈ (w.radio rid).rxAddrN, x < 256) (hs : Spec.RadioShape (w.radio rid)) :
    let out := execB BleDev.init ⟨{ rf := { rid := rid } }, w⟩
    out.1 = .ok () ∧ InRange out.2.b.rf ∧ out.2.b.rf.rid = rid ∧ out.2.w.radios.length = w.radios.length ∧
    out.2.b.rf.pipe0ReadAddr = some BLE_ADDR ∧ out.2.b.rf.openPipes &&& 1 ≠ 0 ∧ out.2.b.rf.config &&& 1 = 0 := by
  intro out
  obtain ⟨s', hex, h1, h2, h3, h4, h5, h6, _⟩ := ble_init_spec { rf := { rid := rid } } w hrid rfl hb hs
  have : out = (.ok (), s') := hex
  rw [this]
  exact ⟨rfl, h1, h2, h3, h4, h5, h6⟩

example : ∃ (rid : Nat) (w : World), rid < w.radios.length ∧ (∀ x ∈ (w.radio rid).rxAddrN, x < 256) ∧
    Spec.RadioShape (w.radio rid) :=
  ⟨0, World.fresh 1, by decide, by decide, by decide⟩

/-- **`FakeBLE.__init__` detects the variant and unlocks the feature registers**, likewise (it runs
`RF24.__init__` and then only register writes): on any chip, in any prior state. -/
theorem C09_ble_init_detects_variant (rid : Nat) (w : World) (hrid : rid < w.radios.length)
    (hb : ∀ x ∈ (w.radio rid).rxAddrN, x < 256) (hs : Spec.RadioShape (w.radio rid)) :
    let out := execB BleDev.init ⟨{ rf := { rid := rid } }, w⟩
    out.1 = .ok () ∧ out.2.b.rf.isPlus = (w.radio rid).plus ∧ (out.2.w.radio rid).featureVisible = true := by
  intro out
  obtain ⟨s', hex, _, _, _, _, _, _, h7, h8⟩ := ble_init_spec { rf := { rid := rid } } w hrid rfl hb hs
  have : out = (.ok (), s') := hex
  rw [this]
  exact ⟨rfl, h7, h8⟩

example : ∃ (rid : Nat) (w : World), rid < w.radios.length ∧ (∀ x ∈ (w.radio rid).rxAddrN, x < 256) ∧
    Spec.RadioShape (w.radio rid) ∧ (w.radio rid).featureVisible = false :=
  ⟨0, World.fresh 1 false, by decide, by decide, by decide, rfl⟩

end Nrf.Props.C09
