/-
C03 — setters program the radio with the documented encoding; getters agree.

Spec (what the documentation says each call does, per data-sheet bit field): `NrfModel/Spec/Cfg.lean`
  `Call`      the configuration alphabet with its argument forms (46 constructors)
  `runCall`   the model method (`NrfModel/Rf24.lean`, the transliterated `rf24.py`) a call stands for
  `docStep`   documented effect on the abstract state `CfgSt` = (configuration part of the chip:
              registers + CE + chip variant + the chip's log of reserved/out-of-range writes,
              ghost reading address of pipe 0) and documented result; `.error e` = rejected
  `CfgOk`     every register within its documented range, no reserved bit, nothing reserved or
              out of range ever logged — WITH AN EXCEPTION built into `LogOk`: the entry
              `SETUP_AW:illegal:0` is exempt (`address_length = 2`, and every value outside 3..5 such
              as 9, makes the driver WRITE SETUP_AW = 0, a value the data sheet calls illegal; the
              library documents 2-byte addresses), and `CE:` entries are not C03's concern.  So "no
              reserved / out-of-range write" is proved for everything EXCEPT SETUP_AW = 0.
  `Call.dom`  the explored domain: addresses of at most 5 bytes (explicit hypothesis), carrier
              wave test on the plus variant only
Invariant (`NrfProofs/C03/Base.lean`): `Inv s` = the object's radio exists ∧ `Cached` (every shadow
attribute equals the register it caches: 15 equations) ∧ `CfgOk` ∧ the ghost address is 1..5 bytes.
CE is part of the abstract state (the `listen` setter and the carrier wave test document it); time
is not (`spiStep_cfg`: no configuration register depends on the clock, the FIFOs or the air).
Per-method lemmas: `NrfProofs/C03/*.lean`.
-/
import NrfProofs.C03.History
import NrfProofs.C03.Init
import NrfProofs.C03.Getters

namespace Nrf.Props.C03
open Nrf Rf24 Cfg

/-- **One call.**  For every call `c` of the alphabet with arguments from the whole domain (any
    `Int`, any `bool | int | list | other` argument, any pipe number, any address of ≤ 5 bytes) and
    every state satisfying the invariant — whatever is in the FIFOs, on the air, in the other
    radios, on the clock:
    * the invariant holds again (cache = radio, registers in range, nothing reserved/out of range
      written: the chip's violation log stays clean);
    * if the documentation accepts the call, it returns the documented result and the radio's
      configuration registers (and CE, and the ghost address) are *exactly* the documented encoding;
    * if the documentation rejects it, the documented exception is raised and every register of
      the radio is *equal* to what it was;
    * no register of any other radio changes. -/
theorem C03_step (c : Call) (s : DrvState) (h : Inv s) (hd : c.dom s.cfg.plus) :
    Inv (exec (runCall c) s).2 ∧
    (∀ a' ret, docStep c s.abs = .ok (a', ret) →
      (exec (runCall c) s).1 = .ok ret ∧ (exec (runCall c) s).2.abs = a') ∧
    (∀ e, docStep c s.abs = .error e →
      (exec (runCall c) s).1 = .error e ∧ (exec (runCall c) s).2.abs = s.abs) ∧
    (∀ j, j ≠ s.d.rid → (exec (runCall c) s).2.cfgAt j = s.cfgAt j) :=
  have h1 := stepOk c s h hd
  ⟨h1.inv, h1.ok, h1.err, h1.frame⟩

/-- **Any history.**  After any sequence of calls (no length bound; an exception does not stop the
    history, the object lives on as in Python) from a state satisfying the invariant: the invariant
    holds, the list of results/exceptions is the documented one, the abstract state is the
    documented one (`docRun` folds `docStep`; rejected calls change nothing), other radios are
    untouched. -/
theorem C03_history (cs : List Call) (s : DrvState) (h : Inv s) (hd : ∀ c ∈ cs, c.dom s.cfg.plus) :
    Inv (runCalls cs s).2 ∧
    (runCalls cs s).1 = (docRun cs s.abs).1 ∧
    (runCalls cs s).2.abs = (docRun cs s.abs).2 ∧
    (∀ j, j ≠ s.d.rid → (runCalls cs s).2.cfgAt j = s.cfgAt j) :=
  have h1 := history cs s h hd
  ⟨h1.1, h1.2.1, h1.2.2.1, h1.2.2.2.1⟩

/-- **`__enter__` establishes the invariant** on a chip whose feature registers are accessible
    (nRF24L01+, or a non-plus chip after ACTIVATE), from *any* world: whatever the registers held
    before, for any shadow state in programmable range (`ShadowOk`: what `__init__` and the setters
    leave), provided the chip's address/width registers are well-formed (`RadioShape`) and nothing
    reserved was logged before.  Every configuration register then holds the encoding of the
    object's cached value (`enterCfg`) — which is also the register-level half of C09. -/
theorem C03_enter_inv (s : DrvState) (hw : s.Wf) (hs : ShadowOk s.d) (hr : RadioShape s.cfg)
    (hvis : s.cfg.featureVisible = true) (hplus : s.d.isPlus = s.cfg.plus) (hlog : LogOk s.cfg.violations) :
    (exec enter s).1 = .ok () ∧ Inv (exec enter s).2 ∧
    (exec enter s).2.cfg = enterCfg s.d s.cfg ∧
    (∀ j, j ≠ s.d.rid → (exec enter s).2.cfgAt j = s.cfgAt j) :=
  enter_inv s hw hs hr hvis hplus hlog

/-- **`__init__` establishes the invariant** on ANY chip — nRF24L01+ or the non-plus nRF24L01,
    feature registers locked or unlocked — in any well-formed state (any register contents, FIFOs,
    flags): the constructor succeeds, detects the variant (`Inv.cached.isPlus`), leaves the feature
    registers accessible (`Inv.ok.vis`) and cache = radio with every register in range.
    (Before the repair 17d8151 this held on plus chips only: hypothesis `s.cfg.plus = true`.) -/
theorem C03_init_inv (s : DrvState) (hw : s.Wf) (hr : RadioShape s.cfg)
    (hlog : LogOk s.cfg.violations) (hd : s.d.config = 0x0E) :
    (exec init s).1 = .ok () ∧ Inv (exec init s).2 ∧
    (∀ j, j ≠ s.d.rid → (exec init s).2.cfgAt j = s.cfgAt j) :=
  init_inv s hw hr hlog hd

/-- **`__init__` detects the chip variant and unlocks the feature registers** (closes the known
    findings K2 and K1).  For EVERY world and every prior state of the object's radio — plus or
    non-plus (`plus`), feature registers accessible or not (`activated`), ANY content of FEATURE,
    DYNPD and every other register (`RadioShape`: the address / width registers have their hardware
    shape, a typing condition on the chip model, not a restriction of its state), anything in the
    FIFOs, on the air, in the chip's violation log — on an object with the constructor's CONFIG
    shadow: `RF24.__init__` returns normally; `_is_plus_variant` equals the chip's variant; the chip's
    variant is what it was; the chip's FEATURE/DYNPD registers are accessible when it returns (so the
    writes of every later `__enter__` take effect); every shadow equals its register; no other
    radio's configuration is touched. -/
theorem C03_init_detects_variant (s : DrvState) (hw : s.Wf) (hr : RadioShape s.cfg) (hd : s.d.config = 0x0E) :
    let out := exec init s
    out.1 = .ok () ∧
    out.2.d.isPlus = (s.w.radio s.d.rid).plus ∧
    (out.2.w.radio s.d.rid).plus = (s.w.radio s.d.rid).plus ∧
    (out.2.w.radio s.d.rid).featureVisible = true ∧
    Cached out.2.d out.2.cfg ∧ out.2.d.rid = s.d.rid ∧
    (∀ j, j ≠ s.d.rid → out.2.cfgAt j = s.cfgAt j) := by
  intro out
  obtain ⟨c, hpost, hplus, hvis, _⟩ := init_post s hw hr hd
  have hcfg : out.2.cfg = c := hpost.cfg
  have hrad : (out.2.w.radio s.d.rid).cfgOf = c := by
    have := hcfg
    unfold DrvState.cfg at this
    rw [hpost.rid] at this
    exact this
  refine ⟨hpost.res, ?_, ?_, ?_, hcfg ▸ hpost.cached, hpost.rid, hpost.frame⟩
  · exact hpost.cached.isPlus.trans hplus
  · show (out.2.w.radio s.d.rid).cfgOf.plus = _
    rw [hrad]; exact hplus
  · show (out.2.w.radio s.d.rid).cfgOf.featureVisible = true
    rw [hrad]; exact hvis

/-- the situation of K1 / K2: a non-plus chip whose FEATURE register holds 0 with the feature
    registers unlocked (what a `FakeBLE` object leaves behind), and — the reset state — locked -/
def nonplusWorld (activated : Bool) : DrvState :=
  { d := {}, w := { World.fresh 1 false with radios := [{ plus := false, activated := activated, feature := 0 }] } }

example : ∀ a, (nonplusWorld a).Wf ∧ RadioShape (nonplusWorld a).cfg ∧ (nonplusWorld a).d.config = 0x0E ∧
    (nonplusWorld a).cfg.plus = false ∧ (nonplusWorld a).cfg.feature = 0 ∧ (nonplusWorld a).cfg.activated = a := by
  intro a
  cases a <;> exact ⟨by unfold DrvState.Wf; decide, by constructor <;> decide, rfl, rfl, rfl, rfl⟩

/-- … and what the constructor makes of it: non-plus detected, registers unlocked and programmed -/
example : ∀ a, (exec init (nonplusWorld a)).1 = .ok () ∧ (exec init (nonplusWorld a)).2.d.isPlus = false ∧
    (exec init (nonplusWorld a)).2.cfg.activated = true ∧ (exec init (nonplusWorld a)).2.cfg.feature = 5 ∧
    (exec init (nonplusWorld a)).2.cfg.dynpd = 0x3F := by
  decide +kernel

/-- **Histories on a freshly constructed object, any chip.**  `C03_history` for the state `__init__`
    leaves, without the hypothesis that the object knows its variant (`Inv`): for every chip as in
    `C03_init_detects_variant` whose log is clean, after `__init__` and any sequence of calls the
    invariant holds, results and registers are the documented ones (`docRun` from the abstract state
    `__init__` left) — in particular `is_plus_variant` returns the chip's variant, and the domain of
    the carrier-wave calls is decided by the chip's real variant. -/
theorem C03_init_history (cs : List Call) (s : DrvState) (hw : s.Wf) (hr : RadioShape s.cfg)
    (hlog : LogOk s.cfg.violations) (hd : s.d.config = 0x0E) (hdom : ∀ c ∈ cs, c.dom (s.w.radio s.d.rid).plus) :
    let s1 := (exec init s).2
    (exec init s).1 = .ok () ∧ Inv s1 ∧ s1.abs.r.plus = (s.w.radio s.d.rid).plus ∧
    Inv (runCalls cs s1).2 ∧
    (runCalls cs s1).1 = (docRun cs s1.abs).1 ∧
    (runCalls cs s1).2.abs = (docRun cs s1.abs).2 ∧
    (∀ j, j ≠ s.d.rid → (runCalls cs s1).2.cfgAt j = s.cfgAt j) := by
  intro s1
  obtain ⟨h1, h2, h3⟩ := C03_init_inv s hw hr hlog hd
  obtain ⟨c, hpost, hplus, _, _⟩ := init_post s hw hr hd
  have hp1 : s1.cfg.plus = (s.w.radio s.d.rid).plus := by
    have : s1.cfg = c := hpost.cfg
    rw [this]; exact hplus
  obtain ⟨k1, k2, k3, k4⟩ := C03_history cs s1 h2 (by intro c hc; rw [hp1]; exact hdom c hc)
  refine ⟨h1, h2, hp1, k1, k2, k3, fun j hj => ?_⟩
  rw [k4 j (by rw [show s1.d.rid = s.d.rid from hpost.rid]; exact hj)]
  exact h3 j hj

/-- `is_plus_variant` on a freshly constructed object returns the chip's variant (K2) -/
theorem C03_init_is_plus_variant (s : DrvState) (hw : s.Wf) (hr : RadioShape s.cfg)
    (hlog : LogOk s.cfg.violations) (hd : s.d.config = 0x0E) :
    (exec (runCall .isPlusVariant) (exec init s).2).1 = .ok (.bool (s.w.radio s.d.rid).plus) := by
  obtain ⟨_, h2, h3, _, k2, _, _⟩ := C03_init_history [.isPlusVariant] s hw hr hlog hd
    (by intro c hc; simp only [List.mem_cons, List.not_mem_nil, or_false] at hc; subst hc; trivial)
  have hstep := (C03_step .isPlusVariant (exec init s).2 h2 trivial).2.1
  have := hstep (exec init s).2.abs (.bool (exec init s).2.abs.r.plus) rfl
  rw [this.1, h3]

example : ∃ s : DrvState, s.Wf ∧ RadioShape s.cfg ∧ LogOk s.cfg.violations ∧ s.d.config = 0x0E ∧
    (s.w.radio s.d.rid).plus = false ∧ (s.w.radio s.d.rid).featureVisible = false :=
  ⟨nonplusWorld false, by unfold DrvState.Wf; decide, by constructor <;> decide, (by intro e he; cases he), rfl, rfl, rfl⟩

/-- **Field non-interference** (named "getters agree with setters"; what is proved is about the raw
    register FIELDS `obs f`, not about getter return values: getters that read several fields —
    `crc`, `ack`, `listen` — can change their answer when another field's owner is called, e.g.
    `set_auto_ack(True)` changes what `crc` returns although it does not own `crcBits`.  The immediate
    set→get round trip for 15 attributes is `C03_roundtrip`, on the documented encoder `docStep`.)
    For every attribute field `f` (`Field`: channel, data rate, PA
    level, LNA, CRC bits, address length, ARD, ARC, auto-ack mask, dynamic-payload mask, the six
    payload lengths, ACK payloads, ask-no-ack, the three IRQ masks, power, role, pipe mask, the
    addresses): a call that does not own `f` (`owns`) leaves the value `obs f` unchanged, so after
    a setter and any sequence of calls that do not own the field the FIELD still holds the
    clamped value that setter established (no lemma composes this with a getter call). -/
theorem C03_getter_agrees (f : Field) (cs : List Call) (a : CfgSt) (ha : CfgOk a.r) (hu : P0Ok a.user0)
    (hd : ∀ c ∈ cs, c.dom a.r.plus) (hown : ∀ c ∈ cs, owns c f = false) :
    obs f (docRun cs a).2.r = obs f a.r :=
  obs_docRun f cs a ha hu hd hown

/-- … on the model: the register-level value of a field after any sequence of calls that do not own
    it is the one it had; with `C03_step` for the setter before and the getter after this is the
    round trip through the real driver code. -/
theorem C03_getter_agrees_model (f : Field) (cs : List Call) (s : DrvState) (h : Inv s)
    (hd : ∀ c ∈ cs, c.dom s.cfg.plus) (hown : ∀ c ∈ cs, owns c f = false) :
    obs f (runCalls cs s).2.cfg = obs f s.cfg := by
  have h1 := (history cs s h hd).2.2.1
  have h2 := obs_docRun f cs s.abs h.ok h.user0 hd hown
  have : (runCalls cs s).2.cfg = (docRun cs s.abs).2.r := by
    have := congrArg CfgSt.r h1
    exact this
  rw [this]; exact h2

/-- the values the setters establish, read back by the getters (documented clamping) -/
theorem C03_roundtrip (a : CfgSt) (ha : CfgOk a.r) :
    (∀ ch, 0 ≤ ch ∧ ch ≤ 125 → ∀ a', docStep (.setChannel ch) a = .ok (a', .unit) →
      docStep .getChannel a' = .ok (a', .nat ch.toNat)) ∧
    (∀ n a', docStep (.setArc n) a = .ok (a', .unit) →
      docStep .getArc a' = .ok (a', .nat (clampI 0 15 n))) ∧
    (∀ d a', docStep (.setArd d) a = .ok (a', .unit) →
      docStep .getArd a' = .ok (a', .nat ((clampI 250 4000 d - 250) / 250 * 250 + 250))) ∧
    (∀ d n a', docStep (.setAutoRetries d n) a = .ok (a', .unit) →
      docStep .getAutoRetries a' =
        .ok (a', .pair ((clampI 250 4000 d - 250) / 250 * 250 + 250) (clampI 0 15 n))) ∧
    (∀ v, v = 1 ∨ v = 2 ∨ v = 250 → ∀ a', docStep (.setDataRate v) a = .ok (a', .unit) →
      docStep .getDataRate a' = .ok (a', .nat v.toNat)) ∧
    (∀ v l, paLegal v → ∀ a', docStep (.setPaLevelLna v l) a = .ok (a', .unit) →
      docStep .getPaLevel a' = .ok (a', .int v) ∧ docStep .isLnaEnabled a' = .ok (a', .bool l)) ∧
    (∀ n a', docStep (.setCrc n) a = .ok (a', .unit) →
      docStep .getCrc a' = .ok (a', .nat (if a.r.enAA = 0 then clampI 0 2 n else max 1 (clampI 0 2 n)))) ∧
    (∀ n a', docStep (.setAddressLength n) a = .ok (a', .unit) →
      docStep .getAddressLength a' = .ok (a', .nat (if 3 ≤ n ∧ n ≤ 5 then n.toNat else 2))) ∧
    (∀ l p, pipeOk p → ∀ a', docStep (.setPayloadLength l (some p)) a = .ok (a', .unit) →
      docStep (.getPayloadLength p) a' = .ok (a', .nat (clampI 1 32 l))) ∧
    (∀ e p, pipeOk p → ∀ a', docStep (.setAutoAck e (some p)) a = .ok (a', .unit) →
      docStep (.getAutoAckPipe p) a' = .ok (a', .bool e)) ∧
    (∀ e p, pipeOk p → ∀ a', docStep (.setDynamicPayloads e (some p)) a = .ok (a', .unit) →
      docStep (.getDynamicPayloadsPipe p) a' = .ok (a', .bool e)) ∧
    (∀ e a', docStep (.setAllowAskNoAck e) a = .ok (a', .unit) →
      docStep .getAllowAskNoAck a' = .ok (a', .bool e)) ∧
    (∀ e a', docStep (.setAck e) a = .ok (a', .unit) → docStep .getAck a' = .ok (a', .bool e)) ∧
    (∀ b a', docStep (.setPower b) a = .ok (a', .unit) → docStep .getPower a' = .ok (a', .bool b)) ∧
    (∀ b a', docStep (.setListen b) a = .ok (a', .unit) → docStep .getListen a' = .ok (a', .bool b)) :=
  roundtrip a ha

/-! ### non-vacuity -/

/-- a concrete state satisfying `Inv`: a fresh plus-variant world after `__init__` and `__enter__` -/
def s0 : DrvState := (exec enter (exec init { d := {}, w := World.fresh 2 }).2).2

theorem C03_nonvacuous_inv : Inv s0 := by
  have hshape : RadioShape (DrvState.cfg { d := {}, w := World.fresh 2 }) := by constructor <;> decide
  have h1 := C03_init_inv { d := {}, w := World.fresh 2 } (by unfold DrvState.Wf; decide) hshape
    (by intro e he; cases he) rfl
  exact (reenter_inv _ h1.2.1).2

example : Inv s0 ∧ s0.cfg.rfCh = 76 ∧ s0.cfg.setupRetr = 0x5F ∧ s0.cfg.violations = [] :=
  ⟨C03_nonvacuous_inv, by decide +kernel⟩

/-- hypotheses of `C03_enter_inv` are satisfiable by a state that does *not* satisfy the invariant:
    a fresh object (default shadows) on a chip still holding its reset values -/
example :
    let s : DrvState := { d := { isPlus := true }, w := World.fresh 1 }
    s.Wf ∧ s.d.channel ≠ s.cfg.rfCh ∧ s.d.isPlus = s.cfg.plus ∧ s.cfg.featureVisible = true := by
  unfold DrvState.Wf; decide

/-- hypotheses of `C03_step` / `C03_history` are satisfiable and the conclusion is not trivial:
    a history with accepted, clamped and rejected calls -/
example :
    let cs : List Call := [.setChannel 90, .setArc 99, .setChannel 300, .setPaLevelLna (-12) false,
      .setAutoAckAttr (.l [0, -1, 1]), .openRxPipe 1 [1, 2, 3], .getChannel, .getArc]
    (∀ c ∈ cs, c.dom s0.cfg.plus) ∧
    (docRun cs s0.abs).1 = [.ok .unit, .ok .unit, .error .valueError, .ok .unit, .ok .unit, .ok .unit,
      .ok (.nat 90), .ok (.nat 15)] := by
  decide +kernel

end Nrf.Props.C03
