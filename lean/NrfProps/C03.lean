/-
C03 — setters program the documented encoding; getters agree (statements in progress).
-/
import NrfModel.Rf24

namespace Nrf.Props.C03
open Nrf

/-- placeholder obligation replaced below as the Hoare lemmas land: the initial shadow state of a
    fresh object is in byte range -/
theorem C03_init_shadow_range :
    let d : Rf24 := {}
    d.config < 256 ∧ d.retrySetup < 256 ∧ d.rfSetup < 256 ∧ d.dynPl < 64 ∧ d.aa < 64 := by
  decide

end Nrf.Props.C03
