/-
C03 — setters program the radio with the documented encoding; getters agree.

Spec (what the documentation says each call does, per data-sheet bit field): `NrfModel/Spec/Cfg.lean`
  `Call`      the configuration alphabet with its argument forms (46 constructors)
  `runCall`   the model method (`NrfModel/Rf24.lean`, the transliterated `rf24.py`) a call stands for
  `docStep`   documented effect on the abstract state `CfgSt` = (configuration part of the chip:
              registers + CE + chip variant + the chip's log of reserved/out-of-range writes,
              ghost reading address of pipe 0) and documented result; `.error e` = rejected
  `CfgOk`     every register within its documented range, no reserved bit, nothing reserved or
              out of range ever logged (`LogOk`: `SETUP_AW:illegal:0` — the library documents
              2-byte addresses — and `CE:` entries are not C03's concern)
  `Call.dom`  the explored domain: addresses of at most 5 bytes (explicit hypothesis), carrier
              wave test on the plus variant only
Invariant (`NrfProofs/C03/Base.lean`): `Inv s` = the object's radio exists ∧ `Cached` (every shadow
attribute equals the register it caches: 15 equations) ∧ `CfgOk` ∧ the ghost address is 1..5 bytes.
CE is part of the abstract state (the `listen` setter and the carrier wave test document it); time
is not (`spiStep_cfg`: no configuration register depends on the clock, the FIFOs or the air).
Per-method lemmas: `NrfProofs/C03/*.lean`.
-/
import NrfProofs.C03.History
import NrfProofs.C03.Init
import NrfProofs.C03.Getters

namespace Nrf.Props.C03
open Nrf Rf24 Cfg

/-- **One call.**  For every call `c` of the alphabet with arguments from the whole domain (any
    `Int`, any `bool | int | list | other` argument, any pipe number, any address of ≤ 5 bytes) and
    every state satisfying the invariant — whatever is in the FIFOs, on the air, in the other
    radios, on the clock:
    * the invariant holds again (cache = radio, registers in range, nothing reserved/out of range
      written: the chip's violation log stays clean);
    * if the documentation accepts the call, it returns the documented result and the radio's
      configuration registers (and CE, and the ghost address) are *exactly* the documented encoding;
    * if the documentation rejects it, the documented exception is raised and every register of
      the radio is *equal* to what it was;
    * no register of any other radio changes. -/
theorem C03_step (c : Call) (s : DrvState) (h : Inv s) (hd : c.dom s.cfg.plus) :
    Inv (exec (runCall c) s).2 ∧
    (∀ a' ret, docStep c s.abs = .ok (a', ret) →
      (exec (runCall c) s).1 = .ok ret ∧ (exec (runCall c) s).2.abs = a') ∧
    (∀ e, docStep c s.abs = .error e →
      (exec (runCall c) s).1 = .error e ∧ (exec (runCall c) s).2.abs = s.abs) ∧
    (∀ j, j ≠ s.d.rid → (exec (runCall c) s).2.cfgAt j = s.cfgAt j) :=
  have h1 := stepOk c s h hd
  ⟨h1.inv, h1.ok, h1.err, h1.frame⟩

/-- **Any history.**  After any sequence of calls (no length bound; an exception does not stop the
    history, the object lives on as in Python) from a state satisfying the invariant: the invariant
    holds, the list of results/exceptions is the documented one, the abstract state is the
    documented one (`docRun` folds `docStep`; rejected calls change nothing), other radios are
    untouched. -/
theorem C03_history (cs : List Call) (s : DrvState) (h : Inv s) (hd : ∀ c ∈ cs, c.dom s.cfg.plus) :
    Inv (runCalls cs s).2 ∧
    (runCalls cs s).1 = (docRun cs s.abs).1 ∧
    (runCalls cs s).2.abs = (docRun cs s.abs).2 ∧
    (∀ j, j ≠ s.d.rid → (runCalls cs s).2.cfgAt j = s.cfgAt j) :=
  have h1 := history cs s h hd
  ⟨h1.1, h1.2.1, h1.2.2.1, h1.2.2.2.1⟩

/-- **`__enter__` establishes the invariant** on a chip whose feature registers are accessible
    (nRF24L01+, or a non-plus chip after ACTIVATE), from *any* world: whatever the registers held
    before, for any shadow state in programmable range (`ShadowOk`: what `__init__` and the setters
    leave), provided the chip's address/width registers are well-formed (`RadioShape`) and nothing
    reserved was logged before.  Every configuration register then holds the encoding of the
    object's cached value (`enterCfg`) — which is also the register-level half of C09. -/
theorem C03_enter_inv (s : DrvState) (hw : s.Wf) (hs : ShadowOk s.d) (hr : RadioShape s.cfg)
    (hvis : s.cfg.featureVisible = true) (hplus : s.d.isPlus = s.cfg.plus) (hlog : LogOk s.cfg.violations) :
    (exec enter s).1 = .ok () ∧ Inv (exec enter s).2 ∧
    (exec enter s).2.cfg = enterCfg s.d s.cfg ∧
    (∀ j, j ≠ s.d.rid → (exec enter s).2.cfgAt j = s.cfgAt j) :=
  enter_inv s hw hs hr hvis hplus hlog

/-- **`__init__` establishes the invariant** on a plus-variant chip in any well-formed state (any
    register contents, FIFOs, flags): the constructor succeeds, detects the variant, and leaves
    cache = radio with every register in range. -/
theorem C03_init_inv (s : DrvState) (hw : s.Wf) (hr : RadioShape s.cfg) (hplus : s.cfg.plus = true)
    (hlog : LogOk s.cfg.violations) (hd : s.d.config = 0x0E) :
    (exec init s).1 = .ok () ∧ Inv (exec init s).2 ∧
    (∀ j, j ≠ s.d.rid → (exec init s).2.cfgAt j = s.cfgAt j) :=
  init_inv s hw hr hplus hlog hd

/-- **Getters agree with setters.**  For every attribute field `f` (`Field`: channel, data rate, PA
    level, LNA, CRC bits, address length, ARD, ARC, auto-ack mask, dynamic-payload mask, the six
    payload lengths, ACK payloads, ask-no-ack, the three IRQ masks, power, role, pipe mask, the
    addresses): a call that does not own `f` (`owns`) leaves the value `obs f` unchanged, so after
    a setter and any sequence of calls that do not own the field the getter still returns the
    clamped value that setter established.  (`getter_after_setter` instances below.) -/
theorem C03_getter_agrees (f : Field) (cs : List Call) (a : CfgSt) (ha : CfgOk a.r) (hu : P0Ok a.user0)
    (hd : ∀ c ∈ cs, c.dom a.r.plus) (hown : ∀ c ∈ cs, owns c f = false) :
    obs f (docRun cs a).2.r = obs f a.r :=
  obs_docRun f cs a ha hu hd hown

/-- … on the model: the register-level value of a field after any sequence of calls that do not own
    it is the one it had; with `C03_step` for the setter before and the getter after this is the
    round trip through the real driver code. -/
theorem C03_getter_agrees_model (f : Field) (cs : List Call) (s : DrvState) (h : Inv s)
    (hd : ∀ c ∈ cs, c.dom s.cfg.plus) (hown : ∀ c ∈ cs, owns c f = false) :
    obs f (runCalls cs s).2.cfg = obs f s.cfg := by
  have h1 := (history cs s h hd).2.2.1
  have h2 := obs_docRun f cs s.abs h.ok h.user0 hd hown
  have : (runCalls cs s).2.cfg = (docRun cs s.abs).2.r := by
    have := congrArg CfgSt.r h1
    exact this
  rw [this]; exact h2

/-- the values the setters establish, read back by the getters (documented clamping) -/
theorem C03_roundtrip (a : CfgSt) (ha : CfgOk a.r) :
    (∀ ch, 0 ≤ ch ∧ ch ≤ 125 → ∀ a', docStep (.setChannel ch) a = .ok (a', .unit) →
      docStep .getChannel a' = .ok (a', .nat ch.toNat)) ∧
    (∀ n a', docStep (.setArc n) a = .ok (a', .unit) →
      docStep .getArc a' = .ok (a', .nat (clampI 0 15 n))) ∧
    (∀ d a', docStep (.setArd d) a = .ok (a', .unit) →
      docStep .getArd a' = .ok (a', .nat ((clampI 250 4000 d - 250) / 250 * 250 + 250))) ∧
    (∀ d n a', docStep (.setAutoRetries d n) a = .ok (a', .unit) →
      docStep .getAutoRetries a' =
        .ok (a', .pair ((clampI 250 4000 d - 250) / 250 * 250 + 250) (clampI 0 15 n))) ∧
    (∀ v, v = 1 ∨ v = 2 ∨ v = 250 → ∀ a', docStep (.setDataRate v) a = .ok (a', .unit) →
      docStep .getDataRate a' = .ok (a', .nat v.toNat)) ∧
    (∀ v l, paLegal v → ∀ a', docStep (.setPaLevelLna v l) a = .ok (a', .unit) →
      docStep .getPaLevel a' = .ok (a', .int v) ∧ docStep .isLnaEnabled a' = .ok (a', .bool l)) ∧
    (∀ n a', docStep (.setCrc n) a = .ok (a', .unit) →
      docStep .getCrc a' = .ok (a', .nat (if a.r.enAA = 0 then clampI 0 2 n else max 1 (clampI 0 2 n)))) ∧
    (∀ n a', docStep (.setAddressLength n) a = .ok (a', .unit) →
      docStep .getAddressLength a' = .ok (a', .nat (if 3 ≤ n ∧ n ≤ 5 then n.toNat else 2))) ∧
    (∀ l p, pipeOk p → ∀ a', docStep (.setPayloadLength l (some p)) a = .ok (a', .unit) →
      docStep (.getPayloadLength p) a' = .ok (a', .nat (clampI 1 32 l))) ∧
    (∀ e p, pipeOk p → ∀ a', docStep (.setAutoAck e (some p)) a = .ok (a', .unit) →
      docStep (.getAutoAckPipe p) a' = .ok (a', .bool e)) ∧
    (∀ e p, pipeOk p → ∀ a', docStep (.setDynamicPayloads e (some p)) a = .ok (a', .unit) →
      docStep (.getDynamicPayloadsPipe p) a' = .ok (a', .bool e)) ∧
    (∀ e a', docStep (.setAllowAskNoAck e) a = .ok (a', .unit) →
      docStep .getAllowAskNoAck a' = .ok (a', .bool e)) ∧
    (∀ e a', docStep (.setAck e) a = .ok (a', .unit) → docStep .getAck a' = .ok (a', .bool e)) ∧
    (∀ b a', docStep (.setPower b) a = .ok (a', .unit) → docStep .getPower a' = .ok (a', .bool b)) ∧
    (∀ b a', docStep (.setListen b) a = .ok (a', .unit) → docStep .getListen a' = .ok (a', .bool b)) :=
  roundtrip a ha

/-! ### non-vacuity -/

/-- a concrete state satisfying `Inv`: a fresh plus-variant world after `__init__` and `__enter__` -/
def s0 : DrvState := (exec enter (exec init { d := {}, w := World.fresh 2 }).2).2

theorem C03_nonvacuous_inv : Inv s0 := by
  have hshape : RadioShape (DrvState.cfg { d := {}, w := World.fresh 2 }) := by constructor <;> decide
  have h1 := C03_init_inv { d := {}, w := World.fresh 2 } (by unfold DrvState.Wf; decide) hshape rfl
    (by intro e he; cases he) rfl
  exact (reenter_inv _ h1.2.1).2

example : Inv s0 ∧ s0.cfg.rfCh = 76 ∧ s0.cfg.setupRetr = 0x5F ∧ s0.cfg.violations = [] :=
  ⟨C03_nonvacuous_inv, by decide +kernel⟩

/-- hypotheses of `C03_enter_inv` are satisfiable by a state that does *not* satisfy the invariant:
    a fresh object (default shadows) on a chip still holding its reset values -/
example :
    let s : DrvState := { d := { isPlus := true }, w := World.fresh 1 }
    s.Wf ∧ s.d.channel ≠ s.cfg.rfCh ∧ s.d.isPlus = s.cfg.plus ∧ s.cfg.featureVisible = true := by
  unfold DrvState.Wf; decide

/-- hypotheses of `C03_step` / `C03_history` are satisfiable and the conclusion is not trivial:
    a history with accepted, clamped and rejected calls -/
example :
    let cs : List Call := [.setChannel 90, .setArc 99, .setChannel 300, .setPaLevelLna (-12) false,
      .setAutoAckAttr (.l [0, -1, 1]), .openRxPipe 1 [1, 2, 3], .getChannel, .getArc]
    (∀ c ∈ cs, c.dom s0.cfg.plus) ∧
    (docRun cs s0.abs).1 = [.ok .unit, .ok .unit, .error .valueError, .ok .unit, .ok .unit, .ok .unit,
      .ok (.nat 90), .ok (.nat 15)] := by
  decide +kernel

end Nrf.Props.C03
