/-
C03 — setters program the radio with the documented encoding; getters agree.

Spec (what the documentation says each call does, per data-sheet bit field): `NrfModel/Spec/Cfg.lean`
  `Call`      the configuration alphabet with its argument forms (46 constructors)
  `runCall`   the model method (`NrfModel/Rf24.lean`, the transliterated `rf24.py`) a call stands for
  `docStep`   documented effect on the abstract state `CfgSt` = (configuration part of the chip:
              registers + CE + chip variant + the chip's log of reserved/out-of-range writes,
              ghost reading address of pipe 0) and documented result; `.error e` = rejected
  `CfgOk`     every register within its documented range, no reserved bit, nothing reserved or
              out of range ever logged — WITH AN EXCEPTION built into `LogOk`: the entry
              `SETUP_AW:illegal:0` is exempt (`address_length = 2`, and every value outside 3..5 such
              as 9, makes the driver WRITE SETUP_AW = 0, a value the data sheet calls illegal; the
              library documents 2-byte addresses), and `CE:` entries are not C03's concern.  So "no
              reserved / out-of-range write" is proved for everything EXCEPT SETUP_AW = 0.
  `Call.dom`  the explored domain: addresses of at most 5 bytes (explicit hypothesis), carrier
              wave test on the plus variant only
Invariant (`NrfProofs/C03/Base.lean`): `Inv s` = the object's radio exists ∧ `Cached` (every shadow
attribute equals the register it caches: 15 equations) ∧ `CfgOk` ∧ the ghost address is 1..5 bytes.
CE is part of the abstract state (the `listen` setter and the carrier wave test document it); time
is not (`spiStep_cfg`: no configuration register depends on the clock, the FIFOs or the air).
Per-method lemmas: `NrfProofs/C03/*.lean`.

Getter RETURN VALUES (review item): `getterDoc` writes down, per getter of the alphabet (21), the
documented decoding of the registers; `C03_getter_returns`: after any history the value the real
getter code returns is `getterDoc` of the radio's registers, and the getter (shadow-reading or
SPI-reading) leaves the abstract state equal; `reads` / `C03_getter_reads` / `C03_getter_stable`: a getter
keeps returning the same value across any calls that own none of the fields it reads (for `crc`:
CRC bits and auto-ack mask).  All of this is, like the rest of C03, about the configuration part
`cfgOf` of the chip.
-/
import NrfProofs.C03.History
import NrfProofs.C03.Init
import NrfProofs.C03.Getters

namespace Nrf.Props.C03
open Nrf Rf24 Cfg

/-- **One call.**  For every call `c` of the alphabet with arguments from the whole domain (any
    `Int`, any `bool | int | list | other` argument, any pipe number, any address of ≤ 5 bytes) and
    every state satisfying the invariant — whatever is in the FIFOs, on the air, in the other
    radios, on the clock:
    * the invariant holds again (cache = radio, registers in range, nothing reserved/out of range
      written: the chip's violation log stays clean);
    * if the documentation accepts the call, it returns the documented result and the radio's
      configuration registers (and CE, and the ghost address) are *exactly* the documented encoding;
    * if the documentation rejects it, the documented exception is raised and every register of
      the radio is *equal* to what it was;
    * no register of any other radio changes. -/
theorem C03_step (c : Call) (s : DrvState) (h : Inv s) (hd : c.dom s.cfg.plus) :
    Inv (exec (runCall c) s).2 ∧
    (∀ a' ret, docStep c s.abs = .ok (a', ret) →
      (exec (runCall c) s).1 = .ok ret ∧ (exec (runCall c) s).2.abs = a') ∧
    (∀ e, docStep c s.abs = .error e →
      (exec (runCall c) s).1 = .error e ∧ (exec (runCall c) s).2.abs = s.abs) ∧
    (∀ j, j ≠ s.d.rid → (exec (runCall c) s).2.cfgAt j = s.cfgAt j) :=
  have h1 := stepOk c s h hd
  ⟨h1.inv, h1.ok, h1.err, h1.frame⟩

/-- **Any history.**  After any sequence of calls (no length bound; an exception does not stop the
    history, the object lives on as in Python) from a state satisfying the invariant: the invariant
    holds, the list of results/exceptions is the documented one, the abstract state is the
    documented one (`docRun` folds `docStep`; rejected calls change nothing), other radios are
    untouched. -/
theorem C03_history (cs : List Call) (s : DrvState) (h : Inv s) (hd : ∀ c ∈ cs, c.dom s.cfg.plus) :
    Inv (runCalls cs s).2 ∧
    (runCalls cs s).1 = (docRun cs s.abs).1 ∧
    (runCalls cs s).2.abs = (docRun cs s.abs).2 ∧
    (∀ j, j ≠ s.d.rid → (runCalls cs s).2.cfgAt j = s.cfgAt j) :=
  have h1 := history cs s h hd
  ⟨h1.1, h1.2.1, h1.2.2.1, h1.2.2.2.1⟩

/-- **`__enter__` establishes the invariant** on a chip whose feature registers are accessible
    (nRF24L01+, or a non-plus chip after ACTIVATE), from *any* world: whatever the registers held
    before, for any shadow state in programmable range (`ShadowOk`: what `__init__` and the setters
    leave), provided the chip's address/width registers are well-formed (`RadioShape`) and nothing
    reserved was logged before.  Every configuration register then holds the encoding of the
    object's cached value (`enterCfg`) — which is also the register-level half of C09. -/
theorem C03_enter_inv (s : DrvState) (hw : s.Wf) (hs : ShadowOk s.d) (hr : RadioShape s.cfg)
    (hvis : s.cfg.featureVisible = true) (hplus : s.d.isPlus = s.cfg.plus) (hlog : LogOk s.cfg.violations) :
    (exec enter s).1 = .ok () ∧ Inv (exec enter s).2 ∧
    (exec enter s).2.cfg = enterCfg s.d s.cfg ∧
    (∀ j, j ≠ s.d.rid → (exec enter s).2.cfgAt j = s.cfgAt j) :=
  enter_inv s hw hs hr hvis hplus hlog

/-- **`__init__` establishes the invariant** on ANY chip — nRF24L01+ or the non-plus nRF24L01,
    feature registers locked or unlocked — in any well-formed state (any register contents, FIFOs,
    flags): the constructor succeeds, detects the variant (`Inv.cached.isPlus`), leaves the feature
    registers accessible (`Inv.ok.vis`) and cache = radio with every register in range.
    (Before the repair 17d8151 this held on plus chips only: hypothesis `s.cfg.plus = true`.) -/
theorem C03_init_inv (s : DrvState) (hw : s.Wf) (hr : RadioShape s.cfg)
    (hlog : LogOk s.cfg.violations) (hd : s.d.config = 0x0E) :
    (exec init s).1 = .ok () ∧ Inv (exec init s).2 ∧
    (∀ j, j ≠ s.d.rid → (exec init s).2.cfgAt j = s.cfgAt j) :=
  init_inv s hw hr hlog hd

/-- **`__init__` detects the chip variant and unlocks the feature registers** (closes the known
    findings K2 and K1).  For EVERY world and every prior state of the object's radio — plus or
    non-plus (`plus`), feature registers accessible or not (`activated`), ANY content of FEATURE,
    DYNPD and every other register (`RadioShape`: the address / width registers have their hardware
    shape, a typing condition on the chip model, not a restriction of its state), anything in the
    FIFOs, on the air, in the chip's violation log — on an object with the constructor's CONFIG
    shadow: `RF24.__init__` returns normally; `_is_plus_variant` equals the chip's variant; the chip's
    variant is what it was; the chip's FEATURE/DYNPD registers are accessible when it returns (so the
    writes of every later `__enter__` take effect); every shadow equals its register; no other
    radio's configuration is touched. -/
theorem C03_init_detects_variant (s : DrvState) (hw : s.Wf) (hr : RadioShape s.cfg) (hd : s.d.config = 0x0E) :
    let out := exec init s
    out.1 = .ok () ∧
    out.2.d.isPlus = (s.w.radio s.d.rid).plus ∧
    (out.2.w.radio s.d.rid).plus = (s.w.radio s.d.rid).plus ∧
    (out.2.w.radio s.d.rid).featureVisible = true ∧
    Cached out.2.d out.2.cfg ∧ out.2.d.rid = s.d.rid ∧
    (∀ j, j ≠ s.d.rid → out.2.cfgAt j = s.cfgAt j) := by
  intro out
  obtain ⟨c, hpost, hplus, hvis, _⟩ := init_post s hw hr hd
  have hcfg : out.2.cfg = c := hpost.cfg
  have hrad : (out.2.w.radio s.d.rid).cfgOf = c := by
    have := hcfg
    unfold DrvState.cfg at this
    rw [hpost.rid] at this
    exact this
  refine ⟨hpost.res, ?_, ?_, ?_, hcfg ▸ hpost.cached, hpost.rid, hpost.frame⟩
  · exact hpost.cached.isPlus.trans hplus
  · show (out.2.w.radio s.d.rid).cfgOf.plus = _
    rw [hrad]; exact hplus
  · show (out.2.w.radio s.d.rid).cfgOf.featureVisible = true
    rw [hrad]; exact hvis

/-- the situation of K1 / K2: a non-plus chip whose FEATURE register holds 0 with the feature
    registers unlocked (what a `FakeBLE` object leaves behind), and — the reset state — locked -/
def nonplusWorld (activated : Bool) : DrvState :=
  { d := {}, w := { World.fresh 1 false with radios := [{ plus := false, activated := activated, feature := 0 }] } }

example : ∀ a, (nonplusWorld a).Wf ∧ RadioShape (nonplusWorld a).cfg ∧ (nonplusWorld a).d.config = 0x0E ∧
    (nonplusWorld a).cfg.plus = false ∧ (nonplusWorld a).cfg.feature = 0 ∧ (nonplusWorld a).cfg.activated = a := by
  intro a
  cases a <;> exact ⟨by unfold DrvState.Wf; decide, by constructor <;> decide, rfl, rfl, rfl, rfl⟩

/-- … and what the constructor makes of it: non-plus detected, registers unlocked and programmed -/
example : ∀ a, (exec init (nonplusWorld a)).1 = .ok () ∧ (exec init (nonplusWorld a)).2.d.isPlus = false ∧
    (exec init (nonplusWorld a)).2.cfg.activated = true ∧ (exec init (nonplusWorld a)).2.cfg.feature = 5 ∧
    (exec init (nonplusWorld a)).2.cfg.dynpd = 0x3F := by
  decide +kernel

/-- **Histories on a freshly constructed object, any chip.**  `C03_history` for the state `__init__`
    leaves, without the hypothesis that the object knows its variant (`Inv`): for every chip as in
    `C03_init_detects_variant` whose log is clean, after `__init__` and any sequence of calls the
    invariant holds, results and registers are the documented ones (`docRun` from the abstract state
    `__init__` left) — in particular `is_plus_variant` returns the chip's variant, and the domain of
    the carrier-wave calls is decided by the chip's real variant. -/
theorem C03_init_history (cs : List Call) (s : DrvState) (hw : s.Wf) (hr : RadioShape s.cfg)
    (hlog : LogOk s.cfg.violations) (hd : s.d.config = 0x0E) (hdom : ∀ c ∈ cs, c.dom (s.w.radio s.d.rid).plus) :
    let s1 := (exec init s).2
    (exec init s).1 = .ok () ∧ Inv s1 ∧ s1.abs.r.plus = (s.w.radio s.d.rid).plus ∧
    Inv (runCalls cs s1).2 ∧
    (runCalls cs s1).1 = (docRun cs s1.abs).1 ∧
    (runCalls cs s1).2.abs = (docRun cs s1.abs).2 ∧
    (∀ j, j ≠ s.d.rid → (runCalls cs s1).2.cfgAt j = s.cfgAt j) := by
  intro s1
  obtain ⟨h1, h2, h3⟩ := C03_init_inv s hw hr hlog hd
  obtain ⟨c, hpost, hplus, _, _⟩ := init_post s hw hr hd
  have hp1 : s1.cfg.plus = (s.w.radio s.d.rid).plus := by
    have : s1.cfg = c := hpost.cfg
    rw [this]; exact hplus
  obtain ⟨k1, k2, k3, k4⟩ := C03_history cs s1 h2 (by intro c hc; rw [hp1]; exact hdom c hc)
  refine ⟨h1, h2, hp1, k1, k2, k3, fun j hj => ?_⟩
  rw [k4 j (by rw [show s1.d.rid = s.d.rid from hpost.rid]; exact hj)]
  exact h3 j hj

/-- `is_plus_variant` on a freshly constructed object returns the chip's variant (K2) -/
theorem C03_init_is_plus_variant (s : DrvState) (hw : s.Wf) (hr : RadioShape s.cfg)
    (hlog : LogOk s.cfg.violations) (hd : s.d.config = 0x0E) :
    (exec (runCall .isPlusVariant) (exec init s).2).1 = .ok (.bool (s.w.radio s.d.rid).plus) := by
  obtain ⟨_, h2, h3, _, k2, _, _⟩ := C03_init_history [.isPlusVariant] s hw hr hlog hd
    (by intro c hc; simp only [List.mem_cons, List.not_mem_nil, or_false] at hc; subst hc; trivial)
  have hstep := (C03_step .isPlusVariant (exec init s).2 h2 trivial).2.1
  have := hstep (exec init s).2.abs (.bool (exec init s).2.abs.r.plus) rfl
  rw [this.1, h3]

example : ∃ s : DrvState, s.Wf ∧ RadioShape s.cfg ∧ LogOk s.cfg.violations ∧ s.d.config = 0x0E ∧
    (s.w.radio s.d.rid).plus = false ∧ (s.w.radio s.d.rid).featureVisible = false :=
  ⟨nonplusWorld false, by unfold DrvState.Wf; decide, by constructor <;> decide, (by intro e he; cases he), rfl, rfl, rfl⟩

/-- **Field non-interference** (named "getters agree with setters"; what is proved is about the raw
    register FIELDS `obs f`, not about getter return values: getters that read several fields —
    `crc`, `ack`, `listen` — can change their answer when another field's owner is called, e.g.
    `set_auto_ack(True)` changes what `crc` returns although it does not own `crcBits`.  The immediate
    set→get round trip for 15 attributes is `C03_roundtrip`, on the documented encoder `docStep`.)
    For every attribute field `f` (`Field`: channel, data rate, PA
    level, LNA, CRC bits, address length, ARD, ARC, auto-ack mask, dynamic-payload mask, the six
    payload lengths, ACK payloads, ask-no-ack, the three IRQ masks, power, role, pipe mask, the
    addresses): a call that does not own `f` (`owns`) leaves the value `obs f` unchanged, so after
    a setter and any sequence of calls that do not own the field the FIELD still holds the
    clamped value that setter established (no lemma composes this with a getter call). -/
theorem C03_getter_agrees (f : Field) (cs : List Call) (a : CfgSt) (ha : CfgOk a.r) (hu : P0Ok a.user0)
    (hd : ∀ c ∈ cs, c.dom a.r.plus) (hown : ∀ c ∈ cs, owns c f = false) :
    obs f (docRun cs a).2.r = obs f a.r :=
  obs_docRun f cs a ha hu hd hown

/-- … on the model: the register-level value of a field after any sequence of calls that do not own
    it is the one it had; with `C03_step` for the setter before and the getter after this is the
    round trip through the real driver code. -/
theorem C03_getter_agrees_model (f : Field) (cs : List Call) (s : DrvState) (h : Inv s)
    (hd : ∀ c ∈ cs, c.dom s.cfg.plus) (hown : ∀ c ∈ cs, owns c f = false) :
    obs f (runCalls cs s).2.cfg = obs f s.cfg := by
  have h1 := (history cs s h hd).2.2.1
  have h2 := obs_docRun f cs s.abs h.ok h.user0 hd hown
  have : (runCalls cs s).2.cfg = (docRun cs s.abs).2.r := by
    have := congrArg CfgSt.r h1
    exact this
  rw [this]; exact h2

/-- the values the setters establish, read back by the getters (documented clamping) -/
theorem C03_roundtrip (a : CfgSt) (ha : CfgOk a.r) :
    (∀ ch, 0 ≤ ch ∧ ch ≤ 125 → ∀ a', docStep (.setChannel ch) a = .ok (a', .unit) →
      docStep .getChannel a' = .ok (a', .nat ch.toNat)) ∧
    (∀ n a', docStep (.setArc n) a = .ok (a', .unit) →
      docStep .getArc a' = .ok (a', .nat (clampI 0 15 n))) ∧
    (∀ d a', docStep (.setArd d) a = .ok (a', .unit) →
      docStep .getArd a' = .ok (a', .nat ((clampI 250 4000 d - 250) / 250 * 250 + 250))) ∧
    (∀ d n a', docStep (.setAutoRetries d n) a = .ok (a', .unit) →
      docStep .getAutoRetries a' =
        .ok (a', .pair ((clampI 250 4000 d - 250) / 250 * 250 + 250) (clampI 0 15 n))) ∧
    (∀ v, v = 1 ∨ v = 2 ∨ v = 250 → ∀ a', docStep (.setDataRate v) a = .ok (a', .unit) →
      docStep .getDataRate a' = .ok (a', .nat v.toNat)) ∧
    (∀ v l, paLegal v → ∀ a', docStep (.setPaLevelLna v l) a = .ok (a', .unit) →
      docStep .getPaLevel a' = .ok (a', .int v) ∧ docStep .isLnaEnabled a' = .ok (a', .bool l)) ∧
    (∀ n a', docStep (.setCrc n) a = .ok (a', .unit) →
      docStep .getCrc a' = .ok (a', .nat (if a.r.enAA = 0 then clampI 0 2 n else max 1 (clampI 0 2 n)))) ∧
    (∀ n a', docStep (.setAddressLength n) a = .ok (a', .unit) →
      docStep .getAddressLength a' = .ok (a', .nat (if 3 ≤ n ∧ n ≤ 5 then n.toNat else 2))) ∧
    (∀ l p, pipeOk p → ∀ a', docStep (.setPayloadLength l (some p)) a = .ok (a', .unit) →
      docStep (.getPayloadLength p) a' = .ok (a', .nat (clampI 1 32 l))) ∧
    (∀ e p, pipeOk p → ∀ a', docStep (.setAutoAck e (some p)) a = .ok (a', .unit) →
      docStep (.getAutoAckPipe p) a' = .ok (a', .bool e)) ∧
    (∀ e p, pipeOk p → ∀ a', docStep (.setDynamicPayloads e (some p)) a = .ok (a', .unit) →
      docStep (.getDynamicPayloadsPipe p) a' = .ok (a', .bool e)) ∧
    (∀ e a', docStep (.setAllowAskNoAck e) a = .ok (a', .unit) →
      docStep .getAllowAskNoAck a' = .ok (a', .bool e)) ∧
    (∀ e a', docStep (.setAck e) a = .ok (a', .unit) → docStep .getAck a' = .ok (a', .bool e)) ∧
    (∀ b a', docStep (.setPower b) a = .ok (a', .unit) → docStep .getPower a' = .ok (a', .bool b)) ∧
    (∀ b a', docStep (.setListen b) a = .ok (a', .unit) → docStep .getListen a' = .ok (a', .bool b)) :=
  roundtrip a ha

/-! ### getter RETURN VALUES after any history (review item: `C03_getter_agrees` is about fields) -/

/-- **The documented decoding of the radio's configuration registers `r` by each getter of the
    alphabet** (data-sheet bit fields, written here explicitly and not via `docStep`): what the
    documentation says the getter returns when the registers hold `r`.  `none`: the call is not a
    getter.  The 21 getters: `channel`, `data_rate`, `pa_level`, `is_lna_enabled`, `crc`,
    `address_length`, `ard`, `arc`, `get_auto_retries()`, `auto_ack`, `get_auto_ack(p)`,
    `dynamic_payloads`, `get_dynamic_payloads(p)`, `payload_length`, `get_payload_length(p)`, `ack`,
    `allow_ask_no_ack`, `power`, `listen`, `address(i)`, `is_plus_variant`. -/
def getterDoc (r : Radio) : Call → Option (Except PyErr Ret)
  | .getChannel => some (.ok (.nat r.rfCh))                                    -- RF_CH
  | .getDataRate => some (.ok (.nat (rateOf r.rfSetup)))                       -- RF_SETUP bits 5, 3
  | .getPaLevel => some (.ok (.int ((field r.rfSetup 1 2 : Int) * 6 - 18)))    -- RF_SETUP bits 2:1
  | .isLnaEnabled => some (.ok (.bool (bitOf r.rfSetup 0)))                    -- RF_SETUP bit 0
  | .getCrc =>                                                                 -- CONFIG bits 3, 2; EN_AA forces CRC
    some (.ok (.nat (if r.enAA ≠ 0 ∨ bitOf r.config 3 then (if bitOf r.config 2 then 2 else 1) else 0)))
  | .getAddressLength => some (.ok (.nat (r.setupAw + 2)))                     -- SETUP_AW
  | .getArd => some (.ok (.nat (field r.setupRetr 4 4 * 250 + 250)))           -- SETUP_RETR bits 7:4
  | .getArc => some (.ok (.nat (field r.setupRetr 0 4)))                       -- SETUP_RETR bits 3:0
  | .getAutoRetries => some (.ok (.pair (field r.setupRetr 4 4 * 250 + 250) (field r.setupRetr 0 4)))
  | .getAutoAck => some (.ok (.nat r.enAA))                                    -- EN_AA
  | .getAutoAckPipe p => some (if pipeOk p then .ok (.bool (bitOf r.enAA p.toNat)) else .error .indexError)
  | .getDynamicPayloads => some (.ok (.nat r.dynpd))                           -- DYNPD
  | .getDynamicPayloadsPipe p =>
    some (if pipeOk p then .ok (.bool (bitOf r.dynpd p.toNat)) else .error .indexError)
  | .getPayloadLengthAttr => some (.ok (.nat (r.rxPw.getD 0 0)))               -- RX_PW_P0
  | .getPayloadLength p =>                                                     -- RX_PW_Pp
    some (if pipeOk p then .ok (.nat (r.rxPw.getD p.toNat 0)) else .error .indexError)
  | .getAck =>                                                                 -- FEATURE bits 1, 2; pipe 0
    some (.ok (.bool (bitOf r.feature 1 && bitOf r.feature 2 && bitOf r.enAA 0 && bitOf r.dynpd 0)))
  | .getAllowAskNoAck => some (.ok (.bool (bitOf r.feature 0)))                -- FEATURE bit 0
  | .getPower => some (.ok (.bool (bitOf r.config 1)))                         -- CONFIG bit 1
  | .getListen => some (.ok (.bool (bitOf r.config 1 && bitOf r.config 0)))    -- CONFIG bits 1, 0
  | .address i =>
    some (if i > 5 then .error .indexError else if i < 0 then .ok (.bytes r.txAddr)
          else .ok (.bytes (pipeAddr r i.toNat)))
  | .isPlusVariant => some (.ok (.bool r.plus))
  | _ => none

/-- `getterDoc` is what `docStep` documents for the getters: the result, and **no change of the
    abstract state**; getters are in the domain on every chip -/
theorem C03_getterDoc_docStep (g : Call) (a : CfgSt) (v : Except PyErr Ret) (h : getterDoc a.r g = some v) :
    g.dom a.r.plus ∧
    (∀ ret, v = .ok ret → docStep g a = .ok (a, ret)) ∧ (∀ e, v = .error e → docStep g a = .error e) := by
  cases g <;> simp only [getterDoc, Option.some.injEq, reduceCtorEq] at h <;> subst h <;>
    refine ⟨trivial, ?_, ?_⟩ <;> intro x hx <;> simp only [docStep, paOf, crcOf, ardOf, arcOf, ackOf] at hx ⊢ <;>
    first
      | (cases hx <;> rfl)
      | (split at hx <;> first | (cases hx <;> simp only [*, ↓reduceIte]; done) |
          (split at hx <;> (cases hx <;> simp only [*, ↓reduceIte]; done)))

/-- **C03, getter return values after any history.**  From any state satisfying the invariant (e.g.
    the one `__init__` leaves on any chip, `C03_init_inv`), after ANY sequence `cs` of calls of the
    46-call alphabet (no length bound, rejected calls included), for EVERY getter `g` of the alphabet
    (the 21 for which `getterDoc` is defined — shadow-reading ones like `channel` and SPI-reading
    ones like `crc`, `ack`, `listen`, `power`, `data_rate`, `pa_level`, `is_lna_enabled`, `arc`, `ard`,
    `address_length`, `get_payload_length`, `address`):
    * the value (or documented `IndexError`) the getter **returns** is `getterDoc` of the
      configuration registers the radio holds at that moment — which are the documented ones
      `(docRun cs s.abs).2.r`;
    * the getter call leaves the abstract state — every configuration register of the chip, CE, the
      chip variant, the violation log, the ghost pipe-0 address — **equal** to what it was, keeps the
      invariant (so every shadow still equals its register) and touches no other radio.
    Scope: configuration registers as `cfgOf` sees them (STATUS flags / FIFOs / OBSERVE_TX are not
    part of `abs`, as everywhere in C03). -/
theorem C03_getter_returns (g : Call) (cs : List Call) (s : DrvState) (h : Inv s)
    (hd : ∀ c ∈ cs, c.dom s.cfg.plus) :
    let s' := (runCalls cs s).2
    s'.cfg = (docRun cs s.abs).2.r ∧
    ∀ v, getterDoc s'.cfg g = some v →
      (exec (runCall g) s').1 = v ∧ (exec (runCall g) s').2.abs = s'.abs ∧
      Inv (exec (runCall g) s').2 ∧ (∀ j, j ≠ s.d.rid → (exec (runCall g) s').2.cfgAt j = s.cfgAt j) := by
  intro s'
  obtain ⟨k1, _, k3, k4⟩ := C03_history cs s h hd
  have hrid : s'.d.rid = s.d.rid := (history cs s h hd).2.2.2.2
  refine ⟨congrArg CfgSt.r k3, ?_⟩
  intro v hv
  obtain ⟨hdom, hok, herr⟩ := C03_getterDoc_docStep g s'.abs v hv
  obtain ⟨s1, s2, s3, s4⟩ := C03_step g s' k1 hdom
  have hfr : ∀ j, j ≠ s.d.rid → (exec (runCall g) s').2.cfgAt j = s.cfgAt j := by
    intro j hj
    rw [s4 j (by rw [hrid]; exact hj)]
    exact k4 j hj
  cases v with
  | ok ret => exact ⟨(s2 _ _ (hok ret rfl)).1, (s2 _ _ (hok ret rfl)).2, s1, hfr⟩
  | error e => exact ⟨(s3 _ (herr e rfl)).1, (s3 _ (herr e rfl)).2, s1, hfr⟩

/-- the fields (`Field`, `obs`) a getter's documented value is computed from.  `crc` reads the CRC bits
    AND the auto-ack mask, `listen` reads PWR_UP and PRIM_RX, `ack` reads four fields — which is why
    a call that does not own `crcBits` can change what `crc` returns. -/
def reads : Call → List Field
  | .getChannel => [.channel]
  | .getDataRate => [.dataRate]
  | .getPaLevel => [.paLevel]
  | .isLnaEnabled => [.lna]
  | .getCrc => [.crcBits, .autoAck]
  | .getAddressLength => [.addressLength]
  | .getArd => [.ard]
  | .getArc => [.arc]
  | .getAutoRetries => [.ard, .arc]
  | .getAutoAck => [.autoAck]
  | .getAutoAckPipe _ => [.autoAck]
  | .getDynamicPayloads => [.dynamicPayloads]
  | .getDynamicPayloadsPipe _ => [.dynamicPayloads]
  | .getPayloadLengthAttr => [.payloadLengths]
  | .getPayloadLength _ => [.payloadLengths]
  | .getAck => [.ackPayloads, .enDpl, .autoAck, .dynamicPayloads]
  | .getAllowAskNoAck => [.askNoAck]
  | .getPower => [.power]
  | .getListen => [.power, .role]
  | .address _ => [.txAddr, .rxAddr0, .rxAddr1, .rxAddrN]
  | _ => []

theorem C03_crc_bits : ∀ x, x < 128 → ∀ y, y < 128 → field x 2 2 = field y 2 2 →
    bitOf x 3 = bitOf y 3 ∧ bitOf x 2 = bitOf y 2 := by decide +kernel

/-- a getter's documented value depends only on the fields it `reads` (and, for `is_plus_variant`,
    on the chip variant) -/
theorem C03_getter_reads (g : Call) (r r' : Radio) (hr : CfgOk r) (hr' : CfgOk r') (hplus : r.plus = r'.plus)
    (h : ∀ f ∈ reads g, obs f r = obs f r') : getterDoc r g = getterDoc r' g := by
  cases g
  case getCrc =>
    simp only [reads, List.mem_cons, List.not_mem_nil, or_false, forall_eq_or_imp, forall_eq, obs,
      List.cons.injEq, and_true] at h
    have := C03_crc_bits _ hr.config _ hr'.config h.1
    simp only [getterDoc, this.1, this.2, h.2]
  all_goals
    simp only [reads, List.mem_cons, List.not_mem_nil, or_false, forall_eq_or_imp, forall_eq, obs,
      List.cons.injEq, and_true] at h <;> simp only [getterDoc, pipeAddr, bitOf, *]

/-- **C03, "a getter keeps returning the value last set".**  On the model, from any state with the
    invariant: if no call of the history `cs` owns a field the getter `g` READS (`reads g` — for `crc`
    that excludes the auto-ack setters too, for `listen` also `power` and the carrier-wave calls),
    then `g` called after the history returns exactly what `g` called before it would have returned.
    With `C03_step` for a setter just before (`C03_roundtrip`: the getter right after the setter
    returns the documented clamped value) this is "each getter returns the clamped value last set,
    whatever unrelated calls came in between" — about RETURN VALUES of the real getter code, not
    about raw fields. -/
theorem C03_getter_stable (g : Call) (cs : List Call) (s : DrvState) (h : Inv s)
    (hd : ∀ c ∈ cs, c.dom s.cfg.plus) (hg : (getterDoc s.cfg g).isSome = true)
    (hown : ∀ c ∈ cs, ∀ f ∈ reads g, owns c f = false) :
    (exec (runCall g) (runCalls cs s).2).1 = (exec (runCall g) s).1 := by
  obtain ⟨v, hv⟩ := Option.isSome_iff_exists.mp hg
  obtain ⟨k1, _, k3, _⟩ := C03_history cs s h hd
  have hcfg : (runCalls cs s).2.cfg = (docRun cs s.abs).2.r := congrArg CfgSt.r k3
  have hplus : (runCalls cs s).2.cfg.plus = s.cfg.plus := by rw [hcfg]; exact docRun_plus cs s.abs
  have hsame : getterDoc (runCalls cs s).2.cfg g = getterDoc s.cfg g :=
    C03_getter_reads g _ _ k1.ok h.ok hplus
      (fun f hf => C03_getter_agrees_model f cs s h hd (fun c hc => hown c hc f hf))
  have h1 := (C03_getter_returns g cs s h hd).2 v (hsame.trans hv)
  have h2 := (C03_getter_returns g [] s h (by simp)).2 v hv
  exact h1.1.trans h2.1.symm

/-- **C03, "the getter returns the value last set" — composed.**  On the model, from any state with
    the invariant: a call `c` the documentation accepts (typically a setter; `a'` is the documented
    state after it), then ANY history `cs` none of whose calls owns a field the getter `g` reads, then
    `g`: it returns the documented decoding `v` of the registers AS THE SETTER LEFT THEM.  (With
    `C03_roundtrip`, which computes that value for 15 setter/getter pairs — e.g. `clampI 0 15 n` for
    `arc = n` — this is the MANIFEST's "each getter returns the clamped value last set".) -/
theorem C03_value_last_set (c g : Call) (cs : List Call) (s : DrvState) (h : Inv s) (hc : c.dom s.cfg.plus)
    (hd : ∀ c' ∈ cs, c'.dom s.cfg.plus) (a' : CfgSt) (r0 : Ret) (hset : docStep c s.abs = .ok (a', r0))
    (v : Ret) (hget : getterDoc a'.r g = some (.ok v))
    (hown : ∀ c' ∈ cs, ∀ f ∈ reads g, owns c' f = false) :
    (exec (runCall g) (runCalls cs (exec (runCall c) s).2).2).1 = .ok v := by
  obtain ⟨i1, i2, _, _⟩ := C03_step c s h hc
  obtain ⟨_, habs⟩ := i2 a' r0 hset
  have hcfg : (exec (runCall c) s).2.cfg = a'.r := congrArg CfgSt.r habs
  have hplus : (exec (runCall c) s).2.cfg.plus = s.cfg.plus := by
    rw [hcfg]; exact docStep_plus hset
  have hd1 : ∀ c' ∈ cs, c'.dom (exec (runCall c) s).2.cfg.plus := fun c' hc' => by rw [hplus]; exact hd c' hc'
  have hg1 : getterDoc (exec (runCall c) s).2.cfg g = some (.ok v) := by rw [hcfg]; exact hget
  rw [C03_getter_stable g cs _ i1 hd1 (by rw [hg1]; rfl) hown]
  exact ((C03_getter_returns g [] _ i1 (by simp)).2 _ hg1).1

/-! ### non-vacuity -/

/-- a concrete state satisfying `Inv`: a fresh plus-variant world after `__init__` and `__enter__` -/
def s0 : DrvState := (exec enter (exec init { d := {}, w := World.fresh 2 }).2).2

theorem C03_nonvacuous_inv : Inv s0 := by
  have hshape : RadioShape (DrvState.cfg { d := {}, w := World.fresh 2 }) := by constructor <;> decide
  have h1 := C03_init_inv { d := {}, w := World.fresh 2 } (by unfold DrvState.Wf; decide) hshape
    (by intro e he; cases he) rfl
  exact (reenter_inv _ h1.2.1).2

example : Inv s0 ∧ s0.cfg.rfCh = 76 ∧ s0.cfg.setupRetr = 0x5F ∧ s0.cfg.violations = [] :=
  ⟨C03_nonvacuous_inv, by decide +kernel⟩

/-- hypotheses of `C03_enter_inv` are satisfiable by a state that does *not* satisfy the invariant:
    a fresh object (default shadows) on a chip still holding its reset values -/
example :
    let s : DrvState := { d := { isPlus := true }, w := World.fresh 1 }
    s.Wf ∧ s.d.channel ≠ s.cfg.rfCh ∧ s.d.isPlus = s.cfg.plus ∧ s.cfg.featureVisible = true := by
  unfold DrvState.Wf; decide

/-- hypotheses of `C03_step` / `C03_history` are satisfiable and the conclusion is not trivial:
    a history with accepted, clamped and rejected calls -/
example :
    let cs : List Call := [.setChannel 90, .setArc 99, .setChannel 300, .setPaLevelLna (-12) false,
      .setAutoAckAttr (.l [0, -1, 1]), .openRxPipe 1 [1, 2, 3], .getChannel, .getArc]
    (∀ c ∈ cs, c.dom s0.cfg.plus) ∧
    (docRun cs s0.abs).1 = [.ok .unit, .ok .unit, .error .valueError, .ok .unit, .ok .unit, .ok .unit,
      .ok (.nat 90), .ok (.nat 15)] := by
  decide +kernel

/-- `C03_getter_returns` instantiated (hypotheses `Inv s0`: `C03_nonvacuous_inv` below; domain and
    values by kernel evaluation of the MODEL run): the reviewer's example — `crc = 0` then
    `set_auto_ack(True, 1)`: `crc` returns 1 although no call after the setter owns the CRC bits;
    `listen`, `ack`, `arc`, `get_payload_length(9)` (the documented `IndexError`) likewise. -/
example :
    let cs : List Call := [.setChannel 90, .setAutoAckAttr (.b false), .setCrc 0, .getCrc,
      .setAutoAck true (some 1), .setArc 99, .setAck true, .setListen true]
    let s' := (runCalls cs s0).2
    (∀ c ∈ cs, c.dom s0.cfg.plus) ∧ (runCalls cs s0).1.getD 3 (.ok .unit) = .ok (.nat 0) ∧
    getterDoc s'.cfg .getCrc = some (.ok (.nat 1)) ∧ (exec (runCall .getCrc) s').1 = .ok (.nat 1) ∧
    getterDoc s'.cfg .getListen = some (.ok (.bool true)) ∧ (exec (runCall .getListen) s').1 = .ok (.bool true) ∧
    getterDoc s'.cfg .getAck = some (.ok (.bool true)) ∧ (exec (runCall .getAck) s').1 = .ok (.bool true) ∧
    getterDoc s'.cfg .getArc = some (.ok (.nat 15)) ∧ (exec (runCall .getArc) s').1 = .ok (.nat 15) ∧
    getterDoc s'.cfg .getChannel = some (.ok (.nat 90)) ∧ (exec (runCall .getChannel) s').1 = .ok (.nat 90) ∧
    getterDoc s'.cfg (.getPayloadLength 9) = some (.error .indexError) ∧
    (exec (runCall (.getPayloadLength 9)) s').1 = .error .indexError := by
  decide +kernel

/-- the state used below satisfies the invariant -/
example : Inv (exec (runCall (.setCrc 2)) s0).2 := (C03_step (.setCrc 2) s0 C03_nonvacuous_inv trivial).1

/-- `C03_getter_stable` instantiated: after `crc = 2` on `s0`, a history of seven calls none of
    which owns `crcBits` or `autoAck` (domain and ownership by kernel evaluation) — `crc` returns 2
    before and after (model run) -/
example :
    let s1 := (exec (runCall (.setCrc 2)) s0).2
    let cs : List Call := [.setChannel 5, .setArd 1000, .setPower false, .setListen true, .getCrc,
      .setDynamicPayloads false none, .openRxPipe 0 [1, 2, 3]]
    (∀ c ∈ cs, c.dom s1.cfg.plus) ∧ (getterDoc s1.cfg .getCrc).isSome = true ∧
    (∀ c ∈ cs, ∀ f ∈ reads .getCrc, owns c f = false) ∧
    (exec (runCall .getCrc) s1).1 = .ok (.nat 2) ∧ (exec (runCall .getCrc) (runCalls cs s1).2).1 = .ok (.nat 2) := by
  decide +kernel

/-- `C03_value_last_set` instantiated on `s0`: `arc = 99` is accepted, the documented state after it
    decodes to ARC = 15, the six calls in between own neither ARC (so `set_auto_retries` / `arc` are
    excluded, `ard` is not) — all hypotheses by kernel evaluation; and the model run agrees -/
example :
    let cs : List Call := [.setArd 1000, .setChannel 5, .setListen true, .setCrc 1, .getArc, .setPower false]
    (Call.setArc 99).dom s0.cfg.plus ∧ (∀ c' ∈ cs, c'.dom s0.cfg.plus) ∧
    (∃ a', docStep (.setArc 99) s0.abs = .ok (a', .unit) ∧ getterDoc a'.r .getArc = some (.ok (.nat 15))) ∧
    (∀ c' ∈ cs, ∀ f ∈ reads .getArc, owns c' f = false) ∧
    (exec (runCall .getArc) (runCalls cs (exec (runCall (.setArc 99)) s0).2).2).1 = .ok (.nat 15) := by
  refine ⟨trivial, by decide +kernel, ⟨_, rfl, by decide +kernel⟩, by decide +kernel, by decide +kernel⟩

end Nrf.Props.C03
