/-
C15 — the part of the property's theorems that speaks about the CURRENT SOURCE through the translator
(`tools/py2lean.py` → `lean/NrfGen`, DESIGN §0.7).  Kept in its own file so that only this property's check
depends on the generated files: the theorem files of other properties import `NrfProps.C15` (the model-level
theorems), never this one.  Audited together with `NrfProps/C15.lean` by `./check C15`.
-/
import NrfProps.C15
import NrfProofs.GenTieStructs

namespace Nrf.Props.C15
open Nrf Nrf.Net Nrf.Spec Nrf.Proofs Nrf.Props.C07

/-- **the validity statement, about the translation of the CURRENT source** (`NrfGen/Structs.lean`, which
    `tools/py2lean.py` rewrites from `network/structs.py` on every run; tied to the model function by
    `GenTie_is_address_valid`): for every non-negative `int` the source's `is_address_valid` returns
    normally (its `while` loop ends within the fuel derived from its measure), and returns `True` exactly
    for the reserved addresses and the values of digit lists of the 781-node tree; `None` gives `False`.
    No hypotheses.  Trusted here: the translator and the semantics it assigns to its Python subset
    (DESIGN, section on the generated tie); negative `int` arguments are outside the translation. -/
theorem C15_valid_iff_source (a : Nat) :
    (∃ b, Gen.is_address_valid (some a) = .ok b ∧ (b = true ↔ ValidAddr a))
      ∧ Gen.is_address_valid none = .ok false :=
  ⟨⟨isValid a, GenTie.GenTie_is_address_valid a, C15_valid_iff a⟩, rfl⟩

/-- both verdicts occur on the translated source: `0o5` and `0o100` valid, `0o6` and `0o11111` not -/
example : Gen.is_address_valid (some 0o5) = .ok true ∧ Gen.is_address_valid (some 0o100) = .ok true
    ∧ Gen.is_address_valid (some 0o6) = .ok false ∧ Gen.is_address_valid (some 0o11111) = .ok false :=
  ⟨rfl, rfl, rfl, rfl⟩

end Nrf.Props.C15
