/-
C12 — "Frames leave the queue in the order they were accepted, each exactly once, with the header
fields and message bytes they had when enqueued even if the caller later mutates or reuses the
frame object it passed in.  The queue never holds more than max_queue_size frames nor two frames
with the same origin, frame id and type, and enqueue() returns whether the frame was stored.
Switching fragmentation on or off moves all queued frames to the new queue in order and keeps
max_queue_size."

Model: `NrfModel/Net/Queue.lean` (frames are objects in a heap; the queue holds object ids);
spec: `NrfModel/Spec/RefQueue.lean`.  All theorems are about `Fixes.all`, the code as repaired
(D10: capacity test `>=`); `C12_D10_witness` shows what the code as found did.

Scope (`InScope`, part of every statement): enqueued frames are wire-representable (the stored
copy is the *masked* wire image, C11 — for wider attribute values the copy differs by design) and,
in fragmentation mode, not of a fragment type (148..150: those go through the reassembler, C06);
the caller mutates only objects that are not stored in the queue.  `peek()` returns the stored
object itself, so mutating *that* object does change the queue (`C12_peek_aliases_observation` below): the property
speaks of "the frame object it passed in", which is never stored.
-/
import NrfProofs.QueueSim

namespace Nrf.Props.C12
open Nrf.Net Nrf.Spec Nrf.Proofs

/-- **refinement**: for every history in scope, from any state that abstracts to a reference queue,
    the model's outputs are the reference queue's outputs, and the final states still correspond -/
theorem C12_refines (ops : List QOp) : ∀ (s : QState) (q : RefQ), Sim s q → ScopeRun Fixes.all s ops →
    (s.run Fixes.all ops).2.map absOut = refRun Fixes.all s q ops ∧
      ∃ q', Sim (s.run Fixes.all ops).1 q' := by
  induction ops with
  | nil => intro s q hs _; exact ⟨rfl, q, hs⟩
  | cons op ops ih =>
    intro s q hs hsc
    obtain ⟨h1, h2⟩ := sim_step s q op hs hsc.1
    obtain ⟨i1, i2⟩ := ih _ _ h1 hsc.2
    simp only [QState.run, refRun, List.map_cons]
    exact ⟨by rw [h2, i1], i2⟩

/-- the queue of a freshly constructed node refines the empty reference queue of capacity 6 -/
theorem C12_refines_init (n : Nat) (ops : List QOp) (h : ScopeRun Fixes.all (QState.init n) ops) :
    ((QState.init n).run Fixes.all ops).2.map absOut = refRun Fixes.all (QState.init n) {} ops :=
  (C12_refines ops (QState.init n) {} ⟨rfl, rfl, by simp [QState.init, QState.contents, Frame.fresh],
    by simp [WF, QState.init, Frame.fresh]⟩ h).1

/-- the frame value accepted by this step, if any (as the caller's object read at that moment) -/
def accOf (s : QState) (op : QOp) (out : QOut) : List Frame :=
  match op, out with
  | .enqueue o, .bool (.ok true) => [s.heap o]
  | _, _ => []

/-- the frame value handed to the caller by this step, if any -/
def handOf (op : QOp) (out : QOut) : List Frame :=
  match op, out with
  | .dequeue, .frame (some p) => [p.2]
  | _, _ => []

/-- accepted and handed-out frame values along a run -/
def trace (fx : Fixes) : QState → List QOp → List Frame × List Frame
  | _, [] => ([], [])
  | s, op :: ops =>
    let r := s.step fx op
    let t := trace fx r.1 ops
    (accOf s op r.2 ++ t.1, handOf op r.2 ++ t.2)

/-- one step of the FIFO balance -/
theorem C12_step_balance (s : QState) (op : QOp) (hwf : WF s) (hsc : InScope s op) :
    WF (s.step Fixes.all op).1 ∧
      s.contents ++ accOf s op (s.step Fixes.all op).2 =
        handOf op (s.step Fixes.all op).2 ++ (s.step Fixes.all op).1.contents := by
  cases op with
  | alloc f =>
    obtain ⟨h1, h2, _⟩ := abs_alloc s f hwf
    exact ⟨h2, by simp [accOf, handOf, QState.step, (contents_of_abs h1).1]⟩
  | mutate o f =>
    obtain ⟨h1, h2, _⟩ := abs_mutate s o f hwf hsc
    exact ⟨h2, by simp [accOf, handOf, QState.step, (contents_of_abs h1).1]⟩
  | enqueue o =>
    obtain ⟨e1, e2, _, _, e5, _⟩ := enqueue_scope_obj Fixes.all s o hwf hsc.1 hsc.2
    refine ⟨e5, ?_⟩
    simp only [QState.step, handOf, List.nil_append]
    rw [e1, e2]
    by_cases hc : (full Fixes.all s.maxSize s.queue.length ||
        s.contents.any (fun g => Net.sameKey g (s.heap o))) = true
    · simp [hc, accOf]
    · simp [hc, accOf]
  | dequeue =>
    simp only [QState.step, accOf, List.append_nil]
    rcases dequeue_contents s with ⟨h1, _, h3⟩ | ⟨o, h1, h2, h3, h4, _, h6, _⟩
    · rw [h1, h3]; exact ⟨hwf, rfl⟩
    · rw [h1]
      refine ⟨?_, by simpa [handOf, h4] using h2⟩
      intro i hi; rw [h6]; exact hwf i (by rw [h3]; simp [hi])
  | peek => exact ⟨hwf, by simp [QState.step, accOf, handOf]⟩
  | len => exact ⟨hwf, by simp [QState.step, accOf, handOf]⟩
  | setMax n => exact ⟨hwf, by simp [QState.step, QState.setMax, QState.contents, accOf, handOf]⟩
  | setFrag b =>
    obtain ⟨f1, f2, _, f4, _⟩ := setFragmentation_queue s b
    refine ⟨?_, by simp [QState.step, QState.contents, f1, f2, accOf, handOf]⟩
    intro i hi; simp only [QState.step] at hi ⊢; rw [f4]; exact hwf i (by rw [← f1]; exact hi)

/-- **FIFO, each exactly once, values as when enqueued**: along every history in scope, what was in
    the queue followed by the frames accepted (with the attribute values their objects had at that
    moment) equals the frames handed out by `dequeue()` followed by what is still queued — in
    this order, whatever the caller did to its objects in between -/
theorem C12_fifo_exactly_once (ops : List QOp) : ∀ (s : QState), WF s → ScopeRun Fixes.all s ops →
    s.contents ++ (trace Fixes.all s ops).1 =
      (trace Fixes.all s ops).2 ++ (s.run Fixes.all ops).1.contents := by
  induction ops with
  | nil => intro s _ _; simp [trace, QState.run]
  | cons op ops ih =>
    intro s hwf hsc
    obtain ⟨hw', hstep⟩ := C12_step_balance s op hwf hsc.1
    have ih' := ih _ hw' hsc.2
    simp only [trace, QState.run]
    rw [← List.append_assoc, hstep, List.append_assoc, ih', List.append_assoc]

/-- non-vacuity of the scope and a look at the trace: one caller object reused for two frames
    (mutated after the first was accepted), a duplicate, a dequeue -/
example :
    let a : Frame := ⟨⟨1, 0, 7, .int 5, 0⟩, [0xA1]⟩
    let b : Frame := ⟨⟨1, 0, 8, .int 5, 0⟩, [0xB2]⟩
    let ops := [QOp.alloc a, .enqueue 0, .mutate 0 b, .enqueue 0, .enqueue 0, .dequeue]
    trace Fixes.all (QState.init 0) ops = ([a, b], [a]) ∧
      ((QState.init 0).run Fixes.all ops).1.contents = [b] := by
  decide

/-- non-vacuity of `ScopeRun` / `Sim`: that history is inside the property's scope (the mutated
    object 0 is the caller's; the stored copy is object 1) -/
example : ScopeRun Fixes.all (QState.init 0)
    [.alloc ⟨⟨1, 0, 7, .int 5, 0⟩, [0xA1]⟩, .enqueue 0, .mutate 0 ⟨⟨1, 0, 8, .int 5, 0⟩, [0xB2]⟩,
     .enqueue 0, .dequeue] := by
  refine ⟨trivial, ⟨⟨⟨5, rfl⟩, by decide⟩, fun _ => ?_⟩, ?_, ⟨⟨⟨5, rfl⟩, by decide⟩, fun _ => ?_⟩,
    trivial, trivial⟩
  · unfold NotFragType; decide
  · show (0 : Nat) ∉ _; decide
  · unfold NotFragType; decide

/-- **private copies**: an accepted frame is stored as a new object — every stored id is either
    one that was stored before or one that did not exist before the call — so no object the caller
    holds (other than through `peek()`) is in the queue, and assigning to such an object changes
    nothing in it -/
theorem C12_copy (s : QState) (o : Nat) (hwf : WF s) (hsc : InScope s (.enqueue o)) :
    (∀ i ∈ (s.enqueue Fixes.all o).1.queue, i ∈ s.queue ∨ s.next ≤ i) ∧
      ∀ c f, c < s.next → c ∉ s.queue →
        c ∉ (s.enqueue Fixes.all o).1.queue ∧
        ((s.enqueue Fixes.all o).1.mutate c f).contents = (s.enqueue Fixes.all o).1.contents := by
  obtain ⟨_, _, _, _, e5, _, e7, _⟩ := enqueue_scope_obj Fixes.all s o hwf hsc.1 hsc.2
  refine ⟨e7, fun c f hc hn => ?_⟩
  have hnot : c ∉ (s.enqueue Fixes.all o).1.queue := by
    intro h
    rcases e7 c h with h | h
    · exact hn h
    · omega
  exact ⟨hnot, (contents_of_abs (abs_mutate _ c f e5 hnot).1).1⟩

/-- **bounded**: `enqueue()` never accepts beyond `max_queue_size` — also after it was lowered
    below the current length (D10) -/
theorem C12_bound (s : QState) (o : Nat) (hwf : WF s) (hsc : InScope s (.enqueue o))
    (hacc : (s.enqueue Fixes.all o).2 = .ok true) :
    ((s.enqueue Fixes.all o).1.len : Int) ≤ (s.enqueue Fixes.all o).1.maxSize := by
  obtain ⟨e1, e2, e3, _⟩ := enqueue_scope_obj Fixes.all s o hwf hsc.1 hsc.2
  rw [e1] at hacc
  have hc : (full Fixes.all s.maxSize s.queue.length ||
      s.contents.any (fun g => Net.sameKey g (s.heap o))) = false := by
    simpa using hacc
  simp only [hc, Bool.false_eq_true, ↓reduceIte] at e2
  have hlen : (s.enqueue Fixes.all o).1.len = s.queue.length + 1 := by
    have := congrArg List.length e2
    simpa [QState.contents, QState.len] using this
  rw [e3, hlen]
  rw [Bool.or_eq_false_iff, full_iff] at hc
  have := hc.1
  simp only [decide_eq_false_iff_not] at this
  omega

/-- the bound is an invariant of every operation except lowering `max_queue_size` itself -/
theorem C12_bound_invariant (s : QState) (op : QOp) (hwf : WF s) (hsc : InScope s op)
    (hnot : ∀ n, op ≠ .setMax n) (hb : (s.len : Int) ≤ s.maxSize) :
    ((s.step Fixes.all op).1.len : Int) ≤ (s.step Fixes.all op).1.maxSize := by
  cases op with
  | alloc f => simpa [QState.step, QState.alloc, QState.len] using hb
  | mutate o f => simpa [QState.step, QState.mutate, QState.len] using hb
  | enqueue o =>
    obtain ⟨e1, e2, e3, _⟩ := enqueue_scope_obj Fixes.all s o hwf hsc.1 hsc.2
    by_cases hacc : (s.enqueue Fixes.all o).2 = .ok true
    · exact C12_bound s o hwf hsc hacc
    · rw [e1] at hacc
      have hc : (full Fixes.all s.maxSize s.queue.length ||
          s.contents.any (fun g => Net.sameKey g (s.heap o))) = true := by
        cases h : (full Fixes.all s.maxSize s.queue.length ||
          s.contents.any (fun g => Net.sameKey g (s.heap o))) <;> simp_all
      simp only [hc, ↓reduceIte] at e2
      have hlen : (s.enqueue Fixes.all o).1.len = s.len := by
        have := congrArg List.length e2
        simpa [QState.contents, QState.len] using this
      simp only [QState.step]
      rw [hlen, e3]; exact hb
  | dequeue =>
    simp only [QState.step]
    rcases dequeue_contents s with ⟨_, _, h3⟩ | ⟨o, _, _, h3, _, h5, _⟩
    · rw [h3]; exact hb
    · rw [h5]
      have : s.len = (s.dequeue.1.len) + 1 := by simp [QState.len, h3]
      omega
  | peek => exact hb
  | len => exact hb
  | setMax n => exact absurd rfl (hnot n)
  | setFrag b =>
    obtain ⟨f1, _, f3, _⟩ := setFragmentation_queue s b
    simp only [QState.step, QState.len, f1, f3]; exact hb

/-- no two stored frames with the same origin, frame id and type -/
def NoDup (s : QState) : Prop := s.contents.Pairwise (fun a b => Net.sameKey a b = false)

/-- **duplicate-free**: an invariant of every operation in scope -/
theorem C12_nodup (s : QState) (op : QOp) (hwf : WF s) (hsc : InScope s op) (hnd : NoDup s) :
    NoDup (s.step Fixes.all op).1 := by
  unfold NoDup at hnd ⊢
  cases op with
  | enqueue o =>
    obtain ⟨_, e2, _⟩ := enqueue_scope_obj Fixes.all s o hwf hsc.1 hsc.2
    simp only [QState.step]
    rw [e2]
    by_cases hc : (full Fixes.all s.maxSize s.queue.length ||
        s.contents.any (fun g => Net.sameKey g (s.heap o))) = true
    · simp only [hc, ↓reduceIte]; exact hnd
    · simp only [hc, Bool.false_eq_true, ↓reduceIte]
      rw [List.pairwise_append]
      refine ⟨hnd, by simp, ?_⟩
      intro a ha b hb
      simp only [List.mem_singleton] at hb; subst hb
      have hc' : (full Fixes.all s.maxSize s.queue.length ||
          s.contents.any (fun g => Net.sameKey g (s.heap o))) = false := by simpa using hc
      rw [Bool.or_eq_false_iff] at hc'
      have hany := hc'.2
      rw [List.any_eq_false] at hany
      simpa using hany a ha
  | dequeue =>
    simp only [QState.step]
    rcases dequeue_contents s with ⟨_, _, h3⟩ | ⟨o, _, h2, _⟩
    · rw [h3]; exact hnd
    · rw [h2] at hnd; exact (List.pairwise_cons.mp hnd).2
  | alloc f =>
    obtain ⟨_, hstep⟩ := C12_step_balance s (.alloc f) hwf hsc
    simp only [accOf, handOf, List.append_nil, List.nil_append] at hstep
    rw [← hstep]; exact hnd
  | mutate o f =>
    obtain ⟨_, hstep⟩ := C12_step_balance s (.mutate o f) hwf hsc
    simp only [accOf, handOf, List.append_nil, List.nil_append] at hstep
    rw [← hstep]; exact hnd
  | peek => exact hnd
  | len => exact hnd
  | setMax n => exact hnd
  | setFrag b =>
    obtain ⟨_, hstep⟩ := C12_step_balance s (.setFrag b) hwf hsc
    simp only [accOf, handOf, List.append_nil, List.nil_append] at hstep
    rw [← hstep]; exact hnd

/-- **enqueue() returns whether the frame was stored** -/
theorem C12_enqueue_result (s : QState) (o : Nat) (hwf : WF s) (hsc : InScope s (.enqueue o)) :
    ((s.enqueue Fixes.all o).2 = .ok true ∧
        (s.enqueue Fixes.all o).1.contents = s.contents ++ [s.heap o]) ∨
      ((s.enqueue Fixes.all o).2 = .ok false ∧ (s.enqueue Fixes.all o).1.contents = s.contents) := by
  obtain ⟨e1, e2, _⟩ := enqueue_scope_obj Fixes.all s o hwf hsc.1 hsc.2
  by_cases hc : (full Fixes.all s.maxSize s.queue.length ||
      s.contents.any (fun g => Net.sameKey g (s.heap o))) = true
  · right; simp only [hc, ↓reduceIte] at e2; exact ⟨by rw [e1, hc]; rfl, e2⟩
  · left
    simp only [hc, Bool.false_eq_true, ↓reduceIte] at e2
    have : (full Fixes.all s.maxSize s.queue.length ||
      s.contents.any (fun g => Net.sameKey g (s.heap o))) = false := by simpa using hc
    exact ⟨by rw [e1, this]; rfl, e2⟩

/-- **fragmentation toggle**: the same frame objects in the same order (moved, not copied), the
    same `max_queue_size`, whichever way the switch is thrown (or not thrown) -/
theorem C12_move (s : QState) (b : Bool) :
    (s.setFragmentation b).queue = s.queue ∧ (s.setFragmentation b).contents = s.contents ∧
      (s.setFragmentation b).maxSize = s.maxSize ∧ (s.setFragmentation b).frag = b := by
  obtain ⟨f1, f2, f3, _, f5⟩ := setFragmentation_queue s b
  exact ⟨f1, by simp [QState.contents, f1, f2], f3, f5⟩

/-- D10 — the code as found (`==`): three frames queued, `max_queue_size` lowered to 1, a fourth
    frame is accepted; the repaired code refuses it -/
theorem C12_D10_witness :
    let fr (i : Nat) : Frame := ⟨⟨1, 0, i, .int 0, 0⟩, [i]⟩
    let ops := [QOp.alloc (fr 1), .enqueue 0, .mutate 0 (fr 2), .enqueue 0, .mutate 0 (fr 3),
                .enqueue 0, .setMax 1, .mutate 0 (fr 4), .enqueue 0]
    ((QState.init 0).run Fixes.none ops).1.contents.length = 4 ∧
      ((QState.init 0).run Fixes.all ops).1.contents.length = 3 := by
  decide

/-- outside the property, recorded truthfully: `peek()` returns the stored object, so assigning to
    *it* changes what `dequeue()` returns -/
theorem C12_peek_aliases_observation :
    let a : Frame := ⟨⟨1, 0, 7, .int 5, 0⟩, [0xA1]⟩
    let b : Frame := ⟨⟨2, 0, 9, .int 6, 0⟩, [0xB2]⟩
    -- object 0 is the caller's, object 1 the stored copy that peek() hands out
    ((QState.init 0).run Fixes.all [.alloc a, .enqueue 0, .peek, .mutate 1 b, .dequeue]).1.heap 1 = b := by
  decide

end Nrf.Props.C12
