/-
C18 — the part of the property's theorems that speaks about the CURRENT SOURCE through the translator
(`tools/py2lean.py` → `lean/NrfGen`, DESIGN §0.7).  Kept in its own file so that only this property's check
depends on the generated files: the theorem files of other properties import `NrfProps.C18` (the model-level
theorems), never this one.  Audited together with `NrfProps/C18.lean` by `./check C18`.
-/
import NrfProps.C18
import NrfProofs.GenTieWhiten

namespace Nrf.Props.C18
open Nrf.Ble Nrf.Spec.BleLL Nrf.Proofs.Ble

/-- **the module-level helpers of `fake_ble.py`, about the translation of the CURRENT source**
    (`NrfGen/FakeBle.lean`, which `tools/py2lean.py` rewrites from `fake_ble.py` on every run): the
    translations of `swap_bits`, `reverse_bits`, `chunk`, `whitener` and `crc24_ble` (default polynomial
    and preset) return, for all arguments, what the model functions used by every C18 / C19 theorem
    return — the same bytes, no exception, except `chunk`, whose `ValueError` (buffer of 255 bytes or
    more) is the model's.  Only hypothesis: the `bytes` argument of `whitener` has items `< 256` (the
    typing fact; instantiated below).  Trusted: the translator and the semantics it assigns to its Python
    subset; negative `int` arguments and non-default `deg_poly` / `init_val` are not covered. -/
theorem C18_helpers_source :
    (∀ x, Gen.swap_bits x = swapBits x)
    ∧ (∀ b : Bytes, Gen.reverse_bits b = .ok (reverseBits b))
    ∧ (∀ (buf : Bytes) (t : Nat), Nrf.Proofs.GenTie.toPyM (Gen.chunk buf t) = chunk buf t)
    ∧ (∀ (buf : Bytes) (coef : Nat), buf.wf → Gen.whitener buf coef = .ok (whitener buf coef))
    ∧ (∀ data : Bytes, Gen.crc24_ble data 0x65B 0x555555 = .ok (crc24 data)) :=
  ⟨Nrf.Proofs.GenTie.GenTie_swap_bits, Nrf.Proofs.GenTie.GenTie_reverse_bits,
   Nrf.Proofs.GenTie.GenTie_chunk, Nrf.Proofs.GenTie.GenTie_whitener,
   Nrf.Proofs.GenTie.GenTie_crc24_ble⟩

/-- the hypothesis of the `whitener` part holds of a concrete buffer, and the translated source computes
    the BLE CRC of the one-byte message `01` (bits reversed, as sent on air) -/
example : Bytes.wf [0x42, 0x00, 0xFF] ∧ Gen.crc24_ble [1] 0x65B 0x555555 = .ok (crc24 [1])
    ∧ Gen.swap_bits 1 = 128 :=
  ⟨by decide, Nrf.Proofs.GenTie.GenTie_crc24_ble _, rfl⟩

end Nrf.Props.C18
