/-
C13 — NETWORK_ACK: awaited only when needed, sent once, believed only if received (statements in progress).
-/
import NrfModel.Net.Api

namespace Nrf.Props.C13
open Nrf Nrf.Net

/-- `is_ack_type()` holds exactly for the integer types 65..191 — for all 256 wire types and beyond -/
theorem C13_is_ack_type (f : Frame) (t : Nat) (h : f.header.msgType = .int t) :
    f.isAckType = .ok (decide (65 ≤ t ∧ t ≤ 191)) := by
  unfold Frame.isAckType
  rw [h]
  simp only [pure, Except.pure]
  congr 1
  by_cases h1 : 64 < t <;> by_cases h2 : t < 192 <;> simp [h1, h2] <;> omega

end Nrf.Props.C13
