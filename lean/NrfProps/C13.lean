/-
C13 — "NETWORK_ACK: awaited only when needed, sent once, believed only if received."

For a single-frame unicast message whose type is in 65..191 and whose route has at least one
intermediate node, write() returns True only if a NETWORK_ACK addressed to the sender arrived
within route_timeout after the frame was accepted by the first hop, and False otherwise, never
blocking longer than the transmit and route timeouts allow.  The node that delivers such a frame to
its final destination sends exactly one NETWORK_ACK back to the origin for it.  Messages of other
types, transmissions between direct neighbours, multicasts and NETWORK_ACKs themselves never cause
a NETWORK_ACK.

Model: `NrfModel/Net/Node.lean` (`nodeWrite` = `_write`, `ackWait` = its wait loop, `netUpdate` =
`_net_update`, `handleThis` / `handleOther`).  Spec: `NrfModel/Spec/NetAck.lean` (`AckAction`,
`originRule`, `forwarderRule`, `ackCont`) over the address tree of `Spec/Tree.lean`.

* `C13_when_*`   the decision logic, stated outright: one step of `nodeWrite` for every fuel and
                 state (`C13_when_step`), and the meaning of the decision on the tree via C04
                 (`C13_when_meaning`), all 256 types by arithmetic.
* `C13_once_decision` (was `C13_once`) a fact about the PURE decision function `ackAction` at the
                 arguments the route's nodes would call `_write` with: along the tree route exactly one
                 position takes the `emit` decision — the one before the destination — and none does on a
                 one-hop route.  It is NOT a statement about an execution; the NETWORK_ACK transmissions
                 of a run are counted by `C13_live_route_air_closed_partial` (closed `runOthers` system,
                 loss-free, ≥ 2 hops) and otherwise by the correspondence runs of `./check C13` only.
* `C13_believed*` safety for every fuel, world, arrival script, fault list and behaviour of the other
                 nodes: `True` only if a type-193 frame for this node was read in the wait loop, in
                 a `_net_update()` call begun no later than the deadline; `False` only after the
                 deadline.
* `C13_live_partial` closed system, loss-free, two hops: see the end of the file.
* `C13_live_closed_partial` the same with `L3Contracts` discharged (`l3contracts`, `NrfProofs/L3Discharge.lean`).
* `C13_live_route_partial` / `C13_live_route_closed_partial` (were `C13_live` / `C13_live_closed`) closed system, ONE schedule
                 (`runOthers`), loss-free, tree routes of ANY length ≥ 2 (C04: ≤ 8 hops), types 65..191 that the
                 destination queues: `write()` returns `True`, delivered once, all RX FIFOs empty afterwards;
                 induction over the route in NrfProofs/C13Hops*.lean.  The route's radios need not be fresh
                 (`NotDupFrame`).  Their former third conjunct ("the route positions that take the emit decision
                 are `[dist-1]`") mentioned neither state and was `C13_once_decision` restated; it was REMOVED
                 from the run theorems.
* `C13_live_route_air_closed_partial` the AIR LOG of that run: the new records of `World.air` are exactly `dist` data
                 transmissions (origin, then each router) followed by `dist - 1` transmissions of the type-193
                 frame — the first by the last router (its one originator), then one relay per earlier router —,
                 every record a single acknowledged attempt (NrfProofs/AirContracts.lean, AirDischarge.lean, C13Air*.lean).

* `C13_write_returns` **termination of `_write`** (clause "never blocking longer than the transmit and route
                 timeouts allow", the part a fuel model can carry): open system, every world / arrival script /
                 fault list / other radios; from a listening node with the C15 invariant `TI`, a well-formed single
                 frame in `frame_buf` and a valid target, `_write` RETURNS (no exception, no `DIVERGE`) with any fuel
                 `≥ writeFuel = M + 400·tt + 2·(Lm/24) + 100·rt + 40` loop iterations (M = frames still to be read);
                 the node listens again, `TI` holds again, time did not run backwards, M did not grow.  This is the
                 `nodeWrite` clause of the simultaneous induction `totAll` (NrfProofs/C15Total.lean) that so far was
                 exported for `update()` only (`C15_total`); NrfProofs/C13Block.lean.
* `C13_write_returns_nowait` the same for a `_write` that cannot wait (forwarders incl. the emitting last router, direct and
                 multicast sends, other types): fuel `200·tt + Lm/24 + 16`, independent of route_timeout and of M.
* `C13_wait_returns_partial` the wait loop alone: it returns (fuel `(dl + 10000 - now)/10000 + M + 200·tt + Lm/24 + 22`),
                 and its exit clock is the end of its LAST `_net_update()` call, which began no later than
                 `max deadline entry-clock`.  `_partial`: the duration of that one call is NOT bounded.
* `C13_write_blocking_partial` `_write` in the wait case (origin, type 65..191, first hop ≠ destination): it returns, and
                 either the first hop refused (`False`, no wait) or the exit clock is the end of a `_net_update()`
                 call that began no later than `route_timeout·10⁶` ns after the instant `t2` at which the first hop
                 had accepted the frame and listening was restored.  `_partial`: NO bound in ns on `t2 - entry`
                 (the transmit phase: its length is bounded only in loop iterations, ≤ 100·tx_timeout `resend()` calls
                 per `_tx_standby`, via the fuel) and NO bound on the duration of that last `_net_update()` call
                 (the model's `TI` does not say that the radio's `busyUntil` is in the past, so one SPI transaction
                 may jump the clock arbitrarily; a ns bound needs a new invariant through all of C15's induction).

Property clauses WITHOUT a theorem (tie / correspondence runs only): a bound IN NANOSECONDS on the whole `_write`
(see `C13_write_blocking_partial` for what is proved); "never cause a NETWORK_ACK" at trace level
(only: the pure decision is `.none`; and, for the one run of `C13_live_route_air_closed_partial`, the exact air log);
statements about `RF24Mesh.write()/send()`; schedules other than
`runOthers`, packet loss, duplicate deliveries to the last router (retransmission after a lost ESB ACK).
-/
import NrfProofs.C13Ack
import NrfProofs.C13Trace
import NrfProofs.C13Example
import NrfProofs.C13Live
import NrfProofs.C05Example3
import NrfProofs.L3Discharge
import NrfProofs.C13HopsExample
import NrfProofs.C13Air5
import NrfProofs.AirDischarge
import NrfProofs.C13Block
import NrfProps.C07

namespace Nrf.Props.C13
open Nrf Nrf.Net Nrf.Spec Nrf.Proofs Nrf.Props.C04

/-- `is_ack_type()` holds exactly for the integer types 65..191 — for all 256 wire types and beyond -/
theorem C13_is_ack_type (f : Frame) (t : Nat) (h : f.header.msgType = .int t) :
    f.isAckType = .ok (decide (65 ≤ t ∧ t ≤ 191)) := by
  unfold Frame.isAckType
  rw [h]
  simp only [pure, Except.pure]
  congr 1
  by_cases h1 : 64 < t <;> by_cases h2 : t < 192 <;> simp [h1, h2] <;> omega

example : (⟨{ msgType := .int 65 }, []⟩ : Frame).isAckType = .ok true ∧
    (⟨{ msgType := .int 193 }, []⟩ : Frame).isAckType = .ok false := ⟨rfl, rfl⟩

/-! ## when: the decision of `_write` -/

/-- **One step of `_write(write_direct, send_type)`**, for every fuel, every state in which the
    running node is on the call stack, every integer message type `t` in `frame_buf`
    (an UNFOLDING lemma: `ackCont` of `Spec/NetAck.lean` is a re-bracketing of the three tails of the model's
    own `nodeWrite` and calls the same model functions, and `ackAction` is extracted from `nodeWrite`; so this
    says "model = model re-bracketed", not "model meets an independent specification" — the independent
    content is `C13_when_meaning`, conjuncts 1-2):
    the frame is handed to the hop `_logi_2_phys` names (after a 2 ms pause at the last router of
    an acknowledged type); an exception there ends the call; otherwise, with `result` the verdict
    of that transmission and `s1` the state it left, the call continues with exactly the
    continuation `ackCont` of the **pure decision** `ackAction` (node constants, type,
    `write_direct`, `send_type`, origin of the frame) — `emit`: the header is rewritten to type 193
    / `to := from`, one `_write_to_pipe` towards `_logi_2_phys(from, TX_ROUTED)`, listening restored,
    `result` returned; `await`: listening and auto-ack restored, the wait loop with deadline
    `now + route_timeout·10⁶`, its Boolean returned; `none`: listening (and auto-ack unless
    multicast) restored, `result` returned — and with `result = False` always `none`. -/
theorem C13_when_step (f wd st : Nat) (s : NetState) (t : Nat) (hs : s.cur ∈ s.active)
    (ht : s.node.frameBuf.header.msgType = .int t) :
    nexec (nodeWrite (f + 1) wd st) s =
      match nexec (nodeWriteToPipe f (logi2phys s.node.a wd st).1 (logi2phys s.node.a wd st).2.1
          (logi2phys s.node.a wd st).2.2) (writePrelude s t wd st) with
      | (.error e, s1) => (.error e, s1)
      | (.ok result, s1) =>
        nexec (ackCont f (if result then ackAction s.node.a t wd st s1.node.frameBuf.header.fromNode
                          else .none) result (logi2phys s.node.a wd st).2.2) s1 := by
  rw [nodeWrite_step_raw f wd st s t ht]
  rcases hw : nexec (nodeWriteToPipe f _ _ _) (writePrelude s t wd st) with ⟨r, s1⟩
  cases r with
  | error e => rfl
  | ok result =>
    simp only []
    have hp : (writePrelude s t wd st).cur ∈ (writePrelude s t wd st).active := by
      unfold writePrelude; split <;> exact hs
    have hn : (writePrelude s t wd st).node = s.node := by
      unfold writePrelude; split <;> rfl
    have r1 : Rel Node.stat (writePrelude s t wd st) s1 :=
      ((frameAt f).nodeWriteToPipe _ _ _).out _ _ s1 hp hw
    have ha : s1.node.a = s.node.a := by rw [(stat_addr r1).1, hn]
    rw [ha]
    rfl

example : let s : NetState := { nodes := [{}], active := [0], w := World.fresh 1 }
    s.cur ∈ s.active ∧ s.node.frameBuf.header.msgType = .int 0 := by decide

/-- a `str` message type: `is_ack_type()` raises `TypeError` before anything is sent or changed -/
theorem C13_when_str (f wd st : Nat) (s : NetState) (cs : List Nat)
    (ht : s.node.frameBuf.header.msgType = .str cs) :
    nexec (nodeWrite (f + 1) wd st) s = (.error .typeError, s) :=
  nodeWrite_str f wd st s cs ht

example : let s : NetState := { nodes := [{ frameBuf := ⟨{ msgType := .str [84] }, []⟩ }], w := World.fresh 1 }
    s.node.frameBuf.header.msgType = .str [84] := by decide

/-- **The meaning of the decision on the address tree** (C04: `_begin` of a tree node `x` yields
    `nodeSpec x`, `_logi_2_phys` is the tree's next hop).  For all tree nodes and all types `t`
    (all 256 and beyond — the statement is arithmetic):
    * the origin of a frame for `d` (`TX_NORMAL`) awaits iff `65 ≤ t ≤ 191` and its first hop is not
      `d`, and never emits;
    * a forwarder `x` of a frame from `s` for `d` (`TX_ROUTED`) emits iff `65 ≤ t ≤ 191`, its hop
      delivers to `d`, and the frame is not its own; it never awaits;
    * `TX_PHYSICAL`, `TX_LOGICAL`, `TX_MULTICAST` (send types above `TX_ROUTED`: the "hop" is the given
      address itself): nothing — in particular the `TX_LOGICAL` alternative in the code's wait
      condition can never fire;
    * types outside 65..191 — NETWORK_ACK (193) itself included: nothing.

    Conjuncts 1-2 are the independent content (the decision function against `originRule` / `forwarderRule`,
    written from the property text).  Conjuncts 3-4 say only that the DECISION is `.none` (conjunct 4 is the
    outer `if` of `ackAction`): they are not air-log statements, and there is no theorem that the header is
    rewritten to type 193 only on the `.emit` branch.  "Multicast" here means a send type above `TX_ROUTED`;
    `write(0o100, t, …)` with the default `TX_NORMAL` to the multicast ADDRESS and an ack type `t` gives
    `.await` (evaluation) — that call blocks for `route_timeout`. -/
theorem C13_when_meaning (x d : List Nat) (hx : IsNode x) (hd : IsNode d) (t : Nat) :
    (∀ fr, ackAction (nodeSpec x) t (val d) TX_NORMAL fr = originRule x d t) ∧
    (∀ s, IsNode s → ackAction (nodeSpec x) t (val d) TX_ROUTED (val s) = forwarderRule x s d t) ∧
    (∀ n wd st fr, st > TX_ROUTED → ackAction n t wd st fr = .none) ∧
    (¬ AckType t → ∀ n wd st fr, ackAction n t wd st fr = .none) ∧ ¬ AckType NETWORK_ACK :=
  ⟨fun fr => ackAction_origin hx hd t fr, fun _ hs => ackAction_forwarder hx hs hd t,
   fun n wd _ fr h => ackAction_direct h n t wd fr, fun h n wd st fr => ackAction_not_ackType h n wd st fr,
   by decide⟩

example : IsNode [3, 2, 1] ∧ IsNode [4] ∧ originRule [3, 2, 1] [4] 65 = .await ∧
    originRule [3, 2, 1] [3, 2] 65 = .none ∧ originRule [3, 2, 1] [4] 64 = .none ∧
    forwarderRule [] [3, 2, 1] [4] 191 = .emit ∧ forwarderRule [3] [3, 2, 1] [4] 191 = .none ∧
    forwarderRule [] [3, 2, 1] [4] 193 = .none ∧ TX_LOGICAL > TX_ROUTED := by decide

/-! ## once: who emits along a route -/

/-- the send type a node of the route uses: the origin `TX_NORMAL`, every forwarder `TX_ROUTED` -/
def roleSendType (i : Nat) : Nat := if i = 0 then TX_NORMAL else TX_ROUTED

/-- A fact about the PURE DECISION FUNCTION `ackAction`, not about an execution.  Along the tree route from
    `s` to `d` (node `i` = the position after `i` hops, C04), for a type in 65..191: `ackAction`, evaluated at
    the arguments node `i < dist s d` would call `_write` with if the frame reached it once (its own
    constants, the type, `to = d`, `TX_NORMAL` at the origin / `TX_ROUTED` at a forwarder, `from = s`), is
    `.emit` iff `i` is the position before `d` and not the origin.  Hence exactly one POSITION takes the emit
    decision on a route of two or more hops — the last router — and none on a one-hop route.
    NOT claimed: that the nodes of an execution call `_write` with these arguments exactly once each (a last
    router that gets the frame twice — retransmission after a lost ESB ACK — other schedules, fault lists),
    nor how many type-193 frames go on the air (for the closed loss-free `runOthers` run that is
    `C13_live_route_air_closed_partial`); emission is also conditional on the hop's `result = True`.
    (Renamed from `C13_once`.) -/
theorem C13_once_decision (s d : List Nat) (hs : IsNode s) (hd : IsNode d) (t : Nat) (ht : AckType t) :
    (∀ i, i < dist s d →
      (ackAction (nodeSpec (hops i s d)) t (val d) (roleSendType i) (val s) = .emit
        ↔ (i + 1 = dist s d ∧ 1 ≤ i))) ∧
    (List.range (dist s d)).filter (fun i =>
        decide (ackAction (nodeSpec (hops i s d)) t (val d) (roleSendType i) (val s) = .emit))
      = if 2 ≤ dist s d then [dist s d - 1] else [] := by
  have key : ∀ i, i < dist s d →
      (ackAction (nodeSpec (hops i s d)) t (val d) (roleSendType i) (val s) = .emit
        ↔ (i + 1 = dist s d ∧ 1 ≤ i)) := by
    intro i hi
    have hx := isNode_hops hs hd i
    unfold roleSendType
    by_cases h0 : i = 0
    · subst h0
      rw [if_pos rfl, ackAction_origin hx hd]
      unfold originRule
      constructor
      · intro h; split at h <;> cases h
      · intro h; omega
    · rw [if_neg h0, ackAction_forwarder hx hs hd]
      unfold forwarderRule
      simp only [nextHop_hops_eq_dest hi]
      have hne : s ≠ hops i s d := fun e => hops_ne_origin (by omega) (by omega) e.symm
      constructor
      · intro h
        split at h
        · rename_i hc; exact ⟨hc.2.1, by omega⟩
        · cases h
      · intro h
        rw [if_pos ⟨ht, h.1, hne⟩]
  refine ⟨key, ?_⟩
  split
  · rename_i h2
    apply filter_range_single _ _ _ (by omega)
    intro i hi
    rw [decide_eq_true_iff, key i hi]
    omega
  · rename_i h2
    apply filter_range_none
    intro i hi
    rw [decide_eq_false_iff_not, key i hi]
    omega

example : IsNode [4, 2, 1] ∧ IsNode [3] ∧ AckType 100 ∧ dist [4, 2, 1] [3] = 4 ∧
    hops 3 [4, 2, 1] [3] = [] ∧ dist [4] [] = 1 := by decide

/-! ## believed: where a `True` comes from -/

/-- The ghost instrumentation used below is faithful: `netUpdateT` / `ackWaitT` (which also return
    what their own loops read from the radio, and when) have, for every fuel, state and outcome,
    the result and final state of `netUpdate` (`_net_update()`) / `ackWait` (the wait loop). -/
theorem C13_believed_faithful (f x : Nat) (s : NetState) :
    nexec (netUpdate f x) s = eraseT (nexec (netUpdateT f x) s) ∧
    nexec (ackWait f x) s = eraseT (nexec (ackWaitT f x) s) :=
  ⟨netUpdate_erase f x s, ackWait_erase f x s⟩

/-- `_net_update()` returns NETWORK_ACK only if, **in that call**, it read from the radio a
    well-formed frame of type 193 with valid addresses that it took as meant for this node
    (`IsAckFor`: `to_node` = this node's address; or — the code's two side doors — `to_node` = the
    multicast address `0o100` while `allow_multicast`, or the node still has the default address
    `0o4444`).  Every fuel, world, arrival script, fault list, behaviour of other nodes. -/
theorem C13_believed_update (f rv : Nat) (s s' : NetState) (reads : List Bytes)
    (hs : s.cur ∈ s.active) (hrv : rv ≠ NETWORK_ACK)
    (h : nexec (netUpdateT f rv) s = (.ok (NETWORK_ACK, reads), s')) :
    ∃ b ∈ reads, IsAckFor s.node.a.addr s.node.cfg.allowMulticast b :=
  netUpdateT_ack f rv s s' reads hs hrv h

example : IsAckFor 0 true Example.ackFrame :=
  ⟨⟨⟨1, 0, 0, .int 193, 0⟩, []⟩, fun _ => rfl, Example.isValid_0, Example.isValid_1, rfl, Or.inl rfl⟩

/-- **The wait loop of `_write`.**  Whenever it returns normally (`obs` = the record of its
    `_net_update()` calls): the calls are consecutive from entry to return; every call but the last
    returned something else than 193, no later than the deadline; the loop says `True` only if the
    last call returned 193, having read in that call a NETWORK_ACK frame for this node; it says
    `False` only if the last call ended after the deadline.  Timing: the loop returns when its
    last call returns, and that call began no later than the deadline (or is the very first one) —
    i.e. by the deadline plus the duration of one `_net_update()` call. -/
theorem C13_believed (f dl : Nat) (s s' : NetState) (res : Bool) (obs : List UpdObs)
    (hs : s.cur ∈ s.active) (h : nexec (ackWaitT f dl) s = (.ok (res, obs), s')) :
    ∃ init last, obs = init ++ [last] ∧ Linked s.w.clock obs s'.w.clock ∧
      (∀ o ∈ init, o.ret ≠ NETWORK_ACK ∧ o.stop ≤ dl) ∧
      (res = true → last.ret = NETWORK_ACK ∧
        ∃ b ∈ last.reads, IsAckFor s.node.a.addr s.node.cfg.allowMulticast b) ∧
      (res = false → last.ret ≠ NETWORK_ACK ∧ dl < last.stop) ∧
      s'.w.clock = last.stop ∧ (last.start ≤ dl ∨ last.start = s.w.clock) := by
  obtain ⟨init, last, e, hl, hi, ht, hf⟩ := ackWaitT_spec f dl s s' res obs hs h
  refine ⟨init, last, e, hl, hi, ht, hf, ?_⟩
  rw [e] at hl
  obtain ⟨h1, h2⟩ := linked_last init last _ _ hl
  refine ⟨h1, ?_⟩
  rw [h2]
  cases hg : init.getLast? with
  | none => right; rfl
  | some p => left; exact (hi p (List.mem_of_getLast? hg)).2

/-- non-vacuity (executed on the model, open system): with nothing arriving the loop says `False`
    after its first call, past the deadline; with a NETWORK_ACK for the node waiting in the RX FIFO
    it says `True`, having read exactly that frame -/
example : Example.sNone.cur ∈ Example.sNone.active ∧
    (∃ s', nexec (ackWaitT 3 0) Example.sNone = (.ok (false, [⟨0, [], 0, 10000⟩]), s')) ∧
    Example.sAck.cur ∈ Example.sAck.active ∧
    (∃ s', nexec (ackWaitT 3 1000000000) Example.sAck =
      (.ok (true, [⟨0, [Example.ackFrame], 193, 30000⟩]), s')) :=
  ⟨by decide, Example.run_none, by decide, Example.run_ack⟩

/-- **`write()` in the wait case.**  If `_write` was called as the origin of a frame of a type in
    65..191 whose first hop is not `write_direct` (send type `TX_NORMAL`; `TX_LOGICAL` can be named
    but never satisfies the hop condition), and returns normally with `res`, then either the first
    hop refused the frame (`res = False`, no wait), or it accepted it, listening was restored, and
    `res` is the verdict of the wait loop with deadline `route_timeout·10⁶` ns after that instant —
    so `res = True` ⇒ a NETWORK_ACK frame for the sender was read before the loop ended, in a
    `_net_update()` call begun no later than the deadline; `res = False` ⇒ the first hop refused, or the
    sender's clock is past the deadline.

    Limits of this statement: it is about `_write` with a frame placed in `frame_buf` (not `write()` /
    `RF24Mesh.write()`), and about NORMAL returns only (`.ok`): that `_write` and the wait loop return at all
    (fuel, exceptions) is a hypothesis, there is no bound on the first hop in terms of `tx_timeout`, and
    "within route_timeout" is weakened to "read in a `_net_update()` call that BEGAN by the deadline" (that
    call's own duration is unbounded here).  The property's clause "never blocking longer than the transmit
    and route timeouts allow" has no theorem. -/
theorem C13_believed_write (f wd st t : Nat) (s s' : NetState) (res : Bool) (hs : s.cur ∈ s.active)
    (ht : s.node.frameBuf.header.msgType = .int t) (hty : AckType t)
    (hhop : (logi2phys s.node.a wd st).1 ≠ wd) (hst : st = TX_NORMAL ∨ st = TX_LOGICAL)
    (hw : nexec (nodeWrite (f + 1) wd st) s = (.ok res, s')) :
    (res = false ∧ ∃ s1, nexec (nodeWriteToPipe f (logi2phys s.node.a wd st).1
        (logi2phys s.node.a wd st).2.1 (logi2phys s.node.a wd st).2.2) (writePrelude s t wd st)
          = (.ok false, s1)) ∨
    ∃ s1 s2 obs, nexec (nodeWriteToPipe f (logi2phys s.node.a wd st).1
        (logi2phys s.node.a wd st).2.1 (logi2phys s.node.a wd st).2.2) (writePrelude s t wd st)
          = (.ok true, s1) ∧
      nexec (do liftRf (Rf24.setListen true); liftRf (Rf24.setAutoAckAttr (.i 0x3E))) s1 = (.ok (), s2) ∧
      nexec (ackWaitT f (s.node.routeTimeout * 1000000 + s2.w.clock)) s2 = (.ok (res, obs), s') ∧
      ∃ init last, obs = init ++ [last] ∧
        (∀ o ∈ init, o.ret ≠ NETWORK_ACK ∧ o.stop ≤ s.node.routeTimeout * 1000000 + s2.w.clock) ∧
        (res = true → last.ret = NETWORK_ACK ∧
          ∃ b ∈ last.reads, IsAckFor s.node.a.addr s.node.cfg.allowMulticast b) ∧
        (res = false → s.node.routeTimeout * 1000000 + s2.w.clock < s'.w.clock) ∧
        s'.w.clock = last.stop ∧
        (last.start ≤ s.node.routeTimeout * 1000000 + s2.w.clock ∨ last.start = s2.w.clock) := by
  rw [C13_when_step f wd st s t hs ht] at hw
  rcases hp : nexec (nodeWriteToPipe f _ _ _) (writePrelude s t wd st) with ⟨r, s1⟩
  rw [hp] at hw
  have hpre : (writePrelude s t wd st).cur ∈ (writePrelude s t wd st).active := by
    unfold writePrelude; split <;> exact hs
  have hn : (writePrelude s t wd st).node = s.node := by
    unfold writePrelude; split <;> rfl
  cases r with
  | error e => simp at hw
  | ok result =>
    have r1 : Rel Node.stat (writePrelude s t wd st) s1 :=
      ((frameAt f).nodeWriteToPipe _ _ _).out _ _ s1 hpre hp
    simp only [] at hw
    cases result with
    | false =>
      left
      simp only [Bool.false_eq_true, if_false, ackCont, nexec_bind] at hw
      refine ⟨?_, s1, rfl⟩
      -- the `none` continuation returns `result = false`
      rcases h1 : nexec (liftRf (Rf24.setListen true)) s1 with ⟨r1', s2⟩
      rw [h1] at hw
      cases r1' with
      | error e => simp at hw
      | ok _ =>
        simp only [nexec_ite, nexec_bind, nexec_pure] at hw
        split at hw
        · rcases h2 : nexec (liftRf (Rf24.setAutoAckAttr (.i 62))) s2 with ⟨r2, s3⟩
          rw [h2] at hw
          cases r2 with
          | error e => simp at hw
          | ok _ => simp only [Prod.mk.injEq, Except.ok.injEq] at hw; exact hw.1.symm
        · simp only [Prod.mk.injEq, Except.ok.injEq] at hw; exact hw.1.symm
    | true =>
      right
      have hact : ackAction s.node.a t wd st s1.node.frameBuf.header.fromNode = .await := by
        unfold ackAction
        unfold AckType at hty
        have h1 : 64 < t ∧ t < 192 := by omega
        have h2 : ¬ st = TX_ROUTED := by rcases hst with h | h <;> rw [h] <;> decide
        simp only [h1, and_self, if_true, h2, false_and, if_false, ne_eq, hhop, not_false_eq_true, hst]
      simp only [if_true, hact, ackCont] at hw
      obtain ⟨n, s1', h1, hw⟩ := nexec_bind_ok.mp hw
      simp only [nexec_getNode, Prod.mk.injEq, Except.ok.injEq] at h1
      obtain ⟨rfl, rfl⟩ := h1
      obtain ⟨_, sa, h2, hw⟩ := nexec_bind_ok.mp hw
      obtain ⟨_, s2, h3, hw⟩ := nexec_bind_ok.mp hw
      obtain ⟨now, s2', h4, hw⟩ := nexec_bind_ok.mp hw
      simp only [nexec_nowNs, Prod.mk.injEq, Except.ok.injEq] at h4
      obtain ⟨rfl, rfl⟩ := h4
      have hrt : s1.node.routeTimeout = s.node.routeTimeout := by
        have := congrArg NodeStat.routeTimeout r1.proj
        rw [hn] at this; exact this
      rw [hrt] at hw
      obtain ⟨obs, hobs⟩ := ackWait_ok_iff.mp hw
      have hrf : ∀ {α : Type} (m : DrvM α), Frm (Rel Node.stat) (liftRf m) :=
        fun m => Frm.liftRf m fun _ _ => rfl
      have r1a : Rel Node.stat s1 sa := (hrf _).out s1 _ sa (r1.ok hpre) h2
      have r12 : Rel Node.stat s1 s2 := r1a.trans ((hrf _).out sa _ s2 (r1a.ok (r1.ok hpre)) h3)
      have r02 := r1.trans r12
      have hs2 := r02.ok hpre
      obtain ⟨init, last, e, _, hi, htr, hfa, hclk, hstart⟩ :=
        C13_believed f _ s2 s' res obs hs2 hobs
      have ha := stat_addr r02
      rw [hn] at ha
      refine ⟨s1, s2, obs, rfl, ?_, hobs, init, last, e, hi, ?_, ?_, hclk, hstart⟩
      · rw [nexec_bind, h2]; exact h3
      · intro hr
        obtain ⟨h5, b, hb, hack⟩ := htr hr
        refine ⟨h5, b, hb, ?_⟩
        rw [← ha.1, ← ha.2]; exact hack
      · intro hr
        rw [hclk]; exact (hfa hr).2

/-- non-vacuity of the static hypotheses: the master, about to send a type-100 frame to its
    grandchild `0o11` (first hop `0o1`), is in the wait case -/
example : let s : NetState := { nodes := [{ a := nodeSpec [], frameBuf := ⟨{ msgType := .int 100 }, []⟩ }],
                                active := [0], w := World.fresh 1 }
    s.cur ∈ s.active ∧ s.node.frameBuf.header.msgType = .int 100 ∧ AckType 100 ∧
    (logi2phys s.node.a 0o11 TX_NORMAL).1 = 0o1 ∧ (logi2phys s.node.a 0o11 TX_NORMAL).1 ≠ 0o11 := by decide

/-! ## live: the acknowledgement comes back (two hops) -/

/-- **Liveness over a two-hop route** — closed system with the schedule of `runOthers`, loss-free
    (`faults = []` is part of `NetOk`), under the driver contracts `L3Contracts`.  In a tree network in
    which every node listens on its tree addresses (`NetOk`), nobody has address `0o4444`, all RX FIFOs
    are empty, node `a` (tree node `x`) writes a single-frame
    message of a user type in 65..127 for `d`, whose route is `x — y — d` with `y` and `d` present
    (`r`, `jd`); the packet accepted last by the radio of `y` and of `d` (if any — they need not be fresh) does
    not carry this frame's bytes, the one accepted last by the origin's radio does not carry the bytes of this
    frame's NETWORK_ACK (`NotDupFrame`, NrfProofs/C05Closed.lean; `ackOf`); and the destination's queue accepts the frame.  Then:
    the first hop accepts the frame; inside the first `read()` of the origin's wait loop the router
    `y` runs — reads the frame, pauses 2 ms, delivers it to `d`, turns it into a NETWORK_ACK for `x`
    and sends it (the destination taking its frame at the scheduling point of that transmission) —;
    the origin reads the NETWORK_ACK, `_net_update()` returns 193, and **`write()` returns `True`**;
    moreover the destination's queue has gained exactly that message and no other queue changed.

    (Routes of any length: `C13_live_route_partial` / `C13_live_route_closed_partial` at the end of this file.)
    Missing here for the general `C13_live_route_partial` (hence `_partial`): routes of 3..8 hops (the induction over the
    route needs, per router, the nested run of its successor *and* the later relay of the returning
    NETWORK_ACK found in its own RX FIFO; the two-hop case has neither a relay nor a second level of
    nesting); schedules other than `runOthers`; system types 128..191.  (This two-hop theorem does not
    export the quiescence conjunct; the general one below does.) -/
theorem C13_live_partial (hc : L3Contracts) (cfg : AddrCfg) (hcfg : CfgOk cfg) (L : LinkCfg)
    (tree : Nat → List Nat) (s : NetState) (a r jd : Nat) (x y d : List Nat) (ty : Int) (msg : Bytes)
    (hok : NetOk cfg L tree s) (hcur : s.cur = a) (hact : s.active = [a])
    (ha : a < s.nodes.length) (hr : r < s.nodes.length) (hjd : jd < s.nodes.length)
    (hsize : s.nodes.length ≤ 20000) (hndef : ∀ i, val (tree i) ≠ NETWORK_DEFAULT_ADDR)
    (hta : tree a = x) (htr : tree r = y) (htd : tree jd = d)
    (hy1 : nextHopSpec x d = y) (hy2 : nextHopSpec y d = d) (hxd : x ≠ d) (hyd : y ≠ d)
    (hquiet : ∀ i, i < s.nodes.length → (s.radioAt i).rxFifo = [])
    (hlast_r : NotDupFrame (s.radioAt r) (wireCopy (callerFrame x d s.nextId ty msg)))
    (hlast_d : NotDupFrame (s.radioAt jd) (wireCopy (callerFrame x d s.nextId ty msg)))
    (hlast_a : NotDupFrame (s.radioAt a) (ackOf (wireCopy (callerFrame x d s.nextId ty msg))))
    (hty : 65 ≤ ty ∧ ty ≤ 127) (hlen : msg.length ≤ MAX_FRAG_SIZE)
    (hmax : msg.length ≤ (s.nodeAt a).maxMessageLength)
    (hacc : Accepts (s.nodeAt jd).queue (wireCopy (callerFrame x d s.nextId ty msg))) :
    AckType ty.toNat ∧ originRule x d ty.toNat = .await ∧ forwarderRule y x d ty.toNat = .emit ∧
    ∃ s1, nexec (apiNetWrite (val d) ty msg AUTO_ROUTING) s =
        (.ok (true, callerFrame x d s.nextId ty msg), s1) ∧
      DeliveredOnce s.nodes s1.nodes jd (val x) ty.toNat msg := by
  have hat : AckType ty.toNat := by unfold AckType; omega
  have hxy : x ≠ y := by rw [← hy1]; exact fun e => nextHop_ne_self hxd e.symm
  refine ⟨hat, ?_, ?_, live_two_hops hc cfg hcfg L tree s a r jd x y d ty msg hok hcur hact ha hr hjd hsize hndef
    hta htr htd hy1 hy2 hxd hyd hquiet hlast_r hlast_d hlast_a hty hlen hmax hacc⟩
  · unfold originRule
    rw [if_pos ⟨hat, by rw [hy1]; exact hyd⟩]
  · unfold forwarderRule
    rw [if_pos ⟨hat, hy2, hxy⟩]

/-- non-vacuity: every hypothesis other than the driver contracts holds for the concrete chain
    `0o0 — 0o1 — 0o11` of `NrfProofs/C05Example3.lean`, the grandchild writing `[9, 8, 7]` with type 100
    to the master (running the model: `True`, air log data → data → NETWORK_ACK, master's queue
    holds the message) -/
example (hc : L3Contracts) : ∃ s1,
    nexec (apiNetWrite (val []) 100 [9, 8, 7] AUTO_ROUTING) Example.three =
      (.ok (true, callerFrame [1, 1] [] 6 100 [9, 8, 7]), s1) ∧
    DeliveredOnce Example.three.nodes s1.nodes 0 (val [1, 1]) 100 [9, 8, 7] :=
  (C13_live_partial hc {} (by decide) Example.L Example.tree3 Example.three 2 1 0 [1, 1] [1] [] 100 [9, 8, 7]
    Example.three_ok rfl rfl (by decide) (by decide) (by decide) (by decide)
    (by
      intro i
      match i with
      | 0 => decide
      | 1 => decide
      | 2 => decide
      | n + 3 =>
        show val [5, 5, 5, 5 - n % 4] ≠ 0o4444
        simp only [val]
        omega)
    rfl rfl rfl (by decide) (by decide) (by decide) (by decide)
    (by
      intro i hi
      have hi' : i < 3 := hi
      have : i = 0 ∨ i = 1 ∨ i = 2 := by omega
      rcases this with rfl | rfl | rfl <;> decide)
    (NotDupFrame.of_none (by decide)) (NotDupFrame.of_none (by decide)) (NotDupFrame.of_none (by decide))
    (by decide) (by decide) (by decide)
    ⟨by decide, by intro g hg; cases hg⟩).2.2.2

/-! ## the same, with the driver contracts proved -/

/-- **`C13_live_partial` unconditionally**: `l3contracts : L3Contracts` (NrfProofs/L3Discharge.lean) proves the
    six driver contracts from the driver model over the chip and the air; what is missing for the general
    `C13_live_route_partial` is listed at `C13_live_partial` -/
theorem C13_live_closed_partial (cfg : AddrCfg) (hcfg : CfgOk cfg) (L : LinkCfg)
    (tree : Nat → List Nat) (s : NetState) (a r jd : Nat) (x y d : List Nat) (ty : Int) (msg : Bytes)
    (hok : NetOk cfg L tree s) (hcur : s.cur = a) (hact : s.active = [a])
    (ha : a < s.nodes.length) (hr : r < s.nodes.length) (hjd : jd < s.nodes.length)
    (hsize : s.nodes.length ≤ 20000) (hndef : ∀ i, val (tree i) ≠ NETWORK_DEFAULT_ADDR)
    (hta : tree a = x) (htr : tree r = y) (htd : tree jd = d)
    (hy1 : nextHopSpec x d = y) (hy2 : nextHopSpec y d = d) (hxd : x ≠ d) (hyd : y ≠ d)
    (hquiet : ∀ i, i < s.nodes.length → (s.radioAt i).rxFifo = [])
    (hlast_r : NotDupFrame (s.radioAt r) (wireCopy (callerFrame x d s.nextId ty msg)))
    (hlast_d : NotDupFrame (s.radioAt jd) (wireCopy (callerFrame x d s.nextId ty msg)))
    (hlast_a : NotDupFrame (s.radioAt a) (ackOf (wireCopy (callerFrame x d s.nextId ty msg))))
    (hty : 65 ≤ ty ∧ ty ≤ 127) (hlen : msg.length ≤ MAX_FRAG_SIZE)
    (hmax : msg.length ≤ (s.nodeAt a).maxMessageLength)
    (hacc : Accepts (s.nodeAt jd).queue (wireCopy (callerFrame x d s.nextId ty msg))) :
    AckType ty.toNat ∧ originRule x d ty.toNat = .await ∧ forwarderRule y x d ty.toNat = .emit ∧
    ∃ s1, nexec (apiNetWrite (val d) ty msg AUTO_ROUTING) s =
        (.ok (true, callerFrame x d s.nextId ty msg), s1) ∧
      DeliveredOnce s.nodes s1.nodes jd (val x) ty.toNat msg :=
  C13_live_partial l3contracts cfg hcfg L tree s a r jd x y d ty msg hok hcur hact ha hr hjd hsize hndef hta
    htr htd hy1 hy2 hxd hyd hquiet hlast_r hlast_d hlast_a hty hlen hmax hacc

/-- non-vacuity (the chain `0o0 — 0o1 — 0o11` of `NrfProofs/C05Example3.lean`), without any open hypothesis -/
example : ∃ s1,
    nexec (apiNetWrite (val []) 100 [9, 8, 7] AUTO_ROUTING) Example.three =
      (.ok (true, callerFrame [1, 1] [] 6 100 [9, 8, 7]), s1) ∧
    DeliveredOnce Example.three.nodes s1.nodes 0 (val [1, 1]) 100 [9, 8, 7] :=
  (C13_live_closed_partial {} (by decide) Example.L Example.tree3 Example.three 2 1 0 [1, 1] [1] [] 100 [9, 8, 7]
    Example.three_ok rfl rfl (by decide) (by decide) (by decide) (by decide)
    (by
      intro i
      match i with
      | 0 => decide
      | 1 => decide
      | 2 => decide
      | n + 3 =>
        show val [5, 5, 5, 5 - n % 4] ≠ 0o4444
        simp only [val]
        omega)
    rfl rfl rfl (by decide) (by decide) (by decide) (by decide)
    (by
      intro i hi
      have hi' : i < 3 := hi
      have : i = 0 ∨ i = 1 ∨ i = 2 := by omega
      rcases this with rfl | rfl | rfl <;> decide)
    (NotDupFrame.of_none (by decide)) (NotDupFrame.of_none (by decide)) (NotDupFrame.of_none (by decide))
    (by decide) (by decide) (by decide)
    ⟨by decide, by intro g hg; cases hg⟩).2.2.2

/-! ## live: the acknowledgement comes back over a route of any length

What happens (worked out on the model; replayed on the real code on 3- and 4-hop chains, and by the
correspondence runs of `./check C13` over 1..8 hops): the scheduling point of
`send()` lies before the transmission, so a router that has forwarded the frame restores listening
and returns to its `_net_update()` loop; its successor runs inside the router's *next* `read()`, i.e.
while the router is suspended on the call stack **listening**.  The NETWORK_ACK of the last router
therefore finds every router on the way back in RX mode with an empty RX FIFO; each relays it (a
frame for another node, type 193: no acknowledgement business) when its own `read()` resumes.  The
induction (NrfProofs/C13HopsRoute.lean: `HoldingA` → `ArrivedA`, from the last router backwards) carries
"the node before me is suspended, listening, FIFO empty, has not taken this acknowledgement as its last
packet" → "the node before me holds exactly the acknowledgement; the destination got the frame; all else quiet". -/

/-- **Liveness of the NETWORK_ACK round trip over a tree route of any length** — closed system with the
    schedule of `runOthers`, loss-free (`faults = []` is part of `NetOk`), under the driver contracts
    `L3Contracts`.  In a tree network in which every node listens on its tree addresses (`NetOk`), nobody
    has address `0o4444`, all RX FIFOs are empty, node `a` writes a single-frame message (≤ 24 bytes) of an
    acknowledged type — a user type 65..127, or a system type 129, 132..147, 151..191 when the destination
    does not return system messages to the caller of `update()` (`ret_sys_msg = False`, the default of
    `RF24Network`; the six types 128, 130, 131, 148, 149, 150 are left out: consumed, rewritten, fragment types,
    or — 131 — ending the `_net_update()` call) — for `d`, `dist (tree a) d ≥ 2` hops away (C04: at most 8); every node of the tree
    route — origin, routers, destination — is present; the packet accepted last by the radio of each router
    and of the destination (if any: the nodes need NOT be fresh) does not carry this frame's bytes (`hroute`),
    and the one accepted last by the origin's radio does not carry the bytes of this frame's NETWORK_ACK
    (`horig`; `NotDupFrame`, NrfProofs/C05Closed.lean: the chip's duplicate filter compares PID, address and
    data — different data suffices; `ackOf fr` = `fr` with type 193 and `to := from`); the destination's queue
    accepts the frame.  Then:
    * the type is acknowledged and the origin's rule is to wait (two facts about the pure rules; the former
      third conjunct "the positions that take the emit decision are `[dist - 1]`" was a restatement of
      `C13_once_decision`, said nothing about the run, and has been removed from this theorem);
    * **`write()` returns `True`** — the first hop accepts the frame; inside the first `read()` of the
      origin's wait loop the whole route runs, nested: each router forwards, its successor runs inside
      its next `read()`, the last router delivers to `d`, emits the NETWORK_ACK (the destination taking
      its frame at the scheduling point of that transmission), and the acknowledgement is relayed back
      by each suspended router as its `read()` resumes; the origin reads it in that same first
      `_net_update()`;
    * the destination's queue has gained **exactly that message**, and the queue of every other node —
      routers and origin included — is unchanged (`DeliveredOnce`);
    * when `write()` has returned **every RX FIFO of the network is empty**: the NETWORK_ACK was consumed by
      the origin, no second copy of the frame or of the acknowledgement is waiting anywhere.

    What the air log of this run looks like is stated by `C13_live_route_air_closed_partial` at the end of
    this file (on the chain `0o0 — 0o1 — 0o11 — 0o111` the new records of
    `World.air` are data by nodes 3, 2, 1, then the type-193 frame by node 1 (the last router, its originator)
    and by node 2 (relay), every record a single acknowledged attempt).

    `_partial`: ONE schedule (`runOthers`), loss-free; a last router that receives the frame twice
    (retransmission after a lost ESB ACK) and every other schedule are not covered. -/
theorem C13_live_route_partial (hc : L3Contracts) (cfg : AddrCfg) (hcfg : CfgOk cfg) (L : LinkCfg)
    (tree : Nat → List Nat) (s : NetState) (a : Nat) (d : List Nat) (ty : Int) (msg : Bytes)
    (hok : NetOk cfg L tree s) (hcur : s.cur = a) (hact : s.active = [a]) (ha : a < s.nodes.length)
    (hsize : s.nodes.length ≤ 20000) (hndef : ∀ i, val (tree i) ≠ NETWORK_DEFAULT_ADDR)
    (h2 : 2 ≤ dist (tree a) d)
    (hroute : ∀ k, 1 ≤ k → k ≤ dist (tree a) d →
      ∃ j, j < s.nodes.length ∧ tree j = hops k (tree a) d ∧
        NotDupFrame (s.radioAt j) (wireCopy (callerFrame (tree a) d s.nextId ty msg)))
    (horig : NotDupFrame (s.radioAt a) (ackOf (wireCopy (callerFrame (tree a) d s.nextId ty msg))))
    (hquiet : ∀ i, i < s.nodes.length → (s.radioAt i).rxFifo = [])
    (hty : 65 ≤ ty ∧ ty ≤ 191)
    (hsys : ty ≤ 127 ∨ ((∀ j, j < s.nodes.length → tree j = d → (s.nodeAt j).retSysMsg = false) ∧
      ty ≠ 128 ∧ ty ≠ 130 ∧ ty ≠ 131 ∧ ty ≠ 148 ∧ ty ≠ 149 ∧ ty ≠ 150))
    (hlen : msg.length ≤ MAX_FRAG_SIZE)
    (hmax : msg.length ≤ (s.nodeAt a).maxMessageLength)
    (hacc : ∀ j, j < s.nodes.length → tree j = d →
      Accepts (s.nodeAt j).queue (wireCopy (callerFrame (tree a) d s.nextId ty msg))) :
    AckType ty.toNat ∧ originRule (tree a) d ty.toNat = .await ∧
    ∃ s1 jd, jd < s.nodes.length ∧ tree jd = d ∧
      nexec (apiNetWrite (val d) ty msg AUTO_ROUTING) s =
        (.ok (true, callerFrame (tree a) d s.nextId ty msg), s1) ∧
      DeliveredOnce s.nodes s1.nodes jd (val (tree a)) ty.toNat msg ∧
      ∀ i, i < s.nodes.length → (s1.radioAt i).rxFifo = [] := by
  have hat : AckType ty.toNat := by unfold AckType; omega
  have hxn : IsNode (tree a) := (hok.node a ha).1
  obtain ⟨jd, hjd, htjd, _⟩ := hroute (dist (tree a) d) (by omega) (Nat.le_refl _)
  rw [hops_dist] at htjd
  have hdn : IsNode d := by have := (hok.node jd hjd).1; rw [htjd] at this; exact this
  have hxd : tree a ≠ d := by
    intro e; rw [e, dist_self] at h2; omega
  have hy1d : nextHopSpec (tree a) d ≠ d := by
    intro e
    have := dist_nextHop hxd
    rw [e, dist_self] at this; omega
  refine ⟨hat, ?_, ?_⟩
  · unfold originRule
    rw [if_pos ⟨hat, hy1d⟩]
  · have hsys' : ∀ j, j < s.nodes.length → tree j = d → Hops.SysOk ty.toNat (s.nodeAt j).retSysMsg := by
      intro j hj htj
      unfold Hops.SysOk MAX_USR_DEF_MSG_TYPE
      rcases hsys with h | ⟨h1, h3⟩
      · refine ⟨Or.inl (by omega), ?_⟩
        omega
      · refine ⟨Or.inr (h1 j hj htj), ?_⟩
        omega
    exact Hops.live_route hc cfg hcfg L tree s a d ty msg hok hcur hact ha hsize hndef h2 hroute horig hquiet hty hsys' hlen
      hmax hacc

/-- non-vacuity: every hypothesis other than the driver contracts holds for the concrete chain
    `0o0 — 0o1 — 0o11 — 0o111` of `NrfProofs/C13HopsExample.lean`, the great-grandchild writing `[9, 8, 7]` with
    type 100 to the master over three hops (running the model: `True`, air log data → data → data →
    NETWORK_ACK → NETWORK_ACK, the master's queue holds the message) -/
example (hc : L3Contracts) : ∃ s1,
    nexec (apiNetWrite (val []) 100 [9, 8, 7] AUTO_ROUTING) Example.Hops.four =
      (.ok (true, callerFrame [1, 1, 1] [] 8 100 [9, 8, 7]), s1) ∧
    DeliveredOnce Example.Hops.four.nodes s1.nodes 0 (val [1, 1, 1]) 100 [9, 8, 7] := by
  obtain ⟨_, _, s1, jd, hjd, htjd, hw, hdel, _⟩ :=
    C13_live_route_partial hc {} (by decide) Example.L Example.Hops.tree4 Example.Hops.four 3 [] 100 [9, 8, 7]
      Example.Hops.four_ok rfl rfl (by decide) (by decide) Example.Hops.four_ndef (by decide)
      (by
        intro k hk1 hk
        have hd : dist (Example.Hops.tree4 3) [] = 3 := by decide
        rw [hd] at hk
        have : k = 1 ∨ k = 2 ∨ k = 3 := by omega
        rcases this with rfl | rfl | rfl
        · exact ⟨2, by decide, by decide, NotDupFrame.of_none (by decide)⟩
        · exact ⟨1, by decide, by decide, NotDupFrame.of_none (by decide)⟩
        · exact ⟨0, by decide, by decide, NotDupFrame.of_none (by decide)⟩)
      (NotDupFrame.of_none (by decide))
      (by
        intro i hi
        rcases Example.Hops.four_lt i hi with rfl | rfl | rfl | rfl <;> decide)
      (by decide) (Or.inl (by decide)) (by decide) (by decide)
      (by
        intro j hj htj
        rcases Example.Hops.four_lt j hj with rfl | rfl | rfl | rfl
        · exact ⟨by decide, by intro g hg; cases hg⟩
        · exact absurd htj (by decide)
        · exact absurd htj (by decide)
        · exact absurd htj (by decide))
  have : jd = 0 := by
    rcases Example.Hops.four_lt jd hjd with rfl | rfl | rfl | rfl
    · rfl
    · exact absurd htjd (by decide)
    · exact absurd htjd (by decide)
    · exact absurd htjd (by decide)
  subst this
  exact ⟨s1, hw, hdel⟩

/-- **`C13_live_route_partial` unconditionally**: `l3contracts : L3Contracts` (NrfProofs/L3Discharge.lean) proves the six
    driver contracts from the driver model over the chip and the air.  Closed `runOthers` system,
    loss-free, `NetOk` network with all RX FIFOs empty and the route's nodes present (not necessarily fresh:
    `NotDupFrame`), a type in
    65..191 that the destination queues (all user types; system types but 128, 130, 131, 148..150 at a
    destination with `ret_sys_msg = False`), ≤ 24 bytes, tree route of `k ≥ 2` hops from `tree a` to `d`: `write()` at `a` returns `True`;
    the destination's queue gained exactly the message; every router's and the origin's queue is unchanged;
    every RX FIFO is empty afterwards.  (No conjunct about who emits: see `C13_once_decision` for the pure
    decision and `C13_live_route_air_closed_partial` for the run.) -/
theorem C13_live_route_closed_partial (cfg : AddrCfg) (hcfg : CfgOk cfg) (L : LinkCfg)
    (tree : Nat → List Nat) (s : NetState) (a : Nat) (d : List Nat) (ty : Int) (msg : Bytes)
    (hok : NetOk cfg L tree s) (hcur : s.cur = a) (hact : s.active = [a]) (ha : a < s.nodes.length)
    (hsize : s.nodes.length ≤ 20000) (hndef : ∀ i, val (tree i) ≠ NETWORK_DEFAULT_ADDR)
    (h2 : 2 ≤ dist (tree a) d)
    (hroute : ∀ k, 1 ≤ k → k ≤ dist (tree a) d →
      ∃ j, j < s.nodes.length ∧ tree j = hops k (tree a) d ∧
        NotDupFrame (s.radioAt j) (wireCopy (callerFrame (tree a) d s.nextId ty msg)))
    (horig : NotDupFrame (s.radioAt a) (ackOf (wireCopy (callerFrame (tree a) d s.nextId ty msg))))
    (hquiet : ∀ i, i < s.nodes.length → (s.radioAt i).rxFifo = [])
    (hty : 65 ≤ ty ∧ ty ≤ 191)
    (hsys : ty ≤ 127 ∨ ((∀ j, j < s.nodes.length → tree j = d → (s.nodeAt j).retSysMsg = false) ∧
      ty ≠ 128 ∧ ty ≠ 130 ∧ ty ≠ 131 ∧ ty ≠ 148 ∧ ty ≠ 149 ∧ ty ≠ 150))
    (hlen : msg.length ≤ MAX_FRAG_SIZE)
    (hmax : msg.length ≤ (s.nodeAt a).maxMessageLength)
    (hacc : ∀ j, j < s.nodes.length → tree j = d →
      Accepts (s.nodeAt j).queue (wireCopy (callerFrame (tree a) d s.nextId ty msg))) :
    AckType ty.toNat ∧ originRule (tree a) d ty.toNat = .await ∧
    ∃ s1 jd, jd < s.nodes.length ∧ tree jd = d ∧
      nexec (apiNetWrite (val d) ty msg AUTO_ROUTING) s =
        (.ok (true, callerFrame (tree a) d s.nextId ty msg), s1) ∧
      DeliveredOnce s.nodes s1.nodes jd (val (tree a)) ty.toNat msg ∧
      ∀ i, i < s.nodes.length → (s1.radioAt i).rxFifo = [] :=
  C13_live_route_partial l3contracts cfg hcfg L tree s a d ty msg hok hcur hact ha hsize hndef h2 hroute horig hquiet hty hsys hlen hmax
    hacc

/-- non-vacuity (the chain `0o0 — 0o1 — 0o11 — 0o111`, three hops), without any open hypothesis -/
example : ∃ s1 jd, jd < 4 ∧ Example.Hops.tree4 jd = [] ∧
    nexec (apiNetWrite (val []) 100 [9, 8, 7] AUTO_ROUTING) Example.Hops.four =
      (.ok (true, callerFrame [1, 1, 1] [] 8 100 [9, 8, 7]), s1) ∧
    DeliveredOnce Example.Hops.four.nodes s1.nodes jd (val [1, 1, 1]) 100 [9, 8, 7] ∧
    ∀ i, i < 4 → (s1.radioAt i).rxFifo = [] :=
  (C13_live_route_closed_partial {} (by decide) Example.L Example.Hops.tree4 Example.Hops.four 3 [] 100 [9, 8, 7]
      Example.Hops.four_ok rfl rfl (by decide) (by decide) Example.Hops.four_ndef (by decide)
      (by
        intro k hk1 hk
        have hd : dist (Example.Hops.tree4 3) [] = 3 := by decide
        rw [hd] at hk
        have : k = 1 ∨ k = 2 ∨ k = 3 := by omega
        rcases this with rfl | rfl | rfl
        · exact ⟨2, by decide, by decide, NotDupFrame.of_none (by decide)⟩
        · exact ⟨1, by decide, by decide, NotDupFrame.of_none (by decide)⟩
        · exact ⟨0, by decide, by decide, NotDupFrame.of_none (by decide)⟩)
      (NotDupFrame.of_none (by decide))
      (by
        intro i hi
        rcases Example.Hops.four_lt i hi with rfl | rfl | rfl | rfl <;> decide)
      (by decide) (Or.inl (by decide)) (by decide) (by decide)
      (by
        intro j hj htj
        rcases Example.Hops.four_lt j hj with rfl | rfl | rfl | rfl
        · exact ⟨by decide, by intro g hg; cases hg⟩
        · exact absurd htj (by decide)
        · exact absurd htj (by decide)
        · exact absurd htj (by decide))).2.2

/-- non-vacuity for a system type: the same chain, type 160 (the nodes are `RF24Network` objects,
    `ret_sys_msg = False`) -/
example : ∃ s1 jd, jd < 4 ∧ Example.Hops.tree4 jd = [] ∧
    nexec (apiNetWrite (val []) 160 [9, 8, 7] AUTO_ROUTING) Example.Hops.four =
      (.ok (true, callerFrame [1, 1, 1] [] 8 160 [9, 8, 7]), s1) ∧
    DeliveredOnce Example.Hops.four.nodes s1.nodes jd (val [1, 1, 1]) 160 [9, 8, 7] ∧
    ∀ i, i < 4 → (s1.radioAt i).rxFifo = [] :=
  (C13_live_route_closed_partial {} (by decide) Example.L Example.Hops.tree4 Example.Hops.four 3 [] 160 [9, 8, 7]
      Example.Hops.four_ok rfl rfl (by decide) (by decide) Example.Hops.four_ndef (by decide)
      (by
        intro k hk1 hk
        have hd : dist (Example.Hops.tree4 3) [] = 3 := by decide
        rw [hd] at hk
        have : k = 1 ∨ k = 2 ∨ k = 3 := by omega
        rcases this with rfl | rfl | rfl
        · exact ⟨2, by decide, by decide, NotDupFrame.of_none (by decide)⟩
        · exact ⟨1, by decide, by decide, NotDupFrame.of_none (by decide)⟩
        · exact ⟨0, by decide, by decide, NotDupFrame.of_none (by decide)⟩)
      (NotDupFrame.of_none (by decide))
      (by
        intro i hi
        rcases Example.Hops.four_lt i hi with rfl | rfl | rfl | rfl <;> decide)
      (by decide)
      (Or.inr ⟨by
        intro j hj _
        rcases Example.Hops.four_lt j hj with rfl | rfl | rfl | rfl <;> rfl, by decide⟩)
      (by decide) (by decide)
      (by
        intro j hj htj
        rcases Example.Hops.four_lt j hj with rfl | rfl | rfl | rfl
        · exact ⟨by decide, by intro g hg; cases hg⟩
        · exact absurd htj (by decide)
        · exact absurd htj (by decide)
        · exact absurd htj (by decide))).2.2

/-! ## live: what the run puts on the air

The run theorems above say nothing about `World.air`, the log of transmit cycles.  This one does.  It rests on
`AirContracts` (NrfProofs/AirContracts.lean: the air-log clause of each of the six RF24 calls, PROVED from the
driver / chip / air model as `airContracts`, NrfProofs/AirDischarge.lean) and on the route induction repeated with
the air log (NrfProofs/C13Air1–5.lean, `Air.live_route_air`). -/

/-- **The air log of the acknowledged journey** — closed `runOthers` system, loss-free, both contract sets
    proved (`l3contracts`, `airContracts`); hypotheses exactly those of `C13_live_route_closed_partial`.
    `write()` returns `True`, and the records `new` that `s1.w.air` has and `s.w.air` did not are EXACTLY, in
    this order (`Forall2 (SentBy tree s) new plan`: record by record; `SentBy … r (pos, data)`: `r` was sent by
    the radio of the node object at tree position `pos`, carries the bytes `data`, took a single attempt and
    was acknowledged):
    * the data frame `pk` (the packed wire copy of the caller's frame) by the origin `tree a`, then by each
      router `hops 1`, …, `hops (dist - 1)` — one transmission per hop, `dist` in all;
    * then the NETWORK_ACK `pkA` (= the same frame with type 193 and `to := from`, packed; `pk ≠ pkA`):
      first by the LAST router `hops (dist - 1)` — its originator —, then relayed by `hops (dist - 2)`, …,
      `hops 1`, each exactly once — `dist - 1` transmissions in all, none by the origin or the destination.
    So `new` has `2·dist - 1` records; nothing else went on the air: in this run **exactly one node
    originates a type-193 frame — the node that delivered the frame to its destination — and it does so
    once**.  (`ackPlan` is the nested form of that list, NrfProofs/C13AirPlan.lean; the two `filter` conjuncts
    spell out who sent `pkA` resp. `pk`, in order.)

    `_partial`: ONE schedule (`runOthers`), loss-free, ≥ 2 hops; packet loss / retransmissions / other
    schedules: correspondence runs of `./check C13` (judge on the real air log) only. -/
theorem C13_live_route_air_closed_partial (cfg : AddrCfg) (hcfg : CfgOk cfg) (L : LinkCfg)
    (tree : Nat → List Nat) (s : NetState) (a : Nat) (d : List Nat) (ty : Int) (msg : Bytes)
    (hok : NetOk cfg L tree s) (hcur : s.cur = a) (hact : s.active = [a]) (ha : a < s.nodes.length)
    (hsize : s.nodes.length ≤ 20000) (hndef : ∀ i, val (tree i) ≠ NETWORK_DEFAULT_ADDR)
    (h2 : 2 ≤ dist (tree a) d)
    (hroute : ∀ k, 1 ≤ k → k ≤ dist (tree a) d →
      ∃ j, j < s.nodes.length ∧ tree j = hops k (tree a) d ∧
        NotDupFrame (s.radioAt j) (wireCopy (callerFrame (tree a) d s.nextId ty msg)))
    (horig : NotDupFrame (s.radioAt a) (ackOf (wireCopy (callerFrame (tree a) d s.nextId ty msg))))
    (hquiet : ∀ i, i < s.nodes.length → (s.radioAt i).rxFifo = [])
    (hty : 65 ≤ ty ∧ ty ≤ 191)
    (hsys : ty ≤ 127 ∨ ((∀ j, j < s.nodes.length → tree j = d → (s.nodeAt j).retSysMsg = false) ∧
      ty ≠ 128 ∧ ty ≠ 130 ∧ ty ≠ 131 ∧ ty ≠ 148 ∧ ty ≠ 149 ∧ ty ≠ 150))
    (hlen : msg.length ≤ MAX_FRAG_SIZE)
    (hmax : msg.length ≤ (s.nodeAt a).maxMessageLength)
    (hacc : ∀ j, j < s.nodes.length → tree j = d →
      Accepts (s.nodeAt j).queue (wireCopy (callerFrame (tree a) d s.nextId ty msg))) :
    ∃ s1 pk pkA new,
      nexec (apiNetWrite (val d) ty msg AUTO_ROUTING) s =
        (.ok (true, callerFrame (tree a) d s.nextId ty msg), s1) ∧
      (wireCopy (callerFrame (tree a) d s.nextId ty msg)).pack = .ok pk ∧
      (ackOf (wireCopy (callerFrame (tree a) d s.nextId ty msg))).pack = .ok pkA ∧ pk ≠ pkA ∧
      s1.w.air = s.w.air ++ new ∧
      Forall2 (SentBy tree s) new ((tree a, pk) :: ackPlan (tree a) d pk pkA 1 (dist (tree a) d - 1)) ∧
      new.length = 2 * dist (tree a) d - 1 ∧
      Forall2 (SentBy tree s) (new.filter (fun r => decide (r.pkt.data = pkA)))
        (((List.range (dist (tree a) d - 1)).map (fun k => (hops (1 + k) (tree a) d, pkA))).reverse) ∧
      Forall2 (SentBy tree s) (new.filter (fun r => decide (r.pkt.data = pk)))
        ((tree a, pk) :: (List.range (dist (tree a) d - 1)).map (fun k => (hops (1 + k) (tree a) d, pk))) := by
  have hsys' : ∀ j, j < s.nodes.length → tree j = d → Hops.SysOk ty.toNat (s.nodeAt j).retSysMsg := by
    intro j hj htj
    unfold Hops.SysOk MAX_USR_DEF_MSG_TYPE
    rcases hsys with h | ⟨h1, h3⟩
    · refine ⟨Or.inl (by omega), ?_⟩
      omega
    · refine ⟨Or.inr (h1 j hj htj), ?_⟩
      omega
  obtain ⟨s1, jd, pk, pkA, new, _, _, hw, hpk, hpkA, hne, hair, hplan⟩ :=
    Air.live_route_air l3contracts airContracts cfg hcfg L tree s a d ty msg hok hcur hact ha hsize hndef h2 hroute
      horig hquiet hty hsys' hlen hmax hacc
  refine ⟨s1, pk, pkA, new, hw, hpk, hpkA, hne, hair, hplan, ?_, ?_, ?_⟩
  · rw [hplan.length, List.length_cons, ackPlan_length]; omega
  · have := hplan.filter (P := fun r => decide (r.pkt.data = pkA)) (Q := fun p => decide (p.2 = pkA))
      (fun r p ⟨_, _, _, _, h, _⟩ => by simp only [h])
    rw [List.filter_cons, if_neg (by simpa using hne), ackPlan_acks _ _ _ _ hne] at this
    exact this
  · have := hplan.filter (P := fun r => decide (r.pkt.data = pk)) (Q := fun p => decide (p.2 = pk))
      (fun r p ⟨_, _, _, _, h, _⟩ => by simp only [h])
    rw [List.filter_cons, if_pos (by simp), ackPlan_data _ _ _ _ hne] at this
    exact this

/-- non-vacuity: the chain `0o0 — 0o1 — 0o11 — 0o111` (three hops): five new records (running the model:
    data by nodes 3, 2, 1, then the type-193 frame by node 1 and by node 2) -/
example : ∃ s1 new,
    nexec (apiNetWrite (val []) 100 [9, 8, 7] AUTO_ROUTING) Example.Hops.four =
      (.ok (true, callerFrame [1, 1, 1] [] 8 100 [9, 8, 7]), s1) ∧
    s1.w.air = Example.Hops.four.w.air ++ new ∧ new.length = 5 := by
  obtain ⟨s1, pk, pkA, new, hw, _, _, _, hair, _, hlen, _, _⟩ :=
    C13_live_route_air_closed_partial {} (by decide) Example.L Example.Hops.tree4 Example.Hops.four 3 [] 100 [9, 8, 7]
      Example.Hops.four_ok rfl rfl (by decide) (by decide) Example.Hops.four_ndef (by decide)
      (by
        intro k hk1 hk
        have hd : dist (Example.Hops.tree4 3) [] = 3 := by decide
        rw [hd] at hk
        have : k = 1 ∨ k = 2 ∨ k = 3 := by omega
        rcases this with rfl | rfl | rfl
        · exact ⟨2, by decide, by decide, NotDupFrame.of_none (by decide)⟩
        · exact ⟨1, by decide, by decide, NotDupFrame.of_none (by decide)⟩
        · exact ⟨0, by decide, by decide, NotDupFrame.of_none (by decide)⟩)
      (NotDupFrame.of_none (by decide))
      (by
        intro i hi
        rcases Example.Hops.four_lt i hi with rfl | rfl | rfl | rfl <;> decide)
      (by decide) (Or.inl (by decide)) (by decide) (by decide)
      (by
        intro j hj htj
        rcases Example.Hops.four_lt j hj with rfl | rfl | rfl | rfl
        · exact ⟨by decide, by intro g hg; cases hg⟩
        · exact absurd htj (by decide)
        · exact absurd htj (by decide)
        · exact absurd htj (by decide))
  refine ⟨s1, new, hw, hair, ?_⟩
  rw [hlen]
  decide

/-! ## blocking: `_write` and its wait loop return

Open system (the other nodes do not run inside the call; what they send is the arrival script and the
RX FIFO content, what happens to this node's transmissions is the fault list — all arbitrary).  The
machinery is C15's (`TI`, the measure `M`, the simultaneous fuel induction `totAll` of
NrfProofs/C15Total.lean whose `nodeWrite` / `ackWait` clauses are exported here, with the two `RF24`
contracts it rests on proved: `c15contracts`). -/

/-- **`_write(write_direct, send_type)` returns.**  For every world (other radios, fault list, clock), RX FIFO
    content and arrival script (payloads of 1..32 bytes of any content), every node role, from any state `s`
    in which
    * the node listens (`NodeListens`, C07's invariant that `_begin` establishes and every call restores),
    * `TI Lm tt rt s` (C15's invariant: open system, `_addr` a node of the tree, `tx_timeout = tt` ms,
      `route_timeout = rt` ms, DYNPD / EN_DPL shadows on, transmitter idle, `frame_buf` ≤ `Lm` bytes, …),
    * `frame_buf` holds a single well-formed frame (`HdrOk`: `int` type, valid `from_node` / `to_node`,
      reserved byte < 256, message ≤ 24 bytes — the property's "single-frame"),
    * the target can be asked for (`WdOk`: a valid logical address for `TX_NORMAL` / `TX_ROUTED`, an address
      with a pipe-0 address for the direct send types),
    with any fuel `f ≥ writeFuel Lm tt rt s.M = M + 400·tt + 2·(Lm/24) + 100·rt + 40`: the call ends with
    `.ok` — no exception, no `DIVERGE` —, the node listens again, `TI` holds again (so the next call
    returns as well), the node's clock did not run backwards and no frame reappeared (`M` did not grow).

    Every `_write`: all message types, all five send types, waiting for a NETWORK_ACK or not, emitting one or
    not, whatever `_net_update()` handles and forwards while waiting.  What the fuel counts: loop iterations and
    nested calls — each `_tx_standby(tt)` makes ≤ 100·tt `resend()` calls (≥ 10 µs of virtual time each), the
    wait loop ≤ 100·rt `_net_update()` calls (≥ one 10 µs `read()` each) plus one `read()` per frame.  It is a
    bound in ITERATIONS; for nanoseconds see `C13_write_blocking_partial`. -/
theorem C13_write_returns (Lm tt rt : Nat) (hLm : 24 ≤ Lm) (s : NetState) (hl : NodeListens s)
    (hi : TI Lm tt rt s) (hok : HdrOk s.node) (wd st : Nat) (hwd : WdOk s.node.cfg wd st) (f : Nat)
    (hf : writeFuel Lm tt rt s.M ≤ f) :
    ∃ r s', nexec (nodeWrite f wd st) s = (.ok r, s') ∧ NodeListens s' ∧ TI Lm tt rt s' ∧
      s.w.clock ≤ s'.w.clock ∧ s'.M ≤ s.M := by
  obtain ⟨r, s', h, a, b, np⟩ := write_returns hLm s hl hi hok wd st hwd f hf
  exact ⟨r, s', h, a, b, np.clock, np.m⟩

/-- a concrete session for the non-vacuity examples of this section: an `RF24Network` object after
    `RF24.__init__` with a type-100 frame for the grandchild `0o11` in `frame_buf`, a payload in the RX FIFO
    and a scripted arrival; it is on the call stack.  The examples use the state `_begin(0)` leaves. -/
def demoW : NetState :=
  { nodes := [{ rf := { pipes0 := [0xE7, 0xE7, 0xE7, 0xE7, 0xE7] }, a := nodeOf 0 0,
                frameBuf := ⟨{ fromNode := 0, toNode := 0o11, frameId := 1, msgType := .int 100 }, [9, 8, 7]⟩,
                arrivals := [(3000000, 1, [1, 0, 6, 0, 2, 0, 1, 0, 0x78])] }],
    cur := 0, active := [0],
    w := { radios := [{ dynpd := 0x3F, feature := 5,
                        rxFifo := [{ pipe := 1, data := [1, 2, 3] }] }], busyUntil := [0] },
    closed := false }

instance (b : Bytes) : Decidable (RxOk b) := by unfold RxOk; infer_instance

theorem C13_demoW_ti : TI 144 25 75 demoW where
  open_ := rfl
  cur := by decide
  good := Nrf.Props.C07.C07_good_of (by unfold Nrf.Props.C07.CfgBytes; decide)
  tree := ⟨[], by decide, 0, by decide, by decide⟩
  tt := rfl
  rt := rfl
  dyn := by decide
  feat := by decide
  txs := ⟨⟨Or.inl rfl, fun _ h => (by cases h), Nat.zero_le _⟩, fun h => absurd rfl h, by decide⟩
  msg := by decide
  rx := by decide
  arr := by decide
  tab := by decide

/-- `_begin(0)` from any session state of the shape `RF24.__init__` leaves (stated for a VARIABLE state so that
    no elaborator ever runs the model on a concrete one) -/
theorem C13_begun_of (s : NetState) (hcur : s.cur < s.nodes.length) (hw : s.drv.Wf)
    (hb : Base s.drv.d s.drv.cfg) (hg : GoodCfg s.node.cfg) (hti : TI 144 25 75 s) :
    ∃ s', NodeListens s' ∧ TI 144 25 75 s' ∧ s'.node.frameBuf = s.node.frameBuf ∧ s'.cur = s.cur ∧
      s'.active = s.active ∧ s'.node.a = nodeOf (val []) ([] : List Nat).length ∧ s'.M ≤ s.M := by
  have h1 := n_begin (E := noErr)
    (Q := fun _ s' => NodeListens s' ∧ NFr0 s s' ∧ s'.node.a = nodeOf (val []) ([] : List Nat).length)
    hcur hw hb hg (ds := []) (by decide) (fun s' a b c => ⟨a, b, c⟩)
  obtain ⟨_, s', hex, hl, hfr, ha⟩ := (wp_no_iff _ _ _).1 h1
  obtain ⟨hti', hnp, hfb, _⟩ := (wp_any_iff _ _ _).1 (ti_begin hti (ds := []) (by decide)) () s' hex
  exact ⟨s', hl, hti', hfb, hfr.cur, hfr.active, ha, hnp.m⟩

/-- the state `_begin(0)` leaves from `demoW` satisfies EVERY hypothesis of the three theorems of this section
    at once: it listens, `TI` with the default timeouts, `HdrOk`, `WdOk` for `_write(0o11, TX_NORMAL)`, the
    node is on the call stack, the frame's type 100 is acknowledged, the first hop (`0o1`) is not the
    destination; two frames can still be read -/
theorem C13_demoW_begun : ∃ s, NodeListens s ∧ TI 144 25 75 s ∧ HdrOk s.node ∧ WdOk s.node.cfg 0o11 TX_NORMAL ∧
    s.cur ∈ s.active ∧ s.node.frameBuf.header.msgType = .int 100 ∧ AckType 100 ∧
    (logi2phys s.node.a 0o11 TX_NORMAL).1 ≠ 0o11 ∧ s.M ≤ 2 := by
  have hb : demoW.cur < demoW.nodes.length ∧ demoW.drv.Wf ∧ Base demoW.drv.d demoW.drv.cfg := by
    refine ⟨by decide, ?_, ?_⟩
    · show demoW.drv.d.rid < demoW.drv.w.radios.length; decide
    · constructor <;> decide
  have hg : GoodCfg demoW.node.cfg :=
    Nrf.Props.C07.C07_good_of (by unfold Nrf.Props.C07.CfgBytes; decide)
  obtain ⟨s', hl, hti, hfb, hc, hact, ha, hm⟩ := C13_begun_of demoW hb.1 hb.2.1 hb.2.2 hg C13_demoW_ti
  have hv : isValid 0o11 = true := isValid_tree (ds := [1, 1]) (by decide)
  have hfrom : isValid demoW.node.frameBuf.header.fromNode = true := isValid_zero
  have hto : isValid demoW.node.frameBuf.header.toNode = true := hv
  have h3 : demoW.M = 2 := by decide
  have h4 : demoW.cur ∈ demoW.active := by decide
  have h5 : (logi2phys (nodeOf (val []) ([] : List Nat).length) 0o11 TX_NORMAL).1 ≠ 0o11 := by decide
  refine ⟨s', hl, hti, ?_, ?_, ?_, ?_, by decide, ?_, ?_⟩
  · unfold HdrOk; rw [hfb]
    exact ⟨⟨100, rfl⟩, hfrom, hto, by decide, by decide⟩
  · exact ⟨fun _ => hv, fun h => absurd h (by decide)⟩
  · rw [hc, hact]; exact h4
  · rw [hfb]; rfl
  · rw [ha]; exact h5
  · omega

/-- non-vacuity of `C13_write_returns`: all hypotheses hold in the state of `C13_demoW_begun` (the fuel bound is
    a concrete number there: at most 17654), so `_write(0o11, TX_NORMAL)` returns from it -/
example : ∃ s r s', nexec (nodeWrite 17654 0o11 TX_NORMAL) s = (.ok r, s') ∧ NodeListens s' := by
  obtain ⟨s, hl, hi, hok, hwd, _, _, _, _, hm⟩ := C13_demoW_begun
  obtain ⟨r, s', h, hl', _⟩ := C13_write_returns 144 25 75 (by decide) s hl hi hok 0o11 TX_NORMAL hwd 17654
    (by unfold writeFuel; omega)
  exact ⟨s, r, s', h, hl'⟩

/-- **`_write` that cannot wait returns with a fuel that does not depend on `route_timeout` or on the waiting
    frames.**  Same hypotheses as `C13_write_returns`, plus `NoWait st ty`: the type in `frame_buf` is outside
    65..191, or the send type is not `TX_NORMAL` / `TX_LOGICAL` — every forwarder (`TX_ROUTED`, including the last
    router that EMITS the NETWORK_ACK: two `_write_to_pipe` in a row), every direct / multicast send, every
    message of another type.  Fuel `≥ writeFuel0 Lm tt = 200·tt + Lm/24 + 16` iterations: the call ends with `.ok`,
    listening, `TI` and `HdrOk` hold again.  An ITERATION bound (≤ 100·tt + 3 `resend()` per `_tx_standby`), not ns. -/
theorem C13_write_returns_nowait (Lm tt rt : Nat) (hLm : 24 ≤ Lm) (s : NetState) (hl : NodeListens s)
    (hi : TI Lm tt rt s) (hok : HdrOk s.node) (wd st : Nat) (hwd : WdOk s.node.cfg wd st)
    (hnw : NoWait st s.node.frameBuf.header.ty) (f : Nat) (hf : writeFuel0 Lm tt ≤ f) :
    ∃ r s', nexec (nodeWrite f wd st) s = (.ok r, s') ∧ NodeListens s' ∧ TI Lm tt rt s' ∧
      s.w.clock ≤ s'.w.clock ∧ s'.M ≤ s.M ∧ HdrOk s'.node := by
  obtain ⟨r, s', h, a, b, np, c⟩ := write_returns_nowait hLm s hl hi hok wd st hwd hnw f hf
  exact ⟨r, s', h, a, b, np.clock, np.m, c⟩

/-- non-vacuity: the state of `C13_demoW_begun`, the frame handed on as a forwarder would (`TX_ROUTED`) -/
example : ∃ s r s', nexec (nodeWrite 5022 0o11 TX_ROUTED) s = (.ok r, s') ∧ NodeListens s' := by
  obtain ⟨s, hl, hi, hok, hwd, _⟩ := C13_demoW_begun
  obtain ⟨r, s', h, hl', _⟩ := C13_write_returns_nowait 144 25 75 (by decide) s hl hi hok 0o11 TX_ROUTED
    ⟨fun _ => hwd.1 (by decide), fun h => absurd h (by decide)⟩ (noWait_of_st (by decide)) 5022
    (by unfold writeFuel0; omega)
  exact ⟨s, r, s', h, hl'⟩

/-- **The NETWORK_ACK wait loop returns, and when.**  Open system, every environment; from a listening node with
    `TI`, on the call stack, for every deadline `dl` (ns), with any fuel
    `f ≥ waitFuel = (dl + 10000 - now)/10000 + M + 200·tt + Lm/24 + 22`: the loop ends with `.ok res`; the node
    listens and `TI` holds again; and (`obs` = the record of its `_net_update()` calls, `C13_believed`) its exit
    clock is the end of its LAST call, which began no later than the deadline or is the very first one — every
    earlier call ended by the deadline; `False` is only said past the deadline.

    `_partial`: "exit ≤ max(deadline, entry) + the duration of ONE `_net_update()` call", and that duration
    (`last.stop - last.start`) is not bounded by any theorem: the call handles every frame that is waiting
    (forwarding each costs up to a `_tx_standby(tx_timeout)`), and the model's invariant does not bound a single
    SPI transaction in ns (see the file header). -/
theorem C13_wait_returns_partial (Lm tt rt : Nat) (hLm : 24 ≤ Lm) (s : NetState) (hl : NodeListens s)
    (hi : TI Lm tt rt s) (hs : s.cur ∈ s.active) (dl f : Nat) (hf : waitFuel Lm tt s.M dl s.w.clock ≤ f) :
    ∃ res s' obs init last, nexec (ackWait f dl) s = (.ok res, s') ∧
      nexec (ackWaitT f dl) s = (.ok (res, obs), s') ∧ obs = init ++ [last] ∧
      NodeListens s' ∧ TI Lm tt rt s' ∧
      s'.w.clock = last.stop ∧ (last.start ≤ dl ∨ last.start = s.w.clock) ∧
      (∀ o ∈ init, o.stop ≤ dl) ∧ (res = false → dl < s'.w.clock) := by
  obtain ⟨res, s', h, a, b, _⟩ := wait_returns hLm s hl hi dl f hf
  obtain ⟨obs, hobs⟩ := ackWait_ok_iff.mp h
  obtain ⟨init, last, e, _, hinit, _, hfa, hclk, hstart⟩ := C13_believed f dl s s' res obs hs hobs
  refine ⟨res, s', obs, init, last, h, hobs, e, a, b, hclk, hstart, fun o ho => (hinit o ho).2, fun hr => ?_⟩
  rw [hclk]; exact (hfa hr).2

/-- non-vacuity: the state of `C13_demoW_begun`, deadline 75 ms after its clock (fuel: 75·100 + 1 + 2 + 5000 + 6 + 22) -/
example : ∃ s res s', nexec (ackWait 12531 (75000000 + s.w.clock) ) s = (.ok res, s') := by
  obtain ⟨s, hl, hi, _, _, hs, _, _, _, hm⟩ := C13_demoW_begun
  obtain ⟨res, s', _, _, _, h, _⟩ := C13_wait_returns_partial 144 25 75 (by decide) s hl hi hs
    (75000000 + s.w.clock) 12531 (by unfold waitFuel; omega)
  exact ⟨s, res, s', h⟩

/-- **`_write` in the wait case: it returns, and when.**  `C13_write_returns` and `C13_believed_write` together:
    the origin of a single frame of a type in 65..191 whose first hop is not the destination (`TX_NORMAL`;
    `TX_LOGICAL` can be named but never satisfies the hop condition) — open system, every environment, fuel
    `≥ writeFuel`.  The call ends with `.ok res`, listening, and either
    * the first hop refused the frame: `res = False`, no wait; or
    * it accepted it (`s1`), listening was restored (`s2`, clock `t2`), and the wait loop ran with deadline
      `route_timeout·10⁶ + t2`: the exit clock of `_write` is the end of the loop's LAST `_net_update()` call,
      which began no later than `route_timeout·10⁶ + t2`; every earlier call ended by then; `False` only past it.

    `_partial` — this is NOT the property's "never blocking longer than the transmit and route timeouts allow"
    in nanoseconds: (1) `t2 - entry`, the transmit phase (`_write_to_pipe`: configuration, `send()`, then
    `_tx_standby(tx_timeout)`), is bounded only in iterations (fuel: ≤ 100·tx_timeout + 3 `resend()` calls), not
    in ns; (2) the duration of the last `_net_update()` call is not bounded.  Both need an invariant "the radio
    is not busy beyond the node's clock" carried through C15's whole induction, which `TI` does not have. -/
theorem C13_write_blocking_partial (Lm tt rt : Nat) (hLm : 24 ≤ Lm) (s : NetState) (hl : NodeListens s)
    (hi : TI Lm tt rt s) (hok : HdrOk s.node) (hs : s.cur ∈ s.active) (wd st t : Nat)
    (hwd : WdOk s.node.cfg wd st) (ht : s.node.frameBuf.header.msgType = .int t) (hty : AckType t)
    (hhop : (logi2phys s.node.a wd st).1 ≠ wd) (hst : st = TX_NORMAL ∨ st = TX_LOGICAL)
    (f : Nat) (hf : writeFuel Lm tt rt s.M ≤ f + 1) :
    ∃ res s', nexec (nodeWrite (f + 1) wd st) s = (.ok res, s') ∧ NodeListens s' ∧ TI Lm tt rt s' ∧
      ((res = false ∧ ∃ s1, nexec (nodeWriteToPipe f (logi2phys s.node.a wd st).1
          (logi2phys s.node.a wd st).2.1 (logi2phys s.node.a wd st).2.2) (writePrelude s t wd st)
            = (.ok false, s1)) ∨
       ∃ s1 s2 obs init last,
        nexec (nodeWriteToPipe f (logi2phys s.node.a wd st).1
          (logi2phys s.node.a wd st).2.1 (logi2phys s.node.a wd st).2.2) (writePrelude s t wd st)
            = (.ok true, s1) ∧
        nexec (do liftRf (Rf24.setListen true); liftRf (Rf24.setAutoAckAttr (.i 0x3E))) s1 = (.ok (), s2) ∧
        nexec (ackWaitT f (rt * 1000000 + s2.w.clock)) s2 = (.ok (res, obs), s') ∧ obs = init ++ [last] ∧
        s'.w.clock = last.stop ∧ last.start ≤ rt * 1000000 + s2.w.clock ∧
        (∀ o ∈ init, o.stop ≤ rt * 1000000 + s2.w.clock) ∧
        (res = false → rt * 1000000 + s2.w.clock < s'.w.clock)) := by
  obtain ⟨res, s', hw, a, b, _⟩ := write_returns hLm s hl hi hok wd st hwd (f + 1) hf
  refine ⟨res, s', hw, a, b, ?_⟩
  rcases C13_believed_write f wd st t s s' res hs ht hty hhop hst hw with h |
    ⟨s1, s2, obs, h1, h2, h3, init, last, e, hinit, _, hfa, hclk, hstart⟩
  · exact Or.inl h
  · rw [hi.rt] at h3 hinit hfa hstart
    refine Or.inr ⟨s1, s2, obs, init, last, h1, h2, h3, e, hclk, ?_, fun o ho => (hinit o ho).2, hfa⟩
    rcases hstart with h | h
    · exact h
    · rw [h]; omega

/-- non-vacuity: every hypothesis holds in the state of `C13_demoW_begun` for `_write(0o11, TX_NORMAL)` -/
example : ∃ s res s', nexec (nodeWrite (17653 + 1) 0o11 TX_NORMAL) s = (.ok res, s') := by
  obtain ⟨s, hl, hi, hok, hwd, hs, ht, hty, hhop, hm⟩ := C13_demoW_begun
  obtain ⟨res, s', h, _⟩ := C13_write_blocking_partial 144 25 75 (by decide) s hl hi hok hs 0o11 TX_NORMAL 100
    hwd ht hty hhop (Or.inl rfl) 17653 (by unfold writeFuel; omega)
  exact ⟨s, res, s', h⟩

end Nrf.Props.C13
