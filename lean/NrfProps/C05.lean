/-
C05 — a network message reaches its destination exactly once, intact, over any tree (statements in progress).
-/
import NrfModel.Net.Api

namespace Nrf.Props.C05
open Nrf Nrf.Net

/-- the copy the queue stores is idempotent: what is dequeued is already in wire form -/
theorem C05_wireCopy_idem (f : Frame) : wireCopy (wireCopy f) = wireCopy f := by
  unfold wireCopy
  simp only [Header.ty, Nat.and_assoc, Nat.and_self]

end Nrf.Props.C05
