/-
C05 — "A network message reaches its destination exactly once, intact, over any tree."

On any set of running nodes whose addresses are closed under 'parent', a message of
0..max_message_length bytes with a user message type, written at one node for another existing node
while no other message is in flight, is delivered to the destination's queue exactly once with
identical bytes, type and origin address, and to no other node's queue, and write()/send() returns
True - provided no packet is lost.  Messages longer than 24 bytes travel as frames of at most 32
on-air bytes and are reassembled transparently; with fragmentation off, messages up to 24 bytes
behave the same.  Routing nodes forward such frames without handing them to their own application.

Model: `NrfModel/Net/Node.lean`, `Net/Api.lean`.  Spec: `NrfModel/Spec/Delivery.lean` (`fragPlan`,
`DeliveredOnce`, `callerFrame` — independent of the model; `txPath`, `sendFrags` are a re-bracketing of the
model's own control flow, see that file's header), `Net/Frag.lean` (the pure fragment loop, tied to the
reference encoder by C11), `Spec/Tree.lean` (C04).

WHAT THE CLOSED-SYSTEM THEOREMS OF THIS FILE COVER, AND WHAT NOT (every `…_closed*` theorem, and its
`L3Contracts`-conditional twin):
* ONE schedule: the cooperative `runOthers` schedule of the test session — the other nodes run `update()`
  to completion exactly at the caller's `send`/`read`; a nested `update()` that raises or runs out of fuel is
  swallowed; after `write()` the node named in the theorem is polled next.  The property quantifies over
  schedules; these theorems do not.  Hence all of them are partial results, whether or not the name ends in
  `_partial`.
* loss-free (`faults = []`), nobody has address `0o4444`, the destination's queue accepts the frame (room,
  no frame with the same origin/id/type), all RX FIFOs empty at the start, no other message in flight.
* NON-DUPLICATE condition instead of freshness (changed after review): the receiving radios need NOT be
  fresh (`lastRx = none`); it is enough that the packet each of them accepted last does not carry the
  bytes of this frame (`NotDupFrame`, NrfProofs/C05Closed.lean — the chip's duplicate filter compares PID,
  address and data; different data suffices).  No theorem of this file still asks for `lastRx = none`.
  Frames of different messages differ in origin, id (counts up per origin, wraps at 65536), type or payload.
* third radios: the two-node theorems ask only that no third radio listens on the ADDRESS the packet goes to
  (`hothers`; true in every `NetOk` network — `C05_neighbours_closed_partial`, `C05_neighbours_frag_closed_partial`),
  no longer that third radios are deaf.
* quiescence: the single-frame theorems also conclude that afterwards every RX FIFO is empty (no second copy
  waiting); the fragment theorems (`C05_two_nodes_frag*`, `C05_neighbours_frag_closed_partial`) export the same
  conjunct about the state after the receiver's final `update()`.
* NOT covered by any GENERAL theorem: schedules other than `runOthers`; packet loss; `send()` of the mesh API
  (`RF24Mesh.send`); fragmented messages over more than one hop (only CONCRETE runs: the
  `C05_route_frag_*_instance_partial` theorems at the end of the file, kernel evaluation of ONE network / ONE
  message each; and, ∀ env, the router-side clause `C05_local_forward_not_queued`); system types 128..191 over
  ONE hop.
  Covered: user types 0..127 over one hop (`C05_neighbours_closed_partial`), types 0..64 over any route
  (`C05_route_closed_partial`), types 65..191 over ≥ 2 hops with the side conditions stated there
  (`C05_route_ack_closed_partial`); "to no other node's queue / routers do not hand the frame to their
  application" with the quantifier over all nodes of the network written out
  (`C05_route_others_closed_partial`, `C05_route_ack_others_closed_partial`); the boundary lengths 0, 24, 25, 144
  (`…_boundary_closed_partial`); fragmentation off (`…_fragoff_closed_partial`).

* `C05_local_*`  one node against **any** environment (every fuel, world, arrival script, fault
                 list, behaviour of the other nodes): what one iteration of `_net_update()` does
                 with a frame for another node / for this node / a PING; what `write()` hands to
                 the radio for the first hop.  `_forward`, `_deliver`, `_ping`, `_write`, `_loopback`, `_tx` are
                 UNFOLDING lemmas (one symbolic-execution step of the model under its path condition);
                 the content is in `_forward_queue`, `_enqueue`, `C05_frag_reassembly`, and conjunct 2 of `_tx`.
* `C05_two_nodes*` closed system (`runOthers`), loss-free, under the driver contracts `L3Contracts`
                 (`NrfProofs/C05Link.lean`): a single-frame message between two neighbours.
* `C05_neighbours_closed_partial`, `C05_neighbours_frag_closed_partial` the same in a `NetOk` network of any
                 number of running (listening) nodes.
* `C05_route_partial` see the end of the file.
* `C05_*_closed*`  the same theorems with `L3Contracts` discharged (`l3contracts`, `NrfProofs/L3Discharge.lean`).
* `C05_two_nodes_frag*` a FRAGMENTED message (25..144 bytes) between two neighbours, end to end in the
                 closed system (`NrfProofs/C05Frag{A,B,C,D,E}.lean`); at the end of the file.
* round 2 additions (end of the file): `C05_route_others_closed_partial`, `C05_route_ack_others_closed_partial`
                 (corollaries: every node other than the destination — origin, routers, bystanders — keeps its
                 application queue); `C05_*_boundary_closed_partial` (instantiations at the lengths 0, 24, 25, 144);
                 `C05_*_fragoff_closed_partial` (sender with `max_message_length = 24`);
                 `C05_local_forward_not_queued` (∀ env: a router's whole queue object is unchanged by forwarding
                 a frame of ANY type, fragments included);
                 `C05_route_frag_{two_hops,types,fork,three_hops,all_pairs}_instance_partial` — NOT general theorems:
                 kernel-evaluated runs (`decide +kernel`, NrfProofs/C05FragInst{A..F}.lean) of a fragmented
                 message over two and three hops on three concrete networks and over ALL 42 ordered pairs of a
                 seven-node tree; the general statement stays open.  The same sessions are in `corpus/C05/`, i.e.
                 they are also executed on the real classes by the correspondence run.
-/
import NrfProofs.C05Forward
import NrfProofs.C05Closed
import NrfProofs.C05Example
import NrfProofs.C05RouteTop
import NrfProofs.C05Example3
import NrfProofs.C05Reasm
import NrfProofs.L3Discharge
import NrfProofs.C05FragE
import NrfProofs.C13HopsExample
import NrfProofs.C05FragInstA
import NrfProofs.C05FragInstB
import NrfProofs.C05FragInstC
import NrfProofs.C05FragHold
import NrfProofs.C05ExampleNoFrag
import NrfProofs.C05FragInstD
import NrfProofs.C05FragInstE
import NrfProofs.C05FragInstF
import NrfProofs.C05ExampleSevenOk

namespace Nrf.Props.C05
open Nrf Nrf.Net Nrf.Spec Nrf.Proofs Nrf.Props.C04

/-- the copy the queue stores is idempotent: what is dequeued is already in wire form -/
theorem C05_wireCopy_idem (f : Frame) : wireCopy (wireCopy f) = wireCopy f := by
  unfold wireCopy
  simp only [Header.ty, Nat.and_assoc, Nat.and_self]

example : wireCopy ⟨⟨0o7777, 0o5, 70000, .int 300, 256⟩, [1]⟩ = ⟨⟨0o7777, 0o5, 4464, .int 44, 0⟩, [1]⟩ := by decide

/-! ## local: one node, any environment -/

/-- **A frame for another node is forwarded, once, and not queued.**  One iteration of
    `_net_update()` (any fuel `f + 2`, any state) in which `read()` returned the payload `b` of a
    well-formed frame `fb` with valid addresses, addressed to another node — and this node routes
    (it has a real address; the frame is not a multicast it listens to: `allow_multicast` off, or
    `to_node` ≠ `0o100`): the frame is put into `frame_buf` and handed to `_write(to_node, TX_ROUTED)`
    exactly once, whose verdict is ignored; then the loop continues with nothing to report.  Nothing
    else happens in this iteration — in particular no `enqueue`. -/
theorem C05_local_forward (f rv : Nat) (s s1 : NetState) (b : Bytes) (fb : Frame)
    (hread : nexec (rfRead (f + 1)) s = (.ok (some b), s1))
    (hdec : s1.node.frameBuf.unpack b = (fb, true))
    (hvt : isValid fb.header.toNode = true) (hvf : isValid fb.header.fromNode = true)
    (hother : fb.header.toNode ≠ s1.node.a.addr)
    (hmc : s1.node.cfg.allowMulticast = false ∨ fb.header.toNode ≠ NETWORK_MULTICAST_ADDR)
    (hnd : s1.node.a.addr ≠ NETWORK_DEFAULT_ADDR) (hc : s1.cur < s1.nodes.length) :
    nexec (netUpdate (f + 2) rv) s =
      match nexec (nodeWrite f fb.header.toNode TX_ROUTED) (s1.withFrame fb) with
      | (.ok _, s2) => nexec (netUpdate (f + 1) 0) s2
      | (.error e, s2) => (.error e, s2) := by
  rw [show f + 2 = (f + 1) + 1 from rfl, netUpdate_step, hread]
  simp only [hdec, hvt, hvf, Bool.not_true, Bool.or_self, Bool.false_eq_true, if_false, if_neg hother]
  have hn : (s1.withFrame fb).node = { s1.node with frameBuf := fb } := node_setNode _ _ hc
  rw [handleOther_forward f _ _ (by rw [hn]; exact hmc) (by rw [hn]; exact hnd), hn]
  simp only []
  rcases nexec (nodeWrite f fb.header.toNode TX_ROUTED) (s1.withFrame fb) with ⟨r, s2⟩
  cases r <;> rfl

example : ∃ (fb : Frame), (default : Frame).unpack [1, 0, 2, 0, 0, 0, 5, 0, 9] = (fb, true) ∧
    fb.header.toNode = 2 ∧ fb.header.ty = 5 ∧ fb.message = [9] := ⟨_, rfl, rfl, rfl, rfl⟩

/-- … and that `_write(to_node, TX_ROUTED)` leaves the router's own queue alone: at a tree node `x`
    (C04), for a frame of another origin `o` towards another node `d`, whatever the link and the
    other nodes do and whatever the outcome (also an exception), the queue, the message bytes in
    `frame_buf` and the node's static attributes are as before — "routing nodes forward such frames
    without handing them to their own application". -/
theorem C05_local_forward_queue (f : Nat) (x d o : List Nat) (hx : IsNode x) (hd : IsNode d) (ho : IsNode o)
    (hxd : x ≠ d) (hox : o ≠ x) (s s' : NetState) (r : Except PyErr Bool) (hs : s.cur ∈ s.active)
    (ha : s.node.a = nodeSpec x) (hfrom : s.node.frameBuf.header.fromNode = val o)
    (h : nexec (nodeWrite (f + 1) (val d) TX_ROUTED) s = (r, s')) :
    s'.node.queue = s.node.queue ∧ s'.node.frameBuf.message = s.node.frameBuf.message ∧
    s'.node.stat = s.node.stat ∧ s'.cur = s.cur := by
  have hr := nodeWrite_routed_Q f x d o hx hd ho hxd hox s s' r hs ha hfrom h
  have hp := hr.proj
  unfold piQ at hp
  simp only [Prod.mk.injEq] at hp
  exact ⟨hp.2.1, hp.2.2, hp.1, hr.cur⟩

example : IsNode [3] ∧ IsNode [3, 2] ∧ IsNode [4] ∧ ([3] : List Nat) ≠ [3, 2] ∧ ([4] : List Nat) ≠ [3] := by decide

/-- **A frame for this node is queued, once.**  Same situation, `to_node` = this node's address, and
    the type is a user type (0..127) or one of the three fragment types: the frame is put into
    `frame_buf` and handed to `queue.enqueue` (`NetQueue.enqueue`: the plain bounded duplicate-free
    queue for user types, the reassembly cache for fragments) exactly once; the loop continues and
    will report the type — unless the enqueue completed a message of type EXTERNAL_DATA, which is
    reported at once. -/
theorem C05_local_deliver (f rv : Nat) (s s1 : NetState) (b : Bytes) (fb : Frame)
    (hread : nexec (rfRead (f + 1)) s = (.ok (some b), s1))
    (hdec : s1.node.frameBuf.unpack b = (fb, true))
    (hvt : isValid fb.header.toNode = true) (hvf : isValid fb.header.fromNode = true)
    (hthis : fb.header.toNode = s1.node.a.addr)
    (hty : fb.header.ty ≤ MAX_USR_DEF_MSG_TYPE ∨ fb.header.ty = MSG_FRAG_FIRST ∨
      fb.header.ty = MSG_FRAG_MORE ∨ fb.header.ty = MSG_FRAG_LAST) :
    nexec (netUpdate (f + 2) rv) s =
      match nexec enqueueFrameBuf (s1.withFrame fb) with
      | (.ok _, s2) =>
        if s2.node.frameBuf.header.ty = NETWORK_EXT_DATA then (.ok NETWORK_EXT_DATA, s2)
        else nexec (netUpdate (f + 1) fb.header.ty) s2
      | (.error e, s2) => (.error e, s2) := by
  rw [show f + 2 = (f + 1) + 1 from rfl, netUpdate_step, hread]
  simp only [hdec, hvt, hvf, Bool.not_true, Bool.or_self, Bool.false_eq_true, if_false, if_pos hthis]
  have hne : fb.header.ty ≠ NETWORK_PING ∧ fb.header.ty ≠ MESH_ADDR_RESPONSE ∧ fb.header.ty ≠ MESH_ADDR_REQUEST := by
    unfold MAX_USR_DEF_MSG_TYPE MSG_FRAG_FIRST MSG_FRAG_MORE MSG_FRAG_LAST at hty
    unfold NETWORK_PING MESH_ADDR_RESPONSE MESH_ADDR_REQUEST
    omega
  rw [handleThis_enqueue f _ _ hne.1 hne.2.1 hne.2.2 hty]
  rcases nexec enqueueFrameBuf (s1.withFrame fb) with ⟨r, s2⟩
  cases r with
  | error e => rfl
  | ok a =>
    simp only []
    split <;> rfl

example : MSG_FRAG_FIRST = 148 ∧ MSG_FRAG_MORE = 149 ∧ MSG_FRAG_LAST = 150 ∧ MAX_USR_DEF_MSG_TYPE = 127 := by decide

/-- what `queue.enqueue(frame_buf)` is for a frame that is not a fragment: the plain queue, which
    takes the wire copy at the end iff it has room and no frame with the same origin, id and type -/
theorem C05_local_enqueue (q : NetQueue) (fb : Frame)
    (ht : fb.header.ty ≠ MSG_FRAG_FIRST ∧ fb.header.ty ≠ MSG_FRAG_MORE ∧ fb.header.ty ≠ MSG_FRAG_LAST) :
    q.enqueue fb = ((q.enqueueBase fb).1, (q.enqueueBase fb).2, fb) ∧
    ((q.frames.length : Int) < q.maxSize →
      (∀ g ∈ q.frames, ¬ (g.header.fromNode = fb.header.fromNode ∧ g.header.frameId = fb.header.frameId
        ∧ g.header.ty = fb.header.ty)) →
      q.enqueueBase fb = ({ q with frames := q.frames ++ [wireCopy fb] }, true)) :=
  ⟨enqueue_plain q fb ht, enqueueBase_ok q fb⟩

example : (({} : NetQueue).enqueue ⟨⟨1, 0, 7, .int 5, 0⟩, [9]⟩).1.frames = [⟨⟨1, 0, 7, .int 5, 0⟩, [9]⟩] := by decide

/-- **A PING for this node is consumed**: nothing is queued, nothing is sent, the loop continues. -/
theorem C05_local_ping (f rv : Nat) (s s1 : NetState) (b : Bytes) (fb : Frame)
    (hread : nexec (rfRead (f + 1)) s = (.ok (some b), s1))
    (hdec : s1.node.frameBuf.unpack b = (fb, true))
    (hvt : isValid fb.header.toNode = true) (hvf : isValid fb.header.fromNode = true)
    (hthis : fb.header.toNode = s1.node.a.addr) (hty : fb.header.ty = NETWORK_PING) :
    nexec (netUpdate (f + 2) rv) s = nexec (netUpdate (f + 1) NETWORK_PING) (s1.withFrame fb) := by
  rw [show f + 2 = (f + 1) + 1 from rfl, netUpdate_step, hread]
  simp only [hdec, hvt, hvf, Bool.not_true, Bool.or_self, Bool.false_eq_true, if_false, if_pos hthis, hty,
    handleThis_ping, if_true]

example : NETWORK_PING = 130 := rfl

/-- **What `write()` is.**  `RF24Network.write(frame)` with automatic routing, for a valid destination
    and an admissible length: two header ids are consumed, `frame_buf` becomes a private wire copy of
    the caller's frame with `from_node` := this node's address, then `_write(to_node, TX_NORMAL)`;
    the caller's frame is returned untouched (fix D12). -/
theorem C05_local_write (dst ty : Int) (msg : Bytes) (s : NetState)
    (hv : isValid (maskInt dst 0xFFF) = true) (hlen : msg.length ≤ s.node.maxMessageLength)
    (hfrag : msg.length ≤ MAX_FRAG_SIZE ∨ s.node.fragEnabled = true) :
    nexec (apiNetWrite dst ty msg AUTO_ROUTING) s =
      let caller : Frame :=
        { header := { fromNode := s.node.a.addr, toNode := maskInt dst 0xFFF, frameId := s.nextId,
                      msgType := .int (maskInt ty 0xFF), reserved := 0 },
          message := msg }
      let s0 : NetState := { s with nextId := (((s.nextId + 1) &&& 0xFFFF) + 1) &&& 0xFFFF }
      match nexec (nodeWrite F (maskInt dst 0xFFF) TX_NORMAL)
          (s0.setNode fun n => { n with frameBuf := wireCopy caller }) with
      | (.ok r, s') => (.ok (r, caller), s')
      | (.error e, s') => (.error e, s') :=
  apiNetWrite_eq dst ty msg s hv hlen hfrag

example : maskInt 5 0xFFF = 5 ∧ maskInt (-1) 0xFF = 255 := by decide

/-- **What goes on the air for a hop** — an UNFOLDING lemma, not a check against an independent
    specification: `txPath` (`Spec/Delivery.lean`) is a re-bracketing of the model's own `nodeWriteToPipe`
    (it calls the same model functions `rfSend`, `fragRetry`, `txStandbyFor`, `Rf24.setListen`, …), so the
    first conjunct says "model = model re-bracketed"; its real content is that the fragment LOOP of the model
    executes exactly the plan `fragPlan` (conjunct 2, which is independent of the model: `fragPlan` is written
    from the docs and tied to the reference encoder by C11).  The phrases below about auto-ack and re-sending
    are a reading of `txPath`'s text, not separately checked requirements.
    `_write_to_pipe(node, pipe, multicast)` for a hop other than
    this node itself is `txPath`: auto-ack on pipe 0 iff unicast, stop
    listening, transmit to `_pipe_address(node, pipe)`; a message of at most 24 bytes as the single
    payload `frame_buf.pack()`, re-sent (not re-written) for at most `tx_timeout` ms; a longer one by
    carrying out its fragment plan, whose payloads are exactly the frames of the pure fragment loop
    of `Net/Frag.lean` (which C11 ties to the reference encoder), in order, stopping at the first
    fragment that stays unsent.  For every fuel, state, link behaviour, behaviour of other nodes.
    `(wireCopy c).pack = c.pack`: the bytes are those of the caller's frame. -/
theorem C05_local_tx (f tn tp : Nat) (mc : Bool) (s : NetState) (hs : s.cur ∈ s.active)
    (hc : s.cur < s.nodes.length) (hnl : tn ≠ s.node.a.addr ∨ mc = true) :
    nexec (nodeWriteToPipe (f + 1) tn tp mc) s = nexec (txPath f tn tp mc) s ∧
    (∀ (msg : Bytes) (total msgT n : Nat) (h : Header),
      fragLoop msg total msgT n h = .ok ((fragPlan msg total msgT n h).map (·.2),
        ((fragPlan msg total msgT n h).getLast?.map (·.1)).getD h)) ∧
    (∀ (c : Frame) (t : Nat), c.header.msgType = .int t → (wireCopy c).pack = c.pack) :=
  ⟨nodeWriteToPipe_txPath f tn tp mc s hs hc hnl, fragLoop_eq_plan, pack_wireCopy⟩

example : (fragPlan (List.replicate 30 7) 2 5 2 ⟨1, 2, 3, .int 5, 0⟩).map (fun x => (x.1.ty, x.1.reserved, x.2.length))
    = [(148, 2, 32), (150, 5, 14)] := by decide

/-- … and for this node itself (a unicast): enqueued locally, nothing is sent -/
theorem C05_local_loopback (f tp : Nat) (s : NetState) :
    nexec (nodeWriteToPipe (f + 1) s.node.a.addr tp false) s = nexec enqueueFrameBuf s :=
  nodeWriteToPipe_loopback f tp s

/-- **Fragments are reassembled transparently** (pure; the sender side is `C05_local_tx`, the
    receiver's dispatch `C05_local_deliver`): for a message of 25..144 bytes of a user type, with a
    header in wire range, the payloads of the sender's fragment plan (`fragPlan`, i.e. the frames of
    `Net/Frag.lean`'s pure loop) — unpacked by the receiver and handed in order to its
    `FrameQueueFrag` (`NetQueue.enqueue`, fragmentation on, room, no frame with the same origin, id and
    type) — leave the queue with **exactly one more frame: origin, destination, id, the message's own
    type and the complete message** (FIRST starts the cache, every MORE is appended in sequence, LAST
    completes it), and an invalidated cache.

    The closed-system interleaving — between two `send()`s of the fragment loop the receiver's `update()`
    (run at the sender's scheduling points) drains its RX FIFO, and the radio's duplicate filter never
    hits on consecutive fragments (their bytes differ) — is `C05_two_nodes_frag` / `C05_two_nodes_frag_closed_partial`
    at the end of this file (two neighbours, end to end). -/
theorem C05_frag_reassembly (a b i msgT : Nat) (msg : Bytes) (h : Header) (q : NetQueue) (f0 : Frame)
    (ha : a < 4096) (hb : b < 4096) (hi : i < 65536) (hm : msgT ≤ MAX_USR_DEF_MSG_TYPE)
    (hfa : h.fromNode = a) (hfb : h.toNode = b) (hfi : h.frameId = i)
    (hlen : MAX_FRAG_SIZE < msg.length) (hmax : msg.length ≤ 144) (hq : q.frag = true)
    (hroom : (q.frames.length : Int) < q.maxSize)
    (hnew : ∀ g ∈ q.frames, ¬ (g.header.fromNode = a ∧ g.header.frameId = i ∧ g.header.ty = msgT)) :
    feed q ((fragPlan msg (fragTotal msg.length) msgT (fragTotal msg.length) h).map (fun p => (f0.unpack p.2).1)) =
      { q with cache := ⟨⟨a, b, i, .int msgT, msgT⟩, msg⟩, cacheValid := false,
               frames := q.frames ++ [⟨⟨a, b, i, .int msgT, msgT⟩, msg⟩] } := by
  generalize hn : fragTotal msg.length = n
  have hb2 : 2 ≤ n ∧ n < 256 ∧ msg.length ≤ 24 * n := by
    rw [← hn]; unfold fragTotal; unfold MAX_FRAG_SIZE at *
    split <;> omega
  unfold MAX_USR_DEF_MSG_TYPE at hm
  have hun := fragPlan_unpack a b i msgT n msg ha hb hi hb2.1 hb2.2.1 (by omega) hb2.2.2 f0 n h (Nat.le_refl n)
    hfa hfb hfi
  have e : (fragPlan msg n msgT n h).map (fun p => (f0.unpack p.2).1) =
      ((fragPlan msg n msgT n h).map (fun p => f0.unpack p.2)).map (·.1) := by
    rw [List.map_map]; rfl
  rw [e, hun, List.map_map, Nat.sub_self, ← List.range_eq_range']
  exact feed_message a b i msgT n msg ha hb hi hb2.1 hb2.2.1 q hq (by omega)
    (by unfold NETWORK_EXT_DATA; omega) hroom hnew

example : (fragPlan (List.replicate 30 7) 2 5 2 ⟨1, 2, 3, .int 5, 0⟩).map (fun p => ((default : Frame).unpack p.2).1.header.ty)
    = [148, 150] ∧ fragTotal 30 = 2 := by decide

/-! ## two neighbours, closed system -/

/-- **`write()` between two neighbours** (parent and child, either direction), closed system
    (`runOthers`), loss-free, under the driver contracts.  Node `a` (tree node `x`, the caller,
    listening) writes a message of at most 24 bytes of any type for its neighbour `y`, which is node
    `b`, listening on its tree addresses with an empty RX FIFO; nobody else has data waiting; no third
    radio listens on the address of `b`'s pipe the packet goes to (`hothers` — in a `NetOk` tree network
    with any number of listening nodes this holds by `NetOk.hothers`, see `C05_neighbours_closed_partial`);
    the packet `b`'s radio accepted last, if any, does not carry this frame's bytes (`NotDupFrame`; `b` need
    not be fresh); the fault script is empty.  Then `write()` returns `True` and the caller's
    frame; in the resulting state (`prepared … .afterRf D`) the only changes are: two header ids
    consumed, `frame_buf` of `a`, the radio object and radio of `a` — listening again as before —
    and the radio of `b`, whose RX FIFO holds exactly the packed frame, once, on the pipe C04 names
    (`hopPipe`); the fault script is still empty. -/
theorem C05_two_nodes_write (hc : L3Contracts) (cfg : AddrCfg) (hcfg : CfgOk cfg) (L : LinkCfg)
    (s : NetState) (a b : Nat) (x y : List Nat) (Pa Pb : List Bytes) (ty : Int) (msg : Bytes)
    (hx : IsNode x) (hy : IsNode y) (hadj : nextHopSpec x y = y) (hxy : x ≠ y)
    (hcur : s.cur = a) (hact : s.active = [a]) (hclosed : s.closed = true)
    (ha : a < s.nodes.length) (hb : b < s.nodes.length) (hab : a ≠ b) (hsize : s.nodes.length ≤ 100000)
    (hrid : ∀ i, i < s.nodes.length → i ≠ a → s.ridAt i ≠ s.ridAt a)
    (hWa : s.ridAt a < s.w.radios.length)
    (hNa : NodeRadio L Pa true true 0x3E (s.nodeAt a).rf (s.radioAt a))
    (haddr_a : (s.nodeAt a).a = nodeSpec x) (hcfg_a : (s.nodeAt a).cfg = cfg)
    (hmax : msg.length ≤ (s.nodeAt a).maxMessageLength) (hlen : msg.length ≤ MAX_FRAG_SIZE)
    (hNb : NodeRadio L Pb true true 0x3E (s.nodeAt b).rf (s.radioAt b))
    (hPb : beginPipes cfg (val y) = .ok Pb) (hlast : NotDupFrame (s.radioAt b) (wireCopy (callerFrame x y s.nextId ty msg)))
    (hquiet : ∀ i, i < s.nodes.length → i ≠ a → (s.radioAt i).rxFifo = [])
    (hothers : ∀ r A buf pid, r ≠ s.ridAt a → r ≠ s.ridAt b → Pb[hopPipe x y]? = some A →
      (s.w.radio r).listensTo (unicastPacket L A buf pid) = none)
    (hfaults : s.w.faults = []) :
    ∃ (D : DrvState) (pk A : Bytes) (pid : Nat),
      (wireCopy (callerFrame x y s.nextId ty msg)).pack = .ok pk ∧
      nexec (apiNetWrite (val y) ty msg AUTO_ROUTING) s =
        (.ok (true, callerFrame x y s.nextId ty msg),
         (prepared s (callerFrame x y s.nextId ty msg)).afterRf D) ∧
      D.d.rid = (s.nodeAt a).rf.rid ∧ D.w.radios.length = s.w.radios.length ∧ D.w.faults = [] ∧
      NodeRadio L Pa true true 0x3E D.d D.radio ∧ D.radio.rxFifo = (s.radioAt a).rxFifo ∧
      D.radio.lastRx = (s.radioAt a).lastRx ∧
      D.w.radio (s.ridAt b) =
        (s.radioAt b).withRx [{ pipe := hopPipe x y, data := pk }] { pid := pid, addr := A, data := pk } ∧
      (∀ r, r ≠ s.ridAt a → r ≠ s.ridAt b → D.w.radio r = s.w.radio r) := by
  subst hcur
  have hvy : val y < 4096 := val_lt_4096 hy
  have hmy : maskInt (val y : Int) 0xFFF = val y := maskInt_natCast _ _ (by omega)
  have hnode : s.node = s.nodeAt s.cur := rfl
  -- `write()` down to `_write`
  have hw := apiNetWrite_eq (val y) ty msg s (by rw [hmy]; exact isValid_val hy) (by rw [hnode]; exact hmax)
    (Or.inl hlen)
  simp only [hmy] at hw
  have hcf : ({ header := { fromNode := s.node.a.addr, toNode := val y, frameId := s.nextId,
                            msgType := .int (maskInt ty 0xFF), reserved := 0 },
                message := msg } : Frame) = callerFrame x y s.nextId ty msg := by
    unfold callerFrame
    rw [hnode, haddr_a]; rfl
  rw [hcf] at hw
  generalize hcdef : callerFrame x y s.nextId ty msg = c at hw hlast ⊢
  have hct : c.header.msgType = .int (maskInt ty 0xFF) := by rw [← hcdef]; rfl
  have hcm : c.message = msg := by rw [← hcdef]; rfl
  -- the prepared state
  have hprep : (({ s with nextId := (((s.nextId + 1) &&& 0xFFFF) + 1) &&& 0xFFFF } : NetState).setNode
      fun n => { n with frameBuf := wireCopy c }) = prepared s c := rfl
  rw [hprep] at hw
  generalize hs' : prepared s c = s' at hw ⊢
  have hs'c : s'.cur = s.cur := by rw [← hs']; rfl
  have hs'a : s'.active = s.active := by rw [← hs']; rfl
  have hs'l : s'.nodes.length = s.nodes.length := by rw [← hs']; simp [prepared]
  have hs'w : s'.w = s.w := by rw [← hs']; rfl
  have hs'cl : s'.closed = true := by rw [← hs']; exact hclosed
  have hs'n : s'.node = { s.node with frameBuf := wireCopy c } := by
    rw [← hs']; exact node_setNode _ _ ha
  have hs'at : ∀ i, i ≠ s.cur → s'.nodeAt i = s.nodeAt i := by
    intro i hi
    rw [← hs']
    show (NetState.setNode _ _).nodeAt i = _
    rw [nodeAt_setNode, if_neg (fun h => hi h.1)]
    rfl
  have hs'rid : ∀ i, s'.ridAt i = s.ridAt i := by
    intro i
    by_cases hi : i = s.cur
    · subst hi
      have : s'.nodeAt s.cur = s'.node := by rw [← hs'c]; rfl
      unfold NetState.ridAt
      rw [this, hs'n]; rfl
    · unfold NetState.ridAt; rw [hs'at i hi]
  have hs'rad : ∀ i, s'.radioAt i = s.radioAt i := by
    intro i; unfold NetState.radioAt; rw [hs'rid, hs'w]
  have hs'd : s'.drv = s.drv := by
    unfold NetState.drv; rw [hs'n, hs'w]
  -- the hop according to C04
  obtain ⟨hp1, hp5⟩ : 1 ≤ hopPipe x y ∧ hopPipe x y ≤ 5 := by
    have := C04_listens cfg hcfg x y hx hy hxy TX_NORMAL (Or.inl rfl)
    exact ⟨this.1, this.2.1⟩
  obtain ⟨A, hA1, hA2, hA3⟩ := listen_addrs cfg hcfg y hy Pb hPb (hopPipe x y) hp1 hp5
  have hl2p : logi2phys s'.node.a (val y) TX_NORMAL = (val y, hopPipe x y, false) := by
    rw [hs'n]
    show logi2phys s.node.a _ _ = _
    rw [hnode, haddr_a, l2p_tree hx hy (Or.inl rfl), hadj]
  -- the packed frame
  have hwt : (wireCopy c).header.msgType = .int (maskInt ty 0xFF &&& 0xFF) := by
    simp [wireCopy, Header.ty, hct]
  obtain ⟨pk, hpk⟩ : ∃ pk, (wireCopy c).pack = .ok pk := by
    unfold Frame.pack
    rw [pack_int _ _ hwt]
    exact ⟨_, rfl⟩
  have hF : F = 199998 + 2 := rfl
  rw [hF] at hw
  obtain ⟨D, e, r1, l1, f1, N1, x1, lr1, ⟨pid, hrb⟩, hoth⟩ := nodeWrite_direct hc 199998 s' L Pa Pb b
    (hopPipe x y) (val y) (hopPipe x y) (maskInt ty 0xFF &&& 0xFF) A pk
    (by rw [hs'c, hs'l]; exact ha) hs'cl (by rw [hs'l]; omega)
    (by
      intro i hi hic hia
      rw [hs'rad]
      exact hquiet i (by rw [← hs'l]; exact hi) (by rw [← hs'c]; exact hic))
    (by rw [hs'd]; exact hWa)
    (by rw [hs'n, hs'd]; exact hNa)
    (by rw [hs'l]; exact hb) (by rw [hs'c]; exact fun h => hab h.symm)
    (by rw [hs'a, hact]; simp; exact fun h => hab h.symm)
    (by
      intro i hi hic
      rw [hs'rid, hs'rid, hs'c]
      exact hrid i (by rw [← hs'l]; exact hi) (by rw [← hs'c]; exact hic))
    (by rw [hs'at b (fun h => hab h.symm), hs'rad]; exact hNb)
    (by rw [hs'n]; show pipeAddress s.node.cfg _ _ = _; rw [hnode, hcfg_a]; exact hA1)
    hA2 hp1 hp5 hA3 (by rw [hs'rad]; exact hlast.notDup hpk)
    (by
      intro i pid hia hib
      rw [hs'w]
      exact hothers i A pk pid (by rw [← hs'rid, ← hs'c]; exact hia) (by rw [← hs'rid]; exact hib) hA2)
    (by rw [hs'w]; exact hfaults)
    (by rw [hs'n]; show (wireCopy c).message.length ≤ _; simp only [wireCopy]; rw [hcm]; exact hlen)
    (by rw [hs'n]; exact hpk)
    (by
      rw [hs'n]
      show val y ≠ s.node.a.addr
      rw [hnode, haddr_a]
      exact fun h => hxy (val_inj hx.1 hy.1 h.symm))
    (by rw [hs'n]; exact hwt) hl2p
  rw [e] at hw
  refine ⟨D, pk, A, pid, hpk, hw, ?_, ?_, f1, N1, ?_, ?_, ?_, ?_⟩
  · rw [r1, hs'n]; rfl
  · rw [l1, hs'w]
  · rw [x1, hs'd]; rfl
  · rw [lr1, hs'd]; rfl
  · rw [hs'rid] at hrb
    rw [hrb, hs'rad, hquiet b hb (fun h => hab h.symm)]
    rfl
  · intro r hra hrb'
    rw [hoth r (by rw [hs'rid, hs'c]; exact hra) (by rw [hs'rid]; exact hrb'), hs'w]

/-- **A single-frame user message between two neighbours is delivered exactly once, intact.**
    Closed system, loss-free, under the driver contracts; the situation of `C05_two_nodes_write`
    with a user type 0..127 and, at the receiver `b` (tree node `y`, not a mesh master, no scripted
    arrivals), a queue with room and without a frame of the same origin, id and type.  `write()` at `a`
    returns `True`; after it returned, the next `update()` of `b` (entered as the test session does,
    `runAs`) returns the message type, and between the initial and the final state **the queue of `b`
    has gained exactly one frame — origin `x`, the type, the bytes — and every other node's queue is
    unchanged** (`DeliveredOnce`), and afterwards **every RX FIFO is empty** (no second copy is waiting).
    One schedule (`runOthers`, `b` polled next), loss-free: a partial result w.r.t. the property's
    quantifier over schedules. -/
theorem C05_two_nodes (hc : L3Contracts) (cfg : AddrCfg) (hcfg : CfgOk cfg) (L : LinkCfg)
    (s : NetState) (a b : Nat) (x y : List Nat) (Pa Pb : List Bytes) (ty : Int) (msg : Bytes)
    (hx : IsNode x) (hy : IsNode y) (hadj : nextHopSpec x y = y) (hxy : x ≠ y)
    (hcur : s.cur = a) (hact : s.active = [a]) (hclosed : s.closed = true)
    (ha : a < s.nodes.length) (hb : b < s.nodes.length) (hab : a ≠ b) (hsize : s.nodes.length ≤ 100000)
    (hrid : ∀ i j, i < s.nodes.length → j < s.nodes.length → i ≠ j → s.ridAt i ≠ s.ridAt j)
    (hWa : s.ridAt a < s.w.radios.length) (hWb : s.ridAt b < s.w.radios.length)
    (hNa : NodeRadio L Pa true true 0x3E (s.nodeAt a).rf (s.radioAt a))
    (haddr_a : (s.nodeAt a).a = nodeSpec x) (hcfg_a : (s.nodeAt a).cfg = cfg)
    (hmax : msg.length ≤ (s.nodeAt a).maxMessageLength) (hlen : msg.length ≤ MAX_FRAG_SIZE)
    (hNb : NodeRadio L Pb true true 0x3E (s.nodeAt b).rf (s.radioAt b))
    (hPb : beginPipes cfg (val y) = .ok Pb) (hlast : NotDupFrame (s.radioAt b) (wireCopy (callerFrame x y s.nextId ty msg)))
    (haddr_b : (s.nodeAt b).a = nodeSpec y) (harr_b : (s.nodeAt b).arrivals = [])
    (hkind_b : (s.nodeAt b).kind ≠ .meshMaster)
    (hquiet : ∀ i, i < s.nodes.length → (s.radioAt i).rxFifo = [])
    (hothers : ∀ r A buf pid, r ≠ s.ridAt a → r ≠ s.ridAt b → Pb[hopPipe x y]? = some A →
      (s.w.radio r).listensTo (unicastPacket L A buf pid) = none)
    (hfaults : s.w.faults = []) (hty : 0 ≤ ty ∧ ty ≤ 127)
    (hroom : ((s.nodeAt b).queue.frames.length : Int) < (s.nodeAt b).queue.maxSize)
    (hnew : ∀ g ∈ (s.nodeAt b).queue.frames, ¬ (g.header.fromNode = val x ∧
      g.header.frameId = s.nextId &&& 0xFFFF ∧ g.header.ty = ty.toNat)) :
    ∃ s1 s2, nexec (apiNetWrite (val y) ty msg AUTO_ROUTING) s =
        (.ok (true, callerFrame x y s.nextId ty msg), s1) ∧
      nexec apiUpdate ((s1.ret).callAs b) = (.ok ty.toNat, s2) ∧
      DeliveredOnce s.nodes s2.nodes b (val x) ty.toNat msg ∧
      ∀ i, i < s.nodes.length → (s2.radioAt i).rxFifo = [] := by
  obtain ⟨D, pk, A, pid, hpk, hw, r1, l1, f1, N1, x1, lr1, hrb, hoth⟩ :=
    C05_two_nodes_write hc cfg hcfg L s a b x y Pa Pb ty msg hx hy hadj hxy hcur hact hclosed ha hb hab hsize
      (fun i hi hia => hrid i a hi ha hia) hWa hNa haddr_a hcfg_a hmax hlen hNb hPb hlast
      (fun i hi _ => hquiet i hi) hothers hfaults
  obtain ⟨hm1, hm2, hm3⟩ := userType_mask ty hty
  generalize hcdef : callerFrame x y s.nextId ty msg = c at *
  have hct : c.header.msgType = .int ty.toNat := by rw [← hcdef, ← hm1]; rfl
  have hcm : c.message = msg := by rw [← hcdef]; rfl
  have hcf : c.header.fromNode = val x := by rw [← hcdef]; rfl
  have hcto : c.header.toNode = val y := by rw [← hcdef]; rfl
  have hcid : c.header.frameId = s.nextId := by rw [← hcdef]; rfl
  have hcr : c.header.reserved = 0 := by rw [← hcdef]; rfl
  have hvx : val x < 4096 := val_lt_4096 hx
  have hvy : val y < 4096 := val_lt_4096 hy
  -- the wire frame
  have hwc : wireCopy c = ⟨⟨val x, val y, s.nextId &&& 0xFFFF, .int ty.toNat, 0⟩, msg⟩ := by
    unfold wireCopy
    simp only [Header.ty, hct, hcf, hcto, hcid, hcm, hm2, hcr]
    rw [and_fff, and_fff, Nat.mod_eq_of_lt hvx, Nat.mod_eq_of_lt hvy]
    rfl
  have hidem : wireCopy (wireCopy c) = wireCopy c := C05_wireCopy_idem c
  -- the state `b` starts its update in
  generalize hs1 : (prepared s c).afterRf D = s1 at hw
  have hpc : (prepared s c).cur = a := hcur
  have hpl : (prepared s c).nodes.length = s.nodes.length := by simp [prepared]
  have hs1c : s1.cur = a := by rw [← hs1]; exact hcur
  have hs1l : s1.nodes.length = s.nodes.length := by rw [← hs1]; simp [prepared]
  have hs1w : s1.w = D.w := by rw [← hs1]; rfl
  have hs1cl : s1.closed = true := by rw [← hs1]; exact hclosed
  have hs1at : ∀ i, i ≠ a → s1.nodeAt i = s.nodeAt i := by
    intro i hi
    rw [← hs1, nodeAt_afterRf_ne _ _ _ (by rw [hpc]; exact hi)]
    show (NetState.setNode _ _).nodeAt i = _
    rw [nodeAt_setNode, if_neg (fun h => hi (h.1.trans hcur))]
    rfl
  have hs1a : s1.nodeAt a = { s.nodeAt a with rf := D.d, frameBuf := wireCopy c } := by
    rw [← hs1, nodeAt_afterRf, if_pos ⟨hpc.symm, by rw [hpc, hpl]; exact ha⟩]
    show ({ (NetState.setNode _ _).nodeAt a with rf := D.d } : Node) = _
    rw [nodeAt_setNode, if_pos ⟨hcur.symm, by show s.cur < s.nodes.length; rw [hcur]; exact ha⟩]
    rfl
  generalize ht : (s1.ret).callAs b = t
  have htc : t.cur = b := by rw [← ht]; rfl
  have hta : t.active = [b] := by rw [← ht]; rfl
  have htl : t.nodes.length = s.nodes.length := by
    rw [← ht]; show (s1.nodes.modify _ _).length = _; rw [List.length_modify, hs1l]
  have htcl : t.closed = true := by rw [← ht]; exact hs1cl
  have htrad : ∀ r, t.w.radio r = D.w.radio r := by
    intro r; rw [← ht]; show s1.w.radio r = _; rw [hs1w]
  have htfa : t.w.faults = [] := by rw [← ht]; show s1.w.faults = []; rw [hs1w]; exact f1
  have htlen : t.w.radios.length = s.w.radios.length := by
    rw [← ht]; show s1.w.radios.length = _; rw [hs1w]; exact l1
  have htat : ∀ i, i ≠ a → t.nodeAt i = s.nodeAt i := by
    intro i hi
    rw [← ht, nodeAt_callAs, nodeAt_ret, if_neg (fun h => hi (h.1.trans hs1c)), hs1at i hi]
  have htata : t.nodeAt a = { s.nodeAt a with rf := D.d, frameBuf := wireCopy c, clock := s1.w.clock } := by
    rw [← ht, nodeAt_callAs, nodeAt_ret, if_pos ⟨hs1c.symm, by rw [hs1c, hs1l]; exact ha⟩, hs1a]
  have hba : b ≠ a := fun h => hab h.symm
  have htn : t.node = s.nodeAt b := by
    show t.nodeAt t.cur = _
    rw [htc, htat b hba]
  have htrb : t.drv.radio =
      (s.radioAt b).withRx [{ pipe := hopPipe x y, data := pk }] { pid := pid, addr := A, data := pk } := by
    show t.w.radio t.node.rf.rid = _
    rw [htrad, htn]
    exact hrb
  obtain ⟨hp1, hp5⟩ : 1 ≤ hopPipe x y ∧ hopPipe x y ≤ 5 := by
    have := C04_listens cfg hcfg x y hx hy hxy TX_NORMAL (Or.inl rfl)
    exact ⟨this.1, this.2.1⟩
  have htq : Quiet t := by
    intro i hi hic hia
    rw [htl] at hi; rw [htc] at hic
    unfold NetState.radioAt NetState.ridAt
    rw [htrad]
    by_cases hia' : i = a
    · subst hia'
      rw [htata]
      show (D.w.radio D.d.rid).rxFifo = []
      have : D.radio.rxFifo = [] := by rw [x1]; exact hquiet i ha
      exact this
    · rw [htat i hia']
      show (D.w.radio (s.ridAt i)).rxFifo = []
      rw [hoth _ (hrid i a hi ha hia') (hrid i b hi hb hic)]
      exact hquiet i hi
  -- the update of `b`
  obtain ⟨D1, D2, e, F1, F2, N2, x2⟩ := netUpdate_deliver hc 199996 t L Pb (hopPipe x y) pk (wireCopy c) ty.toNat
    (by rw [htc, htl]; exact hb) htcl (by rw [htl]; omega) htq
    (by unfold DrvState.Wf; show t.node.rf.rid < t.w.radios.length; rw [htn, htlen]; exact hWb)
    (by
      rw [htn, htrb]
      exact hNb.withRx _ _ _ hp5)
    (by rw [htn]; exact harr_b) (by rw [htrb]; rfl) hp5
    (by rw [hwc]) hpk (by rw [hwc]; exact hlen)
    (by rw [hidem, hwc, htn, haddr_b]; rfl)
    (by rw [hidem, hwc]; exact isValid_val hy) (by rw [hidem, hwc]; exact isValid_val hx)
    (by rw [hm2]; exact hm3)
    (by rw [htn]; exact hroom)
    (by
      rw [htn, hidem, hwc]
      exact hnew)
  rw [hm2] at e
  rw [hidem] at e
  refine ⟨s1, (((t.afterRf D1).withFrame (wireCopy c)).enqueued (wireCopy c)).afterRf D2, hw, ?_, ?_, ?_⟩
  · rw [ht]
    show nexec (nodeUpdate (199999 + 1)) t = _
    refine nodeUpdate_plain 199999 t _ _ e ?_
    -- the node is still `b`'s object
    have hc1 : (t.afterRf D1).cur < (t.afterRf D1).nodes.length := by simp; rw [htc, htl]; exact hb
    have hc2 : ((t.afterRf D1).withFrame (wireCopy c)).cur < ((t.afterRf D1).withFrame (wireCopy c)).nodes.length := by
      simpa using hc1
    have hc3 : (((t.afterRf D1).withFrame (wireCopy c)).enqueued (wireCopy c)).cur <
        (((t.afterRf D1).withFrame (wireCopy c)).enqueued (wireCopy c)).nodes.length := by simpa using hc1
    rw [afterRf_node _ _ hc3, enqueued_node _ _ hc2, withFrame_node _ _ hc1,
      afterRf_node _ _ (by rw [htc, htl]; exact hb), htn]
    exact hkind_b
  · -- exactly once, nowhere else
    have hc0 : t.cur < t.nodes.length := by rw [htc, htl]; exact hb
    have hc1 : (t.afterRf D1).cur < (t.afterRf D1).nodes.length := by simpa using hc0
    have hc2 : ((t.afterRf D1).withFrame (wireCopy c)).cur < ((t.afterRf D1).withFrame (wireCopy c)).nodes.length := by
      simpa using hc0
    have hc3 : (((t.afterRf D1).withFrame (wireCopy c)).enqueued (wireCopy c)).cur <
        (((t.afterRf D1).withFrame (wireCopy c)).enqueued (wireCopy c)).nodes.length := by simpa using hc0
    refine ⟨by simp; exact htl, ⟨wireCopy c, ?_, ?_⟩, ?_⟩
    · show ((NetState.afterRf _ D2).nodeAt b).queue.frames = (s.nodeAt b).queue.frames ++ [wireCopy c]
      have : ((((t.afterRf D1).withFrame (wireCopy c)).enqueued (wireCopy c)).afterRf D2).nodeAt b =
          ((((t.afterRf D1).withFrame (wireCopy c)).enqueued (wireCopy c)).afterRf D2).node := by
        show _ = NetState.nodeAt _ (NetState.cur _)
        simp [htc]
      rw [this, afterRf_node _ _ hc3, enqueued_node _ _ hc2, withFrame_node _ _ hc1, afterRf_node _ _ hc0, htn]
      rfl
    · rw [hwc]; exact ⟨rfl, rfl, rfl⟩
    · intro j hj
      show ((NetState.afterRf _ D2).nodeAt j).queue.frames = (s.nodeAt j).queue.frames
      have hjc : j ≠ t.cur := by rw [htc]; exact hj
      rw [nodeAt_afterRf_ne _ _ _ (by simpa using hjc), nodeAt_enqueued_ne _ _ _ (by simpa using hjc),
        nodeAt_withFrame_ne _ _ _ (by simpa using hjc), nodeAt_afterRf_ne _ _ _ hjc]
      by_cases hja : j = a
      · subst hja; rw [htata]
      · rw [htat j hja]
  · -- quiescence: every RX FIFO is empty
    intro i hi
    have hc0 : t.cur < t.nodes.length := by rw [htc, htl]; exact hb
    have hc1 : (t.afterRf D1).cur < (t.afterRf D1).nodes.length := by simpa using hc0
    have hc2 : ((t.afterRf D1).withFrame (wireCopy c)).cur < ((t.afterRf D1).withFrame (wireCopy c)).nodes.length := by
      simpa using hc0
    have hc3 : (((t.afterRf D1).withFrame (wireCopy c)).enqueued (wireCopy c)).cur <
        (((t.afterRf D1).withFrame (wireCopy c)).enqueued (wireCopy c)).nodes.length := by simpa using hc0
    have F12 : DrvFrame t.drv D2 := F1.trans F2
    by_cases hib : i = b
    · subst hib
      have : ((((t.afterRf D1).withFrame (wireCopy c)).enqueued (wireCopy c)).afterRf D2).nodeAt i =
          ((((t.afterRf D1).withFrame (wireCopy c)).enqueued (wireCopy c)).afterRf D2).node := by
        show _ = NetState.nodeAt _ (NetState.cur _)
        simp [htc]
      unfold NetState.radioAt NetState.ridAt
      rw [this, afterRf_node _ _ hc3]
      exact x2
    · have hjc : i ≠ t.cur := by rw [htc]; exact hib
      unfold NetState.radioAt NetState.ridAt
      rw [nodeAt_afterRf_ne _ _ _ (by simpa using hjc), nodeAt_enqueued_ne _ _ _ (by simpa using hjc),
        nodeAt_withFrame_ne _ _ _ (by simpa using hjc), nodeAt_afterRf_ne _ _ _ hjc]
      show (D2.w.radio (t.nodeAt i).rf.rid).rxFifo = []
      have hrid_i : (t.nodeAt i).rf.rid = s.ridAt i := by
        by_cases hia : i = a
        · subst hia; rw [htata]; exact r1
        · rw [htat i hia]; rfl
      have hne : (t.nodeAt i).rf.rid ≠ t.drv.d.rid := by
        rw [hrid_i]
        show _ ≠ t.node.rf.rid
        rw [htn]
        exact hrid i b hi hb hib
      rw [F12.others _ hne]
      exact htq i (by rw [htl]; exact hi) hjc (by rw [hta]; simpa using hib)

/-- non-vacuity: every hypothesis of `C05_two_nodes` other than the driver contracts is satisfied
    by the concrete network of `NrfProofs/C05Example.lean` (master `0o0` and child `0o1` as their
    constructors leave them), the master writing `[1, 2, 3]` with type 5 to the child -/
example (hc : L3Contracts) : ∃ s1 s2,
    nexec (apiNetWrite (val [1]) 5 [1, 2, 3] AUTO_ROUTING) Example.two =
      (.ok (true, callerFrame [] [1] 4 5 [1, 2, 3]), s1) ∧
    nexec apiUpdate ((s1.ret).callAs 1) = (.ok 5, s2) ∧
    DeliveredOnce Example.two.nodes s2.nodes 1 0 5 [1, 2, 3] ∧
    ∀ i, i < 2 → (s2.radioAt i).rxFifo = [] :=
  C05_two_nodes hc {} (by decide) Example.L Example.two 0 1 [] [1] Example.P0 Example.P1 5 [1, 2, 3]
    (by decide) (by decide) (by decide) (by decide) rfl rfl rfl (by decide) (by decide) (by decide) (by decide)
    (by
      intro i j hi hj hij
      have hi' : i < 2 := hi
      have hj' : j < 2 := hj
      have : (i = 0 ∧ j = 1) ∨ (i = 1 ∧ j = 0) := by omega
      rcases this with ⟨rfl, rfl⟩ | ⟨rfl, rfl⟩ <;> decide)
    (by decide) (by decide) Example.two_radio0 (by decide) (by decide) (by decide) (by decide)
    Example.two_radio1 Example.two_pipes1 (NotDupFrame.of_none (by decide)) (by decide) (by decide) (by decide)
    (by
      intro i hi
      have hi' : i < 2 := hi
      have : i = 0 ∨ i = 1 := by omega
      rcases this with rfl | rfl <;> decide)
    (fun r A buf pid h1 h2 _ => Example.two_others r _ h1 h2) (by decide) (by decide) (by decide) (by decide)

/-! ## routes, closed system -/

/-- **A single-frame message of a type without NETWORK_ACK (0..64) over any tree route** — closed
    system with the schedule of `runOthers`, loss-free, under the driver contracts.  `NetOk`: every
    node object is a distinct tree node on its own radio, configured alike, listening on its tree
    addresses, no scripted arrivals, empty fault script; nobody has address `0o4444`; all RX FIFOs are
    empty; every node of the tree route from the caller `a` to `d` is present, and the packet its radio
    accepted last — if any; the nodes need not be fresh — does not carry this frame's bytes (`NotDupFrame`:
    the radio's duplicate filter cannot hit); the destination's queue accepts the frame.  Then `write()` returns `True`, and the next `update()` of the first hop
    (entered as the test session does) makes the whole route forward — each router's `update()` runs
    inside its predecessor's next `read()` — so that in the end **the destination's queue has gained
    exactly that message (origin, type, bytes) and every other node's queue is unchanged**
    (`DeliveredOnce`), and every RX FIFO is empty afterwards, for routes of any length (C04: at most 8 hops;
    one hop included: neighbours in a full network).

    What this leaves open for the full statement (`C05_single` / `C05_frag` of DESIGN §7) — hence
    `_partial`: (1) schedules other than `runOthers` (e.g. the `update()` being made by a node off the
    route, or a router polled only later; here the first hop's own `update()` starts the cascade);
    (2) types 65..127, whose NETWORK_ACK round trip is C13's liveness; (3) messages longer than 24
    bytes over more than one hop (one hop: `C05_two_nodes_frag_closed_partial`; what routers add is described at the
    end of the file).  (The former restriction (4) — radios that never received anything — is gone:
    `NotDupFrame`.) -/
theorem C05_route_partial (hc : L3Contracts) (cfg : AddrCfg) (hcfg : CfgOk cfg) (L : LinkCfg)
    (tree : Nat → List Nat) (s : NetState) (a : Nat) (d : List Nat) (ty : Int) (msg : Bytes)
    (hok : NetOk cfg L tree s) (hcur : s.cur = a) (hact : s.active = [a]) (ha : a < s.nodes.length)
    (hsize : s.nodes.length ≤ 20000) (hndef : ∀ i, val (tree i) ≠ NETWORK_DEFAULT_ADDR)
    (hd : IsNode d) (hxd : tree a ≠ d)
    (hroute : ∀ k, 1 ≤ k → k ≤ dist (tree a) d →
      ∃ j, j < s.nodes.length ∧ tree j = hops k (tree a) d ∧
        NotDupFrame (s.radioAt j) (wireCopy (callerFrame (tree a) d s.nextId ty msg)))
    (hquiet : ∀ i, i < s.nodes.length → (s.radioAt i).rxFifo = [])
    (hty : 0 ≤ ty ∧ ty ≤ 64) (hlen : msg.length ≤ MAX_FRAG_SIZE)
    (hmax : msg.length ≤ (s.nodeAt a).maxMessageLength)
    (hacc : ∀ j, j < s.nodes.length → tree j = d →
      Accepts (s.nodeAt j).queue (wireCopy (callerFrame (tree a) d s.nextId ty msg))) :
    ∃ s1 j1 jd, j1 < s.nodes.length ∧ tree j1 = nextHopSpec (tree a) d ∧ jd < s.nodes.length ∧ tree jd = d ∧
      nexec (apiNetWrite (val d) ty msg AUTO_ROUTING) s =
        (.ok (true, callerFrame (tree a) d s.nextId ty msg), s1) ∧
      ∃ r s2, nexec apiUpdate ((s1.ret).callAs j1) = (.ok r, s2) ∧
        DeliveredOnce s.nodes s2.nodes jd (val (tree a)) ty.toNat msg ∧
        ∀ i, i < s.nodes.length → (s2.radioAt i).rxFifo = [] := by
  subst hcur
  generalize hx : tree s.cur = x at *
  have hxn : IsNode x := by have := (hok.node s.cur ha).1; rw [hx] at this; exact this
  have hpos : 1 ≤ dist x d := by
    rcases Nat.eq_zero_or_pos (dist x d) with h | h
    · exact absurd (dist_eq_zero h) hxd
    · exact h
  obtain ⟨j, hj, htj, hjl⟩ := hroute 1 (by omega) hpos
  have htj' : tree j = nextHopSpec x d := htj
  obtain ⟨jd, hjd, htjd, _⟩ := hroute (dist x d) hpos (Nat.le_refl _)
  rw [hops_dist] at htjd
  obtain ⟨D, pk, A, pid, P, hpk, hw, hP, r1, l1, f1, N1, x1, hrb, hoth⟩ :=
    write_hop hc cfg hcfg L tree s d ty msg j hok ha hact (by omega) hd (by rw [hx]; exact hxd) hj
      (by rw [hx]; exact htj') (by rw [hx]; exact hjl) hquiet hty hlen hmax
  rw [hx] at hpk hw hP hrb
  generalize hcdef : callerFrame x d s.nextId ty msg = c at *
  have hm1 : maskInt ty 0xFF = ty.toNat := by
    unfold maskInt
    have : ty % ((0xFF : Nat) + 1 : Int) = ty := Int.emod_eq_of_lt hty.1 (by omega)
    rw [this]
  have hm2 : ty.toNat &&& 0xFF = ty.toNat := by rw [and_ff]; omega
  have hvx : val x < 4096 := val_lt_4096 hxn
  have hvd : val d < 4096 := val_lt_4096 hd
  have hwc : wireCopy c = ⟨⟨val x, val d, s.nextId &&& 0xFFFF, .int ty.toNat, 0⟩, msg⟩ := by
    rw [← hcdef]
    unfold wireCopy callerFrame
    simp only [Header.ty, hm1, hm2]
    rw [and_fff, and_fff, Nat.mod_eq_of_lt hvx, Nat.mod_eq_of_lt hvd]
    rfl
  have T : Transit (wireCopy c) pk ty.toNat x d :=
    ⟨C05_wireCopy_idem c, by rw [hwc], by omega, by rw [hwc], by rw [hwc], hpk, by rw [hwc]; exact hlen, hd, hxn⟩
  -- the state the first hop starts its update in
  have hji : j ≠ s.cur := by
    intro e; rw [e, hx] at htj'; exact nextHop_ne_self hxd htj'.symm
  generalize hs1 : (prepared s c).afterRf D = s1 at hw
  have hpc : (prepared s c).cur = s.cur := rfl
  have hpl : (prepared s c).nodes.length = s.nodes.length := by simp [prepared]
  have hsame1 : Same s s1 := by
    rw [← hs1]
    refine (Same.prepared s c).trans (Same.afterRf _ D (by rw [hpc, hpl]; exact ha) ?_ (by rw [l1]; rfl) ?_)
    · rw [r1]; show _ = ((prepared s c).nodeAt (prepared s c).cur).rf.rid
      exact (((Same.prepared s c).stat s.cur).2.2.2.2).symm
    · intro r hr
      have h1 : r ≠ s.ridAt s.cur := by
        rw [← ((Same.prepared s c).stat s.cur).2.2.2.2]; exact (hr s.cur (by rw [hpl]; exact ha)).symm
      have h2 : r ≠ s.ridAt j := by
        rw [← ((Same.prepared s c).stat j).2.2.2.2]; exact (hr j (by rw [hpl]; exact hj)).symm
      rw [hoth r h1 h2]; rfl
  have hs1c : s1.cur = s.cur := by rw [← hs1]; rfl
  have hs1w : s1.w = D.w := by rw [← hs1]; rfl
  have hs1q : ∀ k, (s1.nodeAt k).queue = (s.nodeAt k).queue := by
    intro k
    rw [← hs1, queue_afterRf]
    show ((NetState.setNode _ _).nodeAt k).queue = _
    rw [nodeAt_setNode]; split <;> rfl
  have hs1rf : ∀ k, k ≠ s.cur → (s1.nodeAt k).rf = (s.nodeAt k).rf := by
    intro k hk
    rw [← hs1, nodeAt_afterRf_ne _ _ _ (by rw [hpc]; exact hk)]
    show ((NetState.setNode _ _).nodeAt k).rf = _
    rw [nodeAt_setNode]; split <;> rfl
  have hs1rfa : (s1.nodeAt s.cur).rf = D.d := by
    rw [← hs1, nodeAt_afterRf, if_pos ⟨hpc.symm, by rw [hpc, hpl]; exact ha⟩]
  have hs1rid : ∀ k, s1.ridAt k = s.ridAt k := fun k => (hsame1.stat k).2.2.2.2
  have hs1rada : s1.radioAt s.cur = D.radio := by
    unfold NetState.radioAt NetState.ridAt
    rw [hs1rfa, hs1w]; rfl
  have hs1radj : s1.radioAt j = (s.radioAt j).withRx [{ pipe := hopPipe x d, data := pk }]
      { pid := pid, addr := A, data := pk } := by
    unfold NetState.radioAt; rw [hs1rid, hs1w, hrb]; rfl
  have hs1rad : ∀ k, k < s.nodes.length → k ≠ s.cur → k ≠ j → s1.radioAt k = s.radioAt k := by
    intro k hk hka hkj
    unfold NetState.radioAt
    rw [hs1rid, hs1w, hoth _ (hok.inj k s.cur hk ha hka).2 (hok.inj k j hk hj hkj).2]
  generalize ht : (s1.ret).callAs j = t
  have hsamet : Same s t := by
    rw [← ht]; exact (hsame1.trans (Same.ret s1)).trans (Same.callAs _ j)
  have htc : t.cur = j := by rw [← ht]; rfl
  have hta : t.active = [j] := by rw [← ht]; rfl
  have htl : t.nodes.length = s.nodes.length := hsamet.len
  have htrf : ∀ k, (t.nodeAt k).rf = (s1.nodeAt k).rf := by
    intro k; rw [← ht, nodeAt_callAs]; exact (ret_facts s1 k).1
  have htq : ∀ k, (t.nodeAt k).queue = (s.nodeAt k).queue := by
    intro k; rw [← ht, nodeAt_callAs, (ret_facts s1 k).2.1, hs1q]
  have htrad : ∀ k, t.radioAt k = s1.radioAt k := by
    intro k
    rw [← ht]
    show (s1.ret).radioAt k = _
    exact (ret_facts s1 k).2.2
  have hdisty : dist (nextHopSpec x d) d + 1 = dist x d := dist_nextHop hxd
  have hp5 : hopPipe x d ≤ 5 := (C04_listens cfg hcfg x d hxn hd hxd TX_NORMAL (Or.inl rfl)).2.1
  have H : Holding cfg L tree d (wireCopy c) pk (dist x d - 1) t := by
    refine ⟨?_, by rw [htc, htl]; exact hj, by rw [htc, hta]; exact List.mem_cons_self,
      by rw [htc, htj']; omega, ?_, ⟨hopPipe x d, ?_, by rw [htc, htrad, hs1radj]; rfl⟩, ?_, ?_⟩
    · refine hok.of_same hsamet (by rw [← ht]; show s1.w.faults = []; rw [hs1w]; exact f1) ?_
      intro k hk P' hP' hN'
      rw [htrf, htrad]
      by_cases hka : k = s.cur
      · subst hka
        rw [hx] at hP'
        have : P' = P := Except.ok.inj (hP'.symm.trans hP)
        subst this
        rw [hs1rfa, hs1rada]; exact N1
      · rw [hs1rf k hka]
        by_cases hkj : k = j
        · subst hkj; rw [hs1radj]; exact hN'.withRx _ _ _ hp5
        · rw [hs1rad k hk hka hkj]; exact hN'
    · intro k hk1 hkn
      obtain ⟨j', hj', htj'', hjl'⟩ := hroute (k + 1) (by omega) (by omega)
      have hj'j : j' ≠ j := by
        intro e
        rw [e, htj'] at htj''
        exact hops_ne_origin (s := nextHopSpec x d) (d := d) (n := k) (by omega) (by omega) htj''.symm
      have hj'a : j' ≠ s.cur := by
        intro e
        rw [e, hx] at htj''
        exact hops_ne_origin (s := x) (d := d) (n := k + 1) (by omega) (by omega) htj''.symm
      refine ⟨j', by rw [htl]; exact hj', by rw [htc, htj']; exact htj'', ?_, ?_⟩
      · rw [hta]; simp only [List.mem_singleton]; exact hj'j
      · rw [htrad, hs1rad j' hj' hj'a hj'j]; exact hjl'.notDup hpk
    · have := C04_listens cfg hcfg x d hxn hd hxd TX_NORMAL (Or.inl rfl)
      exact this.2.1
    · intro k hk hkj
      rw [htl] at hk; rw [htc] at hkj
      rw [htrad]
      by_cases hka : k = s.cur
      · subst hka; rw [hs1rada]; exact x1
      · rw [hs1rad k hk hka hkj]; exact hquiet k hk
    · intro k hk htk
      rw [htl] at hk
      rw [htq]; exact hacc k hk htk
  have hbound : dist x d ≤ 8 := C04_route_bound x d hxn hd
  obtain ⟨r, s2, e2, Aok, Acur, Aact, Asame, Afifo, Aqueue⟩ :=
    route_all hc cfg hcfg L tree (wireCopy c) pk ty.toNat x d T hndef (dist x d - 1) t F H (by
      rw [htl]
      show _ ≤ 200000
      have h1 : dist x d - 1 + 1 ≤ 8 := by omega
      have h2 : (dist x d - 1 + 1) * (s.nodes.length + 12) ≤ 8 * (s.nodes.length + 12) :=
        Nat.mul_le_mul_right _ h1
      omega)
  rw [htl] at Afifo Aqueue
  refine ⟨s1, j, jd, hj, htj', hjd, htjd, hw, r, s2, ?_, ?_, Afifo⟩
  · rw [ht]; exact e2
  · have hl2 : s2.nodes.length = s.nodes.length := by rw [Asame.len, htl]
    refine ⟨hl2, ⟨wireCopy c, ?_, ?_⟩, ?_⟩
    · show (s2.nodeAt jd).queue.frames = (s.nodeAt jd).queue.frames ++ [wireCopy c]
      rw [Aqueue jd hjd, if_pos htjd, htq]
    · rw [hwc]; exact ⟨rfl, rfl, rfl⟩
    · intro k hk
      show (s2.nodeAt k).queue.frames = (s.nodeAt k).queue.frames
      by_cases hkl : k < s.nodes.length
      · rw [Aqueue k hkl, if_neg (fun e => (hok.inj k jd hkl hjd hk).1 (e.trans htjd.symm)), htq]
        simp
      · unfold NetState.nodeAt
        rw [List.getD_eq_getElem?_getD, List.getD_eq_getElem?_getD,
          List.getElem?_eq_none (by omega), List.getElem?_eq_none (by omega)]

/-- non-vacuity: every hypothesis of `C05_route_partial` other than the driver contracts holds for the
    concrete chain `0o0 — 0o1 — 0o11` of `NrfProofs/C05Example3.lean`, the grandchild writing `[9, 8, 7]`
    with type 7 to the master (two hops; running the model gives the same outcome) -/
example (hc : L3Contracts) : ∃ s1 j1 jd, j1 < 3 ∧ Example.tree3 j1 = [1] ∧ jd < 3 ∧ Example.tree3 jd = [] ∧
    nexec (apiNetWrite (val []) 7 [9, 8, 7] AUTO_ROUTING) Example.three =
      (.ok (true, callerFrame [1, 1] [] 6 7 [9, 8, 7]), s1) ∧
    ∃ r s2, nexec apiUpdate ((s1.ret).callAs j1) = (.ok r, s2) ∧
      DeliveredOnce Example.three.nodes s2.nodes jd (val [1, 1]) 7 [9, 8, 7] ∧
      ∀ i, i < 3 → (s2.radioAt i).rxFifo = [] :=
  C05_route_partial hc {} (by decide) Example.L Example.tree3 Example.three 2 [] 7 [9, 8, 7]
    Example.three_ok rfl rfl (by decide) (by decide)
    (by
      intro i
      match i with
      | 0 => decide
      | 1 => decide
      | 2 => decide
      | n + 3 =>
        show val [5, 5, 5, 5 - n % 4] ≠ 0o4444
        simp only [val]
        omega)
    (by decide) (by decide)
    (by
      intro k hk1 hk2
      have hd : dist (Example.tree3 2) [] = 2 := by decide
      rw [hd] at hk2
      have : k = 1 ∨ k = 2 := by omega
      rcases this with rfl | rfl
      · exact ⟨1, by decide, by decide, NotDupFrame.of_none (by decide)⟩
      · exact ⟨0, by decide, by decide, NotDupFrame.of_none (by decide)⟩)
    (by
      intro i hi
      have hi' : i < 3 := hi
      have : i = 0 ∨ i = 1 ∨ i = 2 := by omega
      rcases this with rfl | rfl | rfl <;> decide)
    (by decide) (by decide) (by decide)
    (by
      intro j hj htj
      have hj' : j < 3 := hj
      have : j = 0 ∨ j = 1 ∨ j = 2 := by omega
      rcases this with rfl | rfl | rfl
      · exact ⟨by decide, by intro g hg; cases hg⟩
      · exact absurd htj (by decide)
      · exact absurd htj (by decide))

/-! ## the same, with the driver contracts proved

`l3contracts : L3Contracts` (NrfProofs/L3Discharge.lean) proves the six driver contracts from the driver model
over the chip and the air, so the closed-system theorems above hold without that hypothesis. -/

/-- `C05_two_nodes_write` without the hypothesis `L3Contracts` (discharged by `l3contracts`) -/
theorem C05_two_nodes_write_closed_partial (cfg : AddrCfg) (hcfg : CfgOk cfg) (L : LinkCfg)
    (s : NetState) (a b : Nat) (x y : List Nat) (Pa Pb : List Bytes) (ty : Int) (msg : Bytes)
    (hx : IsNode x) (hy : IsNode y) (hadj : nextHopSpec x y = y) (hxy : x ≠ y)
    (hcur : s.cur = a) (hact : s.active = [a]) (hclosed : s.closed = true)
    (ha : a < s.nodes.length) (hb : b < s.nodes.length) (hab : a ≠ b) (hsize : s.nodes.length ≤ 100000)
    (hrid : ∀ i, i < s.nodes.length → i ≠ a → s.ridAt i ≠ s.ridAt a)
    (hWa : s.ridAt a < s.w.radios.length)
    (hNa : NodeRadio L Pa true true 0x3E (s.nodeAt a).rf (s.radioAt a))
    (haddr_a : (s.nodeAt a).a = nodeSpec x) (hcfg_a : (s.nodeAt a).cfg = cfg)
    (hmax : msg.length ≤ (s.nodeAt a).maxMessageLength) (hlen : msg.length ≤ MAX_FRAG_SIZE)
    (hNb : NodeRadio L Pb true true 0x3E (s.nodeAt b).rf (s.radioAt b))
    (hPb : beginPipes cfg (val y) = .ok Pb) (hlast : NotDupFrame (s.radioAt b) (wireCopy (callerFrame x y s.nextId ty msg)))
    (hquiet : ∀ i, i < s.nodes.length → i ≠ a → (s.radioAt i).rxFifo = [])
    (hothers : ∀ r A buf pid, r ≠ s.ridAt a → r ≠ s.ridAt b → Pb[hopPipe x y]? = some A →
      (s.w.radio r).listensTo (unicastPacket L A buf pid) = none)
    (hfaults : s.w.faults = []) :
    ∃ (D : DrvState) (pk A : Bytes) (pid : Nat),
      (wireCopy (callerFrame x y s.nextId ty msg)).pack = .ok pk ∧
      nexec (apiNetWrite (val y) ty msg AUTO_ROUTING) s =
        (.ok (true, callerFrame x y s.nextId ty msg),
         (prepared s (callerFrame x y s.nextId ty msg)).afterRf D) ∧
      D.d.rid = (s.nodeAt a).rf.rid ∧ D.w.radios.length = s.w.radios.length ∧ D.w.faults = [] ∧
      NodeRadio L Pa true true 0x3E D.d D.radio ∧ D.radio.rxFifo = (s.radioAt a).rxFifo ∧
      D.radio.lastRx = (s.radioAt a).lastRx ∧
      D.w.radio (s.ridAt b) =
        (s.radioAt b).withRx [{ pipe := hopPipe x y, data := pk }] { pid := pid, addr := A, data := pk } ∧
      (∀ r, r ≠ s.ridAt a → r ≠ s.ridAt b → D.w.radio r = s.w.radio r) :=
  C05_two_nodes_write l3contracts cfg hcfg L s a b x y Pa Pb ty msg hx hy hadj hxy hcur hact hclosed ha hb hab
    hsize hrid hWa hNa haddr_a hcfg_a hmax hlen hNb hPb hlast hquiet hothers hfaults

/-- **`C05_two_nodes` unconditionally**: a single-frame user message between two neighbours is delivered
    exactly once, intact (closed system, loss-free) — the driver contracts are discharged by `l3contracts` -/
theorem C05_two_nodes_closed_partial (cfg : AddrCfg) (hcfg : CfgOk cfg) (L : LinkCfg)
    (s : NetState) (a b : Nat) (x y : List Nat) (Pa Pb : List Bytes) (ty : Int) (msg : Bytes)
    (hx : IsNode x) (hy : IsNode y) (hadj : nextHopSpec x y = y) (hxy : x ≠ y)
    (hcur : s.cur = a) (hact : s.active = [a]) (hclosed : s.closed = true)
    (ha : a < s.nodes.length) (hb : b < s.nodes.length) (hab : a ≠ b) (hsize : s.nodes.length ≤ 100000)
    (hrid : ∀ i j, i < s.nodes.length → j < s.nodes.length → i ≠ j → s.ridAt i ≠ s.ridAt j)
    (hWa : s.ridAt a < s.w.radios.length) (hWb : s.ridAt b < s.w.radios.length)
    (hNa : NodeRadio L Pa true true 0x3E (s.nodeAt a).rf (s.radioAt a))
    (haddr_a : (s.nodeAt a).a = nodeSpec x) (hcfg_a : (s.nodeAt a).cfg = cfg)
    (hmax : msg.length ≤ (s.nodeAt a).maxMessageLength) (hlen : msg.length ≤ MAX_FRAG_SIZE)
    (hNb : NodeRadio L Pb true true 0x3E (s.nodeAt b).rf (s.radioAt b))
    (hPb : beginPipes cfg (val y) = .ok Pb) (hlast : NotDupFrame (s.radioAt b) (wireCopy (callerFrame x y s.nextId ty msg)))
    (haddr_b : (s.nodeAt b).a = nodeSpec y) (harr_b : (s.nodeAt b).arrivals = [])
    (hkind_b : (s.nodeAt b).kind ≠ .meshMaster)
    (hquiet : ∀ i, i < s.nodes.length → (s.radioAt i).rxFifo = [])
    (hothers : ∀ r A buf pid, r ≠ s.ridAt a → r ≠ s.ridAt b → Pb[hopPipe x y]? = some A →
      (s.w.radio r).listensTo (unicastPacket L A buf pid) = none)
    (hfaults : s.w.faults = []) (hty : 0 ≤ ty ∧ ty ≤ 127)
    (hroom : ((s.nodeAt b).queue.frames.length : Int) < (s.nodeAt b).queue.maxSize)
    (hnew : ∀ g ∈ (s.nodeAt b).queue.frames, ¬ (g.header.fromNode = val x ∧
      g.header.frameId = s.nextId &&& 0xFFFF ∧ g.header.ty = ty.toNat)) :
    ∃ s1 s2, nexec (apiNetWrite (val y) ty msg AUTO_ROUTING) s =
        (.ok (true, callerFrame x y s.nextId ty msg), s1) ∧
      nexec apiUpdate ((s1.ret).callAs b) = (.ok ty.toNat, s2) ∧
      DeliveredOnce s.nodes s2.nodes b (val x) ty.toNat msg ∧
      ∀ i, i < s.nodes.length → (s2.radioAt i).rxFifo = [] :=
  C05_two_nodes l3contracts cfg hcfg L s a b x y Pa Pb ty msg hx hy hadj hxy hcur hact hclosed ha hb hab hsize
    hrid hWa hWb hNa haddr_a hcfg_a hmax hlen hNb hPb hlast haddr_b harr_b hkind_b hquiet hothers hfaults hty
    hroom hnew

/-- non-vacuity (the concrete network of `NrfProofs/C05Example.lean`), now without any open hypothesis -/
example : ∃ s1 s2,
    nexec (apiNetWrite (val [1]) 5 [1, 2, 3] AUTO_ROUTING) Example.two =
      (.ok (true, callerFrame [] [1] 4 5 [1, 2, 3]), s1) ∧
    nexec apiUpdate ((s1.ret).callAs 1) = (.ok 5, s2) ∧
    DeliveredOnce Example.two.nodes s2.nodes 1 0 5 [1, 2, 3] ∧
    ∀ i, i < 2 → (s2.radioAt i).rxFifo = [] :=
  C05_two_nodes_closed_partial {} (by decide) Example.L Example.two 0 1 [] [1] Example.P0 Example.P1 5 [1, 2, 3]
    (by decide) (by decide) (by decide) (by decide) rfl rfl rfl (by decide) (by decide) (by decide) (by decide)
    (by
      intro i j hi hj hij
      have hi' : i < 2 := hi
      have hj' : j < 2 := hj
      have : (i = 0 ∧ j = 1) ∨ (i = 1 ∧ j = 0) := by omega
      rcases this with ⟨rfl, rfl⟩ | ⟨rfl, rfl⟩ <;> decide)
    (by decide) (by decide) Example.two_radio0 (by decide) (by decide) (by decide) (by decide)
    Example.two_radio1 Example.two_pipes1 (NotDupFrame.of_none (by decide)) (by decide) (by decide) (by decide)
    (by
      intro i hi
      have hi' : i < 2 := hi
      have : i = 0 ∨ i = 1 := by omega
      rcases this with rfl | rfl <;> decide)
    (fun r A buf pid h1 h2 _ => Example.two_others r _ h1 h2) (by decide) (by decide) (by decide) (by decide)

/-- **`C05_route_partial` unconditionally** (the driver contracts discharged by `l3contracts`); what it
    leaves open for the full statement is listed at `C05_route_partial` -/
theorem C05_route_closed_partial (cfg : AddrCfg) (hcfg : CfgOk cfg) (L : LinkCfg)
    (tree : Nat → List Nat) (s : NetState) (a : Nat) (d : List Nat) (ty : Int) (msg : Bytes)
    (hok : NetOk cfg L tree s) (hcur : s.cur = a) (hact : s.active = [a]) (ha : a < s.nodes.length)
    (hsize : s.nodes.length ≤ 20000) (hndef : ∀ i, val (tree i) ≠ NETWORK_DEFAULT_ADDR)
    (hd : IsNode d) (hxd : tree a ≠ d)
    (hroute : ∀ k, 1 ≤ k → k ≤ dist (tree a) d →
      ∃ j, j < s.nodes.length ∧ tree j = hops k (tree a) d ∧
        NotDupFrame (s.radioAt j) (wireCopy (callerFrame (tree a) d s.nextId ty msg)))
    (hquiet : ∀ i, i < s.nodes.length → (s.radioAt i).rxFifo = [])
    (hty : 0 ≤ ty ∧ ty ≤ 64) (hlen : msg.length ≤ MAX_FRAG_SIZE)
    (hmax : msg.length ≤ (s.nodeAt a).maxMessageLength)
    (hacc : ∀ j, j < s.nodes.length → tree j = d →
      Accepts (s.nodeAt j).queue (wireCopy (callerFrame (tree a) d s.nextId ty msg))) :
    ∃ s1 j1 jd, j1 < s.nodes.length ∧ tree j1 = nextHopSpec (tree a) d ∧ jd < s.nodes.length ∧ tree jd = d ∧
      nexec (apiNetWrite (val d) ty msg AUTO_ROUTING) s =
        (.ok (true, callerFrame (tree a) d s.nextId ty msg), s1) ∧
      ∃ r s2, nexec apiUpdate ((s1.ret).callAs j1) = (.ok r, s2) ∧
        DeliveredOnce s.nodes s2.nodes jd (val (tree a)) ty.toNat msg ∧
        ∀ i, i < s.nodes.length → (s2.radioAt i).rxFifo = [] :=
  C05_route_partial l3contracts cfg hcfg L tree s a d ty msg hok hcur hact ha hsize hndef hd hxd hroute hquiet
    hty hlen hmax hacc

/-- non-vacuity (the chain `0o0 — 0o1 — 0o11` of `NrfProofs/C05Example3.lean`), without any open hypothesis -/
example : ∃ s1 j1 jd, j1 < 3 ∧ Example.tree3 j1 = [1] ∧ jd < 3 ∧ Example.tree3 jd = [] ∧
    nexec (apiNetWrite (val []) 7 [9, 8, 7] AUTO_ROUTING) Example.three =
      (.ok (true, callerFrame [1, 1] [] 6 7 [9, 8, 7]), s1) ∧
    ∃ r s2, nexec apiUpdate ((s1.ret).callAs j1) = (.ok r, s2) ∧
      DeliveredOnce Example.three.nodes s2.nodes jd (val [1, 1]) 7 [9, 8, 7] ∧
      ∀ i, i < 3 → (s2.radioAt i).rxFifo = [] :=
  C05_route_closed_partial {} (by decide) Example.L Example.tree3 Example.three 2 [] 7 [9, 8, 7]
    Example.three_ok rfl rfl (by decide) (by decide)
    (by
      intro i
      match i with
      | 0 => decide
      | 1 => decide
      | 2 => decide
      | n + 3 =>
        show val [5, 5, 5, 5 - n % 4] ≠ 0o4444
        simp only [val]
        omega)
    (by decide) (by decide)
    (by
      intro k hk1 hk2
      have hd : dist (Example.tree3 2) [] = 2 := by decide
      rw [hd] at hk2
      have : k = 1 ∨ k = 2 := by omega
      rcases this with rfl | rfl
      · exact ⟨1, by decide, by decide, NotDupFrame.of_none (by decide)⟩
      · exact ⟨0, by decide, by decide, NotDupFrame.of_none (by decide)⟩)
    (by
      intro i hi
      have hi' : i < 3 := hi
      have : i = 0 ∨ i = 1 ∨ i = 2 := by omega
      rcases this with rfl | rfl | rfl <;> decide)
    (by decide) (by decide) (by decide)
    (by
      intro j hj htj
      have hj' : j < 3 := hj
      have : j = 0 ∨ j = 1 ∨ j = 2 := by omega
      rcases this with rfl | rfl | rfl
      · exact ⟨by decide, by intro g hg; cases hg⟩
      · exact absurd htj (by decide)
      · exact absurd htj (by decide))

/-! ## fragmented messages, closed system -/

/-- **A fragmented user message between two neighbours is delivered exactly once, intact** — closed system
    (`runOthers`), loss-free, under the driver contracts.  The situation of `C05_two_nodes` with a message
    of **25..144 bytes**, fragmentation on at the sender `a` (whose `max_message_length` admits the message)
    and at the receiver `b`.  `write()` at `a` returns `True` and the caller's frame; after it returned,
    the next `update()` of `b` (entered as the test session does, `runAs`) returns 150 (the type of the
    last fragment), and between the initial and the final state **the queue of `b` has gained exactly one
    frame — origin `x`, the message's own type, the complete bytes — and every other node's queue is
    unchanged** (`DeliveredOnce`), and afterwards **every RX FIFO is empty** (no second copy of any fragment
    is waiting).

    How (NrfProofs/C05FragB–D): the fragment loop of `_write_to_pipe` is the execution of the fragment plan
    (`C05_local_tx`); every `send` of the loop is a scheduling point at which `b` — and nobody else — runs
    `update()` and moves the fragment sent before from its RX FIFO (never more than one entry of the three)
    into its reassembly cache (`FragSt.drain`); the `send` is acknowledged at once (`FragSt.send`), so the
    2 ms pauses and `_tx_standby` rounds of the loop never happen; consecutive fragments differ in the
    type / countdown bytes of their headers (`rxFrag_succ_ne`), so the receiving radio's duplicate filter
    (same PID, address and bytes as the last accepted packet) is silent whatever the PIDs are; the LAST
    fragment waits in the RX FIFO when `write()` returns and completes the message at `b`'s next
    `update()` (`deliver_last`, `C05_frag_reassembly`).

    What is asked of the rest of the world (weakened after review): `hdup` — the packet `b`'s radio accepted
    last, if any, is not the packed FIRST fragment of this message (`b` need not be fresh; later fragments
    are covered by `rxFrag_succ_ne`); `hothers` — no third radio listens on the address of `b`'s pipe the
    packets go to (true in every `NetOk` network: `C05_neighbours_frag_closed_partial`), no longer "third radios
    are deaf".  The mechanism sentences above (one FIFO slot, silent duplicate filter) describe the proof; the
    STATEMENT concludes `write() = True`, `update() = 150`, `DeliveredOnce` and quiescence (after `b`'s
    `update()` every RX FIFO of the network is empty).
    One schedule (`runOthers`, `b` polled next), loss-free: a partial result. -/
theorem C05_two_nodes_frag (hc : L3Contracts) (cfg : AddrCfg) (hcfg : CfgOk cfg) (L : LinkCfg)
    (s : NetState) (a b : Nat) (x y : List Nat) (Pa Pb : List Bytes) (ty : Int) (msg : Bytes)
    (hx : IsNode x) (hy : IsNode y) (hadj : nextHopSpec x y = y) (hxy : x ≠ y)
    (hcur : s.cur = a) (hact : s.active = [a]) (hclosed : s.closed = true)
    (ha : a < s.nodes.length) (hb : b < s.nodes.length) (hab : a ≠ b) (hsize : s.nodes.length ≤ 90000)
    (hrid : ∀ i j, i < s.nodes.length → j < s.nodes.length → i ≠ j → s.ridAt i ≠ s.ridAt j)
    (hWa : s.ridAt a < s.w.radios.length) (hWb : s.ridAt b < s.w.radios.length)
    (hNa : NodeRadio L Pa true true 0x3E (s.nodeAt a).rf (s.radioAt a))
    (haddr_a : (s.nodeAt a).a = nodeSpec x) (hcfg_a : (s.nodeAt a).cfg = cfg)
    (hfrag_a : (s.nodeAt a).fragEnabled = true)
    (hmax : msg.length ≤ (s.nodeAt a).maxMessageLength) (hlen : MAX_FRAG_SIZE < msg.length)
    (hlen144 : msg.length ≤ 144)
    (hNb : NodeRadio L Pb true true 0x3E (s.nodeAt b).rf (s.radioAt b))
    (hPb : beginPipes cfg (val y) = .ok Pb)
    (hdup : NotDupFrame (s.radioAt b) ⟨⟨val x, val y, s.nextId &&& 0xFFFF, .int MSG_FRAG_FIRST,
      fragTotal msg.length⟩, msg.take MAX_FRAG_SIZE⟩)
    (haddr_b : (s.nodeAt b).a = nodeSpec y) (harr_b : (s.nodeAt b).arrivals = [])
    (hkind_b : (s.nodeAt b).kind ≠ .meshMaster) (hfrag_b : (s.nodeAt b).queue.frag = true)
    (hquiet : ∀ i, i < s.nodes.length → (s.radioAt i).rxFifo = [])
    (hothers : ∀ r A buf pid, r ≠ s.ridAt a → r ≠ s.ridAt b → Pb[hopPipe x y]? = some A →
      (s.w.radio r).listensTo (unicastPacket L A buf pid) = none)
    (hfaults : s.w.faults = []) (hty : 0 ≤ ty ∧ ty ≤ 127)
    (hroom : ((s.nodeAt b).queue.frames.length : Int) < (s.nodeAt b).queue.maxSize)
    (hnew : ∀ g ∈ (s.nodeAt b).queue.frames, ¬ (g.header.fromNode = val x ∧
      g.header.frameId = s.nextId &&& 0xFFFF ∧ g.header.ty = ty.toNat)) :
    ∃ s1 s2, nexec (apiNetWrite (val y) ty msg AUTO_ROUTING) s =
        (.ok (true, callerFrame x y s.nextId ty msg), s1) ∧
      nexec apiUpdate ((s1.ret).callAs b) = (.ok MSG_FRAG_LAST, s2) ∧
      DeliveredOnce s.nodes s2.nodes b (val x) ty.toNat msg ∧
      ∀ i, i < s.nodes.length → (s2.radioAt i).rxFifo = [] :=
  two_nodes_frag hc cfg hcfg L s a b x y Pa Pb ty msg hx hy hadj hxy hcur hact hclosed ha hb hab hsize hrid hWa hWb
    hNa haddr_a hcfg_a hfrag_a hmax hlen hlen144 hNb hPb hdup haddr_b harr_b hkind_b hfrag_b hquiet hothers
    hfaults hty hroom hnew

/-- non-vacuity: every hypothesis of `C05_two_nodes_frag` other than the driver contracts is satisfied by the
    concrete network of `NrfProofs/C05Example.lean` (master `0o0` and child `0o1` as their constructors
    leave them), the master writing 60 bytes (three fragments) with type 5 to the child -/
example (hc : L3Contracts) : ∃ s1 s2,
    nexec (apiNetWrite (val [1]) 5 (List.range 60) AUTO_ROUTING) Example.two =
      (.ok (true, callerFrame [] [1] 4 5 (List.range 60)), s1) ∧
    nexec apiUpdate ((s1.ret).callAs 1) = (.ok 150, s2) ∧
    DeliveredOnce Example.two.nodes s2.nodes 1 0 5 (List.range 60) ∧
    ∀ i, i < 2 → (s2.radioAt i).rxFifo = [] :=
  C05_two_nodes_frag hc {} (by decide) Example.L Example.two 0 1 [] [1] Example.P0 Example.P1 5 (List.range 60)
    (by decide) (by decide) (by decide) (by decide) rfl rfl rfl (by decide) (by decide) (by decide) (by decide)
    (by
      intro i j hi hj hij
      have hi' : i < 2 := hi
      have hj' : j < 2 := hj
      have : (i = 0 ∧ j = 1) ∨ (i = 1 ∧ j = 0) := by omega
      rcases this with ⟨rfl, rfl⟩ | ⟨rfl, rfl⟩ <;> decide)
    (by decide) (by decide) Example.two_radio0 (by decide) (by decide) (by decide) (by decide) (by decide)
    (by decide)
    Example.two_radio1 Example.two_pipes1 (NotDupFrame.of_none (by decide)) (by decide) (by decide) (by decide)
    (by decide)
    (by
      intro i hi
      have hi' : i < 2 := hi
      have : i = 0 ∨ i = 1 := by omega
      rcases this with rfl | rfl <;> decide)
    (fun r _ _ _ h0 h1 _ => Example.two_others r _ h0 h1) (by decide) (by decide) (by decide) (by decide)

/-- **`C05_two_nodes_frag` unconditionally**: a fragmented user message (25..144 bytes) between two
    neighbours is delivered exactly once, intact (closed system, loss-free) — the driver contracts are
    discharged by `l3contracts` -/
theorem C05_two_nodes_frag_closed_partial (cfg : AddrCfg) (hcfg : CfgOk cfg) (L : LinkCfg)
    (s : NetState) (a b : Nat) (x y : List Nat) (Pa Pb : List Bytes) (ty : Int) (msg : Bytes)
    (hx : IsNode x) (hy : IsNode y) (hadj : nextHopSpec x y = y) (hxy : x ≠ y)
    (hcur : s.cur = a) (hact : s.active = [a]) (hclosed : s.closed = true)
    (ha : a < s.nodes.length) (hb : b < s.nodes.length) (hab : a ≠ b) (hsize : s.nodes.length ≤ 90000)
    (hrid : ∀ i j, i < s.nodes.length → j < s.nodes.length → i ≠ j → s.ridAt i ≠ s.ridAt j)
    (hWa : s.ridAt a < s.w.radios.length) (hWb : s.ridAt b < s.w.radios.length)
    (hNa : NodeRadio L Pa true true 0x3E (s.nodeAt a).rf (s.radioAt a))
    (haddr_a : (s.nodeAt a).a = nodeSpec x) (hcfg_a : (s.nodeAt a).cfg = cfg)
    (hfrag_a : (s.nodeAt a).fragEnabled = true)
    (hmax : msg.length ≤ (s.nodeAt a).maxMessageLength) (hlen : MAX_FRAG_SIZE < msg.length)
    (hlen144 : msg.length ≤ 144)
    (hNb : NodeRadio L Pb true true 0x3E (s.nodeAt b).rf (s.radioAt b))
    (hPb : beginPipes cfg (val y) = .ok Pb)
    (hdup : NotDupFrame (s.radioAt b) ⟨⟨val x, val y, s.nextId &&& 0xFFFF, .int MSG_FRAG_FIRST,
      fragTotal msg.length⟩, msg.take MAX_FRAG_SIZE⟩)
    (haddr_b : (s.nodeAt b).a = nodeSpec y) (harr_b : (s.nodeAt b).arrivals = [])
    (hkind_b : (s.nodeAt b).kind ≠ .meshMaster) (hfrag_b : (s.nodeAt b).queue.frag = true)
    (hquiet : ∀ i, i < s.nodes.length → (s.radioAt i).rxFifo = [])
    (hothers : ∀ r A buf pid, r ≠ s.ridAt a → r ≠ s.ridAt b → Pb[hopPipe x y]? = some A →
      (s.w.radio r).listensTo (unicastPacket L A buf pid) = none)
    (hfaults : s.w.faults = []) (hty : 0 ≤ ty ∧ ty ≤ 127)
    (hroom : ((s.nodeAt b).queue.frames.length : Int) < (s.nodeAt b).queue.maxSize)
    (hnew : ∀ g ∈ (s.nodeAt b).queue.frames, ¬ (g.header.fromNode = val x ∧
      g.header.frameId = s.nextId &&& 0xFFFF ∧ g.header.ty = ty.toNat)) :
    ∃ s1 s2, nexec (apiNetWrite (val y) ty msg AUTO_ROUTING) s =
        (.ok (true, callerFrame x y s.nextId ty msg), s1) ∧
      nexec apiUpdate ((s1.ret).callAs b) = (.ok MSG_FRAG_LAST, s2) ∧
      DeliveredOnce s.nodes s2.nodes b (val x) ty.toNat msg ∧
      ∀ i, i < s.nodes.length → (s2.radioAt i).rxFifo = [] :=
  C05_two_nodes_frag l3contracts cfg hcfg L s a b x y Pa Pb ty msg hx hy hadj hxy hcur hact hclosed ha hb hab hsize
    hrid hWa hWb hNa haddr_a hcfg_a hfrag_a hmax hlen hlen144 hNb hPb hdup haddr_b harr_b hkind_b hfrag_b hquiet
    hothers hfaults hty hroom hnew

/-- non-vacuity (the concrete network of `NrfProofs/C05Example.lean`; 60 bytes = three fragments), without
    any open hypothesis; running the model / the real classes on
    `net 2 1 new n0 network 0 0 ; new n1 network 1 1 ; n0 write 1 5 <60 bytes> 56 ; n1 update` gives the same -/
example : ∃ s1 s2,
    nexec (apiNetWrite (val [1]) 5 (List.range 60) AUTO_ROUTING) Example.two =
      (.ok (true, callerFrame [] [1] 4 5 (List.range 60)), s1) ∧
    nexec apiUpdate ((s1.ret).callAs 1) = (.ok 150, s2) ∧
    DeliveredOnce Example.two.nodes s2.nodes 1 0 5 (List.range 60) ∧
    ∀ i, i < 2 → (s2.radioAt i).rxFifo = [] :=
  C05_two_nodes_frag_closed_partial {} (by decide) Example.L Example.two 0 1 [] [1] Example.P0 Example.P1 5 (List.range 60)
    (by decide) (by decide) (by decide) (by decide) rfl rfl rfl (by decide) (by decide) (by decide) (by decide)
    (by
      intro i j hi hj hij
      have hi' : i < 2 := hi
      have hj' : j < 2 := hj
      have : (i = 0 ∧ j = 1) ∨ (i = 1 ∧ j = 0) := by omega
      rcases this with ⟨rfl, rfl⟩ | ⟨rfl, rfl⟩ <;> decide)
    (by decide) (by decide) Example.two_radio0 (by decide) (by decide) (by decide) (by decide) (by decide)
    (by decide)
    Example.two_radio1 Example.two_pipes1 (NotDupFrame.of_none (by decide)) (by decide) (by decide) (by decide)
    (by decide)
    (by
      intro i hi
      have hi' : i < 2 := hi
      have : i = 0 ∨ i = 1 := by omega
      rcases this with rfl | rfl <;> decide)
    (fun r _ _ _ h0 h1 _ => Example.two_others r _ h0 h1) (by decide) (by decide) (by decide) (by decide)

/-! ### fragmented messages over more than one hop — what is missing

The statement that remains open (DESIGN §7 `C05_frag`), in the form of `C05_route_closed_partial`:

    theorem C05_route_frag_closed … (hok : NetOk cfg L tree s) … (hty : 0 ≤ ty ∧ ty ≤ 64)
        (hlen : MAX_FRAG_SIZE < msg.length) (hlen144 : msg.length ≤ 144) … :
        ∃ s1 j1 jd, … nexec (apiNetWrite (val d) ty msg AUTO_ROUTING) s = (.ok (true, …), s1) ∧
          ∃ r s2, nexec apiUpdate ((s1.ret).callAs j1) = (.ok r, s2) ∧
            DeliveredOnce s.nodes s2.nodes jd (val (tree a)) ty.toNat msg

It is **not** a corollary of `C05_two_nodes_frag` + `route_all` (NrfProofs/C05Route.lean), for a reason found
while attempting it (model and real classes agree, session
`net 3 1 new n0 network 0 0 ; new n1 network 1 1 ; new n2 network 2 9 ; n2 write 0 5 <60 bytes> 56 ; n1 update ; n0 update`):
the three fragment types 148..150 lie in 65..191, so `is_ack_type()` holds for every fragment *whatever the
message's own type*; the last router of the route therefore answers **every fragment** with a NETWORK_ACK
frame to the origin (`_write`, branch `.emit` of `ackCont`).  While the origin is still inside its fragment
loop its radio is in the transmit role and deaf, so for all fragments but the last that NETWORK_ACK is sent
and re-sent in vain: `send()` returns `False` after ARC+1 attempts, then `_tx_standby(tx_timeout)` re-sends
until 25 ms of the router's clock have passed, the payload stays in the router's TX FIFO with MAX_RT latched
and is flushed by the router's next `send()`.  The message is still delivered exactly once and `write()`
returns `True` (the session above; the correspondence runs of harness/props/c05.py cover it), but a proof
needs what the link layer of this development does not have yet:

 1. driver contracts for the **failing** transmit cycle (no radio listens to the address): `send` / `resend`
    return `False`, leave `txFifo = [payload]`, `flags = MAX_RT`, CE high, and advance the virtual clock by
    at least one SPI transaction (`L3Contracts` and `DrvFrame` say nothing about the clock; `NodeRadio`
    demands `txFifo = []`);
 2. the time-bounded loop `txStandby` under those contracts (termination by the clock, not by success);
 3. versions of the `listenOn` / `setAA` / `listenOff` / `openTx` / `read` / `send` contracts for a node radio
    with that stale TX FIFO entry (`send` then takes its `flush_tx` branch);
 4. the induction itself: per fragment a cascade down the route as in `route_step`, plus the NETWORK_ACK
    travelling back over the routers that are on the call stack at that moment, with every router's
    reception history (`lastRx`) in the invariant — for which `Nrf.L3.l3_send_pid` (the PID sequence of
    `send`, NrfProofs/L3Send.lean) and `rxFrag_succ_ne` (consecutive fragments differ) are the ingredients.
-/

/-! ## neighbours in a full network

The two-node theorems above speak of two node objects and ask, of the rest of the world, only that no third
radio listens on the address of the pipe the packet goes to (`hothers`).  In a tree network in which every
node listens on its own six tree addresses (`NetOk`: any number of running nodes) that is a theorem
(`NetOk.hothers`, NrfProofs/C05Net.lean: tree addresses identify (node, pipe), `C04_unique`), and all the other
per-node hypotheses are part of `NetOk`.  Hence: -/

/-- **Neighbours in a full network, single frame, every user type 0..127** — closed `runOthers` system,
    loss-free, driver contracts proved.  In a `NetOk` tree network of any number of running nodes, all RX
    FIFOs empty, node `a` writes a message of at most 24 bytes of a user type 0..127 for its neighbour
    (parent or child) `tree b`; the packet `b`'s radio accepted last, if any, does not carry this frame's
    bytes (`NotDupFrame`); `b`'s queue has room and no frame of the same origin, id and type.  Then
    `write()` returns `True` (for the types 65..127 too: between neighbours no NETWORK_ACK is awaited), the
    next `update()` of `b` returns the type, `b`'s queue has gained exactly that message, every other node's
    queue — the bystanders' included — is unchanged, and afterwards every RX FIFO is empty (no second copy
    is waiting anywhere).

    `_partial`: one schedule (`runOthers`; `b` polled next), loss-free, single frame; see the file header. -/
theorem C05_neighbours_closed_partial (cfg : AddrCfg) (hcfg : CfgOk cfg) (L : LinkCfg)
    (tree : Nat → List Nat) (s : NetState) (a b : Nat) (ty : Int) (msg : Bytes)
    (hok : NetOk cfg L tree s) (hcur : s.cur = a) (hact : s.active = [a])
    (ha : a < s.nodes.length) (hb : b < s.nodes.length) (hab : a ≠ b) (hsize : s.nodes.length ≤ 100000)
    (hadj : nextHopSpec (tree a) (tree b) = tree b)
    (hdup : NotDupFrame (s.radioAt b) (wireCopy (callerFrame (tree a) (tree b) s.nextId ty msg)))
    (hquiet : ∀ i, i < s.nodes.length → (s.radioAt i).rxFifo = [])
    (hty : 0 ≤ ty ∧ ty ≤ 127) (hlen : msg.length ≤ MAX_FRAG_SIZE)
    (hmax : msg.length ≤ (s.nodeAt a).maxMessageLength)
    (hroom : ((s.nodeAt b).queue.frames.length : Int) < (s.nodeAt b).queue.maxSize)
    (hnew : ∀ g ∈ (s.nodeAt b).queue.frames, ¬ (g.header.fromNode = val (tree a) ∧
      g.header.frameId = s.nextId &&& 0xFFFF ∧ g.header.ty = ty.toNat)) :
    ∃ s1 s2, nexec (apiNetWrite (val (tree b)) ty msg AUTO_ROUTING) s =
        (.ok (true, callerFrame (tree a) (tree b) s.nextId ty msg), s1) ∧
      nexec apiUpdate ((s1.ret).callAs b) = (.ok ty.toNat, s2) ∧
      DeliveredOnce s.nodes s2.nodes b (val (tree a)) ty.toNat msg ∧
      ∀ i, i < s.nodes.length → (s2.radioAt i).rxFifo = [] := by
  obtain ⟨hxa, haddr_a, hcfg_a, _, _, hWa⟩ := hok.node a ha
  obtain ⟨hyb, haddr_b, _, harr_b, hkind_b, hWb⟩ := hok.node b hb
  obtain ⟨Pa, _, hNa⟩ := hok.radio a ha
  obtain ⟨Pb, hPb, hNb⟩ := hok.radio b hb
  have hxy : tree a ≠ tree b := (hok.inj a b ha hb hab).1
  obtain ⟨hp1, hp5⟩ : 1 ≤ hopPipe (tree a) (tree b) ∧ hopPipe (tree a) (tree b) ≤ 5 := by
    have := C04_listens cfg hcfg (tree a) (tree b) hxa hyb hxy TX_NORMAL (Or.inl rfl)
    exact ⟨this.1, this.2.1⟩
  exact C05_two_nodes_closed_partial cfg hcfg L s a b (tree a) (tree b) Pa Pb ty msg hxa hyb hadj hxy hcur hact hok.closed
    ha hb hab hsize (fun i j hi hj hij => (hok.inj i j hi hj hij).2) hWa hWb hNa haddr_a hcfg_a hmax hlen hNb hPb hdup
    haddr_b harr_b hkind_b hquiet
    (fun r _ buf pid h1 h2 hA => hok.hothers hcfg hb hPb hp1 hp5 hA buf r pid h1 h2) hok.faults hty hroom hnew

/-- non-vacuity, with a listening bystander: in the chain `0o0 — 0o1 — 0o11` of `NrfProofs/C05Example3.lean`
    (three running nodes, every one listening) the grandchild `0o11` writes `[9, 8, 7]` with the acknowledged
    user type 100 to its parent `0o1`; the master `0o0` listens all the while and gets nothing -/
example : ∃ s1 s2,
    nexec (apiNetWrite (val [1]) 100 [9, 8, 7] AUTO_ROUTING) Example.three =
      (.ok (true, callerFrame [1, 1] [1] 6 100 [9, 8, 7]), s1) ∧
    nexec apiUpdate ((s1.ret).callAs 1) = (.ok 100, s2) ∧
    DeliveredOnce Example.three.nodes s2.nodes 1 (val [1, 1]) 100 [9, 8, 7] ∧
    ∀ i, i < 3 → (s2.radioAt i).rxFifo = [] :=
  C05_neighbours_closed_partial {} (by decide) Example.L Example.tree3 Example.three 2 1 100 [9, 8, 7]
    Example.three_ok rfl rfl (by decide) (by decide) (by decide) (by decide) (by decide)
    (NotDupFrame.of_none (by decide))
    (by
      intro i hi
      have hi' : i < 3 := hi
      have : i = 0 ∨ i = 1 ∨ i = 2 := by omega
      rcases this with rfl | rfl | rfl <;> decide)
    (by decide) (by decide) (by decide) (by decide) (by intro g hg; cases hg)

/-- non-vacuity of the non-duplicate condition for a radio WITH a reception history: the parent's radio,
    having accepted the previous message of the same origin (id 5) as its last packet, satisfies `NotDupFrame`
    for the next one (id 6) — the two packed frames differ in the id byte -/
example : NotDupFrame { (Example.three.radioAt 1) with
      lastRx := some { pid := 1, addr := [], data := [9, 0, 1, 0, 5, 0, 100, 0, 9, 8, 7] } }
    (wireCopy (callerFrame [1, 1] [1] 6 100 [9, 8, 7])) := by
  intro l hl
  have : l = { pid := 1, addr := [], data := [9, 0, 1, 0, 5, 0, 100, 0, 9, 8, 7] } := (Option.some.inj hl).symm
  subst this
  have h : (wireCopy (callerFrame [1, 1] [1] 6 100 [9, 8, 7])).pack = .ok [9, 0, 1, 0, 6, 0, 100, 0, 9, 8, 7] := rfl
  rw [h]
  intro e
  have := Except.ok.inj e
  revert this
  decide

/-- **Neighbours in a full network, fragmented message (25..144 bytes), user types 0..127** — the same
    for `C05_two_nodes_frag_closed_partial`: `NetOk` network of any number of running nodes, fragmentation enabled at
    both ends, the packet `b`'s radio accepted last not carrying the bytes of this message's FIRST fragment.
    `write()` returns `True`, the next `update()` of `b` returns 150 (the last fragment's type), `b`'s queue
    has gained exactly the reassembled message, no other queue changed, and afterwards every RX FIFO of
    the network is empty (quiescence is exported as the last conjunct). -/
theorem C05_neighbours_frag_closed_partial (cfg : AddrCfg) (hcfg : CfgOk cfg) (L : LinkCfg)
    (tree : Nat → List Nat) (s : NetState) (a b : Nat) (ty : Int) (msg : Bytes)
    (hok : NetOk cfg L tree s) (hcur : s.cur = a) (hact : s.active = [a])
    (ha : a < s.nodes.length) (hb : b < s.nodes.length) (hab : a ≠ b) (hsize : s.nodes.length ≤ 90000)
    (hadj : nextHopSpec (tree a) (tree b) = tree b)
    (hfrag_a : (s.nodeAt a).fragEnabled = true) (hfrag_b : (s.nodeAt b).queue.frag = true)
    (hdup : NotDupFrame (s.radioAt b) ⟨⟨val (tree a), val (tree b), s.nextId &&& 0xFFFF, .int MSG_FRAG_FIRST,
      fragTotal msg.length⟩, msg.take MAX_FRAG_SIZE⟩)
    (hquiet : ∀ i, i < s.nodes.length → (s.radioAt i).rxFifo = [])
    (hty : 0 ≤ ty ∧ ty ≤ 127) (hlen : MAX_FRAG_SIZE < msg.length) (hlen144 : msg.length ≤ 144)
    (hmax : msg.length ≤ (s.nodeAt a).maxMessageLength)
    (hroom : ((s.nodeAt b).queue.frames.length : Int) < (s.nodeAt b).queue.maxSize)
    (hnew : ∀ g ∈ (s.nodeAt b).queue.frames, ¬ (g.header.fromNode = val (tree a) ∧
      g.header.frameId = s.nextId &&& 0xFFFF ∧ g.header.ty = ty.toNat)) :
    ∃ s1 s2, nexec (apiNetWrite (val (tree b)) ty msg AUTO_ROUTING) s =
        (.ok (true, callerFrame (tree a) (tree b) s.nextId ty msg), s1) ∧
      nexec apiUpdate ((s1.ret).callAs b) = (.ok MSG_FRAG_LAST, s2) ∧
      DeliveredOnce s.nodes s2.nodes b (val (tree a)) ty.toNat msg ∧
      ∀ i, i < s.nodes.length → (s2.radioAt i).rxFifo = [] := by
  obtain ⟨hxa, haddr_a, hcfg_a, _, _, hWa⟩ := hok.node a ha
  obtain ⟨hyb, haddr_b, _, harr_b, hkind_b, hWb⟩ := hok.node b hb
  obtain ⟨Pa, _, hNa⟩ := hok.radio a ha
  obtain ⟨Pb, hPb, hNb⟩ := hok.radio b hb
  have hxy : tree a ≠ tree b := (hok.inj a b ha hb hab).1
  obtain ⟨hp1, hp5⟩ : 1 ≤ hopPipe (tree a) (tree b) ∧ hopPipe (tree a) (tree b) ≤ 5 := by
    have := C04_listens cfg hcfg (tree a) (tree b) hxa hyb hxy TX_NORMAL (Or.inl rfl)
    exact ⟨this.1, this.2.1⟩
  exact C05_two_nodes_frag_closed_partial cfg hcfg L s a b (tree a) (tree b) Pa Pb ty msg hxa hyb hadj hxy hcur hact
    hok.closed ha hb hab hsize (fun i j hi hj hij => (hok.inj i j hi hj hij).2) hWa hWb hNa haddr_a hcfg_a hfrag_a
    hmax hlen hlen144 hNb hPb hdup haddr_b harr_b hkind_b hfrag_b hquiet
    (fun r _ buf pid h1 h2 hA => hok.hothers hcfg hb hPb hp1 hp5 hA buf r pid h1 h2) hok.faults hty hroom hnew

/-- non-vacuity, with a listening bystander: the chain `0o0 — 0o1 — 0o11`, the grandchild writing 60 bytes
    with type 100 to its parent while the master listens -/
example : ∃ s1 s2,
    nexec (apiNetWrite (val [1]) 100 (List.range 60) AUTO_ROUTING) Example.three =
      (.ok (true, callerFrame [1, 1] [1] 6 100 (List.range 60)), s1) ∧
    nexec apiUpdate ((s1.ret).callAs 1) = (.ok 150, s2) ∧
    DeliveredOnce Example.three.nodes s2.nodes 1 (val [1, 1]) 100 (List.range 60) ∧
    ∀ i, i < 3 → (s2.radioAt i).rxFifo = [] :=
  C05_neighbours_frag_closed_partial {} (by decide) Example.L Example.tree3 Example.three 2 1 100 (List.range 60)
    Example.three_ok rfl rfl (by decide) (by decide) (by decide) (by decide) (by decide)
    (by decide) (by decide)
    (NotDupFrame.of_none (by decide))
    (by
      intro i hi
      have hi' : i < 3 := hi
      have : i = 0 ∨ i = 1 ∨ i = 2 := by omega
      rcases this with rfl | rfl | rfl <;> decide)
    (by decide) (by decide) (by decide) (by decide) (by decide) (by intro g hg; cases hg)

/-! ## routes, acknowledged types (65..191)

Point (2) left open at `C05_route_partial`: a single-frame message of a type that asks for a NETWORK_ACK,
over a tree route with at least one router.  Delivery then happens *inside* `write()`: the whole route
runs, nested, in the first `read()` of the origin's wait loop, and the NETWORK_ACK comes back the same way
(NrfProofs/C13Hops*.lean; the liveness statement proper is `C13_live_route_closed_partial` in NrfProps/C13.lean). -/

/-- **A single-frame message of a type with NETWORK_ACK (the user types 65..127; also the system types
    129, 132..147, 151..191 when the destination has `ret_sys_msg = False`) over any tree route of two or more
    hops** — closed system with the schedule of `runOthers`, loss-free, driver contracts discharged
    (`l3contracts`).  `NetOk` network, nobody has address `0o4444`, all RX FIFOs empty, every node of the
    tree route from the caller `a` to `d` present; the packet accepted last by the radio of each router and of
    the destination (if any — they need not be fresh) does not carry this frame's bytes, and the one accepted
    last by the origin's radio does not carry the bytes of this frame's NETWORK_ACK (`NotDupFrame`; `ackOf`
    = the frame with type 193 and `to := from`); the destination's queue accepting the frame.  Then `write()` returns `True` and, when it returns, **the destination's
    queue has gained exactly that message (origin, type, bytes) and every other node's queue is
    unchanged** (`DeliveredOnce`) — no further `update()` call is needed — and every RX FIFO is empty (the
    acknowledgement was consumed, no second copy waits anywhere), for routes of any length
    (C04: at most 8 hops).  One-hop routes of the user types 65..127 in a full network are
    `C05_neighbours_closed_partial` (no NETWORK_ACK between neighbours); one-hop routes of the system types
    128..191: no theorem.

    `_partial` with respect to the full C05 statement for the same reasons as `C05_route_partial`:
    schedules other than `runOthers`, fragmented messages; the six system types 128, 130, 131, 148..150 and
    destinations with `ret_sys_msg = True` are excluded. -/
theorem C05_route_ack_closed_partial (cfg : AddrCfg) (hcfg : CfgOk cfg) (L : LinkCfg)
    (tree : Nat → List Nat) (s : NetState) (a : Nat) (d : List Nat) (ty : Int) (msg : Bytes)
    (hok : NetOk cfg L tree s) (hcur : s.cur = a) (hact : s.active = [a]) (ha : a < s.nodes.length)
    (hsize : s.nodes.length ≤ 20000) (hndef : ∀ i, val (tree i) ≠ NETWORK_DEFAULT_ADDR)
    (h2 : 2 ≤ dist (tree a) d)
    (hroute : ∀ k, 1 ≤ k → k ≤ dist (tree a) d →
      ∃ j, j < s.nodes.length ∧ tree j = hops k (tree a) d ∧
        NotDupFrame (s.radioAt j) (wireCopy (callerFrame (tree a) d s.nextId ty msg)))
    (horig : NotDupFrame (s.radioAt a) (ackOf (wireCopy (callerFrame (tree a) d s.nextId ty msg))))
    (hquiet : ∀ i, i < s.nodes.length → (s.radioAt i).rxFifo = [])
    (hty : 65 ≤ ty ∧ ty ≤ 191)
    (hsys : ty ≤ 127 ∨ ((∀ j, j < s.nodes.length → tree j = d → (s.nodeAt j).retSysMsg = false) ∧
      ty ≠ 128 ∧ ty ≠ 130 ∧ ty ≠ 131 ∧ ty ≠ 148 ∧ ty ≠ 149 ∧ ty ≠ 150))
    (hlen : msg.length ≤ MAX_FRAG_SIZE)
    (hmax : msg.length ≤ (s.nodeAt a).maxMessageLength)
    (hacc : ∀ j, j < s.nodes.length → tree j = d →
      Accepts (s.nodeAt j).queue (wireCopy (callerFrame (tree a) d s.nextId ty msg))) :
    ∃ s1 jd, jd < s.nodes.length ∧ tree jd = d ∧
      nexec (apiNetWrite (val d) ty msg AUTO_ROUTING) s =
        (.ok (true, callerFrame (tree a) d s.nextId ty msg), s1) ∧
      DeliveredOnce s.nodes s1.nodes jd (val (tree a)) ty.toNat msg ∧
      ∀ i, i < s.nodes.length → (s1.radioAt i).rxFifo = [] := by
  have hsys' : ∀ j, j < s.nodes.length → tree j = d → Hops.SysOk ty.toNat (s.nodeAt j).retSysMsg := by
    intro j hj htj
    unfold Hops.SysOk MAX_USR_DEF_MSG_TYPE
    rcases hsys with h | ⟨h1, h3⟩
    · refine ⟨Or.inl (by omega), ?_⟩
      omega
    · refine ⟨Or.inr (h1 j hj htj), ?_⟩
      omega
  exact Hops.live_route l3contracts cfg hcfg L tree s a d ty msg hok hcur hact ha hsize hndef h2 hroute horig hquiet hty hsys'
    hlen hmax hacc

/-- non-vacuity: the chain `0o0 — 0o1 — 0o11 — 0o111` of `NrfProofs/C13HopsExample.lean`, the great-grandchild
    writing `[9, 8, 7]` with type 100 to the master over three hops -/
example : ∃ s1 jd, jd < 4 ∧ Example.Hops.tree4 jd = [] ∧
    nexec (apiNetWrite (val []) 100 [9, 8, 7] AUTO_ROUTING) Example.Hops.four =
      (.ok (true, callerFrame [1, 1, 1] [] 8 100 [9, 8, 7]), s1) ∧
    DeliveredOnce Example.Hops.four.nodes s1.nodes jd (val [1, 1, 1]) 100 [9, 8, 7] ∧
    ∀ i, i < 4 → (s1.radioAt i).rxFifo = [] :=
  C05_route_ack_closed_partial {} (by decide) Example.L Example.Hops.tree4 Example.Hops.four 3 [] 100 [9, 8, 7]
    Example.Hops.four_ok rfl rfl (by decide) (by decide) Example.Hops.four_ndef (by decide)
    (by
      intro k hk1 hk
      have hd : dist (Example.Hops.tree4 3) [] = 3 := by decide
      rw [hd] at hk
      have : k = 1 ∨ k = 2 ∨ k = 3 := by omega
      rcases this with rfl | rfl | rfl
      · exact ⟨2, by decide, by decide, NotDupFrame.of_none (by decide)⟩
      · exact ⟨1, by decide, by decide, NotDupFrame.of_none (by decide)⟩
      · exact ⟨0, by decide, by decide, NotDupFrame.of_none (by decide)⟩)
    (NotDupFrame.of_none (by decide))
    (by
      intro i hi
      rcases Example.Hops.four_lt i hi with rfl | rfl | rfl | rfl <;> decide)
    (by decide) (Or.inl (by decide)) (by decide) (by decide)
    (by
      intro j hj htj
      rcases Example.Hops.four_lt j hj with rfl | rfl | rfl | rfl
      · exact ⟨by decide, by intro g hg; cases hg⟩
      · exact absurd htj (by decide)
      · exact absurd htj (by decide)
      · exact absurd htj (by decide))

/-! ## additions of round 2: bystanders, boundary lengths, fragment trains over routes (instances)

### helper facts about the concrete chains used by the non-vacuity examples below
(`Example.three`: `0o0 — 0o1 — 0o11`, the grandchild about to write; `Example.Hops.four`:
`0o0 — 0o1 — 0o11 — 0o111`, the great-grandchild about to write; all radios fresh, all queues empty) -/

private theorem three_lt (i : Nat) (hi : i < Example.three.nodes.length) : i = 0 ∨ i = 1 ∨ i = 2 := by
  have : i < 3 := hi
  omega

private theorem three_ndef (i : Nat) : val (Example.tree3 i) ≠ NETWORK_DEFAULT_ADDR := by
  match i with
  | 0 => decide
  | 1 => decide
  | 2 => decide
  | n + 3 =>
    show val [5, 5, 5, 5 - n % 4] ≠ 0o4444
    simp only [val]
    omega

private theorem three_route (fr : Frame) : ∀ k, 1 ≤ k → k ≤ dist (Example.tree3 2) [] →
    ∃ j, j < Example.three.nodes.length ∧ Example.tree3 j = hops k (Example.tree3 2) [] ∧
      NotDupFrame (Example.three.radioAt j) fr := by
  intro k hk1 hk2
  have hd : dist (Example.tree3 2) [] = 2 := by decide
  rw [hd] at hk2
  have : k = 1 ∨ k = 2 := by omega
  rcases this with rfl | rfl
  · exact ⟨1, by decide, by decide, NotDupFrame.of_none (by decide)⟩
  · exact ⟨0, by decide, by decide, NotDupFrame.of_none (by decide)⟩

private theorem three_quiet : ∀ i, i < Example.three.nodes.length → (Example.three.radioAt i).rxFifo = [] := by
  intro i hi
  rcases three_lt i hi with rfl | rfl | rfl <;> decide

private theorem three_acc (fr : Frame) : ∀ j, j < Example.three.nodes.length → Example.tree3 j = [] →
    Accepts (Example.three.nodeAt j).queue fr := by
  intro j hj htj
  rcases three_lt j hj with rfl | rfl | rfl
  · exact ⟨by decide, by intro g hg; cases hg⟩
  · exact absurd htj (by decide)
  · exact absurd htj (by decide)

private theorem four_route (fr : Frame) : ∀ k, 1 ≤ k → k ≤ dist (Example.Hops.tree4 3) [] →
    ∃ j, j < Example.Hops.four.nodes.length ∧ Example.Hops.tree4 j = hops k (Example.Hops.tree4 3) [] ∧
      NotDupFrame (Example.Hops.four.radioAt j) fr := by
  intro k hk1 hk
  have hd : dist (Example.Hops.tree4 3) [] = 3 := by decide
  rw [hd] at hk
  have : k = 1 ∨ k = 2 ∨ k = 3 := by omega
  rcases this with rfl | rfl | rfl
  · exact ⟨2, by decide, by decide, NotDupFrame.of_none (by decide)⟩
  · exact ⟨1, by decide, by decide, NotDupFrame.of_none (by decide)⟩
  · exact ⟨0, by decide, by decide, NotDupFrame.of_none (by decide)⟩

private theorem four_quiet : ∀ i, i < Example.Hops.four.nodes.length → (Example.Hops.four.radioAt i).rxFifo = [] := by
  intro i hi
  rcases Example.Hops.four_lt i hi with rfl | rfl | rfl | rfl <;> decide

private theorem four_acc (fr : Frame) : ∀ j, j < Example.Hops.four.nodes.length → Example.Hops.tree4 j = [] →
    Accepts (Example.Hops.four.nodeAt j).queue fr := by
  intro j hj htj
  rcases Example.Hops.four_lt j hj with rfl | rfl | rfl | rfl
  · exact ⟨by decide, by intro g hg; cases hg⟩
  · exact absurd htj (by decide)
  · exact absurd htj (by decide)
  · exact absurd htj (by decide)

/-! ### "and to no other node's queue" / "routing nodes forward such frames without handing them to their own application"

`DeliveredOnce` (third conjunct) already says that every node object other than the destination's has the same
application queue (`queue.frames`, what `available()` / `read()` see) before and after.  The two corollaries
below state that clause on its own, with the quantifier over ALL nodes of the network written out, and once more
for the nodes ON the route (the origin, `k = 0`, and every router, `1 ≤ k < dist`), which are the ones that
handled the frame.  They are corollaries of `C05_route_closed_partial` / `C05_route_ack_closed_partial` (same
hypotheses, same ONE schedule, loss-free, single frame), nothing more. -/

/-- **No other queue, types 0..64, any tree route** (corollary of `C05_route_closed_partial`, same hypotheses:
    closed `runOthers` system — ONE schedule —, loss-free, `NetOk` network, single frame of at most 24 bytes,
    route nodes present with the non-duplicate condition, all RX FIFOs empty, destination's queue accepting).
    After `write()` (which returns `True`) and the first hop's `update()`:
    * the network has the same node objects as before;
    * **every node `i` of the network whose address is not the destination's — bystanders off the route,
      the origin, and every router — has exactly the application queue it had before**;
    * in particular (spelled out for the route): for every `k < dist`, the node at position `k` of the tree
      route (`k = 0`: the origin; `1 ≤ k`: the routers, which did receive and forward the frame) exists in the
      network and its application queue is unchanged.
    Not covered: as `C05_route_closed_partial` (other schedules, loss, fragments, types above 64). -/
theorem C05_route_others_closed_partial (cfg : AddrCfg) (hcfg : CfgOk cfg) (L : LinkCfg)
    (tree : Nat → List Nat) (s : NetState) (a : Nat) (d : List Nat) (ty : Int) (msg : Bytes)
    (hok : NetOk cfg L tree s) (hcur : s.cur = a) (hact : s.active = [a]) (ha : a < s.nodes.length)
    (hsize : s.nodes.length ≤ 20000) (hndef : ∀ i, val (tree i) ≠ NETWORK_DEFAULT_ADDR)
    (hd : IsNode d) (hxd : tree a ≠ d)
    (hroute : ∀ k, 1 ≤ k → k ≤ dist (tree a) d →
      ∃ j, j < s.nodes.length ∧ tree j = hops k (tree a) d ∧
        NotDupFrame (s.radioAt j) (wireCopy (callerFrame (tree a) d s.nextId ty msg)))
    (hquiet : ∀ i, i < s.nodes.length → (s.radioAt i).rxFifo = [])
    (hty : 0 ≤ ty ∧ ty ≤ 64) (hlen : msg.length ≤ MAX_FRAG_SIZE)
    (hmax : msg.length ≤ (s.nodeAt a).maxMessageLength)
    (hacc : ∀ j, j < s.nodes.length → tree j = d →
      Accepts (s.nodeAt j).queue (wireCopy (callerFrame (tree a) d s.nextId ty msg))) :
    ∃ s1 j1, j1 < s.nodes.length ∧ tree j1 = nextHopSpec (tree a) d ∧
      nexec (apiNetWrite (val d) ty msg AUTO_ROUTING) s =
        (.ok (true, callerFrame (tree a) d s.nextId ty msg), s1) ∧
      ∃ r s2, nexec apiUpdate ((s1.ret).callAs j1) = (.ok r, s2) ∧
        s2.nodes.length = s.nodes.length ∧
        (∀ i, i < s.nodes.length → tree i ≠ d →
          (s2.nodeAt i).queue.frames = (s.nodeAt i).queue.frames) ∧
        (∀ k, k < dist (tree a) d → ∃ j, j < s.nodes.length ∧ tree j = hops k (tree a) d ∧
          (s2.nodeAt j).queue.frames = (s.nodeAt j).queue.frames) := by
  obtain ⟨s1, j1, jd, hj1, htj1, hjd, htjd, hw, r, s2, hu, ⟨hl, _, hrest⟩, _⟩ :=
    C05_route_closed_partial cfg hcfg L tree s a d ty msg hok hcur hact ha hsize hndef hd hxd hroute hquiet
      hty hlen hmax hacc
  have hall : ∀ i, i < s.nodes.length → tree i ≠ d →
      (s2.nodeAt i).queue.frames = (s.nodeAt i).queue.frames := by
    intro i _ hi
    exact hrest i (fun e => hi (by rw [e]; exact htjd))
  refine ⟨s1, j1, hj1, htj1, hw, r, s2, hu, hl, hall, ?_⟩
  intro k hk
  rcases Nat.eq_zero_or_pos k with rfl | hk0
  · exact ⟨a, ha, rfl, hall a ha hxd⟩
  · obtain ⟨j, hj, htj, _⟩ := hroute k hk0 (by omega)
    exact ⟨j, hj, htj, hall j hj (by rw [htj]; exact hops_ne_before hk)⟩

/-- non-vacuity: every hypothesis holds on the chain `0o0 — 0o1 — 0o11` (`Example.three`), the grandchild
    writing `[9, 8, 7]`, type 7, to the master: the router `0o1` (`k = 1`) and the origin (`k = 0`) keep
    their (empty) queues -/
example : ∃ s1 j1, j1 < 3 ∧ Example.tree3 j1 = [1] ∧
    nexec (apiNetWrite (val []) 7 [9, 8, 7] AUTO_ROUTING) Example.three =
      (.ok (true, callerFrame [1, 1] [] 6 7 [9, 8, 7]), s1) ∧
    ∃ r s2, nexec apiUpdate ((s1.ret).callAs j1) = (.ok r, s2) ∧ s2.nodes.length = 3 ∧
      (∀ i, i < 3 → Example.tree3 i ≠ [] →
        (s2.nodeAt i).queue.frames = (Example.three.nodeAt i).queue.frames) ∧
      (∀ k, k < 2 → ∃ j, j < 3 ∧ Example.tree3 j = hops k [1, 1] [] ∧
        (s2.nodeAt j).queue.frames = (Example.three.nodeAt j).queue.frames) :=
  C05_route_others_closed_partial {} (by decide) Example.L Example.tree3 Example.three 2 [] 7 [9, 8, 7]
    Example.three_ok rfl rfl (by decide) (by decide) three_ndef (by decide) (by decide) (three_route _) three_quiet
    (by decide) (by decide) (by decide) (three_acc _)

/-- **No other queue, acknowledged types 65..191, any tree route of two or more hops** (corollary of
    `C05_route_ack_closed_partial`, same hypotheses).  When `write()` returns (`True`; the whole route and the
    NETWORK_ACK's way back ran inside it): same node objects; **every node of the network whose address is not
    the destination's — bystanders, the origin (which received and consumed the NETWORK_ACK frame: it is
    not handed to its application), every router (which forwarded the message AND relayed or originated the
    NETWORK_ACK) — has exactly the application queue it had before**; spelled out for the positions
    `k < dist` of the route.  Not covered: as `C05_route_ack_closed_partial`. -/
theorem C05_route_ack_others_closed_partial (cfg : AddrCfg) (hcfg : CfgOk cfg) (L : LinkCfg)
    (tree : Nat → List Nat) (s : NetState) (a : Nat) (d : List Nat) (ty : Int) (msg : Bytes)
    (hok : NetOk cfg L tree s) (hcur : s.cur = a) (hact : s.active = [a]) (ha : a < s.nodes.length)
    (hsize : s.nodes.length ≤ 20000) (hndef : ∀ i, val (tree i) ≠ NETWORK_DEFAULT_ADDR)
    (h2 : 2 ≤ dist (tree a) d)
    (hroute : ∀ k, 1 ≤ k → k ≤ dist (tree a) d →
      ∃ j, j < s.nodes.length ∧ tree j = hops k (tree a) d ∧
        NotDupFrame (s.radioAt j) (wireCopy (callerFrame (tree a) d s.nextId ty msg)))
    (horig : NotDupFrame (s.radioAt a) (ackOf (wireCopy (callerFrame (tree a) d s.nextId ty msg))))
    (hquiet : ∀ i, i < s.nodes.length → (s.radioAt i).rxFifo = [])
    (hty : 65 ≤ ty ∧ ty ≤ 191)
    (hsys : ty ≤ 127 ∨ ((∀ j, j < s.nodes.length → tree j = d → (s.nodeAt j).retSysMsg = false) ∧
      ty ≠ 128 ∧ ty ≠ 130 ∧ ty ≠ 131 ∧ ty ≠ 148 ∧ ty ≠ 149 ∧ ty ≠ 150))
    (hlen : msg.length ≤ MAX_FRAG_SIZE)
    (hmax : msg.length ≤ (s.nodeAt a).maxMessageLength)
    (hacc : ∀ j, j < s.nodes.length → tree j = d →
      Accepts (s.nodeAt j).queue (wireCopy (callerFrame (tree a) d s.nextId ty msg))) :
    ∃ s1, nexec (apiNetWrite (val d) ty msg AUTO_ROUTING) s =
        (.ok (true, callerFrame (tree a) d s.nextId ty msg), s1) ∧
      s1.nodes.length = s.nodes.length ∧
      (∀ i, i < s.nodes.length → tree i ≠ d →
        (s1.nodeAt i).queue.frames = (s.nodeAt i).queue.frames) ∧
      (∀ k, k < dist (tree a) d → ∃ j, j < s.nodes.length ∧ tree j = hops k (tree a) d ∧
        (s1.nodeAt j).queue.frames = (s.nodeAt j).queue.frames) := by
  obtain ⟨s1, jd, hjd, htjd, hw, ⟨hl, _, hrest⟩, _⟩ :=
    C05_route_ack_closed_partial cfg hcfg L tree s a d ty msg hok hcur hact ha hsize hndef h2 hroute horig hquiet
      hty hsys hlen hmax hacc
  have hall : ∀ i, i < s.nodes.length → tree i ≠ d →
      (s1.nodeAt i).queue.frames = (s.nodeAt i).queue.frames := by
    intro i _ hi
    exact hrest i (fun e => hi (by rw [e]; exact htjd))
  have hxd : tree a ≠ d := by
    intro e; rw [e, dist_self] at h2; omega
  refine ⟨s1, hw, hl, hall, ?_⟩
  intro k hk
  rcases Nat.eq_zero_or_pos k with rfl | hk0
  · exact ⟨a, ha, rfl, hall a ha hxd⟩
  · obtain ⟨j, hj, htj, _⟩ := hroute k hk0 (by omega)
    exact ⟨j, hj, htj, hall j hj (by rw [htj]; exact hops_ne_before hk)⟩

/-- non-vacuity: the chain `0o0 — 0o1 — 0o11 — 0o111` (`Example.Hops.four`), the great-grandchild writing
    `[9, 8, 7]`, type 100, to the master over three hops: the two routers and the origin keep their queues -/
example : ∃ s1, nexec (apiNetWrite (val []) 100 [9, 8, 7] AUTO_ROUTING) Example.Hops.four =
      (.ok (true, callerFrame [1, 1, 1] [] 8 100 [9, 8, 7]), s1) ∧ s1.nodes.length = 4 ∧
    (∀ i, i < 4 → Example.Hops.tree4 i ≠ [] →
      (s1.nodeAt i).queue.frames = (Example.Hops.four.nodeAt i).queue.frames) ∧
    (∀ k, k < 3 → ∃ j, j < 4 ∧ Example.Hops.tree4 j = hops k [1, 1, 1] [] ∧
      (s1.nodeAt j).queue.frames = (Example.Hops.four.nodeAt j).queue.frames) :=
  C05_route_ack_others_closed_partial {} (by decide) Example.L Example.Hops.tree4 Example.Hops.four 3 [] 100 [9, 8, 7]
    Example.Hops.four_ok rfl rfl (by decide) (by decide) Example.Hops.four_ndef (by decide) (four_route _)
    (NotDupFrame.of_none (by decide)) four_quiet (by decide) (Or.inl (by decide)) (by decide) (by decide)
    (four_acc _)

/-! ### fragmented messages over MORE THAN ONE hop: what is proved (local, ∀ env) and what is only evaluated (instances)

No general closed-system theorem exists for a fragment train over a route with a router (the reasons — the
last router answers EVERY fragment with a NETWORK_ACK that fails while the origin is transmitting, which needs
driver contracts for the failing transmit cycle — are in the section "what is missing" above; they stand).
What this section adds:

* `C05_local_forward_not_queued` (∀ env, every frame type — in particular the fragment types 148..150): one
  iteration of a router's `_net_update()` that read a frame for another node hands it to `_write(…, TX_ROUTED)`
  and the router's whole queue object — application frames AND reassembly cache — is afterwards what it was,
  whatever the link, the other nodes and the NETWORK_ACK emission inside `_write` do.
* `C05_route_frag_*_instance_partial`: CONCRETE runs of the model, evaluated by the kernel (`decide +kernel`,
  NrfProofs/C05FragInst{A..F}.lean): ONE network each (the chains `Example.three`, `Example.Hops.four`, the
  branching `Example.fork`, the seven-node tree `Example.sevenAt` — there all 42 ordered pairs of nodes), ONE
  message each (the bytes `0, 1, …, n-1`), ONE schedule (`runOthers`), loss-free.
  They have no hypotheses (nothing can be vacuous) and say nothing about any other network, content or schedule;
  they show that the statement of the open theorem — written out above under "what is missing" — is TRUE on
  these runs, for two and three hops, upwards, downwards and over a common ancestor, for the boundary lengths of
  every fragment count, and that the acknowledged fragment traffic of the run is exactly the fragment plan of
  C11, each fragment once per hop. -/

/-- **A router does not queue what it forwards — any frame type, fragments included** (∀ environment).
    Node `x` of the tree (C04) other than `0o4444` (the address of a node that has none: it does not route), in
    any state, inside any network; one iteration of its `_net_update()` in which
    `read()` returned the payload of a well-formed frame `fb` from tree node `o ≠ x` to tree node `d ≠ x`
    (`allow_multicast` off or not; `d` is a tree node, never the multicast address).  Then the iteration is
    exactly: `frame_buf := fb; _write(d, TX_ROUTED)` — with outcome `r` in state `s2` — and then, if `r` is a normal
    return (`True` or `False`, ignored), the rest of the loop from `s2`; if it is an exception, that exception.
    And in `s2` **the router's queue object is the one it had before** (`NetQueue`: the application's frames, the
    reassembly cache `_frags`, its validity flag, the size bound), the same node is current.  The frame's type is
    arbitrary: user types, the fragment types 148 / 149 / 150 (no hypothesis restricts `fb.header.ty`), also the
    ack-soliciting ones for which `_write` goes on to emit or await a NETWORK_ACK.
    This is `C05_local_forward` (an unfolding lemma) combined with `C05_local_forward_queue` (the frame lemma for
    `_write`), stated for one whole iteration. -/
theorem C05_local_forward_not_queued (f rv : Nat) (x d o : List Nat) (hx : IsNode x) (hd : IsNode d)
    (ho : IsNode o) (hxd : x ≠ d) (hox : o ≠ x) (hndef : val x ≠ NETWORK_DEFAULT_ADDR)
    (s s1 : NetState) (b : Bytes) (fb : Frame)
    (hread : nexec (rfRead (f + 2)) s = (.ok (some b), s1))
    (hdec : s1.node.frameBuf.unpack b = (fb, true))
    (hto : fb.header.toNode = val d) (hfrom : fb.header.fromNode = val o)
    (ha : s1.node.a = nodeSpec x) (hact : s1.cur ∈ s1.active) (hc : s1.cur < s1.nodes.length) :
    ∃ r s2, nexec (nodeWrite (f + 1) (val d) TX_ROUTED) (s1.withFrame fb) = (r, s2) ∧
      s2.node.queue = s1.node.queue ∧ s2.cur = s1.cur ∧
      nexec (netUpdate (f + 3) rv) s =
        (match r with
         | .ok _ => nexec (netUpdate (f + 2) 0) s2
         | .error e => (.error e, s2)) := by
  have haddr : s1.node.a.addr = val x := by rw [ha]; rfl
  have hother : fb.header.toNode ≠ s1.node.a.addr := by
    rw [hto, haddr]
    exact fun e => hxd (val_inj hx.1 hd.1 e.symm)
  have hnd : s1.node.a.addr ≠ NETWORK_DEFAULT_ADDR := by rw [haddr]; exact hndef
  have hstep := C05_local_forward (f + 1) rv s s1 b fb hread hdec (by rw [hto]; exact isValid_val hd)
    (by rw [hfrom]; exact isValid_val ho) hother (Or.inr (by rw [hto]; exact val_ne_multicast hd)) hnd hc
  rw [hto] at hstep
  rcases hw : nexec (nodeWrite (f + 1) (val d) TX_ROUTED) (s1.withFrame fb) with ⟨r, s2⟩
  have hn : (s1.withFrame fb).node = { s1.node with frameBuf := fb } := node_setNode _ _ hc
  have hq := C05_local_forward_queue f x d o hx hd ho hxd hox (s1.withFrame fb) s2 r
    (by simpa using hact) (by rw [hn]; exact ha) (by rw [hn]; exact hfrom) hw
  refine ⟨r, s2, rfl, ?_, ?_, ?_⟩
  · rw [hq.1, hn]
  · rw [hq.2.2.2]; rfl
  · rw [show f + 3 = (f + 1) + 2 from rfl, hstep, hw]
    cases r <;> rfl

/-- non-vacuity of `C05_local_forward_not_queued`, every hypothesis instantiated on a REACHABLE state: the state
    `Inst.routerHolds` the model's run produces (NrfProofs/C05FragHold.lean) — in `Example.three` the grandchild's
    `write()` of 25 bytes to the master has returned, the router `0o1` enters `update()` with the LAST fragment
    (type 150) of the message in its RX FIFO; `read()` returns its 9 bytes (`routerHolds_read`, kernel
    evaluation), they unpack to the fragment frame, the router is tree node `[1]`, the frame goes from `[1, 1]` to
    `[]` -/
example : ∃ r s2, nexec (nodeWrite 101 (val []) TX_ROUTED)
      ((nexec (rfRead 102) Inst.routerHolds).2.withFrame ⟨⟨9, 0, 6, .int 150, 5⟩, [24]⟩) = (r, s2) ∧
    s2.node.queue = (nexec (rfRead 102) Inst.routerHolds).2.node.queue ∧
    s2.cur = (nexec (rfRead 102) Inst.routerHolds).2.cur ∧
    nexec (netUpdate 103 0) Inst.routerHolds =
      (match r with
       | .ok _ => nexec (netUpdate 102 0) s2
       | .error e => (.error e, s2)) :=
  C05_local_forward_not_queued 100 0 [1] [] [1, 1] (by decide) (by decide) (by decide) (by decide) (by decide)
    (by decide) Inst.routerHolds _ [9, 0, 0, 0, 6, 0, 150, 5, 24] ⟨⟨9, 0, 6, .int 150, 5⟩, [24]⟩
    Inst.routerHolds_read (by decide +kernel) (by decide) (by decide) (by decide +kernel)
    (by decide +kernel) (by decide +kernel)

/-- **INSTANCES (kernel-evaluated runs, not a general theorem): a fragmented message over TWO hops, chain
    `0o0 — 0o1 — 0o11`, boundary lengths of every fragment count.**  In `Example.three` (a `NetOk` network:
    `Example.three_ok`; all radios fresh, all queues empty) the grandchild `0o11` writes the `n` bytes
    `0, 1, …, n-1` with the user type 5 to the master `0o0`, for each
    `n ∈ {25, 48, 49, 72, 73, 96, 97, 120, 121, 144}` (2..6 fragments, shortest and longest last fragment).  Then:
    `write()` returns `True` and the caller's frame; the next `update()` of the router `0o1` (entered as the test
    session does) returns normally, and afterwards
    * the master's application queue has gained exactly one frame — origin `0o11`, type 5, the `n` bytes — and no
      other node's has changed (`DeliveredOnce`);
    * **the WHOLE queue object of every other node — the router's reassembly cache included — is what it was**:
      the router forwarded all fragments without queueing or caching any;
    * every RX FIFO is empty (the NETWORK_ACK frames the router originated per fragment were consumed or never
      accepted; no copy of a fragment waits anywhere);
    * the acknowledged fragment transmissions of the whole run (`okFragAir`: air-log records with `ok`, payload
      type byte 148..150, in order) are exactly the payloads of the fragment plan of the message (`fragPlan`,
      C11), each one once from the origin's radio 2 and then once from the router's radio 1 (`planAir`).
    `_partial`: ONE network, ONE message content per length, ONE schedule, loss-free; no other network, content,
    type, length or schedule is covered — the general statement is still open (see "what is missing" above). -/
theorem C05_route_frag_two_hops_instance_partial : ∀ n ∈ [25, 48, 49, 72, 73, 96, 97, 120, 121, 144],
    ∃ s1, nexec (apiNetWrite (val []) 5 (List.range n) AUTO_ROUTING) Example.three =
        (.ok (true, callerFrame [1, 1] [] 6 5 (List.range n)), s1) ∧
      ∃ r s2, nexec apiUpdate ((s1.ret).callAs 1) = (.ok r, s2) ∧
        DeliveredOnce Example.three.nodes s2.nodes 0 (val [1, 1]) 5 (List.range n) ∧
        (∀ j, j ≠ 0 → (s2.nodeAt j).queue = (Example.three.nodeAt j).queue) ∧
        (∀ i, i < 3 → (s2.radioAt i).rxFifo = []) ∧
        okFragAir s2.w = planAir (List.range n) 5 ⟨val [1, 1], val [], 6, .int 5, 0⟩ [2, 1] :=
  fun n hn => routeRunB_sound (Inst.three_lens n hn)

/-- **INSTANCES: two hops, the ends of the type ranges.**  `Example.three`, 60 bytes `0..59` (three fragments),
    grandchild to master.  Types 0 and 64 (the origin awaits no NETWORK_ACK): as in
    `C05_route_frag_two_hops_instance_partial`, delivery completes at the router's next `update()`.  Types 65, 100 and 127
    (the origin waits for the NETWORK_ACK of the message): `write()` returns `True` and delivery — exactly once,
    nobody else's queue object changed, all RX FIFOs empty, the fragment traffic = the plan once per hop — is
    complete WHEN `write()` RETURNS.  Same limits: ONE network, ONE content, ONE schedule. -/
theorem C05_route_frag_types_instance_partial :
    (∀ t ∈ [(0 : Int), 64],
      ∃ s1, nexec (apiNetWrite (val []) t (List.range 60) AUTO_ROUTING) Example.three =
          (.ok (true, callerFrame [1, 1] [] 6 t (List.range 60)), s1) ∧
        ∃ r s2, nexec apiUpdate ((s1.ret).callAs 1) = (.ok r, s2) ∧
          DeliveredOnce Example.three.nodes s2.nodes 0 (val [1, 1]) t.toNat (List.range 60) ∧
          (∀ j, j ≠ 0 → (s2.nodeAt j).queue = (Example.three.nodeAt j).queue) ∧
          (∀ i, i < 3 → (s2.radioAt i).rxFifo = []) ∧
          okFragAir s2.w = planAir (List.range 60) t.toNat ⟨val [1, 1], val [], 6, .int t.toNat, 0⟩ [2, 1]) ∧
    (∀ t ∈ [(65 : Int), 100, 127],
      ∃ s1, nexec (apiNetWrite (val []) t (List.range 60) AUTO_ROUTING) Example.three =
          (.ok (true, callerFrame [1, 1] [] 6 t (List.range 60)), s1) ∧
        DeliveredOnce Example.three.nodes s1.nodes 0 (val [1, 1]) t.toNat (List.range 60) ∧
        (∀ j, j ≠ 0 → (s1.nodeAt j).queue = (Example.three.nodeAt j).queue) ∧
        (∀ i, i < 3 → (s1.radioAt i).rxFifo = []) ∧
        okFragAir s1.w = planAir (List.range 60) t.toNat ⟨val [1, 1], val [], 6, .int t.toNat, 0⟩ [2, 1]) :=
  ⟨fun t ht => routeRunB_sound (Inst.three_types_noack t ht),
   fun t ht => writeRunB_sound (Inst.three_types_ack t ht)⟩

/-- **INSTANCES: two hops over a COMMON ANCESTOR (up, then down).**  `Example.fork` (master `0o0` with children
    `0o1`, `0o2`; a `NetOk` network: `Example.fork_ok`): the child `0o1` writes `n ∈ {25, 60, 144}` bytes `0..n-1`,
    type 5, to its sibling `0o2`; the master routes.  `write()` returns `True`; after the master's next `update()`
    the sibling's queue has gained exactly the message, the queue objects of the master (the router) and of the
    origin are unchanged, all RX FIFOs are empty, the fragment traffic is the plan, once from radio 1 and once from
    radio 0 per fragment.  And for type 100 (60 bytes) all of that holds when `write()` returns.  Same limits. -/
theorem C05_route_frag_fork_instance_partial :
    (∀ n ∈ [25, 60, 144],
      ∃ s1, nexec (apiNetWrite (val [2]) 5 (List.range n) AUTO_ROUTING) Example.fork =
          (.ok (true, callerFrame [1] [2] 6 5 (List.range n)), s1) ∧
        ∃ r s2, nexec apiUpdate ((s1.ret).callAs 0) = (.ok r, s2) ∧
          DeliveredOnce Example.fork.nodes s2.nodes 2 (val [1]) 5 (List.range n) ∧
          (∀ j, j ≠ 2 → (s2.nodeAt j).queue = (Example.fork.nodeAt j).queue) ∧
          (∀ i, i < 3 → (s2.radioAt i).rxFifo = []) ∧
          okFragAir s2.w = planAir (List.range n) 5 ⟨val [1], val [2], 6, .int 5, 0⟩ [1, 0]) ∧
    (∃ s1, nexec (apiNetWrite (val [2]) 100 (List.range 60) AUTO_ROUTING) Example.fork =
        (.ok (true, callerFrame [1] [2] 6 100 (List.range 60)), s1) ∧
      DeliveredOnce Example.fork.nodes s1.nodes 2 (val [1]) 100 (List.range 60) ∧
      (∀ j, j ≠ 2 → (s1.nodeAt j).queue = (Example.fork.nodeAt j).queue) ∧
      (∀ i, i < 3 → (s1.radioAt i).rxFifo = []) ∧
      okFragAir s1.w = planAir (List.range 60) 100 ⟨val [1], val [2], 6, .int 100, 0⟩ [1, 0]) :=
  ⟨fun n hn => routeRunB_sound (Inst.fork_noack n hn), writeRunB_sound Inst.fork_ack⟩

/-- **INSTANCES: THREE hops (two routers), upwards and downwards.**  `Example.Hops.four`
    (`0o0 — 0o1 — 0o11 — 0o111`, `NetOk`: `Example.Hops.four_ok`).
    (a) the great-grandchild writes `n ∈ {25, 60, 144}` bytes, type 5, to the master: `write()` returns `True`; after
        the next `update()` of the first router `0o11` — inside which the second router and the master run —
        the master's queue has gained exactly the message, the queue objects of BOTH routers and of the origin are
        unchanged, all RX FIFOs are empty, each planned fragment was acknowledged once from radio 3, once from
        radio 2, once from radio 1, in this order;
    (b) the same message of 60 bytes with type 100: complete when `write()` returns;
    (c) downwards: the master (`Inst.fourDown`: the same network with the master about to write) writes 60 bytes,
        type 5, to the great-grandchild `0o111` (three hops) and to the grandchild `0o11` (two hops).
    Same limits: ONE network, ONE content, ONE schedule each. -/
theorem C05_route_frag_three_hops_instance_partial :
    (∀ n ∈ [25, 60, 144],
      ∃ s1, nexec (apiNetWrite (val []) 5 (List.range n) AUTO_ROUTING) Example.Hops.four =
          (.ok (true, callerFrame [1, 1, 1] [] 8 5 (List.range n)), s1) ∧
        ∃ r s2, nexec apiUpdate ((s1.ret).callAs 2) = (.ok r, s2) ∧
          DeliveredOnce Example.Hops.four.nodes s2.nodes 0 (val [1, 1, 1]) 5 (List.range n) ∧
          (∀ j, j ≠ 0 → (s2.nodeAt j).queue = (Example.Hops.four.nodeAt j).queue) ∧
          (∀ i, i < 4 → (s2.radioAt i).rxFifo = []) ∧
          okFragAir s2.w = planAir (List.range n) 5 ⟨val [1, 1, 1], val [], 8, .int 5, 0⟩ [3, 2, 1]) ∧
    (∃ s1, nexec (apiNetWrite (val []) 100 (List.range 60) AUTO_ROUTING) Example.Hops.four =
        (.ok (true, callerFrame [1, 1, 1] [] 8 100 (List.range 60)), s1) ∧
      DeliveredOnce Example.Hops.four.nodes s1.nodes 0 (val [1, 1, 1]) 100 (List.range 60) ∧
      (∀ j, j ≠ 0 → (s1.nodeAt j).queue = (Example.Hops.four.nodeAt j).queue) ∧
      (∀ i, i < 4 → (s1.radioAt i).rxFifo = []) ∧
      okFragAir s1.w = planAir (List.range 60) 100 ⟨val [1, 1, 1], val [], 8, .int 100, 0⟩ [3, 2, 1]) ∧
    (∃ s1, nexec (apiNetWrite (val [1, 1, 1]) 5 (List.range 60) AUTO_ROUTING) Inst.fourDown =
        (.ok (true, callerFrame [] [1, 1, 1] 8 5 (List.range 60)), s1) ∧
      ∃ r s2, nexec apiUpdate ((s1.ret).callAs 1) = (.ok r, s2) ∧
        DeliveredOnce Inst.fourDown.nodes s2.nodes 3 (val []) 5 (List.range 60) ∧
        (∀ j, j ≠ 3 → (s2.nodeAt j).queue = (Inst.fourDown.nodeAt j).queue) ∧
        (∀ i, i < 4 → (s2.radioAt i).rxFifo = []) ∧
        okFragAir s2.w = planAir (List.range 60) 5 ⟨val [], val [1, 1, 1], 8, .int 5, 0⟩ [0, 1, 2]) ∧
    (∃ s1, nexec (apiNetWrite (val [1, 1]) 5 (List.range 60) AUTO_ROUTING) Inst.fourDown =
        (.ok (true, callerFrame [] [1, 1] 8 5 (List.range 60)), s1) ∧
      ∃ r s2, nexec apiUpdate ((s1.ret).callAs 1) = (.ok r, s2) ∧
        DeliveredOnce Inst.fourDown.nodes s2.nodes 2 (val []) 5 (List.range 60) ∧
        (∀ j, j ≠ 2 → (s2.nodeAt j).queue = (Inst.fourDown.nodeAt j).queue) ∧
        (∀ i, i < 4 → (s2.radioAt i).rxFifo = []) ∧
        okFragAir s2.w = planAir (List.range 60) 5 ⟨val [], val [1, 1], 8, .int 5, 0⟩ [0, 1]) :=
  ⟨fun n hn => routeRunB_sound (Inst.four_up n hn), writeRunB_sound Inst.four_up_ack,
   routeRunB_sound Inst.four_down3, routeRunB_sound Inst.four_down2⟩

/-- what `planAir` says, spelled out on the smallest instance: 25 bytes travel as two fragment payloads — type
    148 with countdown 2 and 24 bytes, type 150 carrying the message type 5 and 1 byte — each acknowledged once
    from the origin's radio 2 and once from the router's radio 1 -/
example : planAir (List.range 25) 5 ⟨val [1, 1], val [], 6, .int 5, 0⟩ [2, 1] =
    [(2, [9, 0, 0, 0, 6, 0, 148, 2] ++ List.range 24), (1, [9, 0, 0, 0, 6, 0, 148, 2] ++ List.range 24),
     (2, [9, 0, 0, 0, 6, 0, 150, 5, 24]), (1, [9, 0, 0, 0, 6, 0, 150, 5, 24])] := by decide

/-- **INSTANCES: ALL ordered pairs (origin, destination) of a seven-node tree of depth 3.**  `Example.sevenAt a`
    (NrfProofs/C05ExampleSeven.lean): the tree `0o0 ─ {0o1 ─ {0o11 ─ 0o111, 0o21}, 0o2 ─ 0o12}`, every node built by
    running the model's constructor, node `a` about to write; a `NetOk` network (`Example.seven_ok`).  For EVERY
    `a ≠ d` among the seven nodes — 42 pairs: 12 neighbours, and 30 routes of 2..5 hops going up, down, or up to
    a common ancestor (the master or `0o1`) and down — node `a` writes the 60 bytes `0..59` (three fragments), type
    5, to node `d`.  Then: the node polled next is the first hop of the tree route (C04's `nextHopSpec`);
    `write()` returns `True` and the caller's frame; that node's `update()` returns normally; node `d`'s queue has
    gained exactly the message (`DeliveredOnce`); every other node's whole queue object is unchanged; all seven RX
    FIFOs are empty; the acknowledged fragment traffic is the fragment plan, each payload once from each radio of
    the route (origin first, then the routers in route order: `Example.rids7`).
    Same limits as the other instance theorems: ONE network, ONE content, ONE type, ONE length, ONE schedule. -/
theorem C05_route_frag_all_pairs_instance_partial : ∀ a d, a < 7 → d < 7 → a ≠ d →
    Example.hop7 a d < 7 ∧
    Example.tree7 (Example.hop7 a d) = nextHopSpec (Example.tree7 a) (Example.tree7 d) ∧
    ∃ s1, nexec (apiNetWrite (val (Example.tree7 d)) 5 (List.range 60) AUTO_ROUTING) (Example.sevenAt a) =
        (.ok (true, callerFrame (Example.tree7 a) (Example.tree7 d) (Example.sevenAt a).nextId 5 (List.range 60)),
          s1) ∧
      ∃ r s2, nexec apiUpdate ((s1.ret).callAs (Example.hop7 a d)) = (.ok r, s2) ∧
        DeliveredOnce (Example.sevenAt a).nodes s2.nodes d (val (Example.tree7 a)) 5 (List.range 60) ∧
        (∀ j, j ≠ d → (s2.nodeAt j).queue = ((Example.sevenAt a).nodeAt j).queue) ∧
        (∀ i, i < (Example.sevenAt a).nodes.length → (s2.radioAt i).rxFifo = []) ∧
        okFragAir s2.w = planAir (List.range 60) 5
          ⟨val (Example.tree7 a), val (Example.tree7 d), (Example.sevenAt a).nextId, .int 5, 0⟩
          (Example.rids7 a d) := by
  intro a d ha hd had
  have hhop : ∀ a ∈ List.range 7, ∀ d ∈ List.range 7, a ≠ d → Example.hop7 a d < 7 ∧
      Example.tree7 (Example.hop7 a d) = nextHopSpec (Example.tree7 a) (Example.tree7 d) := by decide
  obtain ⟨h1, h2⟩ := hhop a (List.mem_range.mpr ha) d (List.mem_range.mpr hd) had
  refine ⟨h1, h2, ?_⟩
  have hrun : Inst.pairRun a d = true := by
    have hdm := List.mem_range.mpr hd
    have : a ∈ [0, 1] ∨ a ∈ [2, 3, 4] ∨ a ∈ [5, 6] := by
      simp only [List.mem_cons, List.not_mem_nil, or_false]
      omega
    rcases this with h | h | h
    · exact Inst.pairs_D a h d hdm had
    · exact Inst.pairs_E a h d hdm had
    · exact Inst.pairs_F a h d hdm had
  exact routeRunB_sound hrun

/-- the routes of the seven-node tree, by length: 12 ordered pairs of neighbours, 12 of distance 2, 10 of
    distance 3, 6 of distance 4, 2 of distance 5 (`0o111 ↔ 0o12`, four routers) -/
example : ([1, 2, 3, 4, 5].map fun n => (((List.range 7).flatMap fun a => (List.range 7).map fun d => (a, d)).filter
    fun p => p.1 ≠ p.2 ∧ dist (Example.tree7 p.1) (Example.tree7 p.2) = n).length) = [12, 12, 10, 6, 2] := by decide

/-! ### the boundary lengths 0, 24 (last single frame), 25 (first fragmented), 144 (default `max_message_length`)

The property ranges over "0..max_message_length bytes"; the delivery theorems above are stated with
`msg.length ≤ MAX_FRAG_SIZE` (= 24; none of them asks for `1 ≤ msg.length`, and none asks for fragmentation
to be enabled: with fragmentation off, messages of up to 24 bytes are covered by the same theorems) and
`MAX_FRAG_SIZE < msg.length ≤ 144`.  The four corollaries below are INSTANTIATIONS of those theorems at the
boundary lengths — stated separately so that an off-by-one in a bound (`<` for `≤`) would be visible as a failing
corollary — each instantiated on a concrete network for both of its boundary values.  They add no new content. -/

/-- **Empty message and 24-byte message, types 0..64, any tree route** (instantiation of
    `C05_route_closed_partial` at `msg.length = 0` — a frame that is only its 8-byte header — and at
    `msg.length = 24` — the longest single frame, 32 bytes on the air): delivered exactly once, intact, to no other
    queue, `write()` returns `True`, all RX FIFOs empty afterwards.  Hypotheses and coverage: as
    `C05_route_closed_partial` (ONE schedule, loss-free). -/
theorem C05_route_boundary_closed_partial (cfg : AddrCfg) (hcfg : CfgOk cfg) (L : LinkCfg)
    (tree : Nat → List Nat) (s : NetState) (a : Nat) (d : List Nat) (ty : Int) (msg : Bytes)
    (hok : NetOk cfg L tree s) (hcur : s.cur = a) (hact : s.active = [a]) (ha : a < s.nodes.length)
    (hsize : s.nodes.length ≤ 20000) (hndef : ∀ i, val (tree i) ≠ NETWORK_DEFAULT_ADDR)
    (hd : IsNode d) (hxd : tree a ≠ d)
    (hroute : ∀ k, 1 ≤ k → k ≤ dist (tree a) d →
      ∃ j, j < s.nodes.length ∧ tree j = hops k (tree a) d ∧
        NotDupFrame (s.radioAt j) (wireCopy (callerFrame (tree a) d s.nextId ty msg)))
    (hquiet : ∀ i, i < s.nodes.length → (s.radioAt i).rxFifo = [])
    (hty : 0 ≤ ty ∧ ty ≤ 64) (hbd : msg.length = 0 ∨ msg.length = 24)
    (hmax : msg.length ≤ (s.nodeAt a).maxMessageLength)
    (hacc : ∀ j, j < s.nodes.length → tree j = d →
      Accepts (s.nodeAt j).queue (wireCopy (callerFrame (tree a) d s.nextId ty msg))) :
    ∃ s1 j1 jd, j1 < s.nodes.length ∧ tree j1 = nextHopSpec (tree a) d ∧ jd < s.nodes.length ∧ tree jd = d ∧
      nexec (apiNetWrite (val d) ty msg AUTO_ROUTING) s =
        (.ok (true, callerFrame (tree a) d s.nextId ty msg), s1) ∧
      ∃ r s2, nexec apiUpdate ((s1.ret).callAs j1) = (.ok r, s2) ∧
        DeliveredOnce s.nodes s2.nodes jd (val (tree a)) ty.toNat msg ∧
        ∀ i, i < s.nodes.length → (s2.radioAt i).rxFifo = [] :=
  C05_route_closed_partial cfg hcfg L tree s a d ty msg hok hcur hact ha hsize hndef hd hxd hroute hquiet hty
    (by unfold MAX_FRAG_SIZE; omega) hmax hacc

/-- non-vacuity, length 0: the grandchild of `Example.three` writes the EMPTY message, type 7, to the master
    (two hops) -/
example : ∃ s1 j1 jd, j1 < 3 ∧ Example.tree3 j1 = [1] ∧ jd < 3 ∧ Example.tree3 jd = [] ∧
    nexec (apiNetWrite (val []) 7 [] AUTO_ROUTING) Example.three =
      (.ok (true, callerFrame [1, 1] [] 6 7 []), s1) ∧
    ∃ r s2, nexec apiUpdate ((s1.ret).callAs j1) = (.ok r, s2) ∧
      DeliveredOnce Example.three.nodes s2.nodes jd (val [1, 1]) 7 [] ∧
      ∀ i, i < 3 → (s2.radioAt i).rxFifo = [] :=
  C05_route_boundary_closed_partial {} (by decide) Example.L Example.tree3 Example.three 2 [] 7 []
    Example.three_ok rfl rfl (by decide) (by decide) three_ndef (by decide) (by decide) (three_route _) three_quiet
    (by decide) (Or.inl rfl) (by decide) (three_acc _)

/-- non-vacuity, length 24: the same with the 24 bytes `0, 1, …, 23` -/
example : ∃ s1 j1 jd, j1 < 3 ∧ Example.tree3 j1 = [1] ∧ jd < 3 ∧ Example.tree3 jd = [] ∧
    nexec (apiNetWrite (val []) 7 (List.range 24) AUTO_ROUTING) Example.three =
      (.ok (true, callerFrame [1, 1] [] 6 7 (List.range 24)), s1) ∧
    ∃ r s2, nexec apiUpdate ((s1.ret).callAs j1) = (.ok r, s2) ∧
      DeliveredOnce Example.three.nodes s2.nodes jd (val [1, 1]) 7 (List.range 24) ∧
      ∀ i, i < 3 → (s2.radioAt i).rxFifo = [] :=
  C05_route_boundary_closed_partial {} (by decide) Example.L Example.tree3 Example.three 2 [] 7 (List.range 24)
    Example.three_ok rfl rfl (by decide) (by decide) three_ndef (by decide) (by decide) (three_route _) three_quiet
    (by decide) (Or.inr (by decide)) (by decide) (three_acc _)

/-- **Empty message and 24-byte message, acknowledged types 65..191, any tree route of two or more hops**
    (instantiation of `C05_route_ack_closed_partial` at `msg.length = 0` and `msg.length = 24`).  Hypotheses and
    coverage as there. -/
theorem C05_route_ack_boundary_closed_partial (cfg : AddrCfg) (hcfg : CfgOk cfg) (L : LinkCfg)
    (tree : Nat → List Nat) (s : NetState) (a : Nat) (d : List Nat) (ty : Int) (msg : Bytes)
    (hok : NetOk cfg L tree s) (hcur : s.cur = a) (hact : s.active = [a]) (ha : a < s.nodes.length)
    (hsize : s.nodes.length ≤ 20000) (hndef : ∀ i, val (tree i) ≠ NETWORK_DEFAULT_ADDR)
    (h2 : 2 ≤ dist (tree a) d)
    (hroute : ∀ k, 1 ≤ k → k ≤ dist (tree a) d →
      ∃ j, j < s.nodes.length ∧ tree j = hops k (tree a) d ∧
        NotDupFrame (s.radioAt j) (wireCopy (callerFrame (tree a) d s.nextId ty msg)))
    (horig : NotDupFrame (s.radioAt a) (ackOf (wireCopy (callerFrame (tree a) d s.nextId ty msg))))
    (hquiet : ∀ i, i < s.nodes.length → (s.radioAt i).rxFifo = [])
    (hty : 65 ≤ ty ∧ ty ≤ 191)
    (hsys : ty ≤ 127 ∨ ((∀ j, j < s.nodes.length → tree j = d → (s.nodeAt j).retSysMsg = false) ∧
      ty ≠ 128 ∧ ty ≠ 130 ∧ ty ≠ 131 ∧ ty ≠ 148 ∧ ty ≠ 149 ∧ ty ≠ 150))
    (hbd : msg.length = 0 ∨ msg.length = 24)
    (hmax : msg.length ≤ (s.nodeAt a).maxMessageLength)
    (hacc : ∀ j, j < s.nodes.length → tree j = d →
      Accepts (s.nodeAt j).queue (wireCopy (callerFrame (tree a) d s.nextId ty msg))) :
    ∃ s1 jd, jd < s.nodes.length ∧ tree jd = d ∧
      nexec (apiNetWrite (val d) ty msg AUTO_ROUTING) s =
        (.ok (true, callerFrame (tree a) d s.nextId ty msg), s1) ∧
      DeliveredOnce s.nodes s1.nodes jd (val (tree a)) ty.toNat msg ∧
      ∀ i, i < s.nodes.length → (s1.radioAt i).rxFifo = [] :=
  C05_route_ack_closed_partial cfg hcfg L tree s a d ty msg hok hcur hact ha hsize hndef h2 hroute horig hquiet
    hty hsys (by unfold MAX_FRAG_SIZE; omega) hmax hacc

/-- non-vacuity, length 0: the great-grandchild of `Example.Hops.four` writes the EMPTY message, type 100, to
    the master (three hops) -/
example : ∃ s1 jd, jd < 4 ∧ Example.Hops.tree4 jd = [] ∧
    nexec (apiNetWrite (val []) 100 [] AUTO_ROUTING) Example.Hops.four =
      (.ok (true, callerFrame [1, 1, 1] [] 8 100 []), s1) ∧
    DeliveredOnce Example.Hops.four.nodes s1.nodes jd (val [1, 1, 1]) 100 [] ∧
    ∀ i, i < 4 → (s1.radioAt i).rxFifo = [] :=
  C05_route_ack_boundary_closed_partial {} (by decide) Example.L Example.Hops.tree4 Example.Hops.four 3 [] 100 []
    Example.Hops.four_ok rfl rfl (by decide) (by decide) Example.Hops.four_ndef (by decide) (four_route _)
    (NotDupFrame.of_none (by decide)) four_quiet (by decide) (Or.inl (by decide)) (Or.inl rfl) (by decide)
    (four_acc _)

/-- non-vacuity, length 24 -/
example : ∃ s1 jd, jd < 4 ∧ Example.Hops.tree4 jd = [] ∧
    nexec (apiNetWrite (val []) 100 (List.range 24) AUTO_ROUTING) Example.Hops.four =
      (.ok (true, callerFrame [1, 1, 1] [] 8 100 (List.range 24)), s1) ∧
    DeliveredOnce Example.Hops.four.nodes s1.nodes jd (val [1, 1, 1]) 100 (List.range 24) ∧
    ∀ i, i < 4 → (s1.radioAt i).rxFifo = [] :=
  C05_route_ack_boundary_closed_partial {} (by decide) Example.L Example.Hops.tree4 Example.Hops.four 3 [] 100
    (List.range 24)
    Example.Hops.four_ok rfl rfl (by decide) (by decide) Example.Hops.four_ndef (by decide) (four_route _)
    (NotDupFrame.of_none (by decide)) four_quiet (by decide) (Or.inl (by decide)) (Or.inr (by decide)) (by decide)
    (four_acc _)

/-- **Empty message and 24-byte message between neighbours in a full network, every user type 0..127**
    (instantiation of `C05_neighbours_closed_partial` at `msg.length = 0` and `msg.length = 24`). -/
theorem C05_neighbours_boundary_closed_partial (cfg : AddrCfg) (hcfg : CfgOk cfg) (L : LinkCfg)
    (tree : Nat → List Nat) (s : NetState) (a b : Nat) (ty : Int) (msg : Bytes)
    (hok : NetOk cfg L tree s) (hcur : s.cur = a) (hact : s.active = [a])
    (ha : a < s.nodes.length) (hb : b < s.nodes.length) (hab : a ≠ b) (hsize : s.nodes.length ≤ 100000)
    (hadj : nextHopSpec (tree a) (tree b) = tree b)
    (hdup : NotDupFrame (s.radioAt b) (wireCopy (callerFrame (tree a) (tree b) s.nextId ty msg)))
    (hquiet : ∀ i, i < s.nodes.length → (s.radioAt i).rxFifo = [])
    (hty : 0 ≤ ty ∧ ty ≤ 127) (hbd : msg.length = 0 ∨ msg.length = 24)
    (hmax : msg.length ≤ (s.nodeAt a).maxMessageLength)
    (hroom : ((s.nodeAt b).queue.frames.length : Int) < (s.nodeAt b).queue.maxSize)
    (hnew : ∀ g ∈ (s.nodeAt b).queue.frames, ¬ (g.header.fromNode = val (tree a) ∧
      g.header.frameId = s.nextId &&& 0xFFFF ∧ g.header.ty = ty.toNat)) :
    ∃ s1 s2, nexec (apiNetWrite (val (tree b)) ty msg AUTO_ROUTING) s =
        (.ok (true, callerFrame (tree a) (tree b) s.nextId ty msg), s1) ∧
      nexec apiUpdate ((s1.ret).callAs b) = (.ok ty.toNat, s2) ∧
      DeliveredOnce s.nodes s2.nodes b (val (tree a)) ty.toNat msg ∧
      ∀ i, i < s.nodes.length → (s2.radioAt i).rxFifo = [] :=
  C05_neighbours_closed_partial cfg hcfg L tree s a b ty msg hok hcur hact ha hb hab hsize hadj hdup hquiet hty
    (by unfold MAX_FRAG_SIZE; omega) hmax hroom hnew

/-- non-vacuity, length 0: in `Example.three` the grandchild writes the EMPTY message, type 127 (the last user
    type), to its parent while the master listens -/
example : ∃ s1 s2,
    nexec (apiNetWrite (val [1]) 127 [] AUTO_ROUTING) Example.three =
      (.ok (true, callerFrame [1, 1] [1] 6 127 []), s1) ∧
    nexec apiUpdate ((s1.ret).callAs 1) = (.ok 127, s2) ∧
    DeliveredOnce Example.three.nodes s2.nodes 1 (val [1, 1]) 127 [] ∧
    ∀ i, i < 3 → (s2.radioAt i).rxFifo = [] :=
  C05_neighbours_boundary_closed_partial {} (by decide) Example.L Example.tree3 Example.three 2 1 127 []
    Example.three_ok rfl rfl (by decide) (by decide) (by decide) (by decide) (by decide)
    (NotDupFrame.of_none (by decide)) three_quiet
    (by decide) (Or.inl rfl) (by decide) (by decide) (by intro g hg; cases hg)

/-- non-vacuity, length 24, type 0 (the first user type) -/
example : ∃ s1 s2,
    nexec (apiNetWrite (val [1]) 0 (List.range 24) AUTO_ROUTING) Example.three =
      (.ok (true, callerFrame [1, 1] [1] 6 0 (List.range 24)), s1) ∧
    nexec apiUpdate ((s1.ret).callAs 1) = (.ok 0, s2) ∧
    DeliveredOnce Example.three.nodes s2.nodes 1 (val [1, 1]) 0 (List.range 24) ∧
    ∀ i, i < 3 → (s2.radioAt i).rxFifo = [] :=
  C05_neighbours_boundary_closed_partial {} (by decide) Example.L Example.tree3 Example.three 2 1 0 (List.range 24)
    Example.three_ok rfl rfl (by decide) (by decide) (by decide) (by decide) (by decide)
    (NotDupFrame.of_none (by decide)) three_quiet
    (by decide) (Or.inr (by decide)) (by decide) (by decide) (by intro g hg; cases hg)

/-- **25-byte message (the shortest fragmented one: 24 + 1 bytes in two frames) and 144-byte message (the
    default `max_message_length`: six full fragments) between neighbours in a full network, user types 0..127**
    (instantiation of `C05_neighbours_frag_closed_partial` at `msg.length = 25` and `msg.length = 144`). -/
theorem C05_neighbours_frag_boundary_closed_partial (cfg : AddrCfg) (hcfg : CfgOk cfg) (L : LinkCfg)
    (tree : Nat → List Nat) (s : NetState) (a b : Nat) (ty : Int) (msg : Bytes)
    (hok : NetOk cfg L tree s) (hcur : s.cur = a) (hact : s.active = [a])
    (ha : a < s.nodes.length) (hb : b < s.nodes.length) (hab : a ≠ b) (hsize : s.nodes.length ≤ 90000)
    (hadj : nextHopSpec (tree a) (tree b) = tree b)
    (hfrag_a : (s.nodeAt a).fragEnabled = true) (hfrag_b : (s.nodeAt b).queue.frag = true)
    (hdup : NotDupFrame (s.radioAt b) ⟨⟨val (tree a), val (tree b), s.nextId &&& 0xFFFF, .int MSG_FRAG_FIRST,
      fragTotal msg.length⟩, msg.take MAX_FRAG_SIZE⟩)
    (hquiet : ∀ i, i < s.nodes.length → (s.radioAt i).rxFifo = [])
    (hty : 0 ≤ ty ∧ ty ≤ 127) (hbd : msg.length = 25 ∨ msg.length = 144)
    (hmax : msg.length ≤ (s.nodeAt a).maxMessageLength)
    (hroom : ((s.nodeAt b).queue.frames.length : Int) < (s.nodeAt b).queue.maxSize)
    (hnew : ∀ g ∈ (s.nodeAt b).queue.frames, ¬ (g.header.fromNode = val (tree a) ∧
      g.header.frameId = s.nextId &&& 0xFFFF ∧ g.header.ty = ty.toNat)) :
    ∃ s1 s2, nexec (apiNetWrite (val (tree b)) ty msg AUTO_ROUTING) s =
        (.ok (true, callerFrame (tree a) (tree b) s.nextId ty msg), s1) ∧
      nexec apiUpdate ((s1.ret).callAs b) = (.ok MSG_FRAG_LAST, s2) ∧
      DeliveredOnce s.nodes s2.nodes b (val (tree a)) ty.toNat msg ∧
      ∀ i, i < s.nodes.length → (s2.radioAt i).rxFifo = [] :=
  C05_neighbours_frag_closed_partial cfg hcfg L tree s a b ty msg hok hcur hact ha hb hab hsize hadj hfrag_a hfrag_b
    hdup hquiet hty (by unfold MAX_FRAG_SIZE; omega) (by omega) hmax hroom hnew

/-- non-vacuity, length 25 (two frames: 24 + 1 bytes), in `Example.three`, grandchild to parent, type 100 -/
example : ∃ s1 s2,
    nexec (apiNetWrite (val [1]) 100 (List.range 25) AUTO_ROUTING) Example.three =
      (.ok (true, callerFrame [1, 1] [1] 6 100 (List.range 25)), s1) ∧
    nexec apiUpdate ((s1.ret).callAs 1) = (.ok 150, s2) ∧
    DeliveredOnce Example.three.nodes s2.nodes 1 (val [1, 1]) 100 (List.range 25) ∧
    ∀ i, i < 3 → (s2.radioAt i).rxFifo = [] :=
  C05_neighbours_frag_boundary_closed_partial {} (by decide) Example.L Example.tree3 Example.three 2 1 100
    (List.range 25)
    Example.three_ok rfl rfl (by decide) (by decide) (by decide) (by decide) (by decide)
    (by decide) (by decide) (NotDupFrame.of_none (by decide)) three_quiet
    (by decide) (Or.inl (by decide)) (by decide) (by decide) (by intro g hg; cases hg)

/-- non-vacuity, length 144 (six frames of 24 bytes; `max_message_length` of the example nodes is 144) -/
example : ∃ s1 s2,
    nexec (apiNetWrite (val [1]) 100 (List.range 144) AUTO_ROUTING) Example.three =
      (.ok (true, callerFrame [1, 1] [1] 6 100 (List.range 144)), s1) ∧
    nexec apiUpdate ((s1.ret).callAs 1) = (.ok 150, s2) ∧
    DeliveredOnce Example.three.nodes s2.nodes 1 (val [1, 1]) 100 (List.range 144) ∧
    ∀ i, i < 3 → (s2.radioAt i).rxFifo = [] :=
  C05_neighbours_frag_boundary_closed_partial {} (by decide) Example.L Example.tree3 Example.three 2 1 100
    (List.range 144)
    Example.three_ok rfl rfl (by decide) (by decide) (by decide) (by decide) (by decide)
    (by decide) (by decide) (NotDupFrame.of_none (by decide)) three_quiet
    (by decide) (Or.inr List.length_range) (by rw [List.length_range]; decide) (by decide)
    (by intro g hg; cases hg)

/-! ### "with fragmentation off, messages up to 24 bytes behave the same"

`fragmentation = False` sets `max_message_length = 24` and replaces the reassembling queue by the plain one
(`apiSetFragmentation`).  None of the single-frame theorems above asks for fragmentation to be on anywhere, so
they cover that configuration; the two corollaries below say it in the property's terms: at a sender whose
`max_message_length` is 24 — as the setter leaves it — EVERY message that `max_message_length` admits (0..24
bytes) is delivered as stated, whatever the fragmentation flags of the nodes are.  The examples instantiate them
on the chain with fragmentation off at ALL three nodes (`Example.threeNoFrag`, `Example.threeNoFrag_off`). -/

/-- **Fragmentation off at the sender (`max_message_length = 24`): every admitted message, types 0..64, any tree
    route** — `C05_route_closed_partial` with `msg.length ≤ 24` derived from `msg.length ≤ max_message_length = 24`
    (one hypothesis replaced, nothing else; same ONE schedule, loss-free). -/
theorem C05_route_fragoff_closed_partial (cfg : AddrCfg) (hcfg : CfgOk cfg) (L : LinkCfg)
    (tree : Nat → List Nat) (s : NetState) (a : Nat) (d : List Nat) (ty : Int) (msg : Bytes)
    (hok : NetOk cfg L tree s) (hcur : s.cur = a) (hact : s.active = [a]) (ha : a < s.nodes.length)
    (hsize : s.nodes.length ≤ 20000) (hndef : ∀ i, val (tree i) ≠ NETWORK_DEFAULT_ADDR)
    (hd : IsNode d) (hxd : tree a ≠ d)
    (hroute : ∀ k, 1 ≤ k → k ≤ dist (tree a) d →
      ∃ j, j < s.nodes.length ∧ tree j = hops k (tree a) d ∧
        NotDupFrame (s.radioAt j) (wireCopy (callerFrame (tree a) d s.nextId ty msg)))
    (hquiet : ∀ i, i < s.nodes.length → (s.radioAt i).rxFifo = [])
    (hty : 0 ≤ ty ∧ ty ≤ 64) (hoff : (s.nodeAt a).maxMessageLength = 24)
    (hmax : msg.length ≤ (s.nodeAt a).maxMessageLength)
    (hacc : ∀ j, j < s.nodes.length → tree j = d →
      Accepts (s.nodeAt j).queue (wireCopy (callerFrame (tree a) d s.nextId ty msg))) :
    ∃ s1 j1 jd, j1 < s.nodes.length ∧ tree j1 = nextHopSpec (tree a) d ∧ jd < s.nodes.length ∧ tree jd = d ∧
      nexec (apiNetWrite (val d) ty msg AUTO_ROUTING) s =
        (.ok (true, callerFrame (tree a) d s.nextId ty msg), s1) ∧
      ∃ r s2, nexec apiUpdate ((s1.ret).callAs j1) = (.ok r, s2) ∧
        DeliveredOnce s.nodes s2.nodes jd (val (tree a)) ty.toNat msg ∧
        ∀ i, i < s.nodes.length → (s2.radioAt i).rxFifo = [] :=
  C05_route_closed_partial cfg hcfg L tree s a d ty msg hok hcur hact ha hsize hndef hd hxd hroute hquiet hty
    (by unfold MAX_FRAG_SIZE; omega) hmax hacc

/-- non-vacuity on the chain with fragmentation OFF at all three nodes: the grandchild writes the longest message
    it admits, 24 bytes, type 7, to the master over two hops -/
example : ∃ s1 j1 jd, j1 < 3 ∧ Example.tree3 j1 = [1] ∧ jd < 3 ∧ Example.tree3 jd = [] ∧
    nexec (apiNetWrite (val []) 7 (List.range 24) AUTO_ROUTING) Example.threeNoFrag =
      (.ok (true, callerFrame [1, 1] [] 6 7 (List.range 24)), s1) ∧
    ∃ r s2, nexec apiUpdate ((s1.ret).callAs j1) = (.ok r, s2) ∧
      DeliveredOnce Example.threeNoFrag.nodes s2.nodes jd (val [1, 1]) 7 (List.range 24) ∧
      ∀ i, i < 3 → (s2.radioAt i).rxFifo = [] :=
  C05_route_fragoff_closed_partial {} (by decide) Example.L Example.tree3 Example.threeNoFrag 2 [] 7 (List.range 24)
    Example.threeNoFrag_ok rfl rfl (by decide) (by decide) three_ndef (by decide) (by decide)
    (by
      intro k hk1 hk2
      have hd : dist (Example.tree3 2) [] = 2 := by decide
      rw [hd] at hk2
      have : k = 1 ∨ k = 2 := by omega
      rcases this with rfl | rfl
      · exact ⟨1, by decide, by decide, NotDupFrame.of_none (by decide)⟩
      · exact ⟨0, by decide, by decide, NotDupFrame.of_none (by decide)⟩)
    (by
      intro i hi
      rcases Example.threeNoFrag_lt i hi with rfl | rfl | rfl <;> decide)
    (by decide) (by decide) (by decide)
    (by
      intro j hj htj
      rcases Example.threeNoFrag_lt j hj with rfl | rfl | rfl
      · exact ⟨by decide, by intro g hg; cases hg⟩
      · exact absurd htj (by decide)
      · exact absurd htj (by decide))

/-- **Fragmentation off at the sender: every admitted message between neighbours in a full network, every user
    type 0..127** — `C05_neighbours_closed_partial` with `msg.length ≤ 24` derived from
    `msg.length ≤ max_message_length = 24`. -/
theorem C05_neighbours_fragoff_closed_partial (cfg : AddrCfg) (hcfg : CfgOk cfg) (L : LinkCfg)
    (tree : Nat → List Nat) (s : NetState) (a b : Nat) (ty : Int) (msg : Bytes)
    (hok : NetOk cfg L tree s) (hcur : s.cur = a) (hact : s.active = [a])
    (ha : a < s.nodes.length) (hb : b < s.nodes.length) (hab : a ≠ b) (hsize : s.nodes.length ≤ 100000)
    (hadj : nextHopSpec (tree a) (tree b) = tree b)
    (hdup : NotDupFrame (s.radioAt b) (wireCopy (callerFrame (tree a) (tree b) s.nextId ty msg)))
    (hquiet : ∀ i, i < s.nodes.length → (s.radioAt i).rxFifo = [])
    (hty : 0 ≤ ty ∧ ty ≤ 127) (hoff : (s.nodeAt a).maxMessageLength = 24)
    (hmax : msg.length ≤ (s.nodeAt a).maxMessageLength)
    (hroom : ((s.nodeAt b).queue.frames.length : Int) < (s.nodeAt b).queue.maxSize)
    (hnew : ∀ g ∈ (s.nodeAt b).queue.frames, ¬ (g.header.fromNode = val (tree a) ∧
      g.header.frameId = s.nextId &&& 0xFFFF ∧ g.header.ty = ty.toNat)) :
    ∃ s1 s2, nexec (apiNetWrite (val (tree b)) ty msg AUTO_ROUTING) s =
        (.ok (true, callerFrame (tree a) (tree b) s.nextId ty msg), s1) ∧
      nexec apiUpdate ((s1.ret).callAs b) = (.ok ty.toNat, s2) ∧
      DeliveredOnce s.nodes s2.nodes b (val (tree a)) ty.toNat msg ∧
      ∀ i, i < s.nodes.length → (s2.radioAt i).rxFifo = [] :=
  C05_neighbours_closed_partial cfg hcfg L tree s a b ty msg hok hcur hact ha hb hab hsize hadj hdup hquiet hty
    (by unfold MAX_FRAG_SIZE; omega) hmax hroom hnew

/-- non-vacuity, fragmentation off at all three nodes: the grandchild writes 24 bytes, type 100, to its parent -/
example : ∃ s1 s2,
    nexec (apiNetWrite (val [1]) 100 (List.range 24) AUTO_ROUTING) Example.threeNoFrag =
      (.ok (true, callerFrame [1, 1] [1] 6 100 (List.range 24)), s1) ∧
    nexec apiUpdate ((s1.ret).callAs 1) = (.ok 100, s2) ∧
    DeliveredOnce Example.threeNoFrag.nodes s2.nodes 1 (val [1, 1]) 100 (List.range 24) ∧
    ∀ i, i < 3 → (s2.radioAt i).rxFifo = [] :=
  C05_neighbours_fragoff_closed_partial {} (by decide) Example.L Example.tree3 Example.threeNoFrag 2 1 100
    (List.range 24)
    Example.threeNoFrag_ok rfl rfl (by decide) (by decide) (by decide) (by decide) (by decide)
    (NotDupFrame.of_none (by decide))
    (by
      intro i hi
      rcases Example.threeNoFrag_lt i hi with rfl | rfl | rfl <;> decide)
    (by decide) (by decide) (by decide) (by decide) (by intro g hg; cases hg)

end Nrf.Props.C05
