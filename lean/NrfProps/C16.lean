/-
C16 — "The mesh master leases each logical address to at most one node ID."

For every history of address requests (from any node IDs, arriving directly or relayed through any
connected node of level 0..3), releases and save/load cycles, the master's table never maps two
different node IDs to the same address, and an ID that asks again keeps a single lease.  Every
address handed out is a valid logical address that is a direct child of the node through which the
request arrived (of the master for direct requests), never 0, never the unassigned-node address
0o4444 and never an address currently leased to another ID, and the reply travels back toward the
requester carrying its ID.  A released address becomes available again, and
save_dhcp()/load_dhcp() reproduce the table exactly in both file formats.

Model: `NrfModel/Mesh/Dhcp.lean` (`RF24Mesh.update` dispatch, `_dhcp`, `set_address`,
`release_address`, `save_dhcp`, `load_dhcp`), spec: `NrfModel/Spec/Lease.lean`.
The theorems are about the repaired code (`fix:` commit "load_dhcp(as_bin=True) could lease one
address to two node IDs": the binary branch of `load_dhcp` now passes `search_by_address=True` like
the JSON branch).  On the unrepaired code `C16_inv` is false: request by ID 1, `save_dhcp(bin)`,
release of 0o5, request by ID 2, `load_dhcp(bin)` leaves `{2: 0o5, 1: 0o5}`.

`load_dhcp` does not clear the table.  Loading into a LIVE (non-empty) master: `C16_load_live` (any two
tables with the invariant: the result has the invariant, holds all of the file, and of the old
entries exactly those whose ID and address both do not occur in the file; both formats agree),
`C16_load_same` (file = image of the table still held: reproduced exactly, order included),
`C16_load_live_step` (the same as an event of a history).  "Reproduce the table exactly" therefore
holds into an empty master (`C16_persist`) and into a master whose table is unchanged since the
save (`C16_load_same`); into a master that changed meanwhile the saved entries win and
non-colliding newer leases survive — a merge, not a restore.
-/
import NrfProofs.Lease
import NrfProofs.LeaseJudge
import NrfProofs.LeaseLive

namespace Nrf.Props.C16
open Nrf Nrf.Net Nrf.Mesh Nrf.Spec Nrf.Proofs.Lease

/-! ## the histories the property quantifies over -/

/-- the `from_node` of a request the property speaks about: the unassigned address (the requester
    reached the master directly) or the address of a node of level 0..3 (the relay) -/
def FromOk (fromNode : Nat) : Prop :=
  fromNode = 0o4444 ∨ ∃ ds, IsNode ds ∧ ds.length ≤ 3 ∧ val ds = fromNode

/-- Events of a master's history: frames of any type from anybody (a request frame is served only
    if it carries an ID; it then has to carry a byte ID and come from `FromOk`), direct `_dhcp()`
    calls under the same condition, lookups, releases of any address (0 included) by frame or by
    call, `save_dhcp` / `load_dhcp` in both formats at any moment, power cycles.  The manual
    override `set_address()` is not an event of the property. -/
def Allowed : Ev → Prop
  | .frame msgT fromNode reserved _ _ =>
    msgT = MESH_ADDR_REQUEST → reserved ≠ 0 → reserved ≤ 255 ∧ FromOk fromNode
  | .dhcp fromNode reserved _ => 1 ≤ reserved ∧ reserved ≤ 255 ∧ FromOk fromNode
  | .setAddr _ _ _ => False
  | _ => True

/-- the invariant of the whole history: the table satisfies the property's invariant and so does
    every table that was saved to a file -/
structure Good (w : World) : Prop where
  table : Inv w.m.table
  bin : ∀ b, w.fileBin = some b → ∃ t, Inv t ∧ saveBin t = (b, none)
  json : ∀ p, w.fileJson = some p → ∃ t, Inv t ∧ saveJson t = p

theorem C16_arrives {fromNode : Nat} (h : FromOk fromNode) :
    ∃ via direct, Arrives fromNode via direct := by
  rcases h with h | ⟨ds, hn, hl, hv⟩
  · exact ⟨[], true, Or.inl ⟨rfl, rfl, h⟩⟩
  · exact ⟨ds, false, Or.inr ⟨rfl, hn, hl, hv⟩⟩

/-! ## requests -/

/-- **What a request does.**  From a table satisfying the invariant, a request by ID `id` (1..255)
    that arrived below the parent `via` either changes nothing and sends nothing — exactly when
    every candidate (children 1..4 of the relay, 1..5 of the master for a direct request) is the
    unassigned address or leased to another ID — or gives `id` the highest free candidate, as its
    only lease, by `dhcp_dict[id] = a`, replies, and the invariant still holds. -/
theorem C16_request {t : Table} (hinv : Inv t) {fromNode : Nat} {via : List Nat} {direct : Bool}
    (harr : Arrives fromNode via direct) {id : Nat} (hid : id ≤ 255) (w1 : Bool) :
    (dhcp t fromNode id w1 = (t, {}) ∧
      ∀ i, 1 ≤ i → i ≤ capacity direct → SlotBlocked t id via i) ∨
    (∃ i, 1 ≤ i ∧ i ≤ capacity direct ∧ ¬ SlotBlocked t id via i ∧
      (∀ j, i < j → j ≤ capacity direct → SlotBlocked t id via j) ∧
      dhcp t fromNode id w1 =
        (dictSet t id (child via i), { writes := repliesOf fromNode id (child via i) w1 }) ∧
      Inv (dictSet t id (child via i))) := by
  rcases dhcp_spec t harr id w1 with h | ⟨i, h1, h2, hnb, hab, he⟩
  · exact Or.inl h
  · right
    refine ⟨i, h1, h2, hnb, hab, he, ?_⟩
    have hcap : capacity direct ≤ 5 := by unfold capacity; split <;> omega
    have hnode : IsNode via ∧ via.length ≤ 3 := by
      rcases harr with ⟨_, hv, _⟩ | ⟨_, hn, hl, _⟩
      · subst hv; exact ⟨by decide, by simp⟩
      · exact ⟨hn, hl⟩
    have hleas : Leasable (child via i) :=
      leasable_child hnode.1 hnode.2 ⟨h1, by omega⟩ (fun h => hnb (Or.inl h))
    exact inv_dictSet hinv (by omega) hleas (fun h => hnb (Or.inr h))

/-- the invariant survives a request -/
theorem C16_request_inv {t : Table} (hinv : Inv t) {fromNode : Nat} (hfrom : FromOk fromNode)
    {id : Nat} (hid : id ≤ 255) (w1 : Bool) : Inv (dhcp t fromNode id w1).1 := by
  obtain ⟨via, direct, harr⟩ := C16_arrives hfrom
  rcases C16_request hinv harr hid w1 with ⟨he, _⟩ | ⟨i, _, _, _, _, he, hi⟩
  · rw [he]; exact hinv
  · rw [he]; exact hi

example : FromOk 0o4444 ∧ FromOk 0o321 ∧ FromOk 0 :=
  ⟨Or.inl rfl, Or.inr ⟨[1, 2, 3], by decide, by decide, by decide⟩,
    Or.inr ⟨[], by decide, by decide, rfl⟩⟩

/-! ## the invariant over every history -/

/-- every allowed event preserves the invariant (of the table and of the saved files) -/
theorem C16_inv_step (w : World) (e : Ev) (hg : Good w) (ha : Allowed e) : Good (step w e).1 := by
  have hrel : ∀ a rs w1, Inv (releaseAddress w.m a rs w1).1.table := by
    intro a rs w1
    rw [releaseAddress_table]
    split
    · exact hg.table
    · exact inv_releaseScan hg.table a
  cases e with
  | frame msgT fromNode reserved message w1 =>
    simp only [step]
    split
    · exact hg
    · refine ⟨?_, hg.bin, hg.json⟩
      simp only
      rw [masterUpdate_table]
      split
      · rename_i hreq
        obtain ⟨hle, hfrom⟩ := ha hreq.1 hreq.2
        exact C16_request_inv hg.table hfrom hle w1
      · split
        · exact hrel _ _ _
        · exact hg.table
  | dhcp fromNode reserved w1 =>
    obtain ⟨_, hle, hfrom⟩ := ha
    exact ⟨C16_request_inv hg.table hfrom hle w1, hg.bin, hg.json⟩
  | lookupAddr id => exact hg
  | lookupId addr => exact hg
  | releaseApi addr w1 => exact ⟨hrel _ _ _, hg.bin, hg.json⟩
  | setAddr id addr byAddr => exact ha.elim
  | save bin =>
    have hdom : ∀ e ∈ w.m.table, e.1 < 256 ∧ e.2 < 65536 := by
      intro e he
      have := leasable_lt (hg.table.leasable e.1 e.2 he)
      exact ⟨hg.table.idByte e.1 e.2 he, by omega⟩
    cases bin with
    | true =>
      refine ⟨hg.table, ?_, hg.json⟩
      intro b hb
      simp only [step, Option.some.injEq] at hb
      exact ⟨w.m.table, hg.table, by rw [saveBin_eq hdom] at hb ⊢; rw [← hb]⟩
    | false =>
      refine ⟨hg.table, hg.bin, ?_⟩
      intro p hp
      simp only [step, Option.some.injEq] at hp
      exact ⟨w.m.table, hg.table, hp⟩
  | load bin =>
    cases bin with
    | true =>
      simp only [step]
      cases hf : w.fileBin with
      | none => exact hg
      | some b =>
        obtain ⟨t0, hinv0, hsave⟩ := hg.bin b hf
        have hdom : ∀ e ∈ t0, e.1 < 256 ∧ e.2 < 65536 := by
          intro e he
          have := leasable_lt (hinv0.leasable e.1 e.2 he)
          exact ⟨hinv0.idByte e.1 e.2 he, by omega⟩
        rw [saveBin_eq hdom] at hsave
        have hb : b = encodeBin t0 := (Prod.mk.inj hsave).1.symm
        refine ⟨?_, by simpa [hf] using hg.bin, hg.json⟩
        simp only
        rw [hb, loadBin_encode _ _ (fun e he => (hdom e he).2)]
        exact inv_loadPairs hg.table
          (fun e he => ⟨hinv0.idByte e.1 e.2 he, hinv0.leasable e.1 e.2 he⟩)
    | false =>
      simp only [step]
      cases hf : w.fileJson with
      | none => exact hg
      | some p =>
        obtain ⟨t0, hinv0, hsave⟩ := hg.json p hf
        refine ⟨?_, hg.bin, by simpa [hf] using hg.json⟩
        simp only
        rw [← hsave, loadJson_saveJson]
        exact inv_loadPairs hg.table
          (fun e he => ⟨hinv0.idByte e.1 e.2 he, hinv0.leasable e.1 e.2 he⟩)
  | reboot => exact ⟨inv_nil, hg.bin, hg.json⟩

/-- **C16, invariant.**  After every history of allowed events on a freshly started master (no
    bound on its length): no two IDs share an address, an ID holds one lease, every leased address
    is a node address other than 0 and 0o4444. -/
theorem C16_inv (h : List Ev) (hall : ∀ e ∈ h, Allowed e) : Inv (run {} h).m.table := by
  suffices hs : ∀ (h : List Ev) (w : World), Good w → (∀ e ∈ h, Allowed e) → Good (run w h) from
    (hs h {} ⟨inv_nil, by simp, by simp⟩ hall).table
  intro h
  induction h with
  | nil => intro w hg _; exact hg
  | cons e es ih =>
    intro w hg hall
    exact ih _ (C16_inv_step w e hg (hall e (by simp))) (fun e' he' => hall e' (by simp [he']))

/-- the spec's words, read off the invariant: valid, never 0, never 0o4444, never shared -/
theorem C16_inv_words {t : Table} (h : Inv t) :
    (∀ i j a, (i, a) ∈ t → (j, a) ∈ t → i = j) ∧
    (∀ i a b, (i, a) ∈ t → (i, b) ∈ t → a = b) ∧
    (∀ i a, (i, a) ∈ t → ValidAddr a ∧ a ≠ 0 ∧ a ≠ 0o4444 ∧ isValid a = true) := by
  refine ⟨h.oneIdPerAddr, fun i a b ha hb => (inj_of_inv h).val_unique ha hb, fun i a hm => ?_⟩
  have hl := h.leasable i a hm
  refine ⟨leasable_valid hl, leasable_ne_zero hl, hl.1, ?_⟩
  obtain ⟨_, ds, hn, _, hv⟩ := hl
  unfold isValid
  split
  · rfl
  · rw [Nrf.Proofs.isValidGo_iff]
    exact ⟨ds, hn.1, hv, Or.inr (by simp [VALID_DIGIT_LIMIT]; exact hn.2)⟩

/-- non-vacuity: a history with direct and relayed requests, a release by frame, both save formats,
    a power cycle and loads is allowed -/
example :
    let h : List Ev := [.frame 195 0o4444 7 [] true, .frame 195 0o5 9 [] false, .save true,
      .frame 197 0o5 0 [] true, .frame 195 0o4444 8 [] true, .save false, .reboot, .load true,
      .load false, .lookupAddr 7]
    ∀ e ∈ h, Allowed e := by
  intro h e he
  simp only [h, List.mem_cons, List.not_mem_nil, or_false] at he
  rcases he with rfl | rfl | rfl | rfl | rfl | rfl | rfl | rfl | rfl | rfl
  all_goals first
    | trivial
    | exact fun _ _ => ⟨by decide, Or.inl rfl⟩
    | exact fun _ _ => ⟨by decide, Or.inr ⟨[5], by decide, by decide, by decide⟩⟩
    | exact fun h _ => absurd h (by decide)

/-- … and such a history really moves the table (evaluated by the kernel): ID 7 gets 0o5, the table
    is saved, 0o5 is released and given to ID 8, then the master restarts and loads the file -/
example :
    (run {} [.dhcp 0o4444 7 true, .save true, .releaseApi 0o5 true, .dhcp 0o4444 8 true,
             .lookupId 0o5, .reboot, .load true]).m.table = [(7, 0o5)] := by decide

/-! ## how `update()` reaches the allocator -/

/-- `RF24Mesh.update()` on the master: a request frame that carries an ID (`reserved ≠ 0`) runs
    `_dhcp()` on the table, a release frame runs `release_address(from_node)`, every other frame —
    a request with ID 0 included — leaves the table alone (whatever else it does or raises). -/
theorem C16_update_dispatch (m : Master) (msgT fromNode rs : Nat) (msg : Bytes) (w1 : Bool) :
    (masterUpdate m msgT fromNode rs msg w1).1.table =
      if msgT = MESH_ADDR_REQUEST ∧ rs ≠ 0 then (dhcp m.table fromNode rs w1).1
      else if msgT = MESH_ADDR_RELEASE then (releaseAddress m fromNode rs w1).1.table
      else m.table :=
  masterUpdate_table m msgT fromNode rs msg w1

/-- … and for a request the transmissions and the return value of `update()` are those of `_dhcp()` -/
theorem C16_update_request (m : Master) (fromNode rs : Nat) (msg : Bytes) (w1 : Bool) (hrs : rs ≠ 0) :
    masterUpdate m MESH_ADDR_REQUEST fromNode rs msg w1 =
      ({ m with table := (dhcp m.table fromNode rs w1).1 },
       { (dhcp m.table fromNode rs w1).2 with ret := MESH_ADDR_REQUEST }) :=
  masterUpdate_request m fromNode rs msg w1 hrs

example : (masterUpdate {} MESH_ADDR_REQUEST 0o4444 0 [] true).1.table = [] := by
  rw [C16_update_dispatch]; decide

/-! ## single lease, child rule, reply, full parent, release -/

/-- **C16, single lease.**  After a request by `id` the ID holds at most one lease, every other
    ID holds exactly what it held before, and if a reply was sent `id` holds a lease. -/
theorem C16_single {t : Table} (hinv : Inv t) {fromNode : Nat} (hfrom : FromOk fromNode)
    {id : Nat} (hid : id ≤ 255) (w1 : Bool) :
    (∀ a b, (id, a) ∈ (dhcp t fromNode id w1).1 → (id, b) ∈ (dhcp t fromNode id w1).1 → a = b) ∧
    (∀ j b, j ≠ id → ((j, b) ∈ (dhcp t fromNode id w1).1 ↔ (j, b) ∈ t)) ∧
    ((dhcp t fromNode id w1).2.writes ≠ [] → ∃ a, (id, a) ∈ (dhcp t fromNode id w1).1) := by
  obtain ⟨via, direct, harr⟩ := C16_arrives hfrom
  have hinv' := C16_request_inv hinv hfrom hid w1
  refine ⟨fun a b ha hb => (inj_of_inv hinv').val_unique ha hb, ?_, ?_⟩
  · intro j b hj
    rcases C16_request hinv harr hid w1 with ⟨he, _⟩ | ⟨i, _, _, _, _, he, _⟩
    · rw [he]
    · rw [he, mem_dictSet _ _ hinv.oneLeasePerId]
      constructor
      · rintro (⟨h, _⟩ | ⟨_, h⟩)
        · exact absurd h hj
        · exact h
      · exact fun h => Or.inr ⟨hj, h⟩
  · intro hw
    rcases C16_request hinv harr hid w1 with ⟨he, _⟩ | ⟨i, _, _, _, _, he, _⟩
    · rw [he] at hw; exact absurd rfl hw
    · exact ⟨child via i, by rw [he, mem_dictSet _ _ hinv.oneLeasePerId]; exact Or.inl ⟨rfl, rfl⟩⟩

/-- **C16, child rule.**  If a request that arrived below `via` is answered, the address `a` now
    held by `id` is child `i` of `via` — `via + i·8^level(via)` — with `i` in 1..4 (1..5 directly
    under the master); it is a valid logical address, a node of the tree, not 0, not 0o4444, and
    neither before nor after the request leased to another ID. -/
theorem C16_child {t : Table} (hinv : Inv t) {fromNode : Nat} {via : List Nat} {direct : Bool}
    (harr : Arrives fromNode via direct) {id : Nat} (hid : id ≤ 255) (w1 : Bool) {a : Nat}
    (hsent : (dhcp t fromNode id w1).2.writes ≠ []) (hgot : (id, a) ∈ (dhcp t fromNode id w1).1) :
    (∃ i, 1 ≤ i ∧ i ≤ (if direct then 5 else 4) ∧ a = child via i ∧
      a = val via + i * 8 ^ via.length) ∧
    ChildOf via a ∧ Leasable a ∧ ValidAddr a ∧ isValid a = true ∧ a ≠ 0 ∧ a ≠ 0o4444 ∧
    ¬ LeasedToOther t id a ∧ ¬ LeasedToOther (dhcp t fromNode id w1).1 id a := by
  have hfrom : FromOk fromNode := by
    rcases harr with ⟨_, _, h⟩ | ⟨_, hn, hl, hv⟩
    · exact Or.inl h
    · exact Or.inr ⟨via, hn, hl, hv⟩
  have hinv' := C16_request_inv hinv hfrom hid w1
  rcases C16_request hinv harr hid w1 with ⟨he, _⟩ | ⟨i, h1, h2, hnb, _, he, _⟩
  · rw [he] at hsent; exact absurd rfl hsent
  · have ha : a = child via i := by
      have : (id, child via i) ∈ (dhcp t fromNode id w1).1 := by
        rw [he, mem_dictSet _ _ hinv.oneLeasePerId]; exact Or.inl ⟨rfl, rfl⟩
      exact (inj_of_inv hinv').val_unique hgot this
    subst ha
    have hcap : capacity direct ≤ 5 := by unfold capacity; split <;> omega
    have hw := C16_inv_words hinv'
    obtain ⟨hv, h0, h4, hiv⟩ := hw.2.2 id _ hgot
    refine ⟨⟨i, h1, h2, rfl, ?_⟩, ⟨i, h1, by omega, rfl⟩, hinv'.leasable _ _ hgot, hv, hiv, h0, h4,
      fun h => hnb (Or.inr h), ?_⟩
    · unfold child; rw [val_append_single, Nat.mul_comm]
    · rintro ⟨j, hj, hm⟩
      exact hj (hinv'.oneIdPerAddr _ _ _ hm hgot)

/-- **C16, reply.**  Every transmission a request causes is the response for that request: type
    128, `reserved` = the requester's ID, addressed (header and routing argument) to where the request
    came from — the relay, routed (`TX_NORMAL`); the unassigned address, physically (`TX_PHYSICAL`),
    for a direct request — and its body is the little-endian 16-bit address the ID now holds.
    There are one or two of them (a relayed reply is repeated once when the first `_write` fails),
    and no exception. -/
theorem C16_reply {t : Table} (hinv : Inv t) {fromNode : Nat} {via : List Nat} {direct : Bool}
    (harr : Arrives fromNode via direct) {id : Nat} (hid : id ≤ 255) (w1 : Bool) :
    (dhcp t fromNode id w1).2.exc = none ∧ (dhcp t fromNode id w1).2.writes.length ≤ 2 ∧
    ∀ w ∈ (dhcp t fromNode id w1).2.writes, ∃ a, (id, a) ∈ (dhcp t fromNode id w1).1 ∧
      w.hdrType = 128 ∧ w.hdrReserved = id ∧ w.hdrTo = fromNode ∧ w.writeDirect = fromNode ∧
      w.message = [a % 256, a / 256] ∧ a < 65536 ∧
      w.sendType = (if direct then TX_PHYSICAL else TX_NORMAL) := by
  rcases C16_request hinv harr hid w1 with ⟨he, _⟩ | ⟨i, _, _, _, _, he, hi⟩
  · rw [he]; simp
  · have hst : (if fromNode ≠ NETWORK_DEFAULT_ADDR then TX_NORMAL else TX_PHYSICAL) =
        (if direct then TX_PHYSICAL else TX_NORMAL) := by
      rcases harr with ⟨hd, _, hf⟩ | ⟨hd, hn, hl, hv⟩
      · simp [hd, hf]
      · have := relay_ne_default hn hl
        rw [hv] at this
        simp [hd, this]
    have hmem : (id, child via i) ∈ dictSet t id (child via i) := by
      rw [mem_dictSet _ _ hinv.oneLeasePerId]; exact Or.inl ⟨rfl, rfl⟩
    have hlt : child via i < 65536 := by
      have := leasable_lt (hi.leasable _ _ hmem); omega
    rw [he]
    refine ⟨rfl, ?_, ?_⟩
    · simp only [repliesOf]; split <;> simp
    · intro w hw
      refine ⟨child via i, hmem, ?_⟩
      have : w = replyOf fromNode id (child via i) := by
        simp only [repliesOf] at hw
        split at hw <;> simpa using hw
      subst this
      exact ⟨rfl, rfl, rfl, rfl, rfl, hlt, hst⟩

/-- **C16, full parent.**  When every candidate below the parent is leased to another ID (or is the
    unassigned address) no lease is created, the table is unchanged and nothing is sent; and only
    then: if some candidate is free a lease is created and a reply sent. -/
theorem C16_full {t : Table} (hinv : Inv t) {fromNode : Nat} {via : List Nat} {direct : Bool}
    (harr : Arrives fromNode via direct) {id : Nat} (hid : id ≤ 255) (w1 : Bool) :
    ((∀ i, 1 ≤ i → i ≤ capacity direct → SlotBlocked t id via i) → dhcp t fromNode id w1 = (t, {})) ∧
    ((∃ i, 1 ≤ i ∧ i ≤ capacity direct ∧ ¬ SlotBlocked t id via i) →
      (dhcp t fromNode id w1).2.writes ≠ [] ∧ ∃ a, (id, a) ∈ (dhcp t fromNode id w1).1) := by
  constructor
  · intro hall
    rcases C16_request hinv harr hid w1 with ⟨he, _⟩ | ⟨i, h1, h2, hnb, _, _, _⟩
    · exact he
    · exact absurd (hall i h1 h2) hnb
  · rintro ⟨i, h1, h2, hnb⟩
    rcases C16_request hinv harr hid w1 with ⟨_, hall⟩ | ⟨k, _, _, _, _, he, _⟩
    · exact absurd (hall i h1 h2) hnb
    · rw [he]
      refine ⟨?_, child via k, ?_⟩
      · simp only [repliesOf]; split <;> simp
      · rw [mem_dictSet _ _ hinv.oneLeasePerId]; exact Or.inl ⟨rfl, rfl⟩

/-- **C16, release.**  A release of address `a` (by frame or by call, `a ≠ 0`) removes exactly the
    lease on `a`; and if `a` is candidate `i0` below a parent all of whose other candidates are
    taken, the next request below that parent is given `a` again. -/
theorem C16_release {t : Table} (hinv : Inv t) (m : Master) (hm : m.table = t) (rs : Nat) (wr : Bool)
    {a : Nat} (ha0 : a ≠ 0) :
    Inv (releaseAddress m a rs wr).1.table ∧
    (∀ j b, (j, b) ∈ (releaseAddress m a rs wr).1.table ↔ b ≠ a ∧ (j, b) ∈ t) ∧
    ∀ {fromNode : Nat} {via : List Nat} {direct : Bool}, Arrives fromNode via direct →
      ∀ {id : Nat}, id ≤ 255 → ∀ (w1 : Bool) {i0 : Nat}, 1 ≤ i0 → i0 ≤ capacity direct →
      a = child via i0 → a ≠ 0o4444 →
      (∀ j, 1 ≤ j → j ≤ capacity direct → j ≠ i0 → SlotBlocked t id via j) →
      dhcp (releaseAddress m a rs wr).1.table fromNode id w1 =
        (dictSet (releaseAddress m a rs wr).1.table id a, { writes := repliesOf fromNode id a w1 }) := by
  subst hm
  have htab : (releaseAddress m a rs wr).1.table = (releaseScan m.table a m.table).1 := by
    rw [releaseAddress_table]; simp [ha0]
  have hmem := mem_releaseScan (inj_of_inv hinv) a
  have hinv2 : Inv (releaseScan m.table a m.table).1 := inv_releaseScan hinv a
  rw [htab]
  refine ⟨hinv2, hmem, ?_⟩
  intro fromNode via direct harr id hid w1 i0 h1 h2 ha h4 hfull
  have hfree : ¬ SlotBlocked (releaseScan m.table a m.table).1 id via i0 := by
    rintro (h | ⟨j, _, hj⟩)
    · exact h4 (ha ▸ h)
    · exact ((hmem j _).mp hj).1 ha.symm
  have hothers : ∀ j, 1 ≤ j → j ≤ capacity direct → j ≠ i0 →
      SlotBlocked (releaseScan m.table a m.table).1 id via j := by
    intro j hj1 hj2 hne
    rcases hfull j hj1 hj2 hne with h | ⟨k, hk, hkm⟩
    · exact Or.inl h
    · refine Or.inr ⟨k, hk, (hmem k _).mpr ⟨?_, hkm⟩⟩
      intro hc
      exact hne (child_injective (hc.trans ha))
  rcases C16_request hinv2 harr hid w1 with ⟨_, hall⟩ | ⟨i, hi1, hi2, hnb, _, he, _⟩
  · exact absurd (hall i0 h1 h2) hfree
  · have : i = i0 := by
      by_cases h : i = i0
      · exact h
      · exact absurd (hothers i hi1 hi2 h) hnb
    subst this
    rw [he, ha]

/-! ## persistence -/

/-- **C16, persistence (binary).**  For every table with distinct IDs that are bytes and distinct
    16-bit addresses — any number of entries — `save_dhcp(as_bin=True)` writes 4 bytes per entry
    `[id, 0, addr lo, addr hi]` without raising, and `load_dhcp(as_bin=True)` of that file into an
    empty master reproduces the table, order included. -/
theorem C16_persist_bin {t : Table} (hk : (t.map Prod.fst).Nodup) (ha : (t.map Prod.snd).Nodup)
    (hdom : ∀ e ∈ t, e.1 < 256 ∧ e.2 < 65536) :
    saveBin t = (encodeBin t, none) ∧ (saveBin t).1.length = 4 * t.length ∧
    loadBin [] (saveBin t).1 = (t, none) := by
  have hs := saveBin_eq hdom
  refine ⟨hs, by rw [hs]; exact encodeBin_length t, ?_⟩
  rw [hs, loadBin_encode _ _ (fun e he => (hdom e he).2),
    loadPairs_eq [] t (by simpa using hk) (by simp), dedupLast_of_nodup ha]
  simp

/-- **C16, persistence (JSON).**  For every table with distinct IDs and distinct addresses the
    object `{str(id): address}` written by `save_dhcp()` is read back by `load_dhcp()` into an empty
    master as the same table, order included. -/
theorem C16_persist_json {t : Table} (hk : (t.map Prod.fst).Nodup) (ha : (t.map Prod.snd).Nodup) :
    loadJson [] (saveJson t) = (t, none) := by
  rw [loadJson_saveJson, loadPairs_eq [] t (by simpa using hk) (by simp), dedupLast_of_nodup ha]
  simp

/-- What happens without distinct addresses (a table only `set_address()` can build): both loaders
    use `search_by_address=True`, so of several IDs sharing an address only the last one in the file
    survives — the table that comes back is `dedupLast t`, not `t`. -/
theorem C16_persist_general {t : Table} (hk : (t.map Prod.fst).Nodup)
    (hdom : ∀ e ∈ t, e.1 < 256 ∧ e.2 < 65536) :
    loadBin [] (saveBin t).1 = (dedupLast t, none) ∧ loadJson [] (saveJson t) = (dedupLast t, none) := by
  have hs := saveBin_eq hdom
  constructor
  · rw [hs, loadBin_encode _ _ (fun e he => (hdom e he).2),
      loadPairs_eq [] t (by simpa using hk) (by simp)]
    simp
  · rw [loadJson_saveJson, loadPairs_eq [] t (by simpa using hk) (by simp)]
    simp

/-- **C16, persistence along histories.**  Every table the invariant allows — hence every table a
    history can produce (`C16_inv`) — is reproduced exactly by both formats. -/
theorem C16_persist {t : Table} (h : Inv t) :
    loadBin [] (saveBin t).1 = (t, none) ∧ (saveBin t).2 = none ∧
    loadJson [] (saveJson t) = (t, none) := by
  have hdom : ∀ e ∈ t, e.1 < 256 ∧ e.2 < 65536 := by
    intro e he
    have := leasable_lt (h.leasable e.1 e.2 he)
    exact ⟨h.idByte e.1 e.2 he, by omega⟩
  have han := addrs_nodup_of_inj (inj_of_inv h)
  have hb := C16_persist_bin h.oneLeasePerId han hdom
  exact ⟨hb.2.2, by rw [hb.1], C16_persist_json h.oneLeasePerId han⟩

example : loadBin [] (saveBin [(7, 0o5), (200, 0o4321), (0, 65535)]).1
    = ([(7, 0o5), (200, 0o4321), (0, 65535)], none) := by decide

example : loadJson [] (saveJson [(7, 0o5), (200, 0o5), (3, 0o14)]) = ([(200, 0o5), (3, 0o14)], none) := by
  decide

/-! ## `load_dhcp` into a LIVE (non-empty) table (review item "C16 load into a live table") -/

/-- **C16, load into a live table.**  What the code really does: both branches of `load_dhcp` call
    `set_address(id, addr, search_by_address=True)` for every pair of the file, in file order — the
    master's table is *not* cleared first.  For every table `t` the master holds and every table `u`
    the file was written from, both satisfying the invariant (any sizes, nothing assumed about how
    `t` and `u` are related): `save_dhcp(as_bin=True)` of `u` does not raise; loading either image of
    `u` into `t` does not raise; both formats leave the same table `r`; `r` satisfies the invariant
    (one lease per ID, one ID per address, all addresses leasable, IDs bytes); `r` contains every
    entry of `u`; and of the entries of `t` it keeps exactly those whose ID is not an ID of `u` **and**
    whose address is not an address of `u` — an old lease whose ID reappears in the file is
    overwritten, an old lease whose address reappears in the file (under whatever ID) is deleted.
    Stated on the contents (membership); for the order of `r` see `C16_load_same` (same table) and
    `C16_persist` (empty table) — for two unrelated tables no order statement is made. -/
theorem C16_load_live {t u : Table} (ht : Inv t) (hu : Inv u) :
    (saveBin u).2 = none ∧
    ∃ r, loadBin t (saveBin u).1 = (r, none) ∧ loadJson t (saveJson u) = (r, none) ∧ Inv r ∧
      (∀ j b, (j, b) ∈ u → (j, b) ∈ r) ∧
      (∀ j b, (j, b) ∈ r ↔
        (j, b) ∈ u ∨ ((j, b) ∈ t ∧ (∀ b', (j, b') ∉ u) ∧ (∀ j', (j', b) ∉ u))) := by
  have hdom : ∀ e ∈ u, e.1 < 256 ∧ e.2 < 65536 := by
    intro e he
    have := leasable_lt (hu.leasable e.1 e.2 he)
    exact ⟨hu.idByte e.1 e.2 he, by omega⟩
  have hs := saveBin_eq hdom
  have hmem := mem_loadPairs (inj_of_inv ht) u hu.oneLeasePerId (addrs_nodup_of_inj (inj_of_inv hu))
  refine ⟨by rw [hs], loadPairs t u, ?_, loadJson_saveJson t u, ?_, ?_, ?_⟩
  · rw [hs, loadBin_encode _ _ (fun e he => (hdom e he).2)]
  · exact inv_loadPairs ht (fun e he => ⟨hu.idByte e.1 e.2 he, hu.leasable e.1 e.2 he⟩)
  · exact fun j b h => (hmem j b).mpr (Or.inl h)
  · intro j b
    rw [hmem j b]
    constructor
    · rintro (h | ⟨hj, hb, h⟩)
      · exact Or.inl h
      · exact Or.inr ⟨h, fun b' hm => hj (mem_keys_of_mem hm), fun j' hm => hb (mem_addrs_of_mem hm)⟩
    · rintro (h | ⟨h, hj, hb⟩)
      · exact Or.inl h
      · refine Or.inr ⟨?_, ?_, h⟩
        · intro hm
          obtain ⟨e, he, rfl⟩ := List.mem_map.mp hm
          exact hj e.2 he
        · intro hm
          obtain ⟨e, he, rfl⟩ := List.mem_map.mp hm
          exact hb e.1 he

/-- both hypotheses of `C16_load_live` instantiated (kernel-evaluated `invB`), on tables that collide
    in every way: ID 7 is in both with different addresses, address 0o5 is in both under different
    IDs, (3, 0o14) is in both unchanged, (9, 0o15) only in `t`, (200, 0o25) only in `u` -/
example : Inv [(7, 0o5), (3, 0o14), (9, 0o15), (4, 0o24)] ∧ Inv [(7, 0o24), (2, 0o5), (3, 0o14), (200, 0o25)] :=
  ⟨(invB_iff _).mp (by decide), (invB_iff _).mp (by decide)⟩

/-- … and what the two loaders leave there: `(7, 0o5)` overwritten in place (ID in the file),
    `(4, 0o24)` deleted (address in the file), `(9, 0o15)` kept, `(3, 0o14)` deleted and re-appended -/
example :
    loadBin [(7, 0o5), (3, 0o14), (9, 0o15), (4, 0o24)]
        (saveBin [(7, 0o24), (2, 0o5), (3, 0o14), (200, 0o25)]).1
      = ([(7, 0o24), (9, 0o15), (2, 0o5), (3, 0o14), (200, 0o25)], none) ∧
    loadJson [(7, 0o5), (3, 0o14), (9, 0o15), (4, 0o24)]
        (saveJson [(7, 0o24), (2, 0o5), (3, 0o14), (200, 0o25)])
      = ([(7, 0o24), (9, 0o15), (2, 0o5), (3, 0o14), (200, 0o25)], none) := by decide

/-- **C16, save and load back into the same live master.**  If the table has not changed since it
    was saved, `load_dhcp` of either format reproduces it **exactly, order included**: every entry is
    deleted and re-appended in turn (`set_address(…, True)` finds the address under the same ID), so
    after the last pair the dictionary is in its original order.  Any table satisfying the invariant,
    no size bound. -/
theorem C16_load_same {t : Table} (h : Inv t) :
    loadBin t (saveBin t).1 = (t, none) ∧ (saveBin t).2 = none ∧
    loadJson t (saveJson t) = (t, none) := by
  have hdom : ∀ e ∈ t, e.1 < 256 ∧ e.2 < 65536 := by
    intro e he
    have := leasable_lt (h.leasable e.1 e.2 he)
    exact ⟨h.idByte e.1 e.2 he, by omega⟩
  have hs := saveBin_eq hdom
  refine ⟨?_, by rw [hs], ?_⟩
  · rw [hs, loadBin_encode _ _ (fun e he => (hdom e he).2), loadPairs_self t h.oneLeasePerId]
  · rw [loadJson_saveJson, loadPairs_self t h.oneLeasePerId]

example : Inv [(7, 0o5), (200, 0o4321), (3, 0o14)] ∧
    loadBin [(7, 0o5), (200, 0o4321), (3, 0o14)] (saveBin [(7, 0o5), (200, 0o4321), (3, 0o14)]).1
      = ([(7, 0o5), (200, 0o4321), (3, 0o14)], none) :=
  ⟨(invB_iff _).mp (by decide), by decide⟩

/-- **C16, load into a live table, along histories.**  In a world whose table satisfies the invariant
    and whose file (of the format loaded) is the image of a table `u` satisfying it — what `Good`
    guarantees after every allowed history, `C16_inv_step` — the event `load_dhcp` leaves a table with
    the invariant that contains all of `u` and exactly the non-colliding entries of the old table. -/
theorem C16_load_live_step (w : World) (bin : Bool) {u : Table} (ht : Inv w.m.table) (hu : Inv u)
    (hfile : if bin then w.fileBin = some (saveBin u).1 else w.fileJson = some (saveJson u)) :
    (step w (.load bin)).2.res.exc = none ∧ (step w (.load bin)).2.noFile = false ∧
    Inv (step w (.load bin)).1.m.table ∧
    (∀ j b, (j, b) ∈ (step w (.load bin)).1.m.table ↔
      (j, b) ∈ u ∨ ((j, b) ∈ w.m.table ∧ (∀ b', (j, b') ∉ u) ∧ (∀ j', (j', b) ∉ u))) := by
  obtain ⟨_, r, hb, hj, hinv, _, hmem⟩ := C16_load_live ht hu
  cases bin with
  | true =>
    simp only [↓reduceIte] at hfile
    simp only [step, hfile, hb]
    exact ⟨trivial, trivial, hinv, hmem⟩
  | false =>
    simp only [Bool.false_eq_true, ↓reduceIte] at hfile
    simp only [step, hfile, hj]
    exact ⟨trivial, trivial, hinv, hmem⟩

/-- the hypotheses of `C16_load_live_step` on a world a history produces: ID 7 gets 0o5, the table is
    saved (binary), 0o5 is released and given to ID 8, ID 9 gets 0o4 — then the stale file is loaded
    into the live master: ID 8 loses 0o5 to ID 7 (address collision), ID 9 keeps 0o4 -/
example :
    let w := run {} [.dhcp 0o4444 7 true, .save true, .releaseApi 0o5 true, .dhcp 0o4444 8 true,
      .dhcp 0o4444 9 true]
    Inv w.m.table ∧ Inv [(7, 0o5)] ∧ w.fileBin = some (saveBin [(7, 0o5)]).1 ∧
    w.m.table = [(8, 0o5), (9, 0o4)] ∧ (step w (.load true)).1.m.table = [(9, 0o4), (7, 0o5)] :=
  ⟨(invB_iff _).mp (by decide), (invB_iff _).mp (by decide), by decide, by decide, by decide⟩

/-! ## outside the property (observations, kept as checked facts) -/

/-- Why the repair was needed: with `search_by_address=False` (the unrepaired binary loader) a stale
    file loaded into a master that meanwhile leased 0o5 to ID 2 leaves two IDs on 0o5. -/
example : (loadBinGo (encodeBin [(1, 0o5)]) false 1 0 [(2, 0o5)]).1 = [(2, 0o5), (1, 0o5)] := by
  decide

/-- A request relayed by a *level-4* node (outside the property: the master is only polled on
    levels 0..3, so such a node is never asked) is given a five-digit address, which no node can
    use.  `_dhcp()` does not check the level of the relay. -/
example : (dhcpLoop [] 0o1111 6 0o1111 12 true 4).1 = [(6, 0o41111)] ∧ isValid 0o41111 = false := by
  constructor
  · decide
  · simp [isValid, isValidGo, NETWORK_MULTICAST_ADDR, NETWORK_MULTICAST_ADDR_LVL_2,
      NETWORK_MULTICAST_ADDR_LVL_4, VALID_DIGIT_LIMIT]

/-! ## the executable spec (the judge of the failing-input search) accepts the model -/

/-- the judge's record of the saved tables agrees with the master's files -/
structure SavedOk (s : Saved) (w : World) : Prop where
  bin : (s.bin = none ∧ w.fileBin = none) ∨
    ∃ t0, s.bin = some t0 ∧ Inv t0 ∧ w.fileBin = some (encodeBin t0)
  json : (s.json = none ∧ w.fileJson = none) ∨
    ∃ t0, s.json = some t0 ∧ Inv t0 ∧ w.fileJson = some (saveJson t0)

/-- **The judge accepts every step of the model.**  `Nrf.Spec.stepOkB` is the executable statement
    of the property that the failing-input search evaluates on what the *implementation* was seen to
    do; evaluated on what the *model* does for an allowed event, from a state satisfying the
    invariant, it says `true`. -/
theorem C16_judge_step (w : World) (e : Ev) (hg : Good w) (ha : Allowed e) (s : Saved)
    (hs : SavedOk s w) :
    (stepOkB s w.m.table (specEv e) (stepObs (step w e).1 (step w e).2)).1 = true ∧
    SavedOk (stepOkB s w.m.table (specEv e) (stepObs (step w e).1 (step w e).2)).2 (step w e).1 := by
  have hinv := hg.table
  have hinv' := (C16_inv_step w e hg ha).table
  have hinvB' := (invB_iff _).mpr hinv'
  have hrel : ∀ a rs w1, sameMapB (releaseAddress w.m a rs w1).1.table
      (if a = 0 then w.m.table else without w.m.table a) = true := by
    intro a rs w1
    rw [releaseAddress_table]
    split
    · exact sameMapB_refl _
    · exact sameMapB_releaseScan (inj_of_inv hinv) a
  have hreq : ∀ fromNode rs w1 (o : StepObs), rs ≠ 0 → rs ≤ 255 →
      o.table = (dhcp w.m.table fromNode rs w1).1 →
      o.writes = (dhcp w.m.table fromNode rs w1).2.writes.map replyObs →
      o.raised = (dhcp w.m.table fromNode rs w1).2.exc.isSome → invB o.table = true →
      (stepOkB s w.m.table (.request fromNode rs) o) = (true, s) := by
    intro fromNode rs w1 o h0 h255 ht hw hr hi
    simp only [stepOkB]
    split
    · rfl
    · rw [requestOkB_model hinv fromNode rs w1 o ht hw hr, hi]; rfl
  cases e with
  | frame msgT fromNode reserved message w1 =>
    have hfiles : (step w (.frame msgT fromNode reserved message w1)).1.fileBin = w.fileBin ∧
        (step w (.frame msgT fromNode reserved message w1)).1.fileJson = w.fileJson := by
      simp only [step]; split <;> exact ⟨rfl, rfl⟩
    have hsaved : ∀ s', s' = s → SavedOk s' (step w (.frame msgT fromNode reserved message w1)).1 := by
      rintro _ rfl
      exact ⟨by rw [hfiles.1]; exact hs.bin, by rw [hfiles.2]; exact hs.json⟩
    by_cases h195 : msgT = MESH_ADDR_REQUEST
    · by_cases h0 : reserved = 0
      · have : specEv (.frame msgT fromNode reserved message w1) = .outside := by
          simp [specEv, h195, h0]
        rw [this]
        exact ⟨rfl, hsaved _ rfl⟩
      · have hsp : specEv (.frame msgT fromNode reserved message w1) = .request fromNode reserved := by
          simp [specEv, h195, h0]
        obtain ⟨h255, hfrom⟩ := ha h195 h0
        obtain ⟨via, direct, harr⟩ := C16_arrives hfrom
        have hval := isValid_of_arrives harr
        have hstep : step w (.frame msgT fromNode reserved message w1) =
            ({ w with m := { w.m with table := (dhcp w.m.table fromNode reserved w1).1 } },
             { res := { (dhcp w.m.table fromNode reserved w1).2 with ret := MESH_ADDR_REQUEST } }) := by
          subst h195
          simp only [step, hval, Bool.not_true, Bool.false_eq_true, ↓reduceIte,
            masterUpdate_request _ _ _ _ _ h0]
        rw [hsp]
        have := hreq fromNode reserved w1
          (stepObs (step w (.frame msgT fromNode reserved message w1)).1
            (step w (.frame msgT fromNode reserved message w1)).2) h0 h255
          (by rw [hstep]; rfl) (by rw [hstep]; rfl) (by rw [hstep]; simp [stepObs]) hinvB'
        rw [this]
        exact ⟨rfl, hsaved _ rfl⟩
    · by_cases h197 : msgT = MESH_ADDR_RELEASE
      · subst h197
        have hsp : specEv (.frame MESH_ADDR_RELEASE fromNode reserved message w1) = .release fromNode := by
          simp [specEv, MESH_ADDR_RELEASE, MESH_ADDR_REQUEST]
        rw [hsp]
        refine ⟨?_, hsaved _ rfl⟩
        simp only [stepOkB, Bool.and_eq_true, Bool.not_eq_eq_eq_not, Bool.not_true]
        refine ⟨⟨?_, ?_⟩, hinvB'⟩
        · simp only [step]
          split
          · rfl
          · simp [stepObs, masterUpdate_release_exc]
        · simp only [step]
          split
          · rename_i hv
            simp only [stepObs]
            split
            · exact sameMapB_refl _
            · exact sameMapB_without_invalid hinv (by simpa using hv)
          · simp only [stepObs]
            rw [masterUpdate_table]
            simp only [show ¬ (MESH_ADDR_RELEASE = MESH_ADDR_REQUEST ∧ reserved ≠ 0) from
              fun h => absurd h.1 (by decide), ↓reduceIte]
            exact hrel _ _ _
      · have hsp : specEv (.frame msgT fromNode reserved message w1) = .readOnly := by
          simp [specEv, h195, h197]
        rw [hsp]
        refine ⟨?_, hsaved _ rfl⟩
        simp only [stepOkB, Bool.and_eq_true]
        refine ⟨?_, hinvB'⟩
        have : (step w (.frame msgT fromNode reserved message w1)).1.m.table = w.m.table := by
          simp only [step]
          split
          · rfl
          · simp only
            rw [masterUpdate_table]
            simp [h195, h197]
        simp only [stepObs, this]
        exact sameMapB_refl _
  | dhcp fromNode reserved w1 =>
    obtain ⟨h1, h255, hfrom⟩ := ha
    have h0 : reserved ≠ 0 := by omega
    have hsp : specEv (.dhcp fromNode reserved w1) = .request fromNode reserved := by
      simp [specEv, h0]
    rw [hsp]
    have := hreq fromNode reserved w1
      (stepObs (step w (.dhcp fromNode reserved w1)).1 (step w (.dhcp fromNode reserved w1)).2)
      h0 h255 rfl rfl (by simp [stepObs, step]) hinvB'
    rw [this]
    exact ⟨rfl, hs.bin, hs.json⟩
  | lookupAddr id =>
    refine ⟨?_, hs.bin, hs.json⟩
    simp only [specEv, stepOkB, step, stepObs, Option.isSome_none, Bool.or_self, Bool.not_false,
      sameMapB_refl, (invB_iff _).mpr hinv, Bool.true_and, Bool.not_not, Bool.or_eq_true,
      beq_iff_eq]
    unfold lookupAddress
    by_cases hid : id = 0
    · simp [hid]
    · by_cases hab : w.m.abandoned = true
      · simp [hab]
      · right
        simp only [hid, ↓reduceIte, hab, Bool.false_eq_true, getAddress_addr_lookup]
        generalize List.find? (fun x => x.1 == id) w.m.table = r
        cases r <;> simp
  | lookupId addr =>
    refine ⟨?_, hs.bin, hs.json⟩
    simp only [specEv, stepOkB, step, stepObs, Option.isSome_none, Bool.or_self, Bool.not_false,
      sameMapB_refl, (invB_iff _).mpr hinv, Bool.true_and, Bool.not_not, Bool.or_eq_true,
      beq_iff_eq]
    unfold lookupNodeId
    by_cases hid : addr = 0
    · simp [hid]
    · by_cases hab : w.m.abandoned = true
      · simp [hab]
      · right
        simp only [hid, ↓reduceIte, hab, Bool.false_eq_true, getAddress_id_lookup]
        generalize List.find? (fun x => x.2 == addr) w.m.table = r
        cases r <;> simp
  | releaseApi addr w1 =>
    refine ⟨?_, hs.bin, hs.json⟩
    simp only [specEv, stepOkB, step, stepObs, releaseAddress_exc, Option.isSome_none, Bool.or_self,
      Bool.not_false, Bool.true_and, Bool.and_eq_true]
    exact ⟨hrel _ _ _, hinvB'⟩
  | setAddr id addr byAddr => exact ha.elim
  | save bin =>
    have hdom : ∀ e ∈ w.m.table, e.1 < 256 ∧ e.2 < 65536 := by
      intro e he
      have := leasable_lt (hinv.leasable e.1 e.2 he)
      exact ⟨hinv.idByte e.1 e.2 he, by omega⟩
    cases bin with
    | true =>
      simp only [specEv, stepOkB, step, stepObs, saveBin_eq hdom, Option.isSome_none, Bool.or_self,
        Bool.not_false, sameMapB_refl, (invB_iff _).mpr hinv, Bool.and_self, true_and]
      exact ⟨Or.inr ⟨w.m.table, by simp [Saved.put], hinv, rfl⟩, by simpa [Saved.put] using hs.json⟩
    | false =>
      simp only [specEv, stepOkB, step, stepObs, Option.isSome_none, Bool.or_self,
        Bool.not_false, sameMapB_refl, (invB_iff _).mpr hinv, Bool.and_self, true_and]
      exact ⟨by simpa [Saved.put] using hs.bin, Or.inr ⟨w.m.table, by simp [Saved.put], hinv, rfl⟩⟩
  | load bin =>
    cases bin with
    | true =>
      rcases hs.bin with ⟨hsn, hfn⟩ | ⟨t0, hst, hinv0, hft⟩
      · simp only [specEv, stepOkB, Saved.get, ↓reduceIte, hsn, step, hfn]
        exact ⟨trivial, hs⟩
      · have hdom : ∀ e ∈ t0, e.2 < 65536 := by
          intro e he
          have := leasable_lt (hinv0.leasable e.1 e.2 he); omega
        have hstep : step w (.load true) =
            ({ w with m := { w.m with table := loadPairs w.m.table t0 } }, { res := { exc := none } }) := by
          simp only [step, hft, loadBin_encode _ _ hdom]
        have hinvB'' : invB (loadPairs w.m.table t0) = true := by
          have := hinvB'; rw [hstep] at this; exact this
        simp only [specEv, stepOkB, Saved.get, ↓reduceIte, hst, hstep, stepObs, Option.isSome_none,
          Bool.or_self, Bool.not_false, hinvB'', Bool.true_and, Bool.or_eq_true, Bool.not_eq_eq_eq_not,
          Bool.not_true]
        refine ⟨?_, ⟨Or.inr ⟨t0, hst, hinv0, hft⟩, hs.json⟩⟩
        by_cases hem : w.m.table = []
        · right
          rw [hem, loadPairs_nil_of_inj (inj_of_inv hinv0) (addrs_nodup_of_inj (inj_of_inv hinv0))]
          exact sameMapB_refl _
        · left
          cases h : w.m.table with
          | nil => exact absurd h hem
          | cons _ _ => rfl
    | false =>
      rcases hs.json with ⟨hsn, hfn⟩ | ⟨t0, hst, hinv0, hft⟩
      · simp only [specEv, stepOkB, Saved.get, Bool.false_eq_true, ↓reduceIte, hsn, step, hfn]
        exact ⟨trivial, hs⟩
      · have hstep : step w (.load false) =
            ({ w with m := { w.m with table := loadPairs w.m.table t0 } }, { res := { exc := none } }) := by
          simp only [step, hft, loadJson_saveJson]
        have hinvB'' : invB (loadPairs w.m.table t0) = true := by
          have := hinvB'; rw [hstep] at this; exact this
        simp only [specEv, stepOkB, Saved.get, Bool.false_eq_true, ↓reduceIte, hst, hstep, stepObs,
          Option.isSome_none, Bool.or_self, Bool.not_false, hinvB'', Bool.true_and, Bool.or_eq_true,
          Bool.not_eq_eq_eq_not, Bool.not_true]
        refine ⟨?_, ⟨hs.bin, Or.inr ⟨t0, hst, hinv0, hft⟩⟩⟩
        by_cases hem : w.m.table = []
        · right
          rw [hem, loadPairs_nil_of_inj (inj_of_inv hinv0) (addrs_nodup_of_inj (inj_of_inv hinv0))]
          exact sameMapB_refl _
        · left
          cases h : w.m.table with
          | nil => exact absurd h hem
          | cons _ _ => rfl
  | reboot =>
    exact ⟨rfl, hs.bin, hs.json⟩

/-- **The judge accepts every history of the model.**  `Nrf.Spec.judge` — what `./check C16` runs on
    the implementation's observed behaviour to decide whether a difference is a violation — returns
    "no violation" on the model's own behaviour, for every allowed history of any length.  So a
    VIOLATION reported by the check is a behaviour the proved model does not have. -/
theorem C16_judge (h : List Ev) (hall : ∀ e ∈ h, Allowed e) : judge (observe {} h) = none := by
  suffices hs : ∀ (h : List Ev) (w : World) (s : Saved) (i : Nat), Good w → SavedOk s w →
      (∀ e ∈ h, Allowed e) → judgeGo i s w.m.table (observe w h) = none from
    hs h {} {} 0 ⟨inv_nil, by simp, by simp⟩ ⟨Or.inl ⟨rfl, rfl⟩, Or.inl ⟨rfl, rfl⟩⟩ hall
  intro h
  induction h with
  | nil => intro w s i _ _ _; rfl
  | cons e es ih =>
    intro w s i hg hs hall
    have he := hall e (by simp)
    obtain ⟨hok, hs'⟩ := C16_judge_step w e hg he s hs
    simp only [observe, judgeGo, (invB_iff _).mpr hg.table, Bool.not_true, Bool.false_eq_true,
      ↓reduceIte, hok]
    exact ih _ _ _ (C16_inv_step w e hg he) hs' (fun e' he' => hall e' (by simp [he']))

end Nrf.Props.C16
