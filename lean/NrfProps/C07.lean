/-
C07 — after any network operation the node listens again on all its addresses (statements in progress).
-/
import NrfModel.Net.Api

namespace Nrf.Props.C07
open Nrf Nrf.Net

/-- the address of a level is a single octal digit `1` at position `level - 1` -/
theorem C07_lvl2addr_pos (l : Nat) (h : 0 < l) : lvl2addr l = 8 ^ (l - 1) := by
  unfold lvl2addr
  have : l ≠ 0 := by omega
  simp only [this, ↓reduceIte, Nat.shiftLeft_eq, Nat.one_mul]
  rw [Nat.mul_comm, Nat.pow_mul]

end Nrf.Props.C07
