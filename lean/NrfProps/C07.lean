/-
C07 — "After any network operation the node listens again on all its addresses."

Whenever update(), write(), send(), multicast(), a node_address/multicast_level assignment or any
mesh call returns - whether it succeeded, failed, timed out or forwarded traffic - the radio is
powered up in receive mode with CE high, all six pipes open on the node's own pipe addresses (pipe
0 on its level's shared address), auto-acknowledgement enabled on pipes 1-5 and disabled on pipe 0,
and dynamic payloads on.

Spec: `NrfModel/Spec/Listening.lean` (`Nrf.Spec.Listening`, on the registers of the radio model,
with the *documented* addresses of `NrfModel/Spec/Tree.lean`).
Model: `NrfModel/Net/Node.lean` (the mutual block `rfSend … nodeWrite nodeUpdate masterRelease
masterDhcp`), `NrfModel/Net/Api.lean`, over the driver model `NrfModel/Rf24.lean` and the radio /
air model (environment).

The inductive invariant (`NodeListens`, `NrfProofs/C07Listen.lean`) is `Listening` in terms of the
implementation's `_pipe_address` **plus the driver-side companion** that `listen = True` relies on:
`_pipe0_read_addr` remembers the pipe-0 address, `_open_pipes = 0x3F`, the shadows of EN_AA and
RX_ADDR_P0 equal the registers, the address shadows have five bytes (`Lst`, `NrfProofs/C07Inv.lean`).
`C07_companion` turns it into the specification for every node of the 781-address tree.

All statements are for **every** fuel, argument, world (every fault list, every other radio, every
FIFO content, every arrival script) — by simultaneous induction over the mutual block
(`NrfProofs/C07Write.lean: openAll`), never by enumeration.  They are about calls that *return*
(`.ok`): a call that raises is C15's subject.

**Open and closed system.**  The hypothesis `Quiet7 s` (`NrfProofs/C07Net.lean`) on the state a call
starts in is: the system is open (`closed = false`: the other nodes do not run inside the call;
their traffic is in the RX FIFOs / arrival scripts / fault lists, all universally quantified), **or**
it is closed (at every poll of the running node every other node that has received something runs
its `update()` to completion — or until it raises —, nested to any depth), the call runs as a node
that is on the call stack, and distinct node objects drive distinct radios.  In the closed system
the theorems are about **the node whose call returns**: the frame theorem
`NrfProofs/C07Closed.lean: runOthers_keeps` (on top of agent K's `frameAll`) shows that whatever the
other nodes do meanwhile — every fuel, every outcome, exceptions included — the caller's `Node`
record (up to its saved clock) and every configuration register of the caller's radio are left
alone.  Since the statements hold for every state, they also apply to each *nested* `update()`
of another node that returns (the state after the context switch satisfies `Quiet7` again).  What
they do not say: a node whose nested `update()` **raises** (in the model also: runs out of fuel)
inside another node's call is left as the exception left it — the exception is swallowed by the
scheduler, so no call of that node "returns"; excluding it is C15 for the closed system, which
is not proved (see `MERGE_NOTES.md`).
-/
import NrfProofs.C07Mesh
import NrfProps.C04

namespace Nrf.Props.C07
open Nrf Nrf.Net Nrf.Spec Nrf.Proofs Nrf.Props.C04

/-- the hypothesis on `address_prefix` / `address_suffix`: C04's `CfgOk` (six pairwise distinct
    suffix bytes different from the prefix byte), and they are bytes -/
def CfgBytes (cfg : AddrCfg) : Prop := CfgOk cfg ∧ cfg.pfx < 256 ∧ ∀ x ∈ cfg.sfx, x < 256

theorem C07_good_of {cfg : AddrCfg} (h : CfgBytes cfg) : GoodCfg cfg := h

/-- the radio of the node the session runs as -/
def radioOf (s : NetState) : Radio := s.w.radio s.node.rf.rid

/-! ## the invariant is the specification -/

/-- For a node of the 781-address tree (any admissible prefix/suffix, multicast allowed or not,
    multicast level 0..4): the register-level invariant implies `Listening` — PWR_UP, PRIM_RX, CE,
    EN_RXADDR = 0x3F, the documented address on each of the six pipes (what the chip matches pipes
    2..5 against included), EN_AA = 0x3E, DYNPD = 0x3F, EN_DPL. -/
theorem C07_companion (s : NetState) (h : NodeListens s) (hc : CfgBytes s.node.cfg) (ds : List Nat)
    (hn : IsNode ds) (ha : s.node.a.addr = val ds) (hl : s.node.a.netLvl ≤ 4) :
    Listening s.node (radioOf s) :=
  listening_of h (C07_good_of hc) hn ha hl

/-! ## `_begin` establishes it -/

/-- a concrete session: one node object on one radio in the state `RF24.__init__` leaves the
    registers this property is about (dynamic payloads on all pipes), open system -/
def demo : NetState :=
  { nodes := [{ rf := { pipes0 := [0xE7, 0xE7, 0xE7, 0xE7, 0xE7] } }],
    w := { radios := [{ dynpd := 0x3F, feature := 5 }], busyUntil := [0] }, closed := false }

theorem C07_demo_base : demo.cur < demo.nodes.length ∧ demo.drv.Wf ∧ Base demo.drv.d demo.drv.cfg ∧
    CfgBytes demo.node.cfg ∧ demo.closed = false := by
  refine ⟨by decide, ?_, ?_, by unfold CfgBytes; decide, rfl⟩
  · show demo.drv.d.rid < demo.drv.w.radios.length; decide
  · constructor <;> decide

/-- `_begin(a)` for **every** tree address `a = val ds`, from every session state in which the
    node's radio exists and driver object and radio have the shape `RF24.__init__` leaves (`Base`:
    DYNPD = 0x3F, EN_DPL set, EN_ACK_PAY clear, five-byte address registers and shadows, the pipe-0
    shadow equal to RX_ADDR_P0), in every world: `_begin` **returns**, the node listens on the six
    addresses of `ds` (invariant and specification), and its address attributes are those
    `_begin` derives for `ds`. -/
theorem C07_begin (s : NetState) (ds : List Nat) (hn : IsNode ds) (hcur : s.cur < s.nodes.length)
    (hw : s.drv.Wf) (hb : Base s.drv.d s.drv.cfg) (hc : CfgBytes s.node.cfg) :
    ∃ s', nexec (begin (val ds)) s = (.ok (), s') ∧ NodeListens s' ∧ Listening s'.node (radioOf s') ∧
      beginAddr (val ds) = some s'.node.a ∧ s'.node.a.addr = val ds ∧ s'.node.a.netLvl = ds.length ∧
      s'.node.cfg = s.node.cfg ∧ s'.cur = s.cur ∧ s'.closed = s.closed ∧ (Quiet7 s → Quiet7 s') := by
  have := n_begin (E := noErr)
    (Q := fun _ s' => NodeListens s' ∧ Listening s'.node (radioOf s') ∧ beginAddr (val ds) = some s'.node.a
      ∧ s'.node.a.addr = val ds ∧ s'.node.a.netLvl = ds.length
      ∧ s'.node.cfg = s.node.cfg ∧ s'.cur = s.cur ∧ s'.closed = s.closed ∧ (Quiet7 s → Quiet7 s'))
    hcur hw hb (C07_good_of hc) hn
    (by
      intro s' h1 h2 h3
      have hc' : CfgBytes s'.node.cfg := by rw [h2.cfg]; exact hc
      refine ⟨h1, C07_companion s' h1 hc' ds hn (by rw [h3]; rfl) (by rw [h3]; exact hn.2), ?_,
        by rw [h3]; rfl, by rw [h3]; rfl, h2.cfg, h2.cur, h2.closed, fun q => q.nfr0 h2⟩
      rw [h3]; exact begin_node hn)
  obtain ⟨a, s', h1, h2⟩ := (wp_no_iff _ _ _).1 this
  exact ⟨s', h1, h2⟩

/-- non-vacuity: the concrete session satisfies the hypotheses, for node `0o123` -/
example : IsNode [3, 2, 1] ∧ ∃ s', nexec (begin (val [3, 2, 1])) demo = (.ok (), s') ∧ NodeListens s' ∧
    Listening s'.node (radioOf s') := by
  obtain ⟨h1, h2, h3, h4, _⟩ := C07_demo_base
  obtain ⟨s', a, b, c, _⟩ := C07_begin demo [3, 2, 1] (by decide) h1 h2 h3 h4
  exact ⟨by decide, s', a, b, c⟩

/-- a session in which the node listens (used by the non-vacuity examples below) -/
theorem C07_demo_listens : ∃ s, NodeListens s ∧ s.closed = false ∧ CfgBytes s.node.cfg ∧
    s.node.a.addr = val [3, 2, 1] ∧ s.node.a.netLvl ≤ 4 := by
  obtain ⟨h1, h2, h3, h4, h5⟩ := C07_demo_base
  obtain ⟨s', _, b, _, _, e1, e2, e3, _, e5, _⟩ := C07_begin demo [3, 2, 1] (by decide) h1 h2 h3 h4
  refine ⟨s', b, e5.trans h5, by rw [e3]; exact h4, e1, ?_⟩
  rw [e2]; decide

/-- a concrete **closed** session: two node objects on two radios, the call runs as node 0, which is
    on the call stack -/
def demo2 : NetState :=
  { nodes := [{ rf := { rid := 0, pipes0 := [0xE7, 0xE7, 0xE7, 0xE7, 0xE7] } },
              { rf := { rid := 1, pipes0 := [0xE7, 0xE7, 0xE7, 0xE7, 0xE7] } }],
    cur := 0, active := [0],
    w := { radios := [{ dynpd := 0x3F, feature := 5 }, { dynpd := 0x3F, feature := 5 }], busyUntil := [0, 0] },
    closed := true }

theorem C07_demo2_quiet : Quiet7 demo2 ∧ demo2.closed = true := by
  refine ⟨Or.inr ⟨⟨by decide, by decide⟩, ?_⟩, rfl⟩
  intro a b ha hb hab
  have ha' : a < 2 := ha
  have hb' : b < 2 := hb
  have : (a = 0 ∧ b = 1) ∨ (a = 1 ∧ b = 0) := by omega
  rcases this with ⟨rfl, rfl⟩ | ⟨rfl, rfl⟩ <;> decide

/-- non-vacuity for the closed system: a listening node in a closed session that satisfies `Quiet7` -/
theorem C07_demo2_listens : ∃ s, NodeListens s ∧ s.closed = true ∧ Quiet7 s ∧ CfgBytes s.node.cfg := by
  have hb : Base demo2.drv.d demo2.drv.cfg := by constructor <;> decide
  have hw : demo2.drv.Wf := by show demo2.drv.d.rid < demo2.drv.w.radios.length; decide
  have hc : CfgBytes demo2.node.cfg := by unfold CfgBytes; decide
  obtain ⟨s', _, b, _, _, _, _, e3, _, e5, q⟩ := C07_begin demo2 [3, 2, 1] (by decide) (by decide) hw hb hc
  exact ⟨s', b, e5.trans C07_demo2_quiet.2, q C07_demo2_quiet.1, by rw [e3]; exact hc⟩

/-! ## every exit of `_write` re-establishes it -/

/-- **`_write(write_direct, send_type)`**, open or closed system (`Quiet7`): for EVERY fuel, every argument, every world
    (every fault list — each `send`/`resend` succeeds or fails arbitrarily —, every other radio,
    every FIFO content, every script of arrivals): if the node listens before and the call returns,
    the node listens after — whichever exit was taken (plain, after emitting a NETWORK_ACK, after
    the NETWORK_ACK wait incl. its timeout and all the traffic handled and forwarded while waiting,
    loop-back enqueue, multicast, every fragment-abort point, every `_tx_standby` retry). Address
    attributes, configuration and identity of the node are unchanged. -/
theorem C07_write_exit (f wd st : Nat) (s s' : NetState) (r : Bool) (hopen : Quiet7 s)
    (h : NodeListens s) (hret : nexec (nodeWrite f wd st) s = (.ok r, s')) :
    NodeListens s' ∧ s'.node.a = s.node.a ∧ s'.node.cfg = s.node.cfg ∧ s'.cur = s.cur := by
  obtain ⟨p0, a1, aN, ha, hl⟩ := h
  have := (openAll p0 a1 aN f).nodeWrite 0x3E wd st s s hopen ⟨hl.mid, NFr.refl s⟩
  have h' := (wp_any_iff _ _ _).1 this r s' hret
  exact ⟨⟨p0, a1, aN, addrOf_frame h'.2 ha, h'.1⟩, h'.2.a, h'.2.cfg, h'.2.cur⟩

/-- … in terms of the specification, for the nodes of the tree -/
theorem C07_write_exit_listening (f wd st : Nat) (s s' : NetState) (r : Bool) (hopen : Quiet7 s)
    (h : NodeListens s) (hc : CfgBytes s.node.cfg) (ds : List Nat) (hn : IsNode ds)
    (ha : s.node.a.addr = val ds) (hl : s.node.a.netLvl ≤ 4)
    (hret : nexec (nodeWrite f wd st) s = (.ok r, s')) : Listening s'.node (radioOf s') := by
  obtain ⟨h1, h2, h3, _⟩ := C07_write_exit f wd st s s' r hopen h hret
  exact C07_companion s' h1 (by rw [h3]; exact hc) ds hn (by rw [h2]; exact ha) (by rw [h2]; exact hl)

/-- `_write` entered in the middle of a transmission (radio in TX mode, pipe 0 on the TX address,
    EN_AA = 0x3F or 0x3E — any state in which only the `_begin` configuration `Mid` holds) still
    ends listening: the exits do not depend on how `_write` was entered. -/
theorem C07_write_exit_from_tx (f wd st : Nat) (s s' : NetState) (r : Bool) (hopen : Quiet7 s)
    (p0 a1 : Bytes) (aN : List Nat) (v : Nat) (h : s.MidS p0 a1 aN v)
    (hret : nexec (nodeWrite f wd st) s = (.ok r, s')) : s'.LstS p0 a1 aN 0x3E := by
  have := (openAll p0 a1 aN f).nodeWrite v wd st s s hopen ⟨h, NFr.refl s⟩
  exact ((wp_any_iff _ _ _).1 this r s' hret).1

example : ∃ s, NodeListens s ∧ s.closed = false := by
  obtain ⟨s, h1, h2, _⟩ := C07_demo_listens; exact ⟨s, h1, h2⟩

/-- the frame handlers and the loop of `_net_update`, the NETWORK_ACK wait: every fuel -/
theorem C07_net_update (f rv : Nat) (s s' : NetState) (r : Nat) (hopen : Quiet7 s)
    (h : NodeListens s) (hret : nexec (netUpdate f rv) s = (.ok r, s')) :
    NodeListens s' ∧ s'.node.a = s.node.a ∧ s'.node.cfg = s.node.cfg := by
  obtain ⟨p0, a1, aN, ha, hl⟩ := h
  have := (openAll p0 a1 aN f).netUpdate rv s s hopen ⟨hl, NFr.refl s⟩
  have h' := (wp_any_iff _ _ _).1 this r s' hret
  exact ⟨⟨p0, a1, aN, addrOf_frame h'.2 ha, h'.1⟩, h'.2.a, h'.2.cfg⟩

example : ∃ s, NodeListens s ∧ s.closed = false := by
  obtain ⟨s, h1, h2, _⟩ := C07_demo_listens; exact ⟨s, h1, h2⟩

/-! ## every entry point, every history -/

/-- the public entry points of the four node classes (`NrfModel/Net/Api.lean`; results dropped) and
    what the environment of an open system can do between two calls -/
inductive Call where
  | update
  | read
  | write (to ty : Int) (msg : Bytes) (direct : Nat)
  | multicast (msg : Bytes) (ty : Int) (level : Option Int)
  /-- `node_address = val ds` -/
  | setNodeAddress (ds : List Nat)
  | setMulticastLevel (lvl : Int)
  | setFragmentation (en : Bool)
  | setMulticastRelay (en : Bool)
  | meshWrite (to : Nat) (ty : Int) (msg : Bytes)
  | meshSend (toId : Nat) (ty : Int) (msg : Bytes)
  | meshRelease
  | meshRenew (timeoutMs : Nat)
  | meshLookupAddress (id : Int)
  | meshLookupNodeId (a : Option Int)
  | meshCheckConnection (attempts : Nat) (pingMaster : Bool)
  | masterRelease (address : Nat)
  /-- environment: a frame will arrive at `due` on `pipe` -/
  | envArrive (due pipe : Nat) (data : Bytes)
  /-- environment: the outcomes of the next transmission attempts -/
  | envFaults (l : List Outcome)
  /-- environment: a payload is put into the RX FIFO now -/
  | envInject (pipe : Nat) (data : Bytes)

def Call.run : Call → NetM Unit
  | .update => do let _ ← apiUpdate
  | .read => do let _ ← apiRead
  | .write to ty msg direct => do let _ ← apiNetWrite to ty msg direct
  | .multicast msg ty level => do let _ ← apiMulticast msg ty level
  | .setNodeAddress ds => apiSetNodeAddress (val ds)
  | .setMulticastLevel lvl => apiSetMulticastLevel lvl
  | .setFragmentation en => apiSetFragmentation en
  | .setMulticastRelay en => apiSetMulticastRelay en
  | .meshWrite to ty msg => do let _ ← Net.meshWrite to ty msg
  | .meshSend toId ty msg => do let _ ← Net.meshSend toId ty msg
  | .meshRelease => do let _ ← Net.meshRelease
  | .meshRenew t => do let _ ← Net.meshRenew t
  | .meshLookupAddress id => do let _ ← Net.meshLookupAddress id
  | .meshLookupNodeId a => do let _ ← Net.meshLookupNodeId a
  | .meshCheckConnection n p => do let _ ← Net.meshCheckConnection n p
  | .masterRelease a => do let _ ← masterReleaseApi a
  | .envArrive due pipe data => modNode fun n => { n with arrivals := n.arrivals ++ [(due, pipe, data)] }
  | .envFaults l => modify fun s => { s with w := { s.w with faults := l } }
  | .envInject pipe data => do
      let n ← getNode
      modify fun s => { s with w := s.w.inject n.rf.rid pipe data }

/-- what the property assumes of the arguments: `node_address` is given an address of the tree
    (the other values `is_address_valid` accepts are the three reserved multicast addresses).
    Nothing is assumed of a `multicast_level` assignment any more (multicast allowed or not, any
    integer): the clause `allowMulticast = true` this definition had went away with the repair of
    the setter, see `C07_multicast_level` below. -/
def Call.Admissible : Call → Prop
  | .setNodeAddress ds => IsNode ds
  | _ => True

theorem C07_faults_same (ds : DrvState) (l : List Outcome) (hw : ds.Wf) :
    Same false ds { ds with w := { ds.w with faults := l } } :=
  { rid := rfl, wf := hw, other := fun _ _ => rfl, len := rfl, clock := Nat.le_refl _, d := rfl, regs := rfl,
    ce := fun _ => rfl }

/-- **Every entry point** (network and mesh, node and master) and every move of the environment,
    open or closed system (`Quiet7`), every argument, every world: if the node listens before and the call returns, the
    node listens after; its configuration and identity are unchanged. -/
theorem C07_api (c : Call) (s s' : NetState) (hopen : Quiet7 s) (h : NodeListens s)
    (hc : CfgBytes s.node.cfg) (hadm : c.Admissible) (hret : nexec c.run s = (.ok (), s')) :
    NodeListens s' ∧ s'.node.cfg = s.node.cfg ∧ s'.closed = s.closed ∧ s'.cur = s.cur ∧ Quiet7 s' := by
  have hnl : NL s s := ⟨h, NFr0.refl s⟩
  have hg := C07_good_of hc
  have fin : wp anyErr c.run (fun _ s' => NL s s') s → NodeListens s' ∧ s'.node.cfg = s.node.cfg ∧
      s'.closed = s.closed ∧ s'.cur = s.cur ∧ Quiet7 s' := by
    intro hw
    have := (wp_any_iff _ _ _).1 hw () s' hret
    exact ⟨this.1, this.2.cfg, this.2.closed, this.2.cur, hopen.nfr0 this.2⟩
  apply fin
  cases c with
  | update => simp only [Call.run, wp_bind, wp_pure]; exact (nl_apiUpdate hopen hg hnl).post (fun _ _ h => h)
  | read =>
    simp only [Call.run, wp_bind, wp_pure]
    unfold apiRead
    simp only [wp_bind, wp_getNode]
    split
    · exact hnl
    · simp only [wp_bind, wp_modNode, wp_pure]; nl_node hnl
  | write to ty msg direct =>
    simp only [Call.run, wp_bind, wp_pure]; exact (nl_apiNetWrite hopen to ty msg direct hnl).post (fun _ _ h => h)
  | multicast msg ty level =>
    simp only [Call.run, wp_bind, wp_pure]; exact (nl_apiMulticast hopen msg ty level hnl).post (fun _ _ h => h)
  | setNodeAddress ds => simp only [Call.run]; exact nl_apiSetNodeAddress hg hadm hnl
  | setMulticastLevel lvl => simp only [Call.run]; exact (nl_apiSetMulticastLevel lvl hnl).post (fun _ _ h => h.1)
  | setFragmentation en => simp only [Call.run]; exact nl_apiSetFragmentation en hnl
  | setMulticastRelay en =>
    simp only [Call.run]
    unfold apiSetMulticastRelay
    rw [wp_modNode]; nl_node hnl
  | meshWrite to ty msg =>
    simp only [Call.run, wp_bind, wp_pure]; exact (nl_meshWrite hopen to ty msg hnl).post (fun _ _ h => h)
  | meshSend toId ty msg =>
    simp only [Call.run, wp_bind, wp_pure]; exact (nl_meshSend hopen toId ty msg hnl).post (fun _ _ h => h)
  | meshRelease => simp only [Call.run, wp_bind, wp_pure]; exact (nl_meshRelease hopen hg hnl).post (fun _ _ h => h)
  | meshRenew t => simp only [Call.run, wp_bind, wp_pure]; exact (nl_meshRenew hopen hg t hnl).post (fun _ _ h => h)
  | meshLookupAddress id =>
    simp only [Call.run, wp_bind, wp_pure]; exact (nl_meshLookupAddress hopen id hnl).post (fun _ _ h => h)
  | meshLookupNodeId a =>
    simp only [Call.run, wp_bind, wp_pure]; exact (nl_meshLookupNodeId hopen a hnl).post (fun _ _ h => h)
  | meshCheckConnection n p =>
    simp only [Call.run, wp_bind, wp_pure]; exact (nl_meshCheckConnection hopen n p hnl).post (fun _ _ h => h)
  | masterRelease a =>
    simp only [Call.run, wp_bind, wp_pure]; exact (nl_masterReleaseApi hopen hg a hnl).post (fun _ _ h => h)
  | envArrive due pipe data => simp only [Call.run]; rw [wp_modNode]; nl_node hnl
  | envFaults l =>
    simp only [Call.run, wp_modify]
    obtain ⟨p0, a1, aN, ha, hl⟩ := h
    exact ⟨⟨p0, a1, aN, ha, hl.world _ (C07_faults_same s.drv l hl.2.1)⟩, (NFr.world s _).to0⟩
  | envInject pipe data =>
    simp only [Call.run, wp_bind, wp_getNode, wp_modify]
    obtain ⟨p0, a1, aN, ha, hl⟩ := h
    exact ⟨⟨p0, a1, aN, ha, hl.world _ (inject_same s.drv s.node.rf.rid pipe data hl.2.1)⟩, (NFr.world s _).to0⟩

/-- non-vacuity of `C07_api` in both systems: an open session (`Quiet7` by its first alternative) and
    a closed one (second alternative) in which the node listens -/
example : (∃ s, NodeListens s ∧ Quiet7 s ∧ s.closed = false ∧ CfgBytes s.node.cfg) ∧
    (∃ s, NodeListens s ∧ Quiet7 s ∧ s.closed = true ∧ CfgBytes s.node.cfg) := by
  obtain ⟨s, h1, h2, h3, _⟩ := C07_demo_listens
  obtain ⟨s2, g1, g2, g3, g4⟩ := C07_demo2_listens
  exact ⟨⟨s, h1, Or.inl h2, h2, h3⟩, ⟨s2, g1, g3, g2, g4⟩⟩

/-- a history: calls and environment moves, one after the other, each returning -/
inductive Runs : List Call → NetState → NetState → Prop
  | nil (s : NetState) : Runs [] s s
  | cons (c : Call) (cs : List Call) (s s1 s2 : NetState) :
      nexec c.run s = (.ok (), s1) → Runs cs s1 s2 → Runs (c :: cs) s s2

/-- **Any sequence** of entry points, arrivals, fault patterns (induction over the history): the
    node listens after every one of them. -/
theorem C07_history (cs : List Call) (s s' : NetState) (hopen : Quiet7 s) (h : NodeListens s)
    (hc : CfgBytes s.node.cfg) (hadm : ∀ c ∈ cs, c.Admissible) (hr : Runs cs s s') :
    NodeListens s' ∧ s'.node.cfg = s.node.cfg := by
  induction hr with
  | nil s => exact ⟨h, rfl⟩
  | cons c cs s s1 s2 h1 _ ih =>
    obtain ⟨a, b, _, _, q⟩ := C07_api c s s1 hopen h hc (hadm c (List.mem_cons_self ..)) h1
    obtain ⟨x, y⟩ := ih q a (by rw [b]; exact hc)
      (fun c hc' => hadm c (List.mem_cons_of_mem _ hc'))
    exact ⟨x, y.trans b⟩

/-- … in terms of the specification, whenever the node is (still / again) at an address of the tree -/
theorem C07_history_listening (cs : List Call) (s s' : NetState) (hopen : Quiet7 s)
    (h : NodeListens s) (hc : CfgBytes s.node.cfg) (hadm : ∀ c ∈ cs, c.Admissible)
    (hr : Runs cs s s') (ds : List Nat) (hn : IsNode ds) (ha : s'.node.a.addr = val ds)
    (hl : s'.node.a.netLvl ≤ 4) : Listening s'.node (radioOf s') := by
  obtain ⟨h1, h2⟩ := C07_history cs s s' hopen h hc hadm hr
  exact C07_companion s' h1 (by rw [h2]; exact hc) ds hn ha hl

/-- non-vacuity: a listening node, a history that is admissible and runs (the empty one, and one
    environment move) -/
example : ∃ s s', NodeListens s ∧ s.closed = false ∧ CfgBytes s.node.cfg ∧
    Runs [Call.envFaults [Outcome.ackLost]] s s' ∧ (∀ c ∈ [Call.envFaults [Outcome.ackLost]], c.Admissible) := by
  obtain ⟨s, h1, h2, h3, _⟩ := C07_demo_listens
  exact ⟨s, _, h1, h2, h3, Runs.cons _ _ s _ _ rfl (Runs.nil _), fun c hc => by simp at hc; subst hc; trivial⟩

/-! ## `multicast_level = lvl` with `allow_multicast = False` (former finding, repaired)

History.  Until fix 6a18625 `multicast_level`'s setter re-opened pipe 0 on
`_pipe_address(_lvl_2_addr(lvl), 0)` whatever `allow_multicast` was.  Without multicasting
`_pipe_address(x, 0)` is the *own* pipe-0 address of node `x` — so the node stopped listening on
its own pipe-0 address and listened on that of the first node of level `lvl` instead (`Listening`
failed on pipe 0).  Replayed on the unrepaired code:
`net 1 0 new n network 0 9 ; n set allow_multicast F ; n set node_address 9 ; n set multicast_level 2`
left RX_ADDR_P0 = c3c33ccccc, node 0o11's own is c33c3ccccc (known finding
`C07-mclvl-no-multicast`, now under "fixed"; the line is kept in `corpus/C07/`).  On that model
this section held `C07_finding_multicast_level` (the two addresses differ: `C07_level_addr_differs`
below keeps the arithmetic), `Call.Admissible` demanded `allowMulticast = true` of the setter, and
`C07_api` / `C07_history*` inherited that hypothesis.  The repaired setter opens pipe 0 on
`_pipe_address(_lvl_2_addr(lvl) if self.allow_multicast else self._addr, 0)`; the model
(`NrfModel/Net/Api.lean: apiSetMulticastLevel`, `NrfModel/Net/Addr.lean: multicastLevelAddr`)
follows, the hypothesis is gone and the finding turns into the theorem below. -/

/-- **`multicast_level = lvl` for every `lvl`, multicast allowed or not.**  From a state in which a
    tree node listens: when the assignment returns, the node listens (invariant and
    specification), the level attribute is the clamped argument (C04's `setMulticastLevel`), the
    rest of the address attributes and the configuration are untouched — and on pipe 0 the chip
    matches: the shared address of the *new* level if the node allows multicast; **the node's own
    pipe-0 address otherwise** (the documented `physAddrSpec … 0`, which is the implementation's
    `_pipe_address(self._addr, 0)` that `_begin` had opened there — it did not move). -/
theorem C07_multicast_level (lvl : Int) (s s' : NetState) (h : NodeListens s)
    (hc : CfgBytes s.node.cfg) (ds : List Nat) (hn : IsNode ds) (ha : s.node.a.addr = val ds)
    (hret : nexec (apiSetMulticastLevel lvl) s = (.ok (), s')) :
    NodeListens s' ∧ Listening s'.node (radioOf s') ∧ s'.node.cfg = s.node.cfg ∧
    s'.node.a = { s.node.a with netLvl := setMulticastLevel lvl } ∧
    (s.node.cfg.allowMulticast = true →
      levelAddrSpec s.node.cfg.pfx s.node.cfg.sfx (setMulticastLevel lvl)
        = some ((radioOf s').rxAddr 0)) ∧
    (s.node.cfg.allowMulticast = false →
      physAddrSpec s.node.cfg.pfx s.node.cfg.sfx ds 0 = some ((radioOf s').rxAddr 0) ∧
      pipeAddress s.node.cfg (val ds) 0 = .ok ((radioOf s').rxAddr 0)) := by
  have hw := nl_apiSetMulticastLevel lvl (s0 := s) ⟨h, NFr0.refl s⟩
  obtain ⟨⟨h1, hfr⟩, h2⟩ := (wp_any_iff _ _ _).1 hw () s' hret
  have hlv : (min 4 (max lvl 0)).toNat = setMulticastLevel lvl := by
    unfold setMulticastLevel MULTICAST_LEVEL_MAX; omega
  rw [hlv] at h2
  have hcfg : s'.node.cfg = s.node.cfg := hfr.cfg
  have hc' : CfgBytes s'.node.cfg := by rw [hcfg]; exact hc
  have ha' : s'.node.a.addr = val ds := by rw [h2]; exact ha
  have hl' : s'.node.a.netLvl ≤ 4 := by
    rw [h2]; show setMulticastLevel lvl ≤ 4; unfold setMulticastLevel MULTICAST_LEVEL_MAX; omega
  have hL := C07_companion s' h1 hc' ds hn ha' hl'
  have hp0 := hL.2.2.2.2.2.1 0 (by simp)
  unfold wantAddr at hp0
  rw [hcfg, ha', digitsOf_val hn.1] at hp0
  refine ⟨h1, hL, hcfg, h2, ?_, ?_⟩
  · intro ham
    rw [ham, h2] at hp0
    simpa using hp0
  · intro ham
    rw [ham] at hp0
    have hp : physAddrSpec s.node.cfg.pfx s.node.cfg.sfx ds 0 = some ((radioOf s').rxAddr 0) := by
      simpa using hp0
    refine ⟨hp, ?_⟩
    obtain ⟨_, _, x, h3, _, _, h4⟩ := C04_level_setter_own s.node.cfg hc.1 ham ds hn lvl
    cases h3.symm.trans hp
    exact h4

/-- non-vacuity: a session in which a tree node listens (the hypotheses of `C07_multicast_level`;
    `C07_begin` produces one for either value of `allow_multicast` — it is universally quantified
    over the configuration), and an admissible configuration with multicasting off -/
example : (∃ s, NodeListens s ∧ CfgBytes s.node.cfg ∧ IsNode [3, 2, 1] ∧ s.node.a.addr = val [3, 2, 1]) ∧
    CfgBytes { allowMulticast := false } := by
  obtain ⟨s, h1, _, h3, h4, _⟩ := C07_demo_listens
  exact ⟨⟨s, h1, h3, by decide, h4⟩, by unfold CfgBytes; decide⟩

/-- the arithmetic of the former finding, kept: with multicasting off the address the unrepaired
    setter programmed for `multicast_level = 1` on node `0o2` (`_pipe_address(_lvl_2_addr(1), 0)`)
    is not node `0o2`'s pipe-0 address `_pipe_address(2, 0)` — whereas the repaired setter programs
    exactly the latter -/
theorem C07_level_addr_differs :
    lvl2addr 1 = val [1] ∧
    pipeAddress { allowMulticast := false } (val [1]) 0 ≠ pipeAddress { allowMulticast := false } (val [2]) 0 ∧
    multicastLevelAddr { allowMulticast := false } (val [2]) 1
      = pipeAddress { allowMulticast := false } (val [2]) 0 := by
  have hg : GoodCfg { allowMulticast := false } := C07_good_of (by unfold CfgBytes; decide)
  refine ⟨by decide, ?_, rfl⟩
  rw [pipeAddress_listen hg.hg (by decide) (by decide), pipeAddress_listen hg.hg (by decide) (by decide)]
  intro h
  have := Except.ok.inj h
  revert this
  decide

/-- non-vacuity: the statement is closed (no hypotheses); the configuration it is about is
    admissible -/
example : CfgBytes { allowMulticast := false } := by unfold CfgBytes; decide

end Nrf.Props.C07
