/-
C20 — rf24_lite honours the same link-level contract as RF24.

Model: `NrfModel/Rf24Lite.lean` (every member of `rf24_lite.py: class RF24`, over the same radio /
air / time environment as the full driver).  Spec: `NrfModel/Spec/Lite.lean` (documented
encodings, `load_ack()` acceptance, expected payload, the pipe-0 rule).  Lemmas: `NrfProofs/Lite*.lean`.

Vocabulary
* `lexec m s = (result, state)`: run a lite-driver computation; `s.cfg`: configuration registers of
  the object's radio (everything but FIFOs, flags, counters: `Radio.cfgOf`); `s.radio`: the whole chip.
* `s.Ok`: the radio exists, is a plus variant (the only one the lite driver supports, documented) and
  every register is inside its write mask (an invariant of the chip model).  `lite_init_spec` shows
  `__init__` establishes it.
* `s.Does m res f`: `m` returns `res`, changes `s.cfg` to `f s.cfg`, the configuration of no other
  radio, keeps `_pipe0_read_addr`, and the state stays `Ok` — in **any** world (FIFO contents, air,
  fault list, other radios arbitrary).
* `r.LiteTxInv`: the TX FIFO holds at most three entries, none of them an ACK payload (`W_ACK_PAYLOAD`
  entries are never transmitted in the TX role and would block the FIFO head).  `s.TxReady`: the
  radio exists, is powered up in the TX role, `LiteTxInv`, and nothing is pending (not in TX mode, or
  MAX_RT latched, or TX FIFO empty) — the state every `send()` / `resend()` leaves behind.
* lite driver as RECEIVER (last section): `C20_full_to_lite` — full driver `send()` → lite driver `read()`
  returns the expected payload (hypotheses of `C01_delivery` + the receiver chip shows FEATURE);
  `lite_read_head` (`NrfProofs/LiteRecv.lean`): lite `read()` returns and removes the FIFO head.
* quiet state: the radio is not in TX mode (`txMode = false`: CE low, RX role, or powered down), so
  an SPI transaction is exactly the command on the chip; FIFO-level statements are made there.
-/
import NrfProofs.LiteSend
import NrfProofs.LiteRecv
import NrfProps.C01

namespace Nrf.Props.C20
open Nrf Lite Spec.Lite

/-! ## load_ack() -/

/-- `load_ack()` accepts **exactly** buffers of 1..32 bytes for pipes 0..5 (given room in the TX
    FIFO): then it returns `True` and the payload is the new last entry of the TX FIFO, tagged for
    that pipe, RX FIFO and flags untouched, the ACK-payload feature on.  With a full TX FIFO it returns
    `False` and the TX FIFO is unchanged.  For every other argument it returns `False` and **nothing
    at all** changes — not the radio, not even the cached status (no SPI transaction takes place). -/
theorem C20_load_ack (s : LiteState) (hw : s.Wf) (hq : s.radio.txMode = false) (buf : Bytes) (pipe : Int) :
    (lexec (loadAck buf pipe) s).1 = .ok (loadAckValid buf.length pipe && !s.radio.txFull) ∧
    (if loadAckValid buf.length pipe = true then
      (lexec (loadAck buf pipe) s).2.radio.txFifo =
        (if s.radio.txFull then s.radio.txFifo
         else s.radio.txFifo ++ [{ kind := .ackFor pipe.toNat, data := buf }]) ∧
      (lexec (loadAck buf pipe) s).2.radio.rxFifo = s.radio.rxFifo ∧
      (lexec (loadAck buf pipe) s).2.radio.flags = s.radio.flags ∧
      (s.radio.plus = true → (lexec (loadAck buf pipe) s).2.radio.feature &&& 2 ≠ 0)
     else (lexec (loadAck buf pipe) s).2 = s) := by
  by_cases hv : loadAckValid buf.length pipe = true
  · have h : 0 ≤ pipe ∧ pipe ≤ 5 ∧ 0 < buf.length ∧ buf.length ≤ 32 := by
      simp only [loadAckValid, Bool.and_eq_true, decide_eq_true_eq] at hv
      omega
    cases hc : lexec (loadAck buf pipe) s with
    | mk res s' =>
      obtain ⟨rfl, _, _, a4, a5, a6, a7⟩ := lite_loadAck_valid buf pipe s hw hq h hc
      rw [if_pos hv, hv]
      exact ⟨by simp, a4, a5, a6, a7⟩
  · have h : ¬ (0 ≤ pipe ∧ pipe ≤ 5 ∧ 0 < buf.length ∧ buf.length ≤ 32) := by
      intro h; apply hv
      simp only [loadAckValid, Bool.and_eq_true, decide_eq_true_eq]
      omega
    rw [lite_loadAck_invalid buf pipe s h, if_neg hv]
    have : loadAckValid buf.length pipe = false := by simpa using hv
    rw [this]
    exact ⟨rfl, rfl⟩

/-- rejection needs no hypothesis whatsoever: any world, any radio state -/
theorem C20_load_ack_reject (s : LiteState) (buf : Bytes) (pipe : Int) (h : loadAckValid buf.length pipe = false) :
    lexec (loadAck buf pipe) s = (.ok false, s) := by
  apply lite_loadAck_invalid
  intro hh
  have : loadAckValid buf.length pipe = true := by
    simp only [loadAckValid, Bool.and_eq_true, decide_eq_true_eq]; omega
  rw [h] at this; cases this

-- non-vacuity: a fresh radio is quiet and has room; 1 byte for pipe 0 is accepted, 0 / 33 bytes are not
example : ∃ s : LiteState, s.Wf ∧ s.radio.txMode = false ∧ s.radio.txFull = false :=
  ⟨{ d := {}, w := World.fresh 1 }, by show (0 : Nat) < 1; decide, by decide, by decide⟩
example : loadAckValid 32 5 = true ∧ loadAckValid 0 0 = false ∧ loadAckValid 33 0 = false ∧
    loadAckValid 1 6 = false ∧ loadAckValid 1 (-1) = false := by decide

/-! ## configuration attributes -/

/-- **Setters.**  For every attribute of the lite driver and *every* argument: an accepted value
    (everything except a channel outside 0..125 and a PA level other than −18/−12/−6/0) changes the
    radio's configuration registers exactly as the documented encoding says (`applySetter`: the
    attribute's own bit field, clamped / floored as documented; no other bit, no other register, no
    other radio; the chip's violation log is part of the compared state, so the driver logs exactly what
    the spec `applySetter` logs — which is NOT "nothing": `address_length = 2` (and every value outside
    3..5, e.g. 9) writes SETUP_AW = 0 and the spec itself records `"SETUP_AW:illegal:0"`, i.e. the theorem
    proves the driver DOES write that illegal value as documented; likewise any `data_rate` other than 1
    and 2 selects 250 kbps); a rejected value raises `ValueError` and changes nothing at all. -/
theorem C20_config_setter (s : LiteState) (h : s.Ok) (st : Setter) :
    if setterOk st = true then s.Does (runSetter st) (.ok ()) (fun r => applySetter r st)
    else lexec (runSetter st) s = (.error .valueError, s) := by
  by_cases hok : setterOk st = true
  · rw [if_pos hok]; exact lite_runSetter_ok s h st hok
  · rw [if_neg hok]; exact lite_runSetter_bad s st (by simpa using hok)

/-- **Getters.**  Every getter returns the value in effect (the documented decoding of the register
    as it is in the radio now — the lite driver caches nothing) and changes no configuration. -/
theorem C20_config_getter (s : LiteState) (h : s.Ok) (g : Getter) :
    s.Does (runGetter g) (.ok (getterVal s.cfg g)) id :=
  lite_runGetter_does s h g

/-- **Round trip.**  `nrf.x = v; nrf.x` returns the documented meaning of `v` (clamped to 0..15 /
    250..4000 floored to a multiple of 250 / 1..32 / …), for every attribute that has a getter and
    every accepted `v`, in any world. -/
theorem C20_config_roundtrip (s : LiteState) (h : s.Ok) (st : Setter) (hok : setterOk st = true)
    (g : Getter) (v : Val) (hrb : readBack st = some (g, v)) :
    s.Does (runSetter st >>= fun _ => runGetter g) (.ok v) (fun r => applySetter r st) := by
  have h1 := lite_runSetter_ok s h st hok
  have := LiteState.Does.bind (g := fun _ => runGetter g) (res := .ok v) (h := id) h1 (fun s' o e => by
    have := lite_runGetter_does s' o g
    rw [e, lite_readBack_spec s.cfg h.regs st hok g v hrb] at this
    exact this)
  exact this

/-- a session of assignments: an exception ends the call, not the session -/
def runSetters : List Setter → LiteState → LiteState
  | [], s => s
  | st :: rest, s => runSetters rest (lexec (runSetter st) s).2

/-- **Histories** of the 11 attribute setters ONLY (`Setter`; no `open_rx_pipe` / `open_tx_pipe` /
    `listen` / `load_ack` / `write` in these histories — pipes have their own history theorem
    `C20_pipe_invariant`, the rest none), comparing the configuration part `cfgOf` only.  After *any*
    sequence of assignments (any length, any arguments, accepted or rejected) the configuration registers are exactly the documented encoding of the values last set
    (`applySetters` folds the documented effect over the sequence, skipping rejected calls), every
    other radio's configuration is untouched, and the state is `Ok` again (so the statement chains
    with every other theorem of this file). -/
theorem C20_config_history (sts : List Setter) (s : LiteState) (h : s.Ok) :
    (runSetters sts s).Ok ∧ (runSetters sts s).cfg = applySetters s.cfg sts ∧
    (runSetters sts s).d.rid = s.d.rid ∧
    (∀ j, j ≠ s.d.rid → (runSetters sts s).cfgAt j = s.cfgAt j) ∧
    (runSetters sts s).d.pipe0ReadAddr = s.d.pipe0ReadAddr := by
  induction sts generalizing s with
  | nil => exact ⟨h, rfl, rfl, fun _ _ => rfl, rfl⟩
  | cons st rest ih =>
    unfold runSetters applySetters
    by_cases hok : setterOk st = true
    · obtain ⟨s', e, c, p, o⟩ := lite_runSetter_ok s h st hok
      rw [e, if_pos hok]
      obtain ⟨i1, i2, i3, i4, i5⟩ := ih s' o
      refine ⟨i1, by rw [i2, c.cfg], i3.trans c.rid, fun j hj => ?_, i5.trans p⟩
      rw [i4 j (by rw [c.rid]; exact hj), c.others j hj]
    · rw [lite_runSetter_bad s st (by simpa using hok), if_neg hok]
      exact ih s h

-- non-vacuity: a fresh plus radio is `Ok`; `arc = 99` is accepted and reads back as 15
example : ({ d := {}, w := World.fresh 1 } : LiteState).Ok := LiteState.ok_fresh 1 0 (by decide)
example : setterOk (.arc 99) = true ∧ readBack (.arc 99) = some (.arc, .n 15) := by decide
example : setterOk (.channel 126) = false ∧ setterOk (.paLevel (-5)) = false := by decide

/-! ## C08's pipe-0 rule -/

/-- one call of the alphabet, with the ghost `user0` (the address the user last opened pipe 0 with)
    updated as the spec says; an exception ends the call, not the session -/
def pipeStep (st : LiteState × Option Bytes) (op : PipeOp) : LiteState × Option Bytes :=
  ((lexec (runPipeOp op) st.1).2, userStep st.2 op (Except.liteOkB (lexec (runPipeOp op) st.1).1))

def runPipeOps (ops : List PipeOp) (st : LiteState × Option Bytes) : LiteState × Option Bytes :=
  ops.foldl pipeStep st

theorem C20_pipe_invariant (ops : List PipeOp) (st : LiteState × Option Bytes) (h : st.1.P0Inv st.2) :
    (runPipeOps ops st).1.P0Inv (runPipeOps ops st).2 := by
  induction ops generalizing st with
  | nil => exact h
  | cons op rest ih =>
    show (runPipeOps rest (pipeStep st op)).1.P0Inv _
    exact ih _ (lite_pipeOp_step st.1 st.2 h op rfl).1

/-- **Whenever the radio enters RX mode** — after *every* sequence of `open_rx_pipe`,
    `close_rx_pipe`, `open_tx_pipe` and `listen =` calls (any length, any pipes incl. invalid ones, any
    addresses of any length) that ends with `listen = True` — pipe 0 listens on the address the user
    last opened it with (the register holds it as far as 5 bytes can: a shorter address is a
    prefix), or is closed if the user never opened it or has closed it; the radio is in the RX role,
    powered up, CE high.  The TX address written by `open_tx_pipe` never survives into RX mode. -/
theorem C20_listen_restore (ops : List PipeOp) (s : LiteState) (u : Option Bytes) (h : s.P0Inv u) :
    (runPipeOps (ops ++ [.listen true]) (s, u)).1.P0Inv (runPipeOps (ops ++ [.listen true]) (s, u)).2 ∧
    rxEntry (runPipeOps (ops ++ [.listen true]) (s, u)).2 (runPipeOps (ops ++ [.listen true]) (s, u)).1.cfg = true := by
  have hfold : runPipeOps (ops ++ [.listen true]) (s, u) = pipeStep (runPipeOps ops (s, u)) (.listen true) := by
    unfold runPipeOps; rw [List.foldl_append]; rfl
  rw [hfold]
  have hi := C20_pipe_invariant ops (s, u) h
  obtain ⟨a, b⟩ := lite_pipeOp_step _ _ hi (.listen true) rfl
  exact ⟨a, (b rfl).2⟩

/-- the invariant the rule rests on holds from `__init__` on: on a fresh plus radio the constructor
    returns normally with `_pipe0_read_addr = None`, so the theorem above applies to every session -/
theorem C20_listen_restore_init (n rid : Nat) (hr : rid < n) :
    ∃ s', lexec init { d := { rid := rid }, w := World.fresh n true } = (.ok (), s') ∧ s'.P0Inv none := by
  obtain ⟨s', e, _, _, _, inv⟩ := lite_init_spec _ (LiteState.ok_fresh n rid hr)
  exact ⟨s', e, inv⟩

-- non-vacuity: the witness of D21 (open, close, TX, RX) ends with pipe 0 closed; open + RX has it open on A
example : userStep (userStep none (.openRx 0 [1, 2, 3, 4, 5]) true) (.closeRx 0) true = none := by decide
example : (rxEntry (some [1, 2, 3, 4, 5])
    { config := 0x0F, ce := true, enRxAddr := 1, rxAddr0 := [1, 2, 3, 4, 5] }) = true := by decide

/-! ## what write() puts into the TX FIFO -/

/-- About `write(buf, ask_no_ack, write_only=True)` (4th argument of `Lite.write` is `writeOnly := true`):
    the payload is queued, NOTHING goes on the air; `send()` uses `write_only=False`.  TX side only.
    The last clause ("the caller's buffer comes back as it went in") is a MODEL TAUTOLOGY as in
    `C01_buffer_unchanged`: the model ignores `mutableBuf` and returns its argument; that clause is
    decided by the correspondence run, which compares the real object.
    **Dynamic payloads** (EN_DPL set in the radio), CE low as inside `send()`: a payload of 1..32
    bytes is written unchanged, as one new entry at the end of the TX FIFO (W_TX_PAYLOAD, or
    W_TX_PAYLOAD_NOACK for `ask_no_ack`), the flags are cleared, the RX FIFO is untouched and the
    call returns `True`; 0 or more than 32 bytes raise `ValueError` and the radio is exactly as before
    (only a register read took place).  The caller's buffer comes back as it went in. -/
theorem C20_write_dynamic (s : LiteState) (hw : s.Wf) (hce : s.radio.ce = false) (hpno : s.radio.rxPNo ≤ 7)
    (hroom : s.radio.txFull = false) (hdyn : (s.radio.readReg 0x1D).headD 0 &&& 4 = 4)
    (buf : Bytes) (m noack : Bool) :
    if dynLenOk buf.length = true then
      (lexec (write buf m noack true) s).1 = .ok (true, buf) ∧
      (lexec (write buf m noack true) s).2.radio.txFifo =
        s.radio.txFifo ++ [{ kind := if noack then .payloadNoAck else .payload, data := buf }] ∧
      (lexec (write buf m noack true) s).2.radio.rxFifo = s.radio.rxFifo ∧
      (lexec (write buf m noack true) s).2.radio.flags = 0
    else
      (lexec (write buf m noack true) s).1 = .error .valueError ∧
      (lexec (write buf m noack true) s).2.radio = s.radio := by
  cases hc : lexec (write buf m noack true) s with
  | mk res s' =>
    have sp := lite_write_spec s hw hce buf m noack hc
    simp only [hdyn, decide_true, true_and] at sp
    obtain ⟨_, _, a3, a4⟩ := sp
    by_cases hl : dynLenOk buf.length = true
    · rw [if_pos hl]
      rw [if_neg (by simp [hl]), if_neg (by simp [hroom])] at a4
      obtain ⟨⟨x, b1, bx⟩, b5⟩ := a4
      have hx := bx hpno; subst hx
      have b2 : s'.radio.flags = 0 := by rw [b5]
      have b4 : s'.radio.txFifo =
          (if (expectedPayload true ((s.radio.readReg 17).headD 0) buf).isEmpty then s.radio.txFifo
           else s.radio.txFifo ++ [{ kind := if noack then .payloadNoAck else .payload,
                                     data := (expectedPayload true ((s.radio.readReg 17).headD 0) buf).take 32 }]) := by
        rw [b5]
      have hlen : 1 ≤ buf.length ∧ buf.length ≤ 32 := by
        simpa [dynLenOk] using hl
      have hne : (expectedPayload true ((s.radio.readReg 17).headD 0) buf).isEmpty = false := by
        show buf.isEmpty = false
        cases buf with
        | nil => simp at hlen
        | cons x xs => rfl
      rw [hne] at b4
      simp only [Bool.false_eq_true, ↓reduceIte] at b4
      refine ⟨b1, ?_, a3, b2⟩
      rw [b4]
      have : expectedPayload true ((s.radio.readReg 17).headD 0) buf = buf := rfl
      rw [this, List.take_of_length_le hlen.2]
    · rw [if_neg hl]
      rw [if_pos (by simpa using hl)] at a4
      exact a4

/-- About `write(…, write_only=True)` as `C20_write_dynamic` (nothing on the air; TX side only; the
    buffer clause is a model tautology, decided by the correspondence run).
    **Static payload length** (EN_DPL clear; RX_PW_P0 = `pl` in 1..32, what the lite
    `payload_length` setter guarantees), CE low: **every** buffer — empty, short, exact, longer than
    32 bytes — is accepted and goes into the TX FIFO zero-padded or truncated to exactly `pl` bytes
    (the expected payload of C01); the caller's buffer comes back as it went in. -/
theorem C20_write_static (s : LiteState) (hw : s.Wf) (hce : s.radio.ce = false) (hpno : s.radio.rxPNo ≤ 7)
    (hroom : s.radio.txFull = false) (hst : ¬ ((s.radio.readReg 0x1D).headD 0 &&& 4 = 4))
    (pl : Nat) (hpl : (s.radio.readReg 0x11).headD 0 = pl) (hrange : 1 ≤ pl ∧ pl ≤ 32)
    (buf : Bytes) (m noack : Bool) :
    (lexec (write buf m noack true) s).1 = .ok (true, buf) ∧
    (lexec (write buf m noack true) s).2.radio.txFifo =
      s.radio.txFifo ++ [{ kind := if noack then .payloadNoAck else .payload,
                           data := expectedPayload false pl buf }] ∧
    (expectedPayload false pl buf).length = pl ∧
    (lexec (write buf m noack true) s).2.radio.rxFifo = s.radio.rxFifo ∧
    (lexec (write buf m noack true) s).2.radio.flags = 0 := by
  cases hc : lexec (write buf m noack true) s with
  | mk res s' =>
    have sp := lite_write_spec s hw hce buf m noack hc
    simp only [hst, decide_false, Bool.false_eq_true, false_and, ↓reduceIte, hpl] at sp
    obtain ⟨_, _, a3, a4⟩ := sp
    rw [if_neg (by simp [hroom])] at a4
    obtain ⟨⟨x, b1, bx⟩, b5⟩ := a4
    have hx := bx hpno; subst hx
    have b2 : s'.radio.flags = 0 := by rw [b5]
    have b4 : s'.radio.txFifo =
        (if (expectedPayload false pl buf).isEmpty then s.radio.txFifo
         else s.radio.txFifo ++ [{ kind := if noack then .payloadNoAck else .payload,
                                   data := (expectedPayload false pl buf).take 32 }]) := by
      rw [b5]
    have hlen : (expectedPayload false pl buf).length = pl := by
      rw [← lite_staticPayload_eq]; exact lite_staticPayload_length buf pl
    have hne : (expectedPayload false pl buf).isEmpty = false := by
      cases hh : expectedPayload false pl buf with
      | nil => rw [hh] at hlen; simp at hlen; omega
      | cons x xs => rfl
    rw [hne] at b4
    simp only [Bool.false_eq_true, ↓reduceIte] at b4
    refine ⟨b1, ?_, hlen, a3, b2⟩
    rw [b4, List.take_of_length_le (by omega)]

-- non-vacuity: after `__init__` (dynamic payloads on) a 3-byte payload goes in unchanged
example : ∃ s : LiteState, s.Wf ∧ s.radio.ce = false ∧ s.radio.rxPNo ≤ 7 ∧ s.radio.txFull = false ∧
    (s.radio.readReg 0x1D).headD 0 &&& 4 = 4 ∧ (s.radio.readReg 0x11).headD 0 = 32 :=
  ⟨{ d := {}, w := { radios := [{ feature := 5, rxPw := [32, 32, 32, 32, 32, 32] }], busyUntil := [0] } },
    by show (0 : Nat) < 1; decide, by decide, by decide, by decide, by decide, by decide⟩
example : expectedPayload false 5 [9, 9] = [9, 9, 0, 0, 0] ∧ expectedPayload false 2 [1, 2, 3] = [1, 2] ∧
    expectedPayload false 1 [] = [0] := by decide

/-! ## interoperability with the full driver -/

/-- SCOPE: `write(buf, ask_no_ack, write_only=True)` of both drivers on an IDENTICAL chip state `r`
    (hypotheses `hrL`, `hrF`): TX side only, nothing goes on the air, and "equal configuration" means
    "both objects sit on the same register contents" — nothing here says that the lite and the full
    SETTERS produce compatible configurations (lite as RECEIVER: `C20_full_to_lite`, last section).
    **Equal configuration ⇒ equal radio.**  Take the same chip `r` (CE low as at the start of `send()`,
    powered up in the TX role — C02's precondition) driven once by a lite object and once by a full
    `RF24` object whose cached view of the payload-length mode agrees with the registers (C03's
    invariant for the full driver: `_dyn_pl & 1` ⇔ EN_DPL, `_pl_len[0]` = RX_PW_P0 — the documented
    reduction "dynamic payloads and payload length are global").  Then for **every** buffer (any
    length, any content), both buffer kinds and `ask_no_ack` on or off, `write()` of the two drivers
    returns the same result (`True`, `False` on a full FIFO, or `ValueError`) and leaves **the same
    radio** behind: same TX FIFO entry (kind and bytes), same flags, same registers. -/
theorem C20_interop (sL : LiteState) (sF : DrvState) (r : Radio)
    (hL : sL.Wf) (hF : sF.Wf) (hrL : sL.radio = r) (hrF : sF.ownRadio = r)
    (hce : r.ce = false) (hpno : r.rxPNo ≤ 7) (htx : r.config &&& 3 = 2)
    (hdyn : sF.d.dynPl &&& 1 ≠ 0 ↔ (r.readReg 0x1D).headD 0 &&& 4 = 4)
    (hpl : sF.d.plLen.getD 0 0 = (r.readReg 0x11).headD 0)
    (buf : Bytes) (m noack : Bool) :
    (lexec (Lite.write buf m noack true) sL).1 = (exec (Rf24.write buf m noack true) sF).1 ∧
    (lexec (Lite.write buf m noack true) sL).2.radio = (exec (Rf24.write buf m noack true) sF).2.ownRadio := by
  cases hcL : lexec (Lite.write buf m noack true) sL with
  | mk resL sL' =>
    cases hcF : exec (Rf24.write buf m noack true) sF with
    | mk resF sF' =>
      have spL := lite_write_spec sL hL (by rw [hrL]; exact hce) buf m noack hcL
      have spF := Rf24.lite_write_spec sF hF (by rw [hrF]; exact hce) buf m noack hcF
      rw [hrL] at spL
      rw [hrF] at spF
      have hd : decide (sF.d.dynPl &&& 1 ≠ 0) = decide ((r.readReg 0x1D).headD 0 &&& 4 = 4) := by
        by_cases h : (r.readReg 0x1D).headD 0 &&& 4 = 4
        · rw [decide_eq_true h, decide_eq_true (hdyn.mpr h)]
        · have : ¬ (sF.d.dynPl &&& 1 ≠ 0) := fun hh => h (hdyn.mp hh)
          rw [decide_eq_false h, decide_eq_false this]
      dsimp only at spL spF
      simp only [hd, hpl] at spF
      have hcfg : ¬ (r.config &&& 3 ≠ 2) := by simp [htx]
      simp only [hcfg, ↓reduceIte] at spL
      obtain ⟨_, _, _, spL⟩ := spL
      show resL = resF ∧ sL'.radio = sF'.ownRadio
      split at spL
      · rename_i hc1
        rw [if_pos hc1] at spF
        exact ⟨spL.1.trans spF.1.symm, spL.2.trans spF.2.symm⟩
      · rename_i hc1
        rw [if_neg hc1] at spF
        split at spL
        · rename_i hc2
          rw [if_pos hc2] at spF
          exact ⟨spL.1.trans spF.1.symm, spL.2.trans spF.2.symm⟩
        · rename_i hc2
          rw [if_neg hc2] at spF
          obtain ⟨⟨x, e1, ex⟩, e2⟩ := spL
          rw [ex hpno] at e1
          exact ⟨e1.trans spF.1.symm, e2.trans spF.2.symm⟩

/-- CONGRUENCE COROLLARY, not a delivery theorem: the proof is `rw [h]; exact ⟨rfl, rfl, rfl⟩` with
    `h : radioL = radioF` from `C20_interop`; `e : TxEntry` and `rx` are arbitrary (not tied to the FIFO
    head or to any configured receiver).  "Delivery holds in all four pairings" below is PROSE; the
    pairing full→lite is now a theorem (`C20_full_to_lite`: lite `read()` as receiver, receiver registers
    assumed `Compatible`); lite→lite and the lite accessors `any` / `available` / `pipe` and RX
    configuration via lite `open_rx_pipe` / `listen` composed with delivery remain tie-only.
    Hence the packet that goes on the air when CE is raised (`Radio.packetFor` of the TX FIFO head:
    channel, rate, CRC, address, PID, NO_ACK flag, payload) is the same for both drivers, and so is
    what **any** receiving radio — whichever driver configured it — makes of it (`Radio.receive`:
    pipe attribution, acceptance, acknowledgement, ACK payload).  Delivery therefore holds in all four
    pairings lite/full × lite/full as soon as it holds in one. -/
theorem C20_interop_delivery (sL : LiteState) (sF : DrvState) (r : Radio)
    (hL : sL.Wf) (hF : sF.Wf) (hrL : sL.radio = r) (hrF : sF.ownRadio = r)
    (hce : r.ce = false) (hpno : r.rxPNo ≤ 7) (htx : r.config &&& 3 = 2)
    (hdyn : sF.d.dynPl &&& 1 ≠ 0 ↔ (r.readReg 0x1D).headD 0 &&& 4 = 4)
    (hpl : sF.d.plLen.getD 0 0 = (r.readReg 0x11).headD 0)
    (buf : Bytes) (m noack : Bool) (e : TxEntry) (rx : Radio) :
    (lexec (Lite.write buf m noack true) sL).2.radio.txFifo = (exec (Rf24.write buf m noack true) sF).2.ownRadio.txFifo ∧
    ({ (lexec (Lite.write buf m noack true) sL).2.radio with ce := true } : Radio).packetFor e =
      ({ (exec (Rf24.write buf m noack true) sF).2.ownRadio with ce := true } : Radio).packetFor e ∧
    rx.receive (({ (lexec (Lite.write buf m noack true) sL).2.radio with ce := true } : Radio).packetFor e) =
      rx.receive (({ (exec (Rf24.write buf m noack true) sF).2.ownRadio with ce := true } : Radio).packetFor e) := by
  have h := (C20_interop sL sF r hL hF hrL hrF hce hpno htx hdyn hpl buf m noack).2
  rw [h]
  exact ⟨rfl, rfl, rfl⟩

-- non-vacuity: a lite and a full object on identical radios, caches in agreement
example : ∃ (sL : LiteState) (sF : DrvState) (r : Radio), sL.Wf ∧ sF.Wf ∧ sL.radio = r ∧ sF.ownRadio = r ∧
    r.ce = false ∧ r.rxPNo ≤ 7 ∧ r.config &&& 3 = 2 ∧
    (sF.d.dynPl &&& 1 ≠ 0 ↔ (r.readReg 0x1D).headD 0 &&& 4 = 4) ∧ sF.d.plLen.getD 0 0 = (r.readReg 0x11).headD 0 :=
  ⟨{ d := {}, w := { radios := [{ config := 0x0E, feature := 5, dynpd := 0x3F, rxPw := [32, 32, 32, 32, 32, 32] }], busyUntil := [0] } },
   { d := {}, w := { radios := [{ config := 0x0E, feature := 5, dynpd := 0x3F, rxPw := [32, 32, 32, 32, 32, 32] }], busyUntil := [0] } },
   { config := 0x0E, feature := 5, dynpd := 0x3F, rxPw := [32, 32, 32, 32, 32, 32] },
   by show (0 : Nat) < 1; decide, by show (0 : Nat) < 1; decide, rfl, rfl, rfl, by decide, by decide, by decide, by decide⟩

/-! ## send() / resend() always return -/

/-- **`send()` terminates.**  From *any* radio role (listening, powered down: `write()` powers up and
    forces the TX role itself), with room in the TX FIFO, no ACK payload queued in it and — with a
    static payload length — RX_PW_P0 ≠ 0 (the lite setter keeps it in 1..32), `send()` returns: a
    result, or `ValueError` for an illegal dynamic payload.  The polling loops never run out of fuel
    (`.error .diverge` is not among the outcomes), **for every fault pattern** (the world's `faults`
    list is arbitrary: packets lost, ACKs lost, delivered, in any order and number), every other radio
    in the world (listening or not, FIFO full or not), every payload, `ask_no_ack`, `send_only` and
    every `force_retry ≥ 0` (unbounded).  At most two status polls are needed after the payload is
    written (virtual time with jump semantics), one after each forced `resend()`; the state left
    behind is ready for the next `send()` / `resend()`. -/
theorem C20_send_terminates (s : LiteState) (hw : s.Wf) (hinv : s.radio.LiteTxInv) (hroom : s.radio.txFifo.length < 3)
    (hpl : (s.radio.readReg 0x1D).headD 0 &&& 4 = 4 ∨ (s.radio.readReg 0x11).headD 0 ≠ 0)
    (buf : Bytes) (m noack : Bool) (fr : Int) (hfr : 0 ≤ fr) (so : Bool) :
    (∃ res s', lexec (send buf m noack fr so) s = (.ok res, s') ∧ s'.TxReady) ∨
    (∃ s', lexec (send buf m noack fr so) s = (.error .valueError, s')) :=
  lite_send_returns s hw hinv hroom hpl buf m noack fr hfr so

/-- **`resend()` terminates** from every ready state (in particular after any `send()` /
    `resend()`), for every fault pattern: with an empty TX FIFO it returns `False` at once, otherwise
    CE is pulsed, TX_DS or MAX_RT gets latched whatever the air does, and the first status refresh
    ends the loop.  The state is ready again. -/
theorem C20_resend_terminates (s : LiteState) (h : s.TxReady) (so : Bool) :
    ∃ res s', lexec (resend so) s = (.ok res, s') ∧ s'.TxReady :=
  lite_resend_ready s h so

/-- the precondition "TX FIFO not full" is not an artefact: with three payloads queued by
    `write(write_only=True)` the cached status still says "not full", `write()` returns `False`, no
    flag is ever set and the model — like the code — polls forever (an observation outside C02's
    histories, which consist of `send()` / `resend()` calls only) -/
example : ∃ s : LiteState, s.Wf ∧ s.radio.LiteTxInv ∧ s.radio.txFifo.length < 3 ∧
    ((s.radio.readReg 0x1D).headD 0 &&& 4 = 4 ∨ (s.radio.readReg 0x11).headD 0 ≠ 0) :=
  ⟨{ d := {}, w := { radios := [{ feature := 5, rxPw := [32, 32, 32, 32, 32, 32] }], busyUntil := [0] } },
    by show (0 : Nat) < 1; decide, ⟨fun e he => (by cases he), (by decide)⟩, by decide, Or.inl (by decide)⟩

/-! ## observations (kernel-evaluated sessions of the model; each replayed on the real code)

Not violations of C20's text, but behaviour a user of the lite driver meets; see MERGE_NOTES. -/

/-- O1 — on a fresh object `open_tx_pipe()` leaves pipe 0 closed (EN_RXADDR = 0): no ACK can be heard
    until `listen = False` has been assigned once (which opens pipe 0).  The full driver opens it in
    `open_tx_pipe()` since c710391; C20's text only takes over C08's RX-entry rule. -/
example : (lexec (do init; openTxPipe [1, 2, 3, 4, 5]) { d := {}, w := World.fresh 1 }).2.cfg.enRxAddr = 0 ∧
    (lexec (do init; setListen false; openTxPipe [1, 2, 3, 4, 5]) { d := {}, w := World.fresh 1 }).2.cfg.enRxAddr = 1 := by
  decide +kernel

/-- O2 — `data_rate = 3` (any value other than 1 and 2) silently selects 250 kbps -/
example : (lexec (do init; setDataRate 3) { d := {}, w := World.fresh 1 }).2.cfg.rate = 2 := by decide +kernel

/-- O3 — the preconditions of `C20_send_terminates` are necessary: with the TX FIFO pre-filled by three
    `write(write_only=True)` calls, or with an ACK payload at its head (loaded while listening, then
    `send()` without `listen = False`), `send()` polls forever — in the model (fuel exhausted) and in the
    code (the harness' watchdog fires) alike -/
example : (match (lexec (do
      init
      let _ ← write [1] false false true
      let _ ← write [2] false false true
      let _ ← write [3] false false true
      send [4] false) { d := {}, w := World.fresh 1 }).1 with
    | .error .diverge => true
    | _ => false) = true ∧
  (match (lexec (do
      init
      setListen true
      let _ ← loadAck [9] 0
      send [4] false) { d := {}, w := World.fresh 1 }).1 with
    | .error .diverge => true
    | _ => false) = true := by decide +kernel

end Nrf.Props.C20

/-! ## the lite driver as RECEIVER: full driver `send()` → lite driver `read()` (review item) -/

namespace Nrf.Props.C20
open Nrf Spec.Link

/-- the receiver side after the full driver's `send()`, as the lite object finds it: its radio exists,
    listens, holds exactly the expected payload on pipe `p`, and satisfies the side condition of the
    lite `any()` (helper for the two theorems below; same hypotheses) -/
theorem C20_full_to_lite_state (s : DrvState) (buf : Bytes) (m askNoAck : Bool) (n : Nat) (sendOnly : Bool) (j p : Nat)
    (dyn : Bool) (h : SendPre s buf sendOnly) (henv : AckEnv s.rad (s.sendPacket askNoAck buf) s)
    (hc : Compatible s j p dyn) (hempty : (s.w.radio j).rxFifo = [])
    (hnd : (s.w.radio j).isDup (s.sendPacket askNoAck buf) = false)
    (hvis : (s.w.radio j).featureVisible = true) (dL : Lite) (hdL : dL.rid = j) :
    let sL : LiteState := { d := dL, w := (exec (Rf24.send buf m askNoAck (n : Int) sendOnly) s).2.w }
    sL.Wf ∧ sL.radio.primRx = true ∧ sL.radio.RxWf ∧
    sL.radio.rxFifo = [⟨p, expectedPayload dyn (s.d.plLen.getD 0 0) buf⟩] ∧
    ((sL.radio.readReg 0x1D).headD 0 &&& 4 = 0 →
      sL.radio.rxPw.getD p 0 = (expectedPayload dyn (s.d.plLen.getD 0 0) buf).length) := by
  intro sL0
  have key : ∀ w', w' = (exec (Rf24.send buf m askNoAck (n : Int) sendOnly) s).2.w →
      ({ d := dL, w := w' } : LiteState).Wf ∧ ({ d := dL, w := w' } : LiteState).radio.primRx = true ∧
      ({ d := dL, w := w' } : LiteState).radio.RxWf ∧
      ({ d := dL, w := w' } : LiteState).radio.rxFifo = [⟨p, expectedPayload dyn (s.d.plLen.getD 0 0) buf⟩] ∧
      ((({ d := dL, w := w' } : LiteState).radio.readReg 0x1D).headD 0 &&& 4 = 0 →
        ({ d := dL, w := w' } : LiteState).radio.rxPw.getD p 0 = (expectedPayload dyn (s.d.plLen.getD 0 0) buf).length) := by
    intro w'' hw''
    subst hw''
    obtain ⟨hrx, _, hcfg⟩ := C01.C01_delivery s buf m askNoAck n sendOnly j p dyn h henv hc (by rw [hempty]; decide) hnd
    rw [hempty, List.nil_append] at hrx
    generalize hw' : (exec (Rf24.send buf m askNoAck (n : Int) sendOnly) s).2.w = w' at *
    obtain ⟨_, ⟨att, _, _, _, hrun⟩, _, _⟩ := send_final s buf m askNoAck n sendOnly h henv
    have hlen' : w'.radios.length = s.w.radios.length := by rw [← hw']; exact hrun.sent.len
    let sL : LiteState := { d := dL, w := w' }
    have hrad : sL.radio = w'.radio j := by show w'.radio dL.rid = _; rw [hdL]
    have hwf : sL.Wf := by show dL.rid < w'.radios.length; rw [hdL, hlen']; exact hc.lt
    have hp5 : p ≤ 5 := Radio.matchPipe_le _ _ _ hc.pipe
    have hne : expectedPayload dyn (s.d.plLen.getD 0 0) buf ≠ [] := by
      unfold expectedPayload
      cases dyn with
      | true =>
        simp only [↓reduceIte]
        have hm := hc.modeDrv
        exact (h.lenOk (by simpa using hm)).1
      | false =>
        simp only [Bool.false_eq_true, ↓reduceIte]
        obtain ⟨_, h1, _⟩ := hc.width rfl
        intro hz
        have := congrArg List.length hz
        simp only [List.length_take, List.length_append, List.length_replicate, List.length_nil] at this
        omega
    have hrxwf : sL.radio.RxWf := by
      rw [hrad]; intro e he; rw [hrx] at he
      simp only [List.mem_cons, List.not_mem_nil, or_false] at he; subst he; exact ⟨hp5, hne⟩
    have hconfig : (w'.radio j).config = (s.w.radio j).config := by have := congrArg Radio.config hcfg; exact this
    have hprim : sL.radio.primRx = true := by
      rw [hrad]
      unfold Radio.primRx; rw [hconfig]
      have := hc.listening
      unfold Radio.rxMode at this
      simp only [Bool.and_eq_true] at this
      exact this.1.2
    have hfifo : sL.radio.rxFifo = ⟨p, expectedPayload dyn (s.d.plLen.getD 0 0) buf⟩ :: [] := by rw [hrad, hrx]
    have hsz : (sL.radio.readReg 0x1D).headD 0 &&& 4 = 0 →
        sL.radio.rxPw.getD (⟨p, expectedPayload dyn (s.d.plLen.getD 0 0) buf⟩ : RxEntry).pipe 0 =
          (⟨p, expectedPayload dyn (s.d.plLen.getD 0 0) buf⟩ : RxEntry).data.length := by
      intro hz
      rw [hrad] at hz ⊢
      have hfeat : (w'.radio j).feature = (s.w.radio j).feature := by have := congrArg Radio.feature hcfg; exact this
      have hplus : (w'.radio j).plus = (s.w.radio j).plus := by have := congrArg Radio.plus hcfg; exact this
      have hact : (w'.radio j).activated = (s.w.radio j).activated := by have := congrArg Radio.activated hcfg; exact this
      have hpw : (w'.radio j).rxPw = (s.w.radio j).rxPw := by have := congrArg Radio.rxPw hcfg; exact this
      have hv' : (w'.radio j).featureVisible = true := by
        unfold Radio.featureVisible at hvis ⊢; rw [hplus, hact]; exact hvis
      have hz' : (s.w.radio j).feature &&& 4 = 0 := by
        have : (w'.radio j).readReg 0x1D = [(w'.radio j).feature] := by
          show [if (w'.radio j).featureVisible then (w'.radio j).feature else 0] = _
          rw [hv']; rfl
        rw [this, hfeat] at hz
        exact hz
      cases dyn with
      | true =>
        exfalso
        have hm := hc.modeRx
        simp only [Bool.and_eq_true, Radio.dplOn, decide_eq_true_eq] at hm
        exact hm.2.1 hz'
      | false =>
        obtain ⟨hwd, h1, _⟩ := hc.width rfl
        show (w'.radio j).rxPw.getD p 0 = (expectedPayload false (s.d.plLen.getD 0 0) buf).length
        rw [hpw, hwd]
        unfold expectedPayload
        simp only [Bool.false_eq_true, ↓reduceIte, List.length_take, List.length_append, List.length_replicate]
        omega
    exact ⟨hwf, hprim, hrxwf, hfifo, hsz⟩
  exact key _ rfl

/-- **Delivery full driver → lite driver.**  The hypotheses on the link are exactly those of
    `C01_delivery` / `C01_read_back` (`SendPre`, `AckEnv`, `Compatible s j p dyn`: same channel / rate
    / packet format / CRC / address width, receiver radio `j` listening, `p` its lowest enabled pipe
    matching the TX address, both ends in payload-length mode `dyn`, static width of pipe `p` = the
    length the transmitter pads to, undisturbed air; RX FIFO of `j` empty before; not a duplicate of
    the last accepted packet) — but the object that reads the receiver's FIFO is an **`rf24_lite`
    object `dL`** on radio `j`, in ANY shadow state (its `read()` consults the chip, not shadows).
    `hvis`: the receiver chip shows its FEATURE register (an nRF24L01+ — the only chip `rf24_lite`
    documents — or an activated non-plus chip).
    Then after the full driver's `send(buf)` (any payload, both buffer kinds, any `force_retry`,
    `ask_no_ack` / `send_only` on or off) the lite object's `read()` returns **exactly the expected
    payload** (the buffer in dynamic mode; zero-padded / truncated to the static length otherwise) and
    leaves the RX FIFO empty; a second `read()` is not stated here.
    The receiver's CONFIGURATION is a hypothesis about registers (`Compatible`), whichever driver wrote
    them: that lite `open_rx_pipe` / `listen = True` produce such registers is `C20_listen_restore` /
    `C20_config_history`, not composed here. -/
theorem C20_full_to_lite (s : DrvState) (buf : Bytes) (m askNoAck : Bool) (n : Nat) (sendOnly : Bool) (j p : Nat)
    (dyn : Bool) (h : SendPre s buf sendOnly) (henv : AckEnv s.rad (s.sendPacket askNoAck buf) s)
    (hc : Compatible s j p dyn) (hempty : (s.w.radio j).rxFifo = [])
    (hnd : (s.w.radio j).isDup (s.sendPacket askNoAck buf) = false)
    (hvis : (s.w.radio j).featureVisible = true) (dL : Lite) (hdL : dL.rid = j) :
    (lexec (Lite.read none) { d := dL, w := (exec (Rf24.send buf m askNoAck (n : Int) sendOnly) s).2.w }).1 =
      .ok (some (expectedPayload dyn (s.d.plLen.getD 0 0) buf)) ∧
    (lexec (Lite.read none) { d := dL, w := (exec (Rf24.send buf m askNoAck (n : Int) sendOnly) s).2.w }).2.radio.rxFifo
      = [] := by
  obtain ⟨hwf, hprim, hrxwf, hfifo, hsz⟩ :=
    C20_full_to_lite_state s buf m askNoAck n sendOnly j p dyn h henv hc hempty hnd hvis dL hdL
  obtain ⟨r1, r2, _, _⟩ := lite_read_head _ hwf hprim hrxwf _ [] hfifo hsz
  exact ⟨r1, r2⟩

/-- **… and the lite accessors agree, and the payload is read exactly once.**  Same hypotheses.  On the
    world the full driver's `send()` leaves, the lite object's `available()` is `True`, `any()` is the
    length of the expected payload, `update()` then `pipe` is `p`; and after its `read()` (which
    returned the payload, `C20_full_to_lite`) `available()` is `False` and a second `read()` returns
    `None`. -/
theorem C20_full_to_lite_accessors (s : DrvState) (buf : Bytes) (m askNoAck : Bool) (n : Nat) (sendOnly : Bool)
    (j p : Nat) (dyn : Bool) (h : SendPre s buf sendOnly) (henv : AckEnv s.rad (s.sendPacket askNoAck buf) s)
    (hc : Compatible s j p dyn) (hempty : (s.w.radio j).rxFifo = [])
    (hnd : (s.w.radio j).isDup (s.sendPacket askNoAck buf) = false)
    (hvis : (s.w.radio j).featureVisible = true) (dL : Lite) (hdL : dL.rid = j) :
    let sL : LiteState := { d := dL, w := (exec (Rf24.send buf m askNoAck (n : Int) sendOnly) s).2.w }
    (lexec Lite.available sL).1 = .ok true ∧
    (lexec Lite.any sL).1 = .ok (expectedPayload dyn (s.d.plLen.getD 0 0) buf).length ∧
    (lexec (do let _ ← Lite.update; Lite.pipe) sL).1 = .ok (some p) ∧
    (lexec Lite.available (lexec (Lite.read none) sL).2).1 = .ok false ∧
    (lexec (Lite.read none) (lexec (Lite.read none) sL).2).1 = .ok none := by
  intro sL
  obtain ⟨hwf, hprim, hrxwf, hfifo, hsz⟩ :=
    C20_full_to_lite_state s buf m askNoAck n sendOnly j p dyn h henv hc hempty hnd hvis dL hdL
  obtain ⟨a1, _⟩ := lite_available sL hwf hprim hrxwf
  obtain ⟨a2, _⟩ := lite_any_head sL hwf hprim hrxwf _ [] hfifo hsz
  have a3 := lite_update_pipe sL hwf hprim hrxwf
  obtain ⟨_, r2, r3, hwf2⟩ := lite_read_head sL hwf hprim hrxwf _ [] hfifo hsz
  have hprim2 : (lexec (Lite.read none) sL).2.radio.primRx = true := by
    rw [Radio.primRx_congr_l r3]; exact hprim
  obtain ⟨a4, _⟩ := lite_available _ hwf2 hprim2 (Radio.rxWf_nil_l r2)
  obtain ⟨a5, _⟩ := lite_read_empty _ hwf2 hprim2 r2
  refine ⟨?_, a2, ?_, ?_, a5⟩
  · rw [a1, hfifo]; rfl
  · rw [a3, hfifo]; rfl
  · rw [a4, r2]; rfl

/-- EVERY hypothesis of `C20_full_to_lite` on a concrete pair: `C01.exState` (radio 0 a PTX driven by
    the full driver, radio 1 listening on the same address, 32-byte static payloads, auto-ack), payload
    `[1, 2, 3]`, a lite object on radio 1 -/
example :
    SendPre C01.exState [1, 2, 3] false ∧
    AckEnv C01.exState.rad (C01.exState.sendPacket false [1, 2, 3]) C01.exState ∧
    Compatible C01.exState 1 0 false ∧ (C01.exState.w.radio 1).rxFifo = [] ∧
    (C01.exState.w.radio 1).isDup (C01.exState.sendPacket false [1, 2, 3]) = false ∧
    (C01.exState.w.radio 1).featureVisible = true ∧ (∃ dL : Lite, dL.rid = 1) := by
  refine ⟨⟨by decide, by decide, by decide, Or.inr rfl, fun _ => Or.inl rfl, fun h => absurd h (by decide), fun _ => by decide⟩,
    ackEnv_of_ackOk _ _ _ ?_ (fun h => absurd h (by decide)),
    ⟨by decide, by decide, by decide, rfl, rfl, rfl, rfl, rfl, by decide, by decide, by decide, by decide, by decide,
      fun _ => by decide, rfl⟩,
    by decide, by decide, by decide, ⟨{ rid := 1 }, rfl⟩⟩
  intro q hq hne
  have hq' : q < 2 := hq
  have : q = 1 := by
    have h0 : q ≠ 0 := hne
    omega
  subst this
  exact ⟨fun e he => (by cases he), fun d hd => (by cases hd)⟩

/-- … and the conclusion on it, evaluated by the kernel on the two MODELS (full `send()` then lite
    `read()`): the 3-byte buffer arrives zero-padded to the static length 32; the FIFO is empty after -/
example :
    (lexec (Lite.read none)
      { d := { rid := 1 }, w := (exec (Rf24.send [1, 2, 3] false false 0 false) C01.exState).2.w }).1.toOption
      = some (some ([1, 2, 3] ++ List.replicate 29 0)) ∧
    (lexec (Lite.read none)
      { d := { rid := 1 }, w := (exec (Rf24.send [1, 2, 3] false false 0 false) C01.exState).2.w }).2.radio.rxFifo
      = [] := by
  decide +kernel

/-- the same pair with dynamic payloads on both chips (EN_DPL, DYNPD = 0x3F; the lite `any()` takes the
    R_RX_PL_WID branch): the buffer arrives unchanged (kernel evaluation of the two models) -/
example :
    (lexec (Lite.read none)
      { d := { rid := 1 },
        w := (exec (Rf24.send [1, 2, 3] false false 0 false)
          { d := {}, w := { radios := [{ config := 0x0E, feature := 4, dynpd := 0x3F },
                                      { config := 0x0F, ce := true, feature := 4, dynpd := 0x3F }],
                            busyUntil := [0, 0] } }).2.w }).1.toOption = some (some [1, 2, 3]) := by
  decide +kernel

/-- `C20_full_to_lite_accessors` on the same concrete pair (its hypotheses are those instantiated
    above), evaluated by the kernel on the two models: available, any = 32, pipe 0, then empty -/
example :
    let sL : LiteState :=
      { d := { rid := 1 }, w := (exec (Rf24.send [1, 2, 3] false false 0 false) C01.exState).2.w }
    (lexec Lite.available sL).1.toOption = some true ∧ (lexec Lite.any sL).1.toOption = some 32 ∧
    (lexec (do let _ ← Lite.update; Lite.pipe) sL).1.toOption = some (some 0) ∧
    (lexec Lite.available (lexec (Lite.read none) sL).2).1.toOption = some false ∧
    (lexec (Lite.read none) (lexec (Lite.read none) sL).2).1.toOption = some none := by
  decide +kernel

/-! ### a receiver configured by LITE calls only, a transmitter configured by FULL-driver calls only

`C20_full_to_lite` takes the receiver's registers as a hypothesis (`Compatible`).  That lite setter
calls do produce such registers is shown here on ONE concrete session (kernel evaluation of the
models — a demonstration that the hypotheses are met by states the two drivers really produce, not
a theorem about all configurations). -/

/-- two fresh nRF24L01+; on radio 1 an `rf24_lite` object runs `__init__`, `open_rx_pipe(0, addr)`,
    `listen = True` -/
def liteRxWorld : World :=
  (lexec (do Lite.init; Lite.openRxPipe 0 [0xC2, 0xC2, 0xC2, 0xC2, 0xC2]; Lite.setListen true)
    { d := { rid := 1 }, w := World.fresh 2 }).2.w

/-- … then on radio 0 a full `RF24` object runs `__init__`, `__enter__`, `listen = False`,
    `open_tx_pipe(addr)` -/
def fullTxState : DrvState :=
  (exec (do Rf24.init; Rf24.enter; Rf24.setListen false; Rf24.openTxPipe [0xC2, 0xC2, 0xC2, 0xC2, 0xC2])
    { d := { rid := 0 }, w := liteRxWorld }).2

/-- every hypothesis of `C20_full_to_lite` / `C20_full_to_lite_accessors` holds of that session
    (dynamic payloads, pipe 0), for the payload `[1, 2, 3]` -/
example :
    SendPre fullTxState [1, 2, 3] false ∧
    AckEnv fullTxState.rad (fullTxState.sendPacket false [1, 2, 3]) fullTxState ∧
    Compatible fullTxState 1 0 true ∧ (fullTxState.w.radio 1).rxFifo = [] ∧
    (fullTxState.w.radio 1).isDup (fullTxState.sendPacket false [1, 2, 3]) = false ∧
    (fullTxState.w.radio 1).featureVisible = true ∧ (∃ dL : Lite, dL.rid = 1) := by
  refine ⟨⟨by decide +kernel, by decide +kernel, by decide +kernel, by decide +kernel, fun _ => by decide +kernel,
      fun _ => by decide, fun h => absurd h (by decide +kernel)⟩,
    ackEnv_of_ackOk _ _ _ ?_ (fun _ => by decide +kernel),
    ⟨by decide +kernel, by decide +kernel, by decide +kernel, by decide +kernel, by decide +kernel, by decide +kernel,
      by decide +kernel, by decide +kernel, by decide +kernel, by decide +kernel, by decide +kernel,
      by decide +kernel, by decide +kernel, fun h => absurd h (by decide), by decide +kernel⟩,
    by decide +kernel, by decide +kernel, by decide +kernel, ⟨{ rid := 1 }, rfl⟩⟩
  intro q hq hne
  have hq' : q < 2 := by
    have : fullTxState.w.radios.length = 2 := by decide +kernel
    omega
  have hrid : fullTxState.d.rid = 0 := by decide +kernel
  rw [hrid] at hne
  have : q = 1 := by omega
  subst this
  exact ⟨by decide +kernel, by decide +kernel⟩

/-- … and the lite object reads what the full driver sent (kernel evaluation) -/
example :
    (lexec (Lite.read none)
      { d := { rid := 1 }, w := (exec (Rf24.send [1, 2, 3] false false 0 false) fullTxState).2.w }).1.toOption
      = some (some [1, 2, 3]) := by
  decide +kernel

end Nrf.Props.C20
