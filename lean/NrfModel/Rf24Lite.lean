/-
L3 — `circuitpython_nrf24l01/rf24_lite.py: class RF24` (the "lite" driver), transliterated.

Same environment as `Rf24.lean` (`World.spi`, `World.setCE`, `World.sleep`).  The lite driver keeps
no shadow of any register: its only attributes are `_status` (STATUS byte of the last SPI
transaction) and `_pipe0_read_addr`.  Every SPI transaction goes through adafruit `SPIDevice`
(`extra_clocks=8`: one more byte clocked with CSN high, which the chip ignores — not a
transaction of the model).

`bytes([reg, value])` raises `ValueError` for a value outside `0..255`: explicit in `regWrite`.
Every method is a computation in `LiteM`; the state survives an exception.
-/
import NrfModel.Rf24

namespace Nrf

structure Lite where
  /-- index of the radio this object drives -/
  rid : Nat := 0
  /-- `self._status` -/
  status : Nat := 0
  /-- `self._pipe0_read_addr` -/
  pipe0ReadAddr : Option Bytes := none
  deriving DecidableEq, Repr, Inhabited

structure LiteState where
  d : Lite
  w : World
  deriving Repr, Inhabited

abbrev LiteM := ExceptT PyErr (StateM LiteState)

namespace Lite
open Rf24 (b2n andNot staticPayload SendRes clampArc ardCode)

def getD : LiteM Lite := do return (← get).d
def modD (f : Lite → Lite) : LiteM Unit := modify fun s => { s with d := f s.d }
def raise {α} (e : PyErr) : LiteM α := throw e

/-- `with self._spi as spi: spi.write_readinto(out, in_buf)` then `self._status = in_buf[0]` -/
def xfer (out : Bytes) : LiteM Bytes := do
  let s ← get
  let (w, inb) := s.w.spi s.d.rid out
  set ({ d := { s.d with status := inb.headD s.d.status }, w := w } : LiteState)
  return inb

/-- `self.ce_pin = v` -/
def setCE (v : Bool) : LiteM Unit := modify fun s => { s with w := s.w.setCE s.d.rid v }
/-- `self.ce_pin` (the pin is the wire into the radio's CE input) -/
def getCE : LiteM Bool := do let s ← get; return (s.w.radio s.d.rid).ce
def sleepNs (ns : Nat) : LiteM Unit := modify fun s => { s with w := s.w.sleep ns }

/-- `_reg_read(reg)` -/
def regRead (reg : Nat) : LiteM Nat := do
  let inb ← xfer [reg, 0]
  return inb.getD 1 0

/-- `_reg_read_bytes(reg, buf_len)` -/
def regReadBytes (reg : Nat) (bufLen : Nat := 5) : LiteM Bytes := do
  let inb ← xfer (reg :: zeros bufLen)
  return inb.drop 1

/-- `_reg_write_bytes(reg, out_buf)`: `bytes([0x20 | reg]) + out_buf` -/
def regWriteBytes (reg : Nat) (buf : Bytes) : LiteM Unit := do
  let _ ← xfer ((0x20 ||| reg) :: buf)

/-- `_reg_write(reg, value)`: `bytes([(0x20 if reg != 0x50 else 0) | reg, value])` raises
    `ValueError` outside `0..255`, before any SPI traffic -/
def regWrite (reg : Nat) (value : Int) : LiteM Unit := do
  if value < 0 ∨ value > 255 then raise .valueError
  let _ ← xfer (((if reg ≠ 0x50 then 0x20 else 0) ||| reg) :: [value.toNat])

/-- `_reg_write(reg)`: a bare command byte -/
def regCmd (reg : Nat) : LiteM Unit := do
  let _ ← xfer [reg]

def flushRx : LiteM Unit := regCmd 0xE2
def flushTx : LiteM Unit := regCmd 0xE1
def update : LiteM Bool := do regCmd 0xFF; return true

def clearStatusFlags (dataRecv dataSent dataFail : Bool := true) : LiteM Unit :=
  regWrite 7 ((b2n dataRecv <<< 6 ||| b2n dataSent <<< 5 ||| b2n dataFail <<< 4 : Nat) : Int)

/-- `channel = chnl` -/
def setChannel (ch : Int) : LiteM Unit := do
  if ¬ (0 ≤ ch ∧ ch ≤ 125) then raise .valueError
  regWrite 5 ch

def getChannel : LiteM Nat := regRead 5

/-- `payload_length = length`: the same clamped value into all six RX_PW_Px -/
def setPayloadLength (length : Int) : LiteM Unit := do
  let v : Int := max 1 (min 32 length)
  regWrite 0x11 v
  regWrite 0x12 v
  regWrite 0x13 v
  regWrite 0x14 v
  regWrite 0x15 v
  regWrite 0x16 v

def getPayloadLength : LiteM Nat := regRead 0x11

/-- `__init__` (after `SPIDevice` exists; CE is driven low only after the chip answered) -/
def init : LiteM Unit := do
  modD fun d => { d with status := 0 }
  regWrite 0 0x0E
  if (← regRead 0) &&& 3 ≠ 2 then raise .runtimeError
  setCE false
  regWrite 3 3
  regWrite 6 7
  regWrite 2 0
  regWrite 0x1C 0x3F
  regWrite 1 0x3F
  regWrite 0x1D 5
  regWrite 4 0x5F
  modD fun d => { d with pipe0ReadAddr := none }
  setChannel 76
  setPayloadLength 32
  flushRx
  flushTx
  clearStatusFlags

def getAddressLength : LiteM Nat := do return (← regRead 0x03) + 2

def setAddressLength (length : Int) : LiteM Unit :=
  regWrite 0x03 (if 3 ≤ length ∧ length ≤ 5 then length - 2 else 0)

/-- `open_tx_pipe(addr)` -/
def openTxPipe (addr : Bytes) : LiteM Unit := do
  regWriteBytes 0x0A addr
  regWriteBytes 0x10 addr

/-- `close_rx_pipe(pipe_num)` -/
def closeRxPipe (pipe : Int) : LiteM Unit := do
  if pipe < 0 ∨ pipe > 5 then raise .valueError
  if pipe = 0 then modD fun d => { d with pipe0ReadAddr := none }
  let op ← regRead 2
  if op &&& (1 <<< pipe.toNat) ≠ 0 then
    regWrite 2 (andNot op (1 <<< pipe.toNat) : Nat)

/-- `open_rx_pipe(pipe_num, addr)` -/
def openRxPipe (pipe : Int) (addr : Bytes) : LiteM Unit := do
  if ¬ (0 ≤ pipe ∧ pipe ≤ 5) then raise .valueError
  if addr.isEmpty then raise .valueError
  let p := pipe.toNat
  if p < 2 then
    if p = 0 then modD fun d => { d with pipe0ReadAddr := some addr }
    regWriteBytes (0x0A + p) addr
  else
    regWrite (0x0A + p) (addr.headD 0)
  let v ← regRead 2
  regWrite 2 (v ||| (1 <<< p) : Nat)

def getListen : LiteM Bool := do return (← regRead 0) &&& 3 = 3

/-- `listen = is_rx` -/
def setListen (isRx : Bool) : LiteM Unit := do
  setCE false
  let c ← regRead 0
  regWrite 0 ((c &&& 0xFC) ||| (2 + b2n isRx) : Nat)
  if isRx then
    setCE true
    match (← getD).pipe0ReadAddr with
    | some ra => regWriteBytes 0x0A ra
    | none => closeRxPipe 0
  else
    if (← regRead 0x1D) &&& 6 = 6 then flushTx
    let v ← regRead 2
    regWrite 2 (v ||| 1 : Nat)
  sleepNs 100000

/-- `self._status >> 1 & 7` -/
def rxPipeField (d : Lite) : Nat := (d.status >>> 1) &&& 7

def available : LiteM Bool := do
  let _ ← update
  return rxPipeField (← getD) < 6

def any : LiteM Nat := do
  let f ← regRead 0x1D
  if f &&& 4 ≠ 0 ∧ rxPipeField (← getD) < 6 then return (← regRead 0x60)
  if rxPipeField (← getD) < 6 then return (← regRead (0x11 + rxPipeField (← getD)))
  return 0

/-- `read(length)` (a non-negative `length` only) -/
def read (length : Option Nat := none) : LiteM (Option Bytes) := do
  let size : Nat ← match length with
    | some l => pure l
    | none => any
  if size = 0 then return none
  let r ← regReadBytes 0x61 size
  clearStatusFlags true false false
  return some r

def txFull : LiteM Bool := do return (← getD).status &&& 1 ≠ 0
def pipe : LiteM (Option Nat) := do
  let r := rxPipeField (← getD)
  return if r < 6 then some r else none
def irqDr : LiteM Bool := do return (← getD).status &&& 0x40 ≠ 0
def irqDs : LiteM Bool := do return (← getD).status &&& 0x20 ≠ 0
def irqDf : LiteM Bool := do return (← getD).status &&& 0x10 ≠ 0

def interruptConfig (dataRecv dataSent dataFail : Bool := true) : LiteM Unit := do
  let config := (b2n (!dataRecv) <<< 6) ||| (b2n (!dataFail) <<< 4) ||| (b2n (!dataSent) <<< 5)
  let v ← regRead 0
  regWrite 0 ((v &&& 0x0F) ||| config : Nat)

def getDynamicPayloads : LiteM Bool := do return (← regRead 0x1D) &&& 4 = 4

def setDynamicPayloads (enable : Bool) : LiteM Unit := do
  let f ← regRead 0x1D
  regWrite 0x1D ((f &&& 3) ||| (b2n enable <<< 2) : Nat)
  regWrite 0x1C (if enable then 0x3F else 0)

def getArc : LiteM Nat := do return (← regRead 4) &&& 0x0F

def setArc (cnt : Int) : LiteM Unit := do
  let v ← regRead 4
  regWrite 4 ((v &&& 0xF0) ||| clampArc cnt : Nat)

def getArd : LiteM Nat := do return (((← regRead 4) &&& 0xF0) >>> 4) * 250 + 250

def setArd (delta : Int) : LiteM Unit := do
  let v ← regRead 4
  regWrite 4 ((v &&& 0x0F) ||| (ardCode delta <<< 4) : Nat)

def getAck : LiteM Bool := do
  let f ← regRead 0x1D
  if f &&& 6 = 6 then return (← regRead 0x1C) ≠ 0
  return false

def setAck (enable : Bool) : LiteM Unit := do
  let f ← regRead 0x1D
  let features := f &&& 5
  if enable then regWrite 0x1C 0x3F
  let features := if enable then features ||| 4 else features
  let features := features ||| (if enable then 2 else 0)
  regWrite 0x1D (features : Nat)

/-- `load_ack(buf, pipe_num)`: never raises; invalid arguments leave the radio alone -/
def loadAck (buf : Bytes) (pipe : Int) : LiteM Bool := do
  if 0 ≤ pipe ∧ pipe ≤ 5 ∧ 0 < buf.length ∧ buf.length ≤ 32 then
    if (← regRead 0x1D) &&& 2 = 0 then setAck true
    if !(← txFull) then
      regWriteBytes (0xA8 ||| pipe.toNat) buf
      return true
  return false

def getDataRate : LiteM Nat := do
  let r := (← regRead 6) &&& 0x28
  return if r ≠ 0 then (if r = 8 then 2 else 250) else 1

/-- `data_rate = speed`: accepts anything (1 → 1 Mbps, 2 → 2 Mbps, everything else → 250 kbps) -/
def setDataRate (speed : Int) : LiteM Unit := do
  let code : Nat := if speed = 1 then 0 else (if speed ≠ 2 then 0x20 else 8)
  let v ← regRead 6
  regWrite 6 ((v &&& 0xD7) ||| code : Nat)

def getPower : LiteM Bool := do return (← regRead 0) &&& 2 ≠ 0

def setPower (isOn : Bool) : LiteM Unit := do
  let v ← regRead 0
  regWrite 0 (v &&& 0x7D ||| (b2n isOn <<< 1) : Nat)
  sleepNs 150000

def getPaLevel : LiteM Int := do
  let v ← regRead 6
  return ((3 - ((v &&& 6) >>> 1) : Nat) : Int) * -6

/-- `pa_level = pwr`; `pwr not in (-18, -12, -6, 0)` rejects everything else (a `bool` is an
    int: `False == 0`), including lists / tuples / strings -/
def setPaLevel (power : Arg) : LiteM Unit := do
  let p : Option Int := match power with
    | .i v => some v
    | .b v => some (b2n v)
    | _ => none
  match p with
  | none => raise .valueError
  | some v =>
    if v ≠ -18 ∧ v ≠ -12 ∧ v ≠ -6 ∧ v ≠ 0 then raise .valueError
    let r ← regRead 6
    regWrite 6 ((r &&& 0xF8) ||| ((3 - (v / -6).toNat) * 2) ||| 1 : Nat)

/-- `fifo(about_tx, check_empty)` -/
def fifo (aboutTx : Bool) (checkEmpty : Option Bool) : LiteM Nat := do
  let f ← regRead 0x17
  match checkEmpty with
  | none => return (f &&& (if aboutTx then 0x30 else 0x03)) >>> (4 * b2n aboutTx)
  | some ce => return b2n (f &&& ((2 - b2n ce) <<< (4 * b2n aboutTx)) ≠ 0)

def rpd : LiteM Bool := do return (← regRead 0x09) ≠ 0

/-- `write()` once the TX FIFO is known to have room: power up / force the TX role if need be, write
    the payload `b`, raise CE unless `write_only` -/
def writeFinish (buf b : Bytes) (askNoAck writeOnly : Bool) : LiteM (Bool × Bytes) := do
  let config ← regRead 0
  if config &&& 3 ≠ 2 then
    regWrite 0 ((config &&& 0x7C) ||| 2 : Nat)
    sleepNs 150000
  regWriteBytes (0xA0 ||| (b2n askNoAck <<< 4)) b
  if !writeOnly then setCE true
  return ((← getD).status &&& 0x10 = 0, buf)

/-- `write()` from `self.clear_status_flags()` on, `b` being the payload as it goes to the radio
    (`buf` is the caller's object, returned untouched) -/
def writeTail (buf b : Bytes) (askNoAck writeOnly : Bool) : LiteM (Bool × Bytes) := do
  clearStatusFlags
  if (← getD).status &&& 1 ≠ 0 then return (false, buf)
  writeFinish buf b askNoAck writeOnly

/-- the payload `write()` hands to the radio: in static mode padded / truncated to RX_PW_P0, in
    dynamic mode rejected when empty or longer than 32 bytes (register reads only up to here) -/
def writePayloadOf (buf : Bytes) : LiteM Bytes := do
  let dyn ← getDynamicPayloads
  if dyn then (if buf.isEmpty ∨ buf.length > 32 then raise .valueError else pure buf)
  else do
    let pl ← getPayloadLength
    pure (staticPayload buf pl)

/-- `write(buf, ask_no_ack, write_only)`; returns the result and the caller's buffer after the call.
    The payload-length mode is read from the radio first; the driver powers the radio up / forces the
    TX role itself. -/
def write (buf : Bytes) (mutableBuf : Bool) (askNoAck writeOnly : Bool := false) :
    LiteM (Bool × Bytes) := do
  let _ := mutableBuf   -- `buf = buf + …` rebinds: the caller's object is never touched
  let b ← writePayloadOf buf
  writeTail buf b askNoAck writeOnly

/-- `while not self._status & 0x30: self.update()` -/
def pollFlags : Nat → LiteM Unit
  | 0 => raise .diverge
  | f + 1 => do
    if (← getD).status &&& 0x30 = 0 then
      let _ ← update
      pollFlags f
    else pure ()

def POLL_FUEL : Nat := 8

/-- `resend()` from `self.clear_status_flags()` on -/
def resendTail (sendOnly : Bool) : LiteM SendRes := do
  clearStatusFlags
  setCE true
  let _ ← update
  pollFlags POLL_FUEL
  let result := (← getD).status &&& 0x20 ≠ 0
  if (← getD).status &&& 0x60 = 0x60 ∧ !sendOnly then
    return .payload (← read)
  return .bool result

def resend (sendOnly : Bool := false) : LiteM SendRes := do
  if (← fifo true (some true)) ≠ 0 then return .bool false
  setCE false
  if !sendOnly ∧ rxPipeField (← getD) < 6 then flushRx
  resendTail sendOnly

/-- `while force_retry and not result: result = self.resend(send_only); force_retry -= 1` -/
def forceRetryLoop (sendOnly : Bool) : Nat → Int → SendRes → LiteM SendRes
  | 0, _, _ => raise .diverge
  | f + 1, n, res =>
    let falsy := match res with | .bool b => !b | .payload p => p.isNone || p == some []
    if (n != 0) && falsy then do
      let r ← resend sendOnly
      forceRetryLoop sendOnly f (n - 1) r
    else pure res

/-- `send()` after `self.write(buf, ask_no_ack)`: poll, forced retries, ACK payload -/
def sendFinish (sendOnly : Bool) (forceRetry : Int) (caller : Bytes) : LiteM (SendRes × Bytes) := do
  pollFlags POLL_FUEL
  let result := (← getD).status &&& 0x20 ≠ 0
  let res ← forceRetryLoop sendOnly (forceRetry.natAbs + 1) forceRetry (.bool result)
  if res = .bool true ∧ (← getD).status &&& 0x60 = 0x60 ∧ !sendOnly then
    return (.payload (← read), caller)
  return (res, caller)

/-- `send()` from `self.write(buf, ask_no_ack)` on -/
def sendCore (buf : Bytes) (mutableBuf askNoAck : Bool) (forceRetry : Int) (sendOnly : Bool) :
    LiteM (SendRes × Bytes) := do
  let (_, caller) ← write buf mutableBuf askNoAck
  sendFinish sendOnly forceRetry caller

/-- `send(buf, ask_no_ack, force_retry, send_only)` for a single buffer -/
def send (buf : Bytes) (mutableBuf : Bool) (askNoAck : Bool := false) (forceRetry : Int := 0)
    (sendOnly : Bool := false) : LiteM (SendRes × Bytes) := do
  setCE false
  let st := (← getD).status
  if st &&& 0x10 ≠ 0 ∨ st &&& 1 ≠ 0 then flushTx
  if !sendOnly ∧ rxPipeField (← getD) < 6 then flushRx
  sendCore buf mutableBuf askNoAck forceRetry sendOnly

/-- `send([b1, b2, …], …)` -/
def sendList (bufs : List (Bool × Bytes)) (askNoAck : Bool) (forceRetry : Int) (sendOnly : Bool) :
    LiteM (List (SendRes × Bytes)) := do
  setCE false
  bufs.mapM fun (m, b) => send b m askNoAck forceRetry sendOnly

end Lite
end Nrf
