/-
L0 — the fragment of Python's data model the library relies on.

Import-free, computable, total.  Everything that can raise in Python returns
`Except PyErr α`; nothing is silently defaulted.
-/

namespace Nrf

/-- The Python exception classes that the modelled code can raise. -/
inductive PyErr where
  | valueError | indexError | typeError | attributeError | structError
  | notImplemented | runtimeError | overflowError | unicodeError
  /-- the model ran out of fuel: the modelled loop does not terminate within the bound
      proved for it (reported as a hang, never as a normal return) -/
  | diverge
  deriving DecidableEq, Repr, Inhabited

def PyErr.name : PyErr → String
  | .valueError => "ValueError" | .indexError => "IndexError" | .typeError => "TypeError"
  | .attributeError => "AttributeError" | .structError => "struct.error"
  | .notImplemented => "NotImplementedError" | .runtimeError => "RuntimeError"
  | .overflowError => "OverflowError" | .unicodeError => "UnicodeError"
  | .diverge => "DIVERGE"

abbrev PyM := Except PyErr

/-- `bytes` / `bytearray` contents: a list of naturals, each `< 256` (an invariant, proved where
    it matters, so that an out-of-range store is visible instead of wrapping). -/
abbrev Bytes := List Nat

def Bytes.wf (b : Bytes) : Prop := ∀ x ∈ b, x < 256

instance (b : Bytes) : Decidable (Bytes.wf b) := by unfold Bytes.wf; infer_instance

/-- `b"\0" * n` -/
def zeros (n : Nat) : Bytes := List.replicate n 0

/-- `bytes([x])`: `ValueError` unless `0 ≤ x < 256`. -/
def bytes1 (x : Int) : PyM Bytes :=
  if 0 ≤ x ∧ x < 256 then .ok [x.toNat] else .error .valueError

/-- `seq[i]` for a Python sequence with a possibly negative index. -/
def pyGet {α} (l : List α) (i : Int) : PyM α :=
  let j : Int := if i < 0 then i + l.length else i
  if j < 0 then .error .indexError
  else match l[j.toNat]? with
    | some x => .ok x
    | none => .error .indexError

/-- `seq[a:b]` with non-negative bounds (Python clamps, never raises). -/
def pySlice {α} (l : List α) (a b : Nat) : List α := (l.take b).drop a

/-- `struct.pack("<H", x)` : `struct.error` outside `0..65535`. -/
def packH (x : Int) : PyM Bytes :=
  if 0 ≤ x ∧ x < 65536 then .ok [x.toNat % 256, x.toNat / 256] else .error .structError

/-- `struct.unpack("<H", b)[0]` : `struct.error` unless `len(b) == 2`. -/
def unpackH (b : Bytes) : PyM Nat :=
  match b with
  | [lo, hi] => .ok (lo + 256 * hi)
  | _ => .error .structError

/-- `struct.pack("<h", x)` : `struct.error` outside `-32768..32767` -/
def packSH (x : Int) : PyM Bytes :=
  if -32768 ≤ x ∧ x < 32768 then
    let u := (x % 65536).toNat
    .ok [u % 256, u / 256]
  else .error .structError

/-- `struct.unpack("<h", b)[0]` : `struct.error` unless `len(b) == 2` -/
def unpackSH (b : Bytes) : PyM Int :=
  match b with
  | [lo, hi] => .ok (if lo + 256 * hi < 32768 then ((lo + 256 * hi : Nat) : Int) else ((lo + 256 * hi : Nat) : Int) - 65536)
  | _ => .error .structError

/-- little-endian 16-bit value of two bytes (no check) -/
def le16 (lo hi : Nat) : Nat := lo + 256 * hi

end Nrf
