/-
L7 — `fake_ble.py`: `ServiceData`, `TemperatureServiceData`, `BatteryServiceData`,
`UrlServiceData` on bytes / integers.  Floats stay in the Python glue: the temperature codec is
modelled on **integer hundredths** (`h` stands for the integer the setter derives from
`value * 100`, and the getter's result before `* 10**-2`).  `str` values are lists of code points;
the URL codec is modelled for ASCII text (where `encode("utf-8")`/`decode()` are the identity on
code points); `decode()` of a non-ASCII byte is reported as `UnicodeError` (over-approximation,
outside the compared domain).
-/
import NrfModel.Basic

namespace Nrf.Ble

def TEMPERATURE_UUID : Nat := 0x1809
def BATTERY_UUID : Nat := 0x180F
def EDDYSTONE_UUID : Nat := 0xFEAA

/-- `struct.pack(">b", x)` -/
def packb (x : Int) : PyM Bytes :=
  if -128 ≤ x ∧ x < 128 then .ok [(x % 256).toNat] else .error .structError

/-- `struct.unpack("b", buf)[0]` -/
def unpackb (buf : Bytes) : PyM Int :=
  match buf with
  | [x] => .ok (if x < 128 then (x : Int) else (x : Int) - 256)
  | _ => .error .structError

/-- `struct.pack("B", x)` -/
def packB (x : Int) : PyM Bytes :=
  if 0 ≤ x ∧ x < 256 then .ok [x.toNat] else .error .structError

/-- `struct.pack("<i", x)` -/
def packi (x : Int) : PyM Bytes :=
  if -2147483648 ≤ x ∧ x < 2147483648 then
    let u := (x % 4294967296).toNat
    .ok [u % 256, (u / 256) % 256, (u / 65536) % 256, (u / 16777216) % 256]
  else .error .structError

/-- `struct.unpack("<i", buf)[0]` -/
def unpacki (buf : Bytes) : PyM Int :=
  match buf with
  | [a, b, c, d] =>
    let u := a + 256 * b + 65536 * c + 16777216 * d
    .ok (if u < 2147483648 then (u : Int) else (u : Int) - 4294967296)
  | _ => .error .structError

/-- a decoded data item of a `QueueElement` (`ServiceData` subclasses keep their raw fields) -/
inductive Item where
  /-- `TemperatureServiceData` with `_data` -/
  | temp (data : Bytes)
  /-- `BatteryServiceData` with `_data` -/
  | batt (data : Bytes)
  /-- `UrlServiceData` with `_type` (uuid, frame type, power byte) and `_data` -/
  | url (type : Bytes) (data : Bytes)
  /-- a plain `bytearray` -/
  | raw (b : Bytes)
  deriving DecidableEq, Repr, Inhabited

/-- `ServiceData.__init__`: `struct.pack("<H", uuid)` -/
def uuidBytes (uuid : Int) : PyM Bytes := packH uuid

/-- `ServiceData.buffer` = `bytes(self._type + self._data)` -/
def Item.buffer : Item → Bytes
  | .temp d => [0x09, 0x18] ++ d
  | .batt d => [0x0F, 0x18] ++ d
  | .url t d => t ++ d
  | .raw b => b

/-- `TemperatureServiceData.data = <float>` where `h` is the integer obtained from `value * 100`:
    `struct.pack("<i", h & 0xFFFFFF)[:3] + bytes([0xFE])` (`&` on a Python int is `mod 2^24`) -/
def tempSet (h : Int) : PyM Bytes := do
  let v ← packi (h % 16777216)
  pure (pySlice v 0 3 ++ [0xFE])

/-- `TemperatureServiceData.data` (getter) in integer hundredths:
    `struct.unpack("<i", self._data[:3] + b"\0")[0]`, sign-extended from 24 bits -/
def tempGet (data : Bytes) : PyM Int := do
  let v ← unpacki (pySlice data 0 3 ++ [0])
  pure (if v.toNat &&& 0x800000 ≠ 0 then v - 0x1000000 else v)

/-- `BatteryServiceData.data = <int>` -/
def battSet (v : Int) : PyM Bytes := packB v

/-- `BatteryServiceData.data` (getter): `int(self._data[0])` -/
def battGet (data : Bytes) : PyM Nat := pyGet data 0

/-- a Python `str` as its list of code points -/
abbrev Str := List Nat

def asciiStr (s : String) : Str := s.toList.map Char.toNat

def codexPrefix : List Str :=
  [asciiStr "http://www.", asciiStr "https://www.", asciiStr "http://", asciiStr "https://"]

def codexSuffix0 : List Str :=
  [asciiStr ".com", asciiStr ".org", asciiStr ".edu", asciiStr ".net", asciiStr ".info",
   asciiStr ".biz", asciiStr ".gov"]

/-- `[suffix + "/" for suffix in codex_suffix] + codex_suffix` -/
def codexSuffix : List Str := codexSuffix0.map (· ++ [47]) ++ codexSuffix0

/-- `s.startswith(pat)` -/
def startsWith (s pat : Str) : Bool := pat.isPrefixOf s

/-- `s.replace(pat, rep)` for a non-empty `pat` (left to right, non-overlapping) -/
def replaceAll (pat rep : Str) : Nat → Str → Str
  | _, [] => []
  | 0, c :: cs =>
    if startsWith (c :: cs) pat then
      rep ++ replaceAll pat rep (pat.length - 1) cs
    else c :: replaceAll pat rep 0 cs
  | skip + 1, _ :: cs => replaceAll pat rep skip cs

/-- `s.replace(pat, rep, 1)` for a non-empty `pat` -/
def replaceFirst (pat rep : Str) : Str → Str
  | [] => []
  | c :: cs =>
    if startsWith (c :: cs) pat then rep ++ (c :: cs).drop pat.length
    else c :: replaceFirst pat rep cs

/-- the prefix loop of the `UrlServiceData.data` setter (no `break`):
    `if value.startswith(b_code): value = value.replace(b_code, chr(i), 1)` -/
def urlEncPrefix : List Str → Nat → Str → Str
  | [], _, v => v
  | p :: ps, i, v =>
    urlEncPrefix ps (i + 1) (if startsWith v p then replaceFirst p [i] v else v)

/-- the suffix loop of the setter: `value = value.replace(b_code, chr(i))` -/
def urlEncSuffix : List Str → Nat → Str → Str
  | [], _, v => v
  | p :: ps, i, v => urlEncSuffix ps (i + 1) (replaceAll p [i] 0 v)

/-- `UrlServiceData.data = <str>` (then `.encode("utf-8")`, identity on ASCII) -/
def urlSet (value : Str) : Bytes :=
  urlEncSuffix codexSuffix 0 (urlEncPrefix codexPrefix 0 value)

/-- the prefix loop of the getter (with `break`) -/
def urlDecPrefix : List Str → Nat → Str → Str
  | [], _, v => v
  | p :: ps, i, v =>
    if startsWith v [i] then replaceFirst [i] p v else urlDecPrefix ps (i + 1) v

/-- the suffix loop of the getter -/
def urlDecSuffix : List Str → Nat → Str → Str
  | [], _, v => v
  | p :: ps, i, v => urlDecSuffix ps (i + 1) (replaceAll [i] p 0 v)

/-- `self._data.decode()` restricted to ASCII -/
def decodeAscii (data : Bytes) : PyM Str :=
  if data.all (· < 128) then .ok data else .error .unicodeError

/-- `UrlServiceData.data` (getter) -/
def urlGet (data : Bytes) : PyM Str := do
  let v ← decodeAscii data
  pure (urlDecSuffix codexSuffix 0 (urlDecPrefix codexPrefix 0 v))

/-- `UrlServiceData.__init__`: `_type = pack("<H", 0xFEAA) + bytes([0x10]) + pack(">b", -25)` -/
def urlTypeInit : Bytes := [0xAA, 0xFE, 0x10, 0xE7]

/-- `pa_level_at_1_meter = <bytes>` : `self._type = self._type[:-1] + value[:1]` -/
def urlSetPaBytes (type value : Bytes) : Bytes := type.dropLast ++ pySlice value 0 1

/-- `pa_level_at_1_meter = <int>` : `self._type = self._type[:-1] + struct.pack(">b", int(value))` -/
def urlSetPaInt (type : Bytes) (value : Int) : PyM Bytes := do
  let b ← packb value
  pure (type.dropLast ++ b)

/-- `pa_level_at_1_meter` (getter): `struct.unpack(">b", self._type[-1:])[0]` -/
def urlGetPa (type : Bytes) : PyM Int :=
  unpackb (type.drop (type.length - 1))

end Nrf.Ble
