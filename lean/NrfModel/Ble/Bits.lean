/-
L7 — `fake_ble.py`: the module-level helpers `swap_bits`, `reverse_bits`, `chunk`, `whitener`,
`crc24_ble`.  Transliterated: same masks, same shifts, same loop structure (including the unused
`res` of `whitener` and the fact that `crc24_ble` masks to 24 bits only once per byte).
-/
import NrfModel.Basic

namespace Nrf.Ble

/-- `f` applied `n` times (a Python `for _ in range(n)` over a state) -/
def iter {α} (f : α → α) : Nat → α → α
  | 0, a => a
  | n + 1, a => iter f n (f a)

/-- body of the loop in `swap_bits` on `(original, reverse)`:
    `reverse <<= 1; reverse |= original & 1; original >>= 1` -/
def swapStep (s : Nat × Nat) : Nat × Nat :=
  (s.1 >>> 1, (s.2 <<< 1) ||| (s.1 &&& 1))

/-- `swap_bits(original)` -/
def swapBits (original : Nat) : Nat :=
  (iter swapStep 8 (original &&& 0xFF, 0)).2

/-- `reverse_bits(original)`: `ret[i] = swap_bits(byte)` for every byte (`swap_bits` is `< 256`,
    lemma `swapBits_lt`, so the item assignment cannot raise) -/
def reverseBits (original : Bytes) : Bytes := original.map swapBits

/-- `bytearray([a, b])` / `bytes([a, b])`: `ValueError` unless both are in `range(256)` -/
def bytes2 (a b : Nat) : PyM Bytes :=
  if a < 256 ∧ b < 256 then .ok [a, b] else .error .valueError

/-- `chunk(buf, data_type)` = `bytearray([len(buf) + 1, data_type & 0xFF]) + buf` -/
def chunk (buf : Bytes) (dataType : Nat) : PyM Bytes := do
  let h ← bytes2 (buf.length + 1) (dataType &&& 0xFF)
  pure (h ++ buf)

/-- body of the inner loop of `whitener` on `(coef, byte, mask)`:
    `if coef & 1: coef ^= 0x88; byte ^= mask` ; `mask <<= 1; coef >>= 1` -/
def whitenStep (s : Nat × Nat × Nat) : Nat × Nat × Nat :=
  let (coef, byte, mask) := s
  let (coef, byte) := if coef &&& 1 ≠ 0 then (coef ^^^ 0x88, byte ^^^ mask) else (coef, byte)
  (coef >>> 1, byte, mask <<< 1)

/-- one pass of the outer loop of `whitener`: returns `(data[i], coef)`;
    `res, mask = (0, 1)` … `data[i] = byte ^ res` -/
def whitenByte (byte coef : Nat) : Nat × Nat :=
  let res := 0
  let (coef, byte, _) := iter whitenStep 8 (coef, byte, 1)
  (byte ^^^ res, coef)

/-- `whitener(buf, coef)` (the coefficient is carried from byte to byte) -/
def whitener : Bytes → Nat → Bytes
  | [], _ => []
  | b :: bs, coef =>
    let (b', coef') := whitenByte b coef
    b' :: whitener bs coef'

/-- body of the inner loop of `crc24_ble`:
    `if crc & 0x800000: crc = (crc << 1) ^ deg_poly else: crc <<= 1` -/
def crcShift (poly : Nat) (crc : Nat) : Nat :=
  if crc &&& 0x800000 ≠ 0 then (crc <<< 1) ^^^ poly else crc <<< 1

/-- one pass of the outer loop: `crc ^= swap_bits(byte) << 16`, eight shifts, `crc &= 0xFFFFFF` -/
def crcByte (poly : Nat) (crc byte : Nat) : Nat :=
  (iter (crcShift poly) 8 (crc ^^^ (swapBits byte <<< 16))) &&& 0xFFFFFF

def CRC_POLY : Nat := 0x65B
def CRC_INIT : Nat := 0x555555

/-- the register after the loop of `crc24_ble(data)` (default polynomial and preset) -/
def crc24Reg (data : Bytes) : Nat := data.foldl (crcByte CRC_POLY) CRC_INIT

/-- `(crc).to_bytes(3, "big")`: `OverflowError` when it does not fit -/
def toBytes3Big (x : Nat) : PyM Bytes :=
  if x < 0x1000000 then .ok [x / 0x10000, (x / 0x100) % 0x100, x % 0x100]
  else .error .overflowError

/-- `crc24_ble(data)` -/
def crc24M (data : Bytes) : PyM Bytes := do
  let b ← toBytes3Big (crc24Reg data)
  pure (reverseBits b)

/-- `crc24_ble(data)` as a total function: the register is masked to 24 bits (or is the preset),
    so `to_bytes` cannot raise — lemma `crc24M_eq` in `NrfProofs/Ble/Crc.lean` proves
    `crc24M data = .ok (crc24 data)` for every `data`. -/
def crc24 (data : Bytes) : Bytes :=
  let x := crc24Reg data
  reverseBits [x / 0x10000, (x / 0x100) % 0x100, x % 0x100]

end Nrf.Ble
