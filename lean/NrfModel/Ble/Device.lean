/-
L7 — `fake_ble.py`: `QueueElement` and `FakeBLE`.

The radio is a parameter: of the whole nRF24L01 only register 5 (RF_CH) and register 6 (RF_SETUP,
for `pa_level`) matter here; the bytes handed to `send()` are the output of `advertise`, the
32 bytes returned by `RF24.read(32)` are the input of `available` (`none` = `RF24.available()` is
`False`).
-/
import NrfModel.Ble.Bits
import NrfModel.Ble.Service

namespace Nrf.Ble

/-- `BLE_FREQ` -/
def BLE_FREQ : List Nat := [2, 26, 80]

/-- `QueueElement` attributes -/
structure QueueElement where
  mac : Bytes
  name : Option Bytes := none
  paLevel : Option Int := none
  data : List Item := []
  deriving DecidableEq, Repr, Inhabited

/-- `FakeBLE` attributes that the anchored code reads or writes -/
structure Ble where
  /-- `_curr_freq` -/
  currFreq : Nat
  /-- `RF24._channel` (shadow of register 5, written back by `__enter__`) -/
  channel : Nat
  /-- `_show_dbm` -/
  showDbm : Bool
  /-- `_ble_name` -/
  name : Option Bytes
  /-- `_mac` -/
  mac : Bytes
  rxQueue : List QueueElement
  rxCache : Bytes
  deriving DecidableEq, Repr, Inhabited

/-- the registers of the radio the BLE layer touches -/
structure Radio where
  /-- register 5, RF_CH -/
  rfCh : Nat
  /-- register 6, RF_SETUP -/
  rfSetup : Nat
  deriving DecidableEq, Repr, Inhabited

/-- state right after `FakeBLE.__init__` (`_curr_freq = 2`, `with self:` writes `_channel = 76`,
    then `hop_channel()` → index 0, channel 2); `mac` is what `urandom(6)` returned -/
def Ble.init (mac : Bytes) : Ble × Radio :=
  ({ currFreq := 0, channel := 2, showDbm := false, name := none, mac := mac,
     rxQueue := [], rxCache := [] },
   { rfCh := 2, rfSetup := 0x07 })

/-- `FakeBLE.__exit__` -/
def Ble.exit (s : Ble) : Ble := { s with showDbm := false, name := none }

/-- `RF24.__enter__` as far as register 5 is concerned: `self._reg_write(0x05, self._channel)` -/
def Ble.enter (s : Ble) (r : Radio) : Radio := { r with rfCh := s.channel }

/-- `tuple.index(value)` -/
def indexOf (l : List Nat) (v : Nat) : PyM Nat :=
  match l.idxOf? v with
  | some i => .ok i
  | none => .error .valueError

/-- `FakeBLE.channel = value`:
    `if value in BLE_FREQ: self._curr_freq = BLE_FREQ.index(value); self._channel = value;
     self._reg_write(0x05, value)` -/
def Ble.setChannel (s : Ble) (r : Radio) (value : Nat) : PyM (Ble × Radio) :=
  if value ∈ BLE_FREQ then do
    let i ← indexOf BLE_FREQ value
    pure ({ s with currFreq := i, channel := value }, { r with rfCh := value })
  else pure (s, r)

/-- `hop_channel()` -/
def Ble.hopChannel (s : Ble) (r : Radio) : PyM (Ble × Radio) := do
  let cf := if s.currFreq < 2 then s.currFreq + 1 else s.currFreq - 2
  let s := { s with currFreq := cf }
  let v ← pyGet BLE_FREQ (s.currFreq : Nat)
  s.setChannel r v

/-- `whiten(data)`: `coef = (self._curr_freq + 37) | 0x40` -/
def Ble.whiten (s : Ble) (data : Bytes) : Bytes :=
  whitener data ((s.currFreq + 37) ||| 0x40)

/-- `os.urandom(n)` as patched by the harness (deterministic) -/
def urandom (n : Nat) : Bytes := (List.range n).map (0xA0 + ·)

/-- argument of the `mac` setter -/
inductive MacArg where
  | none
  | int (n : Int)
  | bytes (b : Bytes)
  deriving Repr

/-- `(n).to_bytes(6, "little")` -/
def toBytes6Little (n : Int) : PyM Bytes :=
  if 0 ≤ n ∧ n < 281474976710656 then
    let u := n.toNat
    .ok [u % 256, (u / 256) % 256, (u / 65536) % 256, (u / 16777216) % 256,
         (u / 4294967296) % 256, (u / 1099511627776) % 256]
  else .error .overflowError

/-- `FakeBLE.mac = address` -/
def Ble.setMac (s : Ble) (a : MacArg) : PyM Ble := do
  let s := match a with
    | .none => { s with mac := urandom 6 }
    | _ => s
  let s ← match a with
    | .int n => do let b ← toBytes6Little n; pure { s with mac := b }
    | .bytes b => pure { s with mac := b }
    | .none => pure s
  if s.mac.length < 6 then pure { s with mac := s.mac ++ urandom (6 - s.mac.length) }
  else pure s

/-- argument of the `name` setter after `str.encode` -/
inductive NameArg where
  | none
  | bytes (b : Bytes)
  /-- neither `None`, `str`, `bytes` nor `bytearray` -/
  | other
  deriving Repr

def showDbm3 (s : Ble) : Nat := if s.showDbm then 3 else 0

/-- `FakeBLE.name = _name` -/
def Ble.setName (s : Ble) (a : NameArg) : PyM Ble :=
  match a with
  | .none => .ok { s with name := none }
  | .other => .error .valueError
  | .bytes b =>
    if (b.length : Int) > 18 - (showDbm3 s : Int) then .error .valueError
    else .ok { s with name := some b }

/-- `FakeBLE.show_pa_level = enable` -/
def Ble.setShowPa (s : Ble) (enable : Bool) : PyM Ble :=
  match enable, s.name with
  | true, some n => if n.length > 16 then .error .valueError else .ok { s with showDbm := true }
  | e, _ => .ok { s with showDbm := e }

/-- `RF24.pa_level` (getter): `(3 - ((self._rf_setup & 6) >> 1)) * -6` -/
def Radio.paLevel (r : Radio) : Int := (3 - (((r.rfSetup &&& 6) >>> 1 : Nat) : Int)) * -6

/-- `RF24.pa_level = power` for an `int`: only -18, -12, -6, 0 are accepted;
    `pwr = (3 - int(power / -6)) * 2`, LNA bit set -/
def Radio.setPaLevel (r : Radio) (power : Int) : PyM Radio :=
  if power = -18 ∨ power = -12 ∨ power = -6 ∨ power = 0 then
    let pwr := (3 - (power / -6).toNat) * 2
    .ok { r with rfSetup := ((r.rfSetup &&& 0xF8) ||| pwr) ||| 1 }
  else .error .valueError

/-- `name_length = 0 if self._ble_name is None else (len(self._ble_name) + 2)` -/
def Ble.nameLength (s : Ble) : Nat :=
  match s.name with
  | none => 0
  | some n => n.length + 2

/-- `len_available(hypothetical)` -/
def Ble.lenAvailable (s : Ble) (hypothetical : Bytes) : Int :=
  18 - (s.nameLength : Int) - (showDbm3 s : Int) - (hypothetical.length : Int)

/-- `_make_payload(payload)` -/
def Ble.makePayload (s : Ble) (r : Radio) (payload : Bytes) : PyM Bytes :=
  if s.lenAvailable payload < 0 then .error .valueError
  else do
    let nameLength := s.nameLength
    let plSize := 9 + payload.length + nameLength + showDbm3 s
    let hdr ← bytes2 0x42 plSize
    let buf := hdr ++ s.mac
    let flags ← chunk [0x05] 1
    let buf := buf ++ flags
    let pa ← if s.showDbm then do
        let p ← packb r.paLevel
        chunk p 0x0A
      else pure []
    let buf := buf ++ pa
    let nm ← match s.name with
      | some n => if nameLength ≠ 0 then chunk n 0x08 else pure []
      | none => pure []
    let buf := buf ++ nm
    let buf := buf ++ payload
    let crc ← crc24M buf
    pure (buf ++ crc)

/-- argument of `advertise` -/
inductive AdvArg where
  /-- `bytes` / `bytearray` with the `data_type` -/
  | bytes (buf : Bytes) (dataType : Nat)
  /-- `list` / `tuple` of byte strings -/
  | list (chunks : List Bytes)
  /-- anything else -/
  | other
  deriving Repr

/-- `advertise(buf, data_type)`: the result is the buffer handed to `self.send` -/
def Ble.advertise (s : Ble) (r : Radio) (a : AdvArg) : PyM Bytes := do
  let payload ← match a with
    | .other => .error .valueError
    | .list chunks => pure (chunks.foldl (· ++ ·) [])
    | .bytes buf dataType => if buf ≠ [] then chunk buf dataType else pure []
  let p ← s.makePayload r payload
  pure (reverseBits (s.whiten p))

/-- `QueueElement._decode_data_struct(buf)`: the updated element and the returned flag -/
def decodeDataStruct (q : QueueElement) (buf : Bytes) : PyM (QueueElement × Bool) :=
  match pyGet buf 0 with
  | .error e => .error e
  | .ok t =>
    if ¬ (t = 0x16 ∨ t = 0x0A ∨ t = 0x08 ∨ t = 0x09) then .ok (q, false)
    else
      let q1 : PyM QueueElement :=
        if t = 0x0A ∧ buf.length = 2 then
          match unpackb (pySlice buf 1 2) with
          | .ok v => .ok { q with paLevel := some v }
          | .error e => .error e
        else .ok q
      match q1 with
      | .error e => .error e
      | .ok q =>
        -- `buf[1:].decode()`; `UnicodeError` is caught and the bytes kept: either way the
        -- name is the byte string `buf[1:]` (a `str` is compared through its UTF-8 encoding)
        let q := if t = 0x08 ∨ t = 0x09 then { q with name := some (buf.drop 1) } else q
        let q := if t = 0xFF then { q with data := q.data ++ [Item.raw buf] } else q
        if t = 0x16 then
          if buf.length < 3 then .ok (q, false)
          else
            match unpackH (pySlice buf 1 3) with
            | .error e => .error e
            | .ok uuid =>
              if uuid = TEMPERATURE_UUID then
                .ok ({ q with data := q.data ++ [Item.temp (buf.drop 3)] }, true)
              else if uuid = BATTERY_UUID then
                .ok ({ q with data := q.data ++ [Item.batt (buf.drop 3)] }, true)
              else if uuid = EDDYSTONE_UUID then
                .ok ({ q with data := q.data ++
                        [Item.url (urlSetPaBytes urlTypeInit (pySlice buf 4 5)) (buf.drop 5)] },
                     true)
              else .ok ({ q with data := q.data ++ [Item.raw buf] }, true)
        else .ok (q, true)

/-- the `while i < end:` loop of `QueueElement.__init__`; `fuel` bounds the iterations
    (each one advances `i` by at least 2), `.diverge` if it runs out -/
def qeLoop (buffer : Bytes) (end_ : Nat) : Nat → Nat → QueueElement → PyM QueueElement
  | 0, i, q => if i < end_ then .error .diverge else .ok q
  | fuel + 1, i, q =>
    if i < end_ then
      match pyGet buffer (i : Nat) with
      | .error e => .error e
      | .ok size =>
        if size + i + 1 > end_ ∨ i + 1 > end_ ∨ size = 0 then
          .ok { q with data := q.data ++ [Item.raw (pySlice buffer i end_)] }
        else
          match decodeDataStruct q (pySlice buffer (i + 1) (i + 1 + size)) with
          | .error e => .error e
          | .ok (q, result) =>
            let q := if ¬ result then
                { q with data := q.data ++ [Item.raw (pySlice buffer i (i + 1 + size))] }
              else q
            qeLoop buffer end_ fuel (i + 1 + size) q
    else .ok q

/-- `QueueElement(buffer)` -/
def QueueElement.ofBuffer (buffer : Bytes) : PyM QueueElement :=
  match pyGet buffer 1 with
  | .error e => .error e
  | .ok b1 =>
    let end_ := b1 + 2
    qeLoop buffer end_ end_ 8 { mac := pySlice buffer 2 8 }

/-- `available()`; `rx = none` ⇔ `RF24.available()` is `False`, `rx = some p` ⇔ it is `True` and
    `RF24.read(self.payload_length)` returns `p`.  The state is returned also when an exception
    escapes (the cache is assigned before anything can raise). -/
def Ble.available (s : Ble) (rx : Option Bytes) : Ble × PyM Bool :=
  match rx with
  | none => (s, .ok (!s.rxQueue.isEmpty))
  | some p =>
    let cache := s.whiten (reverseBits p)
    let s := { s with rxCache := cache }
    match pyGet cache 1 with
    | .error e => (s, .error e)
    | .ok b1 =>
      let end_ := b1 + 2
      let cache := pySlice cache 0 (end_ + 3)
      let s := { s with rxCache := cache }
      match crc24M (pySlice cache 0 end_) with
      | .error e => (s, .error e)
      | .ok crc =>
        if end_ < 30 ∧ pySlice cache end_ (end_ + 3) = crc then
          match QueueElement.ofBuffer cache with
          | .error e => (s, .error e)
          | .ok q =>
            let s := { s with rxQueue := s.rxQueue ++ [q] }
            (s, .ok (!s.rxQueue.isEmpty))
        else (s, .ok (!s.rxQueue.isEmpty))

/-- `read()` -/
def Ble.read (s : Ble) : Ble × Option QueueElement :=
  match s.rxQueue with
  | [] => (s, none)
  | q :: rest => ({ s with rxQueue := rest }, some q)

end Nrf.Ble
