/-
`fake_ble.py: class FakeBLE(RF24)` at the register level: `__init__`, `__exit__`, the `channel`
setter, `hop_channel`, and the attribute setters it disables.  (The payload side — whitening, CRC,
`advertise`, `available` — lives in `NrfModel/Ble/*`.)
-/
import NrfModel.Rf24

namespace Nrf

structure BleDev where
  rf : Rf24 := {}
  /-- `_curr_freq`: index into `BLE_FREQ` -/
  currFreq : Nat := 2
  showDbm : Bool := false
  name : Option Bytes := none
  deriving Repr, Inhabited

def BLE_FREQ : List Nat := [2, 26, 80]

structure BleState where
  b : BleDev
  w : World
  deriving Inhabited

abbrev BleM := ExceptT PyErr (StateM BleState)

namespace BleDev

/-- run an `RF24` method on the embedded driver object -/
def liftRf {α} (m : DrvM α) : BleM α := fun s =>
  let (r, s') := (m.run).run { d := s.b.rf, w := s.w }
  (r, { b := { s.b with rf := s'.d }, w := s'.w })

def modB (f : BleDev → BleDev) : BleM Unit := modify fun s => { s with b := f s.b }
def getB : BleM BleDev := do return (← get).b

/-- `FakeBLE.channel = value` : only the three BLE frequencies are accepted, others ignored -/
def setChannel (v : Int) : BleM Unit := do
  if v = 2 ∨ v = 26 ∨ v = 80 then
    modB fun b => { b with rf := { b.rf with channel := v.toNat },
                           currFreq := if v = 2 then 0 else if v = 26 then 1 else 2 }
    liftRf (Rf24.regWrite 0x05 v)

/-- `hop_channel()` -/
def hopChannel : BleM Unit := do
  modB fun b => { b with currFreq := if b.currFreq < 2 then b.currFreq + 1 else b.currFreq - 2 }
  setChannel (BLE_FREQ.getD (← getB).currFreq 0)

/-- `FakeBLE.__exit__` -/
def exit : BleM Unit := do
  modB fun b => { b with showDbm := false, name := none }
  liftRf Rf24.exit

def enter : BleM Unit := liftRf Rf24.enter

/-- `set_auto_ack(enable, pipe)` inherited from RF24: ends in the disabled `auto_ack` setter -/
def setAutoAck (pipe : Option Int) : BleM Unit := do
  match pipe with
  | none => throw .notImplemented
  | some p =>
    if 0 ≤ p ∧ p ≤ 5 then
      let v ← liftRf (Rf24.regRead Rf24.AUTO_ACK)
      modB fun b => { b with rf := { b.rf with aa := Rf24.andNot v (1 <<< p.toNat) } }
      throw .notImplemented
    else throw .indexError

/-- `set_dynamic_payloads(enable, pipe)` inherited from RF24: ends in the disabled setter -/
def setDynamicPayloads (pipe : Option Int) : BleM Unit := do
  match pipe with
  | none => throw .notImplemented
  | some p =>
    if 0 ≤ p ∧ p ≤ 5 then
      let v ← liftRf (Rf24.regRead Rf24.DYN_PL_LEN)
      modB fun b => { b with rf := { b.rf with dynPl := Rf24.andNot v (1 <<< p.toNat) } }
      throw .notImplemented
    else throw .indexError

/-- `load_ack(buf, pipe)` inherited from RF24: `self.ack = True` is disabled -/
def loadAck (buf : Bytes) (pipe : Int) : BleM Bool := do
  if pipe < 0 ∨ pipe > 5 then throw .indexError
  if buf.isEmpty ∨ buf.length > 32 then throw .valueError
  if !Rf24.ackEnabled (← getB).rf then throw .notImplemented
  liftRf (Rf24.loadAck buf pipe)

/-- `FakeBLE.__init__` -/
def init : BleM Unit := do
  liftRf Rf24.init
  modB fun b => { b with currFreq := 2, showDbm := false, name := none }
  modB fun b => { b with rf := { b.rf with
    config := b.rf.config &&& 3 ||| 0x10, aa := 0, dynPl := 0, features := 0, retrySetup := 0, addrLen := 4,
    txAddress := [0x71, 0x91, 0x7d, 0x6b] ++ b.rf.txAddress.drop 4 } }
  enter
  liftRf (Rf24.openRxPipe 0 [0x71, 0x91, 0x7d, 0x6b, 0])
  exit
  hopChannel

end BleDev
end Nrf
