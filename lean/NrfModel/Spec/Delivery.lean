/-
S — delivery of a network message (C05): what goes on the air for one hop, and what "delivered exactly
once, intact" means on the nodes' queues.

Two kinds of definitions live here, and only the first kind is a specification:

* INDEPENDENT of the implementation model, written from the property text and docs/network_docs:
  `fragStep`, `hdrBytes`, `fragPlan` (which fragments, with which headers and payload bytes), `callerFrame`,
  `DeliveredOnce` (what "exactly once, intact, to nobody else" means on the queues).  They call nothing of
  `NrfModel/Net/Node.lean`.
* NOT independent: `sendFrags` and `txPath` import `NrfModel.Net.Node` and call the judged model's own
  functions (`rfSend`, `fragRetry`, `txStandbyFor`, `pipeAddr`, `Rf24.setListen`, `Rf24.setAutoAckAttr`, …).
  They are a **re-bracketing of the model's own control flow** (`nodeWriteToPipe` with its fragment loop
  replaced by the execution of `fragPlan`), not an independent specification.  A theorem "model = `txPath`"
  (`C05_local_tx`) therefore says only: the fragment loop of the model executes exactly the plan `fragPlan`;
  every other phrase of their docstrings (auto-ack iff unicast, retry bounds) is a reading of the copy, not
  a checked requirement.
-/
import NrfModel.Net.Node
import NrfModel.Net.Frag
import NrfModel.Spec.Tree

namespace Nrf.Spec
open Nrf Nrf.Net

/-- header and end of slice of fragment `count` of `total` ("the first fragment has type 148, the
    following ones 149, the last one 150 and carries the message type in `reserved`; the others
    carry the number of fragments still to come") -/
def fragStep (msg : Bytes) (total msgT count : Nat) (h : Header) : Header × Nat :=
  if count = total - 1 then ({ h with msgType := .int MSG_FRAG_LAST, reserved := msgT }, msg.length)
  else if count = 0 then
    ({ h with msgType := .int MSG_FRAG_FIRST, reserved := total - count }, count * MAX_FRAG_SIZE + MAX_FRAG_SIZE)
  else ({ h with msgType := .int MSG_FRAG_MORE, reserved := total - count }, count * MAX_FRAG_SIZE + MAX_FRAG_SIZE)

/-- the eight bytes of a header with an integer type on the wire -/
def hdrBytes (h : Header) : Bytes :=
  le16b (h.fromNode &&& 0xFFF) ++ le16b (h.toNode &&& 0xFFF) ++ le16b (h.frameId &&& 0xFFFF)
    ++ [h.ty &&& 0xFF, h.reserved &&& 0xFF]

/-- the plan of a fragmented transmission: per fragment (the last `n` of `total`), the header and
    the payload (header bytes + at most 24 message bytes) -/
def fragPlan (msg : Bytes) (total msgT : Nat) : Nat → Header → List (Header × Bytes)
  | 0, _ => []
  | n + 1, h =>
    let st := fragStep msg total msgT (total - (n + 1)) h
    (st.1, hdrBytes st.1 ++ pySlice msg ((total - (n + 1)) * MAX_FRAG_SIZE) st.2)
      :: fragPlan msg total msgT n st.1

/-- (re-bracketing of the model's control flow, calls model functions — see the file header)
    carry out a plan: per fragment, show its header in `frame_buf`, hand the payload to the radio
    (one `send`, then up to three rounds of 2 ms pause + `_tx_standby(tx_timeout)`); the first
    fragment that stays unsent ends the transmission with `False` -/
def sendFrags : Nat → List (Header × Bytes) → NetM Bool
  | 0, _ => throw .diverge
  | _ + 1, [] => pure false
  | f + 1, (h, p) :: rest => do
    setHdr fun _ => h
    let r ← rfSend f p
    let result ← fragRetry f 3 r
    if !result then return false
    if rest.isEmpty then return true
    sendFrags f rest

/-- (re-bracketing of the model's `nodeWriteToPipe`, calls model functions — see the file header)
    One hop on the air, for a frame in `frame_buf` that is not for this node itself: auto-ack on
    pipe 0 exactly for unicasts, stop listening, transmit to the pipe address of the hop; a
    message of at most 24 bytes as **one** payload `Frame.pack` (retried by re-sending for at most
    `tx_timeout` ms), a longer one according to its fragment plan, after which the frame shows its
    own type again. -/
def txPath (f tn tp : Nat) (mc : Bool) : NetM Bool := do
  liftRf (Rf24.setAutoAckAttr (.i (0x3E + (if mc then 0 else 1))))
  liftRf (Rf24.setListen false)
  let addr ← pipeAddr tn tp
  liftRf (Rf24.openTxPipe addr)
  let n ← getNode
  if n.frameBuf.message.length ≤ MAX_FRAG_SIZE then
    let pk ← liftPy n.frameBuf.pack
    if (← rfSend f pk) then return true
    txStandbyFor f n.txTimeout
  else
    let total := fragTotal n.frameBuf.message.length
    let msgT := n.frameBuf.header.ty
    let result ← sendFrags f (fragPlan n.frameBuf.message total msgT total n.frameBuf.header)
    setHdr fun h => h.setTy msgT
    return result

/-- the frame `write(to, ty, msg)` of node `x` builds, and its image on the wire -/
def callerFrame (x y : List Nat) (id : Nat) (ty : Int) (msg : Bytes) : Frame :=
  { header := { fromNode := val x, toNode := val y, frameId := id, msgType := .int (maskInt ty 0xFF), reserved := 0 },
    message := msg }

/-- what the application of the destination gets for a message `(src, ty, body)` -/
def IsDelivery (fr : Frame) (src ty : Nat) (body : Bytes) : Prop :=
  fr.header.fromNode = src ∧ fr.header.ty = ty ∧ fr.message = body

/-- "delivered to the destination's queue exactly once … and to no other node's queue": between two
    states of the network, the queue of node `dst` (index in the node list) gained exactly one
    frame, which is the message, and every other node's queue is as before -/
def DeliveredOnce (before after : List Node) (dst : Nat) (src ty : Nat) (body : Bytes) : Prop :=
  after.length = before.length ∧
  (∃ fr, (after.getD dst default).queue.frames = (before.getD dst default).queue.frames ++ [fr]
    ∧ IsDelivery fr src ty body) ∧
  ∀ j, j ≠ dst → (after.getD j default).queue.frames = (before.getD j default).queue.frames

end Nrf.Spec
