/-
Spec for C08 — "RX/TX switching preserves the user's pipe-0 address and ACK reception".

Written from the property text.  The calls the property quantifies over are `Op`; the ghost state
`user0` is the address the user last opened pipe 0 with (`none` after `close_rx_pipe(0)` or never);
the three demands are `RxEntryOk` (on entering RX mode), `TxReady` (right after `open_tx_pipe` in TX
role with auto-ack on pipe 0) and the CE rules `CeRule` / `RoleLogClean`.
-/
import NrfModel.Air

namespace Nrf.Spec

/-- the calls the property quantifies over; pipe numbers are any Python `int` -/
inductive Op where
  | openRx (pipe : Int) (addr : Bytes)
  | closeRx (pipe : Int)
  | openTx (addr : Bytes)
  | autoAck (v : Bool)
  | setAutoAck (enable : Bool) (pipe : Int)
  | listen (v : Bool)
  deriving DecidableEq, Repr, Inhabited

/-- an address argument: `bytes` of length 1..5 -/
def AddrOk (a : Bytes) : Prop := 1 ≤ a.length ∧ a.length ≤ 5 ∧ a.wf

instance (a : Bytes) : Decidable (AddrOk a) := by unfold AddrOk; infer_instance

def Op.Valid : Op → Prop
  | .openRx _ a => AddrOk a
  | .openTx a => AddrOk a
  | _ => True

instance (op : Op) : Decidable op.Valid := by cases op <;> unfold Op.Valid <;> infer_instance

/-- the ghost state after a call: `open_rx_pipe(0, a)` records `a`, `close_rx_pipe(0)` forgets it -/
def user0Step (u : Option Bytes) : Op → Option Bytes
  | .openRx p a => if p = 0 then some a else u
  | .closeRx p => if p = 0 then none else u
  | _ => u

/-- the ghost state after a sequence of calls -/
def user0After (u : Option Bytes) (ops : List Op) : Option Bytes := ops.foldl user0Step u

/-- pipe 0 is enabled (EN_RXADDR bit 0) -/
def pipe0Open (r : Radio) : Prop := r.enRxAddr &&& 1 ≠ 0

instance (r : Radio) : Decidable (pipe0Open r) := by unfold pipe0Open; infer_instance

/-- `a` is what the low bytes of the 5-byte register `reg` hold (an address shorter than five bytes
    overwrites the low bytes only — the documented partial write) -/
def IsPrefix (a reg : Bytes) : Prop := reg.take a.length = a

instance (a reg : Bytes) : Decidable (IsPrefix a reg) := by unfold IsPrefix; infer_instance

/-- (1) right after `listen = True`: CE high, PRIM_RX set, pipe 0 on the user's address or closed -/
def RxEntryOk (u : Option Bytes) (r : Radio) : Prop :=
  r.ce = true ∧ r.config &&& 1 = 1 ∧
  match u with
  | some a => pipe0Open r ∧ IsPrefix a r.rxAddr0
  | none => ¬ pipe0Open r

instance (u : Option Bytes) (r : Radio) : Decidable (RxEntryOk u r) := by
  unfold RxEntryOk; cases u <;> infer_instance

/-- (2) right after `open_tx_pipe(t)`: in TX role with auto-ack on pipe 0, pipe 0 is open on `t` and
    `t` is the TX address -/
def TxReady (t : Bytes) (r : Radio) : Prop :=
  r.config &&& 1 = 0 → r.enAA &&& 1 ≠ 0 → pipe0Open r ∧ IsPrefix t r.rxAddr0 ∧ IsPrefix t r.txAddr

instance (t : Bytes) (r : Radio) : Decidable (TxReady t r) := by unfold TxReady; infer_instance

/-- what a call must have established when it returns -/
def Post (u : Option Bytes) (op : Op) (r : Radio) : Prop :=
  match op with
  | .listen true => RxEntryOk u r
  | .openTx t => TxReady t r
  | _ => True

instance (u : Option Bytes) (op : Op) (r : Radio) : Decidable (Post u op r) := by
  unfold Post; split <;> infer_instance

/-- the entry the radio logs when a CONFIG write changes PRIM_RX while CE is high -/
def roleLog : String := "CE:role-change-with-CE-high"

/-- (3a) the role was never changed with CE high -/
def RoleLogClean (r : Radio) : Prop := roleLog ∉ r.violations

instance (r : Radio) : Decidable (RoleLogClean r) := by unfold RoleLogClean; infer_instance

/-- (3b) CE after a call: `listen = v` leaves it at `v`, no other call moves it -/
def CeRule (op : Op) (before after : Radio) : Prop :=
  match op with
  | .listen v => after.ce = v
  | _ => after.ce = before.ce

instance (op : Op) (b a : Radio) : Decidable (CeRule op b a) := by unfold CeRule; split <;> infer_instance

/-- (3c) between calls: CE is high exactly while the radio is in the RX role -/
def CeMatchesRole (r : Radio) : Prop := r.ce = true ↔ r.config &&& 1 = 1

instance (r : Radio) : Decidable (CeMatchesRole r) := by unfold CeMatchesRole; infer_instance

/-- "a listening peer": the radio `peer` takes the packet the sender puts on the air for `data`, on a
    pipe with auto-ack, and has room for it.  `Radio.listensTo` spells the compatibility out: the peer
    is in RX mode (PWR_UP, PRIM_RX, CE), on the sender's channel, data rate, CRC scheme, packet
    format and address width; one of its enabled pipes has the sender's TX address on that width;
    the payload meets that pipe's length rule (dynamic on both sides, or the static width). -/
def PeerListens (sender peer : Radio) (data : Bytes) : Prop :=
  ∃ q, peer.listensTo (sender.packetFor { kind := .payload, data := data.take 32 }) = some q ∧
    Radio.bit peer.enAA q = true ∧ peer.rxFifo.length < 3

end Nrf.Spec
