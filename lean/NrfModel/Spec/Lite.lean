/-
S — what C20 demands of the lite driver, written from the property text, `docs/troubleshooting.rst`
("About the lite version") and the nRF24L01+ product specification (register map, §9) — not from
`rf24_lite.py`.  Register fields are extracted / replaced *arithmetically* (div / mod), the way the
data sheet numbers bits; the implementation works with masks and shifts.

Executable (decidable) throughout.
-/
import NrfModel.Air

namespace Nrf.Spec.Lite

/-! ### `load_ack()` -/

/-- `load_ack()` accepts exactly buffers of 1..32 bytes for pipes 0..5 -/
def loadAckValid (len : Nat) (pipe : Int) : Bool :=
  decide (0 ≤ pipe) && decide (pipe ≤ 5) && decide (1 ≤ len) && decide (len ≤ 32)

/-! ### payloads (C01) -/

/-- what the peer's `read()` has to return for a payload handed to `write()` / `send()`:
    unchanged with dynamic payloads, zero-padded or truncated to the static length otherwise -/
def expectedPayload (dyn : Bool) (plen : Nat) (buf : Bytes) : Bytes :=
  if dyn then buf else (buf ++ zeros plen).take plen

/-- with dynamic payloads on, 0 or more than 32 bytes are rejected -/
def dynLenOk (len : Nat) : Bool := decide (1 ≤ len) && decide (len ≤ 32)

/-! ### register fields (data sheet numbering: bit 0 = LSB) -/

/-- bits `[lo, lo + w)` of a register value -/
def field (reg lo w : Nat) : Nat := (reg / 2 ^ lo) % 2 ^ w

/-- the register value with bits `[lo, lo + w)` replaced by `v` -/
def setField (reg lo w v : Nat) : Nat := reg - field reg lo w * 2 ^ lo + (v % 2 ^ w) * 2 ^ lo

def clamp (lo hi v : Int) : Nat := (max lo (min hi v)).toNat

def bit (b : Bool) : Nat := if b then 1 else 0

/-! ### documented meaning of the attribute values -/

/-- `channel`: 0..125, anything else is rejected -/
def channelOk (ch : Int) : Bool := decide (0 ≤ ch) && decide (ch ≤ 125)

/-- `arc`: clamped to 0..15 (SETUP_RETR bits 3:0) -/
def arcOf (c : Int) : Nat := clamp 0 15 c

/-- `ard`: clamped to 250..4000 µs, floored to a multiple of 250 (SETUP_RETR bits 7:4 hold `n`
    for `250·(n+1)` µs) -/
def ardCodeOf (d : Int) : Nat := (clamp 250 4000 d - 250) / 250

/-- `payload_length`: clamped to 1..32, the same for all six pipes (RX_PW_P0..5) -/
def plLenOf (l : Int) : Nat := clamp 1 32 l

/-- `data_rate`: 1 → 1 Mbps, 2 → 2 Mbps, 250 → 250 kbps as `(RF_DR_LOW, RF_DR_HIGH)`; the lite setter
    takes every other value for 250 kbps (observation, not part of the documented domain) -/
def rateBits (speed : Int) : Nat × Nat :=
  if speed = 1 then (0, 0) else if speed = 2 then (0, 1) else (1, 0)

/-- what the `data_rate` getter reports for `(RF_DR_LOW, RF_DR_HIGH)` -/
def rateOf (lo hi : Nat) : Nat := if lo ≠ 0 then 250 else if hi ≠ 0 then 2 else 1

/-- `pa_level`: -18, -12, -6, 0 dBm ↦ RF_PWR 0..3; anything else is rejected -/
def paCode (dbm : Int) : Option Nat :=
  if dbm = -18 then some 0 else if dbm = -12 then some 1 else if dbm = -6 then some 2
  else if dbm = 0 then some 3 else none

def paOf (code : Nat) : Int := -18 + 6 * (code : Int)

/-- `address_length`: 3..5 ↦ SETUP_AW 1..3, anything else ↦ 0 (documented by the library as
    "2-byte addresses") -/
def awCode (len : Int) : Nat := if 3 ≤ len ∧ len ≤ 5 then (len - 2).toNat else 0

/-! ### documented effect of each attribute setter on the register file -/

def setChannel (r : Radio) (ch : Int) : Radio := { r with rfCh := ch.toNat }
def setArc (r : Radio) (c : Int) : Radio := { r with setupRetr := setField r.setupRetr 0 4 (arcOf c) }
def setArd (r : Radio) (d : Int) : Radio := { r with setupRetr := setField r.setupRetr 4 4 (ardCodeOf d) }
def setPayloadLength (r : Radio) (l : Int) : Radio := { r with rxPw := List.replicate 6 (plLenOf l) }
/-- EN_DPL (FEATURE bit 2) and DYNPD for all six pipes -/
def setDynamicPayloads (r : Radio) (b : Bool) : Radio :=
  { r with feature := setField r.feature 2 1 (bit b), dynpd := if b then 0x3F else 0 }
def setDataRate (r : Radio) (speed : Int) : Radio :=
  { r with rfSetup := setField (setField r.rfSetup 5 1 (rateBits speed).1) 3 1 (rateBits speed).2 }
/-- RF_PWR (RF_SETUP bits 2:1); bit 0 (LNA gain on the non-plus chip, "don't care" on the plus) is set -/
def setPaLevel (r : Radio) (code : Nat) : Radio :=
  { r with rfSetup := setField (setField r.rfSetup 1 2 code) 0 1 1 }
/-- PWR_UP (CONFIG bit 1) -/
def setPower (r : Radio) (b : Bool) : Radio := { r with config := setField r.config 1 1 (bit b) }
def setAddressLength (r : Radio) (len : Int) : Radio := { r with setupAw := awCode len }
/-- `ack = True`: EN_ACK_PAY (FEATURE bit 1) with EN_DPL and DYNPD on all pipes, which it needs;
    `ack = False`: EN_ACK_PAY off, dynamic payloads stay as they are -/
def setAck (r : Radio) (b : Bool) : Radio :=
  if b then { r with feature := setField (setField r.feature 1 1 1) 2 1 1, dynpd := 0x3F }
  else { r with feature := setField r.feature 1 1 0 }
/-- MASK_RX_DR / MASK_TX_DS / MASK_MAX_RT (CONFIG bits 6, 5, 4): a set bit *disables* the IRQ -/
def setInterruptConfig (r : Radio) (dr ds df : Bool) : Radio :=
  { r with config := setField (setField (setField r.config 6 1 (bit (!dr))) 5 1 (bit (!ds))) 4 1 (bit (!df)) }

/-! ### what the getters have to report (the value in effect) -/

def getChannel (r : Radio) : Nat := r.rfCh
def getArc (r : Radio) : Nat := field r.setupRetr 0 4
def getArd (r : Radio) : Nat := (field r.setupRetr 4 4 + 1) * 250
def getPayloadLength (r : Radio) : Nat := r.rxPw.getD 0 0
def getDynamicPayloads (r : Radio) : Bool := field r.feature 2 1 = 1
def getDataRate (r : Radio) : Nat := rateOf (field r.rfSetup 5 1) (field r.rfSetup 3 1)
def getPaLevel (r : Radio) : Int := paOf (field r.rfSetup 1 2)
def getPower (r : Radio) : Bool := field r.config 1 1 = 1
def getAddressLength (r : Radio) : Nat := r.setupAw + 2
def getAck (r : Radio) : Bool := field r.feature 1 1 = 1 && field r.feature 2 1 = 1 && r.dynpd ≠ 0
def getListen (r : Radio) : Bool := field r.config 0 1 = 1 && field r.config 1 1 = 1

/-! ### the attribute alphabet (C03 restricted to the lite API) -/

/-- the configuration attributes the lite driver lets the user set -/
inductive Setter where
  | channel (ch : Int)
  | arc (c : Int)
  | ard (d : Int)
  | payloadLength (l : Int)
  | dynamicPayloads (b : Bool)
  | dataRate (speed : Int)
  | paLevel (dbm : Int)
  | power (b : Bool)
  | addressLength (len : Int)
  | ack (b : Bool)
  | interruptConfig (dr ds df : Bool)
  deriving DecidableEq, Repr

inductive Getter where
  | channel | arc | ard | payloadLength | dynamicPayloads | dataRate | paLevel | power | addressLength | ack
  | listen
  deriving DecidableEq, Repr

/-- a Python value returned by a getter -/
inductive Val where
  | n (v : Nat) | b (v : Bool) | i (v : Int)
  deriving DecidableEq, Repr

/-- is the value accepted (otherwise `ValueError`, nothing written) -/
def setterOk : Setter → Bool
  | .channel ch => channelOk ch
  | .paLevel dbm => (paCode dbm).isSome
  | _ => true

/-- documented effect of an accepted assignment on the register file (for `address_length` outside
    3..5 the chip model additionally logs that SETUP_AW = 0 is "illegal" in the data sheet) -/
def applySetter (r : Radio) : Setter → Radio
  | .channel ch => setChannel r ch
  | .arc c => setArc r c
  | .ard d => setArd r d
  | .payloadLength l => setPayloadLength r l
  | .dynamicPayloads b => setDynamicPayloads r b
  | .dataRate sp => setDataRate r sp
  | .paLevel dbm => setPaLevel r ((paCode dbm).getD 0)
  | .power b => setPower r b
  | .addressLength len =>
    { setAddressLength r len with
      violations := r.violations ++ (if awCode len = 0 then ["SETUP_AW:illegal:0"] else []) }
  | .ack b => setAck r b
  | .interruptConfig dr ds df => setInterruptConfig r dr ds df

/-- the value in effect, as each getter has to report it -/
def getterVal (r : Radio) : Getter → Val
  | .channel => .n (getChannel r)
  | .arc => .n (getArc r)
  | .ard => .n (getArd r)
  | .payloadLength => .n (getPayloadLength r)
  | .dynamicPayloads => .b (getDynamicPayloads r)
  | .dataRate => .n (getDataRate r)
  | .paLevel => .i (getPaLevel r)
  | .power => .b (getPower r)
  | .addressLength => .n (getAddressLength r)
  | .ack => .b (getAck r)
  | .listen => .b (getListen r)

/-- the getter that reads back what a setter set, and the documented meaning of the value
    (clamped / floored as documented) -/
def readBack : Setter → Option (Getter × Val)
  | .channel ch => some (.channel, .n ch.toNat)
  | .arc c => some (.arc, .n (arcOf c))
  | .ard d => some (.ard, .n ((ardCodeOf d + 1) * 250))
  | .payloadLength l => some (.payloadLength, .n (plLenOf l))
  | .dynamicPayloads b => some (.dynamicPayloads, .b b)
  | .dataRate sp => some (.dataRate, .n (if sp = 1 then 1 else if sp = 2 then 2 else 250))
  | .paLevel dbm => some (.paLevel, .i dbm)
  | .power b => some (.power, .b b)
  | .addressLength len => some (.addressLength, .n (awCode len + 2))
  | .ack b => some (.ack, .b b)
  | .interruptConfig _ _ _ => none

/-- run a list of assignments on the register file: rejected ones change nothing -/
def applySetters (r : Radio) : List Setter → Radio
  | [] => r
  | st :: rest => applySetters (if setterOk st then applySetter r st else r) rest

/-! ### the pipe-0 rule on entering RX mode (C08) -/

/-- the calls the rule quantifies over -/
inductive PipeOp where
  | openRx (pipe : Int) (addr : Bytes)
  | closeRx (pipe : Int)
  | openTx (addr : Bytes)
  | listen (isRx : Bool)
  deriving DecidableEq, Repr

/-- ghost state: the address the user last opened pipe 0 with (`none` after closing it or when it
    was never opened); `ok` = the call returned without exception -/
def userStep (user0 : Option Bytes) (op : PipeOp) (ok : Bool) : Option Bytes :=
  match op with
  | .openRx pipe addr => if ok ∧ pipe = 0 then some addr else user0
  | .closeRx pipe => if ok ∧ pipe = 0 then none else user0
  | _ => user0

/-- on entering RX mode: pipe 0 listens on the user's address (as far as the 5-byte register can
    hold it: a shorter address overwrites the low bytes only) or is closed; the radio is in the RX
    role, powered, with CE high -/
def rxEntry (user0 : Option Bytes) (r : Radio) : Bool :=
  r.primRx && r.pwrUp && r.ce &&
  match user0 with
  | some a => Radio.bit r.enRxAddr 0 && r.rxAddr0.take (min a.length 5) == a.take 5
  | none => !Radio.bit r.enRxAddr 0

end Nrf.Spec.Lite
