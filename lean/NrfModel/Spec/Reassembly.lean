/-
S — (1) a TMRh20-style reference reassembler, written after the `frameFragmentsCache` logic of
RF24Network.cpp (RF24Network::enqueue / appendFragmentToFrame), independently of the Python queue:
  * a FIRST fragment starts (replaces) the cache entry of its (origin, frame id);
  * a MORE fragment is appended iff an entry with the same (origin, id) exists and its counter is
    the cached counter minus one; otherwise it is dropped;
  * a LAST fragment is appended iff such an entry exists and exactly one fragment was still
    expected (`reserved - 1 == 1`); the message gets the type carried in LAST's reserved byte, is
    delivered, and the entry is erased; otherwise the fragment is dropped and the entry erased;
  * any other frame is delivered as it is.
(2) the safety notion of C06: what may be handed to the application, given the set of messages
that were sent.
-/
import NrfModel.Spec.Wire

namespace Nrf.Spec

structure Tmrh where
  /-- cache entries keyed by (origin, frame id) -/
  cache : List ((Nat × Nat) × WFrame) := []
  /-- messages handed to the application, oldest first -/
  out : List WFrame := []
  deriving Repr, DecidableEq

def cacheErase (c : List ((Nat × Nat) × WFrame)) (k : Nat × Nat) : List ((Nat × Nat) × WFrame) :=
  c.filter (fun e => e.1 ≠ k)

def tmrhStep (s : Tmrh) (f : WFrame) : Tmrh :=
  let k := (f.src, f.id)
  if f.ty = FRAG_FIRST then { s with cache := (k, f) :: cacheErase s.cache k }
  else if f.ty = FRAG_MORE then
    match s.cache.lookup k with
    | none => s
    | some c =>
      if f.rsv + 1 = c.rsv then
        { s with cache := (k, { c with rsv := f.rsv, body := c.body ++ f.body }) :: cacheErase s.cache k }
      else s
  else if f.ty = FRAG_LAST then
    match s.cache.lookup k with
    | none => s
    | some c =>
      if c.rsv = 2 then
        { cache := cacheErase s.cache k,
          out := s.out ++ [{ c with ty := f.rsv, rsv := f.rsv, body := c.body ++ f.body }] }
      else { s with cache := cacheErase s.cache k }
  else { s with out := s.out ++ [f] }

/-- feed a sequence of received frames to a fresh receiver; what the application gets -/
def tmrhReassemble (fs : List WFrame) : List WFrame := (fs.foldl tmrhStep {}).out

/-- `out` is (origin, destination, id, type, bytes) of the message `m` -/
def IsMsg (m : Msg) (out : WFrame) : Prop :=
  out.src = m.src ∧ out.dst = m.dst ∧ out.id = m.id ∧ out.ty = m.ty ∧ out.body = m.body

instance (m : Msg) (o : WFrame) : Decidable (IsMsg m o) := by unfold IsMsg; infer_instance

/-- C06 safety for one frame handed to the application, given the sent messages and the frames
    that had been received so far: it is one complete sent message, all of whose frames arrived -/
def SafeOut (sent : List Msg) (received : List WFrame) (out : WFrame) : Prop :=
  ∃ m ∈ sent, IsMsg m out ∧ ∀ f ∈ refFrames m, ∃ g ∈ received, g.src = f.src ∧ g.dst = f.dst ∧
    g.id = f.id ∧ g.ty = f.ty ∧ g.body = f.body ∧ (f.ty = FRAG_FIRST ∨ f.ty = FRAG_MORE ∨ f.ty = FRAG_LAST → g.rsv = f.rsv)

instance (sent : List Msg) (rcv : List WFrame) (o : WFrame) : Decidable (SafeOut sent rcv o) := by
  unfold SafeOut; infer_instance

end Nrf.Spec
