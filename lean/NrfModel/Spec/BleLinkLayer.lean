/-
S — an independent, bit-serial BLE link-layer receiver / transmitter for advertising channel
packets, written from the Bluetooth Core Specification (Vol 6 Part B: 1.2 bit ordering, 2.3
advertising channel PDU, 3.1.1 CRC generation, 3.2 data whitening; Vol 3 Part C 11 advertising
data format) and the nRF24L01+ product specification (7.3: payload bytes are shifted out most
significant bit first), **not** from `fake_ble.py`: nothing here works on whole bytes, swaps
bits of bytes or uses a Galois-form coefficient.

Bit streams are `List Bool` in on-air order.
-/
import NrfModel.Basic

namespace Nrf.Spec.BleLL

/-- the eight bits of a byte, most significant first: the order in which the nRF24L01 shifts a
    payload byte onto the air (and fills a received byte) -/
def msbFirst (b : Nat) : List Bool :=
  [b.testBit 7, b.testBit 6, b.testBit 5, b.testBit 4, b.testBit 3, b.testBit 2, b.testBit 1,
   b.testBit 0]

/-- the eight bits of an octet, least significant first: BLE on-air order of an octet -/
def lsbFirst (b : Nat) : List Bool :=
  [b.testBit 0, b.testBit 1, b.testBit 2, b.testBit 3, b.testBit 4, b.testBit 5, b.testBit 6,
   b.testBit 7]

/-- on-air bit stream of an nRF24L01 payload -/
def airBits (payload : Bytes) : List Bool := payload.flatMap msbFirst

/-- value of a bit string whose first bit is the least significant -/
def valLsb : List Bool → Nat
  | [] => 0
  | b :: bs => (if b then 1 else 0) + 2 * valLsb bs

/-- value of a bit string whose first bit is the most significant -/
def valMsb (bs : List Bool) : Nat := valLsb bs.reverse

/-- cut a bit stream into octets (first bit = least significant); an incomplete tail is dropped -/
def octets : Nat → List Bool → Bytes
  | 0, _ => []
  | n + 1, bs => if bs.length < 8 then [] else valLsb (bs.take 8) :: octets n (bs.drop 8)

/-- what the nRF24L01 receiver hands out for a bit stream: bytes filled most significant bit first -/
def nrfBytes : Nat → List Bool → Bytes
  | 0, _ => []
  | n + 1, bs => if bs.length < 8 then [] else valMsb (bs.take 8) :: nrfBytes n (bs.drop 8)

/-- BLE advertising channel index of an nRF24L01 `RF_CH` value (carrier = 2400 + RF_CH MHz):
    2402 MHz = 37, 2426 MHz = 38, 2480 MHz = 39 -/
def channelIndex (rfCh : Nat) : Option Nat :=
  if rfCh = 2 then some 37 else if rfCh = 26 then some 38 else if rfCh = 80 then some 39 else none

/-- the whitening shift register, positions 0..6 (polynomial x^7 + x^4 + 1) -/
structure Lfsr where
  p0 : Bool
  p1 : Bool
  p2 : Bool
  p3 : Bool
  p4 : Bool
  p5 : Bool
  p6 : Bool
  deriving DecidableEq, Repr

/-- "Position 0 is set to one. Positions 1 to 6 are set to the channel index … from the most
    significant bit in position 1 to the least significant bit in position 6." -/
def Lfsr.init (ch : Nat) : Lfsr :=
  ⟨true, ch.testBit 5, ch.testBit 4, ch.testBit 3, ch.testBit 2, ch.testBit 1, ch.testBit 0⟩

/-- one clock: position 6 is fed back to position 0 and xor-ed into position 4 -/
def Lfsr.clock (l : Lfsr) : Lfsr :=
  ⟨l.p6, l.p0, l.p1, l.p2, l.p3 != l.p6, l.p4, l.p5⟩

/-- (de-)whitening of a bit stream: each bit is xor-ed with position 6 -/
def whitenBits : Lfsr → List Bool → List Bool
  | _, [] => []
  | l, b :: bs => (b != l.p6) :: whitenBits l.clock bs

/-- exponents of the CRC polynomial below 24: x^24 + x^10 + x^9 + x^6 + x^4 + x^3 + x + 1 -/
def crcTaps : List Nat := [10, 9, 6, 4, 3, 1, 0]

def crcFeedback : Nat := crcTaps.foldl (fun a e => a ||| 2 ^ e) 0

/-- one clock of the 24-bit CRC shift register (bit `i` of `reg` = position `i`): the data bit is
    xor-ed with position 23, the result is fed into position 0 and xor-ed into the tap positions
    while everything moves up one position -/
def crcClock (reg : Nat) (d : Bool) : Nat :=
  let fb := reg.testBit 23 != d
  let moved := (reg % 2 ^ 23) * 2
  if fb then moved ^^^ crcFeedback else moved

/-- advertising channel preset: "the shift register shall be preset with 0x555555" -/
def crcPreset : Nat := 0x555555

def crcOfBits (bits : List Bool) : Nat := bits.foldl crcClock crcPreset

/-- "The CRC is transmitted most significant bit first, i.e. from position 23 to position 0" -/
def crcBits (reg : Nat) : List Bool :=
  ((List.range 24).map fun i => reg.testBit (23 - i))

/-- a received advertising channel PDU -/
structure Pdu where
  /-- first header octet: PDU type (bits 0..3), TxAdd (bit 6), RxAdd (bit 7) -/
  header : Nat
  /-- the length octet -/
  length : Nat
  /-- `length` payload octets -/
  payload : Bytes
  deriving DecidableEq, Repr

/-- Parse a de-whitened bit stream (first bit = first bit after the access address): header
    octet, length octet, `length` payload octets, then the 24 CRC bits, which must equal the CRC
    computed bit by bit over header, length and payload.  Bits after the CRC are ignored. -/
def parsePdu (bits : List Bool) : Option Pdu :=
  if bits.length < 16 then none
  else
    let header := valLsb (bits.take 8)
    let len := valLsb ((bits.drop 8).take 8)
    let n := 16 + 8 * len
    if bits.length < n + 24 then none
    else if (bits.drop n).take 24 = crcBits (crcOfBits (bits.take n)) then
      some ⟨header, len, octets len ((bits.drop 16).take (8 * len))⟩
    else none

/-- Receive one advertising packet from the on-air bit stream that follows the access address,
    on the channel the radio is tuned to.  `none`: not a BLE frequency, too few bits, or CRC
    mismatch. -/
def bleReceive (rfCh : Nat) (air : List Bool) : Option Pdu :=
  match channelIndex rfCh with
  | none => none
  | some ch => parsePdu (whitenBits (Lfsr.init ch) air)

/-- Transmit: the octets of a PDU (header, length, payload) as the whitened on-air bit stream
    including the CRC. -/
def bleTransmit (ch : Nat) (pdu : Bytes) : List Bool :=
  let bits := pdu.flatMap lsbFirst
  whitenBits (Lfsr.init ch) (bits ++ crcBits (crcOfBits bits))

/-- foreign transmitter seen through an nRF24L01 receiver: the 32-byte payload the radio hands
    out for the packet `pdu` sent on the frequency `rfCh`; after the CRC the air carries `tail` -/
def specEncode (rfCh : Nat) (pdu : Bytes) (tail : List Bool) : Option Bytes :=
  match channelIndex rfCh with
  | none => none
  | some ch => some (nrfBytes 32 (bleTransmit ch pdu ++ tail))

/-- header octet of ADV_NONCONN_IND (PDU type 0b0010) with TxAdd = 1 (random address) -/
def ADV_NONCONN_IND_RANDOM : Nat := 0x42

/-- AD structures: `length, type, data[length-1]` … ; `none` when a structure is empty
    (length 0) or runs over the end -/
def parseAdsF : Nat → Bytes → Option (List (Nat × Bytes))
  | _, [] => some []
  | 0, _ :: _ => none
  | fuel + 1, l :: rest =>
    match rest with
    | [] => none
    | t :: r =>
      if l = 0 ∨ r.length < l - 1 then none
      else match parseAdsF fuel (r.drop (l - 1)) with
        | none => none
        | some ads => some ((t, r.take (l - 1)) :: ads)

def parseAds (b : Bytes) : Option (List (Nat × Bytes)) := parseAdsF b.length b

/-- a parsed non-connectable advertisement -/
structure Adv where
  /-- AdvA, 6 octets -/
  mac : Bytes
  /-- AD structures `(type, data)` in order -/
  ads : List (Nat × Bytes)
  deriving DecidableEq, Repr

def parseAdv (p : Pdu) : Option Adv :=
  if p.payload.length < 6 then none
  else match parseAds (p.payload.drop 6) with
    | none => none
    | some ads => some ⟨p.payload.take 6, ads⟩

/-- two's complement value of `n` bits -/
def signed (n : Nat) (v : Nat) : Int := if v < 2 ^ (n - 1) then (v : Int) else (v : Int) - 2 ^ n

/-- AD type 0x0A "TX Power Level": one signed octet (dBm) -/
def txPower (d : Bytes) : Option Int :=
  match d with
  | [x] => some (signed 8 x)
  | _ => none

/-- Health Thermometer "Temperature Measurement" value (IEEE-11073 32-bit FLOAT: 24-bit two's
    complement mantissa, little endian, then a signed exponent octet), as integer hundredths of a
    degree when the exponent is -2 -/
def temperatureHundredths (d : Bytes) : Option Int :=
  match d with
  | [a, b, c, e] => if signed 8 e = -2 then some (signed 24 (a + 256 * b + 65536 * c)) else none
  | _ => none

/-- the hundredths value as the four octets of the FLOAT (exponent -2) -/
def temperatureOctets (h : Int) : Bytes :=
  let m := (h % 16777216).toNat
  [m % 256, (m / 256) % 256, m / 65536, 0xFE]

/-- Battery Service "Battery Level": one octet 0..255 (percent) -/
def batteryLevel (d : Bytes) : Option Nat :=
  match d with
  | [x] => some x
  | _ => none

def ascii (s : String) : List Nat := s.toList.map Char.toNat

/-- Eddystone-URL scheme prefixes -/
def urlScheme : Nat → Option (List Nat)
  | 0 => some (ascii "http://www.") | 1 => some (ascii "https://www.")
  | 2 => some (ascii "http://") | 3 => some (ascii "https://") | _ => none

/-- Eddystone-URL expansion codes -/
def urlExpansion : Nat → Option (List Nat)
  | 0 => some (ascii ".com/") | 1 => some (ascii ".org/") | 2 => some (ascii ".edu/")
  | 3 => some (ascii ".net/") | 4 => some (ascii ".info/") | 5 => some (ascii ".biz/")
  | 6 => some (ascii ".gov/") | 7 => some (ascii ".com") | 8 => some (ascii ".org")
  | 9 => some (ascii ".edu") | 10 => some (ascii ".net") | 11 => some (ascii ".info")
  | 12 => some (ascii ".biz") | 13 => some (ascii ".gov") | _ => none

/-- decode an Eddystone-URL "Encoded URL": scheme octet, then characters / expansion codes -/
def urlDecode (d : Bytes) : Option (List Nat) :=
  match d with
  | [] => none
  | s :: rest =>
    match urlScheme s with
    | none => none
    | some p => some (p ++ rest.flatMap fun c => (urlExpansion c).getD [c])

/-- Eddystone-URL service data after the 16-bit UUID: frame type 0x10, TX power at 0 m (signed),
    encoded URL → `(power, url)` -/
def eddystoneUrl (d : Bytes) : Option (Int × List Nat) :=
  match d with
  | 0x10 :: p :: enc => (urlDecode enc).map fun u => (signed 8 p, u)
  | _ => none

end Nrf.Spec.BleLL
