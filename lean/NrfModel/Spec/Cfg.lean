/-
S — the documented meaning of the configuration API of `RF24` (property C03).

Written from `docs/core_api/configure_api.rst`, `basic_api.rst`, `advanced_api.rst` (which value
is accepted, clamped, rejected or ignored per attribute) and from the register tables of the
nRF24L01+ product specification (DESIGN.md Appendix A: which bit field of which register carries
the value) — not from `rf24.py`.  Bit fields are described *arithmetically* (`x / 2^lo % 2^w`), the
code uses masks and shifts; the proofs bridge the two.

The abstract state is the configuration part of the chip (`Radio` with FIFOs/flags forgotten: the
registers, the CE pin, the chip variant, the chip's log of reserved/out-of-range writes) plus one
ghost value: the reading address the user last opened pipe 0 with (`listen = True` re-establishes
it; this is C08's topic, here it is only needed to say which registers `listen` programs).
CE is part of the documented effect (`listen`, carrier wave test); time is not.
-/
import NrfModel.Rf24

namespace Nrf.Cfg
open Nrf

/-! ### bit fields, arithmetically -/

/-- value of the `w`-bit field whose lowest bit is bit `lo` -/
def field (x lo w : Nat) : Nat := x / 2 ^ lo % 2 ^ w

/-- `x` with that field replaced by `v` (meant for `v < 2^w`) -/
def setField (x lo w v : Nat) : Nat := x - field x lo w * 2 ^ lo + v * 2 ^ lo

/-- bit `i` of `x` -/
def bitOf (x i : Nat) : Bool := field x i 1 = 1

def b2n (b : Bool) : Nat := if b then 1 else 0

/-- `x` with bit `i` set to `b` -/
def setBit (x i : Nat) (b : Bool) : Nat := setField x i 1 (b2n b)

/-- clamp an integer into `lo..hi` (both non-negative here) -/
def clampI (lo hi : Int) (v : Int) : Nat := (max lo (min hi v)).toNat

/-- a pipe number the API accepts -/
def pipeOk (p : Int) : Prop := 0 ≤ p ∧ p ≤ 5

instance (p : Int) : Decidable (pipeOk p) := by unfold pipeOk; infer_instance

/-- writing `new` (at most 5 bytes) to a 5-byte address register: "the existing address can be
    altered by writing a bytearray with a length less than 5" — the low bytes are replaced -/
def writeAddr (old new : Bytes) : Bytes := new ++ old.drop new.length

/-! ### results and calls -/

/-- what a configuration call returns -/
inductive Ret where
  | unit
  | nat (n : Nat)
  | int (i : Int)
  | bool (b : Bool)
  | bytes (b : Bytes)
  | pair (a b : Nat)
  deriving DecidableEq, Repr, Inhabited

/-- the configuration alphabet of C03 with its argument forms -/
inductive Call where
  | getChannel | setChannel (ch : Int)
  | getDataRate | setDataRate (speed : Int)
  /-- `pa_level = x` for a non-sequence `x` (int, bool, anything else) -/
  | getPaLevel | setPaLevel (a : Arg)
  /-- `pa_level = (level, lna)` -/
  | setPaLevelLna (level : Int) (lna : Bool)
  | isLnaEnabled
  | getCrc | setCrc (n : Int)
  | getAddressLength | setAddressLength (n : Int)
  | getArd | setArd (delay : Int) | getArc | setArc (count : Int)
  | setAutoRetries (delay count : Int) | getAutoRetries
  | getAutoAck | setAutoAckAttr (a : Arg) | setAutoAck (en : Bool) (pipe : Option Int) | getAutoAckPipe (pipe : Int)
  | getDynamicPayloads | setDynamicPayloadsAttr (a : Arg) | setDynamicPayloads (en : Bool) (pipe : Option Int)
  | getDynamicPayloadsPipe (pipe : Int)
  | getPayloadLengthAttr | setPayloadLengthAttr (a : Arg) | setPayloadLength (len : Int) (pipe : Option Int)
  | getPayloadLength (pipe : Int)
  | getAck | setAck (en : Bool)
  | getAllowAskNoAck | setAllowAskNoAck (en : Bool)
  | interruptConfig (dataRecv dataSent dataFail : Bool)
  | getPower | setPower (on : Bool)
  | getListen | setListen (rx : Bool)
  | openRxPipe (pipe : Int) (addr : Bytes) | closeRxPipe (pipe : Int) | openTxPipe (addr : Bytes)
  | address (index : Int)
  | isPlusVariant
  | startCarrierWave | stopCarrierWave
  deriving DecidableEq, Repr, Inhabited

open Rf24 in
/-- the model method (`NrfModel/Rf24.lean`) each call stands for -/
def runCall : Call → DrvM Ret
  | .getChannel => do return .nat (← getChannel)
  | .setChannel ch => do setChannel ch; return .unit
  | .getDataRate => do return .nat (← getDataRate)
  | .setDataRate v => do setDataRate v; return .unit
  | .getPaLevel => do return .int (← getPaLevel)
  | .setPaLevel a => do setPaLevel a none; return .unit
  | .setPaLevelLna v l => do setPaLevel (.i v) (some l); return .unit
  | .isLnaEnabled => do return .bool (← isLnaEnabled)
  | .getCrc => do return .nat (← getCrc)
  | .setCrc n => do setCrc n; return .unit
  | .getAddressLength => do return .nat (← getAddressLength)
  | .setAddressLength n => do setAddressLength n; return .unit
  | .getArd => do return .nat (← getArd)
  | .setArd v => do setArd v; return .unit
  | .getArc => do return .nat (← getArc)
  | .setArc v => do setArc v; return .unit
  | .setAutoRetries d c => do setAutoRetries d c; return .unit
  | .getAutoRetries => do let (a, b) ← getAutoRetries; return .pair a b
  | .getAutoAck => do return .nat (← getAutoAck)
  | .setAutoAckAttr a => do setAutoAckAttr a; return .unit
  | .setAutoAck e p => do setAutoAck e p; return .unit
  | .getAutoAckPipe p => do return .bool (← getAutoAckPipe p)
  | .getDynamicPayloads => do return .nat (← getDynamicPayloads)
  | .setDynamicPayloadsAttr a => do setDynamicPayloadsAttr a; return .unit
  | .setDynamicPayloads e p => do setDynamicPayloads e p; return .unit
  | .getDynamicPayloadsPipe p => do return .bool (← getDynamicPayloadsPipe p)
  | .getPayloadLengthAttr => do return .nat (← getPayloadLengthAttr)
  | .setPayloadLengthAttr a => do setPayloadLengthAttr a; return .unit
  | .setPayloadLength l p => do setPayloadLength l p; return .unit
  | .getPayloadLength p => do return .nat (← getPayloadLength p)
  | .getAck => do return .bool (← getAck)
  | .setAck e => do setAck e; return .unit
  | .getAllowAskNoAck => do return .bool (← getAllowAskNoAck)
  | .setAllowAskNoAck e => do setAllowAskNoAck e; return .unit
  | .interruptConfig a b c => do interruptConfig a b c; return .unit
  | .getPower => do return .bool (← getPower)
  | .setPower b => do setPower b; return .unit
  | .getListen => do return .bool (← getListen)
  | .setListen b => do setListen b; return .unit
  | .openRxPipe p a => do openRxPipe p a; return .unit
  | .closeRxPipe p => do closeRxPipe p; return .unit
  | .openTxPipe a => do openTxPipe a; return .unit
  | .address i => do return .bytes (← address i)
  | .isPlusVariant => do return .bool (← getD).isPlus
  | .startCarrierWave => do startCarrierWave; return .unit
  | .stopCarrierWave => do stopCarrierWave; return .unit

/-! ### the abstract state -/

structure CfgSt where
  /-- configuration part of the chip -/
  r : Radio
  /-- ghost: the address the user opened pipe 0 with (`none` after closing it / never) -/
  user0 : Option Bytes
  deriving Repr, Inhabited

/-! ### documented field encodings (product specification, register map) -/

/-- `data_rate`: RF_SETUP.RF_DR_LOW (bit 5) / RF_DR_HIGH (bit 3) -/
def rateOf (rf : Nat) : Nat := if bitOf rf 5 then 250 else if bitOf rf 3 then 2 else 1

def setRate (rf : Nat) (speed : Int) : Nat :=
  setBit (setBit rf 5 (speed = 250)) 3 (speed = 2)

/-- `pa_level`: RF_SETUP.RF_PWR (bits 2:1), 0 = −18 dBm … 3 = 0 dBm -/
def paOf (rf : Nat) : Int := (field rf 1 2 : Int) * 6 - 18

/-- RF_PWR code of a legal level -/
def paCode (level : Int) : Nat := ((level + 18) / 6).toNat

def paLegal (level : Int) : Prop := level = -18 ∨ level = -12 ∨ level = -6 ∨ level = 0

instance (l : Int) : Decidable (paLegal l) := by unfold paLegal; infer_instance

/-- RF_PWR := code, bit 0 (LNA_HCURR on the non-plus chip, "don't care" on the plus) := lna -/
def setPa (rf : Nat) (level : Int) (lna : Bool) : Nat := setBit (setField rf 1 2 (paCode level)) 0 lna

/-- `crc`: CONFIG.EN_CRC (bit 3), CONFIG.CRCO (bit 2); any EN_AA bit forces the CRC on -/
def crcOf (config enAA : Nat) : Nat :=
  if enAA ≠ 0 ∨ bitOf config 3 then (if bitOf config 2 then 2 else 1) else 0

def setCrcBits (config : Nat) (n : Int) : Nat :=
  let l := clampI 0 2 n
  setBit (setBit config 3 (decide (l ≠ 0))) 2 (decide (l = 2))

/-- SETUP_RETR.ARD (bits 7:4) in 250 µs steps starting at 250 µs; ARC (bits 3:0) -/
def ardOf (retr : Nat) : Nat := field retr 4 4 * 250 + 250
def arcOf (retr : Nat) : Nat := field retr 0 4
/-- "clamped to [250, 4000] … the highest multiple of 250 that is no greater than the input" -/
def ardCode (delay : Int) : Nat := (clampI 250 4000 delay - 250) / 250
/-- "clamped to range [0, 15]" -/
def arcCode (count : Int) : Nat := clampI 0 15 count

/-- per-pipe bit list: index `i` controls pipe `i`; indices > 5 are ignored; a negative entry
    leaves the pipe unaffected -/
def applyList (x : Nat) (i : Nat) : List Int → Nat
  | [] => x
  | v :: vs => applyList (if i < 6 ∧ v ≥ 0 then setBit x i (decide (v ≠ 0)) else x) (i + 1) vs

/-- the new per-pipe mask for the `bool | int | list` argument forms of `auto_ack` /
    `dynamic_payloads`; `none` = invalid input (`ValueError`) -/
def maskArg (cur : Nat) : Arg → Option Nat
  | .b v => some (if v then 0x3F else 0)
  | .i v => some (v % 64).toNat          -- "all bits in positions greater than 5 are ignored"
  | .l vs => some (applyList cur 0 vs)
  | .other => none

/-- static payload lengths from a list: index `i` controls pipe `i`; indices > 5 are ignored; an
    entry ≤ 0 keeps the existing setting; larger than 32 is clamped -/
def plList (pw : List Nat) (i : Nat) : List Int → List Nat
  | [] => pw
  | v :: vs => plList (if i < 6 ∧ v > 0 then pw.set i (clampI 1 32 v) else pw) (i + 1) vs

def plArg (pw : List Nat) : Arg → Option (List Nat)
  | .i v => some (List.replicate 6 (clampI 1 32 v))
  | .b v => some (List.replicate 6 (clampI 1 32 (b2n v)))   -- a `bool` is an `int`
  | .l vs => some (plList pw 0 vs)
  | .other => none

/-- FEATURE.EN_DPL (bit 2) must be set for any DYNPD bit to take effect -/
def withDynpd (r : Radio) (m : Nat) : Radio :=
  { r with dynpd := m, feature := setBit r.feature 2 (decide (m ≠ 0)) }

/-- "custom ACK payloads in effect": EN_ACK_PAY (FEATURE bit 1) ∧ EN_DPL ∧ pipe 0 has auto-ack
    and dynamic payloads -/
def ackOf (r : Radio) : Bool :=
  bitOf r.feature 1 && bitOf r.feature 2 && bitOf r.enAA 0 && bitOf r.dynpd 0

/-- full 5-byte address of RX pipe `p`: pipes 2–5 share bytes 1–4 with pipe 1 -/
def pipeAddr (r : Radio) (p : Nat) : Bytes :=
  if p = 0 then r.rxAddr0 else if p = 1 then r.rxAddr1
  else (r.rxAddrN.getD (p - 2) 0) :: r.rxAddr1.drop 1

/-- leaving RX mode (`listen = False`): CE low, powered up, PRIM_RX = 0, and "the listen attribute
    will ensure data pipe 0 is open to receive automatic acknowledgments" when pipe 0 auto-acks -/
def enterTx (r : Radio) : Radio :=
  { r with ce := false,
           config := setBit (setBit r.config 1 true) 0 false,
           enRxAddr := if bitOf r.enAA 0 then setBit r.enRxAddr 0 true else r.enRxAddr }

/-- entering RX mode (`listen = True`): powered up, PRIM_RX = 1 (written with CE low), CE high; the
    user's pipe-0 reading address is re-established, or pipe 0 closed if the user has none -/
def enterRx (r : Radio) (user0 : Option Bytes) : Radio :=
  { r with ce := true,
           config := setBit (setBit r.config 1 true) 0 true,
           rxAddr0 := match user0 with | some a => writeAddr r.rxAddr0 a | none => r.rxAddr0,
           enRxAddr := match user0 with | some _ => r.enRxAddr | none => setBit r.enRxAddr 0 false }

/-! ### the documented effect of one call -/

/-- Documented effect of a call on the abstract state, and its result.
    `.error e`: the call is rejected with that exception and nothing changes. -/
def docStep (c : Call) (a : CfgSt) : Except PyErr (CfgSt × Ret) :=
  let r := a.r
  let upd (r' : Radio) : Except PyErr (CfgSt × Ret) := .ok ({ a with r := r' }, .unit)
  let ret (v : Ret) : Except PyErr (CfgSt × Ret) := .ok (a, v)
  match c with
  -- RF_CH: "must be in range [0, 125] … otherwise a ValueError"
  | .getChannel => ret (.nat r.rfCh)
  | .setChannel ch => if 0 ≤ ch ∧ ch ≤ 125 then upd { r with rfCh := ch.toNat } else .error .valueError
  -- RF_SETUP
  | .getDataRate => ret (.nat (rateOf r.rfSetup))
  | .setDataRate v =>
    if v = 1 ∨ v = 2 ∨ v = 250 then upd { r with rfSetup := setRate r.rfSetup v } else .error .valueError
  | .getPaLevel => ret (.int (paOf r.rfSetup))
  | .setPaLevel x =>
    -- a `bool` is an `int` (False = 0 dBm, True = 1 is no level); anything else is invalid.
    -- (docs: "invalid input invokes the default"; code and the repo's tests: rejected — DESIGN §7)
    match x with
    | .i v => if paLegal v then upd { r with rfSetup := setPa r.rfSetup v true } else .error .valueError
    | .b v => if v then .error .valueError else upd { r with rfSetup := setPa r.rfSetup 0 true }
    | _ => .error .valueError
  | .setPaLevelLna v l =>
    if paLegal v then upd { r with rfSetup := setPa r.rfSetup v l } else .error .valueError
  | .isLnaEnabled => ret (.bool (bitOf r.rfSetup 0))
  -- CONFIG.EN_CRC / CRCO: "any invalid input will be clamped to range [0, 2]"
  | .getCrc => ret (.nat (crcOf r.config r.enAA))
  | .setCrc n => upd { r with config := setCrcBits r.config n }
  -- SETUP_AW: 3..5 bytes ↦ 1..3; "any invalid input value results in a address length of 2 bytes"
  -- (SETUP_AW = 0, which the chip logs as `SETUP_AW:illegal:0`)
  | .getAddressLength => ret (.nat (r.setupAw + 2))
  | .setAddressLength n =>
    if 3 ≤ n ∧ n ≤ 5 then upd { r with setupAw := n.toNat - 2 }
    else upd { r with setupAw := 0, violations := r.violations ++ ["SETUP_AW:illegal:0"] }
  -- SETUP_RETR
  | .getArd => ret (.nat (ardOf r.setupRetr))
  | .setArd d => upd { r with setupRetr := setField r.setupRetr 4 4 (ardCode d) }
  | .getArc => ret (.nat (arcOf r.setupRetr))
  | .setArc n => upd { r with setupRetr := setField r.setupRetr 0 4 (arcCode n) }
  | .setAutoRetries d n => upd { r with setupRetr := ardCode d * 16 + arcCode n }
  | .getAutoRetries => ret (.pair (ardOf r.setupRetr) (arcOf r.setupRetr))
  -- EN_AA
  | .getAutoAck => ret (.nat r.enAA)
  | .setAutoAckAttr x =>
    match maskArg r.enAA x with
    | some m => upd { r with enAA := m }
    | none => .error .valueError
  | .setAutoAck e p =>
    match p with
    | none => upd { r with enAA := if e then 0x3F else 0 }
    | some p => if pipeOk p then upd { r with enAA := setBit r.enAA p.toNat e } else .error .indexError
  | .getAutoAckPipe p => if pipeOk p then ret (.bool (bitOf r.enAA p.toNat)) else .error .indexError
  -- DYNPD (+ FEATURE.EN_DPL)
  | .getDynamicPayloads => ret (.nat r.dynpd)
  | .setDynamicPayloadsAttr x =>
    match maskArg r.dynpd x with
    | some m => upd (withDynpd r m)
    | none => .error .valueError
  | .setDynamicPayloads e p =>
    match p with
    | none => upd (withDynpd r (if e then 0x3F else 0))
    | some p => if pipeOk p then upd (withDynpd r (setBit r.dynpd p.toNat e)) else .error .indexError
  | .getDynamicPayloadsPipe p => if pipeOk p then ret (.bool (bitOf r.dynpd p.toNat)) else .error .indexError
  -- RX_PW_P0..5: "clamped to the range [1, 32]"
  | .getPayloadLengthAttr => ret (.nat (r.rxPw.getD 0 0))
  | .setPayloadLengthAttr x =>
    match plArg r.rxPw x with
    | some pw => upd { r with rxPw := pw }
    | none => .error .valueError
  | .setPayloadLength l p =>
    match p with
    | none => upd { r with rxPw := List.replicate 6 (clampI 1 32 l) }
    | some p => if pipeOk p then upd { r with rxPw := r.rxPw.set p.toNat (clampI 1 32 l) } else .error .indexError
  | .getPayloadLength p => if pipeOk p then ret (.nat (r.rxPw.getD p.toNat 0)) else .error .indexError
  -- FEATURE.EN_ACK_PAY; enabling also enables what it needs on pipe 0; disabling touches nothing else
  | .getAck => ret (.bool (ackOf r))
  | .setAck e =>
    if e then
      upd { r with enAA := setBit r.enAA 0 true, dynpd := setBit r.dynpd 0 true,
                   feature := setBit (setBit r.feature 2 true) 1 true }
    else upd { r with feature := setBit r.feature 1 false }
  -- FEATURE.EN_DYN_ACK
  | .getAllowAskNoAck => ret (.bool (bitOf r.feature 0))
  | .setAllowAskNoAck e => upd { r with feature := setBit r.feature 0 e }
  -- CONFIG.MASK_RX_DR / MASK_TX_DS / MASK_MAX_RT (bits 6, 5, 4; a set bit *disables* the IRQ)
  | .interruptConfig dr ds df =>
    upd { r with config := setBit (setBit (setBit r.config 6 (!dr)) 5 (!ds)) 4 (!df) }
  -- CONFIG.PWR_UP
  | .getPower => ret (.bool (bitOf r.config 1))
  | .setPower on => upd { r with config := setBit r.config 1 on }
  -- CONFIG.PRIM_RX (+ PWR_UP, CE, pipe 0)
  | .getListen => ret (.bool (bitOf r.config 1 && bitOf r.config 0))
  | .setListen rx => upd (if rx then enterRx r a.user0 else enterTx r)
  -- pipes
  | .openRxPipe p addr =>
    if ¬ pipeOk p then .error .indexError
    else if addr = [] then .error .valueError
    else
      let n := p.toNat
      let r' : Radio :=
        if n = 0 then { r with rxAddr0 := writeAddr r.rxAddr0 addr }
        else if n = 1 then { r with rxAddr1 := writeAddr r.rxAddr1 addr }
        else { r with rxAddrN := r.rxAddrN.set (n - 2) (addr.headD 0) }
      .ok ({ r := { r' with enRxAddr := setBit r.enRxAddr n true },
             user0 := if n = 0 then some addr else a.user0 }, .unit)
  | .closeRxPipe p =>
    if pipeOk p then
      .ok ({ r := { r with enRxAddr := setBit r.enRxAddr p.toNat false },
             user0 := if p = 0 then none else a.user0 }, .unit)
    else .error .indexError
  | .openTxPipe addr =>
    -- "RX pipe 0 is appropriated with the TX address when auto_ack is enabled for data pipe 0";
    -- in TX mode pipe 0 is then (re)opened so that the acknowledgement can be received
    upd { r with txAddr := writeAddr r.txAddr addr,
                 rxAddr0 := if bitOf r.enAA 0 then writeAddr r.rxAddr0 addr else r.rxAddr0,
                 enRxAddr := if bitOf r.enAA 0 ∧ ¬ bitOf r.config 0 then setBit r.enRxAddr 0 true else r.enRxAddr }
  | .address i =>
    if i > 5 then .error .indexError
    else if i < 0 then ret (.bytes r.txAddr)
    else ret (.bytes (pipeAddr r i.toNat))
  | .isPlusVariant => ret (.bool r.plus)
  -- carrier wave test (nRF24L01+): power cycled, TX mode, RF_SETUP.CONT_WAVE (bit 7) and
  -- PLL_LOCK (bit 4) set, CE high; stopping: CE low, powered down, both bits cleared
  | .startCarrierWave =>
    let t := enterTx r
    upd { t with rfSetup := setBit (setBit t.rfSetup 7 true) 4 true, ce := true }
  | .stopCarrierWave =>
    upd { r with ce := false, config := setBit r.config 1 false,
                 rfSetup := setBit (setBit r.rfSetup 7 false) 4 false }

/-! ### the explored domain and the range invariant of the registers -/

/-- Arguments the theorems quantify over: addresses are `bytes` of at most 5 bytes (longer ones
    are outside the explored domain — an explicit hypothesis; `open_rx_pipe` with an empty address is
    inside it and rejected, `open_tx_pipe` is considered for 1..5 bytes), and the carrier wave test is
    covered on the plus variant only (on a non-plus chip it *documents* that it leaves settings
    altered until `with` restores them). -/
def Call.dom (plus : Bool) : Call → Prop
  | .openRxPipe _ a => a.length ≤ 5 ∧ Bytes.wf a
  | .openTxPipe a => a ≠ [] ∧ a.length ≤ 5 ∧ Bytes.wf a
  | .startCarrierWave => plus = true
  | .stopCarrierWave => plus = true
  | _ => True

instance (plus : Bool) (c : Call) : Decidable (c.dom plus) := by
  cases c <;> unfold Call.dom <;> infer_instance

/-- log entries that are not C03's concern: the library documents `address_length` outside 3..5
    as "2 bytes" (the chip calls SETUP_AW = 0 illegal), and role changes with CE high are C08's -/
def LogOk (l : List String) : Prop :=
  ∀ e ∈ l, e = "SETUP_AW:illegal:0" ∨ e.startsWith "CE:" = true

/-- the ghost reading address, when there is one, is what `open_rx_pipe(0, …)` accepts: 1..5 bytes -/
def P0Ok (o : Option Bytes) : Prop := ∀ ra, o = some ra → ra ≠ [] ∧ ra.length ≤ 5 ∧ Bytes.wf ra

/-- every configuration register is within its documented range, no reserved bit is set, the
    feature registers are accessible, nothing reserved / out of range was ever written -/
structure CfgOk (r : Radio) : Prop where
  config : r.config < 128
  enAA : r.enAA < 64
  enRxAddr : r.enRxAddr < 64
  setupAw : r.setupAw < 4
  setupRetr : r.setupRetr < 256
  rfCh : r.rfCh ≤ 125
  rfSetup : r.rfSetup < 256 ∧ bitOf r.rfSetup 6 = false
  dynpd : r.dynpd < 64
  feature : r.feature < 8
  rxPwLen : r.rxPw.length = 6
  rxPw : ∀ x ∈ r.rxPw, 1 ≤ x ∧ x ≤ 32
  a0 : r.rxAddr0.length = 5 ∧ Bytes.wf r.rxAddr0
  a1 : r.rxAddr1.length = 5 ∧ Bytes.wf r.rxAddr1
  aN : r.rxAddrN.length = 4 ∧ Bytes.wf r.rxAddrN
  tx : r.txAddr.length = 5 ∧ Bytes.wf r.txAddr
  vis : r.featureVisible = true
  log : LogOk r.violations

/-! ### fields and their owners (for "a call alters no bit field that does not belong to it") -/

/-- the bit fields / registers the attributes of the API stand for -/
inductive Field where
  | channel | dataRate | paLevel | lna | contWave | crcBits | irqMask | power | role | addressLength
  | ard | arc | autoAck | dynamicPayloads | enDpl | payloadLengths | ackPayloads | askNoAck
  | pipeMask | rxAddr0 | rxAddr1 | rxAddrN | txAddr | ce
  deriving DecidableEq, Repr

/-- the value of a field, as the registers hold it -/
def obs : Field → Radio → List Nat
  | .channel, r => [r.rfCh]
  | .dataRate, r => [rateOf r.rfSetup]
  | .paLevel, r => [field r.rfSetup 1 2]
  | .lna, r => [field r.rfSetup 0 1]
  | .contWave, r => [field r.rfSetup 7 1, field r.rfSetup 4 1]
  | .crcBits, r => [field r.config 2 2]
  | .irqMask, r => [field r.config 4 3]
  | .power, r => [field r.config 1 1]
  | .role, r => [field r.config 0 1]
  | .addressLength, r => [r.setupAw]
  | .ard, r => [field r.setupRetr 4 4]
  | .arc, r => [field r.setupRetr 0 4]
  | .autoAck, r => [r.enAA]
  | .dynamicPayloads, r => [r.dynpd]
  | .enDpl, r => [field r.feature 2 1]
  | .payloadLengths, r => r.rxPw
  | .ackPayloads, r => [field r.feature 1 1]
  | .askNoAck, r => [field r.feature 0 1]
  | .pipeMask, r => [r.enRxAddr]
  | .rxAddr0, r => r.rxAddr0
  | .rxAddr1, r => r.rxAddr1
  | .rxAddrN, r => r.rxAddrN
  | .txAddr, r => r.txAddr
  | .ce, r => [b2n r.ce]

/-- the fields the documentation assigns to a call (what it may change); getters own nothing -/
def owns : Call → Field → Bool
  | .setChannel _, f => f = .channel
  | .setDataRate _, f => f = .dataRate
  | .setPaLevel _, f => f = .paLevel || f = .lna
  | .setPaLevelLna _ _, f => f = .paLevel || f = .lna
  | .setCrc _, f => f = .crcBits
  | .setAddressLength _, f => f = .addressLength
  | .setArd _, f => f = .ard
  | .setArc _, f => f = .arc
  | .setAutoRetries _ _, f => f = .ard || f = .arc
  | .setAutoAckAttr _, f => f = .autoAck
  | .setAutoAck _ _, f => f = .autoAck
  | .setDynamicPayloadsAttr _, f => f = .dynamicPayloads || f = .enDpl
  | .setDynamicPayloads _ _, f => f = .dynamicPayloads || f = .enDpl
  | .setPayloadLengthAttr _, f => f = .payloadLengths
  | .setPayloadLength _ _, f => f = .payloadLengths
  | .setAck _, f => f = .ackPayloads || f = .autoAck || f = .dynamicPayloads || f = .enDpl
  | .setAllowAskNoAck _, f => f = .askNoAck
  | .interruptConfig _ _ _, f => f = .irqMask
  | .setPower _, f => f = .power
  | .setListen _, f => f = .role || f = .power || f = .ce || f = .pipeMask || f = .rxAddr0
  | .openRxPipe _ _, f => f = .pipeMask || f = .rxAddr0 || f = .rxAddr1 || f = .rxAddrN
  | .closeRxPipe _, f => f = .pipeMask
  | .openTxPipe _, f => f = .txAddr || f = .rxAddr0 || f = .pipeMask
  | .startCarrierWave, f => f = .contWave || f = .power || f = .role || f = .ce || f = .pipeMask
  | .stopCarrierWave, f => f = .contWave || f = .power || f = .ce
  | _, _ => false

end Nrf.Cfg
