/-
S — what property C14 demands of a multicast (written from the property text and
docs/network_docs/network_api.rst `multicast()`, `multicast_level`, `multicast_relay`,
`allow_multicast`, docs/network_docs/topology.rst "network levels" — not from the implementation).

* `multicast(message, message_type, level)` addresses network level `level` (0..4; out-of-range
  values are clamped), by default the node's own `multicast_level`.
* The frame carries `to_node = 0o100` (NETWORK_MULTICAST_ADDR), `from_node` = the sender's logical
  address, the message type's low byte; it goes to the address shared by the nodes of that level
  (`Spec.levelAddrSpec`), "the radio's auto_ack feature is not used".
* A radio *listens for level `L`* when it is in RX mode, pipe 0 is open on the level address and
  pipe 0 does not auto-acknowledge.  `Listening` is the complete description of the radio of a
  network node that sits on the tree node `ds` (its six pipes, as `Spec.listenSpec` demands).
* A relay on level 1..3 re-broadcasts to the next level.
-/
import NrfModel.Air
import NrfModel.Spec.Tree

namespace Nrf.Spec.Multicast
open Nrf Nrf.Spec

/-- the network level a `multicast(…, level)` call addresses -/
def targetLevel (ownLevel : Nat) (level : Option Int) : Nat :=
  match level with
  | none => ownLevel
  | some l => if l < 0 then 0 else if l > 4 then 4 else l.toNat

/-- the `to_node` of every multicast frame -/
def MULTICAST_TO : Nat := 0o100

/-- the level a relay on level `l` re-broadcasts to -/
def relayLevel (l : Nat) : Nat := l + 1

/-- does the node on tree node `ds` (allow_multicast = `am`) receive what is sent to level `L`:
    it allows multicast and sits on that level — or it does not, is the master, and `L = 0` (the
    master's private pipe-0 address is the level-0 address of this addressing scheme) -/
def holdsLevel (am : Bool) (ds : List Nat) (L : Nat) : Bool :=
  (am && ds.length == L) || (!am && ds.isEmpty && L == 0)

/-- levels on which a relay re-broadcasts according to the property -/
def relayLevels : List Nat := [1, 2, 3]

/-- The radio of a network node sitting on tree node `ds` (prefix byte `pfx`, suffix bytes `sfx`,
    `am` = allow_multicast), while the node is not transmitting: RX mode, all six pipes open with
    5-byte addresses as `listenSpec` demands, Enhanced ShockBurst with dynamic payload length on
    every pipe, auto-acknowledgement on pipes 1..5 and **off on pipe 0**. -/
structure Listening (pfx : Nat) (sfx : List Nat) (am : Bool) (ds : List Nat) (r : Radio) : Prop where
  rx : r.rxMode = true
  open_ : ∀ p, p ≤ 5 → Radio.bit r.enRxAddr p = true
  aw : r.aw = 5
  addr : ∀ p, p ≤ 5 → some (r.rxAddr p) = listenSpec pfx sfx am ds p
  autoAck : r.enAA = 0x3E
  dpl : ∀ p, p ≤ 5 → r.dplOn p = true

/-- the multicast packet as it is on the air: what the sender's radio (with `EN_AA = 0x3E`, dynamic
    payloads on pipe 0, 5-byte addresses) emits for TX address `x` -/
structure McPacket (x : Bytes) (k : Packet) : Prop where
  addr : k.addr = x
  esb : k.esb = true
  dpl : k.dpl = true

/-- sender and receiver agree on channel, data rate and CRC scheme (they were configured alike) -/
def Compatible (r : Radio) (k : Packet) : Prop := r.rfCh = k.ch ∧ r.rate = k.rate ∧ r.crcLen = k.crc

/-- executable summary of what one radio did with a packet: `(stored on pipe, acknowledged)` -/
def outcome (r : Radio) (k : Packet) : Option Nat × Bool :=
  (if (r.receive k).1.rxFifo.length = r.rxFifo.length + 1 then ((r.receive k).1.rxFifo.getLast?.map (·.pipe)) else none,
   (r.receive k).2.isSome)

end Nrf.Spec.Multicast
