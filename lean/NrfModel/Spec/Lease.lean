/-
S — "the mesh master leases each logical address to at most one node ID" (property C16), written
from the property text and docs/network_docs (topology.rst: a parent has children 1..5, at most four
octal digits; constants.rst: MESH_MAX_CHILDREN = 4 children are handed out per node, the master
accepts a fifth for a node that reaches it directly), not from the implementation.

The table is a finite map from node IDs to addresses, given as a list of `(id, address)` pairs;
nothing here depends on the order of the pairs.
-/
import NrfModel.Basic
import NrfModel.Spec.Tree

namespace Nrf.Spec

abbrev Leases := List (Nat × Nat)

/-- the address every node has before it is given one -/
def UNASSIGNED : Nat := 0o4444

/-- an address the master may hand out: a node of the tree other than the master (one to four
    octal digits 1..5, hence ≠ 0 and not a multicast address) and not the unassigned address -/
def Leasable (a : Nat) : Prop := a ≠ UNASSIGNED ∧ ∃ ds, IsNode ds ∧ ds ≠ [] ∧ val ds = a

/-- the property's invariant -/
structure Inv (t : Leases) : Prop where
  /-- the table is a map: an ID holds one lease -/
  oneLeasePerId : (t.map Prod.fst).Nodup
  /-- no two different IDs map to the same address -/
  oneIdPerAddr : ∀ i j a, (i, a) ∈ t → (j, a) ∈ t → i = j
  /-- every leased address is valid, not 0, not 0o4444 -/
  leasable : ∀ i a, (i, a) ∈ t → Leasable a
  /-- node IDs are bytes -/
  idByte : ∀ i a, (i, a) ∈ t → i < 256

/-- the child number `i` of the node with digits `via` -/
def child (via : List Nat) (i : Nat) : Nat := val (via ++ [i])

/-- `a` is a direct child of the node with digits `via` -/
def ChildOf (via : List Nat) (a : Nat) : Prop := ∃ i, 1 ≤ i ∧ i ≤ 5 ∧ a = child via i

/-- `a` is leased to an ID other than `id` -/
def LeasedToOther (t : Leases) (id a : Nat) : Prop := ∃ j, j ≠ id ∧ (j, a) ∈ t

/-! ### executable form (used by the failing-input search through the driver) -/

/-- `a` is written with at most `n` octal digits, each in 1..5 -/
def digitsB : Nat → Nat → Bool
  | 0, a => a == 0
  | n + 1, a => a == 0 || (decide (1 ≤ a % 8) && decide (a % 8 ≤ 5) && digitsB n (a / 8))

def leasableB (a : Nat) : Bool := a != 0 && a != UNASSIGNED && digitsB 4 a

def invB (t : Leases) : Bool :=
  decide (t.map Prod.fst).Nodup && decide (t.map Prod.snd).Nodup
    && t.all (fun e => leasableB e.2 && decide (e.1 < 256))

/-- octal digits of `a`, least significant first (`fuel` digits at most) -/
def octDigits : Nat → Nat → List Nat
  | 0, _ => []
  | f + 1, a => if a = 0 then [] else (a % 8) :: octDigits f (a / 8)

/-- Through which node did a request with `from_node = fromNode` arrive?  `some (digits, direct)`:
    directly from the unassigned requester (then the parent is the master and `direct` is set) or
    relayed by a node of level 0..3; `none`: not a request the property speaks about. -/
def arrival (fromNode : Nat) : Option (List Nat × Bool) :=
  if fromNode = UNASSIGNED then some ([], true)
  else
    let ds := octDigits 4 fromNode
    if val ds = fromNode ∧ DigitsOk ds ∧ ds.length ≤ 3 then some (ds, false) else none

/-- number of children the master hands out below a parent -/
def capacity (direct : Bool) : Nat := if direct then 5 else 4

/-- the addresses that can be handed out below `via` -/
def slots (via : List Nat) (direct : Bool) : List Nat :=
  ((List.range' 1 (capacity direct)).map (child via)).filter (· != UNASSIGNED)

def leasedToOtherB (t : Leases) (id a : Nat) : Bool := t.any fun e => e.2 == a && e.1 != id

/-- equality of finite maps given as duplicate-free pair lists -/
def sameMapB (t u : Leases) : Bool := t.all (u.contains ·) && u.all (t.contains ·)

/-- the map `t` with `id ↦ a` -/
def assign (t : Leases) (id a : Nat) : Leases := (id, a) :: t.filter (·.1 != id)

/-- the map `t` without the holder of address `a` -/
def without (t : Leases) (a : Nat) : Leases := t.filter (·.2 != a)

/-- what the search can observe of one transmission of the master -/
structure ReplyObs where
  writeDirect : Nat
  sendType : Nat
  hdrTo : Nat
  hdrType : Nat
  hdrReserved : Nat
  message : Bytes
  deriving DecidableEq, Repr, Inhabited

/-- "the reply travels back toward the requester carrying its ID": response type 128, addressed to
    the relay (routed) or to the unassigned address (physically, for a direct request), `reserved`
    = the ID, body = the address as 16 bits little endian -/
def replyOkB (w : ReplyObs) (fromNode id a : Nat) (direct : Bool) : Bool :=
  w.writeDirect == fromNode && w.hdrTo == fromNode && w.hdrType == 128 && w.hdrReserved == id
    && w.message == [a % 256, a / 256] && w.sendType == (if direct then 2 else 0)

/-- the events of a master's history, as the property sees them -/
inductive LeaseEv where
  | request (fromNode id : Nat)
  | release (addr : Nat)
  | lookupAddr (id : Nat)
  | lookupId (addr : Nat)
  /-- any other frame or call after which the table has to be what it was -/
  | readOnly
  | save (bin : Bool)
  | load (bin : Bool)
  | reboot
  /-- not an event the property speaks about (manual `set_address`, a request that carries ID 0 or
      comes from something that is no node of level 0..3): nothing is demanded of this step -/
  | outside
  deriving DecidableEq, Repr, Inhabited

/-- what the search observes after an event -/
structure StepObs where
  table : Leases
  writes : List ReplyObs := []
  raised : Bool := false
  ret : Int := 0
  /-- lookups answer from the table only while the master still has address 0 -/
  answering : Bool := true
  deriving DecidableEq, Repr, Inhabited

/-- the tables that were saved (per format) -/
structure Saved where
  bin : Option Leases := none
  json : Option Leases := none
  deriving DecidableEq, Repr, Inhabited

def Saved.get (s : Saved) (bin : Bool) : Option Leases := if bin then s.bin else s.json
def Saved.put (s : Saved) (bin : Bool) (t : Leases) : Saved :=
  if bin then { s with bin := some t } else { s with json := some t }

/-- the request clause of the property: `tb` before, `o` after -/
def requestOkB (tb : Leases) (fromNode id : Nat) (o : StepObs) : Bool :=
  match arrival fromNode with
  | none => true
  | some (via, direct) =>
    if id = 0 ∨ 255 < id then true else
    !o.raised &&
    (if o.writes.isEmpty then
      -- nothing handed out: only if every slot below the parent is leased to another ID
      sameMapB o.table tb && (slots via direct).all (leasedToOtherB tb id)
    else
      -- handed out: a direct child (1..5) of the parent, leasable, not leased to another ID;
      -- the ID's only lease; everybody else keeps theirs; every reply correct
      ((List.range' 1 5).map (child via)).any fun a =>
        leasableB a && !leasedToOtherB tb id a && sameMapB o.table (assign tb id a)
          && o.writes.all (replyOkB · fromNode id a direct))

/-- does the observed step satisfy what the property demands of event `e` in a master whose table
    was `tb` (`tb` satisfying the invariant)?  Also returns the saved tables afterwards. -/
def stepOkB (s : Saved) (tb : Leases) (e : LeaseEv) (o : StepObs) : Bool × Saved :=
  match e with
  | .outside => (true, s)
  | .request fromNode id =>
    -- only IDs 1..255 arriving directly or through a node of level 0..3 are the property's
    if (arrival fromNode).isNone ∨ id = 0 ∨ 255 < id then (true, s)
    else (requestOkB tb fromNode id o && invB o.table, s)
  | .release addr =>
    (!o.raised && sameMapB o.table (if addr = 0 then tb else without tb addr) && invB o.table, s)
  | .lookupAddr id =>
    (!o.raised && sameMapB o.table tb && invB o.table &&
      (!o.answering || id == 0 || (match tb.find? (·.1 == id) with
        | some e => o.ret == (e.2 : Int)
        | none => o.ret == -2)), s)
  | .lookupId addr =>
    (!o.raised && sameMapB o.table tb && invB o.table &&
      (!o.answering || addr == 0 || (match tb.find? (·.2 == addr) with
        | some e => o.ret == (e.1 : Int)
        | none => o.ret == -2)), s)
  | .readOnly => (sameMapB o.table tb && invB o.table, s)
  | .save bin => (!o.raised && sameMapB o.table tb && invB o.table, s.put bin tb)
  | .load bin =>
    match s.get bin with
    | none => (true, s)   -- no such file: the call raises, outside the property
    | some f =>
      -- into an empty master the saved table comes back exactly; otherwise the invariant is kept
      (!o.raised && invB o.table && (!tb.isEmpty || sameMapB o.table f), s)
  | .reboot => (o.table.isEmpty, s)

/-- run the judge over a history: the index and event of the first step that violates the property
    (`none`: no violation).  A step is only judged from a table satisfying the invariant. -/
def judgeGo : Nat → Saved → Leases → List (LeaseEv × StepObs) → Option Nat
  | _, _, _, [] => none
  | i, s, tb, (e, o) :: rest =>
    if !invB tb then none
    else
      let (ok, s') := stepOkB s tb e o
      if !ok then some i else judgeGo (i + 1) s' o.table rest

def judge (h : List (LeaseEv × StepObs)) : Option Nat := judgeGo 0 {} [] h

end Nrf.Spec
