/-
S — wire formats, written from the property text of C11 and docs/network_docs (not from the
implementation): the 8-byte header layout, the frame layout, the reference fragment encoder.
-/
import NrfModel.Basic

namespace Nrf.Spec

/-- a frame as it is on the air: origin, destination, frame id, type byte, reserved byte, body -/
structure WFrame where
  src : Nat
  dst : Nat
  id : Nat
  ty : Nat
  rsv : Nat
  body : Bytes
  deriving DecidableEq, Repr, Inhabited

/-- "12-bit addresses, 16-bit ids, all 256 types and reserved values" -/
def WFrame.InRange (f : WFrame) : Prop :=
  f.src < 4096 ∧ f.dst < 4096 ∧ f.id < 65536 ∧ f.ty < 256 ∧ f.rsv < 256

instance (f : WFrame) : Decidable f.InRange := by unfold WFrame.InRange; infer_instance

/-- "exactly 8 bytes - origin, destination and frame id as little-endian 16-bit values, then the
    type byte and the reserved byte" -/
def headerBytes (f : WFrame) : Bytes :=
  [f.src % 256, f.src / 256, f.dst % 256, f.dst / 256, f.id % 256, f.id / 256, f.ty, f.rsv]

/-- "a frame is its header followed by the unmodified message" -/
def frameBytes (f : WFrame) : Bytes := headerBytes f ++ f.body

/-- the receiver's view of a payload; "buffers shorter than 8 bytes are refused" -/
def parseFrame (b : Bytes) : Option WFrame :=
  match b with
  | s0 :: s1 :: d0 :: d1 :: i0 :: i1 :: ty :: rsv :: body =>
    some { src := s0 + 256 * s1, dst := d0 + 256 * d1, id := i0 + 256 * i1, ty := ty, rsv := rsv,
           body := body }
  | _ => none

def FRAG_FIRST : Nat := 148
def FRAG_MORE : Nat := 149
def FRAG_LAST : Nat := 150
def FRAG_SIZE : Nat := 24

/-- `ceil(n / 24)` -/
def fragCount (n : Nat) : Nat := (n + (FRAG_SIZE - 1)) / FRAG_SIZE

/-- a message as a sender's application hands it over -/
structure Msg where
  src : Nat
  dst : Nat
  id : Nat
  ty : Nat
  body : Bytes
  deriving DecidableEq, Repr, Inhabited

/-- the `k`-th of `total` fragments of `m`: "typed first/more/last, with a descending fragment
    counter in the reserved byte and the original type in the last fragment's reserved byte" -/
def fragment (m : Msg) (total k : Nat) : WFrame :=
  { src := m.src, dst := m.dst, id := m.id,
    ty := if k + 1 = total then FRAG_LAST else if k = 0 then FRAG_FIRST else FRAG_MORE,
    rsv := if k + 1 = total then m.ty else total - k,
    body := (m.body.drop (FRAG_SIZE * k)).take FRAG_SIZE }

/-- the reference encoder: what a message looks like on the air.  `rsv0` is the reserved byte of
    an unfragmented frame (the wire format does not assign it a meaning). -/
def refFrames (m : Msg) (rsv0 : Nat := 0) : List WFrame :=
  if m.body.length ≤ FRAG_SIZE then
    [{ src := m.src, dst := m.dst, id := m.id, ty := m.ty, rsv := rsv0, body := m.body }]
  else (List.range (fragCount m.body.length)).map (fragment m (fragCount m.body.length))

end Nrf.Spec
