/-
S — NETWORK_ACK (C13).  Written from the property text and docs/network_docs (“message types
65..191 are acknowledged end to end by the node that delivers them”), not from the implementation:
`AckAction`, `AckType`, `originRule`, `forwarderRule` (they use only the address tree of `Spec/Tree.lean`).

NOT independent of the implementation: `ackCont` imports `NrfModel.Net.Node` and calls the judged model's
own functions (`ackWait`, `nodeWriteToPipe`, `logi2phys`, `Rf24.setListen`, `Rf24.setAutoAckAttr`); it is a
**re-bracketing of the model's own control flow** — the three tails of `nodeWrite` — not an independent
specification.  `C13_when_step` ("`nodeWrite` continues with `ackCont (ackAction …)`") is therefore
"model = model re-bracketed"; the independent content of C13's decision part is `C13_when_meaning`
conjuncts 1-2 (`ackAction` = `originRule` / `forwarderRule` on the tree).

Roles on the tree (digit lists of `Spec/Tree.lean`): the *origin* `s` of a frame for `d`, and the
*forwarders* — the intermediate nodes of the tree path.  What each of them has to do about the
network-level acknowledgement after it handed the frame to its next hop is one of three actions.
-/
import NrfModel.Spec.Tree
import NrfModel.Net.Node

namespace Nrf.Spec
open Nrf Nrf.Net

/-- what a node does about NETWORK_ACK after its next hop accepted the frame -/
inductive AckAction where
  | none    -- nothing: restore listening, report the link's verdict
  | emit    -- send one NETWORK_ACK back to the frame's origin
  | await   -- wait (at most `route_timeout`) for a NETWORK_ACK
  deriving DecidableEq, Repr, Inhabited

/-- "a message whose type is in 65..191" -/
def AckType (t : Nat) : Prop := 65 ≤ t ∧ t ≤ 191

instance (t : Nat) : Decidable (AckType t) := by unfold AckType; infer_instance

/-- The property's rule for the origin `s` of a unicast frame for `d` of type `t`: wait iff the type
    asks for it and the route has an intermediate node (the first hop is not the destination). -/
def originRule (s d : List Nat) (t : Nat) : AckAction :=
  if AckType t ∧ nextHopSpec s d ≠ d then .await else .none

/-- The property's rule for a forwarder `x` of a frame from `s` for `d` of type `t`: acknowledge iff
    the type asks for it, this hop delivers to the final destination, and the frame is not the
    forwarder's own. -/
def forwarderRule (x s d : List Nat) (t : Nat) : AckAction :=
  if AckType t ∧ nextHopSpec x d = d ∧ s ≠ x then .emit else .none

/-- (re-bracketing of the three tails of the model's `nodeWrite`, calls model functions — see the file
    header) the three actions, operationally (`f` = fuel of the nested calls; `result` = the verdict of the
    transmission to the next hop; `isMulticast` = it was sent without auto-ack) -/
def ackCont (f : Nat) (act : AckAction) (result isMulticast : Bool) : NetM Bool :=
  match act with
  | .emit => do
    -- the frame in `frame_buf` becomes the acknowledgement: type 193, addressed to its origin,
    -- handed once to the hop towards the origin; then listen again and report the data hop's verdict
    let n ← getNode
    setHdr fun h => { (h.setTy NETWORK_ACK) with toNode := h.fromNode }
    let hop := logi2phys n.a n.frameBuf.header.fromNode TX_ROUTED
    let _ ← nodeWriteToPipe f hop.1 hop.2.1 hop.2.2
    liftRf (Rf24.setListen true)
    if !hop.2.2 then liftRf (Rf24.setAutoAckAttr (.i 0x3E))
    return result
  | .await => do
    -- listen again (auto-ack as for reception), poll the network until a NETWORK_ACK is returned
    -- or `route_timeout` ms have passed; that is the result
    let n ← getNode
    liftRf (Rf24.setListen true)
    liftRf (Rf24.setAutoAckAttr (.i 0x3E))
    let deadline := n.routeTimeout * 1000000 + (← nowNs)
    ackWait f deadline
  | .none => do
    liftRf (Rf24.setListen true)
    if !isMulticast then liftRf (Rf24.setAutoAckAttr (.i 0x3E))
    return result

end Nrf.Spec
