/-
S — what the link-level properties C01 / C02 / C10 demand, written from the property texts and the
public documentation (`docs/core_api/*.rst`), as functions of the *radio* state (the ground truth
of the simulated chip) and of the fault pattern — never of the driver object.
-/
import NrfModel.Rf24

namespace Nrf.Spec.Link

/-! ### C10 — ground truth of the accessors -/

/-- `pipe`: "`None` if there is no payload in RX FIFO", else "the pipe number [0,5] that received
    the next available payload" -/
def nextPipe (r : Radio) : Option Nat :=
  match r.rxFifo with
  | [] => none
  | e :: _ => some e.pipe

/-- `any()`: "the next available payload's length (in bytes)", 0 when there is none -/
def nextLen (r : Radio) : Nat :=
  match r.rxFifo with
  | [] => 0
  | e :: _ => e.data.length

/-- the payload `read()` has to return -/
def nextPayload (r : Radio) : Option Bytes :=
  match r.rxFifo with
  | [] => none
  | e :: _ => some e.data

/-- `available()`: "is there a payload in the RX FIFO" -/
def hasPayload (r : Radio) : Bool := !r.rxFifo.isEmpty

/-- latched events -/
def dataReady (r : Radio) : Bool := r.flags &&& 0x40 ≠ 0
def dataSent (r : Radio) : Bool := r.flags &&& 0x20 ≠ 0
def dataFail (r : Radio) : Bool := r.flags &&& 0x10 ≠ 0

/-- `tx_full`: all three levels of the TX FIFO are occupied -/
def txFifoFull (r : Radio) : Bool := decide (r.txFifo.length ≥ 3)

/-- `fifo(about_tx, check_empty)` about a FIFO holding `n` payloads (docs: `check_empty=True` "is
    it empty", `False` "is it full", `None`: 1 = empty, 2 = full, 0 = neither); booleans as 0/1 -/
def fifoAnswer (n : Nat) (checkEmpty : Option Bool) : Nat :=
  match checkEmpty with
  | none => if n = 0 then 1 else if n ≥ 3 then 2 else 0
  | some true => if n = 0 then 1 else 0
  | some false => if n ≥ 3 then 1 else 0

def fifoOf (r : Radio) (aboutTx : Bool) : Nat := if aboutTx then r.txFifo.length else r.rxFifo.length

/-- `interrupt_config(data_recv, data_sent, data_fail)`: the IRQ pin is asserted iff an *enabled*
    event is latched -/
def irqExpected (enDr enDs enDf : Bool) (r : Radio) : Bool :=
  (enDr && dataReady r) || (enDs && dataSent r) || (enDf && dataFail r)

/-- the flags `clear_status_flags(dr, ds, df)` leaves latched -/
def clearedFlag (was clear : Bool) : Bool := was && !clear

/-! ### C02 — ground truth of a transmission from the fault pattern -/

/-- outcome of attempt number `i` (0-based) under fault pattern `fs`: the pattern, then
    undisturbed air -/
def outcomeAt (fs : List Outcome) (i : Nat) : Outcome := fs.getD i .delivered

/-- some attempt among the first `budget` gets packet and acknowledgement through -/
def hasDelivered (fs : List Outcome) (budget : Nat) : Prop := ∃ i, i < budget ∧ outcomeAt fs i = .delivered

/-- the same, executable: scan the pattern -/
def hasDeliveredB : List Outcome → Nat → Bool
  | _, 0 => false
  | [], _ + 1 => true
  | .delivered :: _, _ + 1 => true
  | _ :: fs, b + 1 => hasDeliveredB fs b

/-- number of attempts a cycle with `budget` attempts makes when the peer acknowledges: up to
    and including the first `delivered` one -/
def attemptsUsed : List Outcome → Nat → Nat
  | _, 0 => 0
  | [], _ + 1 => 1
  | .delivered :: _, _ + 1 => 1
  | _ :: fs, b + 1 => 1 + attemptsUsed fs b

/-- the attempt budget of `send(buf, force_retry=n)`: `(1 + ARC) · (1 + n)` -/
def budget (arc forceRetry : Nat) : Nat := (1 + arc) * (1 + forceRetry)

/-- ground truth of `send(buf, force_retry = n)` under fault pattern `fs`: the radio completes the
    transmission iff no acknowledgement is requested (`awaits = false`: auto-ack off, or
    `ask_no_ack` honoured), or a listening peer acknowledges and the sender can hear it (`acked`)
    and one of the `(1 + arc) · (1 + n)` budgeted attempts is `delivered` -/
def sendSucceeds (awaits acked : Bool) (fs : List Outcome) (arc n : Nat) : Prop :=
  awaits = false ∨ (acked = true ∧ hasDelivered fs (budget arc n))

/-- the same, executable -/
def sendSucceedsB (awaits acked : Bool) (fs : List Outcome) (arc n : Nat) : Bool :=
  !awaits || (acked && hasDeliveredB fs (budget arc n))

/-- the ACK payload the transmitter takes into its RX FIFO when its cycle succeeds: the one riding
    on the acknowledgement, if an acknowledgement was awaited, the radio is set up to take ACK
    payloads and its RX FIFO has room -/
def ackTaken (awaits : Bool) (a : Option (Option Bytes)) (canTake room : Bool) : Option Bytes :=
  if awaits && canTake && room then (match a with | some (some d) => some d | _ => none) else none

/-- the value `send()` / `resend()` must return for a completed transmission: "with ACK payloads
    enabled and send_only off it returns the peer's ACK payload instead of True" -/
def okResult (sendOnly : Bool) (taken : Option Bytes) : Rf24.SendRes :=
  if sendOnly then .bool true else
    match taken with
    | some d => .payload (some d)
    | none => .bool true

/-- what `send()` must return -/
def sendExpected (succeeds sendOnly : Bool) (taken : Option Bytes) : Rf24.SendRes :=
  if succeeds then okResult sendOnly taken else .bool false

/-! ### C01 — the payload the peer must read -/

/-- "zero-padded or truncated to the configured static length when dynamic payloads are off,
    unchanged when they are on" -/
def expectedPayload (dyn : Bool) (staticLen : Nat) (buf : Bytes) : Bytes :=
  if dyn then buf else (buf ++ List.replicate staticLen 0).take staticLen

/-- The transmitter (the driver object of state `s` and its radio `s.d.rid`) and the receiver
    (radio `j`) are **configured compatibly**, the receiver taking the transmitter's packets on pipe
    `p`, in payload-length mode `dyn` (`true` = dynamic payloads on both sides, `false` = static):

    same channel, data rate, packet format (ESB or not), CRC scheme and address width; the receiver
    is listening (PWR_UP, PRIM_RX, CE); `p` is the lowest enabled receiver pipe whose address equals
    the transmitter's TX address on the address width; both ends and the transmitter's driver agree
    on the payload-length mode; in static mode the receiver's RX_PW of pipe `p` is the static length
    the transmitter's driver pads / truncates to, which is 1..32; the air is undisturbed. -/
structure Compatible (s : DrvState) (j p : Nat) (dyn : Bool) : Prop where
  ne : j ≠ s.d.rid
  lt : j < s.w.radios.length
  listening : (s.w.radio j).rxMode = true
  ch : (s.w.radio j).rfCh = (s.w.radio s.d.rid).rfCh
  rate : (s.w.radio j).rate = (s.w.radio s.d.rid).rate
  esb : (s.w.radio j).esb = (s.w.radio s.d.rid).esb
  crc : (s.w.radio j).crcLen = (s.w.radio s.d.rid).crcLen
  aw : (s.w.radio j).aw = (s.w.radio s.d.rid).aw
  /-- TX_ADDR holds at least `aw` bytes (it always holds 5) -/
  awLen : ((s.w.radio s.d.rid).txAddr.take (s.w.radio s.d.rid).aw).length = (s.w.radio s.d.rid).aw
  /-- lowest enabled pipe whose address matches the TX address on the address width -/
  pipe : (s.w.radio j).matchPipe ((s.w.radio s.d.rid).txAddr.take (s.w.radio s.d.rid).aw) = some p
  modeTx : ((s.w.radio s.d.rid).esb && (s.w.radio s.d.rid).dplOn 0) = dyn
  modeRx : ((s.w.radio j).esb && (s.w.radio j).dplOn p) = dyn
  modeDrv : (decide (s.d.dynPl &&& 1 ≠ 0)) = dyn
  width : dyn = false → (s.w.radio j).rxPw.getD p 0 = s.d.plLen.getD 0 0 ∧
            1 ≤ s.d.plLen.getD 0 0 ∧ s.d.plLen.getD 0 0 ≤ 32
  faults : s.w.faults = []

end Nrf.Spec.Link
