/-
S — the address tree on octal digit lists (written from docs/network_docs/topology.rst, not from
the implementation).  A node is the list of its octal digits, least significant first, i.e. the
digit chosen under the master first: the parent of `ds` is `ds.dropLast`, the master is `[]`.
-/
import NrfModel.Basic

namespace Nrf.Spec

/-- value of a little-endian octal digit list -/
def val : List Nat → Nat
  | [] => 0
  | d :: ds => d + 8 * val ds

/-- every digit is a child number 1..5 -/
def DigitsOk (ds : List Nat) : Prop := ∀ d ∈ ds, 1 ≤ d ∧ d ≤ 5

instance (ds : List Nat) : Decidable (DigitsOk ds) := by unfold DigitsOk; infer_instance

/-- a node of the 781-address tree: at most four digits, each in 1..5 -/
def IsNode (ds : List Nat) : Prop := DigitsOk ds ∧ ds.length ≤ 4

instance (ds : List Nat) : Decidable (IsNode ds) := by unfold IsNode; infer_instance

/-- the three reserved multicast addresses -/
def reserved : List Nat := [0o100, 0o10, 0o1000]

/-- "An address is accepted as valid only if it is 0, one of the reserved multicast addresses, or
    one to four octal digits each in 1..5" (`[]` is address 0). -/
def ValidAddr (a : Nat) : Prop := a ∈ reserved ∨ ∃ ds, IsNode ds ∧ val ds = a

/-- all digit lists of exactly length `n` over 1..5 -/
def nodesOfLen : Nat → List (List Nat)
  | 0 => [[]]
  | n + 1 => (nodesOfLen n).flatMap fun ds => [1, 2, 3, 4, 5].map fun d => d :: ds

/-- the 781 nodes -/
def allNodes : List (List Nat) :=
  nodesOfLen 0 ++ nodesOfLen 1 ++ nodesOfLen 2 ++ nodesOfLen 3 ++ nodesOfLen 4

/-- executable form of `ValidAddr` (for the failing-input search) -/
def validAddrB (a : Nat) : Bool := reserved.contains a || (allNodes.map val).contains a

end Nrf.Spec
