/-
S — the address tree on octal digit lists (written from docs/network_docs/topology.rst, not from
the implementation).  A node is the list of its octal digits, least significant first, i.e. the
digit chosen under the master first: the parent of `ds` is `ds.dropLast`, the master is `[]`.
-/
import NrfModel.Basic

namespace Nrf.Spec

/-- value of a little-endian octal digit list -/
def val : List Nat → Nat
  | [] => 0
  | d :: ds => d + 8 * val ds

/-- every digit is a child number 1..5 -/
def DigitsOk (ds : List Nat) : Prop := ∀ d ∈ ds, 1 ≤ d ∧ d ≤ 5

instance (ds : List Nat) : Decidable (DigitsOk ds) := by unfold DigitsOk; infer_instance

/-- a node of the 781-address tree: at most four digits, each in 1..5 -/
def IsNode (ds : List Nat) : Prop := DigitsOk ds ∧ ds.length ≤ 4

instance (ds : List Nat) : Decidable (IsNode ds) := by unfold IsNode; infer_instance

/-- the three reserved multicast addresses -/
def reserved : List Nat := [0o100, 0o10, 0o1000]

/-- "An address is accepted as valid only if it is 0, one of the reserved multicast addresses, or
    one to four octal digits each in 1..5" (`[]` is address 0). -/
def ValidAddr (a : Nat) : Prop := a ∈ reserved ∨ ∃ ds, IsNode ds ∧ val ds = a

/-! ### C04 — routing over the tree and physical addresses, on digit lists

Written from docs/network_docs/topology.rst ("a node's parent is found by dropping the most
significant octal digit", "each node listens to its parent on pipe 0 … children on pipes 1-5",
"physical addresses are built from `address_prefix` and `address_suffix`"), never from the
implementation. -/

/-- the parent of a node (the master `[]` has none; `[].dropLast = []`) -/
def parent (ds : List Nat) : List Nat := ds.dropLast

/-- The only tree neighbour of `s` on the way to `d`: if `s` is an ancestor of `d` (a prefix),
    the child of `s` that is an ancestor of `d` (or `d` itself); otherwise the parent of `s`. -/
def nextHopSpec (s d : List Nat) : List Nat :=
  if s <+: d then d.take (s.length + 1) else parent s

/-- longest common prefix = the deepest common ancestor -/
def lcp : List Nat → List Nat → List Nat
  | a :: s, b :: d => if a = b then a :: lcp s d else []
  | _, _ => []

/-- number of edges of the tree path from `s` to `d` -/
def dist (s d : List Nat) : Nat := s.length + d.length - 2 * (lcp s d).length

/-- the unique tree path from `s` to `d`: `s`, its ancestors up to (excluding) the common ancestor,
    then from the common ancestor down to `d` -/
def treePath (s d : List Nat) : List (List Nat) :=
  let c := (lcp s d).length
  ((List.range (s.length - c)).map fun i => s.take (s.length - i)) ++
  ((List.range (d.length - c + 1)).map fun i => d.take (c + i))

/-- position after `n` hops when every node forwards according to `nextHopSpec` -/
def hops : Nat → List Nat → List Nat → List Nat
  | 0, s, _ => s
  | n + 1, s, d => hops n (nextHopSpec s d) d

/-- the nodes visited, hop by hop, until the destination is reached (at most `fuel` hops) -/
def routeSpec : Nat → List Nat → List Nat → List (List Nat)
  | 0, s, _ => [s]
  | f + 1, s, d => if s = d then [s] else s :: routeSpec f (nextHopSpec s d) d

/-- bytes of `address_suffix` selected by a digit list (`none` if a digit has no suffix byte) -/
def mapSfx (sfx : List Nat) : List Nat → Option (List Nat)
  | [] => some []
  | d :: ds =>
    match sfx[d]?, mapSfx sfx ds with
    | some b, some bs => some (b :: bs)
    | _, _ => none

/-- The 5-byte physical address of pipe `p` of node `ds`: the pipe's suffix byte, then one suffix
    byte per digit (least significant digit first), padded with the prefix byte. -/
def physAddrSpec (pfx : Nat) (sfx : List Nat) (ds : List Nat) (p : Nat) : Option Bytes :=
  match sfx[p]?, mapSfx sfx ds with
  | some b0, some mid => some (b0 :: (mid ++ List.replicate (4 - mid.length) pfx))
  | _, _ => none

/-- The address shared by all nodes of network level `L` (their pipe 0 when multicast is allowed):
    the prefix byte everywhere except byte 1 = the suffix byte of the level; level 0 (the master
    alone) keeps the master's own pipe-0 address. -/
def levelAddrSpec (pfx : Nat) (sfx : List Nat) (L : Nat) : Option Bytes :=
  if L = 0 then physAddrSpec pfx sfx [] 0
  else match sfx[L]? with
    | some b => some [pfx, b, pfx, pfx, pfx]
    | none => none

/-- what node `ds` must listen on, pipe 0..5 (`am` = allow_multicast) -/
def listenSpec (pfx : Nat) (sfx : List Nat) (am : Bool) (ds : List Nat) (p : Nat) : Option Bytes :=
  if p = 0 ∧ am then levelAddrSpec pfx sfx ds.length else physAddrSpec pfx sfx ds p

/-- octal digits of a number, least significant first (`digitsOf 0 = []`); inverse of `val` -/
def digitsOf (n : Nat) : List Nat :=
  if h : n = 0 then [] else (n % 8) :: digitsOf (n / 8)
termination_by n
decreasing_by omega

/-- all digit lists of exactly length `n` over 1..5 -/
def nodesOfLen : Nat → List (List Nat)
  | 0 => [[]]
  | n + 1 => (nodesOfLen n).flatMap fun ds => [1, 2, 3, 4, 5].map fun d => d :: ds

/-- the 781 nodes -/
def allNodes : List (List Nat) :=
  nodesOfLen 0 ++ nodesOfLen 1 ++ nodesOfLen 2 ++ nodesOfLen 3 ++ nodesOfLen 4

/-- executable form of `ValidAddr` (for the failing-input search) -/
def validAddrB (a : Nat) : Bool := reserved.contains a || (allNodes.map val).contains a

end Nrf.Spec
