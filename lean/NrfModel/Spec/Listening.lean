/-
S — C07: what "the node listens on all its addresses" means, written from the property text and
docs/network_docs/topology.rst ("each node listens to its parent/children on pipes 1-5, pipe 0 is
the multicast pipe shared by the nodes of one network level"), on the registers of the radio model.

The addresses are the documented ones (`Nrf.Spec.physAddrSpec`, `Nrf.Spec.levelAddrSpec` of
`NrfModel/Spec/Tree.lean`, over the octal digits of the node's logical address), not the
implementation's `_pipe_address`.
-/
import NrfModel.Spec.Tree
import NrfModel.Net.Node

namespace Nrf.Spec
open Nrf Nrf.Net

/-- the 5-byte address pipe `p` of node `n` has to listen on: pipes 1..5 the node's own physical
    addresses; pipe 0 the address shared by the node's (multicast) level, or — multicast switched
    off — the node's own pipe-0 address -/
def wantAddr (n : Node) (p : Nat) : Option Bytes :=
  if p = 0 ∧ n.cfg.allowMulticast then levelAddrSpec n.cfg.pfx n.cfg.sfx n.a.netLvl
  else physAddrSpec n.cfg.pfx n.cfg.sfx (digitsOf n.a.addr) p

/-- "the radio is powered up in receive mode with CE high, all six pipes open (five-byte address
    width) on the node's own pipe addresses (pipe 0 on its level's shared address), auto-acknowledgement enabled on pipes
    1-5 and disabled on pipe 0, and dynamic payloads on" — on the radio `r` of node `n`.
    `Radio.rxAddr r p` is the full address the chip matches pipe `p` against (for pipes 2..5:
    the pipe's own byte followed by bytes 1..4 of pipe 1). -/
def Listening (n : Node) (r : Radio) : Prop :=
  r.pwrUp = true ∧ r.primRx = true ∧ r.ce = true ∧
  r.enRxAddr = 0x3F ∧ r.aw = 5 ∧
  (∀ p ∈ [0, 1, 2, 3, 4, 5], wantAddr n p = some (r.rxAddr p)) ∧
  r.enAA = 0x3E ∧
  r.dynpd = 0x3F ∧ r.feature &&& 4 ≠ 0

instance (n : Node) (r : Radio) : Decidable (Listening n r) := by unfold Listening; infer_instance

/-- executable form for the failing-input search -/
def listeningB (n : Node) (r : Radio) : Bool := decide (Listening n r)

end Nrf.Spec
