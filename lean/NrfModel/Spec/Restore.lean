/-
Spec for C09 — "`with` restores an object's complete radio configuration".

Written from the property text: the *configuration registers* of the chip are RF channel and setup,
CRC and IRQ mask (CONFIG), retries, address width, all pipe addresses, open pipes, payload lengths,
auto-ack, dynamic payloads and features; each driver object keeps a shadow of every one of them
("the per-object configuration written back on `__enter__`").  `shadowRegs d` is the register file
the shadows of object `d` stand for; `ShadowEq d r` says radio `r` holds exactly that.
-/
import NrfModel.Rf24

namespace Nrf.Spec

/-- every configuration register of the chip (product specification, registers 00–06, 0A–16, 1C, 1D) -/
structure CfgRegs where
  config : Nat
  enAA : Nat
  enRxAddr : Nat
  setupAw : Nat
  setupRetr : Nat
  rfCh : Nat
  rfSetup : Nat
  rxAddr0 : Bytes
  rxAddr1 : Bytes
  rxAddrN : List Nat
  txAddr : Bytes
  rxPw : List Nat
  dynpd : Nat
  feature : Nat
  deriving DecidableEq, Repr, Inhabited

/-- the configuration registers of a radio -/
def regsOf (r : Radio) : CfgRegs :=
  { config := r.config, enAA := r.enAA, enRxAddr := r.enRxAddr, setupAw := r.setupAw,
    setupRetr := r.setupRetr, rfCh := r.rfCh, rfSetup := r.rfSetup, rxAddr0 := r.rxAddr0,
    rxAddr1 := r.rxAddr1, rxAddrN := r.rxAddrN, txAddr := r.txAddr, rxPw := r.rxPw,
    dynpd := r.dynpd, feature := r.feature }

/-- the register file the shadow attributes of a driver object stand for -/
def shadowRegs (d : Rf24) : CfgRegs :=
  { config := d.config, enAA := d.aa, enRxAddr := d.openPipes, setupAw := d.addrLen - 2,
    setupRetr := d.retrySetup, rfCh := d.channel, rfSetup := d.rfSetup, rxAddr0 := d.pipes0,
    rxAddr1 := d.pipes1, rxAddrN := d.pipesN, txAddr := d.txAddress, rxPw := d.plLen,
    dynpd := d.dynPl, feature := d.features }

/-- "the configuration this object last established is in the radio": every configuration register
    equals its shadow -/
def ShadowEq (d : Rf24) (r : Radio) : Prop := regsOf r = shadowRegs d

instance (d : Rf24) (r : Radio) : Decidable (ShadowEq d r) := by unfold ShadowEq; infer_instance

/-- the shadows are values the registers can hold (no reserved bit, documented ranges) -/
def InRange (d : Rf24) : Prop :=
  d.config < 128 ∧ d.rfSetup &&& 0xBF = d.rfSetup ∧ d.rfSetup < 256 ∧ d.openPipes < 64 ∧ d.dynPl < 64 ∧ d.aa < 64 ∧
  d.features < 8 ∧ d.retrySetup < 256 ∧ d.channel ≤ 125 ∧ (2 ≤ d.addrLen ∧ d.addrLen ≤ 5) ∧
  d.pipes0.length = 5 ∧ d.pipes1.length = 5 ∧ d.txAddress.length = 5 ∧
  (d.pipesN.length = 4 ∧ ∀ x ∈ d.pipesN, x < 256) ∧
  (d.plLen.length = 6 ∧ ∀ x ∈ d.plLen, 1 ≤ x ∧ x ≤ 32)

instance instDecidableShadowInRange (d : Rf24) : Decidable (InRange d) := by unfold InRange; infer_instance

/-- the chip has five-byte RX_ADDR_P0/P1/TX_ADDR registers, four one-byte RX_ADDR_P2..5 and six RX_PW
    registers (a structural fact about the chip, kept by every register write) -/
def RadioShape (r : Radio) : Prop :=
  r.rxAddr0.length = 5 ∧ r.rxAddr1.length = 5 ∧ r.txAddr.length = 5 ∧ r.rxAddrN.length = 4 ∧ r.rxPw.length = 6

instance (r : Radio) : Decidable (RadioShape r) := by unfold RadioShape; infer_instance

/-- a register file with PWR_UP set: what re-entering a block must yield from the register file the
    object had established at the end of its previous block -/
def withPwr (R : CfgRegs) : CfgRegs := { R with config := R.config ||| 2 }

/-- C09 at one re-entry, as a decidable check on two observed register files -/
def Restored (established entered : CfgRegs) : Prop := entered = withPwr established

instance (a b : CfgRegs) : Decidable (Restored a b) := by unfold Restored; infer_instance

/-- what `__exit__` must leave: CE low, powered down -/
def PoweredDown (r : Radio) : Prop := r.ce = false ∧ r.config &&& 2 = 0

instance (r : Radio) : Decidable (PoweredDown r) := by unfold PoweredDown; infer_instance

/-- the same shadows, whatever STATUS byte is cached (`self._in[0]` is not configuration) -/
def SameShadows (d d' : Rf24) : Prop := { d with status := 0 } = { d' with status := 0 }

instance (d d' : Rf24) : Decidable (SameShadows d d') := by unfold SameShadows; infer_instance

end Nrf.Spec
