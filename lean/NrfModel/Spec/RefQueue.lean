/-
S — the reference queue of C12, written from the property text: a list of frame *values*, a
capacity, the key (origin, frame id, type).  "Frames leave the queue in the order they were
accepted, each exactly once, with the header fields and message bytes they had when enqueued …
never holds more than max_queue_size frames nor two frames with the same origin, frame id and
type, and enqueue() returns whether the frame was stored.  Switching fragmentation on or off moves
all queued frames to the new queue in order and keeps max_queue_size."
-/
import NrfModel.Spec.Wire

namespace Nrf.Spec

structure RefQ where
  items : List WFrame := []
  cap : Int := 6
  deriving Repr, DecidableEq

def sameKey (a b : WFrame) : Bool := a.src = b.src ∧ a.id = b.id ∧ a.ty = b.ty

/-- accept iff there is room and no frame with the same key is held; returns "stored" -/
def RefQ.enqueue (q : RefQ) (v : WFrame) : RefQ × Bool :=
  if q.cap ≤ (q.items.length : Int) then (q, false)
  else if q.items.any (sameKey · v) then (q, false)
  else ({ q with items := q.items ++ [v] }, true)

def RefQ.dequeue (q : RefQ) : RefQ × Option WFrame :=
  match q.items with
  | [] => (q, none)
  | v :: r => ({ q with items := r }, some v)

def RefQ.peek (q : RefQ) : Option WFrame := q.items.head?

def RefQ.len (q : RefQ) : Nat := q.items.length

def RefQ.setCap (q : RefQ) (n : Int) : RefQ := { q with cap := n }

/-- fragmentation toggle: everything stays, in order; the capacity stays -/
def RefQ.toggle (q : RefQ) : RefQ := q

end Nrf.Spec
