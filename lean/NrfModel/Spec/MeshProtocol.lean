/-
S — what property C17 demands of the mesh client calls (written from the property text and
docs/network_docs/mesh_api.rst: `lookup_address`, `lookup_node_id`, `release_address`,
`check_connection`, `renew_address`, `send` — not from the implementation).

* "`-2` means the specified node_id has not been assigned a Logical Address from the master node or
  the requesting network node's node_address is equal to NETWORK_DEFAULT_ADDR; `-1` means the
  lookup operation failed due to no network connection or the master node has not responded in time."
* ID 0 is the master and has address 0; `lookup_node_id()` without argument is the node's own ID.
* A node joins below a node it made contact with: the address it is offered must lie below the
  contact (the contact's octal digits are its low-order digits).
-/
import NrfModel.Basic
import NrfModel.Spec.Tree

namespace Nrf.Spec.MeshProtocol
open Nrf Nrf.Spec

/-- the address of a node that is not connected -/
def UNASSIGNED : Nat := 0o4444

def NOT_ASSIGNED : Int := -2
def NO_ANSWER : Int := -1

/-- who is asking -/
inductive Role where
  /-- the node has no address (`node_address == NETWORK_DEFAULT_ADDR`) -/
  | unassigned
  /-- the node is the master and answers from its own table -/
  | master
  /-- a connected node: asks the master -/
  | connected
  deriving DecidableEq, Repr

/-- the master's mapping ID ↦ address (first entry for the ID), `-2` if there is none -/
def tableAddress (t : List (Nat × Nat)) (id : Nat) : Int :=
  match t.find? (fun e => e.1 == id) with
  | some e => (e.2 : Int)
  | none => NOT_ASSIGNED

/-- the master's mapping address ↦ ID, `-2` if there is none -/
def tableNodeId (t : List (Nat × Nat)) (a : Nat) : Int :=
  match t.find? (fun e => e.2 == a) with
  | some e => (e.1 : Int)
  | none => NOT_ASSIGNED

/-- a 16-bit word read as a signed number -/
def signed16 (u : Nat) : Int := if u < 32768 then (u : Int) else (u : Int) - 65536

/-- the number a lookup reply carries: a little-endian signed 16-bit value (so that the master can
    say `-2`); a one-byte reply is that byte; an empty reply is "no answer" -/
def replyValue (m : Bytes) : Int :=
  match m with
  | lo :: hi :: _ => signed16 (lo + 256 * hi)
  | [b] => (b : Int)
  | [] => NO_ANSWER

/-- the reply the master sends for an answer `v` (a signed 16-bit value, little endian) -/
def replyBytes (v : Int) : Bytes := [(v % 65536).toNat % 256, (v % 65536).toNat / 256]

/-- documented result of `lookup_address(node_id)`; `reply` = the body of the master's answer if one
    arrived in time (`none`: the request could not be sent or no answer came) -/
def lookupAddress (role : Role) (table : List (Nat × Nat)) (nodeId : Nat) (reply : Option Bytes) : Int :=
  if nodeId = 0 then 0
  else match role with
    | .unassigned => NOT_ASSIGNED
    | .master => tableAddress table nodeId
    | .connected => match reply with
      | none => NO_ANSWER
      | some m => replyValue m

/-- documented result of `lookup_node_id(address)` (`none` = no argument: the node's own ID) -/
def lookupNodeId (role : Role) (ownId : Nat) (table : List (Nat × Nat)) (address : Option Nat)
    (reply : Option Bytes) : Int :=
  match address with
  | none => (ownId : Int)
  | some a =>
    if a = 0 then 0
    else match role with
      | .unassigned => NOT_ASSIGNED
      | .master => tableNodeId table a
      | .connected => match reply with
        | none => NO_ANSWER
        | some m => replyValue m

/-- number of octal digits of an address (0 for the master) -/
def octLen (a : Nat) : Nat := if a = 0 then 0 else 1 + octLen (a / 8)
termination_by a
decreasing_by omega

/-- `offered` lies below `contact` in the address tree: the contact's digits are its low-order digits -/
def below (contact offered : Nat) : Bool := offered % 8 ^ octLen contact == contact

/-- a joining node with ID `ownId` that asked `contact` accepts an address from a frame iff the
    frame is an address response, carries the node's own ID, and the address lies below the contact -/
def accepts (ownId contact msgType reserved offered : Nat) : Bool :=
  msgType == 128 && reserved == ownId && below contact offered

/-- documented truth of one `check_connection` attempt with `ping_master`: the master's answer for
    the node's own ID -/
inductive PingVerdict where
  | connected | notConnected | retry
  deriving DecidableEq, Repr

def pingVerdict (ownAddr : Nat) (answer : Int) : PingVerdict :=
  if answer = NOT_ASSIGNED then .notConnected
  else if answer = (ownAddr : Int) then .connected
  else .retry

end Nrf.Spec.MeshProtocol
