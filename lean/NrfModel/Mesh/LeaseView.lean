/-
How the property C16 (`NrfModel/Spec/Lease.lean`) reads the calls on the master and what they did:
the map from model events to the property's events and from a model step to the property's
observation of it.  Used by the driver's judge (`specmesh`, on tokens observed on the real code) and
by the theorem that the judge accepts every step of the model (`C16_judge`).
-/
import NrfModel.Mesh.Dhcp
import NrfModel.Spec.Lease

namespace Nrf.Mesh
open Nrf.Spec

/-- how the property reads a call on the master -/
def specEv : Ev → LeaseEv
  | .frame msgT fromNode reserved _ _ =>
    if msgT = MESH_ADDR_REQUEST then
      -- a request that carries ID 0 is not one of the property's (IDs are 1..255)
      if reserved = 0 then .outside else .request fromNode reserved
    else if msgT = MESH_ADDR_RELEASE then .release fromNode
    else .readOnly
  | .dhcp fromNode reserved _ => if reserved = 0 then .outside else .request fromNode reserved
  | .lookupAddr id => .lookupAddr id
  | .lookupId a => .lookupId a
  | .releaseApi a _ => .release a
  | .setAddr _ _ _ => .outside
  | .save b => .save b
  | .load b => .load b
  | .reboot => .reboot

/-- what the property sees of a `_write` call -/
def replyObs (w : Write) : ReplyObs :=
  { writeDirect := w.writeDirect, sendType := w.sendType, hdrTo := w.hdrTo, hdrType := w.hdrType
    hdrReserved := w.hdrReserved, message := w.message }

/-- what the property sees of a step that ended in world `w'` -/
def stepObs (w' : World) (o : Obs) : StepObs :=
  { table := w'.m.table, writes := o.res.writes.map replyObs
    raised := o.res.exc.isSome || o.noFile, ret := o.res.ret, answering := !w'.m.abandoned }

/-- a history as the property's judge sees it -/
def observe : World → List Ev → List (LeaseEv × StepObs)
  | _, [] => []
  | w, e :: es => (specEv e, stepObs (step w e).1 (step w e).2) :: observe (step w e).1 es

end Nrf.Mesh
