/-
L6 — the mesh master's address table (`rf24_mesh.py`, class `RF24Mesh`): `set_address`, `_dhcp`,
master `release_address`, `_get_address`, `lookup_address` / `lookup_node_id` (master paths), the
dispatch of `RF24Mesh.update`, `save_dhcp` / `load_dhcp`.

Transliterated.  `dhcp_dict` is a Python `dict` (insertion ordered): an association list in which
assignment to an existing key keeps its position, `del` removes the entry and a new key is appended.
The transmission itself (`_write`) belongs to the node layer: every call of `_write` is recorded as
data (`Write`: its two arguments and the contents of `frame_buf` at the call) and its Boolean result
is an input (`w1`: result of the first `_write` of the call; the result of a second one is never
looked at by the code).
-/
import NrfModel.Basic
import NrfModel.Net.Addr

namespace Nrf.Mesh
open Nrf Nrf.Net

def MESH_ADDR_REQUEST : Nat := 195
def MESH_ADDR_RESPONSE : Nat := 128
def MESH_ADDR_RELEASE : Nat := 197
def MESH_ADDR_LOOKUP : Nat := 196
def MESH_ID_LOOKUP : Nat := 198
def MESH_MAX_CHILDREN : Nat := 4

/-- `struct.pack("<H", x)` for an `int` that is known to be non-negative (`Nrf.packH` restricted
    to naturals, stated on `Nat` so that proofs never evaluate an `Int` comparison) -/
def packHNat (x : Nat) : PyM Bytes :=
  if x < 65536 then .ok [x % 256, x / 256] else .error .structError

/-- `dhcp_dict`: `(node ID, logical address)` in insertion order -/
abbrev Table := List (Nat × Nat)

/-- `d[k] = v` -/
def dictSet : Table → Nat → Nat → Table
  | [], k, v => [(k, v)]
  | (k', v') :: rest, k, v => if k' = k then (k, v) :: rest else (k', v') :: dictSet rest k v

/-- `del d[k]` for a key that was just obtained from iterating `d` (so no `KeyError`) -/
def dictDel : Table → Nat → Table
  | [], _ => []
  | (k', v') :: rest, k => if k' = k then rest else (k', v') :: dictDel rest k

/-- the `for n_id, addr in self.dhcp_dict.items():` loop of `set_address`; `full` is the dictionary
    itself (the loop mutates it and returns at once, which Python permits) -/
def setAddressGo (full : Table) (nodeId nodeAddr : Nat) (byAddr : Bool) : Table → Table
  | [] => dictSet full nodeId nodeAddr
  | (nId, addr) :: rest =>
    if !byAddr then
      if nId = nodeId then dictSet full nId nodeAddr
      else setAddressGo full nodeId nodeAddr byAddr rest
    else
      if addr = nodeAddr then dictSet (dictDel full nId) nodeId nodeAddr
      else setAddressGo full nodeId nodeAddr byAddr rest

/-- `set_address(node_id, node_address, search_by_address)` -/
def setAddress (t : Table) (nodeId nodeAddr : Nat) (byAddr : Bool := false) : Table :=
  setAddressGo t nodeId nodeAddr byAddr t

/-- `_get_address(number, lookup_type)` -/
def getAddress (number lookupType : Nat) : Table → Int
  | [] => -2
  | (nId, addr) :: rest =>
    if lookupType = MESH_ID_LOOKUP ∧ addr = number then (nId : Int)
    else if lookupType = MESH_ADDR_LOOKUP ∧ nId = number then (addr : Int)
    else getAddress number lookupType rest

/-- A master node object: its table and whether `self._addr` still is 0.  (`_addr` becomes
    `NETWORK_DEFAULT_ADDR` when the master runs the non-master `release_address()` on itself;
    `self._id` stays 0, so `update()` keeps treating the object as the master.) -/
structure Master where
  table : Table := []
  abandoned : Bool := false
  deriving DecidableEq, Repr, Inhabited

/-- `lookup_address(node_id)` on an object whose `_id` is 0 (`None` behaves as 0) -/
def lookupAddress (m : Master) (nodeId : Nat) : Int :=
  if nodeId = 0 then 0
  else if m.abandoned then -2
  else getAddress nodeId MESH_ADDR_LOOKUP m.table

/-- `lookup_node_id(address)` for an `int` argument on an object whose `_id` is 0 -/
def lookupNodeId (m : Master) (address : Nat) : Int :=
  if address = 0 then 0
  else if m.abandoned then -2
  else getAddress address MESH_ID_LOOKUP m.table

/-- one call of `self._write(write_direct, send_type)` with the `frame_buf` it would transmit -/
structure Write where
  writeDirect : Nat
  sendType : Nat
  hdrFrom : Nat
  hdrTo : Nat
  hdrType : Nat
  hdrReserved : Nat
  message : Bytes
  deriving DecidableEq, Repr, Inhabited

/-- what a call on the master did besides changing the table -/
structure Res where
  writes : List Write := []
  exc : Option PyErr := none
  ret : Int := 0
  deriving DecidableEq, Repr, Inhabited

/-- the `for n_id, addr in self.dhcp_dict.items()` scan of `_dhcp`: `found_addr` -/
def collisionScan (newAddr reserved : Nat) : Table → Bool
  | [] => false
  | (nId, addr) :: rest =>
    if addr = newAddr ∧ nId ≠ reserved then true else collisionScan newAddr reserved rest

/-- `while temp: temp >>= 3; shift_val += 3` -/
def shiftLoop (temp shiftVal : Nat) : Nat :=
  if temp = 0 then shiftVal else shiftLoop (temp >>> 3) (shiftVal + 3)
termination_by temp
decreasing_by (simp only [Nat.shiftRight_eq_div_pow]; omega)

/-- the tail of the candidate loop's body once `new_addr` was recorded: build the response frame
    (`struct.pack("<H", new_addr)` may raise) and transmit it -/
def dhcpReply (fromNode reserved newAddr : Nat) (w1 : Bool) : Res :=
  match packHNat newAddr with
  | .error e => { exc := some e }
  | .ok msg =>
    let w : Write :=
      { writeDirect := fromNode
        sendType := if fromNode ≠ NETWORK_DEFAULT_ADDR then TX_NORMAL else TX_PHYSICAL
        hdrFrom := fromNode, hdrTo := fromNode, hdrType := MESH_ADDR_RESPONSE
        hdrReserved := reserved, message := msg }
    if fromNode ≠ NETWORK_DEFAULT_ADDR then
      -- `if not self._write(...): self._write(...)`; the second call is shown with the same
      -- frame (a `_write` that waits for a NETWORK_ACK may replace `frame_buf`: node layer)
      if !w1 then { writes := [w, w] } else { writes := [w] }
    else { writes := [w] }

/-- the `for i in range(MESH_MAX_CHILDREN + extra_child, 0, -1)` loop of `_dhcp`
    (the argument counts down: `i + 1` is Python's `i`) -/
def dhcpLoop (t : Table) (fromNode reserved viaNode shiftVal : Nat) (w1 : Bool) :
    Nat → Table × Res
  | 0 => (t, {})
  | i + 1 =>
    let newAddr := viaNode ||| ((i + 1) <<< shiftVal)
    if newAddr = NETWORK_DEFAULT_ADDR then dhcpLoop t fromNode reserved viaNode shiftVal w1 i
    else if collisionScan newAddr reserved t then
      dhcpLoop t fromNode reserved viaNode shiftVal w1 i
    else (setAddress t reserved newAddr, dhcpReply fromNode reserved newAddr w1)

/-- `_dhcp()` with `_do_dhcp` set, `frame_buf.header.from_node = fromNode`,
    `frame_buf.header.reserved = reserved` -/
def dhcp (t : Table) (fromNode reserved : Nat) (w1 : Bool) : Table × Res :=
  let viaNode := if fromNode ≠ NETWORK_DEFAULT_ADDR then fromNode else 0
  let shiftVal := if fromNode ≠ NETWORK_DEFAULT_ADDR then shiftLoop fromNode 0 else 0
  let extraChild := if fromNode = NETWORK_DEFAULT_ADDR then 1 else 0
  dhcpLoop t fromNode reserved viaNode shiftVal w1 (MESH_MAX_CHILDREN + extraChild)

/-- the scan of master `release_address(address)` for `address ≠ 0` -/
def releaseScan (full : Table) (address : Nat) : Table → Table × Bool
  | [] => (full, false)
  | (nId, addr) :: rest =>
    if addr = address then (dictDel full nId, true) else releaseScan full address rest

/-- `RF24Mesh.release_address(address)`; `reserved` is what `frame_buf.header.reserved` holds.
    `address = 0` runs `RF24MeshNoMaster.release_address()` on the master itself. -/
def releaseAddress (m : Master) (address reserved : Nat) (w1 : Bool) : Master × Res :=
  if address = 0 then
    if !m.abandoned then
      let w : Write :=
        { writeDirect := 0, sendType := TX_NORMAL, hdrFrom := 0, hdrTo := 0
          hdrType := MESH_ADDR_RELEASE, hdrReserved := reserved, message := [] }
      if w1 then ({ m with abandoned := true }, { writes := [w], ret := 1 })
      else (m, { writes := [w], ret := 0 })
    else (m, { ret := 0 })
  else
    let (t', found) := releaseScan m.table address m.table
    ({ m with table := t' }, { ret := if found then 1 else 0 })

/-- the body `update()` builds for a lookup frame that is long enough: a signed 16-bit value -/
def lookupReply (m : Master) (msgT : Nat) (message : Bytes) : PyM Bytes :=
  if msgT = MESH_ADDR_LOOKUP then do
    let b ← pyGet message 0
    packSH (lookupAddress m b)
  else do
    let a ← unpackH (pySlice message 0 2)
    packSH (lookupNodeId m a)

/-- `len(self.frame_buf.message) >= (1 if msg_t == MESH_ADDR_LOOKUP else 2)` -/
def lookupLongEnough (msgT : Nat) (message : Bytes) : Bool :=
  message.length ≥ (if msgT = MESH_ADDR_LOOKUP then 1 else 2)

/-- the `if msg_t in (MESH_ADDR_LOOKUP, MESH_ID_LOOKUP): … elif msg_t == MESH_ADDR_RELEASE: …` part of
    `RF24Mesh.update()` on the master -/
def updateDispatch (m : Master) (msgT fromNode reserved : Nat) (message : Bytes) (w1 : Bool) :
    Master × Res :=
  if (msgT = MESH_ADDR_LOOKUP ∨ msgT = MESH_ID_LOOKUP) ∧ lookupLongEnough msgT message then
    match lookupReply m msgT message with
    | .error e => (m, { exc := some e })
    | .ok msg =>
      (m, { writes := [{ writeDirect := fromNode, sendType := TX_NORMAL, hdrFrom := fromNode
                         hdrTo := fromNode, hdrType := msgT, hdrReserved := reserved
                         message := msg }] })
  else if msgT = MESH_ADDR_RELEASE then
    ((releaseAddress m fromNode reserved w1).1,
     { (releaseAddress m fromNode reserved w1).2 with ret := 0 })
  else (m, {})

/-- `RF24Mesh.update()` on the master after `_net_update()` returned `msgT` and left a frame with
    `from_node = fromNode`, `reserved`, `message` in `frame_buf` (whose `message_type` is `msgT`):
    `_do_dhcp` is set for a request that carries an ID, the lookup / release branch runs, then
    `_dhcp()` -/
def masterUpdate (m : Master) (msgT fromNode reserved : Nat) (message : Bytes) (w1 : Bool) :
    Master × Res :=
  let d := updateDispatch m msgT fromNode reserved message w1
  if d.2.exc.isSome then d
  else if msgT = MESH_ADDR_REQUEST ∧ reserved ≠ 0 then
    ({ d.1 with table := (dhcp d.1.table fromNode reserved w1).1 },
     { (dhcp d.1.table fromNode reserved w1).2 with
         writes := d.2.writes ++ (dhcp d.1.table fromNode reserved w1).2.writes, ret := msgT })
  else (d.1, { d.2 with ret := msgT })

/-! ### persistence -/

/-- `save_dhcp(as_bin=True)`: the bytes written to the file so far, and the exception if any -/
def saveBin : Table → Bytes × Option PyErr
  | [] => ([], none)
  | (id, addr) :: rest =>
    if ¬ id < 256 then ([], some .valueError)             -- bytes([_id, 0])
    else match packHNat addr with
      | .error e => ([id, 0], some e)
      | .ok b =>
        let (r, e) := saveBin rest
        ([id, 0] ++ b ++ r, e)

/-- the `for i in range(int(len(buffer) / 4))` loop of `load_dhcp(as_bin=True)`;
    `byAddr` is the `search_by_address` argument it passes to `set_address` -/
def loadBinGo (buf : Bytes) (byAddr : Bool) : Nat → Nat → Table → Table × Option PyErr
  | 0, _, t => (t, none)
  | n + 1, i, t =>
    match pyGet buf ((i * 4 : Nat) : Int) with
    | .error e => (t, some e)
    | .ok id =>
      match unpackH (pySlice buf (i * 4 + 2) (i * 4 + 4)) with
      | .error e => (t, some e)
      | .ok a => loadBinGo buf byAddr n (i + 1) (setAddress t id a byAddr)

/-- `search_by_address` as passed by the binary branch of `load_dhcp` -/
def LOAD_BIN_BY_ADDR : Bool := true

/-- `load_dhcp(as_bin=True)` on file contents `buf`: the table afterwards and the exception, if any -/
def loadBin (t : Table) (buf : Bytes) : Table × Option PyErr :=
  loadBinGo buf LOAD_BIN_BY_ADDR (buf.length / 4) 0 t

/-- decimal digits, least significant first (`fuel` ≥ number of digits) -/
def decDigitsLE : Nat → Nat → List Nat
  | 0, _ => []
  | f + 1, n => if n < 10 then [n] else (n % 10) :: decDigitsLE f (n / 10)

/-- `str(n)` as the list of its decimal digits, most significant first: the JSON object key that
    `json.dumps` produces for the `int` key `n` -/
def decKey (n : Nat) : List Nat := (decDigitsLE (n + 1) n).reverse

def ofDecLE : List Nat → Nat
  | [] => 0
  | d :: ds => d + 10 * ofDecLE ds

/-- `int(key)` for a key made of decimal digits (anything else: `ValueError`) -/
def parseKey (k : List Nat) : PyM Nat :=
  if k = [] ∨ ¬ (k.all (· < 10)) then .error .valueError else .ok (ofDecLE k.reverse)

/-- the JSON object: `(key digits, value)` pairs in file order -/
abbrev JsonPairs := List (List Nat × Nat)

/-- `save_dhcp()` (JSON): the object `json.dumps(self.dhcp_dict)` describes -/
def saveJson (t : Table) : JsonPairs := t.map fun (id, addr) => (decKey id, addr)

/-- `load_dhcp()` (JSON) on the parsed object: the table afterwards and the exception, if any -/
def loadJson (t : Table) : JsonPairs → Table × Option PyErr
  | [] => (t, none)
  | (k, addr) :: rest =>
    match parseKey k with
    | .error e => (t, some e)
    | .ok id => loadJson (setAddress t id addr true) rest

/-! ### histories of calls on one master (with its two files) -/

inductive Ev where
  /-- a frame `(message_type, from_node, reserved, message)` addressed to node 0 is in the radio's
      RX FIFO and `update()` is called.  `_net_update()` discards a frame whose `from_node` is not
      a valid address (then `update()` returns 0); otherwise it returns the frame's type with the
      frame in `frame_buf` (types for which `_net_update()` itself transmits are not used). -/
  | frame (msgT fromNode reserved : Nat) (message : Bytes) (w1 : Bool)
  /-- `_dhcp()` called directly with `_do_dhcp = True` and that `frame_buf` -/
  | dhcp (fromNode reserved : Nat) (w1 : Bool)
  | lookupAddr (id : Nat)
  | lookupId (addr : Nat)
  | releaseApi (addr : Nat) (w1 : Bool)
  /-- the documented manual override `set_address()` -/
  | setAddr (id addr : Nat) (byAddr : Bool)
  | save (bin : Bool)
  | load (bin : Bool)
  /-- power cycle: a new master object; the files stay -/
  | reboot
  deriving DecidableEq, Repr, Inhabited

structure World where
  m : Master := {}
  fileBin : Option Bytes := none
  fileJson : Option JsonPairs := none
  deriving DecidableEq, Repr, Inhabited

/-- what the harness can observe of a step besides the table -/
structure Obs where
  res : Res := {}
  noFile : Bool := false
  deriving DecidableEq, Repr, Inhabited

def step (w : World) : Ev → World × Obs
  | .frame msgT fromNode reserved message w1 =>
    if !isValid fromNode then (w, {})
    else
      ({ w with m := (masterUpdate w.m msgT fromNode reserved message w1).1 },
       { res := (masterUpdate w.m msgT fromNode reserved message w1).2 })
  | .dhcp fromNode reserved w1 =>
    ({ w with m := { w.m with table := (dhcp w.m.table fromNode reserved w1).1 } },
     { res := (dhcp w.m.table fromNode reserved w1).2 })
  | .lookupAddr id => (w, { res := { ret := lookupAddress w.m id } })
  | .lookupId addr => (w, { res := { ret := lookupNodeId w.m addr } })
  | .releaseApi addr w1 =>
    ({ w with m := (releaseAddress w.m addr 0 w1).1 }, { res := (releaseAddress w.m addr 0 w1).2 })
  | .setAddr id addr byAddr =>
    ({ w with m := { w.m with table := setAddress w.m.table id addr byAddr } }, {})
  | .save true =>
    ({ w with fileBin := some (saveBin w.m.table).1 }, { res := { exc := (saveBin w.m.table).2 } })
  | .save false => ({ w with fileJson := some (saveJson w.m.table) }, {})
  | .load true =>
    match w.fileBin with
    | none => (w, { noFile := true })
    | some b =>
      ({ w with m := { w.m with table := (loadBin w.m.table b).1 } },
       { res := { exc := (loadBin w.m.table b).2 } })
  | .load false =>
    match w.fileJson with
    | none => (w, { noFile := true })
    | some p =>
      ({ w with m := { w.m with table := (loadJson w.m.table p).1 } },
       { res := { exc := (loadJson w.m.table p).2 } })
  | .reboot => ({ w with m := {} }, {})

def run (w : World) (h : List Ev) : World := h.foldl (fun w e => (step w e).1) w

end Nrf.Mesh
