/-
L5/L6 — a network / mesh node: `network/mixins.py: NetworkMixin`, `rf24_network.py`,
`rf24_mesh.py`, transliterated over the RF24 driver model (`NrfModel/Rf24.lean`).

State of a *session*: several node objects (each with its own radio, its own virtual clock and its
own script of arrivals), the world, and the process-wide header id counter
(`RF24NetworkHeader.__next_id`).  A computation runs "as" the current node `cur`.

Environment choices (DESIGN §4.4), the same in `harness/netsession.py`:
* every node has its own virtual clock (its timeouts measure its own busy time);
* scripted arrivals `(due, pipe, payload)` are put into the node's RX FIFO at the node's first
  `self._rf24.read()` at or after `due` (lost if the radio is not listening / has no room);
* closed system: at every `self._rf24.read()` of a node, every *other* node that is not already
  running and whose radio holds received data runs `update()` to completion first.
-/
import NrfModel.Rf24
import NrfModel.Net.Addr
import NrfModel.Net.Structs
import NrfModel.Mesh.Dhcp

namespace Nrf.Net
open Nrf

def NETWORK_ACK : Nat := 193
def NETWORK_PING : Nat := 130
def NETWORK_POLL : Nat := 194
def MESH_ADDR_REQUEST : Nat := 195
def MESH_ADDR_RESPONSE : Nat := 128
def MESH_ADDR_RELEASE : Nat := 197
def MESH_ADDR_LOOKUP : Nat := 196
def MESH_ID_LOOKUP : Nat := 198
def MAX_USR_DEF_MSG_TYPE : Nat := 127
def AUTO_ROUTING : Nat := 0o70

inductive NodeKind where
  | routing | network | meshNode | meshMaster
  deriving DecidableEq, Repr, Inhabited

/-- `FrameQueue` / `FrameQueueFrag` by value (the heap model with object identity is
    `NrfModel/Net/Queue.lean`; the node layer only ever enqueues `frame_buf`) -/
structure NetQueue where
  frames : List Frame := []
  maxSize : Int := 6
  frag : Bool := true
  cache : Frame := {}
  /-- `_frags.header.from_node is not None` -/
  cacheValid : Bool := true
  deriving DecidableEq, Repr, Inhabited

/-- message type of a header as an `int` (`str` types only exist on user-made headers) -/
def Header.ty (h : Header) : Nat :=
  match h.msgType with
  | .int n => n
  | .str (c :: _) => c
  | .str [] => 0

def Header.setTy (h : Header) (t : Nat) : Header := { h with msgType := .int t }

/-- the copy `new_frame.unpack(frame.pack())` stores: fields masked to the wire format -/
def wireCopy (f : Frame) : Frame :=
  { header := { fromNode := f.header.fromNode &&& 0xFFF, toNode := f.header.toNode &&& 0xFFF,
                frameId := f.header.frameId &&& 0xFFFF, msgType := .int (f.header.ty &&& 0xFF),
                reserved := f.header.reserved &&& 0xFF },
    message := f.message }

/-- `FrameQueue.enqueue(frame)`; `true` in the third component = a header id was consumed -/
def NetQueue.enqueueBase (q : NetQueue) (f : Frame) : NetQueue × Bool :=
  if (q.frames.length : Int) ≥ q.maxSize then (q, false)
  else if q.frames.any (fun g => g.header.fromNode == f.header.fromNode
      && g.header.frameId == f.header.frameId && g.header.ty == f.header.ty) then (q, false)
  else ({ q with frames := q.frames ++ [wireCopy f] }, true)

/-- `queue.enqueue(frame)`: the queue, the result, and the caller's frame afterwards (the last
    fragment of external data has its type changed *by reference*) -/
def NetQueue.enqueue (q : NetQueue) (f : Frame) : NetQueue × Bool × Frame :=
  if !q.frag then let (q', r) := q.enqueueBase f; (q', r, f)
  else
    let t := f.header.ty
    if t = MSG_FRAG_FIRST ∨ t = MSG_FRAG_MORE ∨ t = MSG_FRAG_LAST then
      if t = MSG_FRAG_FIRST then ({ q with cache := wireCopy f, cacheValid := true }, true, f)
      else if q.cacheValid && f.header.fromNode == q.cache.header.fromNode
          && f.header.toNode == q.cache.header.toNode && f.header.frameId == q.cache.header.frameId then
        let sequential :=
          if t = MSG_FRAG_LAST then decide ((q.cache.header.reserved : Int) - 1 ≤ 1)
          else decide ((q.cache.header.reserved : Int) - 1 = (f.header.reserved : Int))
        if !sequential then (q, false, f)
        else
          let c : Frame := { header := (wireCopy { f with message := [] }).header,
                             message := q.cache.message ++ f.message }
          if t = MSG_FRAG_LAST then
            let f' := if f.header.reserved = NETWORK_EXT_DATA then
                { f with header := f.header.setTy NETWORK_EXT_DATA } else f
            let c := { c with header := c.header.setTy f.header.reserved }
            let (q', r) := ({ q with cache := c }).enqueueBase c
            ({ q' with cacheValid := false }, r, f')
          else ({ q with cache := c }, true, f)
      else (q, false, f)
    else let (q', r) := q.enqueueBase f; (q', r, f)

structure Node where
  kind : NodeKind := .network
  rf : Rf24 := {}
  a : NodeAddr := default
  cfg : AddrCfg := {}
  relayEnabled : Bool := false
  fragEnabled : Bool := true
  txTimeout : Nat := 25
  routeTimeout : Nat := 75
  retSysMsg : Bool := false
  parenthood : Bool := true
  maxMessageLength : Nat := 144
  queue : NetQueue := {}
  frameBuf : Frame := {}
  /-- mesh: `_id` -/
  nodeId : Nat := 0
  dhcp : Mesh.Table := []
  doDhcp : Bool := false
  /-- this node's virtual clock while it is not running -/
  clock : Nat := 0
  /-- scripted arrivals `(due, pipe, payload)`, in order of `due` -/
  arrivals : List (Nat × Nat × Bytes) := []
  deriving Repr, Inhabited

structure NetState where
  nodes : List Node
  cur : Nat := 0
  /-- nodes currently inside a call (innermost first) -/
  active : List Nat := []
  w : World
  nextId : Nat := 0
  /-- let other nodes run at poll points (closed system) -/
  closed : Bool := true
  deriving Repr, Inhabited

abbrev NetM := ExceptT PyErr (StateM NetState)

def getNode : NetM Node := do
  let s ← get
  return s.nodes.getD s.cur default

def modNode (f : Node → Node) : NetM Unit :=
  modify fun s => { s with nodes := s.nodes.modify s.cur f }

/-- run an `RF24` method of the current node's `_rf24` -/
def liftRf {α} (m : DrvM α) : NetM α := fun s =>
  let n := s.nodes.getD s.cur default
  let (r, s') := (m.run).run { d := n.rf, w := s.w }
  (r, { s with nodes := s.nodes.modify s.cur (fun n => { n with rf := s'.d }), w := s'.w })

def nowNs : NetM Nat := do return (← get).w.clock
def sleepNs (ns : Nat) : NetM Unit := modify fun s => { s with w := s.w.sleep ns }

/-- a fresh header id (`RF24NetworkHeader()` / `RF24NetworkFrame()`) -/
def takeId : NetM Nat := do
  let s ← get
  set { s with nextId := (s.nextId + 1) &&& 0xFFFF }
  return s.nextId

def liftPy {α} (x : PyM α) : NetM α :=
  match x with
  | .ok a => pure a
  | .error e => throw e

/-- `self._pipe_address(node_addr, pipe)` -/
def pipeAddr (nodeAddr pipe : Nat) : NetM Bytes := do
  liftPy (pipeAddress (← getNode).cfg nodeAddr pipe)

/-- put the due scripted arrivals into the current node's RX FIFO -/
def deliverDue : NetM Unit := do
  let s ← get
  let n := s.nodes.getD s.cur default
  let due := n.arrivals.takeWhile (fun a => a.1 ≤ s.w.clock)
  let rest := n.arrivals.dropWhile (fun a => a.1 ≤ s.w.clock)
  let w := due.foldl (fun w a => w.inject n.rf.rid a.2.1 a.2.2) s.w
  set { s with w := w, nodes := s.nodes.modify s.cur (fun n => { n with arrivals := rest }) }

/-- `queue.enqueue(self.frame_buf)` -/
def enqueueFrameBuf : NetM Bool := do
  let n ← getNode
  let (q, r, f) := n.queue.enqueue n.frameBuf
  modNode fun n => { n with queue := q, frameBuf := f }
  if r ∧ (f.header.ty ≠ MSG_FRAG_FIRST ∧ f.header.ty ≠ MSG_FRAG_MORE ∨ !n.queue.frag) then
    let _ ← takeId   -- `new_frame = RF24NetworkFrame()` in FrameQueue.enqueue
  return r

/-- `_validate_msg_len(length)` -/
def nodeValidateMsgLen (length : Nat) : NetM Bool := do
  let n ← getNode
  if length > n.maxMessageLength then throw .valueError
  if length > MAX_FRAG_SIZE ∧ !n.fragEnabled then return false
  return true

def setHdr (f : Header → Header) : NetM Unit :=
  modNode fun n => { n with frameBuf := { n.frameBuf with header := f n.frameBuf.header } }

/-- fuel of the node layer's loops: one unit per loop iteration / nested call -/
def NET_FUEL : Nat := 200000

def sendRes (r : Rf24.SendRes × Bytes) : Bool :=
  match r.1 with
  | .bool b => b
  | .payload p => p.isSome && p != some []

/-- the radio part of `_begin(n_addr)` -/
def beginRadio (nAddr : Nat) : NetM Unit := do
  liftRf (Rf24.setListen false)
  liftRf (Rf24.setAutoAckAttr (.i 0x3E))
  liftRf (Rf24.setAutoRetries (250 * (((nAddr % 6) + 1) * 2 + 3) + 250 : Nat) 5)
  for i in [0, 1, 2, 3, 4, 5] do
    let a ← pipeAddr nAddr i
    liftRf (Rf24.openRxPipe i a)
  liftRf (Rf24.setListen true)

/-- `_begin(n_addr)` -/
def begin (nAddr : Nat) : NetM Unit := do
  beginRadio nAddr
  match beginAddr nAddr with
  | none => throw .diverge
  | some a => modNode fun n => { n with a := a }

/-- the candidate loop of `_dhcp`: the first free child slot, highest first -/
def dhcpFind (t : Mesh.Table) (reserved viaNode shiftVal : Nat) : Nat → Option Nat
  | 0 => none
  | i + 1 =>
    let newAddr := viaNode ||| ((i + 1) <<< shiftVal)
    if newAddr = NETWORK_DEFAULT_ADDR then dhcpFind t reserved viaNode shiftVal i
    else if Mesh.collisionScan newAddr reserved t then dhcpFind t reserved viaNode shiftVal i
    else some newAddr

/-- the reply body `RF24Mesh.update()` builds for a lookup frame -/
def masterLookupReply (m : Mesh.Master) (n : Node) (msgT : Nat) : PyM Bytes :=
  Mesh.lookupReply m msgT n.frameBuf.message

mutual

/-- `self._rf24.send(buf, send_only=True)` as the network layer calls it (a scheduling point of
    the closed system: the other nodes that have received something run first) -/
def rfSend : Nat → Bytes → NetM Bool
  | 0, _ => throw .diverge
  | f + 1, buf => do
    if (← get).closed then runOthers f 0
    return sendRes (← liftRf (Rf24.send buf false false 0 true))

/-- `self._rf24.resend(send_only=True)` (also a scheduling point) -/
def rfResend : Nat → NetM Bool
  | 0 => throw .diverge
  | f + 1 => do
    if (← get).closed then runOthers f 0
    match (← liftRf (Rf24.resend true)) with
    | .bool b => return b
    | .payload p => return p.isSome && p != some []

/-- the loop of `_tx_standby(delta_time)` -/
def txStandby : Nat → Nat → NetM Bool
  | 0, _ => throw .diverge
  | f + 1, deadline => do
    if (← nowNs) < deadline then
      if (← rfResend f) then return true
      txStandby f deadline
    else return false

/-- `_tx_standby(delta_time)` -/
def txStandbyFor : Nat → Nat → NetM Bool
  | 0, _ => throw .diverge
  | f + 1, ms => do
    let deadline := ms * 1000000 + (← nowNs)
    txStandby f deadline

/-- `retries = 3; while not result and retries: time.sleep(0.002); result = _tx_standby(…)` -/
def fragRetry : Nat → Nat → Bool → NetM Bool
  | 0, _, _ => throw .diverge
  | f + 1, retries, result => do
    if !result ∧ retries ≠ 0 then
      sleepNs 2000000
      let r ← txStandbyFor f (← getNode).txTimeout
      fragRetry f (retries - 1) r
    else return result

/-- the fragment loop of `_write_to_pipe` (`left` = fragments still to send) -/
def nodeFragLoop : Nat → Nat → Nat → Nat → NetM Bool
  | 0, _, _, _ => throw .diverge
  | f + 1, total, msgT, left => do
    if left = 0 then return false   -- `range(total)` with total = 0 cannot happen (len > 24)
    let count := total - left
    let n ← getNode
    let msg := n.frameBuf.message
    let last := count == total - 1
    setHdr fun h => { h with reserved := total - count }
    if last then setHdr fun h => { (h.setTy MSG_FRAG_LAST) with reserved := msgT }
    else if count = 0 then setHdr fun h => h.setTy MSG_FRAG_FIRST
    else setHdr fun h => h.setTy MSG_FRAG_MORE
    let bufEnd := if last then msg.length else count * MAX_FRAG_SIZE + MAX_FRAG_SIZE
    let hb ← liftPy (← getNode).frameBuf.header.pack
    let r ← rfSend f (hb ++ pySlice msg (count * MAX_FRAG_SIZE) bufEnd)
    let result ← fragRetry f 3 r
    if !result then return false
    if left = 1 then return true
    nodeFragLoop f total msgT (left - 1)

/-- `_write_to_pipe(to_node, to_pipe, is_multicast)` -/
def nodeWriteToPipe : Nat → Nat → Nat → Bool → NetM Bool
  | 0, _, _, _ => throw .diverge
  | f + 1, toNode, toPipe, isMulticast => do
    let n ← getNode
    if toNode = n.a.addr ∧ !isMulticast then return (← enqueueFrameBuf)
    liftRf (Rf24.setAutoAckAttr (.i (0x3E + (if isMulticast then 0 else 1))))
    liftRf (Rf24.setListen false)
    let addr ← pipeAddr toNode toPipe
    liftRf (Rf24.openTxPipe addr)
    let n ← getNode
    if n.frameBuf.message.length ≤ MAX_FRAG_SIZE then
      let pk ← liftPy n.frameBuf.pack
      if (← rfSend f pk) then return true
      txStandbyFor f n.txTimeout
    else
      let msgLen := n.frameBuf.message.length
      let total := (if msgLen % MAX_FRAG_SIZE ≠ 0 then 1 else 0) + msgLen / MAX_FRAG_SIZE
      let msgT := n.frameBuf.header.ty
      let result ← nodeFragLoop f total msgT total
      setHdr fun h => h.setTy msgT
      return result

/-- `self._rf24.read()` as the network layer calls it: arrivals first; in a closed system the
    other nodes that have received something run `update()` first -/
def rfRead : Nat → NetM (Option Bytes)
  | 0 => throw .diverge
  | f + 1 => do
    deliverDue
    if (← get).closed then runOthers f 0
    liftRf (Rf24.read none)

/-- let every node that is not running and has data in its RX FIFO run `update()` -/
def runOthers : Nat → Nat → NetM Unit
  | 0, _ => throw .diverge
  | f + 1, i => do
    let s ← get
    if i ≥ s.nodes.length then return
    let r := s.w.radio (s.nodes.getD i default).rf.rid
    if i ≠ s.cur ∧ !s.active.contains i ∧ !r.rxFifo.isEmpty ∧ r.rxMode then
      -- context switch: save this node's clock, run node `i`, switch back
      let me := s.cur
      set { s with nodes := s.nodes.modify me (fun n => { n with clock := s.w.clock }),
                   cur := i, active := i :: s.active,
                   w := { s.w with clock := (s.nodes.getD i default).clock } }
      let _ ← try nodeUpdate f catch _ => pure 0   -- an exception ends that node's update()
      let s ← get
      set { s with nodes := s.nodes.modify i (fun n => { n with clock := s.w.clock }),
                   cur := me, active := s.active.erase i,
                   w := { s.w with clock := (s.nodes.getD me default).clock } }
    runOthers f (i + 1)

/-- `_net_update()` -/
def netUpdate : Nat → Nat → NetM Nat
  | 0, _ => throw .diverge
  | f + 1, retVal => do
    let buf ← rfRead f
    match buf with
    | none => return retVal
    | some b =>
      let n ← getNode
      let (fb, ok) := n.frameBuf.unpack b
      modNode fun n => { n with frameBuf := fb }
      if !ok || !isValid fb.header.toNode || !isValid fb.header.fromNode then netUpdate f 0
      else
        let msgT := fb.header.ty
        let (keep, rv) ← if fb.header.toNode = n.a.addr then handleThis f msgT else handleOther f msgT
        if !keep then return rv
        netUpdate f rv

/-- `_handle_frame_for_this_node(msg_t)` -/
def handleThis : Nat → Nat → NetM (Bool × Nat)
  | 0, _ => throw .diverge
  | f + 1, msgT => do
    let n ← getNode
    if msgT = NETWORK_PING then return (true, msgT)
    if msgT = MESH_ADDR_RESPONSE ∧ NETWORK_DEFAULT_ADDR ≠ n.a.addr then
      setHdr fun h => { h with toNode := NETWORK_DEFAULT_ADDR }
      let _ ← nodeWrite f NETWORK_DEFAULT_ADDR TX_PHYSICAL
      return (true, msgT)
    if msgT = MESH_ADDR_REQUEST ∧ n.a.addr ≠ 0 then
      setHdr fun h => { h with fromNode := n.a.addr, toNode := 0 }
      let _ ← nodeWrite f 0 TX_NORMAL
      return (true, msgT)
    if (n.retSysMsg ∧ msgT > MAX_USR_DEF_MSG_TYPE) ∨ msgT = NETWORK_ACK then
      if msgT ≠ MSG_FRAG_FIRST ∧ msgT ≠ MSG_FRAG_MORE ∧ msgT ≠ MSG_FRAG_LAST ∧ msgT ≠ NETWORK_EXT_DATA then
        return (false, msgT)
    let _ ← enqueueFrameBuf
    if (← getNode).frameBuf.header.ty = NETWORK_EXT_DATA then return (false, NETWORK_EXT_DATA)
    return (true, msgT)

/-- `_handle_frame_for_other_node(msg_t)` -/
def handleOther : Nat → Nat → NetM (Bool × Nat)
  | 0, _ => throw .diverge
  | f + 1, msgT => do
    let n ← getNode
    if n.cfg.allowMulticast then
      if n.frameBuf.header.toNode = NETWORK_MULTICAST_ADDR then
        if msgT = NETWORK_POLL ∧ n.a.addr ≠ NETWORK_DEFAULT_ADDR then
          if n.parenthood then
            setHdr fun h => { h with toNode := h.fromNode, fromNode := n.a.addr }
            sleepNs (n.a.parentPipe * 1000000)
            let _ ← nodeWrite f (← getNode).frameBuf.header.toNode TX_PHYSICAL
          return (true, 0)
        let _ ← enqueueFrameBuf
        if n.cfg.allowMulticast ∧ n.relayEnabled then
          if n.a.addr >>> 3 = 0 then sleepNs 2400000
          sleepNs ((n.a.addr % 4) * 600000)
          let _ ← nodeWrite f ((lvl2addr n.a.netLvl <<< 3) &&& 0xFFFF) TX_MULTICAST
        if (← getNode).frameBuf.header.ty = NETWORK_EXT_DATA then return (false, NETWORK_EXT_DATA)
        return (true, msgT)
      else if n.a.addr ≠ NETWORK_DEFAULT_ADDR then
        let _ ← nodeWrite f n.frameBuf.header.toNode TX_ROUTED
        return (true, 0)
      else return (true, msgT)
    else if n.a.addr ≠ NETWORK_DEFAULT_ADDR then
      let _ ← nodeWrite f n.frameBuf.header.toNode TX_ROUTED
      return (true, 0)
    else return (true, msgT)

/-- the `while self._net_update() != NETWORK_ACK:` loop of `_write` -/
def ackWait : Nat → Nat → NetM Bool
  | 0, _ => throw .diverge
  | f + 1, deadline => do
    let t ← netUpdate f 0
    if t = NETWORK_ACK then return true
    if (← nowNs) > deadline then return false
    ackWait f deadline

/-- `_write(write_direct, send_type)` -/
def nodeWrite : Nat → Nat → Nat → NetM Bool
  | 0, _, _ => throw .diverge
  | f + 1, writeDirect, sendType => do
    let n ← getNode
    let isAckT ← liftPy n.frameBuf.isAckType
    let (toNode, toPipe, isMulticast) := logi2phys n.a writeDirect sendType
    if sendType = TX_ROUTED ∧ writeDirect = toNode ∧ isAckT then sleepNs 2000000
    let result ← nodeWriteToPipe f toNode toPipe isMulticast
    let n ← getNode
    if result ∧ isAckT then
      if sendType = TX_ROUTED ∧ toNode = writeDirect ∧ n.frameBuf.header.fromNode ≠ n.a.addr then
        setHdr fun h => { (h.setTy NETWORK_ACK) with toNode := h.fromNode }
        let (an, ap, mc) := logi2phys n.a n.frameBuf.header.fromNode TX_ROUTED
        let _ ← nodeWriteToPipe f an ap mc
        liftRf (Rf24.setListen true)
        if !mc then liftRf (Rf24.setAutoAckAttr (.i 0x3E))
        return result
      else if toNode ≠ writeDirect ∧ (sendType = TX_NORMAL ∨ sendType = TX_LOGICAL) then
        liftRf (Rf24.setListen true)
        liftRf (Rf24.setAutoAckAttr (.i 0x3E))
        let deadline := n.routeTimeout * 1000000 + (← nowNs)
        let got ← ackWait f deadline
        return got
    liftRf (Rf24.setListen true)
    if !isMulticast then liftRf (Rf24.setAutoAckAttr (.i 0x3E))
    return result

/-- `update()` of the current node, whatever its class -/
def nodeUpdate : Nat → NetM Nat
  | 0 => throw .diverge
  | f + 1 => do
    let msgT ← netUpdate f 0
    let n ← getNode
    if n.kind ≠ .meshMaster then return msgT
    -- RF24Mesh.update()
    if msgT = MESH_ADDR_REQUEST ∧ n.frameBuf.header.reserved ≠ 0 then modNode fun n => { n with doDhcp := true }
    if n.nodeId = 0 then   -- `if not self.lookup_node_id()`
      if (msgT = MESH_ADDR_LOOKUP ∨ msgT = MESH_ID_LOOKUP) ∧ Mesh.lookupLongEnough msgT n.frameBuf.message then
        setHdr fun h => { h with toNode := h.fromNode }
        let n ← getNode
        let m : Mesh.Master := { table := n.dhcp, abandoned := n.a.addr = NETWORK_DEFAULT_ADDR }
        let msg ← liftPy (masterLookupReply m n msgT)
        modNode fun n => { n with frameBuf := { n.frameBuf with message := msg } }
        let _ ← nodeWrite f (← getNode).frameBuf.header.toNode TX_NORMAL
      else if msgT = MESH_ADDR_RELEASE then
        masterRelease f (← getNode).frameBuf.header.fromNode
      masterDhcp f
    return msgT

/-- master `release_address(address)` as `update()` calls it -/
def masterRelease : Nat → Nat → NetM Unit
  | 0, _ => throw .diverge
  | f + 1, address => do
    if address = 0 then
      -- `super().release_address()`: the master abandons address 0 if the write succeeds
      let n ← getNode
      if n.a.addr ≠ NETWORK_DEFAULT_ADDR then
        setHdr fun h => { (h.setTy MESH_ADDR_RELEASE) with toNode := 0, fromNode := n.a.addr }
        modNode fun n => { n with frameBuf := { n.frameBuf with message := [] } }
        if (← nodeWrite f 0 TX_NORMAL) then begin NETWORK_DEFAULT_ADDR
    else
      modNode fun n => { n with dhcp := (Mesh.releaseScan n.dhcp address n.dhcp).1 }

/-- `_dhcp()` -/
def masterDhcp : Nat → NetM Unit
  | 0 => throw .diverge
  | f + 1 => do
    let n ← getNode
    if !n.doDhcp then return
    modNode fun n => { n with doDhcp := false }
    let fromNode := n.frameBuf.header.fromNode
    let reserved := n.frameBuf.header.reserved
    let viaNode := if fromNode ≠ NETWORK_DEFAULT_ADDR then fromNode else 0
    let shiftVal := if fromNode ≠ NETWORK_DEFAULT_ADDR then Mesh.shiftLoop fromNode 0 else 0
    let extra := if fromNode = NETWORK_DEFAULT_ADDR then 1 else 0
    match dhcpFind n.dhcp reserved viaNode shiftVal (Mesh.MESH_MAX_CHILDREN + extra) with
    | none => return
    | some newAddr =>
      modNode fun n => { n with dhcp := Mesh.setAddress n.dhcp reserved newAddr }
      setHdr fun h => { (h.setTy MESH_ADDR_RESPONSE) with toNode := h.fromNode }
      let msg ← liftPy (Mesh.packHNat newAddr)
      modNode fun n => { n with frameBuf := { n.frameBuf with message := msg } }
      if fromNode ≠ NETWORK_DEFAULT_ADDR then
        let toNode := (← getNode).frameBuf.header.toNode
        let response ← liftPy (← getNode).frameBuf.pack
        if !(← nodeWrite f toNode TX_NORMAL) then
          -- waiting for the NETWORK_ACK may have replaced frame_buf: restore the response
          modNode fun n => { n with frameBuf := (n.frameBuf.unpack response).1 }
          let _ ← nodeWrite f toNode TX_NORMAL
      else
        let _ ← nodeWrite f (← getNode).frameBuf.header.toNode TX_PHYSICAL

end

end Nrf.Net
