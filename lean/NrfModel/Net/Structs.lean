/-
L4 — `network/structs.py`: `RF24NetworkHeader` (`__init__`, `pack`, `unpack`, the class-level
`__next_id` counter) and `RF24NetworkFrame` (`pack`, `unpack`, `__len__`, `is_ack_type`).
Transliterated: same masks, same order of side effects, same exceptions.

Python `int` header fields are `Nat` (negative attribute values are outside the model, see the
assumptions of C11); `message_type` may also be a `str` in Python (`pack()` looks at its first
character), so it is the two-constructor type `MsgT`.  `struct.pack("HHHBB")` is native order: the
model is little-endian (host assumption, DESIGN §3.1).
-/
import NrfModel.Basic

namespace Nrf.Net

def MAX_FRAG_SIZE : Nat := 24
def MSG_FRAG_FIRST : Nat := 148
def MSG_FRAG_MORE : Nat := 149
def MSG_FRAG_LAST : Nat := 150
def NETWORK_EXT_DATA : Nat := 131

/-- the value of `header.message_type`: an `int`, or a `str` given by its code points -/
inductive MsgT where
  | int (n : Nat)
  | str (cs : List Nat)
  deriving DecidableEq, Repr, Inhabited

/-- the attributes of an `RF24NetworkHeader` object -/
structure Header where
  fromNode : Nat := 0o7777
  toNode : Nat := 0
  frameId : Nat := 0
  msgType : MsgT := .int 0
  reserved : Nat := 0
  deriving DecidableEq, Repr, Inhabited

/-- the `message_type` argument of `RF24NetworkHeader.__init__` -/
inductive CtorT where
  | none
  | int (i : Int)
  | str (cs : List Nat)
  deriving DecidableEq, Repr, Inhabited

/-- `x & mask` for a Python int `x` (possibly negative) and `mask = 2^k - 1` -/
def maskInt (x : Int) (m : Nat) : Nat := (x % ((m : Int) + 1)).toNat

/-- `RF24NetworkHeader.__init__(to_node, message_type)` with the class counter `__next_id`
    threaded through: returns the new header and the new counter.  `ord(message_type[0])` raises
    `IndexError` for `""` *before* the counter is touched. -/
def Header.init (nextId : Nat) (toNode : Option Int) (mt : CtorT) : PyM (Header × Nat) := do
  let to := match toNode with
    | Option.none => 0
    | some t => maskInt t 0xFFF
  let ty ← match mt with
    | .str [] => throw PyErr.indexError
    | .str (c :: _) => pure c                    -- `ord(...)`: not masked here
    | .none => pure 0
    | .int i => pure (maskInt i 0xFF)
  pure ({ fromNode := 0o7777, toNode := to, frameId := nextId, msgType := .int ty, reserved := 0 },
        (nextId + 1) &&& 0xFFFF)

/-- `struct.pack("H", x)` for `0 ≤ x < 65536`, little-endian host -/
def le16b (x : Nat) : Bytes := [x % 256, x / 256]

/-- `RF24NetworkHeader.pack()`: `msg_t & 0xFF` raises `TypeError` when `message_type == ""` -/
def Header.pack (h : Header) : PyM Bytes := do
  let t ← match h.msgType with
    | .int n => pure n
    | .str (c :: _) => pure c
    | .str [] => throw PyErr.typeError
  pure (le16b (h.fromNode &&& 0xFFF) ++ le16b (h.toNode &&& 0xFFF) ++ le16b (h.frameId &&& 0xFFFF)
        ++ [t &&& 0xFF, h.reserved &&& 0xFF])

/-- `RF24NetworkHeader.unpack(buffer)`: the header after the call and the returned flag -/
def Header.unpack (h : Header) (buffer : Bytes) : Header × Bool :=
  match buffer with
  | f0 :: f1 :: t0 :: t1 :: i0 :: i1 :: ty :: rs :: _ =>
    ({ fromNode := le16 f0 f1, toNode := le16 t0 t1, frameId := le16 i0 i1, msgType := .int ty,
       reserved := rs }, true)
  | _ => (h, false)

/-- `len(header)` -/
def Header.len (_ : Header) : Nat := 8

/-- the attributes of an `RF24NetworkFrame` object -/
structure Frame where
  header : Header := {}
  message : Bytes := []
  deriving DecidableEq, Repr, Inhabited

/-- `RF24NetworkFrame.unpack(buffer)` -/
def Frame.unpack (f : Frame) (buffer : Bytes) : Frame × Bool :=
  let (h, ok) := f.header.unpack buffer
  if ok then ({ header := h, message := buffer.drop 8 }, true) else ({ f with header := h }, false)

/-- `RF24NetworkFrame.pack()` -/
def Frame.pack (f : Frame) : PyM Bytes := do
  let h ← f.header.pack
  pure (h ++ f.message)

/-- `len(frame)` -/
def Frame.len (f : Frame) : Nat := 8 + f.message.length

/-- `RF24NetworkFrame.is_ack_type()`: `64 < "T"` is a `TypeError` -/
def Frame.isAckType (f : Frame) : PyM Bool :=
  match f.header.msgType with
  | .int n => pure (decide (64 < n) && decide (n < 192))
  | .str _ => throw PyErr.typeError

/-- `RF24NetworkFrame()` with default arguments: a fresh header (consumes one id) -/
def Frame.fresh (nextId : Nat) : Frame × Nat :=
  ({ header := { frameId := nextId }, message := [] }, (nextId + 1) &&& 0xFFFF)

end Nrf.Net
