/-
L5/L6 — the public entry points of network and mesh nodes (`rf24_network.py`, `rf24_mesh.py`,
and the `NetworkMixin` attribute setters), over `NrfModel/Net/Node.lean`.
-/
import NrfModel.Net.Node

namespace Nrf.Net
open Nrf

def F : Nat := NET_FUEL

/-- `NetworkMixin.__init__` after `RF24.__init__`: `FrameQueueFrag()` and `RF24NetworkFrame()`
    each consume a header id -/
def mixinInit : NetM Unit := do
  let idCache ← takeId
  let idBuf ← takeId
  modNode fun n => { n with
    queue := { cache := { header := { frameId := idCache } } },
    frameBuf := { header := { frameId := idBuf } } }

/-- constructor of the four node classes on radio `rid`; `arg` is `node_address` or `node_id` -/
def construct (kind : NodeKind) (rid : Nat) (arg : Nat) : NetM Unit := do
  if (kind = .routing ∨ kind = .network) ∧ !isValid arg then throw .valueError
  modNode fun _ => { kind := kind, rf := { rid := rid } }
  liftRf Rf24.init
  mixinInit
  match kind with
  | .routing | .network => begin arg
  | .meshNode | .meshMaster =>
    modNode fun n => { n with nodeId := min 255 arg, retSysMsg := true }
    begin (if arg = 0 then 0 else NETWORK_DEFAULT_ADDR)

/-- `node.update()` -/
def apiUpdate : NetM Nat := nodeUpdate F

/-- `node_address = val` (routing / network nodes) -/
def apiSetNodeAddress (val : Nat) : NetM Unit := do
  if !isValid val then return
  begin val

/-- `multicast_level = lvl` -/
def apiSetMulticastLevel (lvl : Int) : NetM Unit := do
  let l := (min 4 (max lvl 0)).toNat
  modNode fun n => { n with a := { n.a with netLvl := l } }
  liftRf (Rf24.setListen false)
  -- `target = _lvl_2_addr(lvl) if self.allow_multicast else self._addr`
  let n ← getNode
  let a ← pipeAddr (if n.cfg.allowMulticast then lvl2addr l else n.a.addr) 0
  liftRf (Rf24.openRxPipe 0 a)
  liftRf (Rf24.setListen true)

/-- `fragmentation = enabled` -/
def apiSetFragmentation (enabled : Bool) : NetM Unit := do
  let n ← getNode
  if enabled ≠ n.fragEnabled then
    modNode fun n => { n with maxMessageLength := if enabled then 144 else MAX_FRAG_SIZE }
    if enabled then
      let id ← takeId
      let c : Frame := { header := { frameId := id } }
      modNode fun n =>
        let q := n.queue
        { n with queue := { q with frag := true, cacheValid := true, cache := c } }
    else modNode fun n =>
        let q := n.queue
        { n with queue := { q with frag := false } }
    modNode fun n => { n with fragEnabled := enabled }

/-- `multicast_relay = enable` -/
def apiSetMulticastRelay (enable : Bool) : NetM Unit :=
  modNode fun n => { n with relayEnabled := enable && n.cfg.allowMulticast }

/-- `node.read()` (dequeue) -/
def apiRead : NetM (Option Frame) := do
  let n ← getNode
  match n.queue.frames with
  | [] => return none
  | f :: rest =>
    modNode fun n => { n with queue := { n.queue with frames := rest } }
    return some f

/-- `multicast(message, message_type, level)` -/
def apiMulticast (msg : Bytes) (ty : Int) (level : Option Int) : NetM Bool := do
  let ok ← nodeValidateMsgLen msg.length
  let msg := if ok then msg else msg.take MAX_FRAG_SIZE
  let n ← getNode
  let lvl : Nat := match level with
    | none => n.a.netLvl
    | some l => (min 4 (max l 0)).toNat
  setHdr fun h => { (h.setTy (maskInt ty 0xFF)) with toNode := NETWORK_MULTICAST_ADDR, fromNode := n.a.addr }
  modNode fun n => { n with frameBuf := { n.frameBuf with message := msg } }
  nodeWrite F (lvl2addr lvl) TX_MULTICAST

/-- `RF24Network.write(RF24NetworkFrame(RF24NetworkHeader(to, type), message), traffic_direct)`;
    returns the result and the caller's frame object as it is when the call returns (the node works
    on a private copy) -/
def apiNetWrite (to : Int) (ty : Int) (msg : Bytes) (direct : Nat) : NetM (Bool × Frame) := do
  let id ← takeId
  let hdr : Header := { fromNode := 0o7777, toNode := maskInt to 0xFFF, frameId := id,
                        msgType := .int (maskInt ty 0xFF), reserved := 0 }
  if !isValid hdr.toNode then throw .attributeError
  let ok ← nodeValidateMsgLen msg.length
  let msg := if ok then msg else msg.take MAX_FRAG_SIZE
  let n ← getNode
  let caller : Frame := { header := { hdr with fromNode := n.a.addr }, message := msg }
  -- `_pre_write`: `self.frame_buf = RF24NetworkFrame(); self.frame_buf.unpack(frame.pack())`
  let _ ← takeId
  modNode fun nd => { nd with frameBuf := wireCopy caller }
  let r ← if direct ≠ AUTO_ROUTING then
      let sendType := if hdr.toNode = direct then TX_PHYSICAL
        else if hdr.toNode = NETWORK_MULTICAST_ADDR then TX_MULTICAST else TX_LOGICAL
      nodeWrite F direct sendType
    else nodeWrite F hdr.toNode TX_NORMAL
  return (r, caller)

/-! ### mesh -/

/-- `RF24MeshNoMaster.write(to_node, message_type, message)` -/
def meshWrite (to : Nat) (ty : Int) (msg : Bytes) : NetM Bool := do
  let ok ← nodeValidateMsgLen msg.length
  let msg := if ok then msg else msg.take MAX_FRAG_SIZE
  let n ← getNode
  if n.a.addr = NETWORK_DEFAULT_ADDR ∨ !isValid to then return false
  let id ← takeId
  modNode fun nd => { nd with frameBuf :=
    { header := { fromNode := n.a.addr, toNode := to &&& 0xFFF, frameId := id,
                  msgType := .int (maskInt ty 0xFF), reserved := 0 }, message := msg } }
  nodeWrite F to TX_NORMAL

/-- non-master `release_address()` -/
def meshRelease : NetM Bool := do
  let n ← getNode
  if n.a.addr ≠ NETWORK_DEFAULT_ADDR then
    setHdr fun h => { (h.setTy MESH_ADDR_RELEASE) with toNode := 0, fromNode := n.a.addr }
    modNode fun nd => { nd with frameBuf := { nd.frameBuf with message := [] } }
    if (← nodeWrite F 0 TX_NORMAL) then
      begin NETWORK_DEFAULT_ADDR
      return true
  return false

/-- the `while self._net_update() not in (MESH_ID_LOOKUP, MESH_ADDR_LOOKUP):` loop -/
def lookupWait (deadline : Nat) : Nat → NetM Bool
  | 0 => throw .diverge
  | f + 1 => do
    let t ← netUpdate F 0
    if t = MESH_ID_LOOKUP ∨ t = MESH_ADDR_LOOKUP then return true
    if (← nowNs) > deadline then return false
    lookupWait deadline f

/-- `_lookup_2_master(number, lookup_type)` -/
def lookup2Master (number : Int) (lookupType : Nat) : NetM Int := do
  let n ← getNode
  let id ← takeId
  setHdr fun _ => { fromNode := n.a.addr, toNode := 0, frameId := id, msgType := .int lookupType, reserved := 0 }
  let msg ← liftPy (if lookupType = MESH_ID_LOOKUP then packH number else bytes1 number)
  modNode fun nd => { nd with frameBuf := { nd.frameBuf with message := msg } }
  if !(← nodeWrite F 0 TX_NORMAL) then return -1
  let deadline := 135 * 1000000 + (← nowNs)
  if !(← lookupWait deadline F) then return -1
  let m := (← getNode).frameBuf.message
  if m.length ≥ 2 then
    let v ← liftPy (unpackSH (pySlice m 0 2))
    return v
  match m with
  | b :: _ => return b
  | [] => return -1

/-- `lookup_address(node_id)` (both classes) -/
def meshLookupAddress (nodeId : Int) : NetM Int := do
  let n ← getNode
  if nodeId = 0 then return 0
  if n.a.addr = NETWORK_DEFAULT_ADDR then return -2
  if n.kind = .meshMaster ∧ n.nodeId = 0 then return Mesh.getAddress nodeId.toNat MESH_ADDR_LOOKUP n.dhcp
  lookup2Master nodeId MESH_ADDR_LOOKUP

/-- `lookup_node_id(address)` (both classes); `none` = `None` -/
def meshLookupNodeId (address : Option Int) : NetM Int := do
  let n ← getNode
  match address with
  | none => return n.nodeId
  | some a =>
    if a = 0 then return 0
    if n.a.addr = NETWORK_DEFAULT_ADDR then return -2
    if n.kind = .meshMaster ∧ n.a.addr = 0 then return Mesh.getAddress a.toNat MESH_ID_LOOKUP n.dhcp
    lookup2Master a MESH_ID_LOOKUP

/-- CPython's `set` of small non-negative ints with at most 4 members (table of 8 slots, no
    resize): insertion, and iteration in slot order -/
def pySetProbe (slots : List (Option Nat)) (h : Nat) : Nat → Nat → Nat → Option Nat
  | 0, _, _ => none
  | f + 1, i, perturb =>
    match slots.getD i none with
    | none => some i
    | some k => if k = h then none
      else pySetProbe slots h f ((i * 5 + 1 + (perturb >>> 5)) &&& 7) (perturb >>> 5)

def pySetAdd (slots : List (Option Nat)) (h : Nat) : List (Option Nat) :=
  match pySetProbe slots h 64 (h &&& 7) h with
  | none => slots
  | some i => slots.set i (some h)

def pySetItems (slots : List (Option Nat)) : List Nat := slots.filterMap id

/-- the polling loop of `_make_contact` -/
def contactLoop (deadline : Nat) : Nat → List (Option Nat) → NetM (List (Option Nat))
  | 0, _ => throw .diverge
  | f + 1, slots => do
    if (← nowNs) < deadline ∧ (pySetItems slots).length < 4 then
      let t ← netUpdate F 0
      let n ← getNode
      let slots := if t = NETWORK_POLL then pySetAdd slots n.frameBuf.header.fromNode else slots
      contactLoop deadline f slots
    else return slots

/-- `_make_contact(lvl)` -/
def makeContact (lvl : Nat) : NetM (List Nat) := do
  setHdr fun h => { (h.setTy NETWORK_POLL) with toNode := NETWORK_MULTICAST_ADDR, fromNode := NETWORK_DEFAULT_ADDR }
  modNode fun nd => { nd with frameBuf := { nd.frameBuf with message := [] } }
  let _ ← nodeWrite F (lvl2addr lvl) TX_MULTICAST
  let deadline := 55000000 + (← nowNs)
  let slots ← contactLoop deadline F (List.replicate 8 none)
  return pySetItems slots

def getLevel (address : Nat) : Nat :=
  if address = 0 then 0 else 1 + getLevel (address >>> 3)
termination_by address
decreasing_by (simp only [Nat.shiftRight_eq_div_pow]; omega)

/-- the `while time.monotonic_ns() < timeout:` loop of `_request_address` for one contact -/
def responseWait (contact deadline : Nat) : Nat → Option Nat → NetM (Option Nat)
  | 0, _ => throw .diverge
  | f + 1, newAddr => do
    if (← nowNs) < deadline then
      let t ← netUpdate F 0
      let n ← getNode
      if t = MESH_ADDR_RESPONSE ∧ n.frameBuf.header.reserved = n.nodeId then
        let v ← liftPy (unpackH (pySlice n.frameBuf.message 0 2))
        -- `new_addr & ~(0xFFFF << (level * 3))`
        let test := v % (2 ^ (getLevel contact * 3))
        if test ≠ contact then responseWait contact deadline f none
        else return some v
      else responseWait contact deadline f newAddr
    else return newAddr

/-- the `for contact in contacts:` loop of `_request_address`; `new_addr` is *not* reset between
    contacts in the Python code -/
def requestLoop : List Nat → Option Nat → NetM Bool
  | [], _ => return false
  | contact :: rest, carried => do
    let n ← getNode
    setHdr fun h => { (h.setTy MESH_ADDR_REQUEST) with toNode := contact, fromNode := NETWORK_DEFAULT_ADDR,
                                                        reserved := n.nodeId }
    modNode fun nd => { nd with frameBuf := { nd.frameBuf with message := [] } }
    let _ ← nodeWrite F contact TX_PHYSICAL
    let deadline := 225000000 + (← nowNs)
    let newAddr ← responseWait contact deadline F carried
    match newAddr with
    | none => requestLoop rest none
    | some a =>
      begin a
      let n ← getNode
      if (← meshLookupNodeId (some n.a.addr)) ≠ n.nodeId then
        if (← meshLookupNodeId (some n.a.addr)) ≠ n.nodeId then
          begin NETWORK_DEFAULT_ADDR
          return (← requestLoop rest (some a))
      return true

/-- `_request_address(level)` -/
def requestAddress (level : Nat) : NetM Bool := do
  let contacts ← makeContact level
  if contacts.isEmpty then return false
  requestLoop contacts none

/-- the `while not self._request_address(request_count):` loop of `renew_address` -/
def renewLoop (endTimer : Nat) : Nat → Nat → Nat → NetM (Option Nat)
  | 0, _, _ => throw .diverge
  | f + 1, total, count => do
    if (← requestAddress count) then return some (← getNode).a.addr
    if (← nowNs) > endTimer then return none
    sleepNs ((25 + ((total + 1) * (count + 1)) * 2) * 1000000)
    renewLoop endTimer f ((total + 1) % 10) ((count + 1) % 4)

/-- `renew_address(timeout)` with the timeout given in milliseconds -/
def meshRenew (timeoutMs : Nat) : NetM (Option Nat) := do
  let n ← getNode
  if n.kind = .meshMaster ∧ n.nodeId = 0 then return some 0
  if (← liftRf Rf24.available) then let _ ← apiUpdate
  if (← getNode).a.addr ≠ NETWORK_DEFAULT_ADDR then begin NETWORK_DEFAULT_ADDR
  let endTimer := timeoutMs * 1000000 + (← nowNs)
  renewLoop endTimer 100000 0 0

/-- `check_connection(attempts, ping_master)` -/
def meshCheckConnection (attempts : Nat) (pingMaster : Bool) : NetM Bool := do
  let n ← getNode
  if n.nodeId = 0 then return true
  if n.a.addr = NETWORK_DEFAULT_ADDR then return false
  let rec go : Nat → NetM Bool
    | 0 => return false
    | k + 1 => do
      let n ← getNode
      if pingMaster then
        let r ← meshLookupAddress n.nodeId
        if r = -2 then return false
        if r = n.a.addr then return true
        go k
      else
        if (← meshWrite n.a.parent NETWORK_PING []) then return true
        go k
  go attempts

/-- the lookup retry loop of `send(to_node_id, …)` -/
def sendLookupLoop (toId : Nat) (deadline : Nat) : Nat → Nat → NetM (Option Int)
  | 0, _ => throw .diverge
  | f + 1, retryDelay => do
    let a ← meshLookupAddress toId
    if (← nowNs) ≥ deadline then return none
    if a < 0 then
      sleepNs (retryDelay * 1000000)
      sendLookupLoop toId deadline f (retryDelay + 10)
    else return some a

/-- `send(to_node_id, message_type, message)` -/
def meshSend (toId : Nat) (ty : Int) (msg : Bytes) : NetM Bool := do
  let n ← getNode
  if n.a.addr = NETWORK_DEFAULT_ADDR then return false
  let mut to := toId
  if toId ≠ 0 ∧ toId ≠ n.nodeId then
    let deadline := 115 * 1000000 + (← nowNs)
    match (← sendLookupLoop toId deadline 1000 5) with
    | none => return false
    | some a => to := a.toNat
  else if to = n.nodeId then to := n.a.addr
  meshWrite to ty msg

/-- master `release_address(address)` (API) -/
def masterReleaseApi (address : Nat) : NetM Bool := do
  if address = 0 then meshRelease
  else
    let n ← getNode
    let (t, found) := Mesh.releaseScan n.dhcp address n.dhcp
    modNode fun nd => { nd with dhcp := t }
    return found

end Nrf.Net
