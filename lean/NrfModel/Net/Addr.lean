/-
L4/L5 — logical addresses: `structs.is_address_valid`, `mixins._lvl_2_addr`, the address part of
`NetworkMixin._begin`, `_pipe_address`, `_logi_2_phys`.  Transliterated: same masks, same shifts,
same loops (loops whose termination is not structural carry fuel and return `none` when it runs
out, so that a non-terminating loop is an observable outcome, not an assumption).
-/
import NrfModel.Basic

namespace Nrf.Net

def NETWORK_DEFAULT_ADDR : Nat := 0o4444
def NETWORK_MULTICAST_ADDR : Nat := 0o100
def NETWORK_MULTICAST_ADDR_LVL_2 : Nat := 0o10
def NETWORK_MULTICAST_ADDR_LVL_4 : Nat := 0o1000

/-- `structs.py: is_address_valid` — number of octal digits tolerated before giving up. -/
def VALID_DIGIT_LIMIT : Nat := 3

/-- the `while address:` loop of `is_address_valid` -/
def isValidGo (address byteCount : Nat) : Bool :=
  if address = 0 then true
  else if !(0 < (address &&& 7) && (address &&& 7) ≤ 5) || byteCount > VALID_DIGIT_LIMIT then false
  else isValidGo (address >>> 3) (byteCount + 1)
termination_by address
decreasing_by (simp only [Nat.shiftRight_eq_div_pow]; omega)

/-- `is_address_valid(address)` for an `int` argument (`None` is `False`). -/
def isValid (address : Nat) : Bool :=
  if address = NETWORK_MULTICAST_ADDR ∨ address = NETWORK_MULTICAST_ADDR_LVL_2
      ∨ address = NETWORK_MULTICAST_ADDR_LVL_4 then true
  else isValidGo address 0

/-- `_lvl_2_addr(level)` -/
def lvl2addr (level : Nat) : Nat := if level = 0 then 0 else 1 <<< ((level - 1) * 3)

/-- The address-derived attributes `_begin` computes. -/
structure NodeAddr where
  addr : Nat
  netLvl : Nat
  mask : Nat
  maskInv : Nat
  parent : Nat
  parentPipe : Nat
  deriving DecidableEq, Repr, Inhabited

/-- `while self._addr & mask: mask = (mask << 3) & 0xFFFF; self._net_lvl += 1` -/
def maskInvLoop : Nat → Nat → Nat → Nat → Option (Nat × Nat)
  | 0, _, _, _ => none
  | f + 1, addr, mask, lvl =>
    if addr &&& mask ≠ 0 then maskInvLoop f addr ((mask <<< 3) &&& 0xFFFF) (lvl + 1)
    else some (mask, lvl)

/-- `while not mask & 7: self._mask = (self._mask << 3) | 7; mask >>= 3` -/
def maskLoop : Nat → Nat → Nat → Option Nat
  | 0, _, _ => none
  | f + 1, mask, acc =>
    if mask &&& 7 = 0 then maskLoop f (mask >>> 3) ((acc <<< 3) ||| 7) else some acc

/-- `while mask: mask >>= 3; self._parent_pipe >>= 3` -/
def parentPipeLoop : Nat → Nat → Nat → Option Nat
  | 0, _, _ => none
  | f + 1, mask, pp => if mask ≠ 0 then parentPipeLoop f (mask >>> 3) (pp >>> 3) else some pp

/-- fuel for the three loops above: each runs at most 6 times for a 16-bit mask -/
def BEGIN_FUEL : Nat := 8

/-- address part of `NetworkMixin._begin(n_addr)`; `none` = one of its loops does not terminate -/
def beginAddr (nAddr : Nat) : Option NodeAddr := do
  let (maskInv, lvl) ← maskInvLoop BEGIN_FUEL nAddr 0xFFFF 0
  let mask ← maskLoop BEGIN_FUEL maskInv 0
  let parent := nAddr &&& (mask >>> 3)
  let pp ← parentPipeLoop BEGIN_FUEL (mask >>> 3) nAddr
  pure { addr := nAddr, netLvl := lvl, mask := mask, maskInv := maskInv, parent := parent,
         parentPipe := pp }

/-- Addressing configuration of a node object (`address_prefix`, `address_suffix`,
    `allow_multicast`). `prefix` is the single byte of the default-length `address_prefix`. -/
structure AddrCfg where
  pfx : Nat := 0xCC
  sfx : List Nat := [0xC3, 0x3C, 0x33, 0xCE, 0x3E, 0xE3]
  allowMulticast : Bool := true
  deriving DecidableEq, Repr, Inhabited

/-- `bytearray.__setitem__(i, v)` -/
def setByte (b : Bytes) (i : Nat) (v : Nat) : PyM Bytes :=
  if i < b.length then .ok (b.set i v) else .error .indexError

/-- the `while dec:` loop of `_pipe_address`; returns `(result, count)` -/
def pipeAddrLoop (cfg : AddrCfg) (store : Bool) : Nat → Nat → Bytes → PyM (Bytes × Nat)
  | dec, count, result =>
    if dec = 0 then .ok (result, count)
    else do
      let result ← if store then do
          let s ← pyGet cfg.sfx (dec % 8 : Nat)
          setByte result count s
        else pure result
      pipeAddrLoop cfg store (dec >>> 3) (count + 1) result
termination_by dec => dec
decreasing_by (simp only [Nat.shiftRight_eq_div_pow]; omega)

/-- `_pipe_address(node_addr, pipe_number)` -/
def pipeAddress (cfg : AddrCfg) (nodeAddr pipe : Nat) : PyM Bytes := do
  let cond := !cfg.allowMulticast || (cfg.allowMulticast && (pipe ≠ 0 || nodeAddr = 0))
  let (result, count) ← pipeAddrLoop cfg cond nodeAddr 1 (List.replicate 5 cfg.pfx)
  if cond then do
    let s ← pyGet cfg.sfx (pipe : Nat)
    setByte result 0 s
  else if cfg.allowMulticast && (pipe = 0 || nodeAddr ≠ 0) then do
    let s ← pyGet cfg.sfx ((count : Int) - 1)
    setByte result 1 s
  else pure result

def TX_NORMAL : Nat := 0
def TX_ROUTED : Nat := 1
def TX_PHYSICAL : Nat := 2
def TX_LOGICAL : Nat := 3
def TX_MULTICAST : Nat := 4

/-- `_logi_2_phys(to_node, send_type)` → `(node, pipe, is_multicast)` -/
def logi2phys (n : NodeAddr) (toNode sendType : Nat) : Nat × Nat × Bool :=
  if sendType > TX_ROUTED then (toNode, 0, true)
  else if toNode &&& n.mask = n.addr then
    if toNode &&& (n.maskInv <<< 3) = 0 then (toNode, 5, false)
    else (toNode &&& ((n.mask <<< 3) ||| 7), 5, false)
  else (n.parent, n.parentPipe, false)

/-- the six addresses `_begin` opens: `for i in range(6): open_rx_pipe(i, _pipe_address(n_addr, i))`
    (the first `IndexError` aborts `_begin`) -/
def beginPipes (cfg : AddrCfg) (nAddr : Nat) : PyM (List Bytes) :=
  [0, 1, 2, 3, 4, 5].mapM fun i => pipeAddress cfg nAddr i

/-- What the radio matches on after `open_rx_pipe(i, a_i)`, i = 0..5 (nRF24L01: RX_ADDR_P2..P5 hold
    one byte — `open_rx_pipe` writes `address[0]` only — and take bytes 1..4 from RX_ADDR_P1). -/
def hwListen : List Bytes → List Bytes
  | p0 :: p1 :: rest => p0 :: p1 :: rest.map fun a => a.take 1 ++ p1.drop 1
  | l => l

/-- `_write_to_pipe`: `open_tx_pipe(self._pipe_address(to_node, to_pipe))` for the hop chosen by
    `_logi_2_phys`; `none` = the frame is for this node itself (queued locally, nothing is sent) -/
def txAddress (cfg : AddrCfg) (n : NodeAddr) (toNode sendType : Nat) : Option (PyM Bytes) :=
  let (node, pipe, mc) := logi2phys n toNode sendType
  if node = n.addr ∧ !mc then none else some (pipeAddress cfg node pipe)

/-- upper clamp of an explicit `level` argument of `multicast()` (`min(4, max(level, 0))`) -/
def MULTICAST_ARG_MAX : Nat := 4
/-- upper clamp of the `multicast_level` setter (`min(4, max(lvl, 0))`) -/
def MULTICAST_LEVEL_MAX : Nat := 4

/-- `multicast_level = lvl` : the new `_net_lvl` -/
def setMulticastLevel (lvl : Int) : Nat := min MULTICAST_LEVEL_MAX (max lvl 0).toNat

/-- the address `multicast_level = lvl` re-opens pipe 0 with on a node whose `_addr` is `addr`:
    `_pipe_address(_lvl_2_addr(lvl) if self.allow_multicast else self._addr, 0)` — the level's
    shared address when multicasting is allowed, otherwise the node's own pipe-0 address (the one
    `_begin` opened; before fix 6a18625 the level address was used unconditionally) -/
def multicastLevelAddr (cfg : AddrCfg) (addr : Nat) (lvl : Int) : PyM Bytes :=
  pipeAddress cfg (if cfg.allowMulticast then lvl2addr (setMulticastLevel lvl) else addr) 0

/-- `multicast(…, level)`: `level = self._net_lvl if level is None else min(3, max(level, 0))` -/
def multicastLevel (netLvl : Nat) (level : Option Int) : Nat :=
  match level with
  | none => netLvl
  | some l => min MULTICAST_ARG_MAX (max l 0).toNat

/-- `multicast()` → `_write(_lvl_2_addr(level), TX_MULTICAST)`: logical target and what is
    transmitted to (see `txAddress`) -/
def multicastTx (cfg : AddrCfg) (n : NodeAddr) (level : Option Int) : Nat × Option (PyM Bytes) :=
  let target := lvl2addr (multicastLevel n.netLvl level)
  (target, txAddress cfg n target TX_MULTICAST)

/-- Closed-system composition of the nodes' own choices (no code of its own: each node on the way
    applies the constants `_begin` derived from *its* address and `_logi_2_phys`; the originator
    sends `TX_NORMAL`, every forwarder `TX_ROUTED`).  Returns the addresses visited; `none` = a
    `_begin` loop diverged.  Stops after `fuel` hops. -/
def routeModel : Nat → Nat → Nat → Nat → Option (List Nat)
  | 0, a, _, _ => some [a]
  | f + 1, a, d, st =>
    if a = d then some [a]
    else do
      let n ← beginAddr a
      let rest ← routeModel f (logi2phys n d st).1 d TX_ROUTED
      pure (a :: rest)

end Nrf.Net
