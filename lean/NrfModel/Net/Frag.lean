/-
L5 (sender side) — what `RF24Network.write(frame)` puts on the air:
`rf24_network.py: write/_pre_write`, `mixins.py: _validate_msg_len`, `_write` (only its
`is_ack_type()` call, which is where a `str` type raises) and `_write_to_pipe` (single-frame branch
and the fragment loop), under a link on which every `send()` succeeds (the property speaks of what
is *emitted*; retries and aborts belong to C05/C07).  The NETWORK_ACK wait of `_write` is not
modelled here (it needs the node model; D12 is noted in C11).

`total = bool(msg_len % 24) + int(msg_len / 24)` uses float division in Python; the model divides
integers (exact for every `msg_len < 2^53`, correspondence covers 0..200).
-/
import NrfModel.Net.Structs
import NrfModel.Net.Addr

namespace Nrf.Net

/-- `_validate_msg_len(length)` -/
def validateMsgLen (maxLen : Nat) (fragEnabled : Bool) (length : Nat) : PyM Bool :=
  if length > maxLen then .error .valueError
  else if length > MAX_FRAG_SIZE ∧ !fragEnabled then .ok false
  else .ok true

/-- the number of frames: `bool(msg_len % MAX_FRAG_SIZE) + int(msg_len / MAX_FRAG_SIZE)` -/
def fragTotal (msgLen : Nat) : Nat :=
  (if msgLen % MAX_FRAG_SIZE ≠ 0 then 1 else 0) + msgLen / MAX_FRAG_SIZE

/-- body of `for count in range(total)`; processes `count = total - n .. total - 1`.
    Returns the payloads given to `send()` and the header as the loop leaves it. -/
def fragLoop (msg : Bytes) (total : Nat) (msgT : Nat) : Nat → Header → PyM (List Bytes × Header)
  | 0, h => pure ([], h)
  | n + 1, h => do
    let count := total - (n + 1)
    let bufStart := count * MAX_FRAG_SIZE
    let bufEnd := count * MAX_FRAG_SIZE + MAX_FRAG_SIZE
    let h := { h with reserved := total - count }
    let (h, bufEnd) :=
      if count = total - 1 then
        ({ h with msgType := .int MSG_FRAG_LAST, reserved := msgT }, msg.length)
      else if count = 0 then ({ h with msgType := .int MSG_FRAG_FIRST }, bufEnd)
      else ({ h with msgType := .int MSG_FRAG_MORE }, bufEnd)
    let hb ← h.pack
    let (rest, h') ← fragLoop msg total msgT n h
    pure ((hb ++ pySlice msg bufStart bufEnd) :: rest, h')

/-- `_write_to_pipe` for a first hop other than this node, every `send()` returning `True`:
    the payloads handed to `send()` in order and the frame's header afterwards.  `msgT` is the
    (integer) `message_type`; a `str` type never gets here (`_write` calls `is_ack_type()` first). -/
def writeToPipe (h : Header) (msgT : Nat) (msg : Bytes) : PyM (List Bytes × Header) :=
  if msg.length ≤ MAX_FRAG_SIZE then do
    let b ← Frame.pack { header := h, message := msg }
    pure ([b], h)
  else do
    let total := fragTotal msg.length
    let (frames, h') ← fragLoop msg total msgT total h
    pure (frames, { h' with msgType := .int msgT })

/-- result of `write()` as far as this model goes -/
structure WriteOut where
  /-- payloads handed to `send()`, in order -/
  frames : List Bytes
  /-- first hop is this node itself: `_write_to_pipe` enqueues locally, nothing goes on air -/
  loopback : Bool
  /-- the caller's header object after the call -/
  header : Header
  /-- the caller's `frame.message` after the call (`write` truncates it when fragmentation is off) -/
  message : Bytes
  deriving DecidableEq, Repr

/-- `RF24Network.write(frame)` with `traffic_direct = AUTO_ROUTING` on a node with address
    attributes `n`: validation, truncation, `from_node` assignment, first hop, emission. -/
def netWrite (n : NodeAddr) (maxLen : Nat) (fragEnabled : Bool) (h : Header) (msg : Bytes) :
    PyM WriteOut := do
  if !isValid h.toNode then throw .attributeError
  let okLen ← validateMsgLen maxLen fragEnabled msg.length
  let msg := if okLen then msg else pySlice msg 0 MAX_FRAG_SIZE
  let h := { h with fromNode := n.addr }
  -- `_pre_write`: `self.frame_buf = RF24NetworkFrame(); self.frame_buf.unpack(frame.pack())`: the node
  -- works on a private copy (wire image: masked fields, integer type); `pack()` raises `TypeError`
  -- for the type `""`.  The caller's header is not touched any further.
  let img ← Frame.pack { header := h, message := msg }
  let hc := (Header.unpack {} img).1
  let msgT := match hc.msgType with
    | .int t => t
    | .str _ => 0
  let (hop, _, _) := logi2phys n hc.toNode TX_NORMAL
  if hop = n.addr then
    pure { frames := [], loopback := true, header := h, message := msg }
  else do
    let (frames, _) ← writeToPipe hc msgT msg
    pure { frames := frames, loopback := false, header := h, message := msg }

/-- the `fragmentation` setter's effect on `max_message_length` (given the current flag) -/
def fragmentationMaxLen (cur : Bool) (maxLen : Nat) (enabled : Bool) : Nat :=
  if enabled = cur then maxLen else if enabled then 144 else MAX_FRAG_SIZE

end Nrf.Net
