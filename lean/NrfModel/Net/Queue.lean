/-
L4 — `network/structs.py`: `FrameQueue`, `FrameQueueFrag`, and the `fragmentation` setter of
`network/mixins.py`, with **object identity**: frames live in a heap (object id ↦ attribute
values) so that "the caller mutates the object it passed in" and "peek() hands out the stored
object itself" are expressible.  The queue holds object ids, as the Python list holds references.

`Fixes` selects between the code as it was found (`Fixes.none`) and the repaired code
(`Fixes.all`, what `/repo` contains now, what the driver runs and what the property theorems are
about).  The unrepaired variants are kept only for the witness theorems of D6, D7, D8, D10.
-/
import NrfModel.Net.Structs

namespace Nrf.Net

/-- which of the four repairs are present -/
structure Fixes where
  /-- D10: capacity test `>=` instead of `==` -/
  capGe : Bool
  /-- D6: a fragment must match the cached origin as well -/
  matchOrigin : Bool
  /-- D7: the last fragment is subject to a sequence test, too -/
  lastSeq : Bool
  /-- D8: the cache is invalidated once its message was handed to the queue -/
  invalidate : Bool
  deriving DecidableEq, Repr, Inhabited

def Fixes.all : Fixes := ⟨true, true, true, true⟩
def Fixes.none : Fixes := ⟨false, false, false, false⟩

/-- heap update -/
def hset (h : Nat → Frame) (o : Nat) (f : Frame) : Nat → Frame := fun i => if i = o then f else h i

/-- a network node's `queue` attribute (one `FrameQueue` or `FrameQueueFrag` object), the frame
    objects reachable from anywhere, and the class-level header id counter -/
structure QState where
  heap : Nat → Frame
  /-- next unused object id -/
  next : Nat
  /-- `_queue`: object ids, oldest first -/
  queue : List Nat
  /-- `max_queue_size` (any Python int can be assigned) -/
  maxSize : Int
  /-- `isinstance(queue, FrameQueueFrag)` -/
  frag : Bool
  /-- `_frags`: an object private to the queue (never handed out), kept by value -/
  cache : Frame
  /-- `_frags.header.from_node is not None` -/
  cacheValid : Bool
  /-- `RF24NetworkHeader.__next_id` -/
  nextId : Nat

/-- the attribute values of the queued frames, oldest first -/
def QState.contents (s : QState) : List Frame := s.queue.map s.heap

/-- `FrameQueueFrag()` of a freshly constructed node (`NetworkMixin.__init__`); the cache is an
    `RF24NetworkFrame()` and consumes one header id -/
def QState.init (nextId : Nat) : QState :=
  let (c, n) := Frame.fresh nextId
  { heap := fun _ => {}, next := 0, queue := [], maxSize := 6, frag := true, cache := c,
    cacheValid := true, nextId := n }

/-- the caller creates a frame object with the given attribute values (the id counter is the
    caller's business: see `Header.init`) -/
def QState.alloc (s : QState) (f : Frame) : QState × Nat :=
  ({ s with heap := hset s.heap s.next f, next := s.next + 1 }, s.next)

/-- the caller assigns attributes of an object it holds -/
def QState.mutate (s : QState) (o : Nat) (f : Frame) : QState := { s with heap := hset s.heap o f }

/-- the duplicate test of `FrameQueue.enqueue` -/
def sameKey (g f : Frame) : Bool :=
  decide (g.header.fromNode = f.header.fromNode) && decide (g.header.frameId = f.header.frameId)
    && decide (g.header.msgType = f.header.msgType)

/-- `FrameQueue.enqueue(frame)` for a frame with attribute values `f`.  The state is returned
    also when `frame.pack()` raises (`new_frame = RF24NetworkFrame()` has then already consumed
    a header id). -/
def QState.enqueueBase (fx : Fixes) (s : QState) (f : Frame) : QState × PyM Bool :=
  if (if fx.capGe then decide (s.maxSize ≤ (s.queue.length : Int))
      else decide (s.maxSize = (s.queue.length : Int))) then (s, .ok false)
  else if s.queue.any (fun i => sameKey (s.heap i) f) then (s, .ok false)
  else
    let (nf, nid) := Frame.fresh s.nextId
    let s := { s with nextId := nid }
    match f.pack with
    | .error e => (s, .error e)
    | .ok img =>
      let (nf, _) := nf.unpack img
      ({ s with heap := hset s.heap s.next nf, next := s.next + 1, queue := s.queue ++ [s.next] },
       .ok true)

/-- `FrameQueueFrag.enqueue(frame)` where `frame` is the object `o` -/
def QState.enqueueFrag (fx : Fixes) (s : QState) (o : Nat) : QState × PyM Bool :=
  let f := s.heap o
  if f.header.msgType = .int MSG_FRAG_FIRST ∨ f.header.msgType = .int MSG_FRAG_MORE
      ∨ f.header.msgType = .int MSG_FRAG_LAST then
    if f.header.msgType = .int MSG_FRAG_FIRST then
      -- `self._frags.unpack(frame.pack())`  (cannot raise: the type is an int)
      match f.pack with
      | .error e => (s, .error e)
      | .ok img => ({ s with cache := (s.cache.unpack img).1, cacheValid := true }, .ok true)
    else if s.cacheValid
        && (!fx.matchOrigin || decide (f.header.fromNode = s.cache.header.fromNode))
        && decide (f.header.toNode = s.cache.header.toNode)
        && decide (f.header.frameId = s.cache.header.frameId) then
      let isLast := decide (f.header.msgType = .int MSG_FRAG_LAST)
      let inSeq :=
        if isLast then
          if fx.lastSeq then decide ((s.cache.header.reserved : Int) - 1 ≤ 1) else true
        else decide ((s.cache.header.reserved : Int) - 1 = (f.header.reserved : Int))
      if !inSeq then (s, .ok false)
      else
        -- `self._frags.header.unpack(frame.header.pack())`
        match f.header.pack with
        | .error e => (s, .error e)
        | .ok hb =>
          let c : Frame := { header := (s.cache.header.unpack hb).1,
                             message := s.cache.message ++ f.message }
          if isLast then
            -- `frame.header.message_type = NETWORK_EXT_DATA  # by reference`
            let heap := if f.header.reserved = NETWORK_EXT_DATA then
                hset s.heap o { f with header := { f.header with msgType := .int NETWORK_EXT_DATA } }
              else s.heap
            let c := { c with header := { c.header with msgType := .int f.header.reserved } }
            let (s', r) := QState.enqueueBase fx { s with heap := heap, cache := c } c
            (if fx.invalidate then { s' with cacheValid := false } else s', r)
          else ({ s with cache := c }, .ok true)
    else (s, .ok false)
  else s.enqueueBase fx f

/-- `queue.enqueue(frame)` dispatched on the class of the queue -/
def QState.enqueue (fx : Fixes) (s : QState) (o : Nat) : QState × PyM Bool :=
  if s.frag then s.enqueueFrag fx o else s.enqueueBase fx (s.heap o)

/-- `peek()`: the stored object itself -/
def QState.peek (s : QState) : Option Nat := s.queue.head?

/-- `dequeue()` -/
def QState.dequeue (s : QState) : QState × Option Nat :=
  match s.queue with
  | [] => (s, none)
  | o :: rest => ({ s with queue := rest }, some o)

/-- `len(queue)` -/
def QState.len (s : QState) : Nat := s.queue.length

/-- `queue.max_queue_size = n` -/
def QState.setMax (s : QState) (n : Int) : QState := { s with maxSize := n }

/-- the `while queue: self._queue.append(queue.dequeue())` loop of `FrameQueue.__init__(queue)`:
    structural on the old list; returns what is left of the old queue and the new list -/
def moveLoop : List Nat → List Nat → List Nat × List Nat
  | [], acc => ([], acc)
  | o :: rest, acc => moveLoop rest (acc ++ [o])

/-- the `fragmentation` setter of `NetworkMixin` as far as the queue is concerned (the companion
    `max_message_length` is in `Frag.lean`): a new queue object of the other class takes the
    frame *objects* over, copies `max_queue_size`; a new `FrameQueueFrag` gets a fresh cache
    (`RF24NetworkFrame()`, one header id). -/
def QState.setFragmentation (s : QState) (enabled : Bool) : QState :=
  if enabled = s.frag then s
  else
    let (_, q) := moveLoop s.queue []
    if enabled then
      let (c, n) := Frame.fresh s.nextId
      { s with queue := q, frag := true, cache := c, cacheValid := true, nextId := n }
    else { s with queue := q, frag := false }

/-! ### histories -/

/-- the operations a history is made of (C12: "every interleaving of enqueue (fresh, duplicate,
    mutated-after-enqueue frames), dequeue, peek, max_queue_size changes and fragmentation
    toggles"; C06 uses `alloc`/`enqueue`/`dequeue`) -/
inductive QOp where
  /-- the caller creates a frame object; it gets the object id `s.next` -/
  | alloc (f : Frame)
  /-- the caller assigns the attributes of object `o` -/
  | mutate (o : Nat) (f : Frame)
  | enqueue (o : Nat)
  | dequeue
  | peek
  | len
  | setMax (n : Int)
  | setFrag (enabled : Bool)

/-- what an operation returns -/
inductive QOut where
  | unit
  /-- `alloc`: the new object's id -/
  | obj (o : Nat)
  | bool (r : PyM Bool)
  /-- `dequeue` / `peek`: the returned object (id and its attribute values) or `None` -/
  | frame (r : Option (Nat × Frame))
  | nat (n : Nat)

def QState.step (fx : Fixes) (s : QState) : QOp → QState × QOut
  | .alloc f => let (s', o) := s.alloc f; (s', .obj o)
  | .mutate o f => (s.mutate o f, .unit)
  | .enqueue o => let (s', r) := s.enqueue fx o; (s', .bool r)
  | .dequeue => let (s', r) := s.dequeue; (s', .frame (r.map fun o => (o, s'.heap o)))
  | .peek => (s, .frame (s.peek.map fun o => (o, s.heap o)))
  | .len => (s, .nat s.len)
  | .setMax n => (s.setMax n, .unit)
  | .setFrag b => (s.setFragmentation b, .unit)

/-- run a history; the outputs in order -/
def QState.run (fx : Fixes) : QState → List QOp → QState × List QOut
  | s, [] => (s, [])
  | s, op :: ops =>
    let (s1, o) := s.step fx op
    let (s2, os) := QState.run fx s1 ops
    (s2, o :: os)

/-- C06: what happens at the receiving node's queue — a frame arrives (`_net_update` unpacks the
    payload into a frame object that is not in the queue and enqueues it), or the application
    reads -/
inductive Ev where
  | deliver (f : Frame)
  | read
  deriving Repr, DecidableEq

def Ev.ops (s : QState) : Ev → List QOp
  | .deliver f => [.alloc f, .enqueue s.next]
  | .read => [.dequeue]

/-- run a C06 history; returns the final state and the frames handed to the application -/
def QState.runEv (fx : Fixes) : QState → List Ev → QState × List Frame
  | s, [] => (s, [])
  | s, .deliver f :: es =>
    let (s1, o) := s.alloc f
    let (s2, _) := s1.enqueue fx o
    QState.runEv fx s2 es
  | s, .read :: es =>
    let (s1, r) := s.dequeue
    let (s2, out) := QState.runEv fx s1 es
    (s2, match r with | some o => s1.heap o :: out | none => out)

end Nrf.Net
