/-
Driver ops that evaluate the C08 / C09 specs (`NrfModel/Spec/Pipe0.lean`, `Spec/Restore.lean`) on
observations of the implementation.

  specc08 <u> <radio> ; <op…> ~ <ok|exc> ~ <radio> ; …
      <u>      ghost `user0` at the start: `-` or hex
      <radio>  `cfg aa rxen a0 tx ce viol`  (a0/tx hex, ce 0/1, viol 1 iff the role log entry is present)
      <op…>    open_rx <p> <hex> | close_rx <p> | open_tx <hex> | auto_ack <T|F> | set_auto_ack <T|F> <p>
               | listen <T|F> | other
      → `ok`  or  `fail <index> <what>`
  specc09 enter <regs established> ~ <regs entered>        → ok | fail <field>
  specc09 exit <cfg> <ce>                                    → ok | fail
      <regs>   `cfg aa rxen aw retr ch rf a0 a1 an tx pw dyn feat`  (an, pw comma lists)
-/
import NrfModel.Drv.Util
import NrfModel.Spec.Pipe0
import NrfModel.Spec.Restore

namespace Nrf.Drv
open Nrf Nrf.Spec

def pTF (s : String) : Option Bool :=
  if s = "T" then some true else if s = "F" then some false else none

def parseNats (s : String) : Option (List Nat) :=
  if s = "-" ∨ s = "" then some [] else (s.splitOn ",").mapM parseNat

/-- the observed part of a radio -/
def s89ParseObs : List String → Option Radio
  | [cfg, aa, rxen, a0, tx, ce, viol] => do
    let cfg ← parseNat cfg; let aa ← parseNat aa; let rxen ← parseNat rxen
    let a0 ← unhex a0; let tx ← unhex tx; let ce ← parseBool ce; let viol ← parseBool viol
    some { config := cfg, enAA := aa, enRxAddr := rxen, rxAddr0 := a0, txAddr := tx, ce := ce,
           violations := if viol then [roleLog] else [] }
  | _ => none

def parseOp08 : List String → Option (Option Op)
  | ["open_rx", p, a] => do let p ← parseInt p; let a ← unhex a; some (some (.openRx p a))
  | ["close_rx", p] => do let p ← parseInt p; some (some (.closeRx p))
  | ["open_tx", a] => do let a ← unhex a; some (some (.openTx a))
  | ["auto_ack", v] => do let v ← pTF v; some (some (.autoAck v))
  | ["set_auto_ack", v, p] => do let v ← pTF v; let p ← parseInt p; some (some (.setAutoAck v p))
  | ["listen", v] => do let v ← pTF v; some (some (.listen v))
  | ["other"] => some none
  | _ => none

def sameObs (a b : Radio) : Bool :=
  a.config == b.config && a.enAA == b.enAA && a.enRxAddr == b.enRxAddr && a.rxAddr0 == b.rxAddr0 &&
  a.txAddr == b.txAddr && a.ce == b.ce

/-- one step of the C08 spec on an observation; `clean` = no call outside the alphabet since the
    last `listen =` (the two-way CE/role correspondence is only claimed for the alphabet) -/
def step08 (u : Option Bytes) (clean : Bool) (prev : Radio) (op : Option Op) (ok : Bool) (r : Radio) :
    Except String (Option Bytes × Bool) :=
  match op with
  | none => .ok (u, false)
  | some op =>
    if !ok then
      if sameObs prev r then .ok (u, clean) else .error "raised-but-changed-the-radio"
    else
      let u' := user0Step u op
      let clean' := clean || (match op with | .listen _ => true | _ => false)
      if ¬ Post u' op r then .error (match op with | .listen _ => "rx-entry" | _ => "tx-ready")
      else if ¬ CeRule op prev r then .error "ce-rule"
      else if ¬ RoleLogClean r then .error "role-changed-with-ce-high"
      else if r.config &&& 1 = 1 ∧ r.ce = false then .error "rx-role-with-ce-low"
      else if clean' ∧ ¬ CeMatchesRole r then .error "ce-high-in-tx-role"
      else .ok (u', clean')

def splitOn1 (sep : String) (toks : List String) : List (List String) :=
  let rec go (cur : List String) (acc : List (List String)) : List String → List (List String)
    | [] => (cur.reverse :: acc).reverse
    | t :: rest => if t = sep then go [] (cur.reverse :: acc) rest else go (t :: cur) acc rest
  go [] [] toks

def run08 (u : Option Bytes) (clean : Bool) (prev : Radio) (k : Nat) : List (List String) → Option String
  | [] => some "ok"
  | stepToks :: rest =>
    match splitOn1 "~" stepToks with
    | [opT, [res], obsT] => do
      let op ← parseOp08 opT
      let ok ← if res = "ok" then some true else if res = "exc" then some false else none
      let r ← s89ParseObs obsT
      match step08 u clean prev op ok r with
      | .error e => some s!"fail {k} {e}"
      | .ok (u', clean') => run08 u' clean' r (k + 1) rest
    | _ => none

def hSpecC08 : Handler
  | u :: toks =>
    match splitOn1 ";" toks with
    | obs0 :: steps => do
      let u ← if u = "-" then some none else (unhex u).map some
      let r0 ← s89ParseObs obs0
      run08 u true r0 0 steps
    | [] => none
  | _ => none

def parseRegs : List String → Option CfgRegs
  | [cfg, aa, rxen, aw, retr, ch, rf, a0, a1, an, tx, pw, dyn, feat] => do
    some { config := ← parseNat cfg, enAA := ← parseNat aa, enRxAddr := ← parseNat rxen, setupAw := ← parseNat aw,
           setupRetr := ← parseNat retr, rfCh := ← parseNat ch, rfSetup := ← parseNat rf, rxAddr0 := ← unhex a0,
           rxAddr1 := ← unhex a1, rxAddrN := ← parseNats an, txAddr := ← unhex tx, rxPw := ← parseNats pw,
           dynpd := ← parseNat dyn, feature := ← parseNat feat }
  | _ => none

def firstDiff (a b : CfgRegs) : String :=
  if a.config ≠ b.config then "cfg" else if a.enAA ≠ b.enAA then "aa" else if a.enRxAddr ≠ b.enRxAddr then "rxen"
  else if a.setupAw ≠ b.setupAw then "aw" else if a.setupRetr ≠ b.setupRetr then "retr"
  else if a.rfCh ≠ b.rfCh then "ch" else if a.rfSetup ≠ b.rfSetup then "rf" else if a.rxAddr0 ≠ b.rxAddr0 then "a0"
  else if a.rxAddr1 ≠ b.rxAddr1 then "a1" else if a.rxAddrN ≠ b.rxAddrN then "an" else if a.txAddr ≠ b.txAddr then "tx"
  else if a.rxPw ≠ b.rxPw then "pw" else if a.dynpd ≠ b.dynpd then "dyn" else "feat"

def hSpecC09 : Handler
  | "enter" :: toks =>
    match splitOn1 "~" toks with
    | [a, b] => do
      let est ← parseRegs a
      let ent ← parseRegs b
      some (if Restored est ent then "ok" else s!"fail {firstDiff (withPwr est) ent}")
    | _ => none
  | ["exit", cfg, ce] => do
    let cfg ← parseNat cfg; let ce ← parseBool ce
    let r : Radio := { config := cfg, ce := ce }
    some (if PoweredDown r then "ok" else "fail")
  | _ => none

def spec0809Handlers : List (String × Handler) := [("specc08", hSpecC08), ("specc09", hSpecC09)]

end Nrf.Drv
