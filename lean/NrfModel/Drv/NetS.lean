/-
Driver ops for network / mesh nodes: one session per line.

  net <nradios> <closed> <op> ; <op> ; …

ops:  new <node> <routing|network|mesh|master> <radio> <address-or-id>
      <node> update | read | write <to> <type> <hex> <direct> | multicast <hex> <type> <level|N>
      <node> set <attr> <value> | get <node_address|parent|fragmentation|multicast_level|…> | available | peek
      <node> nsend <to> <type> <hex>                (RF24Network.send(header, message))
      <node> rf <RF24 op>   (the RadioMixin pass-throughs) | enter | exit   (`with node:` on a shared radio)
      <node> renew <ms> | release | lookup_address <id> | lookup_node_id <addr|N>
             | check_connection <n> <T|F> | send <id> <type> <hex> | mwrite <addr> <type> <hex>
             | setaddr <id> <addr> | release_address <addr>
      env arrive <node> <delay-ns> <pipe> <hex> | env faults <…> | env inject <radio> <pipe> <hex>
output per op: `<result> ~ <node digest> ~ <all radios> ~ [<new air records>]`
-/
import NrfModel.Drv.Rf
import NrfModel.Net.Api

namespace Nrf.Drv
open Nrf Nrf.Net

def showFrame (f : Frame) : String :=
  s!"{f.header.fromNode}>{f.header.toNode}#{f.header.frameId}:{f.header.ty}/{f.header.reserved}:{hex f.message}"

def showNode (n : Node) : String :=
  s!"addr={n.a.addr} lvl={n.a.netLvl} mask={n.a.mask} minv={n.a.maskInv} par={n.a.parent} pp={n.a.parentPipe} " ++
  s!"relay={showBool n.relayEnabled} frag={showBool n.fragEnabled} maxlen={n.maxMessageLength} " ++
  s!"q=[{",".intercalate (n.queue.frames.map showFrame)}] qmax={n.queue.maxSize} " ++
  s!"fb={showFrame n.frameBuf} id={n.nodeId} " ++
  s!"dhcp=[{",".intercalate (n.dhcp.map fun (i, a) => s!"{i}:{a}")}] dodhcp={showBool n.doDhcp} " ++
  s!"st={n.rf.status}"

structure NSess where
  s : NetState
  names : List String := []
  airSeen : Nat := 0
  deriving Inhabited

def kindOf (k : String) : Option NodeKind :=
  if k = "routing" then some .routing else if k = "network" then some .network
  else if k = "mesh" then some .meshNode else if k = "master" then some .meshMaster else none

/-- run `m` as node `i` (context switch in, run, context switch out) -/
def runAs {α} (s : NetState) (i : Nat) (m : NetM α) (sh : α → String) : String × NetState :=
  let s := { s with cur := i, active := [i], w := { s.w with clock := (s.nodes.getD i default).clock } }
  let (r, s') := (m.run).run s
  let s' := { s' with nodes := s'.nodes.modify i (fun n => { n with clock := s'.w.clock }), active := [] }
  (match r with | .ok a => sh a | .error e => "exc=" ++ e.name, s')

def sOptNat : Option Nat → String
  | none => "N"
  | some n => toString n

/-- the members `RadioMixin` passes through to `self._rf24` unchanged (network/mixins.py:74-160) -/
def mixinOp : List String → Bool
  | ["flush_rx"] | ["flush_tx"] | ["fifo", _, _] | ["get", "power"] | ["set", "power", _]
  | ["get", "channel"] | ["set", "channel", _] | ["set_dynamic_payloads", _, _] | ["get_dynamic_payloads", _]
  | ["get", "listen"] | ["set", "listen", _] | ["get", "pa_level"] | ["set", "pa_level", _]
  | ["get", "is_lna_enabled"] | ["get", "data_rate"] | ["set", "data_rate", _] | ["get", "crc"] | ["set", "crc", _]
  | ["get_auto_retries"] | ["set_auto_retries", _, _] | ["get", "last_tx_arc"] | ["address", _]
  | ["interrupt_config", _, _, _] | ["enter"] | ["exit"] => true
  | _ => false

/-- a `RadioMixin` member = the same call on the node's own `RF24` object (an exception is rendered, like
    every result of `rf24Call`, as `exc=<name>`) -/
def rfPass (toks : List String) : NetM String := fun s =>
  let n := s.nodes.getD s.cur default
  match rf24Call n.rf s.w toks with
  | some (res, d', w') =>
    (.ok res, { s with nodes := s.nodes.modify s.cur (fun n => { n with rf := d' }), w := w' })
  | none => (.ok "bad-op", s)

/-- `RF24Network.write(frame)` for a frame whose header the caller built once and re-uses: `frame.header.frame_id = fid`
    is assigned after construction (so the constructor still draws its id), everything else as `apiNetWrite` -/
def apiNetWriteId (to : Int) (ty : Int) (msg : Bytes) (fid : Nat) : NetM (Bool × Frame) := do
  let _ ← takeId
  let hdr : Header := { fromNode := 0o7777, toNode := maskInt to 0xFFF, frameId := fid,
                        msgType := .int (maskInt ty 0xFF), reserved := 0 }
  if !isValid hdr.toNode then throw .attributeError
  let ok ← nodeValidateMsgLen msg.length
  let msg := if ok then msg else msg.take MAX_FRAG_SIZE
  let n ← getNode
  let caller : Frame := { header := { hdr with fromNode := n.a.addr }, message := msg }
  let _ ← takeId
  modNode fun nd => { nd with frameBuf := wireCopy caller }
  let r ← nodeWrite F hdr.toNode TX_NORMAL
  return (r, caller)

/-- `dflt <method> <required args…>`: the node-level call with its optional parameters at the documented defaults -/
def expandNetDefaults : List String → List String
  | ["dflt", "write", to, ty, msg] => ["write", to, ty, msg, "56"]          -- traffic_direct = 0o70
  | ["dflt", "multicast", msg, ty] => ["multicast", msg, ty, "N"]
  | ["dflt", "check_connection"] => ["check_connection", "3", "F"]
  | ["dflt", "lookup_node_id"] => ["lookup_node_id", "N"]
  | ["dflt", "lookup_address"] => ["lookup_address", "0"]                    -- `None` is falsy like 0
  | ["dflt", "release_address"] => ["release_address", "0"]
  | t => t

def nodeCall (toks : List String) : Option (NetM String) :=
  match expandNetDefaults toks with
  | "rf" :: rest =>
    if mixinOp rest && (rf24Call {} (World.fresh 1) rest).isSome then some (rfPass rest) else none
  | ["enter"] => some (rfPass ["enter"])
  | ["exit"] => some (rfPass ["exit"])
  | ["available"] => some (do return sBool (!(← getNode).queue.frames.isEmpty))
  | ["peek"] => some (do
      match (← getNode).queue.frames.head? with
      | none => return "N"
      | some f => return showFrame f)
  | ["get", "node_address"] => some (do return toString (← getNode).a.addr)
  | ["get", "parent"] => some (do return toString (← getNode).a.parent)
  | ["get", "fragmentation"] => some (do return sBool (← getNode).fragEnabled)
  | ["get", "node_id"] => some (do return toString (← getNode).nodeId)
  | ["get", "allow_children"] => some (do return sBool (← getNode).parenthood)
  -- mesh classes: `node_id = v` gives the lease back first (`release_address()`), then `_id = v & 0xFF`
  | ["set", "node_id", v] => do
    let v ← parseInt v
    some (do
      if (← getNode).a.addr ≠ NETWORK_DEFAULT_ADDR then
        let _ ← meshRelease
      modNode fun nd => { nd with nodeId := maskInt v 0xFF }
      return "ok")
  | ["get", "multicast_level"] => some (do return toString (← getNode).a.netLvl)
  | ["get", "multicast_relay"] => some (do let n ← getNode; return sBool (n.cfg.allowMulticast && n.relayEnabled))
  | ["writeid", to, ty, msg, fid] => do
    let to ← parseInt to; let ty ← parseInt ty; let msg ← unhex msg; let fid ← parseNat fid
    some (do let (r, f) ← apiNetWriteId to ty msg fid; return s!"{sBool r} frame={showFrame f}")
  | ["nsend", to, ty, msg] => do
    let to ← parseInt to; let ty ← parseInt ty; let msg ← unhex msg
    some (do let (r, _) ← apiNetWrite to ty msg 0o70; return sBool r)
  | ["update"] => some (do return toString (← apiUpdate))
  | ["read"] => some (do
      match (← apiRead) with
      | none => return "N"
      | some f => return showFrame f)
  | ["write", to, ty, msg, direct] => do
    let to ← parseInt to; let ty ← parseInt ty; let msg ← unhex msg; let direct ← parseNat direct
    some (do let (r, f) ← apiNetWrite to ty msg direct; return s!"{sBool r} frame={showFrame f}")
  | ["multicast", msg, ty, lvl] => do
    let msg ← unhex msg; let ty ← parseInt ty; let lvl ← parseOptInt lvl
    some (do return sBool (← apiMulticast msg ty lvl))
  | ["set", "node_address", v] => do let v ← parseNat v; some (do apiSetNodeAddress v; return "ok")
  | ["set", "multicast_level", v] => do let v ← parseInt v; some (do apiSetMulticastLevel v; return "ok")
  | ["set", "fragmentation", v] => do let v ← pBool v; some (do apiSetFragmentation v; return "ok")
  | ["set", "multicast_relay", v] => do let v ← pBool v; some (do apiSetMulticastRelay v; return "ok")
  | ["set", "allow_multicast", v] => do
    let v ← pBool v
    some (do modNode fun n => { n with cfg := { n.cfg with allowMulticast := v } }; return "ok")
  | ["set", "max_queue_size", v] => do
    let v ← parseInt v
    some (do
      modNode fun n =>
        let q := n.queue
        { n with queue := { q with maxSize := v } }
      return "ok")
  | ["set", "tx_timeout", v] => do let v ← parseNat v; some (do modNode fun n => { n with txTimeout := v }; return "ok")
  | ["set", "route_timeout", v] => do let v ← parseNat v; some (do modNode fun n => { n with routeTimeout := v }; return "ok")
  | ["set", "max_message_length", v] => do
    let v ← parseNat v; some (do modNode fun n => { n with maxMessageLength := v }; return "ok")
  | ["set", "ret_sys_msg", v] => do let v ← pBool v; some (do modNode fun n => { n with retSysMsg := v }; return "ok")
  | ["set", "allow_children", v] => do let v ← pBool v; some (do modNode fun n => { n with parenthood := v }; return "ok")
  | ["set", "address_suffix", v] => do
    let v ← unhex v
    some (do modNode fun n => { n with cfg := { n.cfg with sfx := v } }; return "ok")
  | ["set", "address_prefix", v] => do
    let v ← parseNat v
    some (do modNode fun n => { n with cfg := { n.cfg with pfx := v } }; return "ok")
  | ["renew", ms] => do let ms ← parseNat ms; some (do return sOptNat (← meshRenew ms))
  | ["release"] => some (do return sBool (← meshRelease))
  | ["lookup_address", id] => do let id ← parseInt id; some (do return toString (← meshLookupAddress id))
  | ["lookup_node_id", a] => do let a ← parseOptInt a; some (do return toString (← meshLookupNodeId a))
  | ["check_connection", n, p] => do
    let n ← parseNat n; let p ← pBool p; some (do return sBool (← meshCheckConnection n p))
  | ["send", id, ty, msg] => do
    let id ← parseNat id; let ty ← parseInt ty; let msg ← unhex msg
    some (do return sBool (← meshSend id ty msg))
  | ["mwrite", a, ty, msg] => do
    let a ← parseNat a; let ty ← parseInt ty; let msg ← unhex msg
    some (do return sBool (← meshWrite a ty msg))
  | ["setaddr", id, a] => do
    let id ← parseNat id; let a ← parseNat a
    some (do modNode fun n => { n with dhcp := Mesh.setAddress n.dhcp id a }; return "ok")
  | ["release_address", a] => do let a ← parseNat a; some (do return sBool (← masterReleaseApi a))
  | _ => none

def nsessStep (ss : NSess) (toks : List String) : Option (String × NSess) :=
  match toks with
  | ["new", name, kind, rid, arg] => do
    let k ← kindOf kind; let rid ← parseNat rid; let arg ← parseNat arg
    let i := ss.names.length
    let s := { ss.s with nodes := ss.s.nodes ++ [{}] }
    let (res, s') := runAs s i (construct k rid arg) sUnit
    some (res ++ " ~ " ++ showNode (s'.nodes.getD i default), { ss with s := s', names := ss.names ++ [name] })
  | ["env", "arrive", name, delay, pipe, data] => do
    let delay ← parseNat delay; let pipe ← parseNat pipe; let data ← unhex data
    let i := ss.names.idxOf name
    if i ≥ ss.names.length then none
    let s := { ss.s with nodes := ss.s.nodes.modify i fun n =>
      { n with arrivals := n.arrivals ++ [(n.clock + delay, pipe, data)] } }
    some ("ok ~ -", { ss with s := s })
  | ["env", "faults", f] => do
    let f ← parseFaults f
    some ("ok ~ -", { ss with s := { ss.s with w := { ss.s.w with faults := f } } })
  | ["env", "inject", rid, pipe, data] => do
    let rid ← parseNat rid; let pipe ← parseNat pipe; let data ← unhex data
    some ("ok ~ -", { ss with s := { ss.s with w := ss.s.w.inject rid pipe data } })
  | name :: rest => do
    let i := ss.names.idxOf name
    if i ≥ ss.names.length then none
    let m ← nodeCall rest
    let (res, s') := runAs ss.s i m id
    some (res ++ " ~ " ++ showNode (s'.nodes.getD i default), { ss with s := s' })
  | _ => none

def nsessRun (ss : NSess) : List (List String) → List String → Option (List String)
  | [], acc => some acc.reverse
  | op :: rest, acc => do
    let (res, ss') ← nsessStep ss op
    let newAir := ss'.s.w.air.drop ss'.airSeen
    let all := ",".intercalate (ss'.s.nodes.map fun n =>
      s!"{n.rf.rid}/{n.a.addr}/{n.a.netLvl}/{showBool n.cfg.allowMulticast}/{n.cfg.pfx}/{hex n.cfg.sfx}")
    let line := res ++ " all=" ++ all ++ " ~ " ++ " || ".intercalate (ss'.s.w.radios.map showRadio) ++ " ~ ["
      ++ ",".intercalate (newAir.map showAir) ++ "]"
    nsessRun { ss' with airSeen := ss'.s.w.air.length } rest (line :: acc)

/-- `net <nradios> <closed> <ops…>` -/
def hNet : Handler
  | n :: closed :: toks => do
    let n ← parseNat n
    let closed ← parseBool closed
    let outs ← nsessRun { s := { nodes := [], w := World.fresh n true, closed := closed } } (splitOps toks) []
    pure (" ; ".intercalate outs)
  | _ => none

def netSHandlers : List (String × Handler) := [("net", hNet)]

end Nrf.Drv
