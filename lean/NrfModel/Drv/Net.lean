import NrfModel.Drv.Util
import NrfModel.Net.Addr
import NrfModel.Spec.Tree

namespace Nrf.Drv
open Nrf.Net

def showNodeAddr (n : NodeAddr) : String :=
  s!"lvl={n.netLvl} mask={n.mask} maskinv={n.maskInv} parent={n.parent} ppipe={n.parentPipe}"

def parseCfg (pfx sfx am : String) : Option AddrCfg := do
  let p ← parseNat pfx
  let s ← unhex sfx
  let a ← parseBool am
  pure { pfx := p, sfx := s, allowMulticast := a }

def showAddrs (l : List Bytes) : String := " ".intercalate (l.map hex)

def netParseOptInt (s : String) : Option (Option Int) :=
  if s = "none" then some none else (parseInt s).map some

/-- `valid <addr>` -/
def hValid : Handler
  | [a] => do let a ← parseNat a; pure (showBool (isValid a))
  | _ => none

/-- `begin <addr>` -/
def hBegin : Handler
  | [a] => do let a ← parseNat a; pure (showOpt showNodeAddr (beginAddr a))
  | _ => none

/-- `pipeaddr <pfx> <sfxhex> <am> <node> <pipe>` -/
def hPipeAddr : Handler
  | [pfx, sfx, am, node, pipe] => do
    let cfg ← parseCfg pfx sfx am
    let n ← parseNat node
    let p ← parseNat pipe
    pure (showPyM hex (pipeAddress cfg n p))
  | _ => none

/-- `l2p <addr> <to> <sendtype>` -/
def hL2p : Handler
  | [a, t, s] => do
    let a ← parseNat a
    let t ← parseNat t
    let s ← parseNat s
    match beginAddr a with
    | none => pure "none"
    | some n =>
      let (node, pipe, mc) := logi2phys n t s
      pure s!"{node} {pipe} {showBool mc}"
  | _ => none

/-- `rxaddrs <pfx> <sfxhex> <am> <node>` : what the radio listens on after `_begin(node)` -/
def hRxAddrs : Handler
  | [pfx, sfx, am, node] => do
    let cfg ← parseCfg pfx sfx am
    let n ← parseNat node
    pure (showPyM (fun l => showAddrs (hwListen l)) (beginPipes cfg n))
  | _ => none

def showTx : Option (PyM Bytes) → String
  | none => "self"
  | some r => showPyM hex r

/-- `txaddr <pfx> <sfxhex> <am> <node> <to> <sendtype>` : TX address of the hop `write()` makes -/
def hTxAddr : Handler
  | [pfx, sfx, am, node, to, st] => do
    let cfg ← parseCfg pfx sfx am
    let a ← parseNat node
    let t ← parseNat to
    let s ← parseNat st
    match beginAddr a with
    | none => pure "none"
    | some n => pure (showTx (txAddress cfg n t s))
  -- the same after `multicast_level = nl` on that node (which overwrites `_net_lvl`)
  | [pfx, sfx, am, node, to, st, nl] => do
    let cfg ← parseCfg pfx sfx am
    let a ← parseNat node
    let t ← parseNat to
    let s ← parseNat st
    let l ← parseInt nl
    match beginAddr a with
    | none => pure "none"
    | some n => pure (showTx (txAddress cfg { n with netLvl := setMulticastLevel l } t s))
  | _ => none

/-- `lvl2addr <level>` -/
def hLvl2Addr : Handler
  | [l] => do let l ← parseNat l; pure (toString (lvl2addr l))
  | _ => none

/-- `lvladdr <pfx> <sfxhex> <am> <level>` : `_pipe_address(_lvl_2_addr(level), 0)` -/
def hLvlAddr : Handler
  | [pfx, sfx, am, l] => do
    let cfg ← parseCfg pfx sfx am
    let l ← parseNat l
    pure (showPyM hex (pipeAddress cfg (lvl2addr l) 0))
  | _ => none

/-- `multicast_level = lvl` on a node object constructed at `node` whose pipes were opened under
    `cfg` (constructor: `ValueError` for an invalid address; `_begin`: the first `IndexError` of
    `_pipe_address` aborts) → new level, pipe-0 address -/
def setMcLvlOn (cfg : AddrCfg) (node : Nat) (l : Int) : String :=
  if !isValid node then "exc=ValueError"
  else match beginPipes cfg node with
    | .error e => "exc=" ++ e.name
    | .ok _ => s!"{setMulticastLevel l} {showPyM hex (multicastLevelAddr cfg node l)}"

/-- `setmclvl <pfx> <sfxhex> <am> <node> <lvl:int>` : `multicast_level = lvl` on node `node` → new
    level, pipe-0 address.  Legacy form `setmclvl <pfx> <sfxhex> <am> <lvl:int>` : the same on a
    node at address 0o123 (the object the harness used before the op took a node argument). -/
def hSetMcLvl : Handler
  | [pfx, sfx, am, node, l] => do
    let cfg ← parseCfg pfx sfx am
    let a ← parseNat node
    let l ← parseInt l
    pure (setMcLvlOn cfg a l)
  | [pfx, sfx, am, l] => do
    let cfg ← parseCfg pfx sfx am
    let l ← parseInt l
    pure (setMcLvlOn cfg 0o123 l)
  | _ => none

/-- `mcast <pfx> <sfxhex> <am> <node> <netlvl|-> <level|none>` : `multicast(level=…)` from `node`
    (whose `_net_lvl` was overridden through `multicast_level` unless `-`) → TX address or `self` -/
def hMcast : Handler
  | [pfx, sfx, am, node, nl, lvl] => do
    let cfg ← parseCfg pfx sfx am
    let a ← parseNat node
    let lvl ← netParseOptInt lvl
    match beginAddr a with
    | none => pure "none"
    | some n =>
      let n ← if nl = "-" then some n else do
        let l ← parseInt nl
        pure { n with netLvl := setMulticastLevel l }
      pure (showTx (multicastTx cfg n lvl).2)
  | _ => none

/-- `route <from> <to>` : chain of the nodes' own next-hop choices (at most 9 hops) -/
def hRoute : Handler
  | [a, d] => do
    let a ← parseNat a
    let d ← parseNat d
    pure (showOpt (fun l => ",".intercalate (l.map toString)) (routeModel 9 a d TX_NORMAL))
  | _ => none

/-- `specvalid <addr>` : the property's address predicate (spec, not model) -/
def hSpecValid : Handler
  | [a] => do let a ← parseNat a; pure (showBool (Nrf.Spec.validAddrB a))
  | _ => none

/-- `specpath <from> <to>` : the tree path between two addresses (spec, on digit lists) -/
def hSpecPath : Handler
  | [a, d] => do
    let a ← parseNat a
    let d ← parseNat d
    let p := Nrf.Spec.treePath (Nrf.Spec.digitsOf a) (Nrf.Spec.digitsOf d)
    pure (",".intercalate (p.map fun ds => toString (Nrf.Spec.val ds)))
  | _ => none

/-- `specnexthop <from> <to>` : the tree neighbour of `from` towards `to` (spec) -/
def hSpecNextHop : Handler
  | [a, d] => do
    let a ← parseNat a
    let d ← parseNat d
    pure (toString (Nrf.Spec.val (Nrf.Spec.nextHopSpec (Nrf.Spec.digitsOf a) (Nrf.Spec.digitsOf d))))
  | _ => none

/-- `specdist <from> <to>` -/
def hSpecDist : Handler
  | [a, d] => do
    let a ← parseNat a
    let d ← parseNat d
    pure (toString (Nrf.Spec.dist (Nrf.Spec.digitsOf a) (Nrf.Spec.digitsOf d)))
  | _ => none

def showOptHex : Option Bytes → String
  | some b => hex b
  | none => "none"

/-- `speclisten <pfx> <sfxhex> <am> <node>` : the six addresses the node must listen on (spec) -/
def hSpecListen : Handler
  | [pfx, sfx, am, node] => do
    let p ← parseNat pfx
    let s ← unhex sfx
    let am ← parseBool am
    let n ← parseNat node
    let ds := Nrf.Spec.digitsOf n
    pure (" ".intercalate ([0, 1, 2, 3, 4, 5].map fun i => showOptHex (Nrf.Spec.listenSpec p s am ds i)))
  | _ => none

/-- `speclevel <pfx> <sfxhex> <level>` : the address shared by a network level (spec) -/
def hSpecLevel : Handler
  | [pfx, sfx, l] => do
    let p ← parseNat pfx
    let s ← unhex sfx
    let l ← parseNat l
    pure (showOptHex (Nrf.Spec.levelAddrSpec p s l))
  | _ => none

def netHandlers : List (String × Handler) :=
  [("valid", hValid), ("specvalid", hSpecValid), ("begin", hBegin), ("pipeaddr", hPipeAddr),
   ("l2p", hL2p), ("rxaddrs", hRxAddrs), ("txaddr", hTxAddr), ("lvl2addr", hLvl2Addr),
   ("lvladdr", hLvlAddr), ("setmclvl", hSetMcLvl), ("mcast", hMcast), ("route", hRoute),
   ("specpath", hSpecPath), ("specnexthop", hSpecNextHop), ("specdist", hSpecDist),
   ("speclisten", hSpecListen), ("speclevel", hSpecLevel)]

end Nrf.Drv
