import NrfModel.Drv.Util
import NrfModel.Net.Addr
import NrfModel.Spec.Tree

namespace Nrf.Drv
open Nrf.Net

def showNodeAddr (n : NodeAddr) : String :=
  s!"lvl={n.netLvl} mask={n.mask} maskinv={n.maskInv} parent={n.parent} ppipe={n.parentPipe}"

def parseCfg (pfx sfx am : String) : Option AddrCfg := do
  let p ← parseNat pfx
  let s ← unhex sfx
  let a ← parseBool am
  pure { pfx := p, sfx := s, allowMulticast := a }

/-- `valid <addr>` -/
def hValid : Handler
  | [a] => do let a ← parseNat a; pure (showBool (isValid a))
  | _ => none

/-- `begin <addr>` -/
def hBegin : Handler
  | [a] => do let a ← parseNat a; pure (showOpt showNodeAddr (beginAddr a))
  | _ => none

/-- `pipeaddr <pfx> <sfxhex> <am> <node> <pipe>` -/
def hPipeAddr : Handler
  | [pfx, sfx, am, node, pipe] => do
    let cfg ← parseCfg pfx sfx am
    let n ← parseNat node
    let p ← parseNat pipe
    pure (showPyM hex (pipeAddress cfg n p))
  | _ => none

/-- `l2p <addr> <to> <sendtype>` -/
def hL2p : Handler
  | [a, t, s] => do
    let a ← parseNat a
    let t ← parseNat t
    let s ← parseNat s
    match beginAddr a with
    | none => pure "none"
    | some n =>
      let (node, pipe, mc) := logi2phys n t s
      pure s!"{node} {pipe} {showBool mc}"
  | _ => none

/-- `specvalid <addr>` : the property's address predicate (spec, not model) -/
def hSpecValid : Handler
  | [a] => do let a ← parseNat a; pure (showBool (Nrf.Spec.validAddrB a))
  | _ => none

def netHandlers : List (String × Handler) :=
  [("valid", hValid), ("specvalid", hSpecValid), ("begin", hBegin), ("pipeaddr", hPipeAddr), ("l2p", hL2p)]

end Nrf.Drv
