/-
Line-protocol helpers for the `nrfdrv` driver (parsing / printing only; nothing here is
mentioned by a theorem).
-/
import NrfModel.Basic

namespace Nrf.Drv

def hexDigit (n : Nat) : Char :=
  if n < 10 then Char.ofNat (48 + n) else Char.ofNat (87 + n)

def hexByte (n : Nat) : String :=
  String.ofList [hexDigit ((n / 16) % 16), hexDigit (n % 16)]

/-- bytes as lowercase hex; the empty buffer prints as `-`; a byte ≥ 256 prints as `<n>` -/
def hex (b : Bytes) : String :=
  if b.isEmpty then "-" else
  String.join (b.map fun x => if x < 256 then hexByte x else s!"<{x}>")

def hexVal (c : Char) : Option Nat :=
  if '0' ≤ c ∧ c ≤ '9' then some (c.toNat - 48)
  else if 'a' ≤ c ∧ c ≤ 'f' then some (c.toNat - 87)
  else if 'A' ≤ c ∧ c ≤ 'F' then some (c.toNat - 55)
  else none

def unhexGo : List Char → Bytes → Option Bytes
  | [], acc => some acc.reverse
  | [_], _ => none
  | a :: b :: rest, acc => do
    let x ← hexVal a
    let y ← hexVal b
    unhexGo rest ((16 * x + y) :: acc)

def unhex (s : String) : Option Bytes :=
  if s = "-" then some [] else unhexGo s.toList []

def strDrop (s : String) (n : Nat) : String := String.ofList (s.toList.drop n)
def strDropEnd (s : String) (n : Nat) : String := String.ofList (s.toList.take (s.length - n))

def parseInt (s : String) : Option Int := s.toInt?
def parseNat (s : String) : Option Nat := s.toNat?
def parseBool (s : String) : Option Bool :=
  if s = "1" then some true else if s = "0" then some false else none

def showBool (b : Bool) : String := if b then "1" else "0"

def showPyM {α} (f : α → String) : PyM α → String
  | .ok a => f a
  | .error e => "exc=" ++ e.name

def showOpt {α} (f : α → String) : Option α → String
  | some a => f a
  | none => "none"

/-- a handler takes the tokens after the op name -/
abbrev Handler := List String → Option String

end Nrf.Drv
