/-
Driver ops that evaluate the executable specs of C14 / C17 (`NrfModel/Spec/Multicast.lean`,
`NrfModel/Spec/MeshProtocol.lean`) for the judges of `harness/props/c14.py`, `c17.py`.

  spectarget <own level> <level|N>                      -> the level a multicast() addresses
  spechold <allow 0|1> <logical address> <level>        -> 1 iff that node's pipe 0 holds the level's address
  specrelay <level>                                      -> level a relay on <level> re-broadcasts to, or N
  specaccepts <own id> <contact> <type> <reserved> <offered>  -> 1 iff a joiner accepts the offered address
  specreply <hex body>                                   -> the number a lookup reply carries
-/
import NrfModel.Drv.Util
import NrfModel.Spec.Multicast
import NrfModel.Spec.MeshProtocol

namespace Nrf.Drv
open Nrf Nrf.Spec

def hSpecTarget : Handler
  | [own, lvl] => do
    let own ← parseNat own
    let l ← if lvl = "N" then some none else (parseInt lvl).map some
    pure (toString (Multicast.targetLevel own l))
  | _ => none

def hSpecHold : Handler
  | [am, addr, lvl] => do
    let am ← parseBool am
    let a ← parseNat addr
    let l ← parseNat lvl
    pure (showBool (Multicast.holdsLevel am (digitsOf a) l))
  | _ => none

def hSpecRelay : Handler
  | [lvl] => do
    let l ← parseNat lvl
    pure (if Multicast.relayLevels.contains l then toString (Multicast.relayLevel l) else "N")
  | _ => none

def hSpecAccepts : Handler
  | [ownId, contact, ty, reserved, offered] => do
    let o ← parseNat ownId; let c ← parseNat contact; let t ← parseNat ty
    let r ← parseNat reserved; let v ← parseNat offered
    pure (showBool (MeshProtocol.accepts o c t r v))
  | _ => none

def hSpecReply : Handler
  | [body] => do
    let b ← unhex body
    pure (toString (MeshProtocol.replyValue b))
  | _ => none

def specKHandlers : List (String × Handler) :=
  [("spectarget", hSpecTarget), ("spechold", hSpecHold), ("specrelay", hSpecRelay),
   ("specaccepts", hSpecAccepts), ("specreply", hSpecReply)]

end Nrf.Drv
