/-
Driver ops for the header/frame codec, the frame queues (with object identity), the fragment
emitter, and the spec evaluators of C06 / C11 / C12.  Parsing and printing only.

Frame syntax      `<from>/<to>/<id>/<type>/<reserved>/<msghex>`  with type `i<n>` (int) or
                  `s<cp>_<cp>…` (str by code points, `s` = empty string)
-/
import NrfModel.Drv.Util
import NrfModel.Net.Structs
import NrfModel.Net.Queue
import NrfModel.Net.Frag
import NrfModel.Spec.Wire
import NrfModel.Spec.Reassembly
import NrfModel.Spec.RefQueue

namespace Nrf.Drv
open Nrf.Net

def parseMsgT (s : String) : Option MsgT :=
  match s.toList with
  | 'i' :: r => (String.ofList r).toNat?.map MsgT.int
  | 's' :: r =>
    if r.isEmpty then some (.str [])
    else ((String.ofList r).splitOn "_").mapM parseNat |>.map MsgT.str
  | _ => none

def showMsgT : MsgT → String
  | .int n => s!"i{n}"
  | .str cs => "s" ++ "_".intercalate (cs.map toString)

def parseHeader5 : List String → Option Header
  | [f, t, i, ty, r] => do
    pure { fromNode := ← parseNat f, toNode := ← parseNat t, frameId := ← parseNat i,
           msgType := ← parseMsgT ty, reserved := ← parseNat r }
  | _ => none

def parseFrame (s : String) : Option Frame :=
  match s.splitOn "/" with
  | [f, t, i, ty, r, m] => do
    let h ← parseHeader5 [f, t, i, ty, r]
    pure { header := h, message := ← unhex m }
  | _ => none

def showHeader (h : Header) : String :=
  s!"{h.fromNode}/{h.toNode}/{h.frameId}/{showMsgT h.msgType}/{h.reserved}"

def stShowFrame (f : Frame) : String := showHeader f.header ++ "/" ++ hex f.message

/-- `hpack <from> <to> <id> <type> <reserved>` -/
def hHPack : Handler
  | args => do let h ← parseHeader5 args; pure (showPyM hex h.pack)

/-- `hunpack <from> <to> <id> <type> <reserved> <bufhex>` : flag and the header afterwards -/
def hHUnpack : Handler
  | [f, t, i, ty, r, b] => do
    let h ← parseHeader5 [f, t, i, ty, r]
    let (h', ok) := h.unpack (← unhex b)
    pure s!"{showBool ok} {showHeader h'}"
  | _ => none

def parseCtorT (s : String) : Option CtorT :=
  if s = "none" then some .none
  else match s.toList with
    | 'i' :: r => (String.ofList r).toInt?.map CtorT.int
    | 's' :: r =>
      if r.isEmpty then some (.str [])
      else ((String.ofList r).splitOn "_").mapM parseNat |>.map CtorT.str
    | _ => none

/-- `hinit <next_id> <to|none> <none|i<int>|s<cps>>` : header and the counter afterwards -/
def hHInit : Handler
  | [n, to, ty] => do
    let n ← parseNat n
    let to ← if to = "none" then some none else (parseInt to).map some
    let ty ← parseCtorT ty
    pure (showPyM (fun (p : Header × Nat) => s!"{showHeader p.1} next={p.2} len={p.1.len}") (Header.init n to ty))
  | _ => none

/-- `fpack <frame>` -/
def hFPack : Handler
  | [f] => do let f ← parseFrame f; pure (showPyM hex f.pack)
  | _ => none

/-- `funpack <frame> <bufhex>` : flag, frame afterwards, `len(frame)` -/
def hFUnpack : Handler
  | [f, b] => do
    let f ← parseFrame f
    let (f', ok) := f.unpack (← unhex b)
    pure s!"{showBool ok} {stShowFrame f'} len={f'.len}"
  | _ => none

/-- `isack <type>` -/
def hIsAck : Handler
  | [t] => do
    let t ← parseMsgT t
    pure (showPyM showBool (Frame.isAckType { header := { msgType := t } }))
  | _ => none

/-- `write <node_addr> <max_len> <frag_enabled> <frame>` :
    `<payloadhex,payloadhex,…> lb=<0|1> hdr=<header after> msg=<message after>` -/
def hWrite : Handler
  | [a, ml, fe, f] => do
    let a ← parseNat a
    let ml ← parseNat ml
    let fe ← parseBool fe
    let f ← parseFrame f
    match beginAddr a with
    | none => pure "none"
    | some n =>
      pure (showPyM (fun (w : WriteOut) =>
        let fr := if w.frames.isEmpty then "none" else ",".intercalate (w.frames.map hex)
        s!"{fr} lb={showBool w.loopback} hdr={showHeader w.header} msg={hex w.message}")
        (netWrite n ml fe f.header f.message))
  | _ => none

/-- `fragmaxlen <cur_enabled> <max_len> <enabled>` -/
def hFragMaxLen : Handler
  | [c, m, e] => do
    pure (toString (fragmentationMaxLen (← parseBool c) (← parseNat m) (← parseBool e)))
  | _ => none

/-! ### the queue interpreter -/

/-- interpreter state: the model state and the harness' variables (var ↦ object id or `None`) -/
structure QEnv where
  s : QState
  vars : List (Nat × Option Nat)

def QEnv.get (e : QEnv) (v : Nat) : Option (Option Nat) := e.vars.lookup v

def QEnv.set (e : QEnv) (v : Nat) (o : Option Nat) : QEnv :=
  { e with vars := (v, o) :: e.vars.filter (fun p => p.1 ≠ v) }

def stShowState (e : QEnv) : String :=
  let s := e.s
  let q := ";".intercalate (s.contents.map stShowFrame)
  let c := if s.cacheValid then stShowFrame s.cache
    else "N/" ++ stShowFrame { s.cache with header := { s.cache.header with fromNode := 0 } }
  let vs := (e.vars.mergeSort (fun a b => a.1 ≤ b.1)).map fun p =>
    s!"{p.1}=" ++ (match p.2 with | none => "None" | some o => stShowFrame (s.heap o))
  s!"q=[{q}] len={s.len} max={s.maxSize} frag={showBool s.frag} cache={if s.frag then c else "-"} nid={s.nextId} vars={",".intercalate vs}"

def fxOf (s : String) : Option Fixes :=
  if s = "fixed" then some Fixes.all else if s = "orig" then some Fixes.none else none

def showOut : QOut → String
  | .unit => "ok"
  | .obj _ => "ok"
  | .bool r => showPyM showBool r
  | .frame r => showOpt (fun p => stShowFrame p.2) r
  | .nat n => toString n

/-- one op: every token is translated to one `QOp` and executed by `QState.step` (the function
    the theorems are about); the harness' variables are bookkeeping on top -/
def qOp (fx : Fixes) (e : QEnv) (tok : String) : Option (QEnv × String) :=
  let exec (op : QOp) (bind : Option Nat) : QEnv × String :=
    let (s, out) := e.s.step fx op
    let e' := { e with s := s }
    let e' := match bind, out with
      | some v, .obj o => e'.set v (some o)
      | some v, .frame r => e'.set v (r.map (·.1))
      | _, _ => e'
    (e', showOut out)
  match tok.splitOn ":" with
  -- `newb`/`mutb`: the same caller actions with a `bytearray` message that is then rewritten in
  -- place (`frame.message[:] = …`); a queue that keeps by-value copies cannot tell the difference
  | ["new", v, f] | ["newb", v, f] => do pure (exec (.alloc (← parseFrame f)) (some (← parseNat v)))
  | ["mut", v, f] | ["mutb", v, f] => do
    let f ← parseFrame f
    match ← e.get (← parseNat v) with
    | none => pure (e, "skip")            -- the variable holds `None`
    | some o => pure (exec (.mutate o f) none)
  | ["unp", v, b] => do
    let b ← unhex b
    match ← e.get (← parseNat v) with
    | none => pure (e, "skip")
    | some o =>
      let (f, ok) := (e.s.heap o).unpack b      -- `frame.unpack(buffer)` on the caller's object
      pure ((exec (.mutate o f) none).1, showBool ok)
  | ["enq", v] => do
    match ← e.get (← parseNat v) with
    | none => pure (e, "skip")
    | some o => pure (exec (.enqueue o) none)
  | ["deq", v] => do pure (exec .dequeue (some (← parseNat v)))
  | ["peek", v] => do pure (exec .peek (some (← parseNat v)))
  | ["len"] => pure (exec .len none)
  | ["sent", _] => pure (e, "ok")      -- annotation for the C06 judge: a message that was sent
  | ["max", n] => do pure (exec (.setMax (← parseInt n)) none)
  | ["frag", b] => do pure (exec (.setFrag (← parseBool b)) none)
  | _ => none

/-- ops after which the full state is printed: those that involve the queue object (the caller's
    own assignments `new`/`mut`/`unp` and the `sent` annotation print only their result), and
    always the last op of a line -/
def printsState (tok : String) : Bool :=
  !(tok.startsWith "new:" || tok.startsWith "mut:" || tok.startsWith "newb:" || tok.startsWith "mutb:" || tok.startsWith "unp:" || tok.startsWith "sent:")

def qRun (fx : Fixes) : QEnv → List String → List String → Option (List String)
  | _, [], acc => some acc.reverse
  | e, t :: ts, acc => do
    let (e', r) ← qOp fx e t
    let st := if printsState t || ts.isEmpty then " " ++ stShowState e' else ""
    qRun fx e' ts (s!"{t} -> {r}{st}" :: acc)

/-- `q <fixed|orig> <next_id> <op> <op> …` : a fresh node queue (`FrameQueueFrag()`), then the
    ops; after every op its result and the full observable state -/
def hQ : Handler
  | fx :: n :: ops => do
    let fx ← fxOf fx
    let n ← parseNat n
    let out ← qRun fx { s := QState.init n, vars := [] } ops []
    pure (" | ".intercalate out)
  | _ => none

/-! ### spec evaluators -/
open Nrf.Spec in
def stParseW (s : String) : Option WFrame :=
  match s.splitOn "/" with
  | [f, t, i, ty, r, m] => do
    pure { src := ← parseNat f, dst := ← parseNat t, id := ← parseNat i, ty := ← parseNat ty,
           rsv := ← parseNat r, body := ← unhex m }
  | _ => none

open Nrf.Spec in
def showW (f : WFrame) : String := s!"{f.src}/{f.dst}/{f.id}/{f.ty}/{f.rsv}/{hex f.body}"

open Nrf.Spec in
def parseMsg (s : String) : Option Msg :=
  match s.splitOn "/" with
  | [f, t, i, ty, m] => do
    pure { src := ← parseNat f, dst := ← parseNat t, id := ← parseNat i, ty := ← parseNat ty,
           body := ← unhex m }
  | _ => none

def parseList {α} (p : String → Option α) (s : String) : Option (List α) :=
  if s = "none" then some [] else (s.splitOn ",").mapM p

/-- `specheader <wframe>` : the 8 header bytes the property prescribes (in-range fields only) -/
def hSpecHeader : Handler
  | [f] => do
    let f ← stParseW f
    pure (if f.InRange then hex (Nrf.Spec.frameBytes f) else "out-of-range")
  | _ => none

/-- `specparse <bufhex>` -/
def hSpecParse : Handler
  | [b] => do pure (showOpt showW (Nrf.Spec.parseFrame (← unhex b)))
  | _ => none

/-- `specfrags <msg> <rsv0>` : the reference encoder's frames as payload bytes -/
def hSpecFrags : Handler
  | [m, r] => do
    let m ← parseMsg m
    let r ← parseNat r
    pure (",".intercalate ((Nrf.Spec.refFrames m r).map fun f => hex (Nrf.Spec.frameBytes f)))
  | _ => none

/-- `spectmrh <payloadhex,…>` : what the TMRh20-style receiver hands to the application -/
def hSpecTmrh : Handler
  | [fs] => do
    let bs ← parseList unhex fs
    let ws ← bs.mapM Nrf.Spec.parseFrame
    let out := Nrf.Spec.tmrhReassemble ws
    pure (if out.isEmpty then "none" else ",".intercalate (out.map showW))
  | _ => none

/-- `specsafe <msg,msg,…> <received wframe,…> <out wframe>` : C06's safety predicate -/
def hSpecSafe : Handler
  | [ms, rs, o] => do
    let ms ← parseList parseMsg ms
    let rs ← parseList stParseW rs
    let o ← stParseW o
    pure (showBool (decide (Nrf.Spec.SafeOut ms rs o)))
  | _ => none

open Nrf.Spec in
def specQOp (q : RefQ) (tok : String) : Option (RefQ × String) :=
  match tok.splitOn ":" with
  | ["enq", f] => do
    let f ← stParseW f
    let (q', r) := q.enqueue f
    pure (q', showBool r)
  | ["deq"] => let (q', r) := q.dequeue; pure (q', showOpt showW r)
  | ["peek"] => pure (q, showOpt showW q.peek)
  | ["len"] => pure (q, toString q.len)
  | ["max", n] => do pure (q.setCap (← parseInt n), "ok")
  | ["frag"] => pure (q.toggle, "ok")
  | _ => none

open Nrf.Spec in
def specQRun : RefQ → List String → List String → Option (List String)
  | _, [], acc => some acc.reverse
  | q, t :: ts, acc => do
    let (q', r) ← specQOp q t
    specQRun q' ts (s!"{r} [{";".intercalate (q'.items.map showW)}]" :: acc)

/-- `specq <op> <op> …` : the reference queue; per op its result and the contents -/
def hSpecQ : Handler
  | ops => do
    let out ← specQRun {} ops []
    pure (" | ".intercalate out)

def structsHandlers : List (String × Handler) :=
  [("hpack", hHPack), ("hunpack", hHUnpack), ("hinit", hHInit), ("fpack", hFPack),
   ("funpack", hFUnpack), ("isack", hIsAck), ("write", hWrite), ("fragmaxlen", hFragMaxLen),
   ("q", hQ), ("specheader", hSpecHeader), ("specparse", hSpecParse), ("specfrags", hSpecFrags),
   ("spectmrh", hSpecTmrh), ("specsafe", hSpecSafe), ("specq", hSpecQ)]

end Nrf.Drv
