/-
Driver ops for the BLE area (model ops and `spec…` evaluators).  Parsing / printing only.

Session line:  `ble <op> <args> ; <op> <args> ; …`  → results joined by ` ; `, each
`<result> s=<curr_freq>,<_channel>,<RF_CH>,<show_dbm>,<name|none>,<mac>,<len(rx_queue)>`
-/
import NrfModel.Drv.Util
import NrfModel.Ble.Device
import NrfModel.Spec.BleLinkLayer

namespace Nrf.Drv
open Nrf.Ble

def showInt (i : Int) : String := toString i

def showItem : Item → String
  | .temp d => "T:" ++ hex d
  | .batt d => "B:" ++ hex d
  | .url t d => "U:" ++ hex t ++ ":" ++ hex d
  | .raw b => "R:" ++ hex b

def showElem (q : QueueElement) : String :=
  "mac=" ++ hex q.mac ++ ",name=" ++ (showOpt hex q.name) ++ ",pa=" ++ (showOpt showInt q.paLevel)
    ++ ",data=[" ++ "/".intercalate (q.data.map showItem) ++ "]"

def showState (s : Ble) (r : Radio) : String :=
  s!"s={s.currFreq},{s.channel},{r.rfCh},{showBool s.showDbm},{showOpt hex s.name},{hex s.mac},{s.rxQueue.length}"

/-- split the token list at `;` tokens -/
def bleSplitOps : List String → List String → List (List String) → List (List String)
  | [], cur, acc => (cur.reverse :: acc).reverse
  | t :: ts, cur, acc =>
    if t = ";" then bleSplitOps ts [] (cur.reverse :: acc) else bleSplitOps ts (t :: cur) acc

def parseHexList (s : String) : Option (List Bytes) :=
  if s = "[]" then some [] else (s.splitOn ",").mapM unhex

/-- one session op: new state and result string -/
def bleOp (s : Ble) (r : Radio) : List String → Option (Ble × Radio × String)
  | ["hop"] => some (match s.hopChannel r with
      | .ok (s, r) => (s, r, "ok") | .error e => (s, r, "exc=" ++ e.name))
  | ["chan", v] => do
    let v ← parseNat v
    pure (match s.setChannel r v with
      | .ok (s, r) => (s, r, "ok") | .error e => (s, r, "exc=" ++ e.name))
  | ["exit"] => some (s.exit, r, "ok")
  | ["enter"] => some (s, s.enter r, "ok")
  | ["foreign", v] => do let v ← parseNat v; pure (s, { r with rfCh := v }, "ok")
  | ["name", a] => do
    let a ← if a = "none" then some NameArg.none else if a = "other" then some NameArg.other
      else (unhex a).map NameArg.bytes
    pure (match s.setName a with
      | .ok s => (s, r, "ok") | .error e => (s, r, "exc=" ++ e.name))
  | ["showpa", e] => do
    let e ← parseBool e
    pure (match s.setShowPa e with
      | .ok s => (s, r, "ok") | .error e => (s, r, "exc=" ++ e.name))
  | ["pa", v] => do
    let v ← parseInt v
    pure (match r.setPaLevel v with
      | .ok r => (s, r, "ok") | .error e => (s, r, "exc=" ++ e.name))
  | ["mac", a] => do
    let a ← if a = "none" then some MacArg.none
      else if a.startsWith "i" then (parseInt (a.drop 1).toString).map MacArg.int
      else (unhex a).map MacArg.bytes
    pure (match s.setMac a with
      | .ok s => (s, r, "ok") | .error e => (s, r, "exc=" ++ e.name))
  | ["lenav", h] => do let h ← unhex h; pure (s, r, showInt (s.lenAvailable h))
  | ["adv", b, t] => do
    let b ← unhex b
    let t ← parseNat t
    pure (s, r, showPyM (fun x => "sent=" ++ hex x) (s.advertise r (.bytes b t)))
  | ["advl", l] => do
    let l ← parseHexList l
    pure (s, r, showPyM (fun x => "sent=" ++ hex x) (s.advertise r (.list l)))
  -- `advlm <chunks>`: ONE list of bytearrays advertised twice; the caller's list is not modified, so both packets are
  -- the same, and the list is printed as it is afterwards
  | ["advlm", l] => do
    let l ← parseHexList l
    pure (s, r, showPyM (fun x => "sent=" ++ hex x ++ "," ++ hex x) (s.advertise r (.list l))
               ++ " list=" ++ ",".intercalate (l.map hex))
  | ["advbad"] => some (s, r, showPyM (fun x => "sent=" ++ hex x) (s.advertise r .other))
  | ["rx", p] => do
    let p ← unhex p
    let (s, res) := s.available (some p)
    pure (s, r, showPyM showBool res ++ " c=" ++ hex s.rxCache)
  | ["rxnone"] =>
    let (s, res) := s.available none
    some (s, r, showPyM showBool res ++ " c=" ++ hex s.rxCache)
  | ["read"] =>
    let (s, q) := s.read
    some (s, r, showOpt showElem q)
  | _ => none

def bleRun (s : Ble) (r : Radio) : List (List String) → List String → Option (List String)
  | [], acc => some acc.reverse
  | op :: ops, acc => do
    let (s, r, out) ← bleOp s r op
    bleRun s r ops ((out ++ " " ++ showState s r) :: acc)

/-- `ble <ops>`: a session starting right after `FakeBLE.__init__` with `urandom` patched -/
def hBle : Handler := fun toks => do
  let (s, r) := Ble.init (urandom 6)
  let outs ← bleRun s r (bleSplitOps toks [] []) []
  pure (" ; ".intercalate outs)

def hSwap : Handler
  | [a] => do let a ← parseNat a; pure (toString (swapBits a))
  | _ => none

def hRevBits : Handler
  | [a] => do let a ← unhex a; pure (hex (reverseBits a))
  | _ => none

def hChunk : Handler
  | [a, t] => do let a ← unhex a; let t ← parseNat t; pure (showPyM hex (chunk a t))
  | _ => none

def hWhitener : Handler
  | [a, c] => do let a ← unhex a; let c ← parseNat c; pure (hex (whitener a c))
  | _ => none

def hCrc24 : Handler
  | [a] => do let a ← unhex a; pure (showPyM hex (crc24M a))
  | _ => none

def hTempEnc : Handler
  | [h] => do let h ← parseInt h; pure (showPyM hex (tempSet h))
  | _ => none

def hTempDec : Handler
  | [d] => do let d ← unhex d; pure (showPyM showInt (tempGet d))
  | _ => none

def hBatEnc : Handler
  | [v] => do let v ← parseInt v; pure (showPyM hex (battSet v))
  | _ => none

def hBatDec : Handler
  | [d] => do let d ← unhex d; pure (showPyM toString (battGet d))
  | _ => none

def hUrlEnc : Handler
  | [u] => do let u ← unhex u; pure (hex (urlSet u))
  | _ => none

def hUrlDec : Handler
  | [d] => do let d ← unhex d; pure (showPyM hex (urlGet d))
  | _ => none

/-- `urlinit`: the `_type` bytes of a fresh `UrlServiceData()` (Eddystone UUID, frame type 0x10, −25 dBm at 1 m) -/
def hUrlInit : Handler
  | [] => some (hex urlTypeInit)
  | _ => none

def hUrlPa : Handler
  | [t] => do let t ← unhex t; pure (showPyM showInt (urlGetPa t))
  | _ => none

/-- `svc <uuid> <datahex>`: `ServiceData(uuid)`, `.data = bytes` → `buffer` and `len()` -/
def hSvc : Handler
  | [u, d] => do
    let u ← parseInt u
    let d ← unhex d
    pure (showPyM (fun t => hex (t ++ d) ++ " " ++ toString (t.length + d.length)) (uuidBytes u))
  -- `svc <uuid>`: a fresh object, nothing assigned to `.data` yet (it starts empty)
  | [u] => do
    let u ← parseInt u
    pure (showPyM (fun t => hex t ++ " " ++ toString t.length) (uuidBytes u))
  | _ => none

/-- `urlpaset <typehex> i<int>|<hex>` -/
def hUrlPaSet : Handler
  | [t, v] => do
    let t ← unhex t
    if v.startsWith "i" then do
      let i ← parseInt (v.drop 1).toString
      pure (showPyM hex (urlSetPaInt t i))
    else do
      let b ← unhex v
      pure (hex (urlSetPaBytes t b))
  | _ => none

open Nrf.Spec.BleLL in
def showAdv (a : Adv) : String :=
  "mac=" ++ hex a.mac ++ ",ads=[" ++
    "/".intercalate (a.ads.map fun (t, d) => toString t ++ ":" ++ hex d) ++ "]"

open Nrf.Spec.BleLL in
/-- `specrecv <rf_ch> <payload>` -/
def hSpecRecv : Handler
  | [c, p] => do
    let c ← parseNat c
    let p ← unhex p
    pure (match bleReceive c (airBits p) with
      | none => "none"
      | some pdu => s!"hdr={pdu.header} len={pdu.length} payload={hex pdu.payload} adv=" ++
          showOpt showAdv (parseAdv pdu))
  | _ => none

open Nrf.Spec.BleLL in
/-- `specenc <rf_ch> <pdu octets> <tail bytes>` -/
def hSpecEnc : Handler
  | [c, p, t] => do
    let c ← parseNat c
    let p ← unhex p
    let t ← unhex t
    pure (showOpt hex (specEncode c p (airBits t)))
  | _ => none

open Nrf.Spec.BleLL in
def hSpecTemp : Handler
  | [d] => do let d ← unhex d; pure (showOpt showInt (temperatureHundredths d))
  | _ => none

open Nrf.Spec.BleLL in
def hSpecTempEnc : Handler
  | [h] => do let h ← parseInt h; pure (hex (temperatureOctets h))
  | _ => none

open Nrf.Spec.BleLL in
def hSpecBatt : Handler
  | [d] => do let d ← unhex d; pure (showOpt toString (batteryLevel d))
  | _ => none

open Nrf.Spec.BleLL in
def hSpecUrl : Handler
  | [d] => do
    let d ← unhex d
    pure (showOpt (fun (p, u) => showInt p ++ "," ++ hex u) (eddystoneUrl d))
  | _ => none

open Nrf.Spec.BleLL in
def hSpecTxPower : Handler
  | [d] => do let d ← unhex d; pure (showOpt showInt (txPower d))
  | _ => none

def bleHandlers : List (String × Handler) :=
  [("ble", hBle), ("swap", hSwap), ("revbits", hRevBits), ("chunk", hChunk),
   ("whitener", hWhitener), ("crc24", hCrc24), ("tempenc", hTempEnc), ("tempdec", hTempDec),
   ("batenc", hBatEnc), ("batdec", hBatDec), ("urlenc", hUrlEnc), ("urldec", hUrlDec),
   ("urlpa", hUrlPa), ("urlinit", hUrlInit), ("urlpaset", hUrlPaSet), ("svc", hSvc),
   ("specrecv", hSpecRecv), ("specenc", hSpecEnc), ("spectemp", hSpecTemp),
   ("spectempenc", hSpecTempEnc), ("specbatt", hSpecBatt), ("specurl", hSpecUrl),
   ("spectxpower", hSpecTxPower)]

end Nrf.Drv
