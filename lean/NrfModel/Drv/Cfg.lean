/-
Driver op for the C03 specification: evaluates `Cfg.docStep` (the documented effect, written from the
docs and the data sheet) on a session of configuration calls.

  speccfg <nradios> <plus> new a rf24 0 ; a enter ; a <call> ; a <call> ; …

The first two ops are run on the model (`__init__`, `__enter__` — C09's topic); from there every op
must be a call of the C03 alphabet on object `a` and is evaluated by `docStep` alone.  Output per op,
in the shape of an `rf` session line:  `<result> ~ - ~ <registers of the abstract state> ~ []`.
-/
import NrfModel.Drv.Rf
import NrfModel.Spec.Cfg

namespace Nrf.Drv
open Nrf Nrf.Cfg

def parseCall : List String → Option Call
  | ["get", "channel"] => some .getChannel
  | ["set", "channel", a] => do some (.setChannel (← parseInt a))
  | ["get", "data_rate"] => some .getDataRate
  | ["set", "data_rate", a] => do some (.setDataRate (← parseInt a))
  | ["get", "pa_level"] => some .getPaLevel
  | ["set", "pa_level", a] => do
    match ← parseArg a with
    | .l _ => none      -- a one-element list: outside the alphabet
    | x => some (.setPaLevel x)
  | ["set", "pa_level", a, l] => do
    match ← parseArg a with
    | .i v => some (.setPaLevelLna v (← pBool l))
    | .b v => some (.setPaLevelLna (if v then 1 else 0) (← pBool l))   -- `int(power[0])`
    | _ => none
  | ["get", "is_lna_enabled"] => some .isLnaEnabled
  | ["get", "crc"] => some .getCrc
  | ["set", "crc", a] => do some (.setCrc (← parseInt a))
  | ["get", "address_length"] => some .getAddressLength
  | ["set", "address_length", a] => do some (.setAddressLength (← parseInt a))
  | ["get", "ard"] => some .getArd
  | ["set", "ard", a] => do some (.setArd (← parseInt a))
  | ["get", "arc"] => some .getArc
  | ["set", "arc", a] => do some (.setArc (← parseInt a))
  | ["set_auto_retries", a, b] => do some (.setAutoRetries (← parseInt a) (← parseInt b))
  | ["get_auto_retries"] => some .getAutoRetries
  | ["get", "auto_ack"] => some .getAutoAck
  | ["set", "auto_ack", a] => do some (.setAutoAckAttr (← parseArg a))
  | ["set_auto_ack", e, p] => do some (.setAutoAck (← pBool e) (← parseOptInt p))
  | ["get_auto_ack", p] => do some (.getAutoAckPipe (← parseInt p))
  | ["get", "dynamic_payloads"] => some .getDynamicPayloads
  | ["set", "dynamic_payloads", a] => do some (.setDynamicPayloadsAttr (← parseArg a))
  | ["set_dynamic_payloads", e, p] => do some (.setDynamicPayloads (← pBool e) (← parseOptInt p))
  | ["get_dynamic_payloads", p] => do some (.getDynamicPayloadsPipe (← parseInt p))
  | ["get", "payload_length"] => some .getPayloadLengthAttr
  | ["set", "payload_length", a] => do some (.setPayloadLengthAttr (← parseArg a))
  | ["set_payload_length", l, p] => do some (.setPayloadLength (← parseInt l) (← parseOptInt p))
  | ["get_payload_length", p] => do some (.getPayloadLength (← parseInt p))
  | ["get", "ack"] => some .getAck
  | ["set", "ack", b] => do some (.setAck (← pBool b))
  | ["get", "allow_ask_no_ack"] => some .getAllowAskNoAck
  | ["set", "allow_ask_no_ack", b] => do some (.setAllowAskNoAck (← pBool b))
  | ["interrupt_config", a, b, c] => do some (.interruptConfig (← pBool a) (← pBool b) (← pBool c))
  | ["get", "power"] => some .getPower
  | ["set", "power", b] => do some (.setPower (← pBool b))
  | ["get", "listen"] => some .getListen
  | ["set", "listen", b] => do some (.setListen (← pBool b))
  | ["open_rx_pipe", p, a] => do some (.openRxPipe (← parseInt p) (← unhex a))
  | ["close_rx_pipe", p] => do some (.closeRxPipe (← parseInt p))
  | ["open_tx_pipe", a] => do some (.openTxPipe (← unhex a))
  | ["address", i] => do some (.address (← parseInt i))
  | ["get", "is_plus_variant"] => some .isPlusVariant
  | ["start_carrier_wave"] => some .startCarrierWave
  | ["stop_carrier_wave"] => some .stopCarrierWave
  | _ => none

def showRet : Ret → String
  | .unit => "ok"
  | .nat n => toString n
  | .int i => toString i
  | .bool b => sBool b
  | .bytes b => hex b
  | .pair a b => s!"{a},{b}"

def specLine (res : String) (r : Radio) : String := res ++ " ~ - ~ " ++ showRadio r ++ " ~ []"

/-- the calls after `new a rf24 0 ; a enter`, by `docStep`; `none` when a call is outside the
    alphabet or the explored domain -/
def specRun (a : CfgSt) : List (List String) → List String → Option (List String)
  | [], acc => some acc.reverse
  | ("a" :: toks) :: rest, acc => do
    let c ← parseCall toks
    if ¬ c.dom a.r.plus then none
    match docStep c a with
    | .ok (a', ret) => specRun a' rest (specLine (showRet ret) a'.r :: acc)
    | .error e => specRun a rest (specLine ("exc=" ++ e.name) a.r :: acc)
  | _, _ => none

def hSpecCfg : Handler
  | n :: plus :: toks => do
    let n ← parseNat n
    let plus ← parseBool plus
    match splitOps toks with
    | ["new", "a", "rf24", "0"] :: ["a", "enter"] :: rest =>
      if n = 0 then none
      let w := World.fresh n plus
      let (r1, s1) := ((Rf24.init).run).run { d := { rid := 0 }, w := w }
      let (r2, s2) := ((Rf24.enter).run).run s1
      match r1, r2 with
      | .ok _, .ok _ =>
        let a : CfgSt := { r := (s2.w.radio 0), user0 := s2.d.pipe0ReadAddr }
        let outs ← specRun a rest []
        pure (" ; ".intercalate (specLine "ok" (s1.w.radio 0) :: specLine "ok" a.r :: outs))
      | _, _ => none
    | _ => none
  | _ => none

def cfgHandlers : List (String × Handler) := [("speccfg", hSpecCfg)]

end Nrf.Drv
