/-
`wrapper/cpy_spidev.py`, `SPIDevCtx.__init__` / `__enter__`: which spidev node a chip-select argument opens and
whether the kernel's own chip select is bypassed in favour of a pin.

  spidev int <n>    csn = n            → bus n/10, device n%10, kernel chip select
  spidev pair <n>   csn = (n, pin)     → bus n/10, device n%10, the pin is driven, kernel chip select off
  spidev pin        csn = pin          → bus 0, device 0, the pin is driven
output: `<bus> <dev> <no_cs>`
-/
import NrfModel.Drv.Util

namespace Nrf.Drv

/-- `(bus, device, no_cs)` of `SPIDevCtx(spi, csn)` -/
def spidevCtx (csnInt : Option Nat) (hasPin : Bool) : Nat × Nat × Bool :=
  match csnInt with
  | some n => (n / 10, n % 10, hasPin)
  | none => (0, 0, true)

def showSpidev (r : Nat × Nat × Bool) : String := s!"{r.1} {r.2.1} {if r.2.2 then "T" else "F"}"

def hSpidev : Handler
  | ["int", n] => do let n ← parseNat n; some (showSpidev (spidevCtx (some n) false))
  | ["pair", n] => do let n ← parseNat n; some (showSpidev (spidevCtx (some n) true))
  | ["pin"] => some (showSpidev (spidevCtx none true))
  | _ => none

def spidevHandlers : List (String × Handler) := [("spidev", hSpidev)]

end Nrf.Drv
