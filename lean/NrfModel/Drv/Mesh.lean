/-
Driver ops of the mesh master's address table (model: `NrfModel/Mesh/Dhcp.lean`, spec:
`NrfModel/Spec/Lease.lean`).  Parsing / printing only.

  mesh <ev> <ev> …                 one master, one history; prints one result token per event
  specmesh <ev> … @ <out> …        the property's judge on observed result tokens: `ok` | `viol <i>`
  persist <b|j> <table>            save the table, load the file into an empty master
  specpersist <b|j> <table> @ <table'>
  loadbin <hex> <table>            load arbitrary file contents into a master holding <table>
  loadjson <k=v,…> <table>

event tokens   f:<type>:<from>:<reserved>:<hexmsg>:<w1><w2>   frame for the master, then update()
               d:<from>:<reserved>:<w1><w2>                   _dhcp() with _do_dhcp = True
               la:<id>  li:<addr>  ra:<addr>:<w1>  sa:<id>:<addr>:<0|1>  sv:<b|j>  ld:<b|j>  rb
               (<w1>, <w2>: scripted results of the first / second `_write`; the code ignores the
               second result, so the model does not take it)
result token   <ret>/<exc|->/<writes|->/<abandoned>/<table|->/<file|->
  writes       to.sendtype.hdrfrom.hdrto.hdrtype.hdrreserved.hexmsg joined by +
  table        id=addr,id=addr      file   b<hex> | j<key>=<addr>,…
-/
import NrfModel.Drv.Util
import NrfModel.Mesh.Dhcp
import NrfModel.Spec.Lease
import NrfModel.Mesh.LeaseView

namespace Nrf.Drv
open Nrf.Mesh

def parseTable (s : String) : Option Table :=
  if s = "-" then some [] else
  (s.splitOn ",").mapM fun kv =>
    match kv.splitOn "=" with
    | [k, v] => do pure ((← parseNat k), (← parseNat v))
    | _ => none

def showTable (t : Table) : String :=
  if t.isEmpty then "-" else ",".intercalate (t.map fun (k, v) => s!"{k}={v}")

def digitChar (d : Nat) : Char := if d < 10 then Char.ofNat (48 + d) else '?'

def showKey (k : List Nat) : String := String.ofList (k.map digitChar)

/-- a key character that is no decimal digit becomes the "digit" 99 (`int()` then raises) -/
def parseKeyStr (s : String) : List Nat :=
  s.toList.map fun c => if '0' ≤ c ∧ c ≤ '9' then c.toNat - 48 else 99

def showJson (p : JsonPairs) : String :=
  ",".intercalate (p.map fun (k, v) => s!"{showKey k}={v}")

def parseJson (s : String) : Option JsonPairs :=
  if s = "-" then some [] else
  (s.splitOn ",").mapM fun kv =>
    match kv.splitOn "=" with
    | [k, v] => do pure (parseKeyStr k, (← parseNat v))
    | _ => none

def parseFmt (s : String) : Option Bool :=
  if s = "b" then some true else if s = "j" then some false else none

def parseW (s : String) : Option Bool :=
  match s.toList with
  | [a, _] => parseBool (String.ofList [a])
  | [a] => parseBool (String.ofList [a])
  | _ => none

def parseEv (tok : String) : Option Ev :=
  match tok.splitOn ":" with
  | ["f", t, fr, rs, msg, w] => do
    pure (.frame (← parseNat t) (← parseNat fr) (← parseNat rs) (← unhex msg) (← parseW w))
  | ["d", fr, rs, w] => do pure (.dhcp (← parseNat fr) (← parseNat rs) (← parseW w))
  | ["la", i] => do pure (.lookupAddr (← parseNat i))
  | ["li", a] => do pure (.lookupId (← parseNat a))
  | ["ra", a, w] => do pure (.releaseApi (← parseNat a) (← parseW w))
  | ["sa", i, a, b] => do pure (.setAddr (← parseNat i) (← parseNat a) (← parseBool b))
  | ["sv", f] => do pure (.save (← parseFmt f))
  | ["ld", f] => do pure (.load (← parseFmt f))
  | ["rb"] => some .reboot
  | _ => none

def showWrite (w : Write) : String :=
  s!"{w.writeDirect}.{w.sendType}.{w.hdrFrom}.{w.hdrTo}.{w.hdrType}.{w.hdrReserved}.{hex w.message}"

def showWrites (ws : List Write) : String :=
  if ws.isEmpty then "-" else "+".intercalate (ws.map showWrite)

def showExc (o : Obs) : String :=
  if o.noFile then "FileNotFoundError" else
  match o.res.exc with
  | some e => e.name
  | none => "-"

def showFile (w : World) : Ev → String
  | .save true => "b" ++ hex (w.fileBin.getD [])
  | .save false => "j" ++ showJson (w.fileJson.getD [])
  | _ => "-"

def showStep (w' : World) (e : Ev) (o : Obs) : String :=
  s!"{if showExc o = "-" then o.res.ret else 0}/{showExc o}/{showWrites o.res.writes}/{showBool w'.m.abandoned}/{showTable w'.m.table}/{showFile w' e}"

def runShow : World → List Ev → List String → List String
  | _, [], acc => acc.reverse
  | w, e :: es, acc =>
    let (w', o) := step w e
    runShow w' es (showStep w' e o :: acc)

/-- `mesh <ev> …` -/
def hMesh : Handler := fun toks => do
  let evs ← toks.mapM parseEv
  pure (" ".intercalate (runShow {} evs []))

/-! ### the judge on observed result tokens -/

open Nrf.Spec in
def parseWriteObs (s : String) : Option ReplyObs :=
  match s.splitOn "." with
  | [to, st, _hf, ht, ty, rs, msg] => do
    pure { writeDirect := ← parseNat to, sendType := ← parseNat st, hdrTo := ← parseNat ht
           hdrType := ← parseNat ty, hdrReserved := ← parseNat rs, message := ← unhex msg }
  | _ => none

open Nrf.Spec in
def parseObs (tok : String) : Option StepObs :=
  match tok.splitOn "/" with
  | [ret, exc, ws, ab, tbl, _file] => do
    let ret ← parseInt ret
    let ws ← if ws = "-" then some [] else (ws.splitOn "+").mapM parseWriteObs
    let ab ← parseBool ab
    let t ← parseTable tbl
    pure { table := t, writes := ws, raised := exc ≠ "-", ret := ret, answering := !ab }
  | _ => none

/-- `specmesh <ev> … @ <out> …` -/
def hSpecMesh : Handler := fun toks => do
  let evToks := toks.takeWhile (· ≠ "@")
  let outToks := (toks.dropWhile (· ≠ "@")).drop 1
  if evToks.length ≠ outToks.length then none else
  let evs ← evToks.mapM parseEv
  let obs ← outToks.mapM parseObs
  match Nrf.Spec.judge ((evs.map specEv).zip obs) with
  | none => pure "ok"
  | some i => pure s!"viol {i}"

/-! ### persistence on whole tables -/

def showExcOpt : Option PyErr → String
  | some e => e.name
  | none => "-"

/-- `persist <b|j> <table>` → `<file> <exc> <table loaded into an empty master>` -/
def hPersist : Handler
  | [f, t] => do
    let bin ← parseFmt f
    let t ← parseTable t
    if bin then
      let (b, e) := saveBin t
      match e with
      | some e => pure s!"b{hex b} {e.name} -"
      | none =>
        let (t', e') := loadBin [] b
        pure s!"b{hex b} {showExcOpt e'} {showTable t'}"
    else
      let p := saveJson t
      let (t', e') := loadJson [] p
      pure s!"j{showJson p} {showExcOpt e'} {showTable t'}"
  | _ => none

/-- `specpersist <b|j> <table> @ <table'>`: a table with distinct IDs (bytes) and distinct 16-bit
    addresses comes back exactly -/
def hSpecPersist : Handler
  | [_, t, "@", t'] => do
    let t ← parseTable t
    let t' ← parseTable t'
    let dom := decide (t.map Prod.fst).Nodup && decide (t.map Prod.snd).Nodup
      && t.all (fun e => decide (e.1 < 256) && decide (e.2 < 65536))
    pure (if !dom || Nrf.Spec.sameMapB t' t then "ok" else "viol")
  | _ => none

/-- `loadbin <hex> <table>` → `<exc> <table>` -/
def hLoadBin : Handler
  | [b, t] => do
    let b ← unhex b
    let t ← parseTable t
    let (t', e) := loadBin t b
    pure s!"{showExcOpt e} {showTable t'}"
  | _ => none

/-- `loadjson <k=v,…> <table>` → `<exc> <table>` -/
def hLoadJson : Handler
  | [p, t] => do
    let p ← parseJson p
    let t ← parseTable t
    let (t', e) := loadJson t p
    pure s!"{showExcOpt e} {showTable t'}"
  | _ => none

def meshHandlers : List (String × Handler) :=
  [("mesh", hMesh), ("specmesh", hSpecMesh), ("persist", hPersist), ("specpersist", hSpecPersist),
   ("loadbin", hLoadBin), ("loadjson", hLoadJson)]

end Nrf.Drv
