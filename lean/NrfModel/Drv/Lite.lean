/-
Driver ops for the lite driver model (`NrfModel/Rf24Lite.lean`): class `lite` of the `rf …` session
protocol (`new <obj> lite <radio>`; see `Drv/Rf.lean`, which dispatches to `liteCall`).

Object dump: `st=<_status> p0r=<_pipe0_read_addr>`.

This file must not import `Drv/Rf.lean` (that file imports this one): the few parse / print
helpers it needs are repeated in the namespace `Nrf.Drv.L`.
-/
import NrfModel.Drv.Util
import NrfModel.Rf24Lite

namespace Nrf.Drv
open Nrf

namespace L

def pBool (s : String) : Option Bool :=
  if s = "T" then some true else if s = "F" then some false else none

def parseOptInt (s : String) : Option (Option Int) :=
  if s = "N" then some none else (parseInt s).map some

def parseOptBool (s : String) : Option (Option Bool) :=
  if s = "N" then some none else if s = "T" then some (some true)
  else if s = "F" then some (some false) else none

/-- `T` / `F` / `X` (anything that is not a number) / `[…]` (a list) / an int -/
def parseArg (s : String) : Option Arg :=
  if s = "T" then some (.b true) else if s = "F" then some (.b false)
  else if s = "X" then some .other
  else if s.startsWith "[" && s.endsWith "]" then
    let inner := strDropEnd (strDrop s 1) 1
    if inner.isEmpty then some (.l []) else
    (inner.splitOn ",").mapM parseInt |>.map Arg.l
  else parseInt s |>.map Arg.i

def parseBuf (s : String) : Option (Bool × Bytes) :=
  if s.startsWith "m:" then (unhex (strDrop s 2)).map (true, ·)
  else if s.startsWith "i:" then (unhex (strDrop s 2)).map (false, ·)
  else none

def sBool (b : Bool) : String := if b then "T" else "F"
def sUnit : Unit → String := fun _ => "ok"
def sOptBytes : Option Bytes → String
  | none => "N"
  | some b => hex b
def sSendRes : Rf24.SendRes → String
  | .bool b => sBool b
  | .payload p => sOptBytes p

end L

def showLite (d : Lite) : String := s!"st={d.status} p0r={showOpt hex d.pipe0ReadAddr}"

/-- run a lite-driver computation and render its result -/
def runL {α} (d : Lite) (w : World) (m : LiteM α) (sh : α → String) : String × Lite × World :=
  let (r, s) := (m.run).run { d := d, w := w }
  (match r with | .ok a => sh a | .error e => "exc=" ++ e.name, s.d, s.w)

open Lite L in
/-- dispatch one method call on a lite `RF24` object -/
def liteCall (d : Lite) (w : World) : List String → Option (String × Lite × World)
  | ["get", "ce_pin"] => some (runL d w getCE showBool)
  | ["set", "ce_pin", b] => do let b ← parseBool b; some (runL d w (setCE b) sUnit)
  | ["get", "address_length"] => some (runL d w getAddressLength toString)
  | ["set", "address_length", a] => do let a ← parseInt a; some (runL d w (setAddressLength a) sUnit)
  | ["open_tx_pipe", a] => do let a ← unhex a; some (runL d w (openTxPipe a) sUnit)
  | ["close_rx_pipe", p] => do let p ← parseInt p; some (runL d w (closeRxPipe p) sUnit)
  | ["open_rx_pipe", p, a] => do
    let p ← parseInt p; let a ← unhex a; some (runL d w (openRxPipe p a) sUnit)
  | ["get", "listen"] => some (runL d w getListen sBool)
  | ["set", "listen", b] => do let b ← pBool b; some (runL d w (setListen b) sUnit)
  | ["available"] => some (runL d w available sBool)
  | ["any"] => some (runL d w any toString)
  | ["read", l] => do
    let l ← parseOptInt l
    match l with
    | none => some (runL d w (read none) sOptBytes)
    | some v => if v < 0 then none else some (runL d w (read (some v.toNat)) sOptBytes)
  | ["send", buf, noack, retry, only] => do
    let (m, b) ← parseBuf buf; let na ← pBool noack; let fr ← parseInt retry; let so ← pBool only
    some (runL d w (send b m na fr so) fun (r, c) => s!"{sSendRes r} buf={hex c}")
  | "sendl" :: noack :: retry :: only :: bufs => do
    let na ← pBool noack; let fr ← parseInt retry; let so ← pBool only
    let bs ← bufs.mapM parseBuf
    some (runL d w (sendList bs na fr so) fun rs =>
      "[" ++ ",".intercalate (rs.map fun (r, _) => sSendRes r) ++ "] buf=" ++ ",".intercalate (rs.map fun (_, c) => hex c))
  | ["write", buf, noack, wonly] => do
    let (m, b) ← parseBuf buf; let na ← pBool noack; let wo ← pBool wonly
    some (runL d w (write b m na wo) fun (r, c) => s!"{sBool r} buf={hex c}")
  | ["resend", only] => do let so ← pBool only; some (runL d w (resend so) sSendRes)
  | ["get", "tx_full"] => some (runL d w txFull sBool)
  | ["get", "pipe"] => some (runL d w pipe (fun o => match o with | none => "N" | some p => toString p))
  | ["get", "irq_dr"] => some (runL d w irqDr sBool)
  | ["get", "irq_ds"] => some (runL d w irqDs sBool)
  | ["get", "irq_df"] => some (runL d w irqDf sBool)
  | ["update"] => some (runL d w update sBool)
  | ["clear_status_flags", a, b, c] => do
    let a ← pBool a; let b ← pBool b; let c ← pBool c
    some (runL d w (clearStatusFlags a b c) sUnit)
  | ["interrupt_config", a, b, c] => do
    let a ← pBool a; let b ← pBool b; let c ← pBool c
    some (runL d w (interruptConfig a b c) sUnit)
  | ["get", "dynamic_payloads"] => some (runL d w getDynamicPayloads showBool)
  | ["set", "dynamic_payloads", b] => do let b ← pBool b; some (runL d w (setDynamicPayloads b) sUnit)
  | ["get", "payload_length"] => some (runL d w getPayloadLength toString)
  | ["set", "payload_length", a] => do let a ← parseInt a; some (runL d w (setPayloadLength a) sUnit)
  | ["get", "arc"] => some (runL d w getArc toString)
  | ["set", "arc", a] => do let a ← parseInt a; some (runL d w (setArc a) sUnit)
  | ["get", "ard"] => some (runL d w getArd toString)
  | ["set", "ard", a] => do let a ← parseInt a; some (runL d w (setArd a) sUnit)
  | ["get", "ack"] => some (runL d w getAck sBool)
  | ["set", "ack", b] => do let b ← pBool b; some (runL d w (setAck b) sUnit)
  | ["load_ack", buf, p] => do
    let b ← unhex buf; let p ← parseInt p; some (runL d w (loadAck b p) sBool)
  | ["get", "data_rate"] => some (runL d w getDataRate toString)
  | ["set", "data_rate", a] => do let a ← parseInt a; some (runL d w (setDataRate a) sUnit)
  | ["get", "channel"] => some (runL d w getChannel toString)
  | ["set", "channel", a] => do let a ← parseInt a; some (runL d w (setChannel a) sUnit)
  | ["get", "power"] => some (runL d w getPower sBool)
  | ["set", "power", b] => do let b ← pBool b; some (runL d w (setPower b) sUnit)
  | ["get", "pa_level"] => some (runL d w getPaLevel toString)
  | ["set", "pa_level", a] => do let a ← parseArg a; some (runL d w (setPaLevel a) sUnit)
  | ["flush_rx"] => some (runL d w flushRx sUnit)
  | ["flush_tx"] => some (runL d w flushTx sUnit)
  | ["fifo", t, e] => do
    let t ← pBool t; let e ← parseOptBool e
    some (runL d w (fifo t e) fun n => match e with | none => toString n | some _ => sBool (n ≠ 0))
  | ["get", "rpd"] => some (runL d w rpd sBool)
  | _ => none

end Nrf.Drv
