/-
Driver ops for the radio / RF24 driver model: one *session* per line.

  rf <nradios> <plus> <op> ; <op> ; …

ops:   new <obj> rf24 <radio>            construct (runs `__init__`)
       <obj> get <attr> | <obj> set <attr> <arg…> | <obj> <method> <arg…>
       env inject <radio> <pipe> <hex> | env faults <D|L|A…> | env sleep <ns>
output: per op  `<result> ~ <object shadows> ~ <all radios> ~ <new air records>` joined by ` ; `
-/
import NrfModel.Drv.Util
import NrfModel.Rf24
import NrfModel.BleDev
import NrfModel.Drv.Lite

namespace Nrf.Drv
open Nrf

def showNats (l : List Nat) : String := ",".intercalate (l.map toString)

def showTxEntry (e : TxEntry) : String :=
  let k := match e.kind with
    | .payload => "P" | .payloadNoAck => "N" | .ackFor p => s!"A{p}"
  s!"{k}:{hex e.data}:{showOpt toString e.pid}"

def showRadio (r : Radio) : String :=
  s!"cfg={r.config} aa={r.enAA} rxen={r.enRxAddr} aw={r.setupAw} retr={r.setupRetr} ch={r.rfCh} " ++
  s!"rf={r.rfSetup} fl={r.flags} a0={hex r.rxAddr0} a1={hex r.rxAddr1} an={showNats r.rxAddrN} " ++
  s!"tx={hex r.txAddr} pw={showNats r.rxPw} dyn={r.dynpd} feat={r.feature} act={showBool r.activated} " ++
  s!"txf=[{",".intercalate (r.txFifo.map showTxEntry)}] " ++
  s!"rxf=[{",".intercalate (r.rxFifo.map fun e => s!"{e.pipe}:{hex e.data}")}] " ++
  s!"arc={r.arcCnt} plos={r.plosCnt} rpd={showBool r.rpd} ce={showBool r.ce} npid={r.nextPid} " ++
  s!"irq={showBool r.irqLine} viol=[{"|".intercalate r.violations}]"

def showRf24 (d : Rf24) : String :=
  s!"st={d.status} p0={hex d.pipes0} p1={hex d.pipes1} pn={showNats d.pipesN} cfg={d.config} " ++
  s!"open={d.openPipes} feat={d.features} retr={d.retrySetup} rf={d.rfSetup} dyn={d.dynPl} aa={d.aa} " ++
  s!"ch={d.channel} al={d.addrLen} pl={showNats d.plLen} p0r={showOpt hex d.pipe0ReadAddr} " ++
  s!"txa={hex d.txAddress} plus={showBool d.isPlus}"

def showPacket (k : Packet) : String :=
  s!"ch{k.ch}/r{k.rate}/c{k.crc}/e{showBool k.esb}/d{showBool k.dpl}/{hex k.addr}/p{k.pid}/n{showBool k.noAck}/{hex k.data}"

def showAir (a : AirRec) : String := s!"{a.sender}>{showPacket a.pkt}x{a.attempts}:{showBool a.ok}"

inductive Obj where
  | rf (d : Rf24)
  | ble (b : BleDev)
  | lite (l : Lite)
  deriving Repr, Inhabited

structure Sess where
  w : World
  objs : List (String × Obj) := []
  airSeen : Nat := 0
  deriving Inhabited

def parseArg (s : String) : Option Arg :=
  if s = "T" then some (.b true) else if s = "F" then some (.b false)
  else if s = "X" then some .other
  else if s.startsWith "[" && s.endsWith "]" then
    let inner := strDropEnd (strDrop s 1) 1
    if inner.isEmpty then some (.l []) else
    (inner.splitOn ",").mapM parseInt |>.map Arg.l
  else parseInt s |>.map Arg.i

def parseOptInt (s : String) : Option (Option Int) :=
  if s = "N" then some none else (parseInt s).map some

def parseOptBool (s : String) : Option (Option Bool) :=
  if s = "N" then some none else if s = "T" then some (some true)
  else if s = "F" then some (some false) else none

def pBool (s : String) : Option Bool :=
  if s = "T" then some true else if s = "F" then some false else none

/-- buffer argument: `m:<hex>` = bytearray (mutable), `i:<hex>` = bytes -/
def parseBuf (s : String) : Option (Bool × Bytes) :=
  if s.startsWith "m:" then (unhex (strDrop s 2)).map (true, ·)
  else if s.startsWith "i:" then (unhex (strDrop s 2)).map (false, ·)
  else none

def sBool (b : Bool) : String := if b then "T" else "F"
def sUnit : Unit → String := fun _ => "ok"
def sOptBytes : Option Bytes → String
  | none => "N"
  | some b => hex b
def sSendRes : Rf24.SendRes → String
  | .bool b => sBool b
  | .payload p => sOptBytes p

/-- run a driver computation and render its result -/
def runD {α} (d : Rf24) (w : World) (m : DrvM α) (sh : α → String) : String × Rf24 × World :=
  let (r, s) := (m.run).run { d := d, w := w }
  (match r with | .ok a => sh a | .error e => "exc=" ++ e.name, s.d, s.w)

open Rf24 in
/-- dispatch one method call on an RF24 object -/
def rf24Call (d : Rf24) (w : World) : List String → Option (String × Rf24 × World)
  | ["get", "address_length"] => some (runD d w getAddressLength toString)
  | ["set", "address_length", a] => do let a ← parseInt a; some (runD d w (setAddressLength a) sUnit)
  | ["open_tx_pipe", a] => do let a ← unhex a; some (runD d w (openTxPipe a) sUnit)
  | ["close_rx_pipe", p] => do let p ← parseInt p; some (runD d w (closeRxPipe p) sUnit)
  | ["open_rx_pipe", p, a] => do
    let p ← parseInt p; let a ← unhex a; some (runD d w (openRxPipe p a) sUnit)
  | ["get", "listen"] => some (runD d w getListen sBool)
  | ["set", "listen", b] => do let b ← pBool b; some (runD d w (setListen b) sUnit)
  | ["available"] => some (runD d w available sBool)
  | ["any"] => some (runD d w any toString)
  | ["read", l] => do
    let l ← parseOptInt l
    match l with
    | none => some (runD d w (read none) sOptBytes)
    | some v => if v < 0 then none else some (runD d w (read (some v.toNat)) sOptBytes)
  | ["send", buf, noack, retry, only] => do
    let (m, b) ← parseBuf buf; let na ← pBool noack; let fr ← parseInt retry; let so ← pBool only
    some (runD d w (send b m na fr so) fun (r, c) => s!"{sSendRes r} buf={hex c}")
  | "sendl" :: noack :: retry :: only :: bufs => do
    let na ← pBool noack; let fr ← parseInt retry; let so ← pBool only
    let bs ← bufs.mapM parseBuf
    some (runD d w (sendList bs na fr so) fun rs =>
      "[" ++ ",".intercalate (rs.map fun (r, _) => sSendRes r) ++ "] buf=" ++ ",".intercalate (rs.map fun (_, c) => hex c))
  | ["write", buf, noack, wonly] => do
    let (m, b) ← parseBuf buf; let na ← pBool noack; let wo ← pBool wonly
    some (runD d w (write b m na wo) fun (r, c) => s!"{sBool r} buf={hex c}")
  | ["resend", only] => do let so ← pBool only; some (runD d w (resend so) sSendRes)
  | ["get", "tx_full"] => some (runD d w txFull sBool)
  | ["get", "pipe"] => some (runD d w pipe (fun o => match o with | none => "N" | some p => toString p))
  | ["get", "irq_dr"] => some (runD d w irqDr sBool)
  | ["get", "irq_ds"] => some (runD d w irqDs sBool)
  | ["get", "irq_df"] => some (runD d w irqDf sBool)
  | ["update"] => some (runD d w update sBool)
  | ["clear_status_flags", a, b, c] => do
    let a ← pBool a; let b ← pBool b; let c ← pBool c
    some (runD d w (clearStatusFlags a b c) sUnit)
  | ["interrupt_config", a, b, c] => do
    let a ← pBool a; let b ← pBool b; let c ← pBool c
    some (runD d w (interruptConfig a b c) sUnit)
  | ["get", "dynamic_payloads"] => some (runD d w getDynamicPayloads toString)
  | ["set", "dynamic_payloads", a] => do let a ← parseArg a; some (runD d w (setDynamicPayloadsAttr a) sUnit)
  | ["set_dynamic_payloads", e, p] => do
    let e ← pBool e; let p ← parseOptInt p; some (runD d w (setDynamicPayloads e p) sUnit)
  | ["get_dynamic_payloads", p] => do let p ← parseInt p; some (runD d w (getDynamicPayloadsPipe p) sBool)
  | ["get", "payload_length"] => some (runD d w getPayloadLengthAttr toString)
  | ["set", "payload_length", a] => do let a ← parseArg a; some (runD d w (setPayloadLengthAttr a) sUnit)
  | ["set_payload_length", l, p] => do
    let l ← parseInt l; let p ← parseOptInt p; some (runD d w (setPayloadLength l p) sUnit)
  | ["get_payload_length", p] => do let p ← parseInt p; some (runD d w (getPayloadLength p) toString)
  | ["get", "arc"] => some (runD d w getArc toString)
  | ["set", "arc", a] => do let a ← parseInt a; some (runD d w (setArc a) sUnit)
  | ["get", "ard"] => some (runD d w getArd toString)
  | ["set", "ard", a] => do let a ← parseInt a; some (runD d w (setArd a) sUnit)
  | ["set_auto_retries", a, b] => do
    let a ← parseInt a; let b ← parseInt b; some (runD d w (setAutoRetries a b) sUnit)
  | ["get_auto_retries"] => some (runD d w getAutoRetries fun (a, b) => s!"{a},{b}")
  | ["get", "last_tx_arc"] => some (runD d w lastTxArc toString)
  | ["get", "auto_ack"] => some (runD d w getAutoAck toString)
  | ["set", "auto_ack", a] => do let a ← parseArg a; some (runD d w (setAutoAckAttr a) sUnit)
  | ["set_auto_ack", e, p] => do
    let e ← pBool e; let p ← parseOptInt p; some (runD d w (setAutoAck e p) sUnit)
  | ["get_auto_ack", p] => do let p ← parseInt p; some (runD d w (getAutoAckPipe p) sBool)
  | ["get", "ack"] => some (runD d w getAck sBool)
  | ["set", "ack", b] => do let b ← pBool b; some (runD d w (setAck b) sUnit)
  | ["load_ack", buf, p] => do
    let b ← unhex buf; let p ← parseInt p; some (runD d w (loadAck b p) sBool)
  | ["get", "allow_ask_no_ack"] => some (runD d w getAllowAskNoAck sBool)
  | ["set", "allow_ask_no_ack", b] => do let b ← pBool b; some (runD d w (setAllowAskNoAck b) sUnit)
  | ["get", "data_rate"] => some (runD d w getDataRate toString)
  | ["set", "data_rate", a] => do let a ← parseInt a; some (runD d w (setDataRate a) sUnit)
  | ["get", "channel"] => some (runD d w getChannel toString)
  | ["set", "channel", a] => do let a ← parseInt a; some (runD d w (setChannel a) sUnit)
  | ["get", "crc"] => some (runD d w getCrc toString)
  | ["set", "crc", a] => do let a ← parseInt a; some (runD d w (setCrc a) sUnit)
  | ["get", "power"] => some (runD d w getPower sBool)
  | ["set", "power", b] => do let b ← pBool b; some (runD d w (setPower b) sUnit)
  | ["get", "pa_level"] => some (runD d w getPaLevel toString)
  | ["set", "pa_level", a] => do let a ← parseArg a; some (runD d w (setPaLevel a none) sUnit)
  | ["set", "pa_level", a, l] => do
    let a ← parseArg a; let l ← pBool l; some (runD d w (setPaLevel a (some l)) sUnit)
  | ["get", "is_lna_enabled"] => some (runD d w isLnaEnabled sBool)
  | ["flush_rx"] => some (runD d w flushRx sUnit)
  | ["flush_tx"] => some (runD d w flushTx sUnit)
  | ["fifo", t, e] => do
    let t ← pBool t; let e ← parseOptBool e
    some (runD d w (fifo t e) fun n => match e with | none => toString n | some _ => sBool (n ≠ 0))
  | ["address", i] => do let i ← parseInt i; some (runD d w (address i) hex)
  | ["get", "rpd"] => some (runD d w rpd sBool)
  | ["get", "ce_pin"] => some (runD d w (do let s ← get; return (s.w.radio s.d.rid).ce) showBool)
  | ["set", "ce_pin", b] => do let b ← parseBool b; some (runD d w (setCE b) sUnit)
  | ["get", "is_plus_variant"] => some (sBool d.isPlus, d, w)
  | ["start_carrier_wave"] => some (runD d w startCarrierWave sUnit)
  | ["stop_carrier_wave"] => some (runD d w stopCarrierWave sUnit)
  | ["enter"] => some (runD d w enter sUnit)
  | ["exit"] => some (runD d w exit sUnit)
  -- `with obj: raise KeyError`: the block is entered and left, and the exception propagates (`__exit__` returns False)
  | ["withraise"] => some (runD d w (do enter; exit) fun _ => "raised")
  | _ => none

def parseFaults (s : String) : Option (List Outcome) :=
  if s = "-" then some [] else
  s.toList.mapM fun c =>
    if c = 'D' then some .delivered else if c = 'L' then some .packetLost
    else if c = 'A' then some .ackLost else none

def showBle (b : BleDev) : String := showRf24 b.rf ++ s!" cf={b.currFreq}"

def showObj : Obj → String
  | .rf d => showRf24 d
  | .ble b => showBle b
  | .lite l => showLite l

def runB {α} (b : BleDev) (w : World) (m : BleM α) (sh : α → String) : String × BleDev × World :=
  let (r, s) := (m.run).run { b := b, w := w }
  (match r with | .ok a => sh a | .error e => "exc=" ++ e.name, s.b, s.w)

/-- method calls on a FakeBLE object: its own overrides first, everything else is `RF24`'s -/
def bleCall (b : BleDev) (w : World) (toks : List String) : Option (String × BleDev × World) :=
  let notImpl : Option (String × BleDev × World) := some ("exc=NotImplementedError", b, w)
  match toks with
  | ["set", "channel", a] => do let a ← parseInt a; some (runB b w (BleDev.setChannel a) sUnit)
  | ["hop_channel"] => some (runB b w BleDev.hopChannel sUnit)
  | ["enter"] => some (runB b w BleDev.enter sUnit)
  | ["exit"] => some (runB b w BleDev.exit sUnit)
  | ["set_auto_ack", _, p] => do let p ← parseOptInt p; some (runB b w (BleDev.setAutoAck p) sUnit)
  | ["set_dynamic_payloads", _, p] => do let p ← parseOptInt p; some (runB b w (BleDev.setDynamicPayloads p) sUnit)
  | ["load_ack", buf, p] => do
    let bb ← unhex buf; let p ← parseInt p; some (runB b w (BleDev.loadAck bb p) sBool)
  | ["set", "dynamic_payloads", _] => notImpl
  | ["set", "data_rate", _] => notImpl
  | ["set", "address_length", _] => notImpl
  | ["set", "auto_ack", _] => notImpl
  | ["set", "ack", _] => notImpl
  | ["set", "crc", _] => notImpl
  | ["open_rx_pipe", _, _] => notImpl
  | ["open_tx_pipe", _] => notImpl
  | _ => do
    let (res, d', w') ← rf24Call b.rf w toks
    some (res, { b with rf := d' }, w')

/-- `dflt <method> <required args…>`: the call with every optional parameter left at its documented default
    (the same defaults in rf24.py and rf24_lite.py) -/
def expandDefaults : List String → List String
  | ["dflt", "send", buf] => ["send", buf, "F", "0", "F"]
  | ["dflt", "write", buf] => ["write", buf, "F", "F"]
  | ["dflt", "resend"] => ["resend", "F"]
  | ["dflt", "read"] => ["read", "N"]
  | ["dflt", "fifo"] => ["fifo", "F", "N"]
  | ["dflt", "clear_status_flags"] => ["clear_status_flags", "T", "T", "T"]
  | ["dflt", "interrupt_config"] => ["interrupt_config", "T", "T", "T"]
  | ["dflt", "set_dynamic_payloads", e] => ["set_dynamic_payloads", e, "N"]
  | ["dflt", "get_dynamic_payloads"] => ["get_dynamic_payloads", "0"]
  | ["dflt", "set_payload_length", l] => ["set_payload_length", l, "N"]
  | ["dflt", "get_payload_length"] => ["get_payload_length", "0"]
  | ["dflt", "address"] => ["address", "-1"]
  | t => t

def sessStep (s : Sess) (toks : List String) : Option (String × Sess) :=
  match toks with
  | ["new", name, "rf24", rid] => do
    let rid ← parseNat rid
    let (res, d, w) := runD { rid := rid } s.w Rf24.init sUnit
    some (res ++ " ~ " ++ showRf24 d, { s with w := w, objs := (name, .rf d) :: s.objs.filter (·.1 ≠ name) })
  | ["new", name, "ble", rid] => do
    let rid ← parseNat rid
    let (res, b, w) := runB { rf := { rid := rid } } s.w BleDev.init sUnit
    some (res ++ " ~ " ++ showBle b, { s with w := w, objs := (name, .ble b) :: s.objs.filter (·.1 ≠ name) })
  | ["new", name, "lite", rid] => do
    let rid ← parseNat rid
    let (res, l, w) := runL { rid := rid } s.w Lite.init sUnit
    some (res ++ " ~ " ++ showLite l, { s with w := w, objs := (name, .lite l) :: s.objs.filter (·.1 ≠ name) })
  | ["env", "inject", rid, pipe, data] => do
    let rid ← parseNat rid; let pipe ← parseNat pipe; let data ← unhex data
    some ("ok ~ -", { s with w := s.w.inject rid pipe data })
  | ["env", "faults", f] => do
    let f ← parseFaults f
    some ("ok ~ -", { s with w := { s.w with faults := f } })
  | ["env", "sleep", ns] => do
    let ns ← parseNat ns
    some ("ok ~ -", { s with w := s.w.sleep ns })
  | name :: rest => do
    let rest := expandDefaults rest
    match s.objs.lookup name with
    | none => none
    | some (.rf d) =>
      let (res, d', w') ← rf24Call d s.w rest
      some (res ++ " ~ " ++ showRf24 d',
            { s with w := w', objs := s.objs.map fun (n, o) => if n = name then (n, .rf d') else (n, o) })
    | some (.ble b) =>
      let (res, b', w') ← bleCall b s.w rest
      some (res ++ " ~ " ++ showBle b',
            { s with w := w', objs := s.objs.map fun (n, o) => if n = name then (n, .ble b') else (n, o) })
    | some (.lite l) =>
      let (res, l', w') ← liteCall l s.w rest
      some (res ++ " ~ " ++ showLite l',
            { s with w := w', objs := s.objs.map fun (n, o) => if n = name then (n, .lite l') else (n, o) })
  | _ => none

def splitOps (toks : List String) : List (List String) :=
  let rec go (cur : List String) (acc : List (List String)) : List String → List (List String)
    | [] => (if cur.isEmpty then acc else cur.reverse :: acc).reverse
    | t :: rest => if t = ";" then go [] (cur.reverse :: acc) rest else go (t :: cur) acc rest
  go [] [] toks

def sessRun (s : Sess) : List (List String) → List String → Option (List String)
  | [], acc => some acc.reverse
  | op :: rest, acc => do
    let (res, s') ← sessStep s op
    let newAir := s'.w.air.drop s'.airSeen
    let line := res ++ " ~ " ++ " || ".intercalate (s'.w.radios.map showRadio) ++ " ~ ["
      ++ ",".intercalate (newAir.map showAir) ++ "]"
    sessRun { s' with airSeen := s'.w.air.length } rest (line :: acc)

/-- `rf <nradios> <plus> <ops…>` -/
def hRf : Handler
  | n :: plus :: toks => do
    let n ← parseNat n
    let plus ← parseBool plus
    let outs ← sessRun { w := World.fresh n plus } (splitOps toks) []
    pure (" ; ".intercalate outs)
  | _ => none

def rfHandlers : List (String × Handler) := [("rf", hRf)]

end Nrf.Drv
