/-
L3 — `circuitpython_nrf24l01/rf24.py: class RF24`, transliterated.

Every public method is a computation in `DrvM`: state = (driver object, world), result =
`Except PyErr α`; the state **survives** an exception (Python mutates `self` up to the `raise`).
Shadow attributes are `Nat` (an invariant of the code keeps them in byte range), user arguments
are `Int` / `Arg` as in Python.
-/
import NrfModel.Air

namespace Nrf

/-- Python argument of the `bool | int | list/tuple` family -/
inductive Arg where
  | b (v : Bool)
  | i (v : Int)
  | l (vs : List Int)   -- list/tuple of ints (bools count as 0/1)
  | other               -- anything else (str, None, float, …)
  deriving DecidableEq, Repr, Inhabited

structure Rf24 where
  /-- index of the radio this object drives -/
  rid : Nat := 0
  /-- `self._in[0]`: STATUS as returned by the last SPI transaction -/
  status : Nat := 0
  pipes0 : Bytes := [0, 0, 0, 0, 0]
  pipes1 : Bytes := [0, 0, 0, 0, 0]
  pipesN : List Nat := [0, 0, 0, 0]
  config : Nat := 0x0E
  openPipes : Nat := 0
  features : Nat := 5
  retrySetup : Nat := 0x5F
  rfSetup : Nat := 0x07
  dynPl : Nat := 0x3F
  aa : Nat := 0x3F
  channel : Nat := 76
  addrLen : Nat := 5
  plLen : List Nat := [32, 32, 32, 32, 32, 32]
  pipe0ReadAddr : Option Bytes := none
  txAddress : Bytes := [0, 0, 0, 0, 0]
  isPlus : Bool := false
  deriving DecidableEq, Repr, Inhabited

structure DrvState where
  d : Rf24
  w : World
  deriving Repr, Inhabited

abbrev DrvM := ExceptT PyErr (StateM DrvState)

namespace Rf24

def getD : DrvM Rf24 := do return (← get).d
def modD (f : Rf24 → Rf24) : DrvM Unit := modify fun s => { s with d := f s.d }
def raise {α} (e : PyErr) : DrvM α := throw e

/-- bits of `m` cleared in `x`  (`x & ~m` for non-negative `x`) -/
def andNot (x m : Nat) : Nat := x ^^^ (x &&& m)

def b2n (b : Bool) : Nat := if b then 1 else 0

/-- one SPI transaction through `self._spi` (`write_readinto(out, in, out_end=n, in_end=n)`):
    `self._in[0]` becomes the STATUS byte -/
def xfer (out : Bytes) : DrvM Bytes := do
  let s ← get
  let (w, inb) := s.w.spi s.d.rid out
  set ({ d := { s.d with status := inb.headD s.d.status }, w := w } : DrvState)
  return inb

def setCE (v : Bool) : DrvM Unit := modify fun s => { s with w := s.w.setCE s.d.rid v }
def sleepNs (ns : Nat) : DrvM Unit := modify fun s => { s with w := s.w.sleep ns }
def nowNs : DrvM Nat := do return (← get).w.clock

/-- `_reg_read(reg)` -/
def regRead (reg : Nat) : DrvM Nat := do
  let inb ← xfer [reg, 0]
  return inb.getD 1 0

/-- `_reg_read_bytes(reg, buf_len)` -/
def regReadBytes (reg : Nat) (bufLen : Nat := 5) : DrvM Bytes := do
  let inb ← xfer (reg :: zeros bufLen)
  return inb.drop 1

/-- `_reg_write_bytes(reg, out_buf)`; `self._out[1:n] = out_buf` on the 97-byte buffer: a longer
    buffer would grow `_out` (not modelled: every caller passes ≤ 32 bytes) -/
def regWriteBytes (reg : Nat) (buf : Bytes) : DrvM Unit := do
  let _ ← xfer ((0x20 ||| reg) :: buf)

/-- `_reg_write(reg, value)`; `self._out[1] = value` raises `ValueError` outside `0..255` -/
def regWrite (reg : Nat) (value : Int) : DrvM Unit := do
  if value < 0 ∨ value > 255 then raise .valueError
  let _ ← xfer (((if reg ≠ 0x50 then 0x20 else 0) ||| reg) :: [value.toNat])

/-- `_reg_write(reg)` with no value: a bare command -/
def regCmd (reg : Nat) : DrvM Unit := do
  let _ ← xfer [reg]

def CONFIGURE := 0x00
def AUTO_ACK := 0x01
def OPEN_PIPES := 0x02
def SETUP_RETR := 0x04
def RF_PA_RATE := 0x06
def RX_ADDR_P0 := 0x0A
def TX_ADDRESS := 0x10
def RX_PL_LENG := 0x11
def DYN_PL_LEN := 0x1C
def TX_FEATURE := 0x1D

def flushRx : DrvM Unit := regCmd 0xE2
def flushTx : DrvM Unit := regCmd 0xE1
def update : DrvM Bool := do regCmd 0xFF; return true

def clearStatusFlags (dataRecv dataSent dataFail : Bool := true) : DrvM Unit :=
  regWrite 7 ((b2n dataRecv <<< 6 ||| b2n dataSent <<< 5 ||| b2n dataFail <<< 4 : Nat) : Int)

/-- `for i, val in enumerate(address): buf[i] = val` on a 5-byte `bytearray` -/
def overwritePrefix (buf addr : Bytes) : PyM Bytes :=
  if addr.length > buf.length then .error .indexError
  else .ok (addr ++ buf.drop addr.length)

/-- the shadow list `self._pipes[i]` for `i < 2` -/
def getPipes (d : Rf24) (i : Nat) : Bytes := if i = 0 then d.pipes0 else d.pipes1
def setPipes (d : Rf24) (i : Nat) (b : Bytes) : Rf24 :=
  if i = 0 then { d with pipes0 := b } else { d with pipes1 := b }

/-- the enumerate-assign loop mutates in place: on `IndexError` the first five bytes are already
    overwritten -/
def assignPrefix (i : Nat) (addr : Bytes) : DrvM Unit := do
  let d ← getD
  match overwritePrefix (getPipes d i) addr with
  | .ok b => modD fun d => setPipes d i b
  | .error e =>
    modD fun d => setPipes d i (addr.take (getPipes d i).length)
    raise e

/-- `payload_length` setter's per-pipe body / list form -/
def payloadLengthList (vals : List Int) : DrvM Unit := do
  let rec go (i : Nat) : List Int → DrvM Unit
    | [] => pure ()
    | v :: rest => do
      if i < 6 ∧ v > 0 then
        let n := (min 32 v).toNat
        modD fun d => { d with plLen := d.plLen.set i n }
        regWrite (RX_PL_LENG + i) n
      go (i + 1) rest
  go 0 vals

/-- `payload_length = length` -/
def setPayloadLengthAttr (a : Arg) : DrvM Unit :=
  match a with
  | .i v => payloadLengthList (List.replicate 6 (max 1 v))
  | .b v => payloadLengthList (List.replicate 6 (max 1 (b2n v : Int)))   -- bool is an int
  | .l vs => payloadLengthList vs
  | .other => raise .valueError

/-- `set_payload_length(length, pipe_number)` -/
def setPayloadLength (length : Int) (pipe : Option Int) : DrvM Unit := do
  match pipe with
  | none => setPayloadLengthAttr (.i length)
  | some p =>
    if 0 ≤ p ∧ p ≤ 5 then
      let n := (max 1 (min 32 length)).toNat
      modD fun d => { d with plLen := d.plLen.set p.toNat n }
      regWrite (RX_PL_LENG + p.toNat) n
    else raise .indexError

/-- `get_payload_length(pipe_number)` -/
def getPayloadLength (pipe : Int) : DrvM Nat := do
  if ¬ (0 ≤ pipe ∧ pipe ≤ 5) then raise .indexError
  let v ← regRead (RX_PL_LENG + pipe.toNat)
  modD fun d => { d with plLen := d.plLen.set pipe.toNat v }
  return v

/-- body of the `for i, addr in enumerate(self._pipes)` loop of `__enter__` -/
def enterPipe (i : Nat) : DrvM Unit := do
  let d ← getD
  if i < 2 then regWriteBytes (RX_ADDR_P0 + i) (getPipes d i)
  else regWrite (RX_ADDR_P0 + i) (d.pipesN.getD (i - 2) 0)
  setPayloadLength (d.plLen.getD i 0) (some i)

/-- `__enter__` -/
def enter : DrvM Unit := do
  setCE false
  modD fun d => { d with config := d.config ||| 2 }
  regWrite CONFIGURE (← getD).config
  regWrite RF_PA_RATE (← getD).rfSetup
  regWrite OPEN_PIPES (← getD).openPipes
  regWrite DYN_PL_LEN (← getD).dynPl
  regWrite AUTO_ACK (← getD).aa
  regWrite TX_FEATURE (← getD).features
  regWrite SETUP_RETR (← getD).retrySetup
  enterPipe 0
  enterPipe 1
  enterPipe 2
  enterPipe 3
  enterPipe 4
  enterPipe 5
  regWriteBytes TX_ADDRESS (← getD).txAddress
  regWrite 0x05 (← getD).channel
  regWrite 0x03 ((← getD).addrLen - 2 : Nat)

/-- `__exit__` -/
def exit : DrvM Unit := do
  setCE false
  modD fun d => { d with config := d.config &&& 0x7D }
  regWrite CONFIGURE (← getD).config
  sleepNs 150000

/-- the variant decision of `__init__`, given FEATURE as read before (`self._features`) and after
    (`after_toggle`) the ACTIVATE toggle: unequal ⇒ non-plus (re-enable the features if they are now
    disabled); equal and non-zero ⇒ plus; both 0 ⇒ "disabled" and "enabled, holding 0" look alike:
    probe with a write of FEATURE -/
def initVariant (f after : Nat) : DrvM Unit := do
  if f ≠ after then
    (if after = 0 then regWrite 0x50 0x73 else pure ())
  else if after ≠ 0 then modD fun d => { d with isPlus := true }
  else
    regWrite TX_FEATURE 5
    if (← regRead TX_FEATURE) ≠ 0 then
      regWrite 0x50 0x73
      let g ← regRead TX_FEATURE
      modD fun d => { d with isPlus := decide (g ≠ 0) }   -- `bool(self._reg_read(TX_FEATURE))`
    if (← getD).isPlus = false then regWrite 0x50 0x73

/-- `__init__` (after the SPI object exists); `RuntimeError` if the chip does not answer -/
def init : DrvM Unit := do
  setCE false
  regWrite CONFIGURE (← getD).config
  if (← regRead CONFIGURE) ≠ (← getD).config then raise .runtimeError
  let p0 ← regReadBytes RX_ADDR_P0
  let p1 ← regReadBytes (RX_ADDR_P0 + 1)
  let p2 ← regRead (RX_ADDR_P0 + 2)
  let p3 ← regRead (RX_ADDR_P0 + 3)
  let p4 ← regRead (RX_ADDR_P0 + 4)
  let p5 ← regRead (RX_ADDR_P0 + 5)
  modD fun d => { d with pipes0 := p0, pipes1 := p1, pipesN := [p2, p3, p4, p5],
                         openPipes := 0, isPlus := false }
  let f ← regRead TX_FEATURE
  modD fun d => { d with features := f }
  regWrite 0x50 0x73
  let after ← regRead TX_FEATURE
  initVariant f after
  modD fun d => { d with features := 5, pipe0ReadAddr := none }
  let ta ← regReadBytes TX_ADDRESS
  modD fun d => { d with txAddress := ta, retrySetup := 0x5F, rfSetup := 0x07, dynPl := 0x3F,
                         aa := 0x3F, channel := 76, addrLen := 5, plLen := [32, 32, 32, 32, 32, 32] }
  enter
  flushRx
  flushTx
  clearStatusFlags
  exit

/-- `address_length` getter -/
def getAddressLength : DrvM Nat := do
  let v ← regRead 0x03
  modD fun d => { d with addrLen := v + 2 }
  return v + 2

/-- `address_length = length` -/
def setAddressLength (length : Int) : DrvM Unit := do
  let n : Nat := if 3 ≤ length ∧ length ≤ 5 then length.toNat else 2
  modD fun d => { d with addrLen := n }
  regWrite 0x03 (n - 2 : Nat)

/-- `address(index)` -/
def address (index : Int) : DrvM Bytes := do
  let d ← getD
  if index > 5 then raise .indexError
  if index < 0 then return d.txAddress
  if index ≤ 1 then return getPipes d index.toNat
  return (d.pipesN.getD (index.toNat - 2) 0) :: d.pipes1.drop 1

/-- `open_tx_pipe(address)` -/
def openTxPipe (addr : Bytes) : DrvM Unit := do
  let d ← getD
  if d.aa &&& 1 ≠ 0 then
    assignPrefix 0 addr
    regWriteBytes RX_ADDR_P0 addr
    let d ← getD
    if d.config &&& 1 = 0 ∧ d.openPipes &&& 1 = 0 then
      modD fun d => { d with openPipes := d.openPipes ||| 1 }
      regWrite OPEN_PIPES (← getD).openPipes
  let d ← getD
  match overwritePrefix d.txAddress addr with
  | .ok b => modD fun d => { d with txAddress := b }
  | .error e =>
    modD fun d => { d with txAddress := addr.take d.txAddress.length }
    raise e
  regWriteBytes TX_ADDRESS addr

/-- `close_rx_pipe(pipe_number)` -/
def closeRxPipe (pipe : Int) : DrvM Unit := do
  if pipe < 0 ∨ pipe > 5 then raise .indexError
  let v ← regRead OPEN_PIPES
  modD fun d => { d with openPipes := andNot v (1 <<< pipe.toNat) }
  if pipe = 0 then modD fun d => { d with pipe0ReadAddr := none }
  regWrite OPEN_PIPES (← getD).openPipes

/-- `open_rx_pipe(pipe_number, address)` -/
def openRxPipe (pipe : Int) (addr : Bytes) : DrvM Unit := do
  if ¬ (0 ≤ pipe ∧ pipe ≤ 5) then raise .indexError
  if addr.isEmpty then raise .valueError
  let p := pipe.toNat
  if p < 2 then
    if p = 0 then modD fun d => { d with pipe0ReadAddr := some addr }
    assignPrefix p addr
    regWriteBytes (RX_ADDR_P0 + p) addr
  else
    modD fun d => { d with pipesN := d.pipesN.set (p - 2) (addr.headD 0) }
    regWrite (RX_ADDR_P0 + p) (addr.headD 0)
  let v ← regRead OPEN_PIPES
  modD fun d => { d with openPipes := v ||| (1 <<< p) }
  regWrite OPEN_PIPES (← getD).openPipes

/-- `power` getter -/
def getPower : DrvM Bool := do
  let v ← regRead CONFIGURE
  modD fun d => { d with config := v }
  return v &&& 2 ≠ 0

/-- `power = is_on` -/
def setPower (isOn : Bool) : DrvM Unit := do
  let v ← regRead CONFIGURE
  modD fun d => { d with config := v &&& 0x7D ||| (b2n isOn <<< 1) }
  regWrite CONFIGURE (← getD).config
  sleepNs 150000

/-- `listen` getter -/
def getListen : DrvM Bool := do
  let p ← getPower
  return p && ((← getD).config &&& 1 ≠ 0)

/-- `listen = is_rx` -/
def setListen (isRx : Bool) : DrvM Unit := do
  setCE false
  modD fun d => { d with config := d.config &&& 0xFC ||| (2 + b2n isRx) }
  regWrite CONFIGURE (← getD).config
  let start ← nowNs
  if isRx then
    setCE true
    let d ← getD
    let a0 ← address 0
    match d.pipe0ReadAddr with
    | some ra =>
      if ra ≠ a0 then
        assignPrefix 0 ra
        regWriteBytes RX_ADDR_P0 ra
    | none =>
      if d.openPipes &&& 1 ≠ 0 then
        modD fun d => { d with openPipes := d.openPipes &&& 0x3E }
        regWrite OPEN_PIPES (← getD).openPipes
  else
    let d ← getD
    if d.features &&& 6 = 6 ∧ (d.aa &&& d.dynPl) &&& 1 ≠ 0 then flushTx
    let d ← getD
    if d.aa &&& 1 ≠ 0 ∧ d.openPipes &&& 1 = 0 then
      modD fun d => { d with openPipes := d.openPipes ||| 1 }
      regWrite OPEN_PIPES (← getD).openPipes
  let delta := (← nowNs) - start
  if delta < 150000 then sleepNs (150000 - delta)

/-- `self._in[0] >> 1 & 7 < 6` -/
def rxPipeField (d : Rf24) : Nat := (d.status >>> 1) &&& 7

def available : DrvM Bool := do
  let _ ← update
  return rxPipeField (← getD) < 6

def any : DrvM Nat := do
  let lastDyn ← regRead 0x60
  let d ← getD
  if rxPipeField d < 6 then
    if d.features &&& 4 ≠ 0 then return lastDyn
    return d.plLen.getD (rxPipeField d) 0
  return 0

/-- `read(length)`; `None` is `none` (a non-negative `length` only) -/
def read (length : Option Nat := none) : DrvM (Option Bytes) := do
  let size : Nat ← match length with
    | some l => pure l
    | none => any
  if size = 0 then return none
  let r ← regReadBytes 0x61 size
  clearStatusFlags true false false
  return some r

/-- `pipe` -/
def pipe : DrvM (Option Nat) := do
  let r := rxPipeField (← getD)
  return if r ≤ 5 then some r else none

def txFull : DrvM Bool := do return (← getD).status &&& 1 ≠ 0
def irqDr : DrvM Bool := do return (← getD).status &&& 0x40 ≠ 0
def irqDs : DrvM Bool := do return (← getD).status &&& 0x20 ≠ 0
def irqDf : DrvM Bool := do return (← getD).status &&& 0x10 ≠ 0

def interruptConfig (dataRecv dataSent dataFail : Bool := true) : DrvM Unit := do
  let v ← regRead CONFIGURE
  modD fun d => { d with config := (v &&& 0x0F) ||| (b2n (!dataRecv) <<< 6) }
  modD fun d => { d with config := d.config ||| (b2n (!dataFail) <<< 4) ||| (b2n (!dataSent) <<< 5) }
  regWrite CONFIGURE (← getD).config

/-- `fifo(about_tx, check_empty)`: an `int` 0..3 when `check_empty is None`, else a `bool` -/
def fifo (aboutTx : Bool) (checkEmpty : Option Bool) : DrvM Nat := do
  let f ← regRead 0x17
  match checkEmpty with
  | none => return (f &&& (if aboutTx then 0x30 else 0x03)) >>> (4 * b2n aboutTx)
  | some ce => return b2n (f &&& ((2 - b2n ce) <<< (4 * b2n aboutTx)) ≠ 0)

def rpd : DrvM Bool := do return (← regRead 0x09) ≠ 0
def lastTxArc : DrvM Nat := do return (← regRead 8) &&& 0x0F

/-- the body shared by the `dynamic_payloads` / `auto_ack` setters for list arguments -/
def applyBitList (start : Nat) (vals : List Int) : Nat :=
  let rec go (i : Nat) (acc : Nat) : List Int → Nat
    | [] => acc
    | v :: rest =>
      go (i + 1) (if i < 6 ∧ v ≥ 0 then andNot acc (1 <<< i) ||| (b2n (v ≠ 0) <<< i) else acc) rest
  go 0 start vals

def getDynamicPayloads : DrvM Nat := do
  let v ← regRead DYN_PL_LEN
  modD fun d => { d with dynPl := v }
  return v

def setDynamicPayloadsAttr (a : Arg) : DrvM Unit := do
  let f ← regRead TX_FEATURE
  modD fun d => { d with features := f }
  match a with
  | .b v => modD fun d => { d with dynPl := if v then 0x3F else 0 }
  | .i v => modD fun d => { d with dynPl := (v % 64).toNat }   -- `0x3F & enable`
  | .l vs =>
    let cur ← regRead DYN_PL_LEN
    modD fun d => { d with dynPl := applyBitList cur vs }
  | .other => raise .valueError
  modD fun d => { d with features := (d.features &&& 3) ||| (b2n (d.dynPl ≠ 0) <<< 2) }
  regWrite TX_FEATURE (← getD).features
  regWrite DYN_PL_LEN (← getD).dynPl

def setDynamicPayloads (enable : Bool) (pipe : Option Int) : DrvM Unit := do
  match pipe with
  | none => setDynamicPayloadsAttr (.b enable)
  | some p =>
    if 0 ≤ p ∧ p ≤ 5 then
      let v ← regRead DYN_PL_LEN
      modD fun d => { d with dynPl := andNot v (1 <<< p.toNat) }
      setDynamicPayloadsAttr (.i (((← getD).dynPl ||| (b2n enable <<< p.toNat) : Nat) : Int))
    else raise .indexError

def getDynamicPayloadsPipe (pipe : Int) : DrvM Bool := do
  if 0 ≤ pipe ∧ pipe ≤ 5 then
    let v ← getDynamicPayloads
    return v &&& (1 <<< pipe.toNat) ≠ 0
  raise .indexError

def getPayloadLengthAttr : DrvM Nat := do return (← getD).plLen.getD 0 0

def getArc : DrvM Nat := do
  let v ← regRead SETUP_RETR
  modD fun d => { d with retrySetup := v }
  return v &&& 0x0F

def clampArc (c : Int) : Nat := (max 0 (min c 15)).toNat
/-- `int((max(250, min(delay, 4000)) - 250) / 250)` (float division of exact small ints) -/
def ardCode (delta : Int) : Nat := ((max 250 (min delta 4000) - 250) / 250).toNat

def setArc (count : Int) : DrvM Unit := do
  modD fun d => { d with retrySetup := (d.retrySetup &&& 0xF0) ||| clampArc count }
  regWrite SETUP_RETR (← getD).retrySetup

def getArd : DrvM Nat := do
  let v ← regRead SETUP_RETR
  modD fun d => { d with retrySetup := v }
  return ((v &&& 0xF0) >>> 4) * 250 + 250

def setArd (delta : Int) : DrvM Unit := do
  modD fun d => { d with retrySetup := (d.retrySetup &&& 15) ||| (ardCode delta <<< 4) }
  regWrite SETUP_RETR (← getD).retrySetup

def setAutoRetries (delay count : Int) : DrvM Unit := do
  modD fun d => { d with retrySetup := (ardCode delay <<< 4) ||| clampArc count }
  regWrite SETUP_RETR (← getD).retrySetup

def getAutoRetries : DrvM (Nat × Nat) := do
  let a ← getArd
  return (a, (← getD).retrySetup &&& 0x0F)

def getAutoAck : DrvM Nat := do
  let v ← regRead AUTO_ACK
  modD fun d => { d with aa := v }
  return v

def setAutoAckAttr (a : Arg) : DrvM Unit := do
  match a with
  | .b v => modD fun d => { d with aa := if v then 0x3F else 0 }
  | .i v => modD fun d => { d with aa := (v % 64).toNat }
  | .l vs =>
    let cur ← regRead AUTO_ACK
    modD fun d => { d with aa := applyBitList cur vs }
  | .other => raise .valueError
  regWrite AUTO_ACK (← getD).aa

def setAutoAck (enable : Bool) (pipe : Option Int) : DrvM Unit := do
  match pipe with
  | none => setAutoAckAttr (.b enable)
  | some p =>
    if 0 ≤ p ∧ p ≤ 5 then
      let v ← regRead AUTO_ACK
      modD fun d => { d with aa := andNot v (1 <<< p.toNat) }
      setAutoAckAttr (.i (((← getD).aa ||| (b2n enable <<< p.toNat) : Nat) : Int))
    else raise .indexError

def getAutoAckPipe (pipe : Int) : DrvM Bool := do
  if 0 ≤ pipe ∧ pipe ≤ 5 then
    let v ← getAutoAck
    return v &&& (1 <<< pipe.toNat) ≠ 0
  raise .indexError

def ackEnabled (d : Rf24) : Bool := d.features &&& 6 = 6 && (d.aa &&& d.dynPl) &&& 1 ≠ 0

def getAck : DrvM Bool := do
  let a ← regRead AUTO_ACK
  let p ← regRead DYN_PL_LEN
  let f ← regRead TX_FEATURE
  modD fun d => { d with aa := a, dynPl := p, features := f }
  return ackEnabled (← getD)

def setAck (enable : Bool) : DrvM Unit := do
  if enable then
    setAutoAck true (some 0)
    modD fun d => { d with dynPl := d.dynPl &&& 0x3E ||| 1 }
    regWrite DYN_PL_LEN (← getD).dynPl
    modD fun d => { d with features := d.features ||| 4 }
  modD fun d => { d with features := d.features &&& 5 ||| (b2n enable <<< 1) }
  regWrite TX_FEATURE (← getD).features

def loadAck (buf : Bytes) (pipe : Int) : DrvM Bool := do
  if pipe < 0 ∨ pipe > 5 then raise .indexError
  if buf.isEmpty ∨ buf.length > 32 then raise .valueError
  if !ackEnabled (← getD) then setAck true
  if !(← txFull) then
    regWriteBytes (0xA8 ||| pipe.toNat) buf
    return true
  return false

def getAllowAskNoAck : DrvM Bool := do
  let f ← regRead TX_FEATURE
  modD fun d => { d with features := f }
  return f &&& 1 ≠ 0

def setAllowAskNoAck (enable : Bool) : DrvM Unit := do
  let f ← regRead TX_FEATURE
  modD fun d => { d with features := f &&& 6 ||| b2n enable }
  regWrite TX_FEATURE (← getD).features

def getDataRate : DrvM Nat := do
  let v ← regRead RF_PA_RATE
  modD fun d => { d with rfSetup := v }
  let r := v &&& 0x28
  return if r ≠ 0 then (if r = 8 then 2 else 250) else 1

def setDataRate (speed : Int) : DrvM Unit := do
  if speed ≠ 1 ∧ speed ≠ 2 ∧ speed ≠ 250 then raise .valueError
  let code := if speed = 1 then 0 else (if speed ≠ 2 then 0x20 else 8)
  let v ← regRead RF_PA_RATE
  modD fun d => { d with rfSetup := v &&& 0xD7 ||| code }
  regWrite RF_PA_RATE (← getD).rfSetup

def getChannel : DrvM Nat := regRead 5

def setChannel (ch : Int) : DrvM Unit := do
  if ¬ (0 ≤ ch ∧ ch ≤ 125) then raise .valueError
  modD fun d => { d with channel := ch.toNat }
  regWrite 5 ch

def getCrc : DrvM Nat := do
  let c ← regRead CONFIGURE
  let a ← regRead AUTO_ACK
  modD fun d => { d with config := c, aa := a }
  if a ≠ 0 then return if c &&& 4 ≠ 0 then 2 else 1
  return ((c &&& 0x0C) >>> 2) - 1   -- max(0, … − 1): truncated subtraction

def setCrc (length : Int) : DrvM Unit := do
  let l := (min 2 (max 0 length)).toNat
  let bits := if l ≠ 0 then (l + 1) <<< 2 else 0
  modD fun d => { d with config := d.config &&& 0x73 ||| bits }
  regWrite CONFIGURE (← getD).config

def getPaLevel : DrvM Int := do
  let v ← regRead RF_PA_RATE
  modD fun d => { d with rfSetup := v }
  return ((3 - ((v &&& 6) >>> 1) : Nat) : Int) * -6

/-- `pa_level = power` where power is an int, or `(int, lna)`; a list shorter than two entries
    is "not an int" and rejected -/
def setPaLevel (power : Arg) (lna : Option Bool := none) : DrvM Unit := do
  let (lnaBit, p) : Bool × Option Int := match power, lna with
    | .i v, some l => (l, some v)     -- tuple form `(v, l)`
    | .i v, none => (true, some v)
    | .b v, some l => (l, some (b2n v))  -- tuple form `(bool, l)`: `int(power[0])`
    | .b v, none => (true, some (b2n v)) -- a bool is an int: True = 1 is rejected below, False = 0 dBm
    | _, _ => (true, none)
  match p with
  | none => raise .valueError
  | some v =>
    if v ≠ -18 ∧ v ≠ -12 ∧ v ≠ -6 ∧ v ≠ 0 then raise .valueError
    let pwr := (3 - (v / -6).toNat) * 2
    modD fun d => { d with rfSetup := (d.rfSetup &&& 0xF8) ||| pwr ||| b2n lnaBit }
    regWrite RF_PA_RATE (← getD).rfSetup

def isLnaEnabled : DrvM Bool := do
  let v ← regRead RF_PA_RATE
  modD fun d => { d with rfSetup := v }
  return v &&& 1 ≠ 0

/-- static payload mode: `buf + b"\0" * (pl_len - len(buf))` or `buf[:pl_len]` -/
def staticPayload (buf : Bytes) (plLen : Nat) : Bytes :=
  if buf.length < plLen then buf ++ zeros (plLen - buf.length)
  else if buf.length > plLen then buf.take plLen else buf

/-- `write(buf, ask_no_ack, write_only)`; returns the result and the caller's buffer after the
    call (`buf += …` extends a `bytearray` in place) -/
def write (buf : Bytes) (mutableBuf : Bool) (askNoAck writeOnly : Bool := false) :
    DrvM (Bool × Bytes) := do
  let _ := mutableBuf   -- (since the fix `buf = buf + …` the caller's object is never touched)
  let d ← getD
  if d.dynPl &&& 1 ≠ 0 ∧ (buf.isEmpty ∨ buf.length > 32) then raise .valueError
  let b := if d.dynPl &&& 1 = 0 then staticPayload buf (d.plLen.getD 0 0) else buf
  clearStatusFlags
  if (← getD).status &&& 1 ≠ 0 then return (false, buf)
  regWriteBytes (0xA0 ||| (b2n askNoAck <<< 4)) b
  if !writeOnly then setCE true
  return (true, buf)

/-- result of `send` / `resend`: `False`, `True`, or the ACK payload (`read()` may also give `None`) -/
inductive SendRes where
  | bool (b : Bool)
  | payload (p : Option Bytes)
  deriving DecidableEq, Repr, Inhabited

/-- `while not self._in[0] & 0x30: self.update()` -/
def pollFlags : Nat → DrvM Unit
  | 0 => raise .diverge
  | f + 1 => do
    if (← getD).status &&& 0x30 = 0 then
      let _ ← update
      pollFlags f
    else pure ()

/-- polls needed at most: with jump semantics the first poll after the trigger waits for the end
    of the cycle, the second sees its flags -/
def POLL_FUEL : Nat := 8

def resend (sendOnly : Bool := false) : DrvM SendRes := do
  if (← fifo true (some true)) ≠ 0 then return .bool false
  setCE false
  if !sendOnly ∧ rxPipeField (← getD) < 6 then flushRx
  clearStatusFlags
  setCE true
  let _ ← update
  pollFlags POLL_FUEL
  let result := (← getD).status &&& 0x20 ≠ 0
  if result ∧ (← getD).status &&& 0x40 ≠ 0 ∧ !sendOnly then
    return .payload (← read)
  return .bool result

/-- `while force_retry and not result: result = self.resend(send_only); force_retry -= 1`
    (`force_retry` is an `int`: a negative value never reaches 0 — fuel-bounded) -/
def forceRetryLoop (sendOnly : Bool) : Nat → Int → SendRes → DrvM SendRes
  | 0, _, _ => raise .diverge
  | f + 1, n, res =>
    let falsy := match res with | .bool b => !b | .payload p => p.isNone || p == some []
    if (n != 0) && falsy then do
      let r ← resend sendOnly
      forceRetryLoop sendOnly f (n - 1) r
    else pure res

/-- `send(buf, ask_no_ack, force_retry, send_only)` for a single buffer -/
def send (buf : Bytes) (mutableBuf : Bool) (askNoAck : Bool := false) (forceRetry : Int := 0)
    (sendOnly : Bool := false) : DrvM (SendRes × Bytes) := do
  setCE false
  let st := (← getD).status
  if st &&& 0x10 ≠ 0 ∨ st &&& 1 ≠ 0 then flushTx
  if !sendOnly ∧ rxPipeField (← getD) < 6 then flushRx
  let (_, caller) ← write buf mutableBuf askNoAck
  pollFlags POLL_FUEL
  let result := (← getD).status &&& 0x20 ≠ 0
  let res ← forceRetryLoop sendOnly (forceRetry.natAbs + 1) forceRetry (.bool result)
  if res = .bool true ∧ (← getD).status &&& 0x60 = 0x60 ∧ !sendOnly then
    return (.payload (← read), caller)
  return (res, caller)

/-- `send([b1, b2, …], …)`: one result per payload, in order -/
def sendList (bufs : List (Bool × Bytes)) (askNoAck : Bool) (forceRetry : Int) (sendOnly : Bool) :
    DrvM (List (SendRes × Bytes)) := do
  setCE false
  bufs.mapM fun (m, b) => send b m askNoAck forceRetry sendOnly

def startCarrierWave : DrvM Unit := do
  setPower false
  setCE false
  setPower true
  setListen false
  modD fun d => { d with rfSetup := d.rfSetup ||| 0x90 }
  regWrite RF_PA_RATE (← getD).rfSetup
  if !(← getD).isPlus then
    regWrite AUTO_ACK 0
    regWrite SETUP_RETR 0
    regWriteBytes TX_ADDRESS (List.replicate 5 0xFF)
    regWriteBytes 0xA0 (List.replicate 32 0xFF)   -- 0x20 | 0xA0 = 0xA0
    regWrite CONFIGURE 0x73
    setCE true
    sleepNs 1000000
    setCE false
    clearStatusFlags
    regWrite 0x17 0x40
  setCE true

def stopCarrierWave : DrvM Unit := do
  setCE false
  setPower false
  modD fun d => { d with rfSetup := andNot d.rfSetup 0x90 }
  regWrite RF_PA_RATE (← getD).rfSetup

end Rf24
end Nrf
