/-
L1 — the nRF24L01(+) as seen over SPI and the CE pin (DESIGN.md §4.1, Appendix A).

This is *environment*: assumed behaviour of the chip, written from the product specification, not
code from /repo.  `harness/simradio.py` implements the same rules independently; both are compared
on every correspondence line.

Transmission itself (the air, L2) lives in `NrfModel/Air.lean`; this file is one chip.
-/
import NrfModel.Basic

namespace Nrf

/-- what a TX FIFO entry was written with -/
inductive TxKind where
  | payload            -- W_TX_PAYLOAD
  | payloadNoAck       -- W_TX_PAYLOAD_NOACK
  | ackFor (pipe : Nat) -- W_ACK_PAYLOAD
  deriving DecidableEq, Repr, Inhabited

structure TxEntry where
  kind : TxKind
  data : Bytes
  /-- packet id, assigned when first transmitted; a retransmission keeps it -/
  pid : Option Nat := none
  deriving DecidableEq, Repr, Inhabited

structure RxEntry where
  pipe : Nat
  data : Bytes
  deriving DecidableEq, Repr, Inhabited

/-- last accepted packet, for duplicate detection (stand-in for the PID+CRC rule) -/
structure LastRx where
  pid : Nat
  addr : Bytes
  data : Bytes
  deriving DecidableEq, Repr, Inhabited

structure Radio where
  /-- nRF24L01+ (true) or the older non-plus chip -/
  plus : Bool := true
  /-- non-plus: FEATURE/DYNPD accessible (toggled by ACTIVATE 0x73) -/
  activated : Bool := false
  config : Nat := 0x08
  enAA : Nat := 0x3F
  enRxAddr : Nat := 0x03
  setupAw : Nat := 0x03
  setupRetr : Nat := 0x03
  rfCh : Nat := 0x02
  rfSetup : Nat := 0x0E
  /-- latched RX_DR / TX_DS / MAX_RT (bits 6,5,4) -/
  flags : Nat := 0
  rxAddr0 : Bytes := [0xE7, 0xE7, 0xE7, 0xE7, 0xE7]
  rxAddr1 : Bytes := [0xC2, 0xC2, 0xC2, 0xC2, 0xC2]
  /-- low byte of RX_ADDR_P2..P5 -/
  rxAddrN : List Nat := [0xC3, 0xC4, 0xC5, 0xC6]
  txAddr : Bytes := [0xE7, 0xE7, 0xE7, 0xE7, 0xE7]
  rxPw : List Nat := [0, 0, 0, 0, 0, 0]
  dynpd : Nat := 0
  feature : Nat := 0
  txFifo : List TxEntry := []
  rxFifo : List RxEntry := []
  arcCnt : Nat := 0
  plosCnt : Nat := 0
  rpd : Bool := false
  ce : Bool := false
  /-- PID the next *new* payload gets (2 bits) -/
  nextPid : Nat := 0
  lastRx : Option LastRx := none
  /-- last ACK payload sent, re-sent with the ACK of a duplicate -/
  lastAck : Option Bytes := none
  /-- last byte clocked out by R_RX_PAYLOAD (what an empty-FIFO read returns) -/
  lastByte : Nat := 0
  /-- log of writes that set a reserved bit or an out-of-range value -/
  violations : List String := []
  deriving Repr, Inhabited

namespace Radio

def featureVisible (r : Radio) : Bool := r.plus || r.activated

/-- pipe of the RX FIFO head, 7 when empty -/
def rxPNo (r : Radio) : Nat :=
  match r.rxFifo with
  | [] => 7
  | e :: _ => e.pipe

def txFull (r : Radio) : Bool := r.txFifo.length ≥ 3

/-- the STATUS register as read -/
def status (r : Radio) : Nat :=
  (r.flags &&& 0x70) ||| (r.rxPNo <<< 1) ||| (if r.txFull then 1 else 0)

def fifoStatus (r : Radio) : Nat :=
  (if r.txFull then 0x20 else 0) ||| (if r.txFifo.isEmpty then 0x10 else 0)
  ||| (if r.rxFifo.length ≥ 3 then 0x02 else 0) ||| (if r.rxFifo.isEmpty then 0x01 else 0)

def observeTx (r : Radio) : Nat := ((min r.plosCnt 15) <<< 4) ||| (r.arcCnt &&& 0x0F)

/-- address width in bytes as the chip uses it (SETUP_AW = 0 is "illegal" in the data sheet and
    documented by the library as 2 bytes) -/
def aw (r : Radio) : Nat := (r.setupAw &&& 3) + 2

/-- full 5-byte RX address of a pipe -/
def rxAddr (r : Radio) (p : Nat) : Bytes :=
  if p = 0 then r.rxAddr0
  else if p = 1 then r.rxAddr1
  else (r.rxAddrN.getD (p - 2) 0) :: r.rxAddr1.drop 1

/-- effective CRC length in bytes: any EN_AA bit forces the CRC on -/
def crcLen (r : Radio) : Nat :=
  if r.enAA &&& 0x3F ≠ 0 then (if r.config &&& 4 ≠ 0 then 2 else 1)
  else if r.config &&& 8 ≠ 0 then (if r.config &&& 4 ≠ 0 then 2 else 1) else 0

/-- Enhanced ShockBurst packet format in use (any auto-ack bit set) -/
def esb (r : Radio) : Bool := r.enAA &&& 0x3F ≠ 0

/-- data rate code: 0 = 1 Mbps, 1 = 2 Mbps, 2 = 250 kbps (RF_DR_LOW wins) -/
def rate (r : Radio) : Nat :=
  if r.rfSetup &&& 0x20 ≠ 0 then 2 else if r.rfSetup &&& 0x08 ≠ 0 then 1 else 0

def pwrUp (r : Radio) : Bool := r.config &&& 2 ≠ 0
def primRx (r : Radio) : Bool := r.config &&& 1 ≠ 0
def rxMode (r : Radio) : Bool := r.pwrUp && r.primRx && r.ce
def txMode (r : Radio) : Bool := r.pwrUp && !r.primRx && r.ce

/-- dynamic payload length in effect on pipe `p` -/
def dplOn (r : Radio) (p : Nat) : Bool := (r.feature &&& 4 ≠ 0) && (r.dynpd &&& (1 <<< p) ≠ 0)

/-- IRQ pin asserted (active low on the chip; `true` = asserted) -/
def irqLine (r : Radio) : Bool := (r.flags &&& 0x70) &&& ((r.config &&& 0x70) ^^^ 0x70) ≠ 0

def logViolation (r : Radio) (s : String) : Radio := { r with violations := r.violations ++ [s] }

/-- write a 5-byte address register: a shorter write overwrites the low bytes only -/
def overlay (old new : Bytes) : Bytes := (new.take 5) ++ old.drop (min new.length 5)

/-- log entry for a write that sets a bit outside the register's write mask -/
def reservedLog (name : String) (mask v : Nat) : List String :=
  if v &&& mask = v then [] else [s!"{name}:reserved:{v}"]

/-- log entry for a value outside the register's documented range -/
def rangeLog (name : String) (bad : Bool) (v : Nat) : List String :=
  if bad then [s!"{name}:range:{v}"] else []

/-- W_REGISTER `reg` with data bytes `d` (non-empty): reserved bits are dropped and logged -/
def writeReg (r : Radio) (reg : Nat) (d : Bytes) : Radio :=
  let v := d.headD 0
  match reg with
  | 0x00 =>
    -- the role (PRIM_RX) must only be changed with CE low; logged apart ("CE:" prefix)
    { r with config := v &&& 0x7F,
             violations := r.violations ++ reservedLog "CONFIG" 0x7F v ++
               (if r.ce ∧ (v &&& 0x7F &&& 1) ≠ (r.config &&& 1) then ["CE:role-change-with-CE-high"] else []) }
  | 0x01 => { r with enAA := v &&& 0x3F, violations := r.violations ++ reservedLog "EN_AA" 0x3F v }
  | 0x02 => { r with enRxAddr := v &&& 0x3F, violations := r.violations ++ reservedLog "EN_RXADDR" 0x3F v }
  | 0x03 =>
    { r with setupAw := v &&& 0x03,
             violations := r.violations ++ reservedLog "SETUP_AW" 0x03 v ++
               (if v &&& 0x03 = 0 then ["SETUP_AW:illegal:0"] else []) }
  | 0x04 => { r with setupRetr := v &&& 0xFF }
  | 0x05 =>
    { r with rfCh := v &&& 0x7F, plosCnt := 0,
             violations := r.violations ++ reservedLog "RF_CH" 0x7F v ++ rangeLog "RF_CH" (decide (v &&& 0x7F > 125)) (v &&& 0x7F) }
  | 0x06 => { r with rfSetup := v &&& 0xBF, violations := r.violations ++ reservedLog "RF_SETUP" 0xBF v }
  | 0x07 =>
    -- write-one-to-clear on bits 4..6; other bits are read-only and ignored
    { r with flags := r.flags &&& (0x70 ^^^ (v &&& 0x70)) }
  | 0x0A => { r with rxAddr0 := overlay r.rxAddr0 d }
  | 0x0B => { r with rxAddr1 := overlay r.rxAddr1 d }
  | 0x0C => { r with rxAddrN := r.rxAddrN.set 0 v }
  | 0x0D => { r with rxAddrN := r.rxAddrN.set 1 v }
  | 0x0E => { r with rxAddrN := r.rxAddrN.set 2 v }
  | 0x0F => { r with rxAddrN := r.rxAddrN.set 3 v }
  | 0x10 => { r with txAddr := overlay r.txAddr d }
  | 0x1C =>
    { r with dynpd := if r.featureVisible then v &&& 0x3F else r.dynpd,
             violations := r.violations ++ (if r.featureVisible then reservedLog "DYNPD" 0x3F v else []) }
  | 0x1D =>
    { r with feature := if r.featureVisible then v &&& 0x07 else r.feature,
             violations := r.violations ++ (if r.featureVisible then reservedLog "FEATURE" 0x07 v else []) }
  | _ =>
    if 0x11 ≤ reg ∧ reg ≤ 0x16 then
      { r with rxPw := r.rxPw.set (reg - 0x11) (v &&& 0x3F),
               violations := r.violations ++ reservedLog s!"RX_PW_P{reg - 0x11}" 0x3F v ++
                 rangeLog s!"RX_PW_P{reg - 0x11}" (decide (v &&& 0x3F > 32)) (v &&& 0x3F) }
    else r  -- read-only (0x08, 0x09, 0x17) or unmapped: ignored

/-- R_REGISTER: the bytes of register `reg` -/
def readReg (r : Radio) (reg : Nat) : Bytes :=
  match reg with
  | 0x00 => [r.config] | 0x01 => [r.enAA] | 0x02 => [r.enRxAddr] | 0x03 => [r.setupAw]
  | 0x04 => [r.setupRetr] | 0x05 => [r.rfCh] | 0x06 => [r.rfSetup] | 0x07 => [r.status]
  | 0x08 => [r.observeTx] | 0x09 => [if r.rpd then 1 else 0]
  | 0x0A => r.rxAddr0 | 0x0B => r.rxAddr1
  | 0x0C => [r.rxAddrN.getD 0 0] | 0x0D => [r.rxAddrN.getD 1 0]
  | 0x0E => [r.rxAddrN.getD 2 0] | 0x0F => [r.rxAddrN.getD 3 0]
  | 0x10 => r.txAddr
  | 0x17 => [r.fifoStatus]
  | 0x1C => [if r.featureVisible then r.dynpd else 0]
  | 0x1D => [if r.featureVisible then r.feature else 0]
  | _ => if 0x11 ≤ reg ∧ reg ≤ 0x16 then [r.rxPw.getD (reg - 0x11) 0] else [0]

/-- `n` bytes clocked out of a source of bytes: the source, then zeros -/
def clockOut (src : Bytes) (n : Nat) : Bytes := (src ++ zeros n).take n

/-- R_RX_PAYLOAD with `n` data bytes -/
def readPayload (r : Radio) (n : Nat) : Radio × Bytes :=
  match r.rxFifo with
  | [] => (r, List.replicate n r.lastByte)
  | e :: rest =>
    let last := e.data.getLastD r.lastByte
    let out := (e.data ++ List.replicate n last).take n
    ({ r with rxFifo := rest, lastByte := if n = 0 then r.lastByte else out.getLastD last }, out)

/-- W_TX_PAYLOAD / W_TX_PAYLOAD_NOACK / W_ACK_PAYLOAD -/
def writePayload (r : Radio) (kind : TxKind) (d : Bytes) : Radio :=
  if r.txFull ∨ d.isEmpty then r
  else { r with txFifo := r.txFifo ++ [{ kind := kind, data := d.take 32 }] }

/-- the SPI command set -/
inductive Cmd where
  | rRegister (reg : Nat) | wRegister (reg : Nat) | activate | rRxPlWid | rRxPayload
  | wTxPayload | wTxPayloadNoAck | wAckPayload (pipe : Nat) | flushTx | flushRx
  | nop   -- NOP, REUSE_TX_PL and unknown command bytes
  deriving DecidableEq, Repr

def decodeCmd (c : Nat) : Cmd :=
  if c < 0x20 then .rRegister c
  else if c < 0x40 then .wRegister (c - 0x20)
  else if c = 0x50 then .activate
  else if c = 0x60 then .rRxPlWid
  else if c = 0x61 then .rRxPayload
  else if c = 0xA0 then .wTxPayload
  else if c = 0xB0 then .wTxPayloadNoAck
  else if 0xA8 ≤ c ∧ c ≤ 0xAD then .wAckPayload (c - 0xA8)
  else if c = 0xE1 then .flushTx
  else if c = 0xE2 then .flushRx
  else .nop

/-- effect of a command with data bytes `d` on the chip, and the data bytes clocked out -/
def runCmd (r : Radio) (c : Cmd) (d : Bytes) : Radio × Bytes :=
  let n := d.length
  match c with
  | .rRegister reg => (r, clockOut (r.readReg reg) n)
  | .wRegister reg => (if n = 0 then r else r.writeReg reg d, zeros n)
  | .activate => ({ r with activated := if !r.plus ∧ d.headD 0 = 0x73 then !r.activated else r.activated }, zeros n)
  | .rRxPlWid => (r, clockOut [match r.rxFifo with | [] => 0 | e :: _ => e.data.length] n)
  | .rRxPayload => r.readPayload n
  | .wTxPayload => (r.writePayload .payload d, zeros n)
  | .wTxPayloadNoAck => (r.writePayload .payloadNoAck d, zeros n)
  | .wAckPayload p => (r.writePayload (.ackFor p) d, zeros n)
  | .flushTx => ({ r with txFifo := [] }, zeros n)
  | .flushRx => ({ r with rxFifo := [] }, zeros n)
  | .nop => (r, zeros n)

/-- one SPI transaction (CSN low … CSN high): MOSI bytes in, MISO bytes out (same length).
    The first MISO byte is STATUS **as it was before the command took effect**. -/
def xfer (r : Radio) (out : Bytes) : Radio × Bytes :=
  match out with
  | [] => (r, [])
  | cmd :: d =>
    let res := r.runCmd (decodeCmd cmd) d
    (res.1, r.status :: res.2)

end Radio
end Nrf
