/-
L1 — the nRF24L01(+) as seen over SPI and the CE pin (DESIGN.md §4.1, Appendix A).

This is *environment*: assumed behaviour of the chip, written from the product specification, not
code from /repo.  `harness/simradio.py` implements the same rules independently; both are compared
on every correspondence line.

Transmission itself (the air, L2) lives in `NrfModel/Air.lean`; this file is one chip.
-/
import NrfModel.Basic

namespace Nrf

/-- what a TX FIFO entry was written with -/
inductive TxKind where
  | payload            -- W_TX_PAYLOAD
  | payloadNoAck       -- W_TX_PAYLOAD_NOACK
  | ackFor (pipe : Nat) -- W_ACK_PAYLOAD
  deriving DecidableEq, Repr, Inhabited

structure TxEntry where
  kind : TxKind
  data : Bytes
  /-- packet id, assigned when first transmitted; a retransmission keeps it -/
  pid : Option Nat := none
  deriving DecidableEq, Repr, Inhabited

structure RxEntry where
  pipe : Nat
  data : Bytes
  deriving DecidableEq, Repr, Inhabited

/-- last accepted packet, for duplicate detection (stand-in for the PID+CRC rule) -/
structure LastRx where
  pid : Nat
  addr : Bytes
  data : Bytes
  deriving DecidableEq, Repr, Inhabited

structure Radio where
  /-- nRF24L01+ (true) or the older non-plus chip -/
  plus : Bool := true
  /-- non-plus: FEATURE/DYNPD accessible (toggled by ACTIVATE 0x73) -/
  activated : Bool := false
  config : Nat := 0x08
  enAA : Nat := 0x3F
  enRxAddr : Nat := 0x03
  setupAw : Nat := 0x03
  setupRetr : Nat := 0x03
  rfCh : Nat := 0x02
  rfSetup : Nat := 0x0E
  /-- latched RX_DR / TX_DS / MAX_RT (bits 6,5,4) -/
  flags : Nat := 0
  rxAddr0 : Bytes := [0xE7, 0xE7, 0xE7, 0xE7, 0xE7]
  rxAddr1 : Bytes := [0xC2, 0xC2, 0xC2, 0xC2, 0xC2]
  /-- low byte of RX_ADDR_P2..P5 -/
  rxAddrN : List Nat := [0xC3, 0xC4, 0xC5, 0xC6]
  txAddr : Bytes := [0xE7, 0xE7, 0xE7, 0xE7, 0xE7]
  rxPw : List Nat := [0, 0, 0, 0, 0, 0]
  dynpd : Nat := 0
  feature : Nat := 0
  txFifo : List TxEntry := []
  rxFifo : List RxEntry := []
  arcCnt : Nat := 0
  plosCnt : Nat := 0
  rpd : Bool := false
  ce : Bool := false
  /-- PID the next *new* payload gets (2 bits) -/
  nextPid : Nat := 0
  lastRx : Option LastRx := none
  /-- last ACK payload sent, re-sent with the ACK of a duplicate -/
  lastAck : Option Bytes := none
  /-- last byte clocked out by R_RX_PAYLOAD (what an empty-FIFO read returns) -/
  lastByte : Nat := 0
  /-- log of writes that set a reserved bit or an out-of-range value -/
  violations : List String := []
  deriving Repr, Inhabited

namespace Radio

def featureVisible (r : Radio) : Bool := r.plus || r.activated

/-- pipe of the RX FIFO head, 7 when empty -/
def rxPNo (r : Radio) : Nat :=
  match r.rxFifo with
  | [] => 7
  | e :: _ => e.pipe

def txFull (r : Radio) : Bool := r.txFifo.length ≥ 3

/-- the STATUS register as read -/
def status (r : Radio) : Nat :=
  (r.flags &&& 0x70) ||| (r.rxPNo <<< 1) ||| (if r.txFull then 1 else 0)

def fifoStatus (r : Radio) : Nat :=
  (if r.txFull then 0x20 else 0) ||| (if r.txFifo.isEmpty then 0x10 else 0)
  ||| (if r.rxFifo.length ≥ 3 then 0x02 else 0) ||| (if r.rxFifo.isEmpty then 0x01 else 0)

def observeTx (r : Radio) : Nat := ((min r.plosCnt 15) <<< 4) ||| (r.arcCnt &&& 0x0F)

/-- address width in bytes as the chip uses it (SETUP_AW = 0 is "illegal" in the data sheet and
    documented by the library as 2 bytes) -/
def aw (r : Radio) : Nat := (r.setupAw &&& 3) + 2

/-- full 5-byte RX address of a pipe -/
def rxAddr (r : Radio) (p : Nat) : Bytes :=
  if p = 0 then r.rxAddr0
  else if p = 1 then r.rxAddr1
  else (r.rxAddrN.getD (p - 2) 0) :: r.rxAddr1.drop 1

/-- effective CRC length in bytes: any EN_AA bit forces the CRC on -/
def crcLen (r : Radio) : Nat :=
  if r.enAA &&& 0x3F ≠ 0 then (if r.config &&& 4 ≠ 0 then 2 else 1)
  else if r.config &&& 8 ≠ 0 then (if r.config &&& 4 ≠ 0 then 2 else 1) else 0

/-- Enhanced ShockBurst packet format in use (any auto-ack bit set) -/
def esb (r : Radio) : Bool := r.enAA &&& 0x3F ≠ 0

/-- data rate code: 0 = 1 Mbps, 1 = 2 Mbps, 2 = 250 kbps (RF_DR_LOW wins) -/
def rate (r : Radio) : Nat :=
  if r.rfSetup &&& 0x20 ≠ 0 then 2 else if r.rfSetup &&& 0x08 ≠ 0 then 1 else 0

def pwrUp (r : Radio) : Bool := r.config &&& 2 ≠ 0
def primRx (r : Radio) : Bool := r.config &&& 1 ≠ 0
def rxMode (r : Radio) : Bool := r.pwrUp && r.primRx && r.ce
def txMode (r : Radio) : Bool := r.pwrUp && !r.primRx && r.ce

/-- dynamic payload length in effect on pipe `p` -/
def dplOn (r : Radio) (p : Nat) : Bool := (r.feature &&& 4 ≠ 0) && (r.dynpd &&& (1 <<< p) ≠ 0)

/-- IRQ pin asserted (active low on the chip; `true` = asserted) -/
def irqLine (r : Radio) : Bool := (r.flags &&& 0x70) &&& ((r.config &&& 0x70) ^^^ 0x70) ≠ 0

def logViolation (r : Radio) (s : String) : Radio := { r with violations := r.violations ++ [s] }

/-- write a 5-byte address register: a shorter write overwrites the low bytes only -/
def overlay (old new : Bytes) : Bytes := (new.take 5) ++ old.drop (min new.length 5)

/-- write one byte-register with its write mask; reserved bits are dropped and logged -/
def maskWrite (r : Radio) (name : String) (mask v : Nat) : Radio × Nat :=
  if v &&& mask = v then (r, v) else (r.logViolation s!"{name}:reserved:{v}", v &&& mask)

/-- W_REGISTER `reg` with data bytes `d` (non-empty) -/
def writeReg (r : Radio) (reg : Nat) (d : Bytes) : Radio :=
  let v := d.headD 0
  match reg with
  | 0x00 =>
    let (r, v) := r.maskWrite "CONFIG" 0x7F v
    -- the role (PRIM_RX) must only be changed with CE low; logged apart ("CE:" prefix)
    let r := if r.ce ∧ (v &&& 1) ≠ (r.config &&& 1) then r.logViolation "CE:role-change-with-CE-high" else r
    { r with config := v }
  | 0x01 => let (r, v) := r.maskWrite "EN_AA" 0x3F v; { r with enAA := v }
  | 0x02 => let (r, v) := r.maskWrite "EN_RXADDR" 0x3F v; { r with enRxAddr := v }
  | 0x03 =>
    let (r, v) := r.maskWrite "SETUP_AW" 0x03 v
    let r := if v = 0 then r.logViolation "SETUP_AW:illegal:0" else r
    { r with setupAw := v }
  | 0x04 => { r with setupRetr := v &&& 0xFF }
  | 0x05 =>
    let (r, v) := r.maskWrite "RF_CH" 0x7F v
    let r := if v > 125 then r.logViolation s!"RF_CH:range:{v}" else r
    { r with rfCh := v, plosCnt := 0 }
  | 0x06 => let (r, v) := r.maskWrite "RF_SETUP" 0xBF v; { r with rfSetup := v }
  | 0x07 =>
    -- write-one-to-clear on bits 4..6; other bits are read-only and ignored
    { r with flags := r.flags &&& (0x70 ^^^ (v &&& 0x70)) }
  | 0x0A => { r with rxAddr0 := overlay r.rxAddr0 d }
  | 0x0B => { r with rxAddr1 := overlay r.rxAddr1 d }
  | 0x0C => { r with rxAddrN := r.rxAddrN.set 0 v }
  | 0x0D => { r with rxAddrN := r.rxAddrN.set 1 v }
  | 0x0E => { r with rxAddrN := r.rxAddrN.set 2 v }
  | 0x0F => { r with rxAddrN := r.rxAddrN.set 3 v }
  | 0x10 => { r with txAddr := overlay r.txAddr d }
  | 0x1C =>
    if r.featureVisible then
      let (r, v) := r.maskWrite "DYNPD" 0x3F v; { r with dynpd := v }
    else r
  | 0x1D =>
    if r.featureVisible then
      let (r, v) := r.maskWrite "FEATURE" 0x07 v; { r with feature := v }
    else r
  | _ =>
    if 0x11 ≤ reg ∧ reg ≤ 0x16 then
      let (r, v) := r.maskWrite s!"RX_PW_P{reg - 0x11}" 0x3F v
      let r := if v > 32 then r.logViolation s!"RX_PW_P{reg - 0x11}:range:{v}" else r
      { r with rxPw := r.rxPw.set (reg - 0x11) v }
    else r  -- read-only (0x08, 0x09, 0x17) or unmapped: ignored

/-- R_REGISTER: the bytes of register `reg` -/
def readReg (r : Radio) (reg : Nat) : Bytes :=
  match reg with
  | 0x00 => [r.config] | 0x01 => [r.enAA] | 0x02 => [r.enRxAddr] | 0x03 => [r.setupAw]
  | 0x04 => [r.setupRetr] | 0x05 => [r.rfCh] | 0x06 => [r.rfSetup] | 0x07 => [r.status]
  | 0x08 => [r.observeTx] | 0x09 => [if r.rpd then 1 else 0]
  | 0x0A => r.rxAddr0 | 0x0B => r.rxAddr1
  | 0x0C => [r.rxAddrN.getD 0 0] | 0x0D => [r.rxAddrN.getD 1 0]
  | 0x0E => [r.rxAddrN.getD 2 0] | 0x0F => [r.rxAddrN.getD 3 0]
  | 0x10 => r.txAddr
  | 0x17 => [r.fifoStatus]
  | 0x1C => [if r.featureVisible then r.dynpd else 0]
  | 0x1D => [if r.featureVisible then r.feature else 0]
  | _ => if 0x11 ≤ reg ∧ reg ≤ 0x16 then [r.rxPw.getD (reg - 0x11) 0] else [0]

/-- `n` bytes clocked out of a source of bytes: the source, then zeros -/
def clockOut (src : Bytes) (n : Nat) : Bytes := (src ++ zeros n).take n

/-- R_RX_PAYLOAD with `n` data bytes -/
def readPayload (r : Radio) (n : Nat) : Radio × Bytes :=
  match r.rxFifo with
  | [] => (r, List.replicate n r.lastByte)
  | e :: rest =>
    let last := e.data.getLastD r.lastByte
    let out := (e.data ++ List.replicate n last).take n
    ({ r with rxFifo := rest, lastByte := if n = 0 then r.lastByte else out.getLastD last }, out)

/-- W_TX_PAYLOAD / W_TX_PAYLOAD_NOACK / W_ACK_PAYLOAD -/
def writePayload (r : Radio) (kind : TxKind) (d : Bytes) : Radio :=
  if r.txFull ∨ d.isEmpty then r
  else { r with txFifo := r.txFifo ++ [{ kind := kind, data := d.take 32 }] }

/-- one SPI transaction (CSN low … CSN high): MOSI bytes in, MISO bytes out (same length).
    The first MISO byte is STATUS **as it was before the command took effect**. -/
def xfer (r : Radio) (out : Bytes) : Radio × Bytes :=
  match out with
  | [] => (r, [])
  | cmd :: d =>
    let st := r.status
    let n := d.length
    if cmd < 0x20 then (r, st :: clockOut (r.readReg cmd) n)                     -- R_REGISTER
    else if cmd < 0x40 then
      (if n = 0 then r else r.writeReg (cmd - 0x20) d, st :: zeros n)            -- W_REGISTER
    else if cmd = 0x50 then                                                      -- ACTIVATE
      (if !r.plus ∧ d.headD 0 = 0x73 then { r with activated := !r.activated } else r, st :: zeros n)
    else if cmd = 0x60 then                                                      -- R_RX_PL_WID
      (r, st :: clockOut [match r.rxFifo with | [] => 0 | e :: _ => e.data.length] n)
    else if cmd = 0x61 then let (r', o) := r.readPayload n; (r', st :: o)        -- R_RX_PAYLOAD
    else if cmd = 0xA0 then (r.writePayload .payload d, st :: zeros n)
    else if cmd = 0xB0 then (r.writePayload .payloadNoAck d, st :: zeros n)
    else if 0xA8 ≤ cmd ∧ cmd ≤ 0xAD then (r.writePayload (.ackFor (cmd - 0xA8)) d, st :: zeros n)
    else if cmd = 0xE1 then ({ r with txFifo := [] }, st :: zeros n)             -- FLUSH_TX
    else if cmd = 0xE2 then ({ r with rxFifo := [] }, st :: zeros n)             -- FLUSH_RX
    else (r, st :: zeros n)                                                      -- NOP, REUSE_TX_PL, unknown

end Radio
end Nrf
