/-
L2 — the air between radios, the Enhanced ShockBurst cycle, fault patterns and virtual time
(DESIGN.md §4.2, §4.3, Appendix A rules 7–13).  Environment, not code from /repo.

Time: virtual nanoseconds.  A transmit cycle is resolved at the moment it is triggered (all its
effects on sender and receivers are applied at once) and the sender is *busy* until the cycle's end
time; the next SPI transaction or CE edge on that radio first advances the clock to that time
("jump" semantics: a polling loop and a blocking wait are the same thing in virtual time).
-/
import NrfModel.Radio

namespace Nrf

/-- what happens to one transmission attempt on the air -/
inductive Outcome where
  | delivered    -- packet and (if any) its acknowledgement get through
  | packetLost   -- the packet reaches nobody
  | ackLost      -- the packet is received, its acknowledgement is lost
  deriving DecidableEq, Repr, Inhabited

structure Packet where
  ch : Nat
  rate : Nat
  crc : Nat
  esb : Bool
  dpl : Bool
  addr : Bytes
  pid : Nat
  noAck : Bool
  data : Bytes
  deriving DecidableEq, Repr, Inhabited

/-- one completed transmit cycle, for the air log -/
structure AirRec where
  sender : Nat
  pkt : Packet
  attempts : Nat
  /-- the sender saw TX_DS -/
  ok : Bool
  deriving DecidableEq, Repr, Inhabited

structure World where
  radios : List Radio
  clock : Nat := 0
  busyUntil : List Nat
  faults : List Outcome := []
  air : List AirRec := []
  /-- number of SPI transactions so far (watchdog / evidence only) -/
  spiCount : Nat := 0
  deriving Repr, Inhabited

def SPI_COST_NS : Nat := 10000
def T_TX_NS : Nat := 300000
def T_ACK_NS : Nat := 200000

namespace Radio

def bit (x i : Nat) : Bool := x &&& (1 <<< i) ≠ 0

/-- lowest enabled pipe whose address matches on the radio's own address width -/
def matchPipe (r : Radio) (addr : Bytes) : Option Nat :=
  [0, 1, 2, 3, 4, 5].find? fun p => bit r.enRxAddr p && (r.rxAddr p).take r.aw == addr

/-- does `r` take this packet, and on which pipe (all conditions except FIFO room) -/
def listensTo (r : Radio) (k : Packet) : Option Nat :=
  if r.rxMode && r.rfCh == k.ch && r.rate == k.rate && r.esb == k.esb && r.crcLen == k.crc
      && r.aw == k.addr.length then
    match r.matchPipe k.addr with
    | none => none
    | some p =>
      let dpl := r.esb && r.dplOn p
      if dpl == k.dpl && (if k.dpl then true else k.data.length == r.rxPw.getD p 0 && k.data.length ≠ 0)
      then some p else none
  else none

/-- remove the oldest pending ACK payload for pipe `p` -/
def takeAck (fifo : List TxEntry) (p : Nat) : Option (Bytes × List TxEntry) :=
  match fifo with
  | [] => none
  | e :: rest =>
    if e.kind = .ackFor p then some (e.data, rest)
    else match takeAck rest p with
      | none => none
      | some (d, rest') => some (d, e :: rest')

/-- Reception of packet `k`.  Returns the radio afterwards and, if it acknowledges, the ACK
    payload riding on the acknowledgement (`some none` = plain ACK). -/
def receive (r : Radio) (k : Packet) : Radio × Option (Option Bytes) :=
  match r.listensTo k with
  | none => (r, none)
  | some p =>
    let dup := k.esb && r.lastRx == some { pid := k.pid, addr := k.addr, data := k.data }
    if !dup && r.rxFifo.length ≥ 3 then (r, none)   -- no room: ignored, not acknowledged
    else
      let acks := k.esb && bit r.enAA p && !k.noAck
      let ackPay := acks && (r.feature &&& 2 ≠ 0) && r.dplOn p
      if dup then (r, if acks then some (if ackPay then r.lastAck else none) else none)
      else
        let r := { r with rxFifo := r.rxFifo ++ [{ pipe := p, data := k.data }],
                          flags := r.flags ||| 0x40, rpd := true,
                          lastRx := if k.esb then some { pid := k.pid, addr := k.addr, data := k.data } else r.lastRx }
        if !acks then (r, none)
        else if !ackPay then ({ r with lastAck := none }, some none)
        else match takeAck r.txFifo p with
          | none => ({ r with lastAck := none }, some none)
          | some (d, rest) => ({ r with txFifo := rest, lastAck := some d }, some (some d))

end Radio

namespace World

def radio (w : World) (i : Nat) : Radio := w.radios.getD i default

def setRadio (w : World) (i : Nat) (r : Radio) : World := { w with radios := w.radios.set i r }

/-- what each radio does with packet `k` sent by radio `s` -/
def deliverEach (w : World) (s : Nat) (k : Packet) : List (Radio × Option (Option Bytes)) :=
  w.radios.zipIdx.map fun (r, i) => if i = s then (r, none) else r.receive k

/-- deliver packet `k` (sent by radio `s`) to every other radio; returns the first
    acknowledgement, if any -/
def deliver (w : World) (s : Nat) (k : Packet) : World × Option (Option Bytes) :=
  let res := w.deliverEach s k
  ({ w with radios := res.map (·.1) }, (res.filterMap (·.2)).head?)

def nextFault (w : World) : World × Outcome :=
  match w.faults with
  | [] => (w, .delivered)
  | o :: rest => ({ w with faults := rest }, o)

/-- auto-retransmit delay in ns -/
def ardNs (r : Radio) : Nat := (250 * ((r.setupRetr >>> 4) + 1)) * 1000

/-- the attempts of one acknowledged cycle; returns `(world, attempts made, ack)` -/
def attemptLoop (s : Nat) (k : Packet) : Nat → Nat → World → World × Nat × Option (Option Bytes)
  | 0, made, w => (w, made, none)
  | left + 1, made, w =>
    let (w, o) := w.nextFault
    match o with
    | .packetLost => attemptLoop s k left (made + 1) w
    | .ackLost => let (w, _) := w.deliver s k; attemptLoop s k left (made + 1) w
    | .delivered =>
      let (w, ack) := w.deliver s k
      let r := w.radio s
      let canHear := Radio.bit r.enRxAddr 0 && r.rxAddr0.take r.aw == r.txAddr.take r.aw
      match ack with
      | some a => if canHear then (w, made + 1, some a) else attemptLoop s k left (made + 1) w
      | none => attemptLoop s k left (made + 1) w

/-- apply `f` to radio `s` -/
def updRadio (w : World) (s : Nat) (f : Radio → Radio) : World := w.setRadio s (f (w.radio s))

/-- record the end time of radio `s`'s cycle and log it -/
def stamp (w : World) (s : Nat) (t : Nat) (a : AirRec) : World :=
  { w with busyUntil := w.busyUntil.set s t, air := w.air ++ [a] }

end World

namespace Radio

/-- PID of entry `e` when sent now -/
def pidFor (r : Radio) (e : TxEntry) : Nat := e.pid.getD r.nextPid

/-- a new payload consumes a PID -/
def takePid (r : Radio) (e : TxEntry) : Radio :=
  { r with nextPid := if e.pid.isNone then (r.nextPid + 1) % 4 else r.nextPid }

def noAckFor (r : Radio) (e : TxEntry) : Bool := e.kind = .payloadNoAck && (r.feature &&& 1 ≠ 0)

/-- the packet radio `r` puts on the air for entry `e` -/
def packetFor (r : Radio) (e : TxEntry) : Packet :=
  { ch := r.rfCh, rate := r.rate, crc := r.crcLen, esb := r.esb, dpl := r.esb && r.dplOn 0,
    addr := r.txAddr.take r.aw, pid := r.pidFor e, noAck := r.noAckFor e, data := e.data }

/-- does the transmitter wait for an acknowledgement -/
def awaitsAck (r : Radio) (e : TxEntry) : Bool := r.esb && bit r.enAA 0 && !r.noAckFor e

/-- transmitter after a packet that needs no acknowledgement -/
def txDoneNoAck (r : Radio) (rest : List TxEntry) : Radio :=
  { r with txFifo := rest, flags := r.flags ||| 0x20, arcCnt := 0 }

/-- transmitter after an acknowledged packet (`made` attempts, ACK payload `a`) -/
def txDoneAcked (r : Radio) (rest : List TxEntry) (made : Nat) (a : Option Bytes) : Radio :=
  let gets := match a with
    | some _ => (r.feature &&& 2 ≠ 0) && r.dplOn 0 && r.rxFifo.length < 3
    | none => false
  { r with txFifo := rest, arcCnt := made - 1,
           flags := r.flags ||| 0x20 ||| (if gets then 0x40 else 0),
           rxFifo := if gets then r.rxFifo ++ [{ pipe := 0, data := a.getD [] }] else r.rxFifo }

/-- transmitter after all attempts failed: MAX_RT, the payload stays (keeping its PID) -/
def txFailed (r : Radio) (e : TxEntry) (pid : Nat) (rest : List TxEntry) : Radio :=
  { r with txFifo := { e with pid := some pid } :: rest, flags := r.flags ||| 0x10,
           arcCnt := r.setupRetr &&& 0x0F, plosCnt := min 15 (r.plosCnt + 1) }

end Radio

namespace World

/-- one transmit cycle of radio `s` for the head `e` of its TX FIFO (`rest` = the other entries;
    precondition checked by the caller) -/
def cycle (w : World) (s : Nat) (e : TxEntry) (rest : List TxEntry) : World :=
  let r0 := w.radio s
  let k := r0.packetFor e
  let pid := r0.pidFor e
  let start := max w.clock (w.busyUntil.getD s 0)
  let w := w.updRadio s (·.takePid e)
  if !r0.awaitsAck e then
    let (w, o) := w.nextFault
    let w := if o = .packetLost then w else (w.deliver s k).1
    (w.updRadio s (·.txDoneNoAck rest)).stamp s (start + T_TX_NS)
      { sender := s, pkt := k, attempts := 1, ok := true }
  else
    let arc := r0.setupRetr &&& 0x0F
    let res := attemptLoop s k (arc + 1) 0 w
    let w := res.1
    let made := res.2.1
    match res.2.2 with
    | some a =>
      (w.updRadio s (·.txDoneAcked rest made a)).stamp s
        (start + (made - 1) * (T_TX_NS + ardNs r0) + T_TX_NS + T_ACK_NS)
        { sender := s, pkt := k, attempts := made, ok := true }
    | none =>
      (w.updRadio s (·.txFailed e pid rest)).stamp s (start + made * (T_TX_NS + ardNs r0))
        { sender := s, pkt := k, attempts := made, ok := false }

/-- run transmit cycles of radio `s` while it is in TX mode with data and MAX_RT is not latched
    (at most one per FIFO level, hence the fuel 4) -/
def tryTransmit (s : Nat) : Nat → World → World
  | 0, w => w
  | f + 1, w =>
    let r := w.radio s
    if r.txMode && (r.flags &&& 0x10 = 0) then
      match r.txFifo with
      | [] => w
      | e :: rest =>
        match e.kind with
        | .ackFor _ => w   -- an ACK payload at the head is not sent in PTX mode (†)
        | _ => tryTransmit s f (w.cycle s e rest)
    else w

/-- wait until radio `s` has finished what it is doing -/
def jump (w : World) (s : Nat) : World := { w with clock := max w.clock (w.busyUntil.getD s 0) }

/-- one SPI transaction on radio `s` -/
def spi (w : World) (s : Nat) (out : Bytes) : World × Bytes :=
  let w := w.jump s
  let (r, inb) := (w.radio s).xfer out
  let w := { (w.setRadio s r) with clock := w.clock + SPI_COST_NS, spiCount := w.spiCount + 1 }
  (tryTransmit s 4 w, inb)

/-- drive the CE pin of radio `s` -/
def setCE (w : World) (s : Nat) (v : Bool) : World :=
  let w := w.jump s
  let w := w.setRadio s { (w.radio s) with ce := v }
  tryTransmit s 4 w

/-- `time.sleep(ns)` -/
def sleep (w : World) (ns : Nat) : World := { w with clock := w.clock + ns }

/-- the environment puts a payload into radio `s`'s RX FIFO (an arrival of the open system);
    lost when the radio is not listening, the pipe is closed, the length rule of the pipe is not
    met, or there is no room -/
def inject (w : World) (s : Nat) (pipe : Nat) (d : Bytes) : World :=
  let r := w.radio s
  let lenOk := if r.esb && r.dplOn pipe then (1 ≤ d.length && d.length ≤ 32)
               else (d.length == r.rxPw.getD pipe 0 && d.length ≠ 0)
  if r.rxMode && r.rxFifo.length < 3 && pipe < 6 && Radio.bit r.enRxAddr pipe && lenOk then
    w.setRadio s { r with rxFifo := r.rxFifo ++ [{ pipe := pipe, data := d }], flags := r.flags ||| 0x40,
                          rpd := true }
  else w

def fresh (n : Nat) (plus : Bool := true) : World :=
  { radios := List.replicate n { plus := plus }, busyUntil := List.replicate n 0 }

end World
end Nrf
