import NrfProofs.Addr
import NrfProofs.Exec
import NrfProofs.Frame
import NrfProofs.Hoare
import NrfProofs.Example
