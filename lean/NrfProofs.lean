import NrfModel
