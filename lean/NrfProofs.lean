import NrfProofs.Addr
import NrfProofs.Exec
import NrfProofs.Frame
import NrfProofs.Hoare
import NrfProofs.Example
import NrfProofs.Lease
import NrfProofs.LeaseJudge
