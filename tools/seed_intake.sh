#!/bin/bash
# tools/seed_intake.sh <agent-out-dir> <Cxx> <new-id>  — confirm a candidate seeded change in a SCRATCH worktree
# (patch applies, pinned suite green with it, demo fails with / passes without), store it as seeded/<new-id>/,
# then run its property's quick check against it (tools/seed_regress.py: scratch worktree, VERIF_REPO).  /repo is never touched.
OUT="$1"; P="$2"; ID="$3"
S=$(mktemp -d /tmp/seedintake-XXXXXX); rmdir $S
git -C /repo worktree add -q --detach $S HEAD || exit 2
trap 'cd /; git -C /repo worktree remove --force $S' EXIT
mkdir -p $S/out; cp -r "$OUT/$P" $S/out/
cd $S
if ! git apply out/$P/patch.diff 2>/tmp/apply.$$.err; then echo "$ID PATCH-DOES-NOT-APPLY: $(head -2 /tmp/apply.$$.err)"; exit 3; fi
T=$(/verif/tools/baseline_check.py $S | tail -1)
timeout 900 /venv/bin/python out/$P/demo.py >/tmp/demo_with.$$.log 2>&1; DW=$?
git checkout -q -- circuitpython_nrf24l01
timeout 900 /venv/bin/python out/$P/demo.py >/tmp/demo_without.$$.log 2>&1; DWO=$?
echo "$ID tests: $T | demo with change: exit $DW | without: exit $DWO"
case "$T" in *"missing []"*) ;; *) echo "$ID REJECTED: test suite not green"; exit 4;; esac
if [ $DW -eq 0 ] || [ $DWO -ne 0 ]; then echo "$ID REJECTED: demo does not discriminate"; exit 4; fi
mkdir -p /verif/seeded/$ID; cp out/$P/patch.diff out/$P/demo.py /verif/seeded/$ID/
/venv/bin/python - "$OUT/$P/meta.json" /verif/seeded/$ID/meta.json "$P" "$T" $DW $DWO "$OUT" <<'PY'
import json,sys
src,dst,p,t,dw,dwo,out=sys.argv[1:8]
try: m=json.load(open(src))
except Exception: m={}
m["breaks_property"]=p
m["confirmed"]={"tests_with_change":t,"demo_with_change":f"exit {dw}","demo_without_change":f"exit {dwo}","ran":f"tools/seed_intake.sh {out} {p}"}
json.dump(m,open(dst,"w"),indent=1)
PY
cd /verif && JOBS=1 tools/seed_regress.py $ID | grep -m1 "^C"
