#!/bin/sh
# tools/merge_agent.sh <agent-verif-dir> : copy files that exist only in the agent's copy; list files that differ
A="$1"
cd "$A" || exit 1
find . -type f \( -path ./.git -o -path './lean/.lake/*' -o -name '*.pyc' -o -path './replay/*' -o -path './evidence/*' -o -name MERGE_NOTES.md \) -prune -o -type f -print | grep -v '/.lake/' | grep -v __pycache__ | grep -v '^./replay/' | grep -v '^./evidence/' | while read f; do
  if [ ! -e "/verif/$f" ]; then mkdir -p "/verif/$(dirname $f)"; cp "$f" "/verif/$f"; echo "NEW  $f";
  elif ! cmp -s "$f" "/verif/$f"; then echo "DIFF $f"; fi
done
