#!/usr/bin/env python3
"""Run the repository's pinned test suite (guard off) and compare with /root/.vp/BASELINE.json."""
import json, subprocess, sys, tempfile, os
import xml.etree.ElementTree as ET
repo = sys.argv[1] if len(sys.argv) > 1 else "/repo"
with tempfile.TemporaryDirectory() as d:
    j = os.path.join(d, "j.xml")
    subprocess.run(["/venv/bin/python", "-m", "pytest", "-ra", "-q", "-p", "no:cacheprovider", "--timeout=900",
                    "--continue-on-collection-errors", f"--junitxml={j}"], cwd=repo, capture_output=True)
    ok = set()
    for tc in ET.parse(j).getroot().iter("testcase"):
        if not [c for c in tc if c.tag in ("failure", "error", "skipped")]:
            ok.add(tc.get("classname") + "::" + tc.get("name"))
base = set(json.load(open("/root/.vp/BASELINE.json"))["stable_pass"])
missing = sorted(base - ok)
print(f"baseline {len(base)}, passing now {len(ok & base)}, missing {missing}")
sys.exit(1 if missing else 0)
