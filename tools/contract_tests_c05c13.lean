-- Executable checks of the six `L3Contracts` fields (NrfProofs/C05Link.lean) on model runs.
-- Run:  cd lean && lake build NrfProofs.C05Link NrfProofs.NetExecJ && lake env lean ../tools/contract_tests_c05c13.lean
-- Every printed list must consist of `true` only (t0 = both node radios idle after construct; t1 setAA 0x3F; t2 listenOff;
-- t3 openTx; t4 send; t5 listenOn; t6 setAA 0x3E; t7 read (one payload); t8 read (empty); t9 second send with CE high; t10 openTx with CE high; t11 listen=False again in the transmit role; t12 open+send after that).
import NrfProofs.C05Link
import NrfProofs.NetExecJ
open Nrf Nrf.Net Nrf.Rf24

def mk2 (plus : Bool) (a0 a1 : Nat) : NetState :=
  let s0 : NetState := { nodes := [{}, {}], w := World.fresh 2 plus, closed := true }
  let s1 := (nexec (construct .network 0 a0) {s0 with cur := 0, active := [0]}).2
  let s2 := (nexec (construct .network 1 a1) {s1 with cur := 1, active := [1]}).2
  s2

def drvOf (s : NetState) (i : Nat) : DrvState := { d := (s.nodes.getD i default).rf, w := s.w }
def Lof (s : DrvState) : LinkCfg := { ch := s.radio.rfCh, rfSetup := s.radio.rfSetup, crc := s.radio.config &&& 4 }
def Pof (s : DrvState) : List Bytes := [0,1,2,3,4,5].map s.radio.rxAddr

def frameOK (s s' : DrvState) : Bool :=
  decide (s'.d.rid = s.d.rid) && decide (s'.w.radios.length = s.w.radios.length) &&
  decide (s'.w.faults = s.w.faults) && decide (s'.radio.lastRx = s.radio.lastRx)
  -- others compared via repr
  && (toString (repr (s'.w.radio (1 - s.d.rid))) == toString (repr (s.w.radio (1 - s.d.rid))))

def test (plus : Bool) (a0 a1 : Nat) (pipe : Nat) (buf : Bytes) : List Bool :=
  let n := mk2 plus a0 a1
  let s := drvOf n 0
  let L := Lof s
  let P := Pof s
  let sr := drvOf n 1
  let Pr := Pof sr
  let t0 := decide (NodeRadio L P true true 0x3E s.d s.radio) && decide (NodeRadio L Pr true true 0x3E sr.d sr.radio)
  -- setAA 0x3F
  let (r1, s1) := exec (setAutoAckAttr (.i 0x3F)) s
  let t1 := (r1 matches .ok ()) && frameOK s s1 && decide (NodeRadio L P true true 0x3F s1.d s1.radio)
      && decide (s1.radio.rxFifo = s.radio.rxFifo) && decide (s1.radio.rxAddr0 = s.radio.rxAddr0) && decide (s1.radio.txAddr = s.radio.txAddr)
  -- listen off
  let (r2, s2) := exec (setListen false) s1
  let t2 := (r2 matches .ok ()) && frameOK s1 s2 && decide (NodeRadio L P false false 0x3F s2.d s2.radio) && decide (s2.radio.rxFifo = s1.radio.rxFifo)
  -- open tx
  let a := Pr.getD pipe []
  let (r3, s3) := exec (openTxPipe a) s2
  let t3 := (r3 matches .ok ()) && frameOK s2 s3 && decide (NodeRadio L P false false 0x3F s3.d s3.radio) && decide (s3.radio.rxFifo = s2.radio.rxFifo)
      && decide (s3.radio.rxAddr0 = a) && decide (s3.radio.txAddr = a)
  -- send
  let k := s3.packet buf
  let pre := decide (((s3.w.radio 1).receive k).2 = some none)
  let (r4, s4) := exec (Rf24.send buf false false 0 true) s3
  let t4 := pre && (match r4 with | .ok (.bool true, b) => b == buf | _ => false) && decide (s4.d.rid = 0) && decide (s4.w.radios.length = 2)
      && decide (s4.w.faults = []) && (toString (repr (s4.w.radio 1)) == toString (repr ((s3.w.radio 1).receive k).1))
      && decide (NodeRadio L P false true 0x3F s4.d s4.radio) && decide (s4.radio.rxFifo = s3.radio.rxFifo)
      && decide (s4.radio.lastRx = s3.radio.lastRx) && decide (s4.radio.rxAddr0 = s3.radio.rxAddr0) && decide (s4.radio.txAddr = s3.radio.txAddr)
  -- listen on
  let (r5, s5) := exec (setListen true) s4
  let t5 := (r5 matches .ok ()) && frameOK s4 s5 && decide (NodeRadio L P true true 0x3F s5.d s5.radio) && decide (s5.radio.rxFifo = s4.radio.rxFifo)
  let (r6, s6) := exec (setAutoAckAttr (.i 0x3E)) s5
  let t6 := (r6 matches .ok ()) && frameOK s5 s6 && decide (NodeRadio L P true true 0x3E s6.d s6.radio)
  -- receiver reads
  let sr1 : DrvState := { d := sr.d, w := s6.w }
  let (r7, s7) := exec (Rf24.read none) sr1
  let t7 := (match r7 with | .ok v => decide (v = sr1.radio.rxFifo.head?.map (·.data)) | _ => false)
      && decide (s7.d.rid = 1) && decide (s7.w.faults = sr1.w.faults) && decide (s7.radio.lastRx = sr1.radio.lastRx)
      && (toString (repr (s7.w.radio 0)) == toString (repr (sr1.w.radio 0)))
      && decide (NodeRadio L Pr true true 0x3E s7.d s7.radio) && decide (s7.radio.rxFifo = sr1.radio.rxFifo.tail)
      && decide (sr1.radio.rxFifo.length = 1)
  -- read on empty
  let (r8, s8) := exec (Rf24.read none) s7
  let t8 := (match r8 with | .ok v => decide (v = none) | _ => false) && decide (NodeRadio L Pr true true 0x3E s8.d s8.radio) && decide (s8.radio.rxFifo = [])
  -- a second send right after the first (CE still high), different payload
  let buf2 := buf ++ [9]
  let buf2 := buf2.take 32
  let buf2 := if buf2 == buf then (0 :: buf.drop 1) else buf2
  let k2 := s4.packet buf2
  let pre2 := decide (((s4.w.radio 1).receive k2).2 = some none)
  let (r9, s9) := exec (Rf24.send buf2 false false 0 true) s4
  let t9 := pre2 && (match r9 with | .ok (.bool true, b) => b == buf2 | _ => false)
      && (toString (repr (s9.w.radio 1)) == toString (repr ((s4.w.radio 1).receive k2).1))
      && decide (NodeRadio L P false true 0x3F s9.d s9.radio) && decide (s9.radio.rxFifo = s4.radio.rxFifo)
      && decide (s9.w.faults = []) && decide (s9.radio.lastRx = s4.radio.lastRx)
  let (r10, s10) := exec (openTxPipe (Pr.getD 1 [])) s4
  let t10 := (r10 matches .ok ()) && frameOK s4 s10 && decide (NodeRadio L P false true 0x3F s10.d s10.radio)
      && decide (s10.radio.rxAddr0 = Pr.getD 1 []) && decide (s10.radio.txAddr = Pr.getD 1 [])
  -- listen = False again while in the transmit role with CE high (as before the NETWORK_ACK hop of a router)
  let (r11a, s11a) := exec (setAutoAckAttr (.i 0x3F)) s4
  let (r11, s11) := exec (setListen false) s11a
  let t11 := (r11a matches .ok ()) && (r11 matches .ok ()) && frameOK s4 s11 && decide (NodeRadio L P false false 0x3F s11.d s11.radio)
      && decide (s11.radio.rxFifo = s4.radio.rxFifo)
  let (r12, s12) := exec (openTxPipe (Pr.getD 2 [])) s11
  let k12 := s12.packet buf2
  let pre12 := decide (((s12.w.radio 1).receive k12).2 = some none)
  let (r13, s13) := exec (Rf24.send buf2 false false 0 true) s12
  let t12 := (r12 matches .ok ()) && pre12 && (match r13 with | .ok (.bool true, b) => b == buf2 | _ => false)
      && (toString (repr (s13.w.radio 1)) == toString (repr ((s12.w.radio 1).receive k12).1))
      && decide (NodeRadio L P false true 0x3F s13.d s13.radio)
  [t0, t1, t2, t3, t4, t5, t6, t7, t8, t9, t10, t11, t12]

#eval test true 0 0o1 5 [1,2,3,4,5,6,7,8]
#eval test false 0 0o1 5 (List.replicate 32 7)
#eval test true 0o1 0 1 [1,2,3,4,5,6,7,8,9]
#eval test true 0o21 0o1 2 [1]
#eval test true 0o1 0o21 5 (List.replicate 20 255)

