-- Why `NodeRadio` (NrfProofs/C05Link.lean) got three more conjuncts when `L3Contracts` was discharged
-- (NrfProofs/L3Discharge.lean): three model states that satisfy the *old* predicate (`NodeRadioOld` below, the
-- definition before the change) and the other preconditions of a contract, on which its conclusion fails.
-- None of them is reachable (CONFIG is written through `& 0x7F`, TX_ADDR starts with five bytes and `overlay`
-- keeps the length, RX FIFO entries get their pipe number from `matchPipe` / `inject`: 0..5) — they are states
-- the old predicate failed to exclude.  Each list printed below is
--   [old precondition, call returned normally / True, conclusion of the contract, new `NodeRadio` precondition]
-- expected:  [true, true, false, false]   three times.
-- Run:  cd lean && lake build NrfProofs.C05Link NrfProofs.NetExecJ && lake env lean ../tools/l3_counterexamples.lean
import NrfProofs.C05Link
import NrfProofs.NetExecJ
open Nrf Nrf.Net Nrf.Rf24

/-- `NodeRadio` as it was before the strengthening -/
def NodeRadioOld (L : LinkCfg) (P : List Bytes) (rx ce : Bool) (aa : Nat) (d : Rf24) (r : Radio) : Prop :=
  d.config = r.config ∧ r.config &&& 2 ≠ 0 ∧ decide (r.config &&& 1 ≠ 0) = rx ∧ r.ce = ce ∧
  r.config &&& 4 = L.crc ∧ r.rfCh = L.ch ∧ r.rfSetup = L.rfSetup ∧
  d.aa = aa ∧ r.enAA = aa ∧ d.openPipes = 0x3F ∧ r.enRxAddr = 0x3F ∧
  d.features = 5 ∧ r.feature = 5 ∧ r.featureVisible = true ∧ d.dynPl = 0x3F ∧ r.dynpd = 0x3F ∧ r.setupAw = 3 ∧
  d.pipes0 = r.rxAddr0 ∧ r.rxAddr0.length = 5 ∧ d.pipe0ReadAddr = P[0]? ∧
  P.length = 6 ∧ (∀ a ∈ P, a.length = 5) ∧ (rx = true → some r.rxAddr0 = P[0]?) ∧
  (∀ p ∈ [1, 2, 3, 4, 5], some (r.rxAddr p) = P[p]?) ∧
  d.txAddress.length = 5 ∧ r.txFifo = []

instance (L : LinkCfg) (P : List Bytes) (rx ce : Bool) (aa : Nat) (d : Rf24) (r : Radio) :
    Decidable (NodeRadioOld L P rx ce aa d r) := by unfold NodeRadioOld; infer_instance

def mk2 (plus : Bool) (a0 a1 : Nat) : NetState :=
  let s0 : NetState := { nodes := [{}, {}], w := World.fresh 2 plus, closed := true }
  let s1 := (nexec (construct .network 0 a0) {s0 with cur := 0, active := [0]}).2
  let s2 := (nexec (construct .network 1 a1) {s1 with cur := 1, active := [1]}).2
  s2

def drvOf (s : NetState) (i : Nat) : DrvState := { d := (s.nodes.getD i default).rf, w := s.w }
def Lof (s : DrvState) : LinkCfg := { ch := s.radio.rfCh, rfSetup := s.radio.rfSetup, crc := s.radio.config &&& 4 }
def Pof (s : DrvState) : List Bytes := [0,1,2,3,4,5].map s.radio.rxAddr

def upd (s : DrvState) (fd : Rf24 → Rf24) (fr : Radio → Radio) : DrvState :=
  { d := fd s.d, w := s.w.setRadio s.d.rid (fr s.radio) }

-- (1) `listenOff` (and `listenOn`): CONFIG bit 7 set in the radio and the shadow.  `listen = False` writes
--     `_config & 0xFC | 2` (bit 7 kept), the chip stores `& 0x7F`: `d.config = r.config` is lost.
def cex1 : List Bool :=
  let n := mk2 true 0 0o1
  let s0 := drvOf n 0
  let s := upd s0 (fun d => { d with config := d.config ||| 0x80 }) (fun r => { r with config := r.config ||| 0x80 })
  let L := Lof s; let P := Pof s
  let (r2, s2) := exec (setListen false) s
  [decide (NodeRadioOld L P true true 0x3E s.d s.radio), (r2 matches .ok ()),
   decide (NodeRadioOld L P false false 0x3E s2.d s2.radio), decide (NodeRadio L P true true 0x3E s.d s.radio)]
#eval cex1

-- (2) `openTx`: a 6-byte TX_ADDR in the radio.  W_REGISTER TX_ADDR with 5 bytes overlays the first five:
--     `s'.radio.txAddr = a` fails (it is `a ++ [9]`).
def cex2 : List Bool :=
  let n := mk2 true 0 0o1
  let s0 := drvOf n 0
  let s1 := (exec (setAutoAckAttr (.i 0x3F)) s0).2
  let s2 := (exec (setListen false) s1).2
  let s := upd s2 id (fun r => { r with txAddr := r.txAddr ++ [9] })
  let L := Lof s; let P := Pof s
  let a : Bytes := [1,2,3,4,5]
  let (r3, s3) := exec (openTxPipe a) s
  [decide (NodeRadioOld L P false false 0x3F s.d s.radio), (r3 matches .ok ()), decide (s3.radio.txAddr = a),
   decide (NodeRadio L P false false 0x3F s.d s.radio)]
#eval cex2

-- (3) `send`: an RX FIFO head with pipe number 8.  STATUS = flags | RX_P_NO << 1 | TX_FULL then has bit 4 set
--     (16), `while not self._in[0] & 0x30` takes it for MAX_RT before the first `update()`, and `send()` returns
--     `False` although the packet was acknowledged.
def cex3 : List Bool :=
  let n := mk2 true 0 0o1
  let s0 := drvOf n 0
  let Pr := Pof (drvOf n 1)
  let s1 := (exec (setAutoAckAttr (.i 0x3F)) s0).2
  let s2 := (exec (setListen false) s1).2
  let s3 := (exec (openTxPipe (Pr.getD 5 [])) s2).2
  let s := upd s3 id (fun r => { r with rxFifo := [{ pipe := 8, data := [1] }] })
  let L := Lof s; let P := Pof s0
  let buf : Bytes := [1,2,3]
  let pre := decide (NodeRadioOld L P false false 0x3F s.d s.radio) && decide (s.radio.txAddr = s.radio.rxAddr0)
      && decide (s.w.faults = []) && decide (((s.w.radio 1).receive (s.packet buf)).2 = some none)
  let (r4, _) := exec (Rf24.send buf false false 0 true) s
  [pre, (match r4 with | .ok _ => true | _ => false), (match r4 with | .ok (.bool true, _) => true | _ => false),
   decide (NodeRadio L P false false 0x3F s.d s.radio)]
#eval cex3
