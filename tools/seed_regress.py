#!/venv/bin/python
"""tools/seed_regress.py [ids…] — re-run every seeded change of seeded/<id>/ against its property's quick check.

Each change is applied to a SCRATCH worktree of /repo (never /repo itself); the check runs with VERIF_REPO
pointing there and VERIF_OUT redirected, so evidence/ and replay/ of /verif are left alone.  Expected outcome
for every seed: exit 1 and a VIOLATION line with a concrete failing input.  Prints one line per seed and a
summary; exit 0 iff every seed is reported with a failing input."""
import json
import os
import shutil
import subprocess
import sys
import tempfile
from concurrent.futures import ThreadPoolExecutor
from pathlib import Path

VERIF = Path(__file__).resolve().parent.parent


def one(sd: Path):
    prop = json.loads((sd / "meta.json").read_text()).get("breaks_property") or sd.name.split("-")[0]
    scratch = Path(tempfile.mkdtemp(prefix=f"seedreg-{sd.name}-", dir="/tmp"))
    out = Path(tempfile.mkdtemp(prefix=f"seedout-{sd.name}-", dir="/tmp"))
    os.rmdir(scratch)
    try:
        subprocess.run(["git", "-C", "/repo", "worktree", "add", "-q", "--detach", str(scratch), "HEAD"], check=True)
        subprocess.run(["rsync", "-a", "--exclude", ".git", "/repo/", str(scratch) + "/"], check=True)
        a = subprocess.run(["git", "-C", str(scratch), "apply", str(sd / "patch.diff")], capture_output=True, text=True)
        if a.returncode:
            return sd.name, prop, "PATCH-DOES-NOT-APPLY", a.stderr[:100]
        env = dict(os.environ, VERIF_REPO=str(scratch), VERIF_OUT=str(out))
        p = subprocess.run([str(VERIF / "check"), prop, "--tier", "quick"], capture_output=True, text=True, env=env,
                           cwd=str(VERIF), timeout=2400)
        v = [l for l in p.stdout.splitlines() if l.startswith("VIOLATION")]
        if p.returncode == 1 and v:
            kind = "no-failing-input-found" if v[0].rstrip().endswith("no-failing-input-found") else "caught"
        else:
            kind = f"MISSED(rc={p.returncode})"
        summ = [l for l in p.stdout.splitlines() if l.startswith(f"[{prop}]")]
        return sd.name, prop, kind, (summ[-1] if summ else p.stdout[-200:] + p.stderr[-200:])[:170]
    finally:
        subprocess.run(["git", "-C", "/repo", "worktree", "remove", "--force", str(scratch)], capture_output=True)
        shutil.rmtree(out, ignore_errors=True)


def main():
    ids = sys.argv[1:]
    seeds = sorted(d for d in (VERIF / "seeded").iterdir() if (d / "patch.diff").exists() and (not ids or d.name in ids))
    bad = 0
    with ThreadPoolExecutor(int(os.environ.get("JOBS", "5"))) as ex:
        for name, prop, kind, info in ex.map(one, seeds):
            print(f"{name:10s} {prop} {kind:24s} {info}", flush=True)
            bad += kind != "caught"
    # lean/NrfGen is regenerated from $VERIF_REPO by every C04/C15/C18 check: bring it back to /repo's text
    subprocess.run([sys.executable, str(VERIF / "tools" / "py2lean.py")], capture_output=True,
                   env={**os.environ, "VERIF_REPO": "/repo"})
    print(f"{len(seeds) - bad}/{len(seeds)} seeded changes reported with a concrete failing input")
    return 0 if bad == 0 else 1


if __name__ == "__main__":
    sys.exit(main())
