#!/bin/bash
# tools/seed_eval.sh <seed-out-dir> <Cxx> [check-id]   — confirm a seeded change and run the check against it
OUT="$1"; P="$2"; CHK="${3:-$2}"
S=/tmp/seedverify-$$
git -C /repo worktree add -q --detach $S HEAD || exit 2
cp -r "$OUT" $S/out
cd $S
if ! git apply out/$P/patch.diff 2>/tmp/apply.err; then echo "PATCH-DOES-NOT-APPLY: $(head -2 /tmp/apply.err)"; cd /; git -C /repo worktree remove --force $S; exit 3; fi
/verif/tools/baseline_check.py $S | tail -1
timeout 600 /venv/bin/python out/$P/demo.py >/tmp/demo_with.log 2>&1; echo "demo with change: exit $?"
git checkout -q -- circuitpython_nrf24l01
timeout 600 /venv/bin/python out/$P/demo.py >/tmp/demo_without.log 2>&1; echo "demo without change: exit $?"
cd /; git -C /repo worktree remove --force $S
cd /repo && git apply "$OUT/$P/patch.diff" && cd /verif && (timeout 1200 ./check $CHK 2>&1 | grep -E "VIOLATION|^\[$CHK\]" | cut -c1-220; echo "check exit ${PIPESTATUS[0]}"); git -C /repo checkout -- . 
