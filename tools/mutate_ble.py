"""apply mutations to /tmp/w-d/repo fake_ble.py one at a time; run test-suite + checks; restore"""
import json
import os
import subprocess
import sys

REPO = "/tmp/w-d/repo"
F = REPO + "/circuitpython_nrf24l01/fake_ble.py"
VERIF = "/tmp/w-d/verif"
ENV = dict(os.environ, VERIF_REPO=REPO)

MUT = {
    # ---- C18
    "18a whitener tap 0x88->0x84": ("C18", "                coef ^= 0x88\n", "                coef ^= 0x84\n"),
    "18a2 whitener 0x88->0x89 (equivalent mutant: bit 0 is shifted out)": ("C18", "                coef ^= 0x88\n", "                coef ^= 0x89\n"),
    "18l whiten seed from channel index off by one": ("C18", "        coef = (self._curr_freq + 37) | 0x40\n", "        coef = (self._curr_freq + 38) | 0x40\n"),
    "18b len_available 18->19": ("C18", "        return 18 - name_length", "        return 19 - name_length"),
    "18c flags value 0x05->0x06": ("C18", 'buf += chunk(b"\\x05", 1)', 'buf += chunk(b"\\x06", 1)'),
    "18d PA chunk type 0x0A->0x0B": ("C18", 'chunk(struct.pack(">b", self.pa_level), 0x0A)', 'chunk(struct.pack(">b", self.pa_level), 0x0B)'),
    "18e header 0x42->0x40": ("C18", "buf = bytes([0x42, pl_size]) + self.mac", "buf = bytes([0x40, pl_size]) + self.mac"),
    "18f fits test <0 -> <=0": ("C18", "        if self.len_available(payload) < 0:", "        if self.len_available(payload) <= 0:"),
    "18g empty buf still chunked": ("C18", "payload = chunk(buf, data_type) if buf else b\"\"", "payload = chunk(buf, data_type)"),
    "18h hop wraps wrongly (index ok, channel from wrong index)": ("C18", "        self.channel = BLE_FREQ[self._curr_freq]\n", "        self._channel = BLE_FREQ[self._curr_freq]\n        self._reg_write(0x05, BLE_FREQ[self._curr_freq - 1])\n"),
    "18i chunk type mask dropped": ("C18", "data_type & 0xFF", "data_type & 0x7F"),
    "18j name length not counted for PA room (name_length +2 -> +1 in len_available)": ("C18", "    def len_available(self, hypothetical: Union[bytes, bytearray] = b\"\") -> int:\n        \"\"\"This function will calculates how much length (in bytes) is\n        available in the next payload.\"\"\"\n        name_length = 0 if self._ble_name is None else (len(self._ble_name) + 2)", "    def len_available(self, hypothetical: Union[bytes, bytearray] = b\"\") -> int:\n        \"\"\"This function will calculates how much length (in bytes) is\n        available in the next payload.\"\"\"\n        name_length = 0 if self._ble_name is None else (len(self._ble_name) + 1)"),
    "18k __enter__ path: channel setter writes shadow only for 80": ("C18", "            self._channel = value\n            self._reg_write(0x05, value)", "            if value != 80:\n                self._channel = value\n            self._reg_write(0x05, value)"),
    # ---- C19
    "19a end<30 -> end<29": ("C19", "if end < 30 and", "if end < 29 and"),
    "19b zero-size guard dropped": ("C19", "if size + i + 1 > end or i + 1 > end or not size:", "if size + i + 1 > end or i + 1 > end:"),
    "19c PA len ==2 -> >=2": ("C19", "if buf[0] == 0x0A and len(buf) == 2:", "if buf[0] == 0x0A and len(buf) >= 2:"),
    "19d complete-name type 0x09 ignored": ("C19", "        if buf[0] in (0x08, 0x09):  # if data is a BLE device name", "        if buf[0] in (0x08,):  # if data is a BLE device name"),
    "19e temperature data slice 3->2": ("C19", "                service = TemperatureServiceData()\n                service.data = buf[3:]", "                service = TemperatureServiceData()\n                service.data = buf[2:]"),
    "19f url power slice 4:5 -> 3:4": ("C19", "service.pa_level_at_1_meter = buf[4:5]", "service.pa_level_at_1_meter = buf[3:4]"),
    "19g read pops the newest": ("C19", "            ret_val = self.rx_queue[0]\n            del self.rx_queue[0]", "            ret_val = self.rx_queue[-1]\n            del self.rx_queue[-1]"),
    "19h sign bit mask 0x800000->0x400000": ("C19", "if value & 0x800000:", "if value & 0x400000:"),
    "19i service-data guard <3 -> <2": ("C19", "            if len(buf) < 3:  # too short", "            if len(buf) < 2:  # too short"),
    "19j url prefix table order": ("C19", 'codex_prefix = ["http://www.", "https://www.", "http://", "https://"]', 'codex_prefix = ["http://", "https://", "http://www.", "https://www."]'),
    "19k CRC compared on 2 bytes only": ("C19", "if end < 30 and self.rx_cache[end : end + 3] == crc24_ble(\n                self.rx_cache[:end]\n            ):", "if end < 30 and self.rx_cache[end : end + 2] == crc24_ble(\n                self.rx_cache[:end]\n            )[:2]:"),
    "19l malformed tail dropped instead of kept": ("C19", "                self.data.append(buffer[i:end])\n                break", "                break"),
    "19m battery uuid constant": ("C19", "BATTERY_UUID = const(0x180F)", "BATTERY_UUID = const(0x180E)"),
    # ---- harmless refactorings (must NOT trip)
    "H1 swap_bits via table-free string reversal": ("both", "    original &= 0xFF\n    reverse = 0\n    for _ in range(8):\n        reverse <<= 1\n        reverse |= original & 1\n        original >>= 1\n    return reverse", "    return int(\"{:08b}\".format(original & 0xFF)[::-1], 2)"),
    "H2 reverse_bits comprehension, available() with locals": ("both", "    ret = bytearray(len(original))\n    for i, byte in enumerate(original):\n        ret[i] = swap_bits(byte)\n    return ret", "    return bytearray(swap_bits(byte) for byte in original)"),
    "H3 end<30 -> end<31 (equivalent: slice is short)": ("both", "if end < 30 and", "if end < 31 and"),
}


def run(cmd, **kw):
    return subprocess.run(cmd, capture_output=True, text=True, env=ENV, **kw)


def main():
    only = sys.argv[1:]
    orig = open(F).read()
    results = {}
    try:
        for name, (prop, old, new) in MUT.items():
            if only and not any(name.startswith(o) for o in only):
                continue
            if orig.count(old) != 1:
                print("!! pattern count", orig.count(old), name)
                continue
            open(F, "w").write(orig.replace(old, new))
            t = run(["/venv/bin/python", VERIF + "/tools/baseline_check.py", REPO])
            suite = "green" if t.returncode == 0 else "RED"
            row = {"suite": suite}
            for p in (["C18", "C19"] if prop == "both" else [prop]):
                c = run([VERIF + "/check", p], cwd=VERIF)
                line = [l for l in c.stdout.splitlines() if l.startswith("VIOLATION")]
                what = ""
                if line and "replay=" in line[0]:
                    rp = line[0].split("replay=")[1].split()[0]
                    try:
                        d = json.load(open(VERIF + "/" + rp))
                        what = (d.get("case", "")[:100] + " :: " + d.get("what", "")[:160]) if d.get("kind") == "failing-input" else "no-failing-input-found: " + str(d.get("no_longer_checks", [""])[0])[:200]
                        os.remove(VERIF + "/" + rp)
                    except Exception as e:
                        what = "?" + str(e)
                row[p] = (c.returncode, what)
            results[name] = row
            print(name, "|", json.dumps(row)[:600], flush=True)
    finally:
        open(F, "w").write(orig)
    json.dump(results, open("/tmp/w-d/mutation_results.json", "w"), indent=1)


main()
