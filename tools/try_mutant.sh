#!/bin/bash
# tools/try_mutant.sh <relative-file> <python-regex> <replacement> <Cxx> [tier] — one hand-made mutant in a scratch worktree
F="$1"; PAT="$2"; REP="$3"; CHK="$4"; TIER="${5:-quick}"
S=/tmp/trymut-$$; O=/tmp/trymut-out-$$
git -C /repo worktree add -q --detach $S HEAD || exit 2
rsync -a --exclude .git /repo/ $S/
python3 - "$S/circuitpython_nrf24l01/$F" "$PAT" "$REP" <<'PY'
import re,sys
p,pat,rep=sys.argv[1:4]
s=open(p).read()
n=len(re.findall(pat,s))
if n!=1: print(f"pattern matches {n} times"); sys.exit(3)
open(p,'w').write(re.sub(pat,rep,s))
PY
rc=$?
if [ $rc -eq 0 ]; then
  git -C $S diff | grep '^[-+]' | grep -v '^+++\|^---'
  ${VERIF_DIR:-/verif}/tools/baseline_check.py $S | tail -1
  cd ${VERIF_DIR:-/verif} && VERIF_REPO=$S VERIF_OUT=$O ./check $CHK --tier $TIER 2>&1 | grep -E "VIOLATION|^\[$CHK\]" | cut -c1-200
  python3 - $O <<'PY'
import json,glob,sys
for f in sorted(glob.glob(sys.argv[1]+'/replay/*.json'))[:1]:
    r=json.load(open(f)); print((r.get('what') or str(r.get('no_longer_checks'))[:300])[:300])
PY
fi
git -C /repo worktree remove --force $S; rm -rf $O
