#!/bin/sh
# Regenerate lean/NrfGen/*.lean from the CURRENT Python source ($VERIF_REPO, default /repo) and rebuild the
# tie proofs (generated definition = model function, for all inputs).
# exit 0 = the source still translates to definitions equal to the model; 1 = the tie proofs no longer
# build (the source changed behaviour, or was rewritten in a way the proofs do not follow: run the
# property checks' failing-input search to tell which); 2 = the translator refused the source / no lake.
here=$(cd "$(dirname "$0")/.." && pwd)
PY=${VERIF_PYTHON:-python3}
[ -x /venv/bin/python ] && PY=${VERIF_PYTHON:-/venv/bin/python}
"$PY" "$here/tools/py2lean.py" || exit 2
command -v lake >/dev/null 2>&1 || { echo "gen_tie: lake not found" >&2; exit 2; }
cd "$here/lean" || exit 2
if lake build NrfGen NrfProofs.GenTieStructs NrfProofs.GenTieBle NrfProofs.GenTieWhiten NrfProofs.GenTieMixins NrfProofs.GenTiePipe >"$here/lean/.lake/gen_tie.log" 2>&1; then
  echo "gen_tie: OK (generated definitions equal the model functions)"
  exit 0
fi
grep -E "^error" "$here/lean/.lake/gen_tie.log" | head -20
echo "gen_tie: TIE BROKEN (log: lean/.lake/gen_tie.log)"
exit 1
