"""Detection-power self-test of ./check C16: apply each mutation of rf24_mesh.py to the (private) repo
named by VERIF_REPO, run the pinned test-suite and ./check C16, undo.  Never run against /repo.
usage: VERIF_REPO=<worktree> python tools/mutations_c16.py [M1 M2 ... R1 R2]"""
import subprocess, sys, json, os, glob
from pathlib import Path
REPO=os.environ["VERIF_REPO"]; F=REPO+"/circuitpython_nrf24l01/rf24_mesh.py"; VERIF=str(Path(__file__).resolve().parent.parent)
assert os.path.realpath(REPO) != "/repo"
orig=open(F).read()
muts=[
 ("M1 collision test compares the wrong way (n_id == reserved)",
  "if addr == new_addr and n_id != self.frame_buf.header.reserved:", "if addr == new_addr and n_id == self.frame_buf.header.reserved:"),
 ("M2 skip of NETWORK_DEFAULT_ADDR dropped",
  "            if new_addr == NETWORK_DEFAULT_ADDR:\n                continue\n", ""),
 ("M3 candidate loop off by one (i runs down to 0)",
  "for i in range(MESH_MAX_CHILDREN + extra_child, 0, -1):", "for i in range(MESH_MAX_CHILDREN + extra_child, -1, -1):"),
 ("M4 shift_val computed with the wrong step (temp >>= 4)",
  "                temp >>= 3\n                shift_val += 3", "                temp >>= 4\n                shift_val += 3"),
 ("M5 release_address deletes by ID instead of by address",
  "        for id, addr in self.dhcp_dict.items():\n            if addr == address:", "        for id, addr in self.dhcp_dict.items():\n            if id == address:"),
 ("M6 reply body big endian",
  'self.frame_buf.message = struct.pack("<H", new_addr)', 'self.frame_buf.message = struct.pack(">H", new_addr)'),
 ("M7 extra child also for relayed requests (5 children under a relay)",
  "extra_child = self.frame_buf.header.from_node == NETWORK_DEFAULT_ADDR", "extra_child = True"),
 ("M8 binary load reads the address at the wrong offset",
  'struct.unpack("<H", buffer[index + 2 : index + 4])[0]', 'struct.unpack("<H", buffer[index + 1 : index + 3])[0]'),
 ("M9 update() releases to_node instead of from_node",
  "self.release_address(self.frame_buf.header.from_node)", "self.release_address(self.frame_buf.header.to_node)"),
 ("M10 JSON load without search_by_address",
  "self.set_address(int(n_id), addr, True)", "self.set_address(int(n_id), addr)"),
 ("M11 set_address overwrite dropped for a known ID (appends nothing, returns)",
  "                if n_id == node_id:\n                    self.dhcp_dict[n_id] = node_address\n                    return", "                if n_id == node_id:\n                    return"),
 ("M12 reply reserved field cleared",
  "                self.frame_buf.header.message_type = MESH_ADDR_RESPONSE\n", "                self.frame_buf.header.message_type = MESH_ADDR_RESPONSE\n                self.frame_buf.header.reserved = 0\n"),
 ("M13 request with ID 0 is served (dropped `and reserved`)",
  "if msg_t == MESH_ADDR_REQUEST and self.frame_buf.header.reserved:", "if msg_t == MESH_ADDR_REQUEST:"),
 ("M14 direct reply sent TX_NORMAL instead of TX_PHYSICAL",
  "self._write(self.frame_buf.header.to_node, TX_PHYSICAL)", "self._write(self.frame_buf.header.to_node, TX_NORMAL)"),
 ("R1 harmless refactoring: collision scan with any(), table copied to a list first",
  "            for n_id, addr in self.dhcp_dict.items():\n                # print(i, \"(in _addr_dict) ID:\", n_id, \"ADDR:\", oct(addr))\n                if addr == new_addr and n_id != self.frame_buf.header.reserved:\n                    found_addr = True\n                    break\n",
  "            requester = self.frame_buf.header.reserved\n            found_addr = any(\n                a == new_addr and k != requester for k, a in list(self.dhcp_dict.items())\n            )\n"),
 ("R2 harmless refactoring: release_address via next()/pop",
  "        for id, addr in self.dhcp_dict.items():\n            if addr == address:\n                del self.dhcp_dict[id]\n                return True\n        return False",
  "        holder = next((k for k, a in self.dhcp_dict.items() if a == address), None)\n        if holder is None:\n            return False\n        self.dhcp_dict.pop(holder)\n        return True"),
]
sel=sys.argv[1:] 
res=[]
for name,a,b in muts:
    if sel and not any(name.startswith(s+" ") for s in sel): continue
    assert orig.count(a)==1, (name, orig.count(a))
    open(F,"w").write(orig.replace(a,b))
    try:
        bl=subprocess.run(["/venv/bin/python",VERIF+"/tools/baseline_check.py",REPO],capture_output=True,text=True)
        for f in glob.glob(VERIF+"/replay/*.json"): os.remove(f)
        env=dict(os.environ,VERIF_REPO=REPO)
        p=subprocess.run(["./check","C16"],cwd=VERIF,capture_output=True,text=True,env=env)
        out=(p.stdout+p.stderr).strip().splitlines()
        what=""
        rp=sorted(glob.glob(VERIF+"/replay/*.json"))
        if rp:
            d=json.load(open(rp[0])); what=d.get("what") or ("no-failing-input: "+str(d.get("no_longer_checks",[""])[0])[:200])
            case=d.get("case","")
        print(f"== {name}\n   tests green: {bl.returncode==0}; check exit {p.returncode}; {[l for l in out if l.startswith('VIOLATION')]}\n   {what[:400]}\n   case: {case[:200] if rp else ''}")
    finally:
        open(F,"w").write(orig)
