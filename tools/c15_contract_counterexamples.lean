-- Why `TxQ` / `TxS` (NrfProofs/C15Safe.lean) got one more conjunct each when `C15Contracts`
-- (NrfProofs/C15Contract.lean) was discharged (NrfProofs/C15Discharge.lean: `c15contracts`): three model
-- states that satisfy the *old* predicate (`TxSOld` below, the definition before the change) and every other
-- precondition of a contract, on which the call returns normally but the conclusion `TxS s'` fails.
-- None of them is reachable: the chip's TX FIFO has three levels (`Radio.writePayload` refuses a fourth entry)
-- and RX FIFO entries get their pipe number from `matchPipe` / `inject` / `txDoneAcked` (0..5) — they are states
-- the old predicate failed to exclude.
--   CE1 (send_ok):   RX FIFO head tagged "pipe 16": STATUS = flags ||| (16 <<< 1) reads as TX_DS although no flag
--                    is latched, `send()` leaves the polling loop at once; no receiver, so the cycle it started ends
--                    in MAX_RT — latched in the chip, NOT in the cached status byte (second clause of `TxS`).
--   CE2 (resend_ok): nine payloads queued behind a latched MAX_RT, auto-ack off: `ce = True` runs four cycles
--                    (the fuel of `tryTransmit`), the `update()` after it four more, one payload stays queued
--                    with only TX_DS latched — the transmitter is not idle (first clause of `TxQ`).
--   CE3 (resend_ok): five payloads (same PID and bytes, so the receiver acknowledges four of them as
--                    duplicates), the attempts of the fifth lost: the first four cycles run at the CE edge, the
--                    fifth during `update()`, *after* its status byte was clocked out — MAX_RT latched in the
--                    chip, TX_DS only in the cached byte (second clause of `TxS`).
-- Each list printed below is
--   [old precondition, call returned normally, old conclusion `TxSOld s'`, new precondition `TxS s`]
-- expected:  [true, true, false, false]   three times.
-- Run:  cd lean && lake build NrfProofs.C15Contract && lake env lean ../tools/c15_contract_counterexamples.lean
import NrfProofs.C15Contract
open Nrf Nrf.Rf24

/-- `TxQ` as it was before the strengthening -/
def TxQOld (r : Radio) : Prop :=
  (r.txFifo = [] ∨ r.flags &&& 0x10 ≠ 0) ∧ ∀ e ∈ r.txFifo, e.kind = TxKind.payload
/-- `TxS` as it was before the strengthening -/
def TxSOld (s : DrvState) : Prop :=
  TxQOld (s.w.radio s.d.rid) ∧ ((s.w.radio s.d.rid).flags &&& 0x10 ≠ 0 → s.d.status &&& 0x10 ≠ 0)

instance (r : Radio) : Decidable (TxQOld r) := by unfold TxQOld; infer_instance
instance (s : DrvState) : Decidable (TxSOld s) := by unfold TxSOld; infer_instance
instance (r : Radio) : Decidable (TxQ r) := by unfold TxQ; infer_instance
instance (s : DrvState) : Decidable (TxS s) := by unfold TxS; infer_instance

/-- the register preconditions shared by both contracts -/
def regsOk (s : DrvState) : Bool :=
  decide (s.d.rid < s.w.radios.length) && decide (s.cfg.config &&& 3 = 2) && decide (s.cfg.feature &&& 2 = 0) &&
  decide (s.d.dynPl &&& 1 ≠ 0)

def report {α} (s : DrvState) (x : Except PyErr α × DrvState) : List Bool :=
  [regsOk s && decide (TxSOld s), (match x.1 with | .ok _ => true | .error _ => false), decide (TxSOld x.2),
   decide (TxS s)]

/-- a transmitter: PWR_UP, PRIM_RX clear, EN_DPL set, EN_ACK_PAY clear -/
def txRadio : Radio := { config := 0x0E, feature := 5, dynpd := 0x3F }

def ce1 : DrvState :=
  { d := { rid := 0, status := 0x0E },
    w := { radios := [{ txRadio with rxFifo := [{ pipe := 16, data := [1] }] }], busyUntil := [0] } }
#eval report ce1 (exec (send [1, 2, 3] false false 0 true) ce1)

def nine : List TxEntry := List.replicate 9 { kind := .payload, data := [1] }
def ce2 : DrvState :=
  { d := { rid := 0, status := 0x1E },
    w := { radios := [{ txRadio with enAA := 0, flags := 0x10, txFifo := nine }], busyUntil := [0] } }
#eval report ce2 (exec (resend true) ce2)

def five : List TxEntry := List.replicate 5 { kind := .payload, data := [1, 2, 3, 4, 5], pid := some 0 }
def ce3 : DrvState :=
  { d := { rid := 0, status := 0x1E },
    w := { radios := [{ config := 0x0E, flags := 0x10, txFifo := five },
                      { config := 0x0F, ce := true, rxPw := [5, 5, 5, 5, 5, 5] }],
           busyUntil := [0, 0], faults := List.replicate 4 .delivered ++ List.replicate 16 .packetLost } }
#eval report ce3 (exec (resend true) ce3)

-- the final states: [TX FIFO entries, latched flags, cached status byte]
#eval let x := (exec (send [1, 2, 3] false false 0 true) ce1).2; [(x.w.radio 0).txFifo.length, (x.w.radio 0).flags, x.d.status]
#eval let x := (exec (resend true) ce2).2; [(x.w.radio 0).txFifo.length, (x.w.radio 0).flags, x.d.status]
#eval let x := (exec (resend true) ce3).2; [(x.w.radio 0).txFifo.length, (x.w.radio 0).flags, x.d.status]
