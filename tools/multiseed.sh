#!/bin/bash
# tools/multiseed.sh [seed…]  — all quick checks under several seeds; a non-zero rc on the unchanged tree is a false
# alarm (or a defect) to investigate.  Output: one line per (seed, check).
cd "$(dirname "$0")/.."
SEEDS="${@:-11 12 13}"
(cd lean && lake build 2>&1 | tail -1)
O=${VERIF_OUT:-/tmp/multiseed-out}; export VERIF_OUT=$O
for seed in $SEEDS; do
  for p in C01 C02 C03 C04 C05 C06 C07 C08 C09 C10 C11 C12 C13 C14 C15 C16 C17 C18 C19 C20; do
    VERIF_SEED=$seed timeout 1500 ./check $p --tier quick > /tmp/ms_${p}_${seed}.log 2>&1; rc=$?
    echo "seed=$seed $p rc=$rc $(grep -E '^\[C' /tmp/ms_${p}_${seed}.log | tail -1 | cut -c1-160)"
    grep VIOLATION /tmp/ms_${p}_${seed}.log | head -3
    [ $rc -ne 0 ] && cp $O/replay/$p-*.json /tmp/ 2>/dev/null
  done
done
