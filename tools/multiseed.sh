#!/bin/bash
# run all quick checks with several seeds; print non-ok lines
cd lean && lake build 2>&1 | tail -1; cd ..
for seed in 11 12 13; do
  for p in C01 C02 C03 C04 C05 C06 C07 C08 C09 C10 C11 C12 C13 C14 C15 C16 C17 C18 C19 C20; do
    VERIF_SEED=$seed timeout 1500 ./check $p --tier quick > /tmp/ms_${p}_${seed}.log 2>&1; rc=$?
    echo "seed=$seed $p rc=$rc $(grep -E '^\[C' /tmp/ms_${p}_${seed}.log | tail -1 | cut -c1-160)"
    grep VIOLATION /tmp/ms_${p}_${seed}.log | head -3
  done
done
