#!/venv/bin/python
"""tools/mutation_sweep.py — measure the detection power of the checks with mechanical mutants.

For every sampled mutant of a library source file: write it into a SCRATCH copy of /repo (never /repo itself),
run the pinned test-suite (mutants the tests kill are of no interest: the brief asks for changes that pass
them), then run the checks that anchor in that file with VERIF_REPO pointing at the scratch copy, stopping at
the first check that reports a VIOLATION.  Survivors are listed for inspection: each is either an equivalent
mutant (behaviour unchanged for every property) or a gap in a generator.

usage: tools/mutation_sweep.py [--n 120] [--seed 1] [--jobs 5] [--files rf24.py,…] [--out mutation/run1]
"""
import argparse
import ast
import json
import os
import random
import shutil
import subprocess
import sys
import time
from concurrent.futures import ThreadPoolExecutor
from pathlib import Path

VERIF = Path(__file__).resolve().parent.parent
REPO = Path("/repo")
PKG = "circuitpython_nrf24l01"

# file -> checks that anchor in it (first the cheapest / most specific)
CHECKS = {
    "rf24.py": ["C03", "C10", "C01", "C02", "C08", "C09", "C07"],
    "rf24_lite.py": ["C20"],
    "fake_ble.py": ["C18", "C19", "C09"],
    "network/structs.py": ["C11", "C12", "C06", "C15", "C05", "C13", "C14", "C07", "C17"],
    "network/mixins.py": ["C04", "C07", "C14", "C13", "C05", "C15", "C11", "C17", "C09"],
    "rf24_network.py": ["C11", "C05", "C13", "C14", "C15", "C07", "C09"],
    "rf24_mesh.py": ["C16", "C17", "C15"],
    "network/constants.py": ["C11", "C15", "C13", "C14", "C17", "C05"],
    "wrapper/cpy_spidev.py": ["C01", "C03"],
}
SKIP_FUNCS = {"print_details", "print_pipes", "__repr__", "address_repr"}

CMP = {ast.Lt: ast.LtE, ast.LtE: ast.Lt, ast.Gt: ast.GtE, ast.GtE: ast.Gt, ast.Eq: ast.NotEq, ast.NotEq: ast.Eq,
       ast.In: ast.NotIn, ast.NotIn: ast.In}
BIN = {ast.Add: ast.Sub, ast.Sub: ast.Add, ast.BitAnd: ast.BitOr, ast.BitOr: ast.BitAnd, ast.LShift: ast.RShift,
       ast.RShift: ast.LShift, ast.Mult: ast.FloorDiv, ast.Mod: ast.FloorDiv}


def sites(src: str):
    """yield (kind, lineno, (l0,c0,l1,c1), replacement_source)"""
    tree = ast.parse(src)
    parents = {}
    for n in ast.walk(tree):
        for c in ast.iter_child_nodes(n):
            parents[c] = n

    def in_skipped(n):
        while n in parents:
            n = parents[n]
            if isinstance(n, (ast.FunctionDef,)) and n.name in SKIP_FUNCS:
                return True
        return False

    def is_doc(n):
        p = parents.get(n)
        return isinstance(p, ast.Expr) and isinstance(n, ast.Constant) and isinstance(n.value, str)

    def in_annotation(n):
        c = n
        while c in parents:
            p = parents[c]
            if isinstance(p, ast.arg) and p.annotation is c:
                return True
            if isinstance(p, ast.FunctionDef) and p.returns is c:
                return True
            if isinstance(p, ast.AnnAssign) and p.annotation is c:
                return True
            c = p
        return False

    def span(n):
        return (n.lineno, n.col_offset, n.end_lineno, n.end_col_offset)

    def in_func(n):
        while n in parents:
            n = parents[n]
            if isinstance(n, ast.FunctionDef):
                return True
        return False

    for n in ast.walk(tree):
        if not hasattr(n, "lineno") or in_skipped(n) or in_annotation(n):
            continue
        if isinstance(n, ast.Compare) and len(n.ops) == 1 and type(n.ops[0]) in CMP:
            m = ast.Compare(n.left, [CMP[type(n.ops[0])]()], n.comparators)
            yield ("cmp", n.lineno, span(n), "(" + ast.unparse(m) + ")")
        elif isinstance(n, ast.BinOp) and type(n.op) in BIN:
            if isinstance(n.op, ast.Mod) and isinstance(n.left, ast.Constant) and isinstance(n.left.value, str):
                continue
            if isinstance(n.op, (ast.Add, ast.Mult)) and any(
                    isinstance(x, ast.Constant) and isinstance(x.value, (str, bytes)) for x in (n.left, n.right)):
                continue
            m = ast.BinOp(n.left, BIN[type(n.op)](), n.right)
            yield ("binop", n.lineno, span(n), "(" + ast.unparse(m) + ")")
        elif isinstance(n, ast.BoolOp):
            m = ast.BoolOp(ast.Or() if isinstance(n.op, ast.And) else ast.And(), n.values)
            yield ("boolop", n.lineno, span(n), "(" + ast.unparse(m) + ")")
        elif isinstance(n, ast.UnaryOp) and isinstance(n.op, ast.Not):
            yield ("unnot", n.lineno, span(n), "(" + ast.unparse(n.operand) + ")")
        elif isinstance(n, ast.Constant) and not is_doc(n) and in_func(n):
            if isinstance(n.value, bool):
                yield ("bool", n.lineno, span(n), str(not n.value))
            elif isinstance(n.value, int):
                yield ("const+1", n.lineno, span(n), str(n.value + 1))
                if n.value > 0:
                    yield ("const-1", n.lineno, span(n), str(n.value - 1))
        elif isinstance(n, (ast.If, ast.While)) and in_func(n):
            t = n.test
            yield ("negcond", n.lineno, span(t), "(not (" + ast.unparse(t) + "))")
        elif isinstance(n, (ast.Assign, ast.AugAssign)) and in_func(n):
            yield ("delstmt", n.lineno, span(n), "pass")
        elif isinstance(n, ast.Expr) and isinstance(n.value, ast.Call) and in_func(n):
            yield ("delcall", n.lineno, span(n), "pass")
        elif isinstance(n, ast.Return) and n.value is not None and in_func(n) and not (
                isinstance(n.value, ast.Constant) and n.value.value is None):
            pass  # return-value mutants are covered by the operators above


def apply(src: str, sp, rep: str) -> str:
    lines = src.splitlines(keepends=True)
    l0, c0, l1, c1 = sp
    # ast offsets are utf-8 byte offsets; the sources are ASCII in the mutated regions
    head = "".join(lines[: l0 - 1]) + lines[l0 - 1].encode()[:c0].decode()
    tail = lines[l1 - 1].encode()[c1:].decode() + "".join(lines[l1:])
    return head + rep + tail


def run(cmd, env=None, timeout=1500, cwd=None):
    try:
        p = subprocess.run(cmd, capture_output=True, text=True, env=env, timeout=timeout, cwd=cwd)
        return p.returncode, p.stdout + p.stderr
    except subprocess.TimeoutExpired:
        return 124, "timeout"


def evaluate(job):
    k, scratch, rel, kind, lineno, sp, rep, orig_src, outdir = job
    f = scratch / PKG / rel
    mutated = apply(orig_src, sp, rep)
    rec = {"id": k, "file": rel, "line": lineno, "kind": kind,
           "orig": orig_src.splitlines()[lineno - 1].strip(), "rep": rep}
    try:
        try:
            compile(mutated, str(f), "exec")
        except SyntaxError as e:
            rec["result"] = "syntax-error:" + str(e)[:60]
            return rec
        f.write_text(mutated)
        rec["mut_line"] = mutated.splitlines()[lineno - 1].strip()
        rc, out = run(["/venv/bin/python", str(VERIF / "tools/baseline_check.py"), str(scratch)], timeout=600)
        if rc != 0:
            rec["result"] = "killed-by-tests"
            return rec
        env = dict(os.environ, VERIF_REPO=str(scratch), VERIF_OUT=str(outdir / f"m{k}"))
        rec["checks"] = {}
        for c in CHECKS[rel]:
            t0 = time.time()
            rc, out = run([str(VERIF / "check"), c, "--tier", "quick"], env=env, cwd=str(VERIF))
            rec["checks"][c] = {"rc": rc, "s": round(time.time() - t0, 1)}
            if rc == 1 and "VIOLATION property=" in out:
                v = [l for l in out.splitlines() if l.startswith("VIOLATION")]
                no_input = bool(v and v[0].rstrip().endswith("no-failing-input-found"))
                if "killed_by" not in rec:
                    rec["result"] = "killed"
                    rec["killed_by"] = c
                    rec["violation"] = v[0][:200] if v else ""
                    rec["no_input"] = no_input
                if not no_input:
                    # some check names a concrete failing input: done.  (A check that only sees the correspondence break
                    # - the mutant violates another property than its own - does not end the search for one.)
                    rec["concrete_by"] = c
                    rec["no_input"] = False
                    return rec
            if rc not in (0, 1):
                rec.setdefault("infra", []).append({c: out[-400:]})
        if "killed_by" not in rec:
            rec["result"] = "survived"
        return rec
    finally:
        f.write_text(orig_src)
        shutil.rmtree(outdir / f"m{k}", ignore_errors=True)


def main():
    ap = argparse.ArgumentParser()
    ap.add_argument("--n", type=int, default=120)
    ap.add_argument("--seed", type=int, default=1)
    ap.add_argument("--jobs", type=int, default=5)
    ap.add_argument("--files", default=",".join(CHECKS))
    ap.add_argument("--out", default="mutation/run1")
    ap.add_argument("--redo", default=None, help="earlier run directory: redo its no-input kills")
    ap.add_argument("--redo-survivors", action="store_true")
    a = ap.parse_args()
    rng = random.Random(a.seed)
    outdir = VERIF / a.out
    outdir.mkdir(parents=True, exist_ok=True)
    files = a.files.split(",")
    allsites = []
    for rel in files:
        src = (REPO / PKG / rel).read_text()
        ss = sorted(set(sites(src)))
        allsites += [(rel, s, src) for s in ss]
    print(f"{len(allsites)} mutation sites in {len(files)} files; sampling {a.n}", flush=True)
    sample = rng.sample(allsites, min(a.n, len(allsites)))
    if a.redo:
        # re-evaluate the mutants of an earlier run that were reported without a failing input (or survived)
        old = [json.loads(l) for l in open(VERIF / a.redo / "results.jsonl")]
        want = {(r["file"], r["line"], r["kind"], r["rep"]) for r in old if r.get("no_input") or (a.redo_survivors and r["result"] == "survived")}
        sample = [x for x in allsites if (x[0], x[1][1], x[1][0], x[1][3]) in want]
        print(f"redo: {len(sample)} mutants of {a.redo}", flush=True)
    # one scratch copy per worker; a worker handles one mutant at a time
    scratches = []
    for j in range(a.jobs):
        s = Path(f"/tmp/mut-{os.getpid()}-{j}")
        subprocess.run(["git", "-C", str(REPO), "worktree", "add", "-q", "--detach", str(s), "HEAD"], check=True)
        # the working tree of /repo is what counts (uncommitted hook changes included)
        subprocess.run(["rsync", "-a", "--delete", "--exclude", ".git", str(REPO) + "/", str(s) + "/"], check=True)
        scratches.append(s)
    res_f = open(outdir / "results.jsonl", "a")
    try:
        import queue
        free = queue.Queue()
        for s in scratches:
            free.put(s)

        def work(item):
            k, (rel, (kind, lineno, sp, rep), src) = item
            s = free.get()
            try:
                return evaluate((k, s, rel, kind, lineno, sp, rep, src, outdir))
            finally:
                free.put(s)

        with ThreadPoolExecutor(a.jobs) as ex:
            for rec in ex.map(work, list(enumerate(sample))):
                rec["seed"] = a.seed
                res_f.write(json.dumps(rec) + "\n")
                res_f.flush()
                print(f"[{rec['id']}] {rec['file']}:{rec['line']} {rec['kind']} -> {rec['result']} "
                      f"{rec.get('killed_by', '')}  | {rec.get('mut_line', '')[:90]}", flush=True)
    finally:
        for s in scratches:
            subprocess.run(["git", "-C", str(REPO), "worktree", "remove", "--force", str(s)])
    return 0


if __name__ == "__main__":
    sys.exit(main())
