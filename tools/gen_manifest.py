#!/usr/bin/env python3
"""Regenerate MANIFEST.json from tools/manifest_src.json (keeps it schema-valid)."""
import json, sys
from pathlib import Path
V = Path(__file__).resolve().parent.parent
src = json.loads((V / "tools" / "manifest_src.json").read_text())
props = [json.loads(l)["id"] for l in (V / "properties.jsonl").read_text().splitlines() if l.strip()]
checks = []
for pid in props:
    c = src["claimed"].get(pid)
    if not c:
        continue
    checks.append({
        "property_id": pid,
        "quick_cmd": f"./check {pid} --tier quick",
        "thorough_cmd": f"./check {pid} --tier thorough",
        "evidence_file": f"evidence/{pid}.json",
        "replay_cmd_template": f"./check {pid} --replay {{path}}",
        "engine": "lean4-proof+correspondence",
        "level_claimed": {"category": "proof", "text": c["text"], "design_ref": c.get("design_ref", "DESIGN.md §7")},
        "level_note": c["note"],
        "technique": c.get("technique", "Lean 4 theorem about a hand-written model + differential correspondence check against /repo"),
    })
na = [{"property_id": p, "reason": src["not_applicable"].get(p, "not yet claimed: model and theorems for this property are still being built (see DESIGN.md order of work)")}
      for p in props if p not in src["claimed"]]
m = {
    "version": 1,
    "setup_cmd": "cd lean && lake build",
    "hooks": {"guard": "NRF24_CIRCUITPYTHON_NRF24L01_VERIF", "enable": "no hooks are needed: the harness patches time / urandom / the header id counter from outside; /repo carries only fix: commits",
              "baseline_off_cmd": "cd /repo && /venv/bin/python -m pytest -ra -q -p no:cacheprovider --timeout=900 --continue-on-collection-errors",
              "source_commits": [], "add_only": True},
    "engines": [{"name": "lean4-proof+correspondence", "path": "lean/ + harness/", "serves_properties": [c["property_id"] for c in checks],
                 "kind_free_text": "Lean 4 theorems (kernel-checked, axioms audited) about an executable model; compiled model driver nrfdrv compared with the real Python code on generated and exhaustive inputs; failing-input search evaluates the Lean spec against the implementation"}],
    "checks": checks,
    "notes": src.get("notes", ""),
    "not_applicable": na,
}
(V / "MANIFEST.json").write_text(json.dumps(m, indent=1) + "\n")
import jsonschema  # noqa
jsonschema.validate(m, json.loads(Path("/root/.vp/MANIFEST.schema.json").read_text()))
print("MANIFEST ok:", len(checks), "checks,", len(na), "not claimed")
